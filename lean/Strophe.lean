import Strophe.Util.Hex
import Strophe.Gen.Base64Tables
import Strophe.Model.Base64
import Strophe.Drv.B64
