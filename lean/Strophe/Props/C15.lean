/-
C15 — DNS SRV answers are decoded safely and correctly.
Property theorems and non-vacuity examples only; lemmas live in Lemmas/Resolver*.lean.

Model: Model/Resolver.lean (one Lean function per C function of src/resolver.c, raw decoder).
Spec:  Spec/Dns.lean (RFC 1035 / RFC 2782 relations, independent of the decoder).

* Termination of the decoder — including every forged compression pointer (forward, self, loops)
  — is Lean's own termination check on `nameLoop`, `answers`, `questions`, `bubble`, `cString`
  in Model/Resolver.lean: every definition is total, without fuel.  Every theorem below therefore quantifies over
  runs that end.
* Cursors (`unsigned i, j`) are Nat in the model and every cursor expression is range-checked
  (`Err.cursorWrap`); `decode_safe` shows the check never fires for buffers up to 64 KiB (indeed
  below 2^32 - 2^17 bytes), so Nat and 32-bit arithmetic agree.
-/
import Strophe.Model.Resolver
import Strophe.Spec.Dns
import Strophe.Lemmas.ResolverSort
import Strophe.Lemmas.ResolverSafe
import Strophe.Lemmas.ResolverCorrect

namespace Strophe.C15
open Strophe Strophe.Resolver Strophe.Dns

/-! ### pinning: the constants extracted from the C source are the RFC's / the property's -/
theorem pin_constants :
    Gen.maxDomainLen = 256 ∧ Gen.messageHeaderLen = 12 ∧ Gen.messageTSrv = 33 ∧
    Gen.messageCIn = 1 ∧ Gen.messageResponse = 1 ∧ uintRange = 2 ^ 32 := by decide

/-! ### memory safety -/

/-- No buffer whatsoever makes the decoder read outside the buffer, read or write outside the
    256-byte target field (or run `strlen` off its end); and for buffers of at most 64 KiB no
    32-bit cursor wraps, so the decoder ends in `found` or `notFound`. -/
theorem decode_safe (buf : Bytes) :
    lookupBuf buf ≠ .error .oobRead ∧ lookupBuf buf ≠ .error .oobWrite ∧
    (buf.length ≤ 65536 → ∀ e, lookupBuf buf ≠ .error e) := by
  unfold lookupBuf
  rcases lookupArr_cases buf.toArray with ⟨h, hb⟩ | ⟨h, _⟩ | ⟨l, _, _, _, h⟩
  · rw [h]
    refine ⟨by simp, by simp, ?_⟩
    intro hlen
    unfold Big uintRange at hb
    simp only [List.size_toArray] at hb
    omega
  · rw [h]; simp
  · rw [h]; simp

/-- … the same bound, stated for the real limit: any buffer below 2^32 - 2^17 bytes -/
theorem decode_no_wrap (buf : Bytes) (h : buf.length + 131072 < 2 ^ 32) (e : Err) :
    lookupBuf buf ≠ .error e := by
  unfold lookupBuf
  rcases lookupArr_cases buf.toArray with ⟨_, hb⟩ | ⟨h', _⟩ | ⟨l, _, _, _, h'⟩
  · unfold Big uintRange at hb
    simp only [List.size_toArray] at hb
    omega
  · rw [h']; simp
  · rw [h']; simp

/-! ### consistent outcome -/

/-- 'found' comes with a non-empty list of NUL-free targets shorter than 256 bytes (i.e. C
    strings that fit the field with their terminator) -/
theorem outcome_consistent (buf : Bytes) (l : List (Rr Bytes)) (h : lookupBuf buf = .found l) :
    l ≠ [] ∧ ∀ r ∈ l, r.target.length < 256 ∧ 0 ∉ r.target := by
  unfold lookupBuf at h
  rcases lookupArr_cases buf.toArray with ⟨h', _⟩ | ⟨h', _⟩ | ⟨L, _, hne, hgood, h'⟩
  · rw [h'] at h; cases h
  · rw [h'] at h; cases h
  · rw [h'] at h
    injection h with h
    subst h
    refine ⟨by simpa using hne, ?_⟩
    intro r hr
    obtain ⟨x, hx, rfl⟩ := List.mem_map.mp hr
    obtain ⟨hsz, hnul⟩ := hgood x hx
    have := cStr_props x.target hnul
    rw [hsz] at this
    exact this

/-- at the level of `resolver_srv_lookup_buf` itself: FOUND iff the list is non-empty ('not found'
    comes with no list), and every raw 256-byte target field contains a NUL -/
theorem outcome_consistent_raw (buf : Bytes) (set : Bool) (l : List (Rr Buf))
    (h : lookupList buf.toArray = .ok (set, l)) :
    (set = true ↔ l ≠ []) ∧ ∀ r ∈ l, r.target.size = 256 ∧ 0 ∈ r.target.toList := by
  have hs := lookupList_safe buf.toArray
  rw [h] at hs
  obtain ⟨hgood, hiff⟩ := hs
  refine ⟨hiff, ?_⟩
  intro r hr
  obtain ⟨hsz, k, hk, hz⟩ := hgood r hr
  refine ⟨hsz, ?_⟩
  rw [← hz]
  exact Array.getElem_mem_toList hk

/-! ### the sort -/

/-- priority ascending, then weight descending -/
def Sorted {τ} (l : List (Rr τ)) : Prop :=
  l.Pairwise fun a b => a.prio < b.prio ∨ (a.prio = b.prio ∧ a.weight ≥ b.weight)

/-- `resolver_srv_list_sort` (the do/while bubble sort on the linked list; its termination is
    proved in the model by the decreasing number of inversions) sorts and permutes -/
theorem sort_correct {τ} (l : List (Rr τ)) : Sorted (sort l) ∧ (sort l).Perm l :=
  ⟨sort_sorted l, sort_perm l⟩

/-- … and is stable: the C code swaps neighbours only when they are strictly out of order, so
    records with the same (priority, weight) keep their relative order -/
theorem sort_stable {τ} (l : List (Rr τ)) (p w : Nat) :
    (sort l).filter (fun r => r.prio == p && r.weight == w) =
      l.filter (fun r => r.prio == p && r.weight == w) :=
  sort_filter l p w

/-- whatever the buffer, a returned list is ordered -/
theorem found_sorted (buf : Bytes) (l : List (Rr Bytes)) (h : lookupBuf buf = .found l) :
    Sorted l := by
  unfold lookupBuf at h
  rcases lookupArr_cases buf.toArray with ⟨h', _⟩ | ⟨h', _⟩ | ⟨L, hL, _, _, h'⟩
  · rw [h'] at h; cases h
  · rw [h'] at h; cases h
  · rw [h'] at h
    injection h with h
    subst h
    have hsorted : L.Pairwise SrvLe := by
      unfold lookupList at hL
      split at hL
      · cases hL
      · injection hL with hL
        injection hL with _ hL
        rw [← hL]
        exact sort_sorted _
    exact List.Pairwise.map cOf (fun a b hab => hab) hsorted

/-! ### functional correctness -/

/-- an SRV answer of the specification as the caller's record: the target is read as a C
    string, so an (exotic) NUL octet inside a label cuts it — see `toRr_of_nulFree` -/
def toRr (s : Srv) : Rr Bytes := Resolver.toRr s

theorem toRr_of_nulFree (s : Srv) (h : 0 ∉ s.target) :
    toRr s = ⟨s.prio, s.weight, s.port, s.target⟩ := by
  unfold toRr Resolver.toRr cName
  congr 1
  have hp : ∀ a ∈ s.target, (fun x : UInt8 => decide (x ≠ 0)) a = true := by
    intro a ha
    simp only [ne_eq, decide_not, Bool.not_eq_eq_eq_not, Bool.not_true, decide_eq_false_iff_not]
    rintro rfl
    exact h ha
  have := List.takeWhile_append_of_pos (l₂ := []) hp
  simpa using this

/-- For every well-formed response (any mix of record types, any label lengths, arbitrary name
    compression) of at most 64 KiB the decoder returns exactly the IN/SRV answers with priority,
    weight, port and fully expanded target: 'not found' if there is none, else the list
    `sort (reverse answers)` — the C code prepends each record and then runs its stable bubble
    sort, which by `sort_correct`/`sort_stable` is the permutation ordered by priority then
    descending weight in which records with equal keys appear in reverse message order. -/
theorem decode_correct (buf : Bytes) (msg : Message) (hwf : WfResponse buf.toArray msg)
    (hlen : buf.length ≤ 65536) :
    lookupBuf buf =
      if srvOf msg = [] then .notFound else .found (sort ((srvOf msg).reverse.map toRr)) := by
  unfold lookupBuf
  exact lookupArr_correct hwf (by simp [uintRange]; omega)

/-! ### non-vacuity -/

/-- tests/test_resolver.c `data1` -/
def data1 : Bytes := [
  0x95, 0xf3, 0x81, 0x80, 0x00, 0x01, 0x00, 0x01, 0x00, 0x00, 0x00, 0x00, 0x0c, 0x5f, 0x78, 0x6d,
  0x70, 0x70, 0x2d, 0x63, 0x6c, 0x69, 0x65, 0x6e, 0x74, 0x04, 0x5f, 0x74, 0x63, 0x70, 0x06, 0x6a,
  0x61, 0x62, 0x62, 0x65, 0x72, 0x04, 0x6b, 0x69, 0x65, 0x76, 0x02, 0x75, 0x61, 0x00, 0x00, 0x21,
  0x00, 0x01, 0xc0, 0x0c, 0x00, 0x21, 0x00, 0x01, 0x00, 0x00, 0x00, 0x3b, 0x00, 0x16, 0x00, 0x01,
  0x00, 0x00, 0x14, 0x66, 0x06, 0x6a, 0x61, 0x62, 0x62, 0x65, 0x72, 0x04, 0x6b, 0x69, 0x65, 0x76,
  0x02, 0x75, 0x61, 0x00]

/-- tests/test_resolver.c `data5` (compressed targets) -/
def data5 : Bytes := [
  0x00, 0x00, 0x81, 0x80, 0x00, 0x01, 0x00, 0x02, 0x00, 0x00, 0x00, 0x00, 0x0c, 0x5f, 0x78, 0x6d,
  0x70, 0x70, 0x2d, 0x63, 0x6c, 0x69, 0x65, 0x6e, 0x74, 0x04, 0x5f, 0x74, 0x63, 0x70, 0x06, 0x6a,
  0x61, 0x62, 0x62, 0x65, 0x72, 0x03, 0x6f, 0x72, 0x67, 0x00, 0x00, 0x21, 0x00, 0x01, 0xc0, 0x0c,
  0x00, 0x21, 0x00, 0x01, 0x00, 0x00, 0x01, 0x9e, 0x00, 0x12, 0x00, 0x1f, 0x00, 0x1e, 0x14, 0x66,
  0x09, 0x68, 0x65, 0x72, 0x6d, 0x65, 0x73, 0x32, 0x76, 0x36, 0xc0, 0x1e, 0xc0, 0x0c, 0x00, 0x21,
  0x00, 0x01, 0x00, 0x00, 0x01, 0x9e, 0x00, 0x10, 0x00, 0x1e, 0x00, 0x1e, 0x14, 0x66, 0x07, 0x68,
  0x65, 0x72, 0x6d, 0x65, 0x73, 0x32, 0xc0, 0x1e]

private def xmppClient : Bytes := cs ['_','x','m','p','p','-','c','l','i','e','n','t']
private def tcp : Bytes := cs ['_','t','c','p']
private def jabber : Bytes := cs ['j','a','b','b','e','r']
private def kiev : Bytes := cs ['k','i','e','v']
private def ua : Bytes := cs ['u','a']
private def org : Bytes := cs ['o','r','g']
private def hermes2 : Bytes := cs ['h','e','r','m','e','s','2']
private def hermes2v6 : Bytes := cs ['h','e','r','m','e','s','2','v','6']

/-- a label step whose side conditions are all decidable -/
private theorem mkLabel {m : Msg} {start i next : Nat} (lab : Bytes) {rest : List Bytes}
    (h : m[i]? = some (UInt8.ofNat lab.length) ∧ 1 ≤ lab.length ∧ lab.length ≤ 63 ∧
      ∀ k, (h : k < lab.length) → m[i + 1 + k]? = some lab[k])
    (hr : NameFrom m start (i + 1 + lab.length) rest next) :
    NameFrom m start i (lab :: rest) next := by
  obtain ⟨h1, h2, h3, h4⟩ := h
  have e : (UInt8.ofNat lab.length).toNat = lab.length := by
    simp only [UInt8.toNat_ofNat']; omega
  exact NameFrom.label h1 (by omega) (by omega) e.symm h4 (by rw [e]; exact hr)

/-- the name "_xmpp-client._tcp.jabber.kiev.ua" at offset 12 of data1, 34 octets -/
private theorem data1_qname (start : Nat) :
    NameFrom data1.toArray start 12 [xmppClient, tcp, jabber, kiev, ua] 46 :=
  mkLabel xmppClient (by decide) <| mkLabel tcp (by decide) <| mkLabel jabber (by decide) <|
    mkLabel kiev (by decide) <| mkLabel ua (by decide) <| NameFrom.root (by decide)

def msg1 : Message where
  questions := [⟨[xmppClient, tcp, jabber, kiev, ua], 33, 1⟩]
  answers := [⟨[xmppClient, tcp, jabber, kiev, ua], 33, 1, 59, 22,
    some ⟨1, 0, 5222, [jabber, kiev, ua]⟩⟩]

/-- the first captured packet of tests/test_resolver.c is a well-formed response carrying one
    SRV record 1 0 5222 jabber.kiev.ua … -/
theorem data1_wf : WfResponse data1.toArray msg1 := by
  refine ⟨⟨0x81, by decide, by decide⟩, ⟨0x80, by decide, by decide⟩, by decide, by decide,
    by decide, 50, 84, ?_, ?_⟩
  · exact QuestionsAt.cons (len := 34) (data1_qname 12) (by decide) (by decide) QuestionsAt.nil
  · refine AnswersAt.cons (len := 2) ?_ (by decide) (by decide) (by decide) (by decide) (by decide)
      ?_ AnswersAt.nil
    · exact NameFrom.ptr (hi := 0xc0) (lo := 0x0c) (by decide) (by decide) (by decide) rfl
        (by decide) (data1_qname 12) (fun _ => rfl)
    · rw [if_pos (by decide)]
      refine ⟨_, rfl, by decide, by decide, by decide, 16, ?_, by decide, by decide⟩
      exact mkLabel jabber (by decide) <| mkLabel kiev (by decide) <| mkLabel ua (by decide) <|
        NameFrom.root (by decide)

example : srvOf msg1 = [⟨1, 0, 5222, cs ['j','a','b','b','e','r','.','k','i','e','v','.','u','a']⟩] := by
  decide

/-- … and the model, evaluated by the kernel, returns exactly that (independently of
    `decode_correct`) -/
example : lookupBuf data1 =
    .found [⟨1, 0, 5222, cs ['j','a','b','b','e','r','.','k','i','e','v','.','u','a']⟩] := by
  decide +kernel

/-- `decode_correct` applies to it -/
example : lookupBuf data1 = .found (sort ((srvOf msg1).reverse.map toRr)) :=
  decode_correct data1 msg1 data1_wf (by decide)

/-- compressed targets (data5): "hermes2v6" + pointer to "jabber.org" inside the question,
    records returned in priority order (the second answer first) -/
example : lookupBuf data5 = .found [
    ⟨30, 30, 5222, cs ['h','e','r','m','e','s','2','.','j','a','b','b','e','r','.','o','r','g']⟩,
    ⟨31, 30, 5222, cs ['h','e','r','m','e','s','2','v','6','.','j','a','b','b','e','r','.','o','r','g']⟩] := by
  decide +kernel

private theorem data5_jabberOrg : NameFrom data5.toArray 30 30 [jabber, org] 42 :=
  mkLabel jabber (by decide) <| mkLabel org (by decide) <| NameFrom.root (by decide)

private theorem data5_qname : NameFrom data5.toArray 12 12 [xmppClient, tcp, jabber, org] 42 :=
  mkLabel xmppClient (by decide) <| mkLabel tcp (by decide) <| mkLabel jabber (by decide) <|
    mkLabel org (by decide) <| NameFrom.root (by decide)

def msg5 : Message where
  questions := [⟨[xmppClient, tcp, jabber, org], 33, 1⟩]
  answers := [
    ⟨[xmppClient, tcp, jabber, org], 33, 1, 414, 18, some ⟨31, 30, 5222, [hermes2v6, jabber, org]⟩⟩,
    ⟨[xmppClient, tcp, jabber, org], 33, 1, 414, 16, some ⟨30, 30, 5222, [hermes2, jabber, org]⟩⟩]

/-- data5 is well-formed although its targets end in compression pointers into the question -/
theorem data5_wf : WfResponse data5.toArray msg5 := by
  refine ⟨⟨0x81, by decide, by decide⟩, ⟨0x80, by decide, by decide⟩, by decide, by decide,
    by decide, 46, 104, ?_, ?_⟩
  · exact QuestionsAt.cons (len := 30) data5_qname (by decide) (by decide) QuestionsAt.nil
  · refine AnswersAt.cons (len := 2) ?_ (by decide) (by decide) (by decide) (by decide) (by decide)
      ?_ (AnswersAt.cons (len := 2) ?_ (by decide) (by decide) (by decide) (by decide) (by decide)
      ?_ AnswersAt.nil)
    · exact NameFrom.ptr (hi := 0xc0) (lo := 0x0c) (by decide) (by decide) (by decide) rfl
        (by decide) data5_qname (fun _ => rfl)
    · rw [if_pos (by decide)]
      refine ⟨_, rfl, by decide, by decide, by decide, 12, ?_, by decide, by decide⟩
      exact mkLabel hermes2v6 (by decide) <|
        NameFrom.ptr (hi := 0xc0) (lo := 0x1e) (by decide) (by decide) (by decide) rfl (by decide)
          data5_jabberOrg (fun h => by cases h)
    · exact NameFrom.ptr (hi := 0xc0) (lo := 0x0c) (by decide) (by decide) (by decide) rfl
        (by decide) data5_qname (fun _ => rfl)
    · rw [if_pos (by decide)]
      refine ⟨_, rfl, by decide, by decide, by decide, 10, ?_, by decide, by decide⟩
      exact mkLabel hermes2 (by decide) <|
        NameFrom.ptr (hi := 0xc0) (lo := 0x1e) (by decide) (by decide) (by decide) rfl (by decide)
          data5_jabberOrg (fun h => by cases h)

example : lookupBuf data5 = .found (sort ((srvOf msg5).reverse.map toRr)) :=
  decode_correct data5 msg5 data5_wf (by decide)

/-- 'not found' does occur: a query (QR = 0), and a response without answers -/
example : lookupBuf [0, 0, 0x01, 0, 0, 0, 0, 0, 0, 0, 0, 0] = .notFound := by decide +kernel
example : lookupBuf [0, 0, 0x81, 0x80, 0, 0, 0, 0, 0, 0, 0, 0] = .notFound := by decide +kernel

/-- forged pointers end the decoding instead of looping: a self-pointing owner name -/
example : lookupBuf [0, 0, 0x81, 0x80, 0, 0, 0, 1, 0, 0, 0, 0, 0xc0, 0x0c, 0, 33, 0, 1, 0, 0, 0, 0,
    0, 7, 0, 1, 0, 2, 0x14, 0x66, 0] = .notFound := by decide +kernel

/-- The excluded shape (see Spec/Dns): labels followed by a pointer to a bare root label.  The C
    decoder (checked against the real code under ASan) returns the target "a." with a trailing
    dot, where the expanded name is "a". -/
theorem trailing_dot_quirk :
    lookupBuf [0, 0, 0x81, 0x80, 0, 0, 0, 1, 0, 0, 0, 0,  0,  0, 33, 0, 1, 0, 0, 0, 0, 0, 10,
      0, 1, 0, 2, 0x14, 0x66,  1, 0x61, 0xc0, 0x0c] = .found [⟨1, 2, 5222, cs ['a', '.']⟩] := by
  decide +kernel

/-- the sort on a list that needs several passes, evaluated by the kernel -/
example : (sort [(⟨20, 0, 1, ()⟩ : Rr Unit), ⟨5, 0, 2, ()⟩, ⟨20, 7, 3, ()⟩, ⟨5, 9, 4, ()⟩]).map (·.port)
    = [4, 2, 3, 1] := by decide +kernel

end Strophe.C15
