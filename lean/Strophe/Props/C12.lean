/-
C12 — Every object is freed exactly once; references keep objects alive.   Property theorems only.

Model: `Model/Store.lean` — a heap of stanza nodes with RAW POINTERS (`parent`, `prev`, `next`, `children`),
reference counts and liveness, on which xmpp_stanza_new / _clone / _copy / _release (cascade) /
_add_child(_ex) / _set_* / _del_attribute / _reply / _reply_error / xmpp_error_new / _new_from_string /
_to_text / _get_text act in the order the C code reads and writes memory, with the allocator's books
(`Mem.blocks`: blocks obtained and not yet returned; `Mem.freed`: node blocks returned, in order).  Every
`stanza->field` access goes through `Mem.deref`, which answers `Fault.uaf` for a freed node, so "nothing is
used after being freed / freed twice" is "no `Fault.uaf`".  The attribute tables are the byte-exact model
of src/hash.c (`Model/HashTab.lean`), whose entries determine the table's blocks.

The caller is a program over 32 handle slots (`Op`, `step`, `exec`; engine `own`); a non-empty slot IS one
reference the caller holds.  `WellOwned` states the documented ownership rules:
  R1 a reference is given up exactly once (`relkeep` — release and keep using — is excluded),
  R2 xmpp_stanza_add_child_ex(.., 0) hands the reference over (slot emptied),
  R3 a stanza is put below another one only while it is detached (`Detached`: no parent) and never below
     itself or its own descendant (`NoCycle`),
  R4 borrowed pointers (children / next) are resolved anew for every call.
Everything else is allowed: any order, clones of (grand)children kept beyond their parents, releases in any
order, re-attachment of survivors.

The code modelled is the REPAIRED xmpp_stanza_release (/repo b4a4c03): before that commit the property was
false — `d6_old_code_uaf` is the machine-checked witness (finding D6), `d6_repaired` the same program on the
repaired cascade.

Not theorems (oracles of the check, see check/props/c12.py): allocator bypass (link-wrapped malloc family,
expat / zlib allocator routing; known finding D28 for a second context), whole-connection balance (engine
`conn`, companion pass c12conn), hand-over of SM state between connection objects and global timed handlers
at xmpp_ctx_free (ops of engine `own` without a model).
-/
import Strophe.Lemmas.StoreProg

namespace Strophe.C12
open Strophe Strophe.Stanza Strophe.Store

/-! ### pinning -/

/-- the engine's handle slots -/
theorem pin_slots : nslots = 32 := rfl

/-- the block price list: 1 per node, 1 per name / text, per attribute table 2 + 3 per attribute -/
theorem pin_block_prices (n : Node) :
    n.owned = 1 + (match n.data with | some _ => 1 | none => 0) +
      (match n.attrs with | some t => 2 + 3 * t.toList.length | none => 0) := by
  cases hd : n.data <;> cases ha : n.attrs <;> simp [Node.owned, dataBlocks, attrBlocks, tabBlocks, hd, ha]

/-- xmpp_stanza_new: reference count 1, no links, no strings -/
theorem pin_fresh : Node.fresh = ⟨true, 1, none, none, none, none, .unknown, none, none⟩ := rfl

/-! ### nothing is used after being freed, nothing is freed twice -/

/-- `none` = the run ended without a fault -/
def faultOf {α} : R α → Option Fault
  | .ok _ => none
  | .error f => some f

/-- NO USE AFTER FREE, NO DOUBLE FREE: a program that respects the ownership rules runs to its end; no
    `stanza->field` access (of release, add_child, the renderer, copy, the accessors, the path walks) ever
    meets a freed block, no walk leaves the tree shape, no loop runs out of fuel. -/
theorem no_use_after_free (prog : List Op) (h : WellOwned St.init prog) :
    ∃ st, exec St.init prog = .ok st := by
  obtain ⟨st, he, _⟩ := exec_good prog St.init good_init h
  exact ⟨st, he⟩

theorem no_fault (prog : List Op) (h : WellOwned St.init prog) : faultOf (exec St.init prog) = none := by
  obtain ⟨st, he⟩ := no_use_after_free prog h
  rw [he]; rfl

/-- … and so does every op on the way: the state before each op of a well-owned program is reached without
    fault (prefix form). -/
theorem no_use_after_free_prefix (a b : List Op) (h : WellOwned St.init (a ++ b)) :
    ∃ st, exec St.init a = .ok st ∧ WellOwned st b := by
  have key : ∀ (a : List Op) (st : St), GoodSt st → WellOwned st (a ++ b) →
      ∃ st', exec st a = .ok st' ∧ WellOwned st' b := by
    intro a
    induction a with
    | nil => intro st _ hw; exact ⟨st, rfl, hw⟩
    | cons op rest ih =>
      intro st hg hw
      simp only [List.cons_append, WellOwned] at hw
      obtain ⟨st1, out, he, hg1⟩ := step_good hg op hw.1
      rw [he] at hw
      obtain ⟨st', he', hw'⟩ := ih st1 hg1 hw.2
      exact ⟨st', by simp [exec, he, bind, Except.bind, he'], hw'⟩
  exact key a St.init good_init h

/-! ### freed exactly once -/

/-- AT MOST ONCE, for ANY program (well-owned or not) that ran without a fault: the log of node blocks
    returned to the allocator has no duplicates and lists exactly the nodes that are dead. -/
theorem freed_at_most_once (prog : List Op) (st : St) (he : exec St.init prog = .ok st) :
    st.mem.freed.Nodup ∧ ∀ x, x ∈ st.mem.freed ↔ (x < st.mem.size ∧ (st.mem.get x).live = false) := by
  have hb := bal_exec prog St.init st Bal.empty he
  refine ⟨hb.freedNodup, fun x => ⟨fun hx => ⟨hb.freedLt x hx, hb.freedDead x hx⟩, fun hx => hb.deadFreed x hx.1 hx.2⟩⟩

/-- EXACTLY ONCE: when the caller has released its last reference, every node ever allocated is dead and in
    the log (once, by `freed_at_most_once`), and the allocator has all its blocks back. -/
theorem freed_exactly_once (prog : List Op) (h : WellOwned St.init prog) (st : St)
    (he : exec St.init prog = .ok st) (hn : st.noRefs) :
    st.mem.blocks = 0 ∧ (∀ x, (st.mem.get x).live = false) ∧ (∀ x, x < st.mem.size → x ∈ st.mem.freed) ∧
      st.mem.freed.Nodup := by
  obtain ⟨st', he', hg⟩ := exec_good prog St.init good_init h
  rw [he] at he'
  cases he'
  obtain ⟨⟨G, hi⟩, _⟩ := hg
  rw [holds_noRefs hn] at hi
  have hdead := all_dead hi
  have hb := bal_exec prog St.init st Bal.empty he
  refine ⟨by rw [hb.blocks]; exact liveBlocks_all_dead hdead, hdead, fun x hx => hb.deadFreed x hx (hdead x),
    hb.freedNodup⟩

/-- the engine's `end` (release every handle, in index order) after ANY well-owned program leaves zero live
    blocks — the oracle of the check, as a theorem about the model -/
theorem end_releases_everything (prog : List Op) (h : WellOwned St.init prog) :
    ∃ st, exec St.init (prog ++ [.endAll]) = .ok st ∧ st.mem.blocks = 0 := by
  have hw : WellOwned St.init (prog ++ [.endAll]) := by
    apply wellOwned_append _ _ _ h
    intro st' _
    simp only [WellOwned, Pre, true_and]
    split <;> trivial
  obtain ⟨st, he, hg⟩ := exec_good _ St.init good_init hw
  refine ⟨st, he, ?_⟩
  obtain ⟨s1, h1, hw1⟩ := no_use_after_free_prefix prog [.endAll] hw
  have hn : st.noRefs := by
    rw [exec_append, h1] at he
    simp only [bind, Except.bind, exec, step] at he
    cases hr : releaseAll s1.slots s1.mem with
    | error e => rw [hr] at he; simp at he
    | ok m' =>
      rw [hr] at he
      simp [pure, Except.pure] at he
      subst he
      intro i
      simp [St.slot, List.getD_eq_getElem?_getD, List.getElem?_replicate]
      split <;> rfl
  exact (freed_exactly_once _ hw st he hn).1

/-! ### references keep objects alive -/

/-- ALIVE WHILE REFERENCED: as long as the caller holds a reference to a stanza (whatever happened to its
    parent, its siblings, other references), the stanza and everything the C code can reach below it —
    `children`, then `next` of everything below — is live. -/
theorem alive_while_referenced (prog : List Op) (h : WellOwned St.init prog) (st : St)
    (he : exec St.init prog = .ok st) (i id : Nat) (hs : st.slot i = some id) (y : Nat)
    (hr : Reach st.mem id y) : (st.mem.get y).live = true := by
  obtain ⟨st', he', hg⟩ := exec_good prog St.init good_init h
  rw [he] at he'
  cases he'
  obtain ⟨⟨G, hi⟩, _⟩ := hg
  exact (reach_desc hi (held_live hi (slot_held hs)) hr).2

/-- … with a reference count that is exactly: one for the parent, if any, plus one per handle; in
    particular a stanza the caller holds never has count 0. -/
theorem refcount_exact (prog : List Op) (h : WellOwned St.init prog) (st : St)
    (he : exec St.init prog = .ok st) (x : Nat) (hl : (st.mem.get x).live = true) :
    (st.mem.get x).ref = (if (st.mem.get x).parent.isSome then 1 else 0) + st.holds x ∧
      1 ≤ (st.mem.get x).ref := by
  obtain ⟨st', he', hg⟩ := exec_good prog St.init good_init h
  rw [he] at he'
  cases he'
  obtain ⟨⟨G, hi⟩, _⟩ := hg
  have hr := hi.ref x hl (by simp)
  by_cases hp : HasPar G x
  · obtain ⟨q, hq⟩ := hp
    have := (hi.kid q x hq).2.2
    rw [hpN_of ⟨q, hq⟩] at hr
    simp [this]; simpa using hr
  · have := (hi.root x hl (by simp) hp rfl).2
    rw [hpN_not hp] at hr
    simp [this]; simpa using hr

/-- NO DANGLING PARENT (what D6 was about): the `parent` pointer of a live stanza is NULL or points to a
    live stanza — in particular for a child that outlived its parent it is NULL. -/
theorem parent_never_dangles (prog : List Op) (h : WellOwned St.init prog) (st : St)
    (he : exec St.init prog = .ok st) (x p : Nat) (hl : (st.mem.get x).live = true)
    (hp : (st.mem.get x).parent = some p) : (st.mem.get p).live = true := by
  obtain ⟨st', he', hg⟩ := exec_good prog St.init good_init h
  rw [he] at he'
  cases he'
  obtain ⟨⟨G, hi⟩, _⟩ := hg
  exact parent_live hi hl hp

/-! ### the live-block count is what the ops report -/

/-- BLOCKS PREDICTED, for ANY program that ran without a fault: the allocator's count of outstanding blocks
    (updated where the C code calls strophe_alloc / strophe_strdup / strophe_free) is the structural count
    over the live nodes — 1 per node, 1 per string, 2 + 3·entries per attribute table. -/
theorem blocks_predicted (prog : List Op) (st : St) (he : exec St.init prog = .ok st) :
    st.mem.blocks = st.mem.liveBlocks :=
  (bal_exec prog St.init st Bal.empty he).blocks

/-! ### finding D6: the cascade before the repair -/

def bs (s : String) : Bytes := s.toList.map fun c => UInt8.ofNat c.toNat

/-- `p = new; name p; ns p "n"; c = new; name c; ns c "n"; add_child(p, c)`: ids 0 and 1 -/
def d6Setup : R Mem := do
  let (m, p) := stanzaNew Mem.empty
  let (m, _) ← setName m p (bs "p")
  let (m, _) ← setAttribute m p xmlnsKey (bs "n")
  let (m, c) := stanzaNew m
  let (m, _) ← setName m c (bs "c")
  let (m, _) ← setAttribute m c xmlnsKey (bs "n")
  let (m, _) ← addChildEx m p c true
  pure m

/-- the caller releases the parent (its only reference), keeps the child, renders the child — on the cascade
    as it was BEFORE /repo b4a4c03 -/
def d6Old : R (Except Stanza.Err (Bytes × Nat)) := do
  let m ← d6Setup
  let (m, _) ← releaseOld m.fuel m 0
  toText m 1

def d6New : R (Except Stanza.Err (Bytes × Nat)) := do
  let m ← d6Setup
  let (m, _) ← release m.fuel m 0
  toText m 1

/-- D6: the unrepaired code follows `child->parent` into the freed parent (replay: corpus/C12/
    d6_child_outlives_parent.ops, ASan heap-use-after-free in _render_stanza_recursive) -/
theorem d6_old_code_uaf : faultOf d6Old = some (.uaf 0) := by decide +kernel

/-- the same program on the repaired cascade: no fault -/
theorem d6_repaired : faultOf d6New = none := by decide +kernel

/-! ### the hypotheses are satisfiable and needed -/

def T (s : Nat) (p : List Nat := []) : Tgt := ⟨s, p⟩

/-- a parent with two children, one of them with a child of its own; clones of a child and of the
    grandchild are kept; the parent is released first; the survivors are rendered, one is put below a new
    parent; everything is released in the end -/
def progSurvivors : List Op :=
  [.new 0, .name (T 0) (bs "p"), .attr (T 0) xmlnsKey (bs "n"),
   .new 1, .name (T 1) (bs "c"), .attr (T 1) xmlnsKey (bs "n"), .attr (T 1) (bs "k") (bs "v"),
   .new 2, .text (T 2) (bs "t"), .addx (T 1) 2,
   .new 3, .name (T 3) (bs "d"),
   .add (T 0) 1, .addx (T 0) 3,
   .clone (T 0 [0, 0]) 4, .clone (T 0 [1]) 5,
   .rel 0, .render (T 1), .rel 1, .render (T 4), .render (T 5),
   .new 6, .name (T 6) (bs "q"), .addx (T 6) 5, .render (T 6),
   .delattr (T 6 [0]) (bs "nokey"), .copy (T 6) 7, .rel 6, .rel 4, .rel 7]

example : WellOwned St.init progSurvivors := by decide +kernel

/-- … and ends with every block returned -/
example : (match exec St.init progSurvivors with
    | .ok st => some st.mem.blocks
    | .error _ => none) = some 0 := by decide +kernel

/-- after the parent was released the kept child is live with count 1 and NO parent pointer; the parent is
    gone; 7 blocks remain (node, name, table with one attribute) -/
example : (match exec St.init [.new 0, .name (T 0) (bs "p"), .attr (T 0) xmlnsKey (bs "n"), .new 1,
      .name (T 1) (bs "c"), .attr (T 1) xmlnsKey (bs "n"), .add (T 0) 1, .rel 0] with
    | .ok st => some ((st.mem.get 0).live, (st.mem.get 1).live, (st.mem.get 1).ref, (st.mem.get 1).parent,
        st.mem.blocks)
    | .error _ => none) = some (false, true, 1, none, 7) := by decide +kernel

/-- R1 is needed: releasing a reference and using it again meets freed memory -/
example : faultOf (exec St.init [.new 0, .relkeep 0, .rel 0]) = some (.uaf 0) := by decide +kernel

example : ¬ WellOwned St.init [.new 0, .relkeep 0, .rel 0] := by decide +kernel

/-- R3 (no cycle) is needed: a stanza below itself is never freed (2 blocks stay when the last handle is
    gone), and rendering it does not terminate -/
example : (match exec St.init [.new 0, .name (T 0) (bs "a"), .add (T 0) 0, .rel 0] with
    | .ok st => some (st.mem.blocks, decide (st.slots.all (· == none)))
    | .error _ => none) = some (2, true) := by decide +kernel

example : faultOf (exec St.init [.new 0, .name (T 0) (bs "a"), .add (T 0) 0, .render (T 0)]) = some .diverge := by
  decide +kernel

example : ¬ WellOwned St.init [.new 0, .name (T 0) (bs "a"), .add (T 0) 0] := by decide +kernel

/-- R3 (detached) is needed: a stanza put below a second parent while still below the first is reached
    through a `next` chain it does not belong to (outside the tree shape) -/
example : faultOf (exec St.init [.new 0, .name (T 0) (bs "a"), .new 1, .name (T 1) (bs "b"), .new 2, .name (T 2) (bs "c"),
    .new 3, .name (T 3) (bs "d"), .add (T 0) 2, .add (T 0) 3, .add (T 1) 2, .render (T 1)]) = some (.shape 3) := by
  decide +kernel

end Strophe.C12
