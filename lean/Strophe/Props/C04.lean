/-
C04 — Stream management never loses, duplicates or misnumbers outbound stanzas.

Model: `Strophe.Conn` (Model/Conn.lean: `retire` = the bookkeeping of event.c after a completed write,
`smHandleStanza` = `_conn_sm_handle_stanza`, `handleSm` = `_handle_sm`, `smQueueResend`), tied to the
code by engine `conn`.  Ghost data: `TxRec.smNum` (the number an element was retained under when it was
written).  Model-free counterpart: `check/props/conn_mon.py: monitor_sm(…, "C04")`.
-/
import Strophe.Lemmas.ConnC04

namespace Strophe.C04
open Strophe Strophe.Conn Strophe.Lemmas.ConnC04

/-- the element the library interleaves to request acknowledgements is the extracted constant -/
theorem pin_req_ack : Gen.reqAck = b "<r xmlns='urn:xmpp:sm:3'/>" := by decide

theorem retire_counts (c : Conn) (e : QElem) :
    let c' := retire c e
    (∃ r, c'.tx = c.tx ++ [r] ∧ r.item = e.item ∧ r.owner = e.owner ∧
          r.smNum = if !e.owner.smBit && c.sm.enabled then some c.sm.sentNr else none) ∧
    (if !e.owner.smBit && c.sm.enabled then
       c'.sm.queue = c.sm.queue ++ [(c.sm.sentNr, e)] ∧ c'.sm.sentNr = c.sm.sentNr + 1
     else c'.sm.queue = c.sm.queue ∧ c'.sm.sentNr = c.sm.sentNr) :=
  Lemmas.ConnC04.retire_counts c e

theorem only_user_stanzas_numbered (jid pass : Option Bytes) (cert : Bool) (flags : Nat)
    (ops : List Op) (hu : userOps ops) :
    ∀ r ∈ (exec (fresh jid pass cert flags) ops).tx, r.smNum.isSome = true → r.item.isUserItem = true :=
  Lemmas.ConnC04.only_user_stanzas_numbered jid pass cert flags ops hu

theorem contiguous_numbers (jid pass : Option Bytes) (cert : Bool) (flags : Nat) (ops : List Op) :
    let c := exec (fresh jid pass cert flags) ops
    c.sm.enabled = true → smPending c = false → Contig c.sm :=
  Lemmas.ConnC04.contiguous_numbers jid pass cert flags ops

theorem contiguous_while_resumable (jid pass : Option Bytes) (cert : Bool) (flags : Nat) (ops : List Op) :
    let c := exec (fresh jid pass cert flags) ops
    (c.sm.id.isSome = true ∨ (c.sm.previd.isSome = true ∧ c.sm.boundJid.isSome = true)) → Contig c.sm :=
  Lemmas.ConnC04.contiguous_while_resumable jid pass cert flags ops

theorem retained_were_written (jid pass : Option Bytes) (cert : Bool) (flags : Nat) (ops : List Op) :
    ∀ x ∈ (exec (fresh jid pass cert flags) ops).sm.queue,
      ∃ r ∈ (exec (fresh jid pass cert flags) ops).tx, r.smNum = some x.1 ∧ r.item = x.2.item :=
  Lemmas.ConnC04.retained_were_written jid pass cert flags ops

theorem retained_only_released_by_h (jid pass : Option Bytes) (cert : Bool) (flags : Nat) (ops : List Op)
    (op : Op) (x : UInt32 × QElem) :
    let c := exec (fresh jid pass cert flags) ops
    x ∈ c.sm.queue → (match op with | .release => False | _ => True) →
    x ∈ (step c op).sm.queue ∨
    (∃ hv, carriesH op hv ∧ x.1.toNat < hv) ∨
    (∃ e ∈ (step c op).queue, e.item = x.2.item ∧ e.owner = x.2.owner ∧ e.snap = x.2.snap) :=
  Lemmas.ConnC04.retained_only_released_by_h jid pass cert flags ops op x

theorem ack_releases_exactly (c : Conn) (st : XTree) (v : Nat)
    (hns : st.ns? = some Gen.nsSm) (hname : st.name? = some (b "a"))
    (hh : (st.attr (b "h")).map stringToUl = some (v, false))
    (hc : Contig c.sm) (hw : NoWrap c.sm) :
    (smHandleStanza c st).sm.queue = c.sm.queue.filter (fun e => v ≤ e.1.toNat) ∧
    (smHandleStanza c st).sm.sentNr = c.sm.sentNr ∧
    (smHandleStanza c st).queue = c.queue :=
  Lemmas.ConnC04.ack_releases_exactly c st v hns hname hh hc hw

theorem resumed_retransmits_exactly (c : Conn) (st : XTree) (ours : Bytes) (v : Nat)
    (hname : st.name? = some (b "resumed")) (hp : c.sm.previd = some ours)
    (hpv : st.attr (b "previd") = some ours) (hh : getH st = some v)
    (hstate : c.state = .connected) (hc : Contig c.sm) (hw : NoWrap c.sm)
    (hhonest : c.sm.sentNr.toNat - c.sm.queue.length ≤ v ∧ v ≤ c.sm.sentNr.toNat)
    (hq : ∀ e ∈ c.sm.queue, e.2.item ≠ .req) :
    let c' := handleSm c st
    payload c'.queue = payload c.queue ++ ((c.sm.queue.filter (fun e => v ≤ e.1.toNat)).map (·.2.item)) ∧
    c'.sm.queue = [] ∧ c'.sm.sentNr = UInt32.ofNat v ∧ c'.sm.enabled = true ∧
    (∃ g, c'.evs = c.evs ++ [(g, Ev.connect)]) :=
  Lemmas.ConnC04.resumed_retransmits_exactly c st ours v hname hp hpv hh hstate hc hw hhonest hq

theorem failed_keeps_unhandled (c : Conn) (st cause : XTree)
    (hname : st.name? = some (b "failed")) (hcause : st.childByNs Gen.nsStanzasIetf = some cause)
    (hinf : cause.name? = some (b "item-not-found")) (hres : c.sm.resume = true) :
    (handleSm c st).sm.queue = smQueueCleanup c.sm.queue ((getH st).getD 0) :=
  Lemmas.ConnC04.failed_keeps_unhandled c st cause hname hcause hinf hres

theorem enabled_resends_all (c : Conn) (st : XTree)
    (hname : st.name? = some (b "enabled")) (hen : c.sm.enabled = true) (hstate : c.state = .connected)
    (hid : (st.attr (b "resume")).isSome = true → (st.attr (b "id")).isSome = true)
    (hq : ∀ e ∈ c.sm.queue, e.2.item ≠ .req) :
    let c' := handleSm c st
    payload c'.queue = payload c.queue ++ c.sm.queue.map (·.2.item) ∧ c'.sm.queue = [] ∧
    c'.sm.sentNr = c.sm.sentNr :=
  Lemmas.ConnC04.enabled_resends_all c st hname hen hstate hid hq

end Strophe.C04
