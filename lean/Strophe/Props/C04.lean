/-
C04 — Stream management never loses, duplicates or misnumbers outbound stanzas.

Model: `Strophe.Conn` (Model/Conn.lean: `retire` = the bookkeeping of event.c after a completed write,
`smHandleStanza` = `_conn_sm_handle_stanza`, `handleSm` = `_handle_sm`, `smQueueResend`), tied to the
code by engine `conn`.  Ghost data: `TxRec.smNum` (the number an element was retained under when it was
written).  Model-free counterpart: `check/props/conn_mon.py: monitor_sm(…, "C04")`.

Statements that differ from their first formulation (details at the theorems in Lemmas/ConnC04*.lean):
  * `contiguous_while_resumable`: "resumable" is `previd ∧ bound JID` (the condition of the C code), not
    `previd` alone — counterexample `stale_previd_not_resumable` below;
  * `resumed_retransmits_exactly`, `enabled_resends_all`: hypothesis `hq` (no `<r/>` among the retained
    elements) added; it holds in every reachable state (`retained_are_no_requests`); what the application
    sends from within its CONNECT handler (`sendOnConnect`) comes AFTER every retransmission;
  * `retained_only_released_by_h`: stated for reachable states (false of two kinds of unreachable
    states); `retained_only_released_by_h_step` is the step-level form under explicit well-formedness
    hypotheses; the alternative "written in the same step" was dropped (it never occurs).
Known finding D52 (not repaired): `resend_lost_on_second_loss`.
-/
import Strophe.Lemmas.ConnC04

namespace Strophe.C04
open Strophe Strophe.Conn Strophe.Lemmas.ConnC04

/-- the element the library interleaves to request acknowledgements is the extracted constant -/
theorem pin_req_ack : Gen.reqAck = b "<r xmlns='urn:xmpp:sm:3'/>" := by decide

/-! ### numbering -/

/-- the outbound counter is a 32-bit field and a written stanza takes the current number before a
    plain (wrapping) increment: `SmState.sentNr : UInt32`, `+ 1` in the model; translated and pinned
    because 2^32 stanzas are out of reach of any run -/
theorem pin_sent_counter : Gen.smCounterBits = [32, 32] ∧ Gen.smSentPlainIncr = true := by decide

theorem retire_counts (c : Conn) (e : QElem) :
    let c' := retire c e
    (∃ r, c'.tx = c.tx ++ [r] ∧ r.item = e.item ∧ r.owner = e.owner ∧
          r.smNum = if !e.owner.smBit && c.sm.enabled then some c.sm.sentNr else none) ∧
    (if !e.owner.smBit && c.sm.enabled then
       c'.sm.queue = c.sm.queue ++ [(c.sm.sentNr, e)] ∧ c'.sm.sentNr = c.sm.sentNr + 1
     else c'.sm.queue = c.sm.queue ∧ c'.sm.sentNr = c.sm.sentNr) :=
  Lemmas.ConnC04.retire_counts c e

theorem only_user_stanzas_numbered (jid pass : Option Bytes) (cert : Bool) (flags : Nat)
    (ops : List Op) (hu : userOps ops) :
    ∀ r ∈ (exec (fresh jid pass cert flags) ops).tx, r.smNum.isSome = true → r.item.isUserItem = true :=
  Lemmas.ConnC04.only_user_stanzas_numbered jid pass cert flags ops hu

theorem contiguous_numbers (jid pass : Option Bytes) (cert : Bool) (flags : Nat) (ops : List Op) :
    let c := exec (fresh jid pass cert flags) ops
    c.sm.enabled = true → smPending c = false → Contig c.sm :=
  Lemmas.ConnC04.contiguous_numbers jid pass cert flags ops

/- first formulation (false, see `stale_previd_not_resumable`):
     (c.sm.id.isSome = true ∨ c.sm.previd.isSome = true) → Contig c.sm -/
theorem contiguous_while_resumable (jid pass : Option Bytes) (cert : Bool) (flags : Nat) (ops : List Op) :
    let c := exec (fresh jid pass cert flags) ops
    (c.sm.id.isSome = true ∨ (c.sm.previd.isSome = true ∧ c.sm.boundJid.isSome = true)) → Contig c.sm :=
  Lemmas.ConnC04.contiguous_while_resumable jid pass cert flags ops

/-! ### retention -/

theorem retained_were_written (jid pass : Option Bytes) (cert : Bool) (flags : Nat) (ops : List Op) :
    ∀ x ∈ (exec (fresh jid pass cert flags) ops).sm.queue,
      ∃ r ∈ (exec (fresh jid pass cert flags) ops).tx, r.smNum = some x.1 ∧ r.item = x.2.item :=
  Lemmas.ConnC04.retained_were_written jid pass cert flags ops

theorem retained_are_user_items (jid pass : Option Bytes) (cert : Bool) (flags : Nat)
    (ops : List Op) (hu : userOps ops) :
    ∀ x ∈ (exec (fresh jid pass cert flags) ops).sm.queue, x.2.item.isUserItem = true :=
  Lemmas.ConnC04.retained_are_user_items jid pass cert flags ops hu

/-- the hypothesis `hq` of `resumed_retransmits_exactly` and `enabled_resends_all` in reachable states -/
theorem retained_are_no_requests (jid pass : Option Bytes) (cert : Bool) (flags : Nat)
    (ops : List Op) (hu : userOps ops) :
    ∀ x ∈ (exec (fresh jid pass cert flags) ops).sm.queue, x.2.item ≠ .req :=
  Lemmas.ConnC04.retained_are_no_requests jid pass cert flags ops hu

/- first formulation: for every `c : Conn`, with the further alternative
     (∃ r ∈ ((step c op).tx.drop c.tx.length), r.item = x.2.item ∧ r.owner = x.2.owner)
   Known finding D52 lives in the third alternative ("put back into the send queue"): what is queued for
   retransmission is no longer retained, and the send queue does not survive the next `connReset`. -/
theorem retained_only_released_by_h (jid pass : Option Bytes) (cert : Bool) (flags : Nat) (ops : List Op)
    (op : Op) (x : UInt32 × QElem) :
    let c := exec (fresh jid pass cert flags) ops
    x ∈ c.sm.queue → (match op with | .release => False | _ => True) →
    x ∈ (step c op).sm.queue ∨
    (∃ hv, carriesH op hv ∧ x.1.toNat < hv) ∨
    (∃ e ∈ (step c op).queue, e.item = x.2.item ∧ e.owner = x.2.owner ∧ e.snap = x.2.snap) :=
  Lemmas.ConnC04.retained_only_released_by_h jid pass cert flags ops op x

/-- step-level form: any state with well-formed handler lists (`HW`, in particular `_handle_features`
    only under the element name "features") and an XEP-0198 record -/
theorem retained_only_released_by_h_step (c : Conn) (hw : HW c) (hsm : c.hasSm = true) (op : Op)
    (x : UInt32 × QElem) (hx : x ∈ c.sm.queue) (hop : match op with | .release => False | _ => True) :
    x ∈ (step c op).sm.queue ∨
    (∃ hv, carriesH op hv ∧ x.1.toNat < hv) ∨
    (∃ e ∈ (step c op).queue, e.item = x.2.item ∧ e.owner = x.2.owner ∧ e.snap = x.2.snap) :=
  Lemmas.ConnC04.retained_only_released_by_h_step c hw hsm op x hx hop

theorem handlers_well_formed (jid pass : Option Bytes) (cert : Bool) (flags : Nat) (ops : List Op) :
    HW (exec (fresh jid pass cert flags) ops) :=
  Lemmas.ConnC04.handlers_well_formed jid pass cert flags ops

/-- the positive part next to known finding D52: for every operation other than a connect (whose
    `_conn_reset` empties the send queue) and the release of the object, an element of the send queue —
    in particular one put back by `_sm_queue_resend` — stays queued or is written in that step.  The
    full statement ("… until it is written") is FALSE across a connect: `resend_lost_on_second_loss`. -/
theorem requeued_until_reset_partial (c : Conn) (op : Op) (e : QElem) (he : e ∈ c.queue)
    (hop : match op with | .connect _ => False | .release => False | _ => True) :
    (∃ e' ∈ (step c op).queue, e'.item = e.item ∧ e'.owner = e.owner ∧ e'.snap = e.snap) ∨
    (∃ r ∈ (step c op).tx.drop c.tx.length, r.item = e.item ∧ r.owner = e.owner) :=
  Lemmas.ConnC04.requeued_until_reset_partial c op e he hop

/-! ### release by acknowledgement -/

theorem ack_releases_exactly (c : Conn) (st : XTree) (v : Nat)
    (hns : st.ns? = some Gen.nsSm) (hname : st.name? = some (b "a"))
    (hh : (st.attr (b "h")).map stringToUl = some (v, false))
    (hc : Contig c.sm) (hw : NoWrap c.sm) :
    (smHandleStanza c st).sm.queue = c.sm.queue.filter (fun e => v ≤ e.1.toNat) ∧
    (smHandleStanza c st).sm.sentNr = c.sm.sentNr ∧
    (smHandleStanza c st).queue = c.queue :=
  Lemmas.ConnC04.ack_releases_exactly c st v hns hname hh hc hw

/-! ### resumption -/

theorem resumed_retransmits_exactly (c : Conn) (st : XTree) (ours : Bytes) (v : Nat)
    (hname : st.name? = some (b "resumed")) (hp : c.sm.previd = some ours)
    (hpv : st.attr (b "previd") = some ours) (hh : getH st = some v)
    (hstate : c.state = .connected) (hc : Contig c.sm) (hw : NoWrap c.sm)
    (hhonest : c.sm.sentNr.toNat - c.sm.queue.length ≤ v ∧ v ≤ c.sm.sentNr.toNat)
    (hq : ∀ e ∈ c.sm.queue, e.2.item ≠ .req) :
    let c' := handleSm c st
    payload c'.queue = payload c.queue ++ ((c.sm.queue.filter (fun e => v ≤ e.1.toNat)).map (·.2.item)) ++
      (if c.sendOnConnect then [.user (b "presence") (some (b "oc"))] else []) ∧
    c'.sm.queue = [] ∧ c'.sm.sentNr = UInt32.ofNat v ∧ c'.sm.enabled = true ∧
    (∃ g, c'.evs = c.evs ++ [(g, Ev.connect)]) :=
  Lemmas.ConnC04.resumed_retransmits_exactly c st ours v hname hp hpv hh hstate hc hw hhonest hq

theorem failed_keeps_unhandled (c : Conn) (st cause : XTree)
    (hname : st.name? = some (b "failed")) (hcause : st.childByNs Gen.nsStanzasIetf = some cause)
    (hinf : cause.name? = some (b "item-not-found")) (hres : c.sm.resume = true) :
    (handleSm c st).sm.queue = smQueueCleanup c.sm.queue ((getH st).getD 0) :=
  Lemmas.ConnC04.failed_keeps_unhandled c st cause hname hcause hinf hres

theorem enabled_resends_all (c : Conn) (st : XTree)
    (hname : st.name? = some (b "enabled")) (hen : c.sm.enabled = true) (hstate : c.state = .connected)
    (hid : (st.attr (b "resume")).isSome = true → (st.attr (b "id")).isSome = true)
    (hq : ∀ e ∈ c.sm.queue, e.2.item ≠ .req) :
    let c' := handleSm c st
    payload c'.queue = payload c.queue ++ c.sm.queue.map (·.2.item) ++
      (if c.sendOnConnect then [.user (b "presence") (some (b "oc"))] else []) ∧
    c'.sm.queue = [] ∧ c'.sm.sentNr = c.sm.sentNr :=
  Lemmas.ConnC04.enabled_resends_all c st hname hen hstate hid hq

/-! ### non-vacuity, end-to-end examples, counterexamples -/

def featuresPlain : XTree :=
  .tag (b "features") (some Gen.nsStreams) []
    [.tag (b "mechanisms") (some Gen.nsSasl) [] [.tag (b "mechanism") (some Gen.nsSasl) [] [.text (b "PLAIN")]]]
def featuresBindSm : XTree :=
  .tag (b "features") (some Gen.nsStreams) []
    [.tag (b "bind") (some Gen.nsBind) [] [], .tag (b "sm") (some Gen.nsSm) [] []]
/-- the answer to the bind request, with or without the bound JID -/
def bindResult (withJid : Bool) : XTree :=
  .tag (b "iq") (some Gen.nsClient) [(b "id", b "_xmpp_bind1"), (b "type", b "result")]
    (if withJid then
      [.tag (b "bind") (some Gen.nsBind) [] [.tag (b "jid") (some Gen.nsBind) [] [.text (b "user@example.org/r")]]]
     else [])
def enabledR : XTree := .tag (b "enabled") (some Gen.nsSm) [(b "id", b "sm1"), (b "resume", b "true")] []
def ackH (h : String) : XTree := .tag (b "a") (some Gen.nsSm) [(b "h", b h)] []
def resumedH (h : String) : XTree := .tag (b "resumed") (some Gen.nsSm) [(b "previd", b "sm1"), (b "h", b h)] []
def success : XTree := .tag (b "success") (some Gen.nsSasl) [] []
def umsg (id : String) : Item := .user (b "message") (some (b id))
def me : Option Bytes := some (b "user@example.org/r")
def pw : Option Bytes := some (b "secret")

/-- connect, authenticate, open the second stream: up to the features that offer bind and sm -/
def toFeatures : List Op :=
  [.connect .client, .run .none, .run .none,
   .run (.data [.open_ (b "stream") (some (b "s1")), .stanza featuresPlain]),
   .run (.data [.stanza success]),
   .run (.data [.open_ (b "stream") (some (b "s2")), .stanza featuresBindSm])]
/-- a login that ends with stream management enabled, resumable -/
def loginSm (withJid : Bool) : List Op :=
  toFeatures ++ [.run (.data [.stanza (bindResult withJid)]), .run (.data [.stanza enabledR])]
/-- three stanzas written (#0, #1, #2), `<a h='1'/>`, the connection is lost, reconnect up to the
    features (`<resume/>` is queued) -/
def threeThenLoss : List Op :=
  loginSm true ++ [.usend (umsg "m0"), .usend (umsg "m1"), .usend (umsg "m2"), .run .none,
    .run (.data [.stanza (ackH "1")]), .run .ioerr] ++ toFeatures

/-- a decidable check of `userOps` -/
def userOpsB (ops : List Op) : Bool :=
  ops.all fun op => match op with
    | .usend it | .uraw it | .urawstr it => it.isUserItem
    | _ => true

theorem userOps_of_B {ops : List Op} (h : userOpsB ops = true) : userOps ops := by
  intro op hop
  have := List.all_eq_true.1 h op hop
  cases op <;> first | trivial | exact this

theorem threeThenLoss_userOps : userOps threeThenLoss := userOps_of_B (by decide)

set_option maxRecDepth 100000 in
/-- the session: #0 was released by `<a h='1'/>`, #1 and #2 are retained, consecutive, no wrap; the
    resumption is pending (the hypotheses of `contiguous_while_resumable`, `retained_were_written`,
    `only_user_stanzas_numbered` and — for `<resumed h='2'/>` — of `resumed_retransmits_exactly` hold) -/
example :
    let c := exec (fresh me pw false 0) threeThenLoss
    c.state = .connected ∧ c.sm.previd = some (b "sm1") ∧ c.sm.boundJid.isSome = true ∧
    c.sm.queue.map (fun x => (x.1, x.2.item)) = [(1, umsg "m1"), (2, umsg "m2")] ∧ c.sm.sentNr = 3 ∧
    NoWrap c.sm ∧ (c.sm.sentNr.toNat - c.sm.queue.length ≤ 2 ∧ 2 ≤ c.sm.sentNr.toNat) ∧
    getH (resumedH "2") = some 2 ∧
    (c.tx.filterMap fun r => r.smNum.map fun n => (n, r.item)) = [(0, umsg "m0"), (1, umsg "m1"), (2, umsg "m2")] := by
  decide

set_option maxRecDepth 100000 in
/-- … so the retained numbers are consecutive there (an instance of `contiguous_while_resumable`) -/
example : Contig (exec (fresh me pw false 0) threeThenLoss).sm :=
  contiguous_while_resumable me pw false 0 threeThenLoss (.inr ⟨by decide, by decide⟩)

set_option maxRecDepth 100000 in
/-- END TO END: `<resumed h='2'/>` — exactly stanza #2 is sent again, before anything new; the counter
    continues at 2; the next stanza of the application is #3 -/
example :
    let c := exec (fresh me pw false 0)
      (threeThenLoss ++ [.run (.data [.stanza (resumedH "2")]), .usend (umsg "m3"), .run .none])
    c.sm.enabled = true ∧ smPending c = false ∧
    (c.tx.filterMap fun r => r.smNum.map fun n => (n, r.item)) =
      [(0, umsg "m0"), (1, umsg "m1"), (2, umsg "m2"), (2, umsg "m2"), (3, umsg "m3")] ∧
    c.sm.queue.map (fun x => (x.1, x.2.item)) = [(2, umsg "m2"), (3, umsg "m3")] ∧ c.sm.sentNr = 4 := by
  decide

set_option maxRecDepth 100000 in
/-- the same with an application that sends its presence from within the CONNECT handler: the
    retransmitted #2 goes first, then the presence "oc" (#3), then the new stanza (#4) -/
example :
    let c := exec (fresh me pw false 0)
      (threeThenLoss ++ [.setSendOnConnect true, .run (.data [.stanza (resumedH "2")]), .usend (umsg "m3"), .run .none])
    (c.tx.filterMap fun r => r.smNum.map fun n => (n, r.item)) =
      [(0, umsg "m0"), (1, umsg "m1"), (2, umsg "m2"), (2, umsg "m2"),
       (3, .user (b "presence") (some (b "oc"))), (4, umsg "m3")] ∧
    c.sm.sentNr = 5 := by
  decide

set_option maxRecDepth 100000 in
/-- … and at the moment `<resumed h='2'/>` is handled: #2, then the presence -/
example :
    let c := exec (fresh me pw false 0) (threeThenLoss ++ [.setSendOnConnect true, .run .none])
    c.sendOnConnect = true ∧
    payload (handleSm c (resumedH "2")).queue = [umsg "m2", .user (b "presence") (some (b "oc"))] := by
  decide

set_option maxRecDepth 100000 in
/-- the hypotheses of `contiguous_numbers` are satisfiable with a non-empty retained queue -/
example :
    let c := exec (fresh me pw false 0)
      (threeThenLoss ++ [.run (.data [.stanza (resumedH "2")]), .usend (umsg "m3"), .run .none])
    c.sm.enabled = true ∧ smPending c = false ∧ c.sm.queue.length = 2 := by
  decide

set_option maxRecDepth 100000 in
/-- the step-level theorems apply at the moment `<resumed h='2'/>` is handled: `handleSm` runs in a
    connected state with these very hypotheses, and puts exactly #2 back -/
example :
    let c := exec (fresh me pw false 0) (threeThenLoss ++ [.run .none])
    c.state = .connected ∧ c.sm.previd = some (b "sm1") ∧ c.queue = [] ∧
    payload (handleSm c (resumedH "2")).queue = [umsg "m2"] ∧ (handleSm c (resumedH "2")).sm.sentNr = 2 := by
  decide

/-- COUNTEREXAMPLE to the first formulation of `contiguous_while_resumable`: the bind result of the
    first session carried no JID, so the old session cannot be resumed after the loss; the library
    binds again and `<enable/>` restarts the numbering at 0 — while the stale `previd` and the retained
    element #0 are still there (it is sent again when `<enabled/>` arrives) -/
def stalePrevid : List Op :=
  loginSm false ++ [.usend (umsg "m0"), .run .none, .run .ioerr] ++ toFeatures ++
  [.run (.data [.stanza (bindResult false)])]

set_option maxRecDepth 100000 in
theorem stale_previd_not_resumable :
    let c := exec (fresh me pw false 0) stalePrevid
    c.sm.previd = some (b "sm1") ∧ c.sm.boundJid = none ∧ c.sm.enabled = true ∧ smPending c = true ∧
    c.sm.sentNr = 0 ∧ c.sm.queue.map (·.1) = [0] ∧ c.protoViol = 0 ∧
    ¬ ((c.sm.queue[0]?).map (fun x => x.1 + UInt32.ofNat 1) = some c.sm.sentNr) := by
  decide

set_option maxRecDepth 100000 in
/-- … which contradicts `Contig` -/
theorem stale_previd_not_contig : ¬ Contig (exec (fresh me pw false 0) stalePrevid).sm := by
  decide

/-- KNOWN FINDING D52 (corpus/C04/d52_resend_lost_on_second_loss.ops), on the model: a stanza written as
    #0 and never acknowledged (the server's `h` stays 0) is put back into the send queue by the first
    `<resumed h='0'/>` while the transport accepts nothing; the connection is lost again; the next
    connect empties the send queue (`_conn_reset`); the second `<resumed h='0'/>` finds nothing
    retained.  In the final state the stanza is neither retained nor queued, and it was written once. -/
def secondLoss : List Op :=
  loginSm true ++ [.usend (umsg "m1"), .run .none, .run .eof] ++ toFeatures ++
  [.setSched [] .again, .run (.data [.stanza (resumedH "0")]), .run .eof, .setSched [] .all] ++ toFeatures ++
  [.run (.data [.stanza (resumedH "0")]), .run .none, .run .none]

set_option maxRecDepth 100000 in
theorem resend_lost_on_second_loss :
    let c := exec (fresh me pw false 0) secondLoss
    (c.tx.filterMap fun r => match r.item with | .user _ i => some (i, r.smNum) | _ => none) = [(some (b "m1"), some 0)] ∧
    c.sm.queue = [] ∧ c.queue = [] ∧ c.state = .connected ∧ c.sm.enabled = true ∧ c.protoViol = 0 ∧
    -- after the first resumption the stanza was in the send queue, no longer retained
    (let c1 := exec (fresh me pw false 0) (secondLoss.take 19)
     c1.sm.queue = [] ∧ c1.queue.map (·.item) = [.resume (b "sm1") 0, umsg "m1", .req]) := by
  decide

end Strophe.C04
