/-
C10 — Inbound XML is delivered identically however it is chunked.   Property theorems only.

What is proved is libstrophe's assembly layer above expat (`Model/Assembly.lean`, a C-shaped model of
src/parser_expat.c tied to the code by differential execution on recorded callback traces).
Expat itself is an external engine: it is the parameter `expat : Expat` of `chunk_invariant`, and
what is assumed about it is the named hypothesis `HExpat` (Spec/ExpatTrace.lean):

  H-expat.  For a fixed byte stream the callback sequences produced under two chunkings are equal
  up to splitting/merging of adjacent character-data callbacks, an error is reported at the same
  position (up to character data directly in front of it — expat really drops the text in front
  of a `]]>` it sees in one buffer, found by this check), character data contains no NUL,
  end-element callbacks are matched, and a failed parser makes no further element callbacks.

H-expat is NOT proved (level: proof, partial).  It is checked at run time on every recorded callback
trace by check/props/c10.py (oracle iii; a failing run prints `H-expat:… hypothesis not met on this
run`).  It was in fact FALSE for the expat build this project runs against (Debian
2.5.0-1+deb12u3 with the back-port of expat 2.6.0's reparse deferral) as long as libstrophe left
reparse deferral enabled: under some chunkings expat delivered only a prefix of the callbacks and a
complete stanza stayed undelivered (finding D32, repaired in /repo by commit 60ea6ad, regression
case corpus/C10/deferral.ops).

Finding D5 (`parser_reset` left `inner_text_used/size` stale; repaired by commit 86b91cf): with the
old `parser_reset` (`Assembly.resetD5`) `assembly_safe`, `reset_clean_slate` and
`chars_split_invariant` are false — witnesses `d5_witness_*` below, replayed on the real code by
corpus/C10/d5.ops and d5_uninit.ops.
-/
import Strophe.Model.Assembly
import Strophe.Spec.ExpatTrace
import Strophe.Lemmas.Assembly

namespace Strophe.C10
open Strophe Strophe.Assembly

/-! ### pinning lemmas: what the property and the model take from the source -/

/-- the separator libstrophe hands to expat is U+001F -/
theorem pin_separator : Gen.parserNamespaceSep = 0x1F := by decide
/-- `INNER_TEXT_PADDING`, and the depth below which `_characters` ignores text -/
theorem pin_text_constants : Gen.parserInnerTextPadding = 2 ∧ Gen.parserTextMinDepth = 2 := by decide
/-- `xmpp_stanza_set_ns` writes the attribute `xmlns` -/
theorem pin_ns_attr : Assembly.nsAttr = cs ['x', 'm', 'l', 'n', 's'] := by decide
/-- the fields `parser_reset` assigns: the model's `reset` clears exactly these (the expat handle
    aside).  Before commit 86b91cf `inner_text_size` and `inner_text_used` were missing (D5). -/
theorem pin_reset_fields :
    Gen.parserResetFields = ["depth", "expat", "inner_text", "inner_text_size", "inner_text_used", "stanza"] := by
  decide

/-! ### `ns␟name` is split correctly -/

/-- a namespaced expat name `ns␟name` gives the name and the namespace back -/
theorem ns_split_correct (ns name : Bytes) (h : sep ∉ ns) :
    xmlName (ns ++ sep :: name) = name ∧ xmlNamespace (ns ++ sep :: name) = some ns := by
  simp [xmlName, xmlNamespace, afterSep_append ns name h, beforeSep_append ns name h]

/-- a name without separator is a name without namespace -/
theorem ns_split_none (s : Bytes) (h : sep ∉ s) : xmlName s = s ∧ xmlNamespace s = none := by
  simp [xmlName, xmlNamespace, afterSep_none s h]

/-- and conversely, for EVERY string: whatever the two functions return re-assembles to the input -/
theorem ns_split_exact (s : Bytes) :
    match xmlNamespace s with
    | some ns => s = ns ++ sep :: xmlName s ∧ sep ∉ ns
    | none => xmlName s = s ∧ sep ∉ s := by
  unfold xmlNamespace xmlName
  cases h : afterSep s with
  | none => exact ⟨rfl, afterSep_none_iff s h⟩
  | some r => exact ⟨afterSep_some s r h, beforeSep_not_mem s⟩

/-- the element built for `ns␟name` is called `name` and carries `xmlns = ns`; without a namespace
    its attributes are exactly those expat reported (namespace prefixes of attributes dropped) -/
theorem start_element_ns (nsname : Bytes) (attrs : List Attr) :
    (newChild nsname attrs).name = xmlName nsname ∧
    (newChild nsname attrs).children = [] ∧
    match xmlNamespace nsname with
    | some ns => lookupAttr nsAttr (newChild nsname attrs).attrs = some ns
    | none => (newChild nsname attrs).attrs = setAttributes [] attrs := by
  unfold newChild
  cases h : xmlNamespace nsname with
  | none => simp
  | some ns => simp [lookup_setAttr]

/-! ### text split across callbacks is delivered whole and in order -/

/-- **chars_split_invariant.**  Two callback traces (restarts included) that differ only in how
    runs of character data are cut into callbacks give the same events and the same outcome. -/
theorem chars_split_invariant (evs evs' : List In) (h : SameUpToCharSplit evs evs') (hn : NulFree evs)
    (he : ErrFinal evs) :
    assemble evs = assemble evs' := by
  unfold assemble
  rw [run_abs init evs textInv_init, run_abs init evs' textInv_init]
  exact same_aRun h hn false he (abs init)

/-- in particular: any number of pieces `d :: ds` anywhere in a trace acts like the single callback
    with their concatenation -/
theorem text_whole (pre post : List In) (d : Bytes) (ds : List Bytes)
    (hn : NulFree (pre ++ (d :: ds).map In.chars ++ post))
    (he : ErrFinal (pre ++ (d :: ds).map In.chars ++ post)) :
    assemble (pre ++ (d :: ds).map In.chars ++ post) = assemble (pre ++ [In.chars (d :: ds).flatten] ++ post) :=
  chars_split_invariant _ _ (same_context (same_pieces d ds) pre post) hn he

/-! ### chunk invariance, given H-expat -/

/- Full strength (NOT proved; this is what makes C10 "proof, partial"):
     theorem chunk_invariant_full (chunks₁ chunks₂ : List Bytes) (h : chunks₁.flatten = chunks₂.flatten) :
         deliver libexpat chunks₁ = deliver libexpat chunks₂
   for a model `libexpat : Expat` of the real tokenizer.  Expat's tokenisation is outside the model;
   what is proved below is the same statement for EVERY function `expat` that meets H-expat, and
   H-expat is checked on the real expat's recorded callbacks at run time (c10.py, oracle iii). -/

/-- **chunk_invariant.**  However the bytes are split across reads, the owner of the parser sees
    the same events (and the same outcome). -/
theorem chunk_invariant (expat : Expat) (H : HExpat expat) (chunks₁ chunks₂ : List Bytes)
    (h : chunks₁.flatten = chunks₂.flatten) :
    deliver expat chunks₁ = deliver expat chunks₂ :=
  chars_split_invariant _ _ (H.chunking chunks₁ chunks₂ h) (H.nulFree chunks₁) (H.errFinal chunks₁)

private theorem restart_same (expat : Expat) (H : HExpat expat) :
    ∀ segs₁ segs₂ : List (List Bytes), segs₁.map List.flatten = segs₂.map List.flatten →
      SameUpToCharSplit (restartTrace expat segs₁) (restartTrace expat segs₂)
  | [], [], _ => .refl _
  | [], _ :: _, h => by simp at h
  | _ :: _, [], h => by simp at h
  | [a], [b], h => by
    simp at h
    simpa [restartTrace] using H.chunking a b h
  | [a], b :: b' :: rest, h => by simp at h
  | a :: a' :: rest, [b], h => by simp at h
  | a :: a' :: rest, b :: b' :: rest', h => by
    simp only [List.map_cons, List.cons.injEq] at h
    have h1 := H.chunking a b h.1
    have h2 := restart_same expat H (a' :: rest) (b' :: rest') (by simpa using h.2)
    have e1 := same_context h1 [] (In.reset :: restartTrace expat (a' :: rest))
    have e2 := same_context h2 (expat b ++ [In.reset]) []
    simp only [List.nil_append, List.append_nil, List.append_assoc, List.singleton_append] at e1 e2
    simpa [restartTrace] using SameUpToCharSplit.trans e1 e2

private theorem restart_nulFree (expat : Expat) (H : HExpat expat) :
    ∀ segs : List (List Bytes), NulFree (restartTrace expat segs)
  | [] => by simp [restartTrace, NulFree]
  | [a] => by simpa [restartTrace] using H.nulFree a
  | a :: a' :: rest => by
    have := restart_nulFree expat H (a' :: rest)
    simp only [restartTrace]
    rw [nulFree_append, nulFree_cons]
    exact ⟨H.nulFree a, trivial, this⟩

private theorem restart_errFinal (expat : Expat) (H : HExpat expat) :
    ∀ segs : List (List Bytes), ErrFinal (restartTrace expat segs)
  | [] => by simp [restartTrace, ErrFinal, errFinalFrom]
  | [a] => by simpa [restartTrace] using H.errFinal a
  | a :: a' :: rest => by
    have h1 := H.errFinal a
    have h2 := restart_errFinal expat H (a' :: rest)
    unfold ErrFinal at *
    simp only [restartTrace]
    rw [errFinal_append_reset, h1, h2]; rfl

/-- the same with stream restarts: a connection is a sequence of streams, the parser is reset
    between two streams, every stream may be chunked differently -/
theorem chunk_invariant_restarts (expat : Expat) (H : HExpat expat) (segs₁ segs₂ : List (List Bytes))
    (h : segs₁.map List.flatten = segs₂.map List.flatten) :
    deliverRestarts expat segs₁ = deliverRestarts expat segs₂ :=
  chars_split_invariant _ _ (restart_same expat H segs₁ segs₂ h) (restart_nulFree expat H segs₁)
    (restart_errFinal expat H segs₁)

/-! ### a stream restart starts from a clean slate -/

/-- `parser_reset` leaves exactly the state of `parser_new`, whatever happened before -/
theorem reset_state (s : State) : Assembly.reset s = init := rfl

/-- **reset_clean_slate.**  After a restart the parser behaves like a new one: the events of
    `pre ++ [reset] ++ evs` are those of `pre` followed by those of `evs` on a fresh parser, and the
    outcome is that of `evs` on a fresh parser — whatever `pre` left pending (open elements, text). -/
theorem reset_clean_slate (pre evs : List In) (h : (assemble pre).crash = none) :
    assemble (pre ++ In.reset :: evs) = ⟨(assemble pre).evs ++ (assemble evs).evs, (assemble evs).crash⟩ := by
  unfold assemble at *
  obtain ⟨s', hs'⟩ := exec_ok_of_no_crash init pre h
  rw [run_append, hs']
  simp [run, step, reset_state]

/-! ### safety -/

/-- **assembly_safe.**  On every trace in which end-element callbacks are matched (per stream), no
    crash site is reachable: no `strncat` into NULL, no read of unwritten buffer bytes, no write
    beyond the text buffer, no dereference of a NULL `parser->stanza`. -/
theorem assembly_safe (ins : List In) (hb : Balanced ins) : (assemble ins).crash = none := by
  unfold assemble
  rw [run_abs init ins textInv_init]
  exact aRun_safe (abs init) 0 ins shape_init hb

private theorem restart_balanced (expat : Expat) (H : HExpat expat) :
    ∀ segs : List (List Bytes), Balanced (restartTrace expat segs)
  | [] => by simp [restartTrace, Balanced, balancedFrom]
  | [a] => by simpa [restartTrace] using H.balanced a
  | a :: a' :: rest => by
    have h1 := H.balanced a
    have h2 := restart_balanced expat H (a' :: rest)
    unfold Balanced at *
    simp only [restartTrace]
    rw [balancedFrom_append_reset, h1, h2]; rfl

/-- so, given H-expat, no chunking of no sequence of streams reaches a crash site -/
theorem deliver_safe (expat : Expat) (H : HExpat expat) (segs : List (List Bytes)) :
    (deliverRestarts expat segs).crash = none :=
  assembly_safe _ (restart_balanced expat H segs)

/-- the buffer sites (`strncatNull`, `uninitRead`, `textOverflow`) are unreachable on EVERY trace,
    balanced or not -/
theorem buffer_safe (ins : List In) :
    (assemble ins).crash ≠ some .strncatNull ∧ (assemble ins).crash ≠ some .uninitRead ∧
    (assemble ins).crash ≠ some .textOverflow := by
  suffices h : ∀ σ, (aRun σ ins).crash ≠ some .strncatNull ∧ (aRun σ ins).crash ≠ some .uninitRead ∧
      (aRun σ ins).crash ≠ some .textOverflow by
    unfold assemble; rw [run_abs init ins textInv_init]; exact h _
  induction ins with
  | nil => intro σ; simp [aRun]
  | cons i rest ih =>
    intro σ
    unfold aRun
    cases hs : aStep σ i with
    | ok p => exact ih p.1
    | error e =>
      cases i with
      | start n a =>
        simp only [aStep, aStart] at hs
        split at hs
        · simp at hs
        · split at hs
          · simp at hs
          · split at hs
            · simp at hs
            · unfold aComplete at hs
              split at hs
              · simp [bind, Except.bind] at hs
              · split at hs
                · simp [bind, Except.bind] at hs; subst hs; simp
                · simp [bind, Except.bind] at hs
      | end_ n =>
        simp only [aStep, aEnd] at hs
        split at hs
        · simp at hs
        · unfold aComplete at hs
          split at hs
          · simp only [bind, Except.bind] at hs
            split at hs
            · simp at hs; subst hs; simp
            · simp at hs
            · simp at hs
          · split at hs
            · simp [bind, Except.bind] at hs; subst hs; simp
            · simp only [bind, Except.bind] at hs
              split at hs
              · simp at hs; subst hs; simp
              · simp at hs
              · simp at hs
      | chars d => simp [aStep] at hs
      | err => simp [aStep] at hs
      | reset => simp [aStep] at hs

/-- **structural invariant**, in every state the parser can reach (any trace):
    `inner_text == NULL → inner_text_used == 0 ∧ inner_text_size == 0`, and while text is pending
    `strlen(inner_text) ≤ inner_text_used < inner_text_size` -/
theorem assembly_invariant (ins : List In) (s : State) (h : exec init ins = .ok s) :
    (s.innerText = none → s.used = 0 ∧ s.size = 0) ∧
    (∀ t, s.innerText = some t → t.length ≤ s.used ∧ s.used < s.size) :=
  let hi := exec_inv init s ins textInv_init h
  ⟨hi.null, hi.pending⟩

/-- and on matched traces the run reaches a state, in which moreover `parser->stanza` and the depth
    agree (`depth ≥ 0`, the chain of elements under construction has `depth - 1` members) and text is
    pending only inside a stanza -/
theorem assembly_shape (ins : List In) (hb : Balanced ins) :
    ∃ s, exec init ins = .ok s ∧ 0 ≤ s.depth ∧ s.path.length = s.depth.toNat - 1 ∧
      (s.innerText.isSome → s.path ≠ []) := by
  obtain ⟨σ', d', hx, hsh⟩ := aExec_shape (abs init) 0 ins shape_init hb
  have he := exec_abs init ins textInv_init
  rw [hx] at he
  cases hs : exec init ins with
  | error e => simp [hs, Except.map] at he
  | ok s =>
    simp [hs, Except.map] at he
    subst he
    refine ⟨s, rfl, ?_, ?_, hsh.text⟩
    · have := hsh.depth; simp [abs] at this; omega
    · have h1 := hsh.depth; have h2 := hsh.path
      simp [abs] at h1 h2
      rw [h2, h1]; simp

/-! ### finding D5: the same statements are false for the tree before commit 86b91cf -/

/-- stream 1 leaves four bytes of text pending, restart, stream 2 delivers two bytes of text -/
def d5 : List In :=
  [.start (cs ['s']) [], .start (cs ['a']) [], .chars (cs ['a', 'b', 'c', 'd']), .reset,
   .start (cs ['s']) [], .start (cs ['a']) [], .chars (cs ['h', 'i'])]

/-- … eleven bytes: the `realloc` branch -/
def d5' : List In :=
  [.start (cs ['s']) [], .start (cs ['a']) [], .chars (cs ['a', 'b', 'c', 'd']), .reset,
   .start (cs ['s']) [], .start (cs ['a']) [], .chars (cs ['h', 'e', 'l', 'l', 'o', ' ', 'w', 'o', 'r', 'l', 'd'])]

/-- old `parser_reset`: `strncat(NULL, "hi", 2)` (corpus/C10/d5.ops crashes the real code here) -/
theorem d5_witness_strncat : Balanced d5 ∧ (runD5 init d5).crash = some .strncatNull := by decide
/-- old `parser_reset`: text appended behind four bytes nobody wrote (corpus/C10/d5_uninit.ops) -/
theorem d5_witness_uninit : Balanced d5' ∧ (runD5 init d5').crash = some .uninitRead := by decide
/-- old `parser_reset` breaks the bookkeeping invariant -/
theorem d5_witness_invariant :
    ∃ s, exec init [.start (cs ['s']) [], .start (cs ['a']) [], .chars (cs ['a', 'b', 'c', 'd'])] = .ok s ∧
      (resetD5 s).innerText = none ∧ (resetD5 s).used = 4 ∧ (resetD5 s).size = 7 :=
  ⟨_, rfl, by decide, by decide, by decide⟩
/-- the repaired `parser_reset` on the same traces -/
theorem d5_fixed : (assemble d5).crash = none ∧ (assemble d5').crash = none := by decide

/-! ### non-vacuity -/

/-- the hypotheses of `chars_split_invariant` hold for two different, non-trivial traces
    ("he" "llo" inside `<s><m>…</m>` against "hello") … -/
example : SameUpToCharSplit
    [.start (cs ['s']) [], .start (cs ['m']) [], .chars (cs ['h', 'e', 'l', 'l', 'o']), .end_ (cs ['m'])]
    [.start (cs ['s']) [], .start (cs ['m']) [], .chars (cs ['h', 'e']), .chars (cs ['l', 'l', 'o']), .end_ (cs ['m'])] :=
  .split [.start (cs ['s']) [], .start (cs ['m']) []] (cs ['h', 'e']) (cs ['l', 'l', 'o']) [.end_ (cs ['m'])]

example : NulFree
    [.start (cs ['s']) [], .start (cs ['m']) [], .chars (cs ['h', 'e', 'l', 'l', 'o']), .end_ (cs ['m'])] := by
  intro i hi
  simp at hi
  rcases hi with h | h | h | h <;> subst h <;> simp [In.nulFree] <;> decide

/-- … and the split trace delivers ONE stanza with ONE text child "hello" -/
example : (assemble [.start (cs ['s']) [], .start (cs ['m']) [], .chars (cs ['h', 'e']),
      .chars (cs ['l', 'l', 'o']), .end_ (cs ['m'])]).evs.length = 2 ∧
    (assemble [.start (cs ['s']) [], .start (cs ['m']) [], .chars (cs ['h', 'e']),
      .chars (cs ['l', 'l', 'o']), .end_ (cs ['m'])]).crash = none := by decide

/-- the tree that is delivered: element `u␟m` with attribute `to`, text in two pieces -/
example : (assemble [.start (cs ['s']) [], .start (cs ['u'] ++ sep :: cs ['m']) [(cs ['t', 'o'], cs ['x'])],
      .chars (cs ['h', 'e']), .chars (cs ['l', 'l', 'o']), .end_ (cs ['u'] ++ sep :: cs ['m'])]).evs =
    [.open_ (cs ['s']) [],
     .stanza (.elem (cs ['m']) [(cs ['t', 'o'], cs ['x']), (nsAttr, cs ['u'])] [.text (cs ['h', 'e', 'l', 'l', 'o'])])] := by
  rfl

/-- without the NUL hypothesis `chars_split_invariant` would be false: `strncat` stops at a NUL -/
example : cstr ([1, 0] ++ [2]) ≠ cstr [1, 0] ++ cstr [2] := by decide

/-- H-expat is satisfiable by an "expat" that does make callbacks (a toy: one stream, one element,
    the NUL-free bytes as one piece of text) -/
def toyExpat : Expat := fun chunks =>
  [.start (cs ['s']) [], .start (cs ['a']) [], .chars (chunks.flatten.filter (· ≠ 0))]

example : HExpat toyExpat where
  chunking := fun c₁ c₂ h => by simp [toyExpat, h]; exact .refl _
  nulFree := fun c => by
    intro i hi
    simp [toyExpat] at hi
    rcases hi with h | h | h <;> subst h <;> simp [In.nulFree]
  balanced := fun c => by simp [toyExpat, Balanced, balancedFrom]
  errFinal := fun c => by simp [toyExpat, ErrFinal, errFinalFrom]

/-- an "expat" whose cutting of character data really depends on the chunking: one stream, one
    element, and ONE character-data callback PER non-empty chunk (NUL bytes dropped) -/
def pieces (chunks : List Bytes) : List Bytes :=
  (chunks.map (·.filter (· ≠ 0))).filter (· ≠ [])

def chunkyExpat : Expat := fun chunks =>
  [.start (cs ['s']) [], .start (cs ['a']) []] ++ (pieces chunks).map In.chars

private theorem flatten_filter_ne_nil (l : List Bytes) : (l.filter (· ≠ [])).flatten = l.flatten := by
  induction l with
  | nil => rfl
  | cons x rest ih =>
    by_cases hx : x = []
    · simp [hx]; simpa using ih
    · simp [List.filter, hx]; simpa using ih

private theorem pieces_flatten (c : List Bytes) : (pieces c).flatten = c.flatten.filter (· ≠ 0) := by
  unfold pieces
  rw [flatten_filter_ne_nil, List.filter_flatten]

private theorem pieces_ne_nil (c : List Bytes) : ∀ x ∈ pieces c, x ≠ [] := by
  intro x hx
  simp [pieces] at hx
  intro e; simp [e] at hx

private theorem same_of_flatten (l l' : List Bytes) (hne : ∀ x ∈ l, x ≠ []) (hne' : ∀ x ∈ l', x ≠ [])
    (h : l.flatten = l'.flatten) : SameUpToCharSplit (l.map In.chars) (l'.map In.chars) := by
  cases l with
  | nil =>
    cases l' with
    | nil => exact .refl _
    | cons e es =>
      have : e = [] := by
        have h' : ([] : Bytes) = e ++ es.flatten := by simpa using h
        cases e with
        | nil => rfl
        | cons a b => simp at h'
      exact absurd this (hne' e (by simp))
  | cons d ds =>
    cases l' with
    | nil =>
      have : d = [] := by
        have h' : d ++ ds.flatten = ([] : Bytes) := by simpa using h
        cases d with
        | nil => rfl
        | cons a b => simp at h'
      exact absurd this (hne d (by simp))
    | cons e es =>
      have h1 := same_pieces d ds
      have h2 := same_pieces e es
      rw [h] at h1
      exact .trans h1 (.symm h2)

example : HExpat chunkyExpat where
  chunking := fun c₁ c₂ h => by
    have hf : (pieces c₁).flatten = (pieces c₂).flatten := by rw [pieces_flatten, pieces_flatten, h]
    have := same_of_flatten _ _ (pieces_ne_nil c₁) (pieces_ne_nil c₂) hf
    have := same_context this [.start (cs ['s']) [], .start (cs ['a']) []] []
    simpa [chunkyExpat] using this
  nulFree := fun c => by
    intro i hi
    simp [chunkyExpat, pieces] at hi
    rcases hi with h | h | ⟨d, ⟨⟨x, _, hx⟩, _⟩, h⟩
    · subst h; trivial
    · subst h; trivial
    · subst h; subst hx; simp [In.nulFree]
  balanced := fun c => by
    have : ∀ (l : List Bytes) d, balancedFrom d (l.map In.chars) = true := by
      intro l; induction l with
      | nil => intro d; rfl
      | cons x rest ih => intro d; simp [balancedFrom, ih]
    simp [chunkyExpat, Balanced, balancedFrom, this]
  errFinal := fun c => by
    have : ∀ (l : List Bytes) f, errFinalFrom f (l.map In.chars) = true := by
      intro l; induction l with
      | nil => intro f; rfl
      | cons x rest ih => intro f; simp [errFinalFrom, ih]
    simp [chunkyExpat, ErrFinal, errFinalFrom, this]

/-- … under which "he" | "llo" and "hello" really give different callback sequences -/
example : chunkyExpat [cs ['h', 'e'], cs ['l', 'l', 'o']] ≠ chunkyExpat [cs ['h', 'e', 'l', 'l', 'o']] := by decide

/-- the `errTail` case as expat shows it for `<s><a>text]]>`: in one buffer the text is not reported,
    split inside `]]>` it is; the owner sees the same either way -/
example : SameUpToCharSplit
    [.start (cs ['s']) [], .start (cs ['a']) [], .chars (cs ['t', 'e', 'x', 't']), .err, .err]
    [.start (cs ['s']) [], .start (cs ['a']) [], .err, .err] :=
  .errTail [.start (cs ['s']) [], .start (cs ['a']) []] (cs ['t', 'e', 'x', 't']) [.err] (by decide)

example : ErrFinal [.start (cs ['s']) [], .start (cs ['a']) [], .chars (cs ['t']), .err, .err, .reset,
    .start (cs ['s']) []] ∧ ¬ ErrFinal [.start (cs ['s']) [], .err, .start (cs ['a']) []] := by decide

/-- without "a failed parser stays failed" text in front of an error WOULD be observable: if an
    element could still be closed after the failure, the two traces deliver different stanzas -/
example :
    (assemble [.start (cs ['s']) [], .start (cs ['a']) [], .chars (cs ['t']), .err, .end_ (cs ['a'])]).evs =
      [.open_ (cs ['s']) [], .error, .stanza (.elem (cs ['a']) [] [.text (cs ['t'])])] ∧
    (assemble [.start (cs ['s']) [], .start (cs ['a']) [], .err, .end_ (cs ['a'])]).evs =
      [.open_ (cs ['s']) [], .error, .stanza (.elem (cs ['a']) [] [])] :=
  ⟨rfl, rfl⟩

/-- `Balanced` holds for a real-looking trace and fails for a stray end tag -/
example : Balanced [.start (cs ['s']) [], .start (cs ['a']) [], .end_ (cs ['a']), .reset, .start (cs ['s']) []] ∧
    ¬ Balanced [.start (cs ['s']) [], .end_ (cs ['s']), .end_ (cs ['s'])] := by decide

/-- an unmatched end-element callback does reach a crash site: the hypothesis of `assembly_safe`
    is needed -/
example : (assemble [.end_ (cs ['s'])]).crash = some .endStanzaNull := by decide

/-- `ns_split_correct` on the stream element -/
example : xmlName (cs ['u', 'r', 'i'] ++ sep :: cs ['s', 't', 'r', 'e', 'a', 'm']) = cs ['s', 't', 'r', 'e', 'a', 'm'] ∧
    xmlNamespace (cs ['u', 'r', 'i'] ++ sep :: cs ['i', 'q']) = some (cs ['u', 'r', 'i']) := by decide

/-- `reset_clean_slate` with text pending before the restart -/
example : (assemble [.start (cs ['s']) [], .start (cs ['a']) [], .chars (cs ['x'])]).crash = none := by decide

end Strophe.C10
