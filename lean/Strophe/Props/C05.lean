/-
C05 — Stream-management inbound count is exact.

Model: `Strophe.Conn` (`handleStreamStanza` = `_handle_stream_stanza`, `smHandleStanza` =
`_conn_sm_handle_stanza`, `handleSm` = `_handle_sm`, `handleFeaturesSasl` builds `<resume/>`), tied to
the code by engine `conn`.  Ghost data: `Conn.rxLog` (what was dispatched and when the count was
(re)started, decided from what arrives — `rxMarks`, `countsInbound` — not from what `handleSm` does),
`Snap.handledNr` (the counter when an element was produced).  Model-free counterpart:
`check/props/conn_mon.py: monitor_sm(…, "C05")` over the real parser's events.
-/
import Strophe.Lemmas.ConnC05

namespace Strophe.C05
open Strophe Strophe.Conn Strophe.Lemmas.ConnC05

/-- the buffers the counters are printed into hold every 32-bit value (10 digits and the
    terminator): the model prints the counter exactly, the code does so only with room for it -/
theorem pin_h_buffers : ∀ n ∈ Gen.smHBufSizes, 11 ≤ n := by decide

/-- the inbound counter is a 32-bit field, incremented plainly (it wraps, as XEP-0198 says) and
    printed as an unsigned number — what `SmState.handledNr : UInt32`, `+ 1` and the decimal rendering
    of the model are.  Behaviour at 2^31 / 2^32 stanzas is out of reach of any run: these statements
    are translated from the source (`extract/gen_conn.py`) and pinned here. -/
theorem pin_counters : Gen.smCounterBits = [32, 32] ∧ Gen.smHandledPlainIncr = true ∧
    Gen.smHFormats = ["%u", "%u"] := by decide

theorem handled_is_dispatch_count (jid pass : Option Bytes) (cert : Bool) (flags : Nat) (ops : List Op) :
    let c := exec (fresh jid pass cert flags) ops
    c.sm.handledNr = UInt32.ofNat (countSince c.rxLog) :=
  Lemmas.ConnC05.handled_is_dispatch_count jid pass cert flags ops

theorem sm_elements_never_counted (c0 : Conn) (st : XTree) (h : st.ns? = some Gen.nsSm) :
    countsInbound c0 st = false :=
  Lemmas.ConnC05.sm_elements_never_counted c0 st h

theorem every_r_one_a (c : Conn) (st : XTree) (hns : st.ns? = some Gen.nsSm)
    (hname : st.name? = some (b "r")) (hstate : c.state = .connected) :
    ∃ e, (smHandleStanza c st).queue = c.queue ++ [e] ∧ e.item = .ack c.sm.handledNr ∧
      e.owner = .smStrophe ∧ (smHandleStanza c st).sm.handledNr = c.sm.handledNr :=
  Lemmas.ConnC05.every_r_one_a c st hns hname hstate

theorem reported_h_is_count (jid pass : Option Bytes) (cert : Bool) (flags : Nat) (ops : List Op)
    (hu : userOps ops) :
    ∀ r ∈ (exec (fresh jid pass cert flags) ops).tx,
      (∀ h, r.item = .ack h → h = r.snap.handledNr) ∧
      (∀ p h, r.item = .resume p h → h = r.snap.handledNr) :=
  Lemmas.ConnC05.reported_h_is_count jid pass cert flags ops hu

theorem count_carried_across (c : Conn) (k : ConnectKind) (hsm : c.hasSm = true) :
    (connDisconnect c).sm.handledNr = c.sm.handledNr ∧ (step c (.connect k)).sm.handledNr = c.sm.handledNr :=
  Lemmas.ConnC05.count_carried_across c k hsm

/-! ### non-vacuity: a session with stream management, two stanzas, an SM element and a request -/

def featuresPlain : XTree :=
  .tag (b "features") (some Gen.nsStreams) []
    [.tag (b "mechanisms") (some Gen.nsSasl) [] [.tag (b "mechanism") (some Gen.nsSasl) [] [.text (b "PLAIN")]]]

def featuresBindSm : XTree :=
  .tag (b "features") (some Gen.nsStreams) []
    [.tag (b "bind") (some Gen.nsBind) [] [], .tag (b "sm") (some Gen.nsSm) [] []]

def msg (id : String) : XTree := .tag (b "message") (some Gen.nsClient) [(b "id", b id)] []

def smSession : List Op :=
  [.connect .client, .run .none, .run .none,
   .run (.data [.open_ (b "stream") (some (b "s1")), .stanza featuresPlain]),
   .run (.data [.stanza (.tag (b "success") (some Gen.nsSasl) [] [])]),
   .run (.data [.open_ (b "stream") (some (b "s2")), .stanza featuresBindSm]),
   .run (.data [.stanza (.tag (b "iq") (some Gen.nsClient) [(b "id", b "_xmpp_bind1"), (b "type", b "result")] [])]),
   .run (.data [.stanza (.tag (b "enabled") (some Gen.nsSm) [(b "id", b "sm1"), (b "resume", b "true")] [])]),
   .run (.data [.stanza (msg "a"), .stanza (.tag (b "a") (some Gen.nsSm) [(b "h", b "0")] []), .stanza (msg "b"),
                .stanza (.tag (b "r") (some Gen.nsSm) [] [])]),
   .run .none]

set_option maxRecDepth 100000 in
example :
    let c := exec (fresh (some (b "user@example.org/r")) (some (b "secret")) false 0) smSession
    c.sm.handledNr = 2 ∧ countSince c.rxLog = 2 ∧
    (c.tx.filterMap fun r => match r.item with | .ack h => some (h, r.snap.handledNr) | _ => none) = [(2, 2)] := by
  decide

/-! ### the count is carried across connections: `<resume/>` reports it -/

def bindResult : XTree :=
  .tag (b "iq") (some Gen.nsClient) [(b "id", b "_xmpp_bind1"), (b "type", b "result")]
    [.tag (b "bind") (some Gen.nsBind) [] [.tag (b "jid") (some Gen.nsBind) [] [.text (b "user@example.org/r")]]]

/-- connect and negotiate up to the stream features after authentication -/
def nego : List Op :=
  [.connect .client, .run .none, .run .none,
   .run (.data [.open_ (b "stream") (some (b "s1")), .stanza featuresPlain]),
   .run (.data [.stanza (.tag (b "success") (some Gen.nsSasl) [] [])]),
   .run (.data [.open_ (b "stream") (some (b "s2")), .stanza featuresBindSm])]

/-- a resumable session in which two stanzas arrive, the loss of the connection, and the next
    connection up to `<resume/>` on the wire -/
def resumeSession : List Op :=
  nego ++
  [.run (.data [.stanza bindResult]),
   .run (.data [.stanza (.tag (b "enabled") (some Gen.nsSm) [(b "id", b "sm1"), (b "resume", b "true")] [])]),
   .run (.data [.stanza (msg "a"), .stanza (msg "b")]),
   .run .eof] ++ nego ++ [.run .none]

set_option maxRecDepth 100000 in
example :
    let c := exec (fresh (some (b "user@example.org/r")) (some (b "secret")) false 0) resumeSession
    c.sm.handledNr = 2 ∧ countSince c.rxLog = 2 ∧ c.protoViol = 0 ∧
    (c.tx.filterMap fun r => match r.item with | .resume p h => some (p, h, r.snap.handledNr) | _ => none) =
      [(b "sm1", 2, 2)] := by
  decide

/-! ### regression (finding D51): an element that merely CONTAINS an XEP-0198 child is not the answer
to `<enable/>`; it is a stanza and is counted (before the fix `_handle_sm` took it for `<enabled/>`
and restarted the count: counter 1 against 4 dispatched) -/

set_option maxRecDepth 100000 in
example :
    let c := exec (fresh (some (b "user@example.org/r")) (some (b "secret")) false 0)
      (nego ++ [.run (.data [.stanza bindResult]),
                .run (.data [.stanza (msg "a"), .stanza (msg "b"),
                  .stanza (.tag (b "enabled") (some Gen.nsClient) [] [.tag (b "x") (some Gen.nsSm) [] []])])])
    c.sm.handledNr = 4 ∧ countSince c.rxLog = 4 ∧ c.protoViol = 0 ∧
    (c.handlers.any fun h => h.fn = .sys .sm) = true := by
  decide

/-! ### the hypotheses of the implications are satisfiable by non-trivial reachable states -/

-- `sm_elements_never_counted`, `every_r_one_a`: an `<r/>` arriving in a connected state that has counted
set_option maxRecDepth 100000 in
example :
    let c := exec (fresh (some (b "user@example.org/r")) (some (b "secret")) false 0) smSession
    let st : XTree := .tag (b "r") (some Gen.nsSm) [] []
    st.ns? = some Gen.nsSm ∧ st.name? = some (b "r") ∧ c.state = .connected ∧ c.sm.enabled = true ∧
    c.sm.handledNr = 2 := by
  decide

-- `count_carried_across`: a state with an SM record and a non-zero count
set_option maxRecDepth 100000 in
example :
    let c := exec (fresh (some (b "user@example.org/r")) (some (b "secret")) false 0) smSession
    c.hasSm = true ∧ c.sm.handledNr = 2 := by
  decide

-- `reported_h_is_count`: the sessions above only submit user items (they submit nothing)
example : userOps smSession ∧ userOps resumeSession := by
  constructor <;> (intro op hop; simp [smSession, resumeSession, nego] at hop; rcases hop with h | h | h | h | h | h | h | h | h | h | h | h | h | h | h | h | h | h | h | h | h | h <;> (try subst h) <;> trivial)

end Strophe.C05
