/-
C18 — Base64 codec is exact and strict.   Property theorems only.

`Base64.decode` mirrors the two-phase C decoder and returns (bytes written, length reported);
`Spec.Rfc4648` is the independent RFC-level definition.
-/
import Strophe.Model.Base64
import Strophe.Spec.Rfc4648
import Strophe.Lemmas.Base64
import Strophe.Lemmas.Base64Safe

namespace Strophe.C18
open Strophe Strophe.Base64

/-! ### the regenerated tables are the RFC 4648 alphabet and its inverse -/

/-- `_base64_charmap` is Table 1 of RFC 4648 plus '=' at index 64 -/
theorem charmap_is_rfc : ∀ v, v < 64 → chr v = Spec.Rfc4648.alphabet v :=
  Lemmas.Base64.charmap_is_rfc

theorem pad_is_rfc : pad = Spec.Rfc4648.padChar := Lemmas.Base64.pad_is_rfc

/-- `_base64_invcharmap` is the inverse: value for alphabet characters, 64 for '=', 65 otherwise -/
theorem invcharmap_is_rfc (c : UInt8) :
    inv c = match Spec.Rfc4648.value c with
            | some v => v
            | none => if c = Spec.Rfc4648.padChar then 64 else 65 :=
  Lemmas.Base64.invcharmap_is_rfc c

theorem tables_inverse : (∀ v, v < 64 → inv (chr v) = v) ∧ (∀ c, inv c < 64 → chr (inv c) = c) :=
  Lemmas.Base64.tables_inverse

/-! ### encoder -/

/-- encoding any byte string gives its canonical RFC 4648 form -/
theorem encode_eq_rfc4648 (bs : Bytes) : encode bs = Spec.Rfc4648.encode bs :=
  Lemmas.Base64.encode_eq_rfc4648 bs

theorem encode_length (bs : Bytes) : (encode bs).length = 4 * ((bs.length + 2) / 3) :=
  Lemmas.Base64.encode_length bs

/-! ### decoder: accepts exactly the correctly padded strings, right value, right length -/

/-- The decoder agrees with the strict RFC decoder on EVERY input string: it fails exactly when
    the input is not a correctly padded base64 string (empty input included, as documented for
    `xmpp_base64_decode_bin`), and otherwise writes exactly the value and reports exactly its
    length — never uninitialised, truncated or over-long data. -/
theorem decode_exact (s : Bytes) :
    decodeBin s = if s = [] then none
                  else (Spec.Rfc4648.decode s).map fun v => (v, v.length) :=
  Lemmas.Base64.decode_exact s

/-- whatever is handed out was written: reported length = bytes initialised -/
theorem written_eq_reported (s w : Bytes) (n : Nat) (h : decodeBin s = some (w, n)) :
    w.length = n := by
  rw [decode_exact] at h
  split at h
  · simp at h
  · cases hd : Spec.Rfc4648.decode s with
    | none => simp [hd] at h
    | some v => simp [hd] at h; rw [← h.1, ← h.2]

/-- decoding an encoding gives the bytes back -/
theorem decode_encode (bs : Bytes) (h : bs ≠ []) :
    decodeBin (encode bs) = some (bs, bs.length) :=
  Lemmas.Base64.decode_encode bs h

/-- the string-returning variant: "" ↦ "", otherwise as `decode_bin` but values containing NUL
    are refused -/
theorem decode_str_exact (s : Bytes) :
    decodeStr s = if s = [] then some []
                  else match Spec.Rfc4648.decode s with
                    | none => none
                    | some v => if (0 : UInt8) ∈ v then none else some v :=
  Lemmas.Base64.decode_str_exact s

theorem decode_str_refuses_nul (s v : Bytes) (h : decodeStr s = some v) : (0 : UInt8) ∉ v := by
  rw [decode_str_exact] at h
  split at h
  · simp at h; subst h; simp
  · split at h
    · simp at h
    · split at h
      · simp at h
      · simp at h; subst h; assumption

/-! ### refused inputs too: nothing is stored outside the buffer -/

/-- pinning (translated from the source on every run): `base64_decoded_len` refuses more than two
    trailing padding characters — the `n > 2` of `Base64.decodedLen`, on which
    `writes_within_buffer` rests.  No differential run can see this statement in a verdict (the
    input is refused either way); only a sanitizer sees it. -/
theorem pin_nudge_guard : Gen.base64MaxNudge = some 2 := by decide

/-- `base64_decode` sizes its buffer (`dlen + 1` bytes) from `base64_decoded_len` BEFORE it looks at
    the characters in front of the trailing padding, and it stores three bytes per whole quartet
    until it meets the first non-alphabet character — on inputs it goes on to refuse as well.  For
    EVERY input that gets as far as the allocation: the quartet loop stores at most `dlen` bytes,
    and when the tail stage is reached and stores `t`, loop and tail together stay within `dlen`
    (the NUL goes to index `dlen`).  The `nudge > 2` refusal in `base64_decoded_len` is what makes
    this true: without it "AAAA========" allocates 2 bytes and stores 3 (seeded change C18-m10). -/
theorem writes_within_buffer (s : Bytes) (h4 : s.length % 4 = 0) (hd : decodedLen s ≠ 0) :
    (quartets s [] 0).written.length ≤ decodedLen s ∧
    (((quartets s [] 0).rest = [] ∨ ((quartets s [] 0).rest.length = 4 ∧ decodedLen s % 3 ≠ 0)) →
      ∀ t, tail (s.drop (s.length - 4)) (decodedLen s % 3) = some t →
        (quartets s [] 0).written.length + t.length ≤ decodedLen s) :=
  Lemmas.Base64Safe.writes_within_buffer s h4 hd

/-! ### non-vacuity and the witnesses of finding D21 (padding inside a non-final quartet) -/

/-- "Zm9v" ↦ "foo" -/
example : decodeBin (cs ['Z','m','9','v']) = some (cs ['f','o','o'], 3) := by decide
/-- "Zg==" ↦ "f" -/
example : decodeBin (cs ['Z','g','=','=']) = some (cs ['f'], 1) := by decide
/-- "AA==AAAA", "A=AA", "AA==AA==" are refused -/
example : decodeBin (cs ['A','A','=','=','A','A','A','A']) = none ∧
          decodeBin (cs ['A','=','A','A']) = none ∧
          decodeBin (cs ['A','A','=','=','A','A','=','=']) = none := by decide
example : encode (cs ['f','o','o','b']) = cs ['Z','m','9','v','Y','g','=','='] := by decide
/-- "AA==" decodes to a NUL byte: refused by the string variant, accepted by the binary one -/
example : decodeStr (cs ['A','A','=','=']) = none ∧ decodeBin (cs ['A','A','=','=']) = some ([0], 1) := by
  decide

/-- a refused input that still stores bytes: "AAAAAA=A" (8 characters, buffer for 6) stores the 3
    bytes of its first quartet and is then refused; and the long padding run is refused before
    anything is allocated -/
example : decodedLen (cs ['A','A','A','A','A','A','=','A']) = 6 ∧
          (quartets (cs ['A','A','A','A','A','A','=','A']) [] 0).written.length = 3 ∧
          decodeBin (cs ['A','A','A','A','A','A','=','A']) = none ∧
          decodedLen (cs ['A','A','A','A','=','=','=','=','=','=','=','=']) = 0 := by decide

end Strophe.C18
