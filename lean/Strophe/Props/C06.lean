/-
C06 — Send queue is byte-exact FIFO under any transport back-pressure.   Property theorems only.

`SendQueue.step` is the model of send / one loop iteration / drop / disconnect (tied to conn.c and
event.c by the `q` engine, which compares the complete internal queue state after every op).
Histories are arbitrary `List Op`: any interleaving of user sends, library sends, loop iterations
with any accept schedule (all / n bytes / 0 / EAGAIN / hard error per write call), drops, SM on/off.
-/
import Strophe.Model.SendQueue
import Strophe.Lemmas.SendQueue

namespace Strophe.C06
open Strophe Strophe.SendQueue Strophe.Lemmas.SendQueue

/-- pinning: the `<r/>` the library links behind a stanza -/
theorem pin_req_ack : Gen.reqAck = cs ['<','r',' ','x','m','l','n','s','=','\'','u','r','n',':','x','m','p','p',':','s','m',':','3','\'','/','>'] := by
  decide

/-- every reachable state satisfies the queue invariant: both counters equal the list they count,
    only the head can be started, `written` never exceeds the text -/
theorem invariant_reachable (ops : List Op) : Inv (runH ops).st := inv_reachable ops

/-- nothing lost, repeated or interleaved: for EVERY history, wire ++ still-queued bytes = the
    concatenation, in queueing order, of everything handed in and not taken back by a drop -/
theorem wire_is_fifo (ops : List Op) :
    (runH ops).wire ++ pending (runH ops).st.queue = ((runH ops).ghost.map (·.2)).flatten :=
  Lemmas.SendQueue.wire_is_fifo ops

/-- the same from ANY state, not only from a fresh connection: the history invariant `HInv` (queue
    invariant + ghost bookkeeping) is inductive, so whatever state a connection is in when it
    satisfies it — e.g. one rebuilt by `xmpp_conn_restore_sm_state` (C16.restored_then_fifo) — every
    continuation keeps it and stays byte-exact FIFO -/
theorem fifo_from_any_state (h : Hist) (hi : HInv h) (ops : List Op) :
    HInv (ops.foldl stepH h) ∧
    (ops.foldl stepH h).wire ++ pending (ops.foldl stepH h).st.queue =
      (((ops.foldl stepH h).ghost.map (·.2)).flatten) :=
  have hN := foldl_stepH_ind HInv hinv_step ops h hi
  ⟨hN, hN.fifo⟩

/-- one loop iteration, any accept schedule -/
theorem run_fifo (s : St) (sched : List Accept) (h : Inv s) :
    (runOnce s sched).2 ++ pending (runOnce s sched).1.queue = pending s.queue ∨
    (¬ s.connected ∧ runOnce s sched = (s, [])) := Lemmas.SendQueue.run_fifo s sched h

theorem send_appends (s : St) (o : Owner) (d : Bytes) :
    (¬ s.connected → sendRaw s o d = s) ∧
    (s.connected → ∃ extra, (extra = [] ∨ extra = Gen.reqAck) ∧
        pending (sendRaw s o d).queue = pending s.queue ++ d ++ extra ∧
        ∃ added, (sendRaw s o d).queue = s.queue ++ added) := Lemmas.SendQueue.send_appends s o d

/-- dropping returns the exact text of the oldest/youngest user element that was not started
    (any user element once disconnected), never a library-owned one, and removes exactly it (plus
    an `<r/>` linked to it) -/
theorem drop_exact (s : St) (w : Which) (t : Bytes) (s' : St) (h : Inv s)
    (hd : dropElement s w = (s', some t)) :
    ∃ i e, s.queue[i]? = some e ∧ e.owner = .user ∧ e.data = t ∧
      (s.connected → e.written = 0 ∧ e.wip = false) ∧
      (∀ j e', s.queue[j]? = some e' → e'.owner = .user → (s.connected → e'.wip = false) →
          (w = .oldest → i ≤ j) ∧ (w = .youngest → j ≤ i)) ∧
      (s'.queue = s.queue.eraseIdx i ∨
       (∃ r, s.queue[i + 1]? = some r ∧ r.link = some e.uid ∧ r.owner = .smStrophe ∧
             s'.queue = (s.queue.eraseIdx (i + 1)).eraseIdx i)) :=
  Lemmas.SendQueue.drop_exact s w t s' h hd

theorem drop_none (s : St) (w : Which) (s' : St) (h : Inv s)
    (hd : dropElement s w = (s', none)) :
    s' = s ∧ ∀ e ∈ s.queue, e.owner = .user → s.connected ∧ e.wip = true :=
  Lemmas.SendQueue.drop_none s w s' h hd

theorem dropped_never_on_wire (h : Hist) (w : Which) (hi : Inv h.st) (hc : h.st.connected)
    (hg : h.wire ++ pending h.st.queue = (h.ghost.map (·.2)).flatten) :
    ∀ u t, (u, t) ∈ (stepH h (.drop w)).ghost → (u, t) ∈ h.ghost ∨ t = [] :=
  Lemmas.SendQueue.dropped_never_on_wire h w hi hc hg

/-- the reported length counts the user's not-yet-started elements -/
theorem len_counts_not_started (s : St) (h : Inv s) : queueLen s = notStarted s.queue :=
  Lemmas.SendQueue.len_counts_not_started s h

/-! ### non-vacuity -/

/-- a history with a partial write, an EAGAIN, a drop of the second element and SM linkage -/
def demo : List Op :=
  [.send .user (cs ['a','b','c']), .send .user (cs ['d','e']), .send .strophe (cs ['<','>']),
   .run [.upTo 2], .drop .oldest, .run [.again], .setSm true, .send .user (cs ['x']),
   .run [.all, .all, .upTo 5, .upTo 5], .drop .youngest]

example : (runH demo).wire = cs ['a','b','c','<','>','x'] ++ Gen.reqAck.take 5 := by decide
example : ((runH demo).st.queue.map (·.data)) = [Gen.reqAck] := by decide
/-- the library element queued before SM was switched on is not counted (fix 'negotiation
    elements counted under back-pressure'); the two user elements are -/
example : (runH demo).st.smQueue.map (·.data) = [cs ['a','b','c'], cs ['x']] := by
  decide
/-- the drop handed "de" back; "abc" was started and protected -/
example : (step (runH (demo.take 4)).st (.drop .oldest)).2 = .dropped (some (cs ['d','e'])) := by
  decide
example : (step ({} : St) (.drop .oldest)).2 = .dropped none := by decide
/-- `fifo_from_any_state` is not vacuous: the fresh connection satisfies `HInv` -/
example : HInv {} := hinv_init

end Strophe.C06
