/-
C20 — Stream compression (XEP-0138) is transparent.   Property theorems only.

Model: `Strophe/Model/Compression.lean` = the staging layer of src/compression.c plus the write
loop / read branch of src/event.c that drive it; zlib is the parameter `Codec` under the named
hypotheses H-zlib (`Spec.Zlib.HDeflate`, `Spec.Zlib.HInflate`).

Status on the current tree.  The full-strength statements `WriteTransparent`, `ReadTransparent`
and `FreeReleasesEverything` are FALSE of the faithful model; each is refuted below by a concrete
witness the kernel evaluates, and every witness is replayed on the real code by
corpus/C20/*.ops (findings D22, D23, D30 on the write side, D24, D32, D33 on the read side, D31,
D8).
What does hold is proved as `…_partial` with the excluding hypotheses named in the docstrings.

`enabled_only_after_compressed` (compression is switched on only by `<compressed/>`, followed by a
stream restart) is a statement about the `Conn` machine (`_handle_features_compress`,
`_handle_compress_result`: `compressionInit` happens exactly in the `compressed` branch, between
`prepareReset openSasl` and `connOpenStream`) and is added with that model by the coordinator.
-/
import Strophe.Lemmas.Compression
import Strophe.Lemmas.CompressionToy

namespace Strophe.C20
open Strophe Strophe.Compression Strophe.Spec.Zlib Strophe.Lemmas.CompressionToy

/-! ### pinning: the numbers and modes the property talks about -/

/-- the staging buffers are 4096 bytes -/
theorem staging_buffer_is_4096 : bufSize = 4096 := by decide
/-- the event loop reads into a 4096-byte buffer -/
theorem read_buffer_is_4096 : msgBufSize = 4096 := by decide
/-- elements are deflated with Z_NO_FLUSH; the per-iteration flush is Z_FULL_FLUSH, or Z_SYNC_FLUSH
    with XMPP_CONN_FLAG_COMPRESSION_DONT_RESET; inflate always runs with Z_SYNC_FLUSH -/
theorem modes :
    Gen.Zl.compressionWriteMode = Gen.Zl.zNoFlush ∧
    Gen.Zl.compressionFlushModeReset = Gen.Zl.zFullFlush ∧
    Gen.Zl.compressionFlushModeDontReset = Gen.Zl.zSyncFlush ∧
    Gen.Zl.compressionInflateMode = Gen.Zl.zSyncFlush := by decide
/-- zlib.h -/
theorem zlib_constants :
    Gen.Zl.zNoFlush = 0 ∧ Gen.Zl.zSyncFlush = 2 ∧ Gen.Zl.zFullFlush = 3 ∧
    Gen.Zl.zOk = 0 ∧ Gen.Zl.zStreamEnd = 1 ∧ Gen.Zl.zBufError = -5 := by decide

/-! ### write side -/

/-- FULL STRENGTH (false on the current tree).  For every codec satisfying H-zlib, every sequence
    of sends and loop iterations and EVERY answer schedule of the lower transport (all / n bytes /
    0 / EAGAIN per write call): as long as the connection is up, what the server can inflate from
    the bytes it received is a prefix of the uncompressed stream (nothing lost, duplicated or
    reordered), and at the end of every iteration in which the transport accepted what it was
    offered it is exactly what the write loop has taken from the queue. -/
def WriteTransparent (C : Codec) (H : HDeflate C) : Prop :=
  ∀ (dontReset : Bool) (fuel : Nat) (ops : List Op),
    (run fuel (init C dontReset) ops).connected = true →
    (run fuel (init C dontReset) ops).diverged = false →
      H.decode (run fuel (init C dontReset) ops).net <+: submitted ops ∧
      (∀ pre sc, ops = pre ++ [Op.iter sc] → (∀ a ∈ sc, a = Accept.all) →
        H.decode (run fuel (init C dontReset) ops).net =
          (submitted ops).take (acked (run fuel (init C dontReset) ops) ops))

/-- What holds (any codec satisfying H-zlib, any sends, any number of iterations, elements of any
    size): if the lower transport accepts every write completely, the server's view is always a
    prefix of the submitted stream, and at the end of an iteration whose flush completed
    (`flushDone`: the last deflate call of `compression_flush` returned Z_OK with room left in the
    staging buffer, or Z_BUF_ERROR) it is the whole submitted stream and the queue is empty.

    Missing with respect to `WriteTransparent`:
    * the lower transport must accept every write completely — a short write drops the unsent
      tail of the staging buffer (D22), EAGAIN makes the event loop deflate the element again (D23);
    * the flush must fit: one deflate call is made per flush, so flush output beyond the
      staging space stays inside zlib until later iterations (D30). -/
theorem write_transparent_partial {C : Codec} (H : HDeflate C) (dontReset : Bool) (fuel : Nat)
    (ops : List Op) (hall : ∀ op ∈ ops, op.allAccept)
    (hconn : (run fuel (init C dontReset) ops).connected = true)
    (hdiv : (run fuel (init C dontReset) ops).diverged = false) :
    H.decode (run fuel (init C dontReset) ops).net <+: submitted ops ∧
    (∀ pre sc, ops = pre ++ [Op.iter sc] →
      (run fuel (init C dontReset) ops).flushDone = true →
        H.decode (run fuel (init C dontReset) ops).net = submitted ops ∧
        acked (run fuel (init C dontReset) ops) ops = (submitted ops).length) := by
  refine ⟨Lemmas.Compression.write_safe H dontReset fuel ops hall ⟨hconn, hdiv⟩, ?_⟩
  intro pre sc hops hfd
  subst hops
  obtain ⟨h1, h2⟩ := Lemmas.Compression.write_complete H dontReset fuel pre sc hall ⟨hconn, hdiv⟩ hfd
  exact ⟨h1, by simp [acked, h2]⟩

def a5000 : Bytes := List.replicate 5000 0x61

/-- D22: the lower transport takes 0 of the staged byte; the byte is dropped, the next element
    arrives without it -/
def witnessShortWrite : List Op := [.send [0x61], .iter [.upTo 0], .send [0x62], .iter []]
/-- D23: EAGAIN while a 5000-byte element is half deflated; the element is deflated again -/
def witnessEagain : List Op := [.send a5000, .iter [.again], .iter []]
/-- D30: the lower transport takes everything, but 5000 bytes of flush output do not fit into the
    4096-byte staging buffer -/
def witnessBigFlush : List Op := [.send a5000, .iter []]

set_option maxRecDepth 200000 in
theorem write_transparent_fails_on_short_write : ¬ WriteTransparent toyA toyA_deflate := by
  intro h
  have h1 := (h false 10 witnessShortWrite (by decide +kernel) (by decide +kernel)).1
  exact absurd h1 (by decide +kernel)

set_option maxRecDepth 200000 in
theorem write_transparent_fails_on_eagain : ¬ WriteTransparent toyA toyA_deflate := by
  intro h
  have h1 := (h false 10 witnessEagain (by decide +kernel) (by decide +kernel)).1
  exact absurd h1 (by decide +kernel)

set_option maxRecDepth 200000 in
theorem write_transparent_fails_on_big_flush : ¬ WriteTransparent toyB toyB_deflate := by
  intro h
  have h1 := (h false 10 witnessBigFlush (by decide +kernel) (by decide +kernel)).2
    [.send a5000] [] rfl (by simp)
  exact absurd h1 (by decide +kernel)

/-- the full-strength write statement does not hold -/
theorem not_write_transparent : ¬ ∀ (C : Codec) (H : HDeflate C), WriteTransparent C H :=
  fun h => write_transparent_fails_on_short_write (h toyA toyA_deflate)

/-- FULL STRENGTH (false, D31): the write loop never tears the connection down unless the lower
    transport reported a hard error. -/
def NoSpuriousDisconnect (C : Codec) : Prop :=
  ∀ (dontReset : Bool) (fuel : Nat) (ops : List Op),
    (∀ op ∈ ops, ∀ sc, op = Op.iter sc → Accept.err ∉ sc) →
    (run fuel (init C dontReset) ops).diverged = false →
    (run fuel (init C dontReset) ops).connected = true

set_option maxRecDepth 200000 in
/-- D31: an empty element: deflate(Z_NO_FLUSH) without input reports Z_BUF_ERROR, which
    `_compression_write` treats as fatal.  (No positive counterpart is proved: it would need
    progress hypotheses about the codec and the exclusion of empty elements.) -/
theorem spurious_disconnect_on_empty_send : ¬ NoSpuriousDisconnect toyA := by
  intro h
  have h1 := h false 10 [.send [0x61], .iter [], .send [], .iter []]
    (by
      intro op hop sc hsc
      simp only [List.mem_cons, List.not_mem_nil, or_false] at hop
      rcases hop with h | h | h | h <;> subst h <;> cases hsc <;> simp)
    (by decide +kernel)
  exact absurd h1 (by decide +kernel)

/-! ### read side -/

/-- FULL STRENGTH (false on the current tree).  For every codec satisfying H-zlib whose inflate
    reports no error (a healthy stream), however the compressed bytes are cut into non-empty
    fragments: the connection stays up and, once the application's loop has drained the socket
    after the last fragment, the parser has been fed exactly the plaintext the received bytes
    stand for. -/
def ReadTransparent (C : Codec) (HI : HInflate C) : Prop :=
  (∀ i inp room, (C.inflate i inp room).2.2.2 = Gen.Zl.zOk ∨
      (C.inflate i inp room).2.2.2 = Gen.Zl.zBufError) →
  ∀ (dontReset : Bool) (wfuel fuel : Nat) (frags : List Bytes), (∀ f ∈ frags, f ≠ []) →
    (rxAll wfuel fuel (init C dontReset) frags).1.diverged = false →
      (rxAll wfuel fuel (init C dontReset) frags).1.connected = true ∧
      (rxAll wfuel fuel (init C dontReset) frags).2 = HI.plain frags.flatten

/-- What holds (any codec satisfying H-zlib, ANY fragmentation, fragments of any size, whole loop
    iterations incl. their send halves): if the event loop is still connected after the last
    fragment, `compression_pending` reports nothing and the last inflate call returned with room
    left in the caller's buffer (`readDone`), the parser received exactly the plaintext of
    everything that arrived.

    Missing with respect to `ReadTransparent`:
    * "still connected" is a hypothesis: a read that yields no plaintext returns 0, which
      xmpp_run_once treats as "closed by remote host" (D24);
    * "nothing pending" is a hypothesis: xmpp_run_once returns when select() reports no event,
      before it asks `intf->pending`; input left in the decompression buffer (a fragment that
      inflates to more than 4096 bytes) waits for the next socket event (D33);
    * `readDone`: when inflate fills the 4096-byte buffer with the last input byte, the rest of
      the plaintext stays inside zlib and `compression_pending` reports nothing (D32). -/
theorem read_transparent_partial {C : Codec} (HI : HInflate C) (dontReset : Bool) (wfuel fuel : Nat)
    (frags : List Bytes)
    (hconn : (rxAll wfuel fuel (init C dontReset) frags).1.connected = true)
    (hdiv : (rxAll wfuel fuel (init C dontReset) frags).1.diverged = false)
    (hpend : pending (rxAll wfuel fuel (init C dontReset) frags).1 = false)
    (hdone : (rxAll wfuel fuel (init C dontReset) frags).1.readDone = true) :
    (rxAll wfuel fuel (init C dontReset) frags).2 = HI.plain frags.flatten :=
  Lemmas.Compression.read_ok HI dontReset wfuel fuel frags ⟨hconn, hdiv⟩ hpend hdone

/-- input that inflate has not consumed yet is reported by `compression_pending` -/
theorem pending_reports_buffered_input {C : Codec} (s : St C) (rest : Bytes) :
    pending { s with inPend := some rest } = true := rfl

set_option maxRecDepth 200000 in
/-- D24: the stream header arrives alone: inflate consumes it and yields nothing, read returns 0,
    the event loop disconnects -/
theorem read_transparent_fails_on_empty_yield : ¬ ReadTransparent toyA toyA_inflate := by
  intro h
  have h1 := (h toyA_inflate_never_errors false 10 10 [[0x78], [0x61]] (by decide) (by decide +kernel)).1
  exact absurd h1 (by decide +kernel)

set_option maxRecDepth 200000 in
/-- D32: 3000 bytes that inflate to 6000, all input taken by the first inflate call: the first
    4096 are delivered, nothing is pending, 1904 bytes stay behind inside the codec -/
theorem read_transparent_fails_on_full_buffer : ¬ ReadTransparent toyB toyB_inflate := by
  intro h
  have h1 := (h toyB_inflate_never_errors false 10 10 [List.replicate 3000 0x61] (by decide)
    (by decide +kernel)).2
  exact absurd h1 (by decide +kernel)

set_option maxRecDepth 200000 in
/-- D33: 3000 bytes that inflate to 6000, inflate stopping when the buffer is full: 952 input
    bytes stay in the decompression buffer, `pending` says so, but with the socket drained the
    event loop never asks -/
theorem read_transparent_fails_on_pending_input : ¬ ReadTransparent toyC toyC_inflate := by
  intro h
  have h1 := (h toyC_inflate_never_errors false 10 10 [List.replicate 3000 0x61] (by decide)
    (by decide +kernel)).2
  exact absurd h1 (by decide +kernel)

set_option maxRecDepth 200000 in
/-- … and in that state `compression_pending` does report the input -/
example : pending (rxAll 10 10 (init toyC false) [List.replicate 3000 0x61]).1 = true ∧
    (rxAll 10 10 (init toyC false) [List.replicate 3000 0x61]).2.length = 4096 := by decide +kernel

theorem not_read_transparent : ¬ ∀ (C : Codec) (HI : HInflate C), ReadTransparent C HI :=
  fun h => read_transparent_fails_on_empty_yield (h toyA toyA_inflate)

/-! ### teardown (D8) -/

/-- FULL STRENGTH (false): `compression_free` releases everything `compression_init` allocated -/
def FreeReleasesEverything : Prop := ∀ (C : Codec) (s : St C), liveBlocks (compressionFree s) = 0

/-- the record `struct xmpp_compression` itself is never freed (the extractor reads the
    `strophe_free*` calls of compression_free) -/
theorem record_not_freed : Gen.Zl.compressionFreeFreesRecord = false := by decide

theorem not_free_releases_everything : ¬ FreeReleasesEverything := by
  intro h
  have := h toyA (init toyA false)
  exact absurd this (by decide)

/-- what holds: both staging buffers are released, at most the record stays behind -/
theorem free_releases_buffers_partial {C : Codec} (s : St C) :
    (compressionFree s).cbufLive = false ∧ (compressionFree s).dbufLive = false ∧
    liveBlocks (compressionFree s) ≤ 1 := by
  refine ⟨rfl, rfl, ?_⟩
  simp only [liveBlocks, compressionFree]
  split <;> (cases s.recLive <;> simp)

/-! ### non-vacuity -/

/-- H-zlib is satisfiable (two different codecs) -/
example : HDeflate toyA := toyA_deflate
example : HInflate toyA := toyA_inflate
example : HDeflate toyB := toyB_deflate
example : HInflate toyB := toyB_inflate
example : HInflate toyC := toyC_inflate

/-- hypotheses of `write_transparent_partial` met by a non-trivial history (three elements, two
    iterations, buffering codec): the server ends up with exactly the submitted stream -/
example :
    let ops : List Op := [.send [1, 2, 3], .send [4], .iter [], .send [5, 6], .iter [.all]]
    (∀ op ∈ ops, op.allAccept) ∧
    (run 10 (init toyB true) ops).connected = true ∧ (run 10 (init toyB true) ops).diverged = false ∧
    (run 10 (init toyB true) ops).flushDone = true ∧
    toyB_deflate.decode (run 10 (init toyB true) ops).net = [1, 2, 3, 4, 5, 6] := by
  refine ⟨?_, by decide +kernel, by decide +kernel, by decide +kernel, by decide +kernel⟩
  intro op hop
  simp only [List.mem_cons, List.not_mem_nil, or_false] at hop
  rcases hop with h | h | h | h | h <;> subst h <;> simp [Op.allAccept]

set_option maxRecDepth 200000 in
/-- an element larger than the staging buffer does get through a transport that accepts
    everything when the codec does not hold data back (5000 bytes, two lower writes) -/
example : (run 10 (init toyA false) [.send a5000, .iter []]).net = a5000 ∧
    (run 10 (init toyA false) [.send a5000, .iter []]).calls = [(4096, 4096), (904, 904)] := by
  decide +kernel

/-- hypotheses of `read_transparent_partial` met: header and first byte together, then one more
    fragment -/
example :
    (rxAll 10 10 (init toyA false) [[0x78, 0x61], [0x62]]).1.connected = true ∧
    (rxAll 10 10 (init toyA false) [[0x78, 0x61], [0x62]]).1.readDone = true ∧
    (rxAll 10 10 (init toyA false) [[0x78, 0x61], [0x62]]).2 = [0x61, 0x62] := by decide +kernel

set_option maxRecDepth 200000 in
/-- an expanding fragment larger than one read buffer is delivered completely once another
    fragment wakes the loop up: 2100 bytes → 4200, plus one more byte → 2 -/
example :
    (rxAll 10 10 (init toyB false) [List.replicate 2100 7, [8]]).1.connected = true ∧
    (rxAll 10 10 (init toyB false) [List.replicate 2100 7, [8]]).2.length = 4202 := by decide +kernel

end Strophe.C20
