/-
C20 — Stream compression (XEP-0138) is transparent.   Property theorems only.

Model: `Strophe/Model/Compression.lean` = the staging layer of src/compression.c plus the write
loop / read branch of src/event.c that drive it; zlib is the parameter `Codec` under the named
hypotheses H-zlib (`Spec.Zlib.HDeflate`, `Spec.Zlib.HInflate`).

All statements are proved at full strength for the current tree: ANY answer schedule of the lower
transport (all / n bytes / 0 / EAGAIN / hard error per write call), ANY fragmentation of the
inbound bytes, elements and fragments of any size, any number of loop iterations.  They were
false before the repairs D8, D22, D23, D24, D30, D31, D32, D33 (commits 00f739e, 2d5586b, 0bca039,
e57c580, 3579f3e, d6f21ea, a500c92, cbd52d7); the inputs that refuted them are kept below as
kernel-evaluated regression examples and as corpus/C20/d*.ops for the real code.

The only residue: loops whose termination depends on zlib making progress (`_compression_write`'s
do/while, `compression_read`'s for(;;), the application's loop around xmpp_run_once) carry fuel in
the model; the theorems speak about runs in which the fuel sufficed (`diverged = false`).  The
correspondence driver runs with fuel 4·10⁶ / 2·10⁵ and reports `z-mismatch fuel` if it is ever
exhausted on the real zlib.

`enabled_only_after_compressed` (compression is switched on only by `<compressed/>`, followed by a
stream restart) is a statement about the `Conn` machine (`_handle_features_compress`,
`_handle_compress_result`: `compressionInit` happens exactly in the `compressed` branch, between
`prepareReset openSasl` and `connOpenStream`) and is added with that model by the coordinator.
-/
import Strophe.Lemmas.Compression
import Strophe.Lemmas.CompressionToy

namespace Strophe.C20
open Strophe Strophe.Compression Strophe.Spec.Zlib Strophe.Lemmas.CompressionToy

/-! ### pinning: the numbers and modes the property talks about -/

/-- the staging buffers are 4096 bytes -/
theorem staging_buffer_is_4096 : bufSize = 4096 := by decide
/-- the event loop reads into a 4096-byte buffer -/
theorem read_buffer_is_4096 : msgBufSize = 4096 := by decide
/-- elements are deflated with Z_NO_FLUSH; the per-iteration flush is Z_FULL_FLUSH, or Z_SYNC_FLUSH
    with XMPP_CONN_FLAG_COMPRESSION_DONT_RESET; inflate always runs with Z_SYNC_FLUSH -/
theorem modes :
    Gen.Zl.compressionWriteMode = Gen.Zl.zNoFlush ∧
    Gen.Zl.compressionFlushModeReset = Gen.Zl.zFullFlush ∧
    Gen.Zl.compressionFlushModeDontReset = Gen.Zl.zSyncFlush ∧
    Gen.Zl.compressionInflateMode = Gen.Zl.zSyncFlush := by decide
/-- zlib.h -/
theorem zlib_constants :
    Gen.Zl.zNoFlush = 0 ∧ Gen.Zl.zSyncFlush = 2 ∧ Gen.Zl.zFullFlush = 3 ∧
    Gen.Zl.zOk = 0 ∧ Gen.Zl.zStreamEnd = 1 ∧ Gen.Zl.zBufError = -5 := by decide

/-! ### write side -/

/-- For every sequence of sends and loop iterations and EVERY answer schedule of the lower
    transport (all / n bytes / 0 / EAGAIN / hard error per write call): as long as the connection
    is up, what the server can inflate from the bytes it received is a prefix of the uncompressed
    stream (nothing lost, duplicated or reordered), and at the end of every iteration in which
    the transport accepted what it was offered it is exactly what the write loop has taken from
    the queue — every stanza, complete and in order, flushed by the end of that iteration. -/
def WriteTransparent (C : Codec) (H : HDeflate C) : Prop :=
  ∀ (dontReset : Bool) (fuel : Nat) (ops : List Op),
    (run fuel (init C dontReset) ops).connected = true →
    (run fuel (init C dontReset) ops).diverged = false →
      H.decode (run fuel (init C dontReset) ops).net <+: submitted ops ∧
      (∀ pre sc, ops = pre ++ [Op.iter sc] → (∀ a ∈ sc, a = Accept.all) →
        H.decode (run fuel (init C dontReset) ops).net =
          (submitted ops).take (acked (run fuel (init C dontReset) ops) ops))

/-- FULL STRENGTH: any codec satisfying H-zlib, any history, any partial-write / EAGAIN schedule. -/
theorem write_transparent (C : Codec) (H : HDeflate C) : WriteTransparent C H := by
  intro dr fuel ops hconn hdiv
  refine ⟨Lemmas.Compression.write_safe H dr fuel ops ⟨hconn, hdiv⟩, ?_⟩
  intro pre sc hops hall
  subst hops
  obtain ⟨h1, h2⟩ := Lemmas.Compression.write_complete H dr fuel pre sc hall ⟨hconn, hdiv⟩
  rw [h1]
  simp [acked, h2]

/-- … and in such an iteration the queue is drained completely: the write loop has taken the
    whole submitted stream -/
theorem all_accepting_iteration_drains (C : Codec) (H : HDeflate C) (dontReset : Bool) (fuel : Nat)
    (pre : List Op) (sc : List Accept) (hall : ∀ a ∈ sc, a = Accept.all)
    (hconn : (run fuel (init C dontReset) (pre ++ [Op.iter sc])).connected = true)
    (hdiv : (run fuel (init C dontReset) (pre ++ [Op.iter sc])).diverged = false) :
    (run fuel (init C dontReset) (pre ++ [Op.iter sc])).queue = [] ∧
    H.decode (run fuel (init C dontReset) (pre ++ [Op.iter sc])).net = submitted (pre ++ [Op.iter sc]) :=
  let h := Lemmas.Compression.write_complete H dontReset fuel pre sc hall ⟨hconn, hdiv⟩
  ⟨h.2, h.1⟩

/-- The write loop never tears the connection down unless the lower transport reported a hard
    error (in particular not for an empty element, EAGAIN, or a transport that accepts nothing). -/
def NoSpuriousDisconnect (C : Codec) : Prop :=
  ∀ (dontReset : Bool) (fuel : Nat) (ops : List Op),
    (∀ op ∈ ops, ∀ sc, op = Op.iter sc → Accept.err ∉ sc) →
    (run fuel (init C dontReset) ops).diverged = false →
    (run fuel (init C dontReset) ops).connected = true

theorem no_spurious_disconnect (C : Codec) (H : HDeflate C) : NoSpuriousDisconnect C := by
  intro dr fuel ops hsc hdiv
  exact Lemmas.Compression.no_spurious H fuel ops (init C dr) [] (Lemmas.Compression.init_inv H dr)
    rfl rfl hsc hdiv

/-! ### read side -/

/-- For a healthy stream (inflate reports no error), however the compressed bytes are cut into
    fragments: the connection stays up and, once the application's loop around xmpp_run_once has
    come to rest after the last fragment, the parser has been fed exactly the plaintext the
    received bytes stand for. -/
def ReadTransparent (C : Codec) (HI : HInflate C) : Prop :=
  Lemmas.Compression.Healthy C →
  ∀ (dontReset : Bool) (wfuel fuel : Nat) (frags : List Bytes),
    (rxAll wfuel fuel (init C dontReset) frags).1.diverged = false →
      (rxAll wfuel fuel (init C dontReset) frags).1.connected = true ∧
      (rxAll wfuel fuel (init C dontReset) frags).2 = HI.plain frags.flatten

/-- FULL STRENGTH: any codec satisfying H-zlib, ANY fragmentation (1-byte fragments, fragments
    that yield no plaintext, fragments that inflate to many read buffers), whole loop iterations
    including their send halves (hence the deflate hypotheses). -/
theorem read_transparent (C : Codec) (H : HDeflate C) (HI : HInflate C) : ReadTransparent C HI :=
  fun hh dr wfuel fuel frags hd => Lemmas.Compression.read_ok H HI hh dr wfuel fuel frags hd

/-- input that inflate has not consumed yet is reported by `compression_pending` (and
    xmpp_run_once counts it as an event) -/
theorem pending_reports_buffered_input {C : Codec} (s : St C) (rest : Bytes) :
    pending { s with inPend := some rest } = true := rfl

/-- the two directions are independent: the read branch of an iteration leaves the deflate
    stream, the staging buffer, the send queue and everything handed to the lower transport exactly
    as the send half left them -/
theorem reads_leave_write_side_alone {C : Codec} (fuel : Nat) (s : St C) :
    ((runOnce fuel s).1.z, (runOnce fuel s).1.out, (runOnce fuel s).1.queue, (runOnce fuel s).1.sched,
      (runOnce fuel s).1.net, (runOnce fuel s).1.calls) =
    ((runOnceSend fuel s).z, (runOnceSend fuel s).out, (runOnceSend fuel s).queue,
      (runOnceSend fuel s).sched, (runOnceSend fuel s).net, (runOnceSend fuel s).calls) :=
  Lemmas.Compression.runOnce_wr fuel s

/-- … and the send half leaves the inflate stream, the decompression buffer and the unread
    inbound bytes alone -/
theorem writes_leave_read_side_alone {C : Codec} (fuel : Nat) (s : St C) :
    ((runOnceSend fuel s).zi, (runOnceSend fuel s).inPend, (runOnceSend fuel s).inq,
      (runOnceSend fuel s).inEof) = (s.zi, s.inPend, s.inq, s.inEof) :=
  Lemmas.Compression.runOnceSend_rd fuel s

/-! ### teardown -/

/-- `compression_free` releases everything `compression_init` allocated -/
def FreeReleasesEverything : Prop := ∀ (C : Codec) (s : St C), liveBlocks (compressionFree s) = 0

/-- the record `struct xmpp_compression` itself is freed (the extractor reads the `strophe_free*`
    calls of compression_free) -/
theorem record_freed : Gen.Zl.compressionFreeFreesRecord = true := by decide

theorem free_releases_everything : FreeReleasesEverything := by
  intro C s
  simp [liveBlocks, compressionFree, record_freed]

/-! ### non-vacuity, and the former counter-examples as regression checks -/

/-- H-zlib is satisfiable (three different codecs) -/
example : HDeflate toyA := toyA_deflate
example : HInflate toyA := toyA_inflate
example : HDeflate toyB := toyB_deflate
example : HInflate toyB := toyB_inflate
example : HInflate toyC := toyC_inflate
example : Lemmas.Compression.Healthy toyA := toyA_inflate_never_errors
example : Lemmas.Compression.Healthy toyB := toyB_inflate_never_errors
example : Lemmas.Compression.Healthy toyC := toyC_inflate_never_errors

def a5000 : Bytes := List.replicate 5000 0x61

/-- D22 (was: a short write dropped the unsent tail of the staging buffer): the lower transport
    takes 0 of the staged byte, then everything; the server gets both elements, in order -/
example : let s := run 10 (init toyA false) [.send [0x61], .iter [.upTo 0], .send [0x62], .iter []]
    s.connected = true ∧ s.diverged = false ∧ s.net = [0x61, 0x62] ∧ s.queue = [] := by decide +kernel

set_option maxRecDepth 200000 in
/-- D23 (was: EAGAIN in the middle of an element made the event loop deflate it again): 5000
    bytes, EAGAIN when the full staging buffer is to be written; the write loop is told how far deflate got
    (`written` = 4096) and resumes there -/
example : let s := run 10 (init toyA false) [.send a5000, .iter [.again]]
    s.connected = true ∧ s.queue = [(a5000, 4096)] ∧
    (run 10 (init toyA false) [.send a5000, .iter [.again], .iter []]).net = a5000 := by
  decide +kernel

set_option maxRecDepth 200000 in
/-- D30 (was: one deflate call per flush): 5000 bytes of flush output, 4096-byte staging buffer,
    lower transport taking everything: all 5000 bytes are out at the end of the iteration -/
example : (run 10 (init toyB false) [.send a5000, .iter []]).net = a5000 ∧
    (run 10 (init toyB false) [.send a5000, .iter []]).calls = [(4096, 4096), (904, 904)] := by
  decide +kernel

/-- D31 (was: an empty element tore the connection down) -/
example : let s := run 10 (init toyA false) [.send [0x61], .iter [], .send [], .iter []]
    s.connected = true ∧ s.disc = 0 ∧ s.queue = [] ∧ s.net = [0x61] := by decide +kernel

/-- D24 (was: a fragment that yields no plaintext closed the connection): the stream header
    arrives alone -/
example : let r := rxAll 10 10 (init toyA false) [[0x78], [0x61], [0x62]]
    r.1.connected = true ∧ r.1.disc = 0 ∧ r.2 = [0x61, 0x62] := by decide +kernel

set_option maxRecDepth 200000 in
/-- D32 (was: plaintext left inside inflate when it filled the buffer with the last input byte):
    3000 bytes that inflate to 6000, all input taken by the first inflate call -/
example : let r := rxAll 10 10 (init toyB false) [List.replicate 3000 0x61]
    r.1.connected = true ∧ r.2 = List.replicate 6000 0x61 ∧ pending r.1 = false := by decide +kernel

set_option maxRecDepth 200000 in
/-- D33 (was: xmpp_run_once ignored `intf->pending` without a socket event): 3000 bytes that
    inflate to 6000, inflate stopping when the read buffer is full -/
example : let r := rxAll 10 10 (init toyC false) [List.replicate 3000 0x61]
    r.1.connected = true ∧ r.2 = List.replicate 6000 0x61 ∧ pending r.1 = false := by decide +kernel

/-- D8 -/
example : liveBlocks (compressionFree (init toyA false)) = 0 := by decide

/-- a non-trivial history meeting the hypotheses of `write_transparent` under back-pressure:
    three elements, a transport that takes 1 byte, then nothing, then EAGAIN, then everything -/
example :
    let ops : List Op := [.send [1, 2, 3], .send [4], .iter [.upTo 1, .upTo 0], .send [5, 6],
                          .iter [.again], .iter []]
    (run 10 (init toyB true) ops).connected = true ∧ (run 10 (init toyB true) ops).diverged = false ∧
    toyB_deflate.decode (run 10 (init toyB true) ops).net = [1, 2, 3, 4, 5, 6] ∧
    toyB_deflate.decode (run 10 (init toyB true) (ops.take 3)).net = [1] := by decide +kernel

/-- a hard error of the lower transport does end the connection (so `NoSpuriousDisconnect` is not
    vacuously about a model that never disconnects) -/
example : (run 10 (init toyA false) [.send [1], .iter [.err]]).connected = false := by decide +kernel

end Strophe.C20
