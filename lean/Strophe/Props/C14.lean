/-
C14 — server discovery tries every candidate in SRV order before giving up.
Property theorems only (model: Model/Discovery.lean, helper lemmas: Lemmas/Discovery.lean).

Reading of the property in terms of the model.
* `Env` = the external engines: the SRV answer (`srv`, what `resolver_srv_lookup` returns; its
  order is C15's sort, see `srv_targets_sorted`), `getaddrinfo` per host (`addrs`), the kernel's /
  peer's treatment of each endpoint (`beh`: refuse, fail late, hang, accept).  All theorems
  quantify over every `Env`, every connect call `Cfg`, and every loop schedule `ticks`
  (milliseconds between successive `xmpp_run_once` calls).
* `exec true env cfg t0 ticks` = the connect call on a fresh connection at time `t0`, then the loop.
* `candidates env cfg` = the targets in list order, for each target its addresses in resolver order.
* "failure reported" = `Outcome.failed`: non-zero return code or an XMPP_CONN_DISCONNECT event.

History: before /repo commit d125b74 `failure_only_after_all` was FALSE (D18); the witness is kept
as `d18_unfixed_violates` about the model of the old loop (`fixed = false`).
-/
import Strophe.Lemmas.Discovery
import Strophe.Props.C15

namespace Strophe.C14
open Strophe Strophe.Discovery

/-! ### pinning lemmas: the literals the property names -/

/-- 5 s connect timeout; 5222 / 5223 / 5347; XMPP_EINT = -3; 256-byte target field -/
theorem pin_constants : Gen.Disc.connectTimeout = 5000 ∧ Gen.Disc.portClient = 5222 ∧
    Gen.Disc.portClientLegacySsl = 5223 ∧ Gen.Disc.portComponent = 5347 ∧ Gen.Disc.negEINT = 3 ∧
    Gen.Disc.flagLegacySsl = 4 ∧ Gen.maxDomainLen = 256 := by decide

/-- `_conn_default_port`: client 5222, legacy-SSL client 5223, component 5347 -/
theorem default_ports : defaultPort false false = 5222 ∧ defaultPort true false = 5223 ∧
    defaultPort false true = 5347 ∧ defaultPort true true = 5347 := by decide

/-- the port handed to `sock_new`: the caller's, or the documented default when none is given -/
theorem port_used (cfg : Cfg) :
    (cfg.altport ≠ 0 → cfg.port = cfg.altport) ∧
    (cfg.altport = 0 → cfg.kind = .component → cfg.port = 5347) ∧
    (cfg.altport = 0 → cfg.kind ≠ .component → cfg.legacy = true → cfg.port = 5223) ∧
    (cfg.altport = 0 → cfg.kind ≠ .component → cfg.legacy = false → cfg.port = 5222) := by
  refine ⟨?_, ?_, ?_, ?_⟩
  · intro h; simp [Cfg.port, h]
  · intro h hk; simp [Cfg.port, h, hk, defaultPort, pin_constants.2.2.2.1]
  · intro h hk hl
    have : (cfg.kind == Kind.component) = false := by cases hc : cfg.kind <;> simp_all
    simp [Cfg.port, h, this, hl, defaultPort, pin_constants.2.2.1]
  · intro h hk hl
    have : (cfg.kind == Kind.component) = false := by cases hc : cfg.kind <;> simp_all
    simp [Cfg.port, h, this, hl, defaultPort, pin_constants.2.1]

/-! ### SRV order -/

/-- the targets come in ascending priority, heavier weight first within a priority: whatever the
    DNS answer, the list `resolver_srv_lookup` hands to `sock_new` is sorted (C15) -/
theorem srv_targets_sorted (answer : Option Bytes) (l : List Srv) (h : srvLookup answer = some l) :
    C15.Sorted l := by
  unfold srvLookup at h
  cases answer with
  | none => cases h
  | some pkt =>
    simp only at h
    split at h
    · cases h
    · split at h
      · next l' hl =>
        injection h with h
        subst h
        exact C15.found_sorted pkt _ hl
      · cases h

/-- connecting by domain: the candidates are the SRV targets in list order, each with its
    addresses in resolver order and the port of its record … -/
theorem candidates_by_domain (env : Env) (cfg : Cfg) (l : List Srv) (hh : cfg.host = none)
    (hs : env.srv = some l) :
    candidates env cfg = l.flatMap fun r => (env.addrs r.target).map fun a => (a, r.port) := by
  simp only [candidates, targets, hh, hs]
  rfl

/-- … and when the SRV lookup fails, the domain itself at the default (or given) port -/
theorem srv_failure_falls_back_to_domain (env : Env) (cfg : Cfg) (hh : cfg.host = none)
    (hs : env.srv = none) :
    candidates env cfg = (env.addrs ((Jid.domain cfg.jid).take 255)).map fun a => (a, cfg.port) := by
  simp [candidates, targets, hh, hs, endpointsOf, rrNew, pin_constants.2.2.2.2.2.2]

/-! ### order of attempts -/

/-- the sequence of `connect(2)` targets is, at every moment, a prefix of the candidate list:
    nothing is tried out of order, twice, or skipped -/
theorem attempt_order (env : Env) (cfg : Cfg) (t0 : Nat) (ticks : List Nat) :
    attempts (exec true env cfg t0 ticks).run.acts <+: candidates env cfg := by
  by_cases hwf : cfg.WellFormed
  · have hi := exec_inv env False cfg t0 ticks hwf (fun h => h.elim)
    cases hs : (exec true env cfg t0 ticks).run.conn.state with
    | connecting =>
      obtain ⟨⟨⟨xs, _, hC⟩, _, _, _⟩, _⟩ := hi.connecting hs
      exact ⟨_, hC⟩
    | connected =>
      obtain ⟨⟨rest, hC⟩, _⟩ := hi.connected hs
      exact ⟨_, hC⟩
    | disconnected =>
      rw [hi.disconnected hs]
      exact List.prefix_refl _
  · rw [(exec_illFormed env cfg t0 ticks hwf).2.1]
    exact List.nil_prefix

/-- whenever the connection is established, the endpoint in use accepts, it is the last one
    tried, and every candidate before it was tried before it (any schedule) -/
theorem accepted_endpoint (env : Env) (cfg : Cfg) (t0 : Nat) (ticks : List Nat)
    (hc : (exec true env cfg t0 ticks).run.conn.state = .connected) :
    ∃ pre ep post, candidates env cfg = pre ++ ep :: post ∧ (env.beh ep).ok = true ∧
      (exec true env cfg t0 ticks).run.conn.sock = some ep ∧
      attempts (exec true env cfg t0 ticks).run.acts = pre ++ [ep] := by
  by_cases hwf : cfg.WellFormed
  · have hi := exec_inv env False cfg t0 ticks hwf (fun h => h.elim)
    obtain ⟨⟨rest, hC⟩, ⟨pre, ep, hsock, hatt, hok, _⟩, _⟩ := hi.connected hc
    exact ⟨pre, ep, rest, by rw [← hC, hatt]; simp, hok, hsock, hatt⟩
  · rw [(exec_illFormed env cfg t0 ticks hwf).1] at hc; cases hc

/-- it uses the FIRST endpoint that accepts: if the loop is run at least every CONNECT_TIMEOUT ms
    (so that an accepting endpoint cannot be mistaken for one that timed out), the endpoint in
    use is the first candidate that accepts, and exactly the candidates up to it were tried -/
theorem first_accept_wins (env : Env) (cfg : Cfg) (t0 : Nat) (ticks : List Nat)
    (hsched : ∀ t ∈ ticks, t ≤ Gen.Disc.connectTimeout)
    (hc : (exec true env cfg t0 ticks).run.conn.state = .connected) :
    ∃ pre ep post, candidates env cfg = pre ++ ep :: post ∧
      (∀ e ∈ pre, (env.beh e).ok = false) ∧ (env.beh ep).ok = true ∧
      (exec true env cfg t0 ticks).run.conn.sock = some ep ∧
      attempts (exec true env cfg t0 ticks).run.acts = pre ++ [ep] := by
  by_cases hwf : cfg.WellFormed
  · have hi := exec_inv env True cfg t0 ticks hwf (fun _ => hsched)
    obtain ⟨⟨rest, hC⟩, ⟨pre, ep, hsock, hatt, hok, hpre⟩, _⟩ := hi.connected hc
    exact ⟨pre, ep, rest, by rw [← hC, hatt]; simp, hpre trivial, hok, hsock, hatt⟩
  · rw [(exec_illFormed env cfg t0 ticks hwf).1] at hc; cases hc

/-- The schedule hypothesis of `first_accept_wins` cannot be dropped: `xmpp_run_once` tests the
    timeout BEFORE it asks `select()`, so an application that first runs the loop more than
    CONNECT_TIMEOUT ms after the connect call has the (accepting) first candidate judged "timed
    out".  Both targets accept, the loop starts 6 s late, the second one is used
    (corpus/C14/starved.ops shows the same on the real code).  In the property's words the first
    attempt "timed out"; `accepted_endpoint` is what holds for every schedule. -/
theorem starved_loop_may_skip :
    ∃ (env : Env) (cfg : Cfg) (ticks : List Nat),
      (exec true env cfg 0 ticks).run.conn.state = .connected ∧
      ∃ first second, candidates env cfg = [first, second] ∧ (env.beh first).ok = true ∧
        (exec true env cfg 0 ticks).run.conn.sock = some second ∧ first ≠ second :=
  ⟨{ srv := some [⟨1, 0, 5222, cs ['a']⟩, ⟨2, 0, 5222, cs ['b']⟩],
     addrs := fun h => if h = cs ['a'] then [⟨4, 1⟩] else if h = cs ['b'] then [⟨4, 2⟩] else [],
     beh := fun _ => .accept },
   ⟨.raw, cs ['x'], none, 0, 0⟩, [6000], by decide, (⟨4, 1⟩, 5222), (⟨4, 2⟩, 5222), by decide⟩

/-- failure (return code of the connect call, or a DISCONNECT notification) is reported only
    after every candidate was attempted -/
theorem failure_only_after_all (env : Env) (cfg : Cfg) (t0 : Nat) (ticks : List Nat)
    (hwf : cfg.WellFormed) (hf : (exec true env cfg t0 ticks).failed) :
    attempts (exec true env cfg t0 ticks).run.acts = candidates env cfg := by
  have hi := exec_inv env False cfg t0 ticks hwf (fun h => h.elim)
  rcases hf with hrc | ⟨e, he⟩
  · -- the connect call itself failed: the connection never left DISCONNECTED
    obtain ⟨hi0, hrc0, _, _⟩ := connect_inv env False t0 cfg hwf
    have hd : (connect true env t0 {} cfg).conn.state = .disconnected := hrc0.mp hrc
    have hidle := runTicks_idle env ticks ⟨(connect true env t0 {} cfg).conn, t0,
      (connect true env t0 {} cfg).acts, []⟩ (by simp [hd])
    have : (exec true env cfg t0 ticks).run.conn.state = .disconnected := by
      unfold exec; simp only; rw [hidle.1]; exact hd
    exact hi.disconnected this
  · cases hs : (exec true env cfg t0 ticks).run.conn.state with
    | connecting => exact absurd he ((hi.connecting hs).1.noDisc e)
    | connected => exact absurd he ((hi.connected hs).2.2 e)
    | disconnected => exact hi.disconnected hs

/-- … and it does move on: once the loop has run more often than there are candidates, each
    time after the timeout has passed, the outcome is decided (connected, or failure reported) -/
theorem eventually_decides (env : Env) (cfg : Cfg) (t0 : Nat) (ticks : List Nat)
    (ht : ∀ t ∈ ticks, Gen.Disc.connectTimeout < t)
    (hlen : (candidates env cfg).length ≤ ticks.length) :
    (exec true env cfg t0 ticks).run.conn.state ≠ .connecting := by
  by_cases hwf : cfg.WellFormed
  · obtain ⟨hi0, _, _, _⟩ := connect_inv env False t0 cfg hwf
    by_cases hs : (connect true env t0 {} cfg).conn.state = .connecting
    · obtain ⟨⟨⟨xs, hx, hC⟩, ⟨pre, ep, _, hatt, _⟩, _, _⟩, _⟩ := hi0.connecting hs
      have hlt : (rem env xs).length < ticks.length := by
        have : (candidates env cfg).length = (pre ++ [ep]).length + (rem env xs).length := by
          rw [← hC]; simp only at hatt; simp [hatt] <;> omega
        simp at this; omega
      exact runTicks_decides env _ ticks _ xs hi0 hx ht hlt
    · have hidle := runTicks_idle env ticks ⟨(connect true env t0 {} cfg).conn, t0,
        (connect true env t0 {} cfg).acts, []⟩ hs
      unfold exec; simp only; rw [hidle.1]; exact hs
  · rw [(exec_illFormed env cfg t0 ticks hwf).1]; decide

/-! ### bypassing SRV -/

private theorem bypass (env : Env) (cfg : Cfg) (t0 : Nat) (ticks : List Nat) (h : Host)
    (hwf : cfg.WellFormed) (hh : cfg.host = some h) :
    (exec true env cfg t0 ticks).queried = false ∧
    (∀ s, exec true { env with srv := s } cfg t0 ticks = exec true env cfg t0 ticks) ∧
    candidates env cfg = (env.addrs (h.take 255)).map fun a => (a, cfg.port) := by
  refine ⟨?_, ?_, ?_⟩
  · have := (connect_inv env False t0 cfg hwf).2.2.2
    unfold exec; simp only; rw [this]; simp [targets, hh]
  · intro s
    exact exec_sameNet { env with srv := s } env ⟨rfl, rfl⟩ cfg t0 ticks (by simp [hh])
  · simp [candidates, targets, hh, endpointsOf, rrNew, pin_constants.2.2.2.2.2.2]

/-- an explicitly given host bypasses SRV: no SRV query is made, the outcome does not depend on
    what an SRV lookup would have answered, the only target is that host (its name cut to the
    255 bytes of the target field) at the given port or, when none is given, 5222 (5223 with
    legacy SSL).  (A port given WITHOUT a host does not bypass SRV: it is only the port of the
    fall-back to the domain, see `srv_failure_falls_back_to_domain`.) -/
theorem explicit_host_bypasses_srv (env : Env) (cfg : Cfg) (t0 : Nat) (ticks : List Nat) (h : Host)
    (hk : cfg.kind ≠ .component) (hh : cfg.althost = some h) :
    (exec true env cfg t0 ticks).queried = false ∧
    (∀ s, exec true { env with srv := s } cfg t0 ticks = exec true env cfg t0 ticks) ∧
    candidates env cfg = (env.addrs (h.take 255)).map (fun a => (a, cfg.port)) ∧
    (cfg.altport = 0 → cfg.port = if cfg.legacy then 5223 else 5222) := by
  have hhost : cfg.host = some h := by
    unfold Cfg.host
    cases hc : cfg.kind <;> simp_all
  obtain ⟨a, b, c⟩ := bypass env cfg t0 ticks h (fun hk' => absurd hk' hk) hhost
  refine ⟨a, b, c, ?_⟩
  intro hp
  cases hl : cfg.legacy with
  | true => simpa using (port_used cfg).2.2.1 hp hk hl
  | false => simpa using (port_used cfg).2.2.2 hp hk hl

/-- legacy-SSL mode (no SRV record exists for the tunnelled port) and component mode bypass SRV:
    the domain of the JID resp. the given server is the only target, at the given port or 5223
    resp. 5347 -/
theorem legacy_ssl_and_component_bypass (env : Env) (cfg : Cfg) (t0 : Nat) (ticks : List Nat) :
    (cfg.kind ≠ .component → cfg.legacy = true → cfg.althost = none →
      (exec true env cfg t0 ticks).queried = false ∧
      (∀ s, exec true { env with srv := s } cfg t0 ticks = exec true env cfg t0 ticks) ∧
      candidates env cfg = (env.addrs ((Jid.domain cfg.jid).take 255)).map (fun a => (a, cfg.port)) ∧
      (cfg.altport = 0 → cfg.port = 5223)) ∧
    (∀ server, cfg.kind = .component → cfg.WellFormed → cfg.althost = some server →
      (exec true env cfg t0 ticks).queried = false ∧
      (∀ s, exec true { env with srv := s } cfg t0 ticks = exec true env cfg t0 ticks) ∧
      candidates env cfg = (env.addrs (server.take 255)).map (fun a => (a, cfg.port)) ∧
      (cfg.altport = 0 → cfg.port = 5347)) := by
  constructor
  · intro hk hl ha
    have hhost : cfg.host = some (Jid.domain cfg.jid) := by
      unfold Cfg.host
      cases hc : cfg.kind <;> simp_all
    obtain ⟨a, b, c⟩ := bypass env cfg t0 ticks _ (fun hk' => absurd hk' hk) hhost
    exact ⟨a, b, c, fun hp => (port_used cfg).2.2.1 hp hk hl⟩
  · intro server hk hwf ha
    have hhost : cfg.host = some server := by
      unfold Cfg.host
      simp [hk, ha]
    obtain ⟨a, b, c⟩ := bypass env cfg t0 ticks _ hwf hhost
    exact ⟨a, b, c, fun hp => (port_used cfg).2.1 hp hk⟩

/-! ### D18: the loop before d125b74 -/

/-- SRV targets a (prio 1), b (prio 2), c (prio 3, port 5269); a and b resolve to nothing, c has
    one accepting address -/
def d18Env : Env where
  srv := some [⟨1, 0, 5222, cs ['a']⟩, ⟨2, 0, 5222, cs ['b']⟩, ⟨3, 0, 5269, cs ['c']⟩]
  addrs := fun h => if h = cs ['c'] then [⟨4, 3⟩] else []
  beh := fun _ => .accept

def d18Cfg : Cfg := ⟨.raw, cs ['x', '.', 'o', 'r', 'g'], none, 0, 0⟩

/-- with the old single-reload loop the connect call fails (XMPP_EINT) although the one candidate
    was never tried: `failure_only_after_all` is false of that code (corpus/C14/d18.ops on the real
    code before the fix: `= rc -3 q 1 tr g:61:5222,g:62:5222 st disconnected`) -/
theorem d18_unfixed_violates :
    ¬ ∀ (env : Env) (cfg : Cfg) (t0 : Nat) (ticks : List Nat), cfg.WellFormed →
        (exec false env cfg t0 ticks).failed →
        attempts (exec false env cfg t0 ticks).run.acts = candidates env cfg := by
  intro h
  have := h d18Env d18Cfg 0 [] (by intro hk; cases hk) (Or.inl (by decide))
  revert this
  decide

/-- … and the current loop reaches c on the same input -/
theorem d18_fixed_reaches_c :
    (exec true d18Env d18Cfg 0 [1]).run.conn.state = .connected ∧
    attempts (exec true d18Env d18Cfg 0 [1]).run.acts = [(⟨4, 3⟩, 5269)] ∧
    (exec true d18Env d18Cfg 0 [1]).run.evs = [.rawConnect] := by decide

/-! ### non-vacuity -/

/-- two targets; first address refuses, second fails late, third hangs, fourth accepts -/
def exEnv : Env where
  srv := some [⟨0, 5, 5222, cs ['a']⟩, ⟨0, 1, 5223, cs ['b']⟩]
  addrs := fun h => if h = cs ['a'] then [⟨4, 1⟩, ⟨6, 2⟩] else if h = cs ['b'] then [⟨4, 3⟩, ⟨4, 4⟩, ⟨4, 5⟩] else []
  beh := fun e => if e = (⟨4, 1⟩, 5222) then .refuse else if e = (⟨6, 2⟩, 5222) then .late
    else if e = (⟨4, 3⟩, 5223) then .hang else .accept

def exCfg : Cfg := ⟨.raw, cs ['u', '@', 'x', '.', 'o', 'r', 'g', '/', 'r'], none, 0, 0⟩

/-- `first_accept_wins` / `accepted_endpoint`: hypotheses satisfiable on a schedule within the
    timeout, after a refused, a late-failing and a timed-out candidate -/
example : (∀ t ∈ [1, 5000, 5000, 1], t ≤ Gen.Disc.connectTimeout) ∧
    (exec true exEnv exCfg 7 [1, 5000, 5000, 1]).run.conn.state = .connected ∧
    attempts (exec true exEnv exCfg 7 [1, 5000, 5000, 1]).run.acts =
      [(⟨4, 1⟩, 5222), (⟨6, 2⟩, 5222), (⟨4, 3⟩, 5223), (⟨4, 4⟩, 5223)] ∧
    candidates exEnv exCfg =
      [(⟨4, 1⟩, 5222), (⟨6, 2⟩, 5222), (⟨4, 3⟩, 5223), (⟨4, 4⟩, 5223), (⟨4, 5⟩, 5223)] := by decide

/-- `failure_only_after_all`: a failing discovery (DISCONNECT after a late failure and a timeout) -/
def exEnvFail : Env := { exEnv with beh := fun e => if e.2 = 5222 then .late else .hang }

example : exCfg.WellFormed ∧ (exec true exEnvFail exCfg 0 [1, 1, 5001, 5001, 5001]).failed ∧
    (exec true exEnvFail exCfg 0 [1, 1, 5001, 5001, 5001]).run.evs = [.disconnect .timeout] ∧
    (exec true exEnvFail exCfg 0 [1, 1, 5001, 5001, 5001]).negRc = 0 := by
  refine ⟨(by intro hk; cases hk), Or.inr ⟨.timeout, (by decide)⟩, (by decide), (by decide)⟩

/-- … and one reported by the return code -/
example : (exec true { exEnv with beh := fun _ => .refuse } exCfg 0 []).negRc = 3 ∧
    attempts (exec true { exEnv with beh := fun _ => .refuse } exCfg 0 []).run.acts =
      candidates exEnv exCfg := by decide

/-- `eventually_decides`: hypotheses satisfiable -/
example : (∀ t ∈ [5001, 5001, 6000, 5001, 9000], Gen.Disc.connectTimeout < t) ∧
    (candidates exEnvFail exCfg).length ≤ [5001, 5001, 6000, 5001, 9000].length := by decide

/-- bypass: explicit host with legacy SSL on a raw connection; component -/
example : (⟨.raw, cs ['x'], some (cs ['h']), 0, 4⟩ : Cfg).port = 5223 ∧
    (exec true exEnv ⟨.raw, cs ['x'], some (cs ['h']), 0, 4⟩ 0 []).queried = false ∧
    (⟨.component, cs ['c', '.', 'x'], some (cs ['h']), 0, 0⟩ : Cfg).port = 5347 ∧
    (⟨.raw, cs ['x'], none, 0, 0⟩ : Cfg).port = 5222 ∧
    (exec true exEnv ⟨.raw, cs ['x'], none, 0, 0⟩ 0 []).queried = true := by decide

example : (⟨.component, cs ['c', '.', 'x'], some (cs ['h']), 0, 0⟩ : Cfg).WellFormed := by
  intro _; decide

/-- `srv_targets_sorted`: its hypothesis is met by real answers — the compressed two-record response
    `data5` of tests/test_resolver.c (C15) is handed to `sock_new` in priority order -/
example : srvLookup (some C15.data5) = some [
    ⟨30, 30, 5222, cs ['h','e','r','m','e','s','2','.','j','a','b','b','e','r','.','o','r','g']⟩,
    ⟨31, 30, 5222, cs ['h','e','r','m','e','s','2','v','6','.','j','a','b','b','e','r','.','o','r','g']⟩] := by
  decide +kernel

/-- a failed `res_query` and an answer without SRV records both mean "not found" -/
example : srvLookup none = none ∧ srvLookup (some []) = none ∧
    srvLookup (some [0, 0, 0x81, 0x80, 0, 0, 0, 0, 0, 0, 0, 0]) = none := by decide +kernel

end Strophe.C14
