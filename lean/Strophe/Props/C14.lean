/-
C14 — server discovery tries every candidate in SRV order before giving up.
(work in progress: pinning lemmas first)
-/
import Strophe.Model.Discovery

namespace Strophe.C14
open Strophe Strophe.Discovery

/-- the literals the property names: 5 s connect timeout, ports 5222 / 5223 / 5347 -/
theorem pin_constants : Gen.Disc.connectTimeout = 5000 ∧ Gen.Disc.portClient = 5222 ∧
    Gen.Disc.portClientLegacySsl = 5223 ∧ Gen.Disc.portComponent = 5347 := by decide

end Strophe.C14
