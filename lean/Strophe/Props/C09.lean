/-
C09 — Stanza serialisation is faithful and cannot be broken out of.   Property theorems only.

Models: `Model/HashTab.lean` (src/hash.c), `Model/Stanza.lean` (src/stanza.c), `Model/StanzaRead.lean`
(the abstraction `canon`, the quantifier `WfTree`, src/parser_expat.c on the fragment grammar).
Independent spec: `Spec/Xml.lean` (XML 1.0 fragment reader with namespace scoping, written from the W3C
grammar).  Tables and constants: `Gen/Stanza.lean`, regenerated from /repo on every run.

Reading guide
* "same tree" is equality of canonical trees `canon inh t : XNode`: element names, EFFECTIVE namespaces
  (nearest `xmlns` attribute on the node or an ancestor, `xmlns=""` = none, else the namespace `inh` in scope
  where the tree is placed), attribute sets without `xmlns` (sorted by name), child order, text with adjacent
  text nodes merged and empty ones dropped.
* A ROOT stanza is rendered with `par = none`; `xmlns='jabber:client'` is left out on a root (the stream's
  default namespace), so a root is read back where the default namespace is jabber:client
  (`parse_render`), or anywhere if it does not carry that declaration (`parse_render_any_ambient`).
* Rendering a stanza that HAS A PARENT leaves out an `xmlns` equal to the parent's.  That is by design
  (the rendering is meant to be read in the context of the parent) and is covered by
  `parse_render_in_context`: the rendering is faithful whenever the reader's namespace in scope agrees with
  the elided declaration — in particular inside its parent.  Read on its own such a rendering loses the
  namespace; callers copy the child first (a copy has no parent).
* `xmpp_error_new`'s stream-error condition table is extracted into `Gen/Stanza.lean` and modelled
  (`Stanza.errorNew`) but is not a subject of C09 (the reply helpers take the condition from the caller).
-/
import Strophe.Model.StanzaRead
import Strophe.Lemmas.HashTab
import Strophe.Lemmas.StanzaRender
import Strophe.Lemmas.StanzaOps
import Strophe.Lemmas.XmlParse
import Strophe.Lemmas.StanzaReread

namespace Strophe.C09
open Strophe Strophe.Stanza Strophe.Spec.Xml

/-! ### pinning: the numbers and names the property mentions, against what /repo says today -/

/-- the initial rendering buffer (its size is an internal constant, read from the source on every run;
    the theorems below hold for whatever positive value it has — `toText_exact` covers rendered
    lengths below, at and above it) -/
theorem first_buffer_positive : 0 < Gen.Stanza.firstBuf := by decide

/-- `_escape_xml` replaces exactly `"` `&` `<` `>` by `&quot;` `&amp;` `&lt;` `&gt;` -/
theorem escape_table_is :
    Gen.Stanza.escapeTable =
      [(34, [38, 113, 117, 111, 116, 59]), (38, [38, 97, 109, 112, 59]), (60, [38, 108, 116, 59]),
       (62, [38, 103, 116, 59])] := rfl

theorem attr_table_has_8_chains : Gen.Stanza.attrBuckets = 8 := rfl

theorem hash_shift_constants : Gen.Stanza.hashShiftStep = 8 ∧ Gen.Stanza.hashShiftLimit = 24 := ⟨rfl, rfl⟩

/-- XMPP_NS_CLIENT = "jabber:client" -/
theorem ns_client_is : nsClient = cs ['j','a','b','b','e','r',':','c','l','i','e','n','t'] := by decide

/-- XMPP_NS_STANZAS_IETF = "urn:ietf:params:xml:ns:xmpp-stanzas" (RFC 6120 §8.3.2) -/
theorem ns_stanzas_is :
    nsStanzas = cs ['u','r','n',':','i','e','t','f',':','p','a','r','a','m','s',':','x','m','l',':','n','s',':',
                    'x','m','p','p','-','s','t','a','n','z','a','s'] := by decide

theorem error_codes : Gen.Stanza.eOk = 0 ∧ Gen.Stanza.eMem = -1 ∧ Gen.Stanza.eInvOp = -2 ∧ Gen.Stanza.eInt = -3 :=
  ⟨rfl, rfl, rfl, rfl⟩

/-! ### `_escape_xml` cannot be broken out of -/

/-- Whatever bytes `s` consists of, its escaped form contains no `<`, no `>`, no `"`, and every `&` in it starts
    an entity reference (`&lt;` `&gt;` `&amp;` `&quot;` are the ones the escaper emits): text and attribute values
    cannot introduce, close or alter markup. -/
theorem escape_no_breakout (s : Bytes) :
    (∀ c ∈ escapeXml s, c ≠ 0x3C ∧ c ≠ 0x3E ∧ c ≠ 0x22) ∧ ampsOk (escapeXml s) = true :=
  ⟨escapeXml_no_markup s, ampsOk_escape s⟩

/-- replacing the entity references gives the original bytes back — for EVERY byte string -/
theorem unescape_escape (s : Bytes) : unescape (escapeXml s) = some s := Stanza.unescape_escape s

/-! ### `xmpp_stanza_to_text`: no truncation, reported length = length of the returned string -/

/-- The recursive renderer with its `snprintf` truncation accounting, run on a buffer of ANY size, reports the
    full length of the rendering and stores exactly the part that fits (`buflen - 1` bytes). -/
theorem renderRec_exact (par : Option (Option HashTab)) (t : Tree) (buflen : Nat) (hw : TabsWF t)
    (hr : renderable t = true) :
    renderRec par t buflen = .ok ((render par t).length, (render par t).take (buflen - 1)) ∨
      (buflen = 0 ∧ renderRec par t buflen = .ok ((render par t).length, [])) := by
  rw [renderRec_ok par t buflen hw hr]
  by_cases h : buflen = 0
  · right; exact ⟨h, by simp [stored, h]⟩
  · left; simp [stored, h]

/-- For every tree whose attribute tables satisfy the hash-table invariant (every tree built through the API,
    `built_wf`) and whose strings are C strings, at every size — below, at and above the 1024-byte first
    buffer —: if the renderer reaches no XMPP_STANZA_UNKNOWN node the result is the complete rendering and the
    reported length is its length (= `strlen` of the returned buffer); otherwise XMPP_EINVOP.  In particular no
    NULL is dereferenced (`Err.crash`) and the retry never fails (`Err.emem`). -/
theorem toText_exact (par : Option (Option HashTab)) (t : Tree) (hw : TabsWF t) (hn : NulFree t) :
    toText par t =
      if renderable t = true then .ok (render par t, (render par t).length) else .error .einvop := by
  by_cases hr : renderable t = true
  · rw [if_pos hr, toText_ok par t hw hr, cstr_of_nulfree _ (render_nulfree t par hn)]
  · rw [if_neg hr, toText_err par t hw (by simpa using hr)]

/-- … without the assumption on NULs: the returned C string is the rendering up to its first NUL and the
    reported length is still the full length (so the two can only differ if a NUL was put into the tree, which
    `char *` setters cannot do) -/
theorem toText_exact_cstr (par : Option (Option HashTab)) (t : Tree) (hw : TabsWF t) (hr : renderable t = true) :
    toText par t = .ok (cstr (render par t), (render par t).length) := toText_ok par t hw hr

/-- every tree that can be built through the public API satisfies the invariant the theorems above assume -/
theorem built_wf {t : Tree} (h : Built t) : TabsWF t := Stanza.built_wf h

/-- the hash table never yields the same attribute name twice -/
theorem attribute_names_distinct (tab : HashTab) (h : HashTab.WF tab) : (tab.toList.map Prod.fst).Nodup :=
  HashTab.keys_nodup h

/-! ### an independent reader reads the rendering back as the same tree -/

/-- the general statement: the rendering of a well-formed element below a parent with attribute table `pa`
    (`par = some pa`) or of a root (`par = none`), read by the XML reader of `Spec/Xml.lean` at a place where the
    default namespace in scope is `scope`, denotes the canonical tree of the element — provided `scope` agrees
    with any `xmlns` declaration the renderer leaves out (`Ctx`) -/
theorem parse_render_in_context (name : Bytes) (attrs : Option HashTab) (ks : List Tree)
    (par : Option (Option HashTab)) (scope : Option Bytes)
    (hw : WfTree (.tag name attrs ks)) (hc : Ctx par scope (.tag name attrs ks)) :
    parse scope (render par (.tag name attrs ks)) = some (canon scope (.tag name attrs ks)) := by
  simp only [parse, canon, parseRaw_render name attrs ks par scope hw hc, Option.map_some]

/-- **parse_render.**  Any well-formed root element of any depth and fan-out, rendered, is read by the independent
    reader — on a stream whose default namespace is jabber:client — as exactly its canonical tree: same names,
    effective namespaces, attribute sets, child order and text. -/
theorem parse_render (name : Bytes) (attrs : Option HashTab) (ks : List Tree) (hw : WfTree (.tag name attrs ks)) :
    parse (some nsClient) (render none (.tag name attrs ks)) = some (canon (some nsClient) (.tag name attrs ks)) := by
  apply parse_render_in_context name attrs ks none (some nsClient) hw
  intro tab v _ _ he
  simp only [elideNs, decide_eq_true_eq] at he
  subst he
  rfl

/-- a root that does not declare `xmlns='jabber:client'` is read back faithfully under ANY ambient namespace
    (also none at all) -/
theorem parse_render_any_ambient (name : Bytes) (attrs : Option HashTab) (ks : List Tree) (amb : Option Bytes)
    (hw : WfTree (.tag name attrs ks)) (hns : getAttribute (.tag name attrs ks) xmlnsKey ≠ some nsClient) :
    parse amb (render none (.tag name attrs ks)) = some (canon amb (.tag name attrs ks)) := by
  apply parse_render_in_context name attrs ks none amb hw
  intro tab v ha hg he
  simp only [elideNs, decide_eq_true_eq] at he
  subst he ha
  exact absurd hg hns

/-- a child is read back faithfully inside its parent: the namespace in scope there is the parent's effective one -/
theorem parse_render_child (name : Bytes) (attrs : Option HashTab) (ks : List Tree) (pattrs : Option HashTab)
    (inh : Option Bytes) (hw : WfTree (.tag name attrs ks)) :
    parse (effNs inh pattrs) (render (some pattrs) (.tag name attrs ks)) =
      some (canon (effNs inh pattrs) (.tag name attrs ks)) :=
  parse_render_in_context name attrs ks (some pattrs) (effNs inh pattrs) hw (ctx_kid pattrs inh _)

/-- without any assumption on the reader's scope: the rendering denotes `canonR`, the tree obtained by following
    the declarations that are actually written -/
theorem parse_render_as_written (name : Bytes) (attrs : Option HashTab) (ks : List Tree)
    (par : Option (Option HashTab)) (scope : Option Bytes) (hw : WfTree (.tag name attrs ks)) :
    parse scope (render par (.tag name attrs ks)) = some (canonR par scope (.tag name attrs ks)) := by
  simp only [parse, canonR, parseRaw_render_R name attrs ks par scope hw, Option.map_some]

/-- **xmlns elision preserves effective namespaces.**  Leaving out an `xmlns` equal to the parent's (or
    jabber:client on a root) does not change what the rendering denotes, as long as it is read where the
    namespace in scope is the one the elided declaration names (`Ctx`; always true below the root, and true for
    a root on a jabber:client stream): the tree obtained by following the written declarations only (`canonR`)
    is the canonical tree of the stanza tree (`canon`). -/
theorem xmlns_elision_preserves_effective_ns (t : Tree) (par : Option (Option HashTab)) (scope : Option Bytes)
    (hw : TabsWF t) (hc : Ctx par scope t) : canonR par scope t = canon scope t := by
  simp only [canonR, canon, canonRawR_eq t par scope hw hc]

/-- the rendering of a well-formed tree is a sequence of UTF-8 encoded XML characters -/
theorem render_is_xml_chars (t : Tree) (par : Option (Option HashTab)) (hw : WfTree t) :
    legalChars (render par t) = true := legalChars_render t par hw

/-! ### the library's own reader (`xmpp_stanza_new_from_string`, on the fragment grammar) -/

/- Full-strength statement (FALSE of the model, which follows the code — known finding F2, see
   `reread_full_strength_false` below and corpus/C09/f2_undeclared_ns.ops):

     theorem reread_same_tree (name attrs ks) (hw : WfTree (.tag name attrs ks)) :
       ∃ t', fromString (render none (.tag name attrs ks)) = some t' ∧
         some (canon none t') = parse none (render none (.tag name attrs ks))

   i.e. "the stanza the library re-reads from its own output denotes the tree an independent reader reads from
   the same bytes".  parser_expat.c sets an `xmlns` attribute only on elements expat reports a namespace for, so
   an element WITHOUT namespace below a namespaced ancestor (`xmlns=""`) comes back without attribute and, by the
   renderer's own convention (no attribute = inherit), denotes an element in the ancestor's namespace. -/

/-- **re-read, partial.**  What is missing for full strength: the hypothesis `NoUndecl` (the rendering does not
    un-declare the default namespace: no `xmlns=""` below a namespaced element).  Under it the library's own
    reader succeeds on the library's output and the tree it builds denotes exactly the tree the independent
    reader reads from the same bytes (both, like `xmpp_stanza_new_from_string`, with no ambient namespace). -/
theorem reread_same_tree_partial (name : Bytes) (attrs : Option HashTab) (ks : List Tree)
    (hw : WfTree (.tag name attrs ks)) (hn : NoUndecl none none (.tag name attrs ks)) :
    ∃ t', fromString (render none (.tag name attrs ks)) = some t' ∧
      some (canon none t') = parse none (render none (.tag name attrs ks)) :=
  reread_agrees name attrs ks hw hn

/-- … hence, for a root that does not declare jabber:client (nothing is elided at the top), the re-read stanza
    denotes the same canonical tree as the original -/
theorem reread_same_canon_partial (name : Bytes) (attrs : Option HashTab) (ks : List Tree)
    (hw : WfTree (.tag name attrs ks)) (hn : NoUndecl none none (.tag name attrs ks))
    (hns : getAttribute (.tag name attrs ks) xmlnsKey ≠ some nsClient) :
    ∃ t', fromString (render none (.tag name attrs ks)) = some t' ∧
      canon none t' = canon none (.tag name attrs ks) := by
  obtain ⟨t', e, h⟩ := reread_agrees name attrs ks hw hn
  refine ⟨t', e, ?_⟩
  rw [parse_render_any_ambient name attrs ks none hw hns] at h
  exact Option.some.inj h

/-- `<x xmlns="A"><y xmlns=""/></x>` -/
def exF2 : Tree := mkTag (cs ['x']) [(xmlnsKey, cs ['A'])] [mkTag (cs ['y']) [(xmlnsKey, [])] []]

/-- the witness: `exF2` is well-formed, the independent reader reads `y` in NO namespace, the library re-reads
    its own rendering as `x{xmlns=A}[y{}]`, which renders as `<x xmlns="A"><y/></x>` and denotes `y` in namespace
    `A` — so the full-strength statement fails exactly on the shape `NoUndecl` excludes -/
theorem reread_full_strength_false :
    WfTree exF2 ∧
    parse none (render none exF2) =
      some (.elem (some (cs ['A'])) (cs ['x']) [] [.elem none (cs ['y']) [] []]) ∧
    (∃ t', fromString (render none exF2) = some t' ∧
      canon none t' = .elem (some (cs ['A'])) (cs ['x']) [] [.elem (some (cs ['A'])) (cs ['y']) [] []] ∧
      render none t' = cs ['<','x',' ','x','m','l','n','s','=','"','A','"','>','<','y','/','>','<','/','x','>']) ∧
    ¬ NoUndecl none none exF2 := by
  refine ⟨?_, by rfl, ⟨_, rfl, by rfl, by rfl⟩, ?_⟩
  · exact wfTree_one _ _ _ _ (by decide) (by decide) (by decide) (by decide) (by decide) (by intro b hb; revert b; decide)
      ⟨wfTree_one _ _ _ _ (by decide) (by decide) (by decide) (by decide) (by decide) (by intro b hb; simp at hb) trivial,
        trivial⟩
  · intro h
    have : scopeOf (scopeOf none (shownAttrs none (attrsOf exF2))) (shownAttrs (some (attrsOf exF2))
        (attrsOf (mkTag (cs ['y']) [(xmlnsKey, [])] []))) = none → scopeOf none (shownAttrs none (attrsOf exF2)) = none := by
      have := h.2.1.1
      exact this
    have h1 : scopeOf (scopeOf none (shownAttrs none (attrsOf exF2))) (shownAttrs (some (attrsOf exF2))
        (attrsOf (mkTag (cs ['y']) [(xmlnsKey, [])] []))) = none := by rfl
    have h2 : scopeOf none (shownAttrs none (attrsOf exF2)) = some (cs ['A']) := by rfl
    rw [h2] at this
    exact absurd (this h1) (by simp)

/-- the full-strength statement instantiated at `exF2` is false -/
theorem reread_same_tree_fails_on_exF2 :
    ¬ ∃ t', fromString (render none exF2) = some t' ∧ some (canon none t') = parse none (render none exF2) := by
  rintro ⟨t', e, h⟩
  have e0 : fromString (render none exF2) = some (ofXNode (canonRawR none none exF2)) := by rfl
  rw [e0] at e
  cases e
  have h1 : canon none (ofXNode (canonRawR none none exF2)) =
      .elem (some (cs ['A'])) (cs ['x']) [] [.elem (some (cs ['A'])) (cs ['y']) [] []] := by rfl
  have h2 : parse none (render none exF2) =
      some (.elem (some (cs ['A'])) (cs ['x']) [] [.elem none (cs ['y']) [] []]) := by rfl
  rw [h1, h2] at h
  simp at h

/-! ### copies are deep and independent -/

/-- `xmpp_stanza_copy` succeeds and yields a tree with the same names, text, attribute maps and children at
    every depth, again satisfying the invariant -/
theorem copy_deep (t : Tree) (hw : TabsWF t) : ∃ t', copy t = some t' ∧ SameTree t t' ∧ TabsWF t' :=
  copy_spec t hw

/-- … and it denotes the same canonical XML tree, wherever it is placed (the attribute ORDER of a copy can differ:
    `_stanza_copy_attributes` re-inserts into a fresh table) -/
theorem copy_same_tree (t : Tree) (inh : Option Bytes) (hw : TabsWF t) :
    ∃ t', copy t = some t' ∧ canon inh t' = canon inh t := copy_canon t inh hw

/-- Independence: after `vw := copy(v…)`, whatever is done to the tree in `w` (any mutator `f`, at any node)
    leaves `v` as it was, and whatever is done to `v` leaves the copy in `w` as it was.  In the model trees are
    values, so this holds by construction of the store; that the C objects share nothing either is what the
    differential run checks on every copy-then-mutate program (`dump` of both sides after every mutation). -/
theorem copy_deep_independent (s : Store) (v w : Nat) (path mpath : List Nat) (f : Tree → Tree) (h : v ≠ w) :
    ((s.copyTo v path w).mutate w mpath f).getD v none = (s.copyTo v path w).getD v none ∧
    ((s.copyTo v path w).mutate v mpath f).getD w none = (s.copyTo v path w).getD w none :=
  ⟨store_mutate_other _ v w mpath f h, store_mutate_other _ w v mpath f (Ne.symm h)⟩

/-! ### reply helpers -/

/-- `xmpp_stanza_reply` answers NULL exactly when there is no `from` to reply to … -/
theorem reply_needs_sender (t : Tree) (h : getAttribute t kFrom = none) : reply t = none := reply_none t h

/-- … and otherwise addresses the original sender: same element name, no children, `to` = the original `from`,
    no `from`, no `xmlns`, every other attribute unchanged -/
theorem reply_addresses_sender (n : Bytes) (a : Option HashTab) (ks : List Tree)
    (hw : ∀ tab, a = some tab → HashTab.WF tab) (f : Bytes) (hf : getAttribute (.tag n a ks) kFrom = some f) :
    ∃ r, reply (.tag n a ks) = some r ∧ kids r = [] ∧
      getAttribute r kTo = some f ∧ getAttribute r kFrom = none ∧ getAttribute r xmlnsKey = none ∧
      ∀ k, k ≠ kTo → k ≠ kFrom → k ≠ xmlnsKey → getAttribute r k = getAttribute (.tag n a ks) k := by
  rw [getAttribute_tag] at hf
  obtain ⟨a', e, _, g⟩ := reply_spec n a ks hw f hf
  have d1 : kFrom ≠ kTo := by decide
  have d2 : xmlnsKey ≠ kTo := by decide
  refine ⟨_, e, rfl, ?_, ?_, ?_, ?_⟩
  · simp [getAttribute, g]
  · simp [getAttribute, g, d1]
  · simp [getAttribute, g, d2]
  · intro k h1 h2 h3
    simp [getAttribute_tag, getOpt, g, h1, h2, h3]

/-- `xmpp_stanza_reply_error` needs a type, a condition and a sender -/
theorem reply_error_needs (t : Tree) (et cond tx : Option Bytes)
    (h : et = none ∨ cond = none ∨ getAttribute t kFrom = none) : replyError t et cond tx = none := by
  rcases h with h | h | h
  · exact replyError_none_args t et cond tx (Or.inl h)
  · exact replyError_none_args t et cond tx (Or.inr h)
  · exact replyError_none_from t et cond tx h

/-- **RFC 6120 §8.3 structure.**  The error reply has `type='error'`, `to` = the original `from`, `from` = the
    original `to` (absent if there was none), no `xmlns`, all other attributes of the original, and exactly one
    child: `<error type='T'>` holding the condition element in urn:ietf:params:xml:ns:xmpp-stanzas and, if a text
    was given, `<text xmlns='urn:ietf:params:xml:ns:xmpp-stanzas'>` with that text. -/
theorem reply_error_structure (n : Bytes) (a : Option HashTab) (ks : List Tree)
    (hw : ∀ tab, a = some tab → HashTab.WF tab) (f : Bytes) (hf : getAttribute (.tag n a ks) kFrom = some f)
    (et cond : Bytes) (tx : Option Bytes) :
    ∃ r, replyError (.tag n a ks) (some et) (some cond) tx = some r ∧
      kids r = [errorChild et cond tx] ∧
      getAttribute r kType = some sError ∧ getAttribute r kTo = some f ∧
      getAttribute r kFrom = getAttribute (.tag n a ks) kTo ∧ getAttribute r xmlnsKey = none ∧
      ∀ k, k ≠ kType → k ≠ kTo → k ≠ kFrom → k ≠ xmlnsKey → getAttribute r k = getAttribute (.tag n a ks) k := by
  rw [getAttribute_tag] at hf
  obtain ⟨a', e, _, g⟩ := replyError_spec n a ks hw f hf et cond tx
  have d1 : kTo ≠ kType := by decide
  have d2 : kTo ≠ kFrom := by decide
  have d3 : kFrom ≠ kType := by decide
  have d4 : xmlnsKey ≠ kType := by decide
  have d5 : xmlnsKey ≠ kFrom := by decide
  have d6 : xmlnsKey ≠ kTo := by decide
  refine ⟨_, e, rfl, ?_, ?_, ?_, ?_, ?_⟩
  · simp [getAttribute, g]
  · simp [getAttribute, g, d1, d2]
  · simp [getAttribute_tag, getOpt, g, d3]
  · simp [getAttribute, g, d4, d5, d6]
  · intro k h1 h2 h3 h4
    simp [getAttribute_tag, getOpt, g, h1, h2, h3, h4]

/-- the bytes of that child, whatever `T`, the condition and the text contain:
    `<error type="T"><COND xmlns="urn:ietf:params:xml:ns:xmpp-stanzas"/>[<text xmlns="…">X</text>]</error>`
    with `T` and `X` escaped -/
theorem reply_error_child_bytes (par : Option (Option HashTab)) (et cond : Bytes) (tx : Option Bytes) :
    render par (errorChild et cond tx) =
      cs ['<','e','r','r','o','r',' ','t','y','p','e','=','"'] ++ escapeXml et ++ cs ['"','>'] ++
        (cs ['<'] ++ cond ++ cs [' ','x','m','l','n','s','=','"'] ++ nsStanzas ++ cs ['"','/','>']) ++
        (match tx with
         | some t =>
           cs ['<','t','e','x','t',' ','x','m','l','n','s','=','"'] ++ nsStanzas ++ cs ['"','>'] ++ escapeXml t ++
             cs ['<','/','t','e','x','t','>']
         | none => []) ++
        cs ['<','/','e','r','r','o','r','>'] := by
  rw [render_errorChild]
  have hns : escapeXml nsStanzas = nsStanzas := escapeXml_id _ (by decide)
  cases tx <;> simp [renderAttr, hns, cs, lt, gt, sl, sp, eq, dq, sError, sText, kType, xmlnsKey, List.append_assoc]

/-! ### non-vacuity: concrete trees meeting the hypotheses, and the theorems' conclusions evaluated on them -/

/-- `<msg to='a&lt;b>&amp;"'' id='1' xmlns='jabber:client'><body xmlns='jabber:client'>x &lt; y&amp;</body><x xmlns='urn:x'/></msg>` -/
def ex1 : Tree :=
  mkTag (cs ['m','s','g'])
    [(cs ['t','o'], cs ['a','<','b','>','&','"','\'']), (xmlnsKey, nsClient), (cs ['i','d'], cs ['1'])]
    [mkTag (cs ['b','o','d','y']) [(xmlnsKey, nsClient)] [.text (cs ['x',' ','<',' ','y']) [], .text (cs ['&']) []],
     mkTag (cs ['x']) [(xmlnsKey, cs ['u','r','n',':','x'])] []]

/-- `ex1` is built through the API … -/
example : TabsWF ex1 := tabsWF_mkTag' _ _ _
  ⟨tabsWF_mkTag' _ _ _ (by simp [TabsWFKids, TabsWF]), tabsWF_mkTag' _ _ _ trivial, trivial⟩

/-- … renders (both xmlns='jabber:client' are left out, the markup characters are escaped) to … -/
example : render none ex1 =
    cs ['<','m','s','g',' ','i','d','=','"','1','"',' ','t','o','=','"','a','&','l','t',';','b','&','g','t',';','&','a','m','p',';',
        '&','q','u','o','t',';','\'','"','>','<','b','o','d','y','>','x',' ','&','l','t',';',' ','y','&','a','m','p',';','<','/',
        'b','o','d','y','>','<','x',' ','x','m','l','n','s','=','"','u','r','n',':','x','"','/','>','<','/','m','s','g','>'] := by
  rfl

/-- … `xmpp_stanza_to_text` returns exactly that with its length … -/
example : toText none ex1 = .ok (render none ex1, 90) := by rfl

/-- … and the independent reader gets the canonical tree back (the conclusion of `parse_render`, evaluated) -/
example : parse (some nsClient) (render none ex1) = some (canon (some nsClient) ex1) := by rfl

/-- the canonical tree of `ex1`: both elided declarations are effective, the two text nodes are one -/
example : canon (some nsClient) ex1 =
    .elem (some nsClient) (cs ['m','s','g']) [(cs ['i','d'], cs ['1']), (cs ['t','o'], cs ['a','<','b','>','&','"','\''])]
      [.elem (some nsClient) (cs ['b','o','d','y']) [] [.text (cs ['x',' ','<',' ','y','&'])],
       .elem (some (cs ['u','r','n',':','x'])) (cs ['x']) [] []] := by rfl

/-- a tree above the first buffer: text one byte longer than the buffer needs the retry, and gets it -/
example : ∃ t : Tree, TabsWF t ∧ NulFree t ∧ renderable t = true ∧ (render none t).length > Gen.Stanza.firstBuf ∧
    toText none t = .ok (render none t, (render none t).length) := by
  have key : ∀ d : Bytes, d.length = Gen.Stanza.firstBuf + 1 → (0 : UInt8) ∉ d →
      TabsWF (.text d []) ∧ NulFree (.text d []) ∧ renderable (.text d []) = true ∧
        (render none (.text d [])).length > Gen.Stanza.firstBuf ∧
        toText none (.text d []) = .ok (render none (.text d []), (render none (.text d [])).length) := by
    intro d hl h0
    have hw : TabsWF (.text d []) := by simp [TabsWF, TabsWFKids]
    have hn : NulFree (.text d []) := by simpa [NulFree] using h0
    refine ⟨hw, hn, rfl, ?_, ?_⟩
    · have := escapeXml_length d
      simp only [render] at this ⊢; omega
    · have h := toText_exact none (.text d []) hw hn
      simpa [renderable] using h
  exact ⟨_, key (List.replicate (Gen.Stanza.firstBuf + 1) 97) (List.length_replicate ..)
    (fun h => absurd (List.mem_replicate.1 h).2 (by decide))⟩

/-- an unnamed stanza cannot be rendered -/
example : toText none Stanza.new = .error .einvop := by rfl

/-- break-out attempts as text and as attribute value stay data -/
example : escapeXml (cs ['"','/','>','<','b',' ','x','=','"']) =
    cs ['&','q','u','o','t',';','/','&','g','t',';','&','l','t',';','b',' ','x','=','&','q','u','o','t',';'] := by decide

/-- the reader refuses what is not XML: an unescaped `<` in a value, a duplicate attribute, mismatched tags,
    an illegal control character -/
example : parse none (cs ['<','a',' ','k','=','"','<','"','/','>']) = none ∧
    parse none (cs ['<','a',' ','k','=','"','1','"',' ','k','=','"','2','"','/','>']) = none ∧
    parse none (cs ['<','a','>','<','/','b','>']) = none ∧
    parse none [0x3C, 0x61, 0x3E, 0x01, 0x3C, 0x2F, 0x61, 0x3E] = none := by
  refine ⟨by rfl, by rfl, by rfl, by rfl⟩

/-- reply and error reply to `<iq from='a@b' to='c@d' id='7' xmlns='jabber:client'/>` -/
def ex2 : Tree :=
  mkTag (cs ['i','q']) [(kFrom, cs ['a','@','b']), (kTo, cs ['c','@','d']), (cs ['i','d'], cs ['7']), (xmlnsKey, nsClient)] []

example : (reply ex2).map (render none) =
    some (cs ['<','i','q',' ','i','d','=','"','7','"',' ','t','o','=','"','a','@','b','"','/','>']) := by rfl

example : (replyError ex2 (some (cs ['c','a','n','c','e','l'])) (some (cs ['g','o','n','e'])) none).map (render none) =
    some (cs ['<','i','q',' ','i','d','=','"','7','"',' ','t','y','p','e','=','"','e','r','r','o','r','"',' ','t','o','=','"','a','@','b','"',
              ' ','f','r','o','m','=','"','c','@','d','"','>','<','e','r','r','o','r',' ','t','y','p','e','=','"','c','a','n','c','e','l','"','>',
              '<','g','o','n','e',' ','x','m','l','n','s','=','"'] ++ nsStanzas ++
          cs ['"','/','>','<','/','e','r','r','o','r','>','<','/','i','q','>']) := by rfl

end Strophe.C09
