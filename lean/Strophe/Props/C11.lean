/-
C11 — Handlers fire exactly when their filter matches, in order, and stay deleted.   Property theorems only.

`Strophe.Handler` is the model of src/handler.c (registration with duplicate suppression, deletion by
callback pointer, `handler_fire_stanza` with its id phase and stanza phase, `handler_fire_timed` over
all connections and the context-wide list, `handler_reset_timed`, `handler_system_delete_all`, release),
tied to the real code by the engine `hnd` (after every op: invocations in order + every handler list).
Handler behaviours are ARBITRARY functions `Beh = Key → Nat → Step`: on its k-th invocation a callback
returns keep/remove and performs any list of API calls (add stanza / id / timed / context-wide handlers,
delete by callback function, send, let time pass).  States are arbitrary well-formed states (`WF`: what
every reachable state satisfies, `wf_reachable`) or the states reachable from the empty context by
arbitrary op lists (`run`).  No bounds anywhere.

`HandlerSpec` is the specification written from the property text: `Matches`, `expected`.
-/
import Strophe.Lemmas.HandlerGone
import Strophe.Gen.Handler

namespace Strophe.C11
open Strophe Strophe.Handler Strophe.HandlerSpec Strophe.Lemmas.Handler

/-! ### pinning: the shape of handler.c the model assumes (regenerated from the source on every run) -/

/-- the enable loop of the stanza handlers stands in front of the id phase (repair of D27), the id phase
    re-reads the list head before unlinking (repair of D7), every loop re-reads `item->next` after the
    callback, duplicates are recognised by callback AND user data, deletion goes by callback only, new
    stanza/id handlers are linked at the back and new timed handlers at the front, all disabled -/
theorem pin_structure :
    Gen.Handler.enableBeforeIdPhase = true ∧ Gen.Handler.headRereadBeforeRemove = true ∧
    Gen.Handler.nextRereadAfterCallback = true ∧ Gen.Handler.dupCheckBoth = true ∧
    Gen.Handler.deleteByCallbackOnly = true ∧ Gen.Handler.stanzaNewAtBack = true ∧
    Gen.Handler.idNewAtBack = true ∧ Gen.Handler.timedNewAtFront = true ∧
    Gen.Handler.newItemsDisabled = true := by decide

/-! ### filters -/

/-- the C expression of `handler_fire_stanza` is the filter semantics of the documentation: an absent
    filter matches everything, the namespace filter matches the stanza's `xmlns` or that of a direct
    child, name and type match the top-level element -/
theorem match_def (f : Filter) (s : Stanza) :
    matchesC f s = true ↔
      (f.ns = none ∨ s.ns = f.ns ∨ f.ns ∈ s.children) ∧ (f.name = none ∨ s.name = f.name) ∧
      (f.type = none ∨ s.type = f.type) :=
  matchesC_iff f s

/-! ### dispatch -/

/-- what is compared of an invocation: callback class, connection, the stanza the callback saw,
    registration, callback × user data, result -/
def view (v : Inv) : Cls × Nat × Option Str × Nat × Key × Bool := (v.cls, v.conn, v.name, v.uid, ⟨v.fn, v.ud⟩, v.ret)

/-- FIRE_EXACT.  For every well-formed state, every stanza and EVERY behaviour of the callbacks: if the
    dispatch returns, the callbacks it invoked are exactly `HandlerSpec.expected` — the id handlers
    registered for the stanza's id, then the stanza handlers whose filters match, each once, in
    registration order, as registered when the dispatch started, minus those whose callback function
    an earlier callback of this dispatch deleted; user handlers only once the stream is negotiated. -/
theorem fire_exact (beh : Beh) (st : St) (c : Nat) (s : Stanza) (st' : St) (w : WF st)
    (h : fireStanza beh st c s = .ok st') :
    ∃ L, st'.log = st.log ++ L ∧
      L.map view =
        (expected beh c (st.conns c).negotiated s st.cnt (idRegistered st c s) (st.conns c).handlers).map
          fun k => (Cls.stanza, c, s.name, k.reg, k.key, k.ret) := by
  have sp := fireStanza_spec beh st c s w
  rw [h] at sp
  refine ⟨_, sp.1, ?_⟩
  rw [expected_eq]
  simp only [List.map_append, List.map_map]
  rfl

/-- ADDED_DURING_DISPATCH_SKIPS_CURRENT.  Whatever is registered while a stanza is being dispatched
    (by an id handler or a stanza handler, on any list) gets an allocation number ≥ the counter at the
    start of the dispatch; every callback the dispatch invokes has a smaller one: a handler added
    during the dispatch does not see the stanza.  (False before commit 1276665 — D27.) -/
theorem added_during_dispatch_skips_current (beh : Beh) (st : St) (c : Nat) (s : Stanza) (st' : St) (w : WF st)
    (h : fireStanza beh st c s = .ok st') :
    ∃ L, st'.log = st.log ++ L ∧ ∀ v ∈ L, v.uid < st.nextUid := by
  have sp := fireStanza_post beh st c s w
  rw [h] at sp
  obtain ⟨_, _, L, e, hL⟩ := sp
  exact ⟨L, e, fun v hv => (hL v hv).2.2⟩

/-- … and a new registration gets exactly the counter value -/
theorem added_gets_fresh_uid (st : St) (c fn ud : Nat) (flt : Filter) (user : Bool)
    (h : hasKey (st.conns c).handlers fn ud = false) :
    ∃ it, ((handlerAdd st c fn ud flt user).conns c).handlers = (st.conns c).handlers ++ [it] ∧
      it.uid = st.nextUid ∧ it.enabled = false := by
  refine ⟨{ uid := st.nextUid, fn, ud, user, enabled := false, flt }, ?_, rfl, rfl⟩
  simp [handlerAdd, h]

/-! ### no use of freed list items -/

/- NO_STALE_ACCESS at full strength:
     ∀ beh ops, run beh {} ops ≠ .error .stale
   is FALSE of the faithful model (`no_stale_access_false`) and of the real code
   (corpus/C11/self-delete-*.ops, known finding `C11:self-delete:*`): the delete functions work by
   callback pointer, so a callback that deletes its own callback function frees the item the loop is
   standing on. -/

/-- NO_STALE_ACCESS (partial: behaviours in which no callback deletes its own callback function).
    For every such behaviour and every op list from the empty context, no dispatch loop ever
    dereferences a freed list item, and the loops' fuel is never exhausted.  Missing for the full
    statement: self-deleting callbacks (see above). -/
theorem no_stale_access_partial (beh : Beh) (hb : ¬ SelfDeleting beh) (ops : List Op) (e : Err) :
    run beh {} ops ≠ .error e := by
  intro h
  have := run_post beh ops {} wf_init
  rw [h] at this
  cases e with
  | stale => exact hb this
  | fuel => exact this

/-- the fuel of the loops (number of items when the loop starts) is enough for EVERY behaviour -/
theorem fuel_enough (beh : Beh) (ops : List Op) : run beh {} ops ≠ .error .fuel := by
  intro h
  have := run_post beh ops {} wf_init
  rw [h] at this
  exact this

/-- … so for such behaviours every dispatch from a well-formed state returns (and `fire_exact` says
    what it did) -/
theorem fire_total (beh : Beh) (hb : ¬ SelfDeleting beh) (st : St) (c : Nat) (s : Stanza) (w : WF st) :
    ∃ st', fireStanza beh st c s = .ok st' := by
  have sp := fireStanza_post beh st c s w
  revert sp
  generalize fireStanza beh st c s = res
  intro sp
  cases res with
  | ok st' => exact ⟨st', rfl⟩
  | error e =>
    cases e with
    | stale => exact absurd sp hb
    | fuel => exact sp.elim

/-- a dispatch reaches a freed item only if one of the callbacks it invoked deleted its own callback
    function from the list it was dispatched from -/
theorem stale_only_if_self_delete (beh : Beh) (st : St) (c : Nat) (s : Stanza) (w : WF st)
    (h : fireStanza beh st c s = .error .stale) : selfDelI beh st c s ∨ selfDelH beh st c s := by
  have sp := fireStanza_spec beh st c s w
  rw [h] at sp
  exact sp

/-- handler 1.0 deletes callback function 1 while it runs -/
def selfDeleter : Beh := fun k n => if k.fn = 1 ∧ n = 0 then { keep := true, acts := [.del 0 1] } else {}

def isStale : Except Err St → Bool
  | .error .stale => true
  | _ => false

/-- the negation of the full statement, by a concrete witness (replayed on the real code:
    corpus/C11/self-delete-stanza.ops) -/
theorem no_stale_access_false :
    isStale (run selfDeleter {} [.add 0 1 0 {} true, .add 0 1 1 {} true, .fire 0 { name := some [105] }]) = true := by
  decide

/-- every reachable state is well-formed: allocation numbers below the counter, no allocation and no
    callback × user data twice in a list -/
theorem wf_reachable (beh : Beh) (ops : List Op) (st : St) (h : run beh {} ops = .ok st) : WF st := by
  have := run_post beh ops {} wf_init
  rw [h] at this
  exact this.1

/-! ### duplicates -/

/-- DUPLICATE_KEPT_ONCE: registering a callback × user data that is already in the list changes
    nothing (all four lists; for stanza handlers whatever the filters are) … -/
theorem duplicate_kept_once (st : St) (c fn ud p : Nat) (flt : Filter) (id : Str) (user : Bool) :
    (hasKey (st.conns c).handlers fn ud = true → handlerAdd st c fn ud flt user = st) ∧
    (hasKey ((st.conns c).idTab id) fn ud = true → idHandlerAdd st c fn ud id user = st) ∧
    (hasKey (st.conns c).timed fn ud = true → timedAdd st c fn ud p user = st) ∧
    (hasKey st.gtimed fn ud = true → globalTimedAdd st fn ud p = st) := by
  refine ⟨fun h => by simp [handlerAdd, h], fun h => by simp [idHandlerAdd, h],
    fun h => by simp [timedAdd, timedAddList, h], fun h => by simp [globalTimedAdd, timedAddList, h]⟩

/-- … and in every reachable state no list holds the same callback × user data twice -/
theorem no_duplicates_reachable (beh : Beh) (ops : List Op) (st : St) (h : run beh {} ops = .ok st) (c : Nat) (id : Str) :
    ((st.conns c).handlers.map (·.key)).Nodup ∧ (((st.conns c).idTab id).map (·.key)).Nodup ∧
    ((st.conns c).timed.map (·.key)).Nodup ∧ (st.gtimed.map (·.key)).Nodup :=
  have w := wf_reachable beh ops st h
  ⟨(w.h c).kd, (w.i c id).kd, (w.t c).kd, w.g.kd⟩

/-! ### removed means removed -/

/-- allocation numbers identify registrations: in every reachable state no two items of ANY two lists
    share one -/
theorem registrations_unique (beh : Beh) (ops : List Op) (st : St) (h : run beh {} ops = .ok st) : Disj st :=
  (run_gone beh ops {} st wf_init disj_init h).2.1

/-- FALSE_OR_DELETED_NEVER_AGAIN (1): a handler whose callback returned false is in no list once the
    operation (dispatch or timed pass) is over -/
theorem returned_false_is_gone (beh : Beh) (ops : List Op) (st st' : St) (op : Op)
    (h : run beh {} ops = .ok st) (h' : step beh st op = .ok st') :
    ∃ L, st'.log = st.log ++ L ∧ ∀ v ∈ L, v.ret = false → Gone v.uid st' := by
  obtain ⟨_, _, _, L, e, _, r⟩ :=
    step_gone beh st st' op (wf_reachable beh ops st h) (registrations_unique beh ops st h) h'
  exact ⟨L, e, r⟩

/-- (2): after `xmpp_handler_delete` / `xmpp_id_handler_delete` / `xmpp_timed_handler_delete` /
    `xmpp_global_timed_handler_delete` — called from outside or from a callback — every registration of
    that callback function in that list is in no list -/
theorem deleted_is_gone (beh : Beh) (ops : List Op) (st : St) (h : run beh {} ops = .ok st)
    (a : Act) (l : Loc) (fn : Nat) (hl : actLoc a = some l) (hd : deletesFn fn a = true)
    (x : Item) (hx : x ∈ listAt st l) (hf : x.fn = fn) : Gone x.uid (applyAct st a) :=
  deleted_gone st (wf_reachable beh ops st h) (registrations_unique beh ops st h) a l fn hl hd x hx hf

/-- (3): a registration that is in no list is never called again and never comes back, whatever
    happens afterwards (re-registering the same callback × user data makes a NEW registration) -/
theorem gone_never_again (beh : Beh) (ops ops' : List Op) (st st' : St) (u : Nat)
    (h : run beh {} ops = .ok st) (hg : Gone u st) (h' : run beh st ops' = .ok st') :
    Gone u st' ∧ ∃ L, st'.log = st.log ++ L ∧ ∀ v ∈ L, v.uid ≠ u := by
  obtain ⟨_, _, g, L, e, n, _⟩ :=
    run_gone beh ops' st st' (wf_reachable beh ops st h) (registrations_unique beh ops st h) h'
  exact ⟨g u hg, L, e, fun v hv hu => n v hv (hu ▸ hg)⟩

/-! ### timed handlers -/

/-- TIMED_NOT_EARLY: in every reachable state, every logged invocation of a timed handler (connection
    or context-wide) happened at a time `t` with `t − last_stamp ≥ period`, where `last_stamp` is the
    stamp the loop read from the item (`timed_stamps`: the time of its registration, of the last
    `handler_reset_timed` that applied to it, or of its last invocation, whichever is latest) -/
theorem timed_not_early (beh : Beh) (ops : List Op) (st : St) (h : run beh {} ops = .ok st) :
    ∀ v ∈ st.log, v.cls ≠ .stanza → v.time - v.last ≥ v.period := by
  intro v hv hc
  rcases run_log_ok beh ops {} st wf_init h (by simp) v hv with h1 | h1
  · exact absurd h1 hc
  · exact h1

/-- … i.e. not before one full period after the stamp (for a period of 0 ms the statement is only that
    the virtual clock does not run backwards) -/
theorem timed_not_early_due (beh : Beh) (ops : List Op) (st : St) (h : run beh {} ops = .ok st) :
    ∀ v ∈ st.log, v.cls ≠ .stanza → v.period > 0 → v.last + v.period ≤ v.time := by
  intro v hv hc hp
  have := timed_not_early beh ops st h v hv hc
  omega

/-- where the stamp comes from: registration stamps with the current time … -/
theorem timed_stamps_add (st : St) (c fn ud p : Nat) (user : Bool) (h : hasKey (st.conns c).timed fn ud = false) :
    ∃ it, ((timedAdd st c fn ud p user).conns c).timed = it :: (st.conns c).timed ∧
      it.last = st.now ∧ it.period = p ∧ it.uid = st.nextUid := by
  refine ⟨{ uid := st.nextUid, fn, ud, user, enabled := false, period := p, last := st.now }, ?_, rfl, rfl, rfl⟩
  simp [timedAdd, timedAddList, h]

/-- … `handler_reset_timed` re-stamps (all, or the user's) with the current time … -/
theorem timed_stamps_reset (st : St) (c : Nat) (userOnly : Bool) :
    ((resetTimed st c userOnly).conns c).timed =
      (st.conns c).timed.map fun it => if userOnly = false ∨ it.user = true then { it with last := st.now } else it := by
  simp only [resetTimed, updConn_conns_same]
  apply List.map_congr_left
  intro it _
  cases userOnly <;> cases it.user <;> simp

/-- … and the loop stamps an item with the current time right before it calls it -/
theorem timed_stamps_fire (l : List Item) (u now : Nat) :
    ∀ x ∈ setLast l u now, (x.uid = u → x.last = now) ∧ (x.uid ≠ u → x ∈ l) := by
  intro x hx
  unfold setLast at hx
  obtain ⟨y, hy, rfl⟩ := List.mem_map.mp hx
  by_cases h : y.uid = u
  · simp [h]
  · simp [h, hy]

/-- TIMED_FIRES_WHEN_DUE (connection handlers): a timed handler of a connected connection (user
    handlers: negotiated) that is due when the connection's turn comes in `handler_fire_timed` is
    invoked in that very pass, at a time not before the pass started — unless a callback invoked earlier
    in the pass deleted its callback function -/
theorem timed_fires_when_due (beh : Beh) (st : St) (c : Nat) (w : WF st) (it : Item)
    (hit : it ∈ (st.conns c).timed) (hc : (st.conns c).connected = true)
    (hg : it.user = true → (st.conns c).negotiated = true) (hd : st.now - it.last ≥ it.period)
    (st' : St) (h : fireTimedConn beh st c = .ok st') :
    ∃ L, st'.log = st.log ++ L ∧
      ((∃ v ∈ L, v.uid = it.uid ∧ v.cls = .timed ∧ v.conn = c ∧ st.now ≤ v.time) ∨
       (∃ v ∈ L, ∃ n, Act.delTimed c it.fn ∈ (beh ⟨v.fn, v.ud⟩ n).acts)) :=
  timed_due_fires beh st c w it hit hc hg hd st' h

/-- TIMED_FIRES_WHEN_DUE (context-wide handlers): always, whatever the connections' states -/
theorem global_timed_fires_when_due (beh : Beh) (st : St) (w : WF st) (it : Item)
    (hit : it ∈ st.gtimed) (hd : st.now - it.last ≥ it.period)
    (st' : St) (h : globalLoop beh st.gtimed.length st st.gtimed = .ok st') :
    ∃ L, st'.log = st.log ++ L ∧
      ((∃ v ∈ L, v.uid = it.uid ∧ v.cls = .global ∧ st.now ≤ v.time) ∨
       (∃ v ∈ L, ∃ n, Act.delGlobal it.fn ∈ (beh ⟨v.fn, v.ud⟩ n).acts)) :=
  global_due_fires beh st w it hit hd st' h

/-- TIMED_ONLY_CONNECTED: the pass over a connection that is not connected does nothing at all … -/
theorem timed_only_connected (beh : Beh) (st : St) (c : Nat) (h : (st.conns c).connected = false) :
    fireTimedConn beh st c = .ok st :=
  fireTimedConn_disconnected beh st c h

/-- … so every connection-handler invocation of a whole `handler_fire_timed` belongs to a connection
    that is connected (context-wide handlers carry no such condition: `global_timed_fires_when_due`) -/
theorem timed_invocations_connected (beh : Beh) (st st' : St) (w : WF st) (h : fireTimed beh st = .ok st') :
    ∃ L, st'.log = st.log ++ L ∧
      ∀ v ∈ L, (v.cls = .timed ∧ (st.conns v.conn).connected = true) ∨ v.cls = .global := by
  have sp := fireTimed_post beh st w
  rw [h] at sp
  obtain ⟨_, _, _, _, _, L, e, hL⟩ := sp
  exact ⟨L, e, fun v hv => (hL v hv).2.2⟩

/-! ### non-vacuity -/

def fnsOf : Except Err St → List (Nat × Nat)
  | .ok st => st.log.map fun v => (v.fn, v.ud)
  | .error _ => [(999, 999)]

def quiet : Beh := fun _ _ => {}

/-- id handler first, then the stanza handlers that match (by child namespace, by name), in
    registration order; the non-matching one and the duplicate registration are not called -/
example :
    fnsOf (run quiet {} [.add 0 1 0 { ns := some [7] } true, .add 0 2 0 { name := some [9] } true,
      .add 0 3 0 { type := some [5] } true, .add 0 1 0 {} true, .addId 0 4 0 [8] true,
      .fire 0 { name := some [9], id := some [8], children := [none, some [7]] }]) = [(4, 0), (1, 0), (2, 0)] := by
  decide

/-- the id handler 4.0 adds stanza handler 5.0 and deletes stanza handler 2: the first stanza reaches
    4.0 and 1.0 only, the second one also the newcomer -/
def busy : Beh := fun k n => if k.fn = 4 ∧ n = 0 then { keep := false, acts := [.add 0 5 0 {}, .del 0 2] } else {}

example :
    fnsOf (run busy {} [.add 0 1 0 {} true, .add 0 2 0 {} true, .addId 0 4 0 [8] true,
      .fire 0 { name := some [9], id := some [8] }, .fire 0 { name := some [9], id := some [8] }]) =
      [(4, 0), (1, 0), (1, 0), (5, 0)] := by
  decide

/-- a timed handler (period 10) is not called after 9 ms, is called after 10 ms, not again at once,
    and not while its connection is disconnected; the context-wide one (period 10) is -/
example :
    fnsOf (run quiet {} [.addTimed 0 1 0 10 true, .addGlobal 2 0 10, .tick 9, .fireTimed, .tick 1, .fireTimed,
      .fireTimed, .setConnected 0 false, .tick 10, .fireTimed]) = [(1, 0), (2, 0), (2, 0)] := by
  decide

/-- hypotheses of `no_stale_access_partial`: `quiet` and `busy` do not delete themselves -/
example : ¬ SelfDeleting quiet := by
  rintro ⟨k, n, a, ha, _⟩
  simp [quiet] at ha

example : ¬ SelfDeleting busy := by
  rintro ⟨k, n, a, ha, hd⟩
  unfold busy at ha
  split at ha
  · rename_i h
    simp at ha
    rcases ha with rfl | rfl
    · simp [deletesFn] at hd
    · simp [deletesFn] at hd; omega
  · simp at ha

/-- hypotheses of `gone_never_again` / `returned_false_is_gone`: after the first dispatch of the
    `busy` scenario registration 2 (the id handler, returned false) is in no list -/
example :
    (match run busy {} [.add 0 1 0 {} true, .add 0 2 0 {} true, .addId 0 4 0 [8] true,
        .fire 0 { name := some [9], id := some [8] }] with
     | .ok st => decide (st.nextUid = 4) && ((st.conns 0).idTab [8]).isEmpty &&
                 ((st.conns 0).handlers.map (·.uid) == [0, 3])
     | .error _ => false) = true := by
  decide

end Strophe.C11
