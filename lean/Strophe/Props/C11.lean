/- C11 — placeholder while the proofs are being written (theorems follow). -/
import Strophe.Model.Handler
namespace Strophe.C11
open Strophe.Handler
theorem after_nil (u : Nat) : after [] u = none := rfl
end Strophe.C11
