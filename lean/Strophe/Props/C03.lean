/-
C03 — Negotiation follows the server's offers; "connected" means fully negotiated.
Property theorems only.  See Props/C02.lean for what `exec`, `tx`, `snap`, `userOps` are; `evs`
lists every notification / user callback with the ghost record `g` of the attempt at that moment
(what the server offered and confirmed so far on that connection).
-/
import Strophe.Model.ConnOps
import Strophe.Lemmas.ConnC03

namespace Strophe.C03
open Strophe Strophe.Conn Strophe.Lemmas.ConnC03

/-- every request answers something the server offered on that connection -/
theorem requests_answer_offers (jid pass : Option Bytes) (cert : Bool) (flags : Nat) (ops : List Op)
    (hu : userOps ops) :
    ∀ r ∈ (exec (fresh jid pass cert flags) ops).tx,
      (r.item = .starttls → r.snap.g.offeredTls = true) ∧
      (∀ m t, r.item = .auth m t → r.snap.g.offeredMechs &&& mechBit m ≠ 0) ∧
      (r.item = .compress → r.snap.g.offeredComp = true) ∧
      (∀ res, r.item = .bind res → r.snap.g.offeredBind = true) ∧
      (r.item = .session → r.snap.g.offeredSession = true) ∧
      (∀ x, r.item = .enable x → r.snap.g.offeredSm = true) ∧
      (∀ p h, r.item = .resume p h → r.snap.g.offeredSm = true) :=
  Lemmas.ConnC03.requests_answer_offers jid pass cert flags ops hu

theorem negotiation_order (jid pass : Option Bytes) (cert : Bool) (flags : Nat) (ops : List Op)
    (hu : userOps ops) :
    ∀ r ∈ (exec (fresh jid pass cert flags) ops).tx,
      ((∃ res, r.item = .bind res) ∨ r.item = .session ∨ (∃ x, r.item = .enable x) ∨
        (∃ p h, r.item = .resume p h) → r.snap.g.authOk = true) ∧
      (r.item = .starttls → r.snap.secured = false) ∧
      ((∃ m t, r.item = .auth m t) ∨ (∃ t, r.item = .response t) → r.snap.g.authOk = false) :=
  Lemmas.ConnC03.negotiation_order jid pass cert flags ops hu

/-- each stream header names the configured domain and reveals the user's address only on a
    secured stream -/
theorem header_fields (jid pass : Option Bytes) (cert : Bool) (flags : Nat) (ops : List Op)
    (hu : userOps ops) :
    ∀ r ∈ (exec (fresh jid pass cert flags) ops).tx, ∀ to frm comp, r.item = .hdr to frm comp →
      (∃ j, jid = some j ∧ to = (if comp then j else Jid.domain j)) ∧
      (∀ f, frm = some f → r.sec = true ∧ ∃ j, jid = some j ∧ f = Jid.bare j ∧ (64 : UInt8) ∈ j) :=
  Lemmas.ConnC03.header_fields jid pass cert flags ops hu

/-- the bind request asks for the configured resource -/
theorem bind_resource (jid pass : Option Bytes) (cert : Bool) (flags : Nat) (ops : List Op)
    (hu : userOps ops) :
    ∀ r ∈ (exec (fresh jid pass cert flags) ops).tx, ∀ res, r.item = .bind res →
      res = configuredResource jid :=
  Lemmas.ConnC03.bind_resource jid pass cert flags ops hu

/-- the user is told the connection is up at most once per connection attempt -/
theorem connect_once (jid pass : Option Bytes) (cert : Bool) (flags : Nat) (ops : List Op) (a : Nat) :
    (((exec (fresh jid pass cert flags) ops).evs.filter
        fun p => p.1.attempt = a && isConnectEv p.2).length) ≤ 1 :=
  Lemmas.ConnC03.connect_once jid pass cert flags ops a

/-- … and only after authentication succeeded and a resource was bound or a session resumed, or
    the component handshake was acknowledged (or legacy authentication succeeded) -/
theorem connect_implies_negotiated (jid pass : Option Bytes) (cert : Bool) (flags : Nat)
    (ops : List Op) :
    ∀ p ∈ (exec (fresh jid pass cert flags) ops).evs, p.2 = .connect →
      (p.1.authOk = true ∧ (p.1.bound = true ∨ p.1.resumed = true)) ∨
      p.1.handshakeAck = true ∨ p.1.legacyOk = true :=
  Lemmas.ConnC03.connect_implies_negotiated jid pass cert flags ops

/-- before that moment no user stanza handler or timed handler runs -/
theorem no_user_callback_before_connect (jid pass : Option Bytes) (cert : Bool) (flags : Nat)
    (ops : List Op) :
    ∀ p ∈ (exec (fresh jid pass cert flags) ops).evs,
      ((∃ n i, p.2 = .userStanza n i) ∨ p.2 = .userTimed) → p.1.notifiedConnect = true :=
  Lemmas.ConnC03.no_user_callback_before_connect jid pass cert flags ops

/-- … and no stanza the user submits reaches the wire (`notifiedW`: CONNECT had been delivered on
    the connection when the element was written) — PARTIAL: proved for histories without
    `xmpp_send_raw`; the full statement is false of the code (known finding D13, witness below) -/
theorem no_user_data_before_connect_partial (jid pass : Option Bytes) (cert : Bool) (flags : Nat)
    (ops : List Op) (hn : noSendRaw ops) :
    ∀ r ∈ (exec (fresh jid pass cert flags) ops).tx, r.owner = .user → r.notifiedW = true :=
  Lemmas.ConnC03.no_user_data_before_connect_partial jid pass cert flags ops hn

/-- the same at queue time: queued on a negotiated stream, or re-queued by a stream-management
    resumption whose session the server has already confirmed -/
theorem no_user_data_before_connect_queue_partial (jid pass : Option Bytes) (cert : Bool) (flags : Nat)
    (ops : List Op) (hn : noSendRaw ops) :
    ∀ r ∈ (exec (fresh jid pass cert flags) ops).tx, r.owner = .user →
      r.snap.negotiated = true ∨
      (r.snap.g.authOk = true ∧ (r.snap.g.bound = true ∨ r.snap.g.resumed = true)) :=
  Lemmas.ConnC03.no_user_data_before_connect_queue_partial jid pass cert flags ops hn

theorem negotiated_iff_notified (jid pass : Option Bytes) (cert : Bool) (flags : Nat) (ops : List Op) :
    let c := exec (fresh jid pass cert flags) ops
    c.state = .connected → (c.negotiated = true ↔ c.g.notifiedConnect = true) :=
  Lemmas.ConnC03.negotiated_iff_notified jid pass cert flags ops

/-! ### witness of known finding D13 and non-vacuity -/

set_option maxRecDepth 20000

/-- `xmpp_send_raw` right after the TCP connection is up: the user's bytes reach the wire although
    nothing has been negotiated -/
theorem send_raw_before_connect :
    ∃ r ∈ (exec (fresh (some (b "user@example.org")) (some (b "secret")) false 0)
            [.connect .client, .run .none, .uraw (.user (b "presence") none), .run .none, .run .none]).tx,
      r.owner = .user ∧ r.snap.negotiated = false ∧ r.notifiedW = false := by
  decide

def featuresPlain : XTree :=
  .tag (b "features") (some Gen.nsStreams) []
    [.tag (b "mechanisms") (some Gen.nsSasl) [] [.tag (b "mechanism") (some Gen.nsSasl) [] [.text (b "PLAIN")]]]

def featuresBind : XTree :=
  .tag (b "features") (some Gen.nsStreams) [] [.tag (b "bind") (some Gen.nsBind) [] []]

/-- a conforming login: CONNECT is delivered, once, after auth and bind -/
def login : List Op :=
  [.connect .client, .run .none, .run .none,
   .run (.data [.open_ (b "stream") (some (b "s1")), .stanza featuresPlain]),
   .run (.data [.stanza (.tag (b "success") (some Gen.nsSasl) [] [])]),
   .run (.data [.open_ (b "stream") (some (b "s2")), .stanza featuresBind]),
   .run (.data [.stanza (.tag (b "iq") (some Gen.nsClient) [(b "id", b "_xmpp_bind1"), (b "type", b "result")] [])]),
   .run .none]

example : ((exec (fresh (some (b "user@example.org/r")) (some (b "secret")) false 0) login).evs.map (·.2))
    = [.connect] := by decide
example : ((exec (fresh (some (b "user@example.org/r")) (some (b "secret")) false 0) login).tx.map (·.item))
    = [.hdr (b "example.org") none false, .auth (b "PLAIN") true, .hdr (b "example.org") none false,
       .bind (some (b "r"))] := by decide

end Strophe.C03
