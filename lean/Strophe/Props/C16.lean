/-
C16 — Persisted stream-management state restores faithfully or is refused cleanly.
Property theorems only.  Model: Strophe/Model/SmBlob.lean (tied to conn.c by engine `smblob`).
-/
import Strophe.Model.SmBlob
import Strophe.Lemmas.SmBlob

namespace Strophe.C16
open Strophe Strophe.SendQueue Strophe.SmBlob Strophe.Lemmas.SmBlob

theorem restore_serialize (c : Conn) (h : Serializable c) (b : Bytes) (hb : serialize c = .blob b) :
    ∃ c', restore fresh b = (c', .rc 0) ∧
      c'.q.sentNr = c.q.sentNr ∧ c'.handledNr = c.handledNr ∧ c'.smId = c.smId ∧
      c'.q.queue.map (·.data) = c.q.queue.map (·.data) ∧
      (∀ e ∈ c'.q.queue, e.owner = .user ∧ e.written = 0 ∧ e.wip = false ∧ e.link = none) ∧
      c'.q.smQueue.map (fun e => (e.smH, e.data)) = c.q.smQueue.map (fun e => (e.smH, e.data)) ∧
      c'.hasSm = true ∧ c'.smSupport = true ∧ c'.q.smEnabled = true ∧ c'.canResume = true ∧
      c'.resume = true ∧ c'.q.connected = false :=
  Lemmas.SmBlob.restore_serialize c h b hb

theorem serialize_of_serializable (c : Conn) (h : Serializable c) : ∃ b, serialize c = .blob b :=
  Lemmas.SmBlob.serialize_of_serializable c h

/-- the blob determines everything it is meant to carry: two resumable states that serialise to the
    same bytes agree on both counters, the session id, the unsent texts (in order) and the
    unacknowledged (sequence number, text) pairs (in order) — no two different states share a blob -/
theorem serialize_injective (c₁ c₂ : Conn) (h₁ : Serializable c₁) (h₂ : Serializable c₂) (b : Bytes)
    (hb₁ : serialize c₁ = .blob b) (hb₂ : serialize c₂ = .blob b) :
    c₁.q.sentNr = c₂.q.sentNr ∧ c₁.handledNr = c₂.handledNr ∧ c₁.smId = c₂.smId ∧
    c₁.q.queue.map (·.data) = c₂.q.queue.map (·.data) ∧
    c₁.q.smQueue.map (fun e => (e.smH, e.data)) = c₂.q.smQueue.map (fun e => (e.smH, e.data)) :=
  Lemmas.SmBlob.serialize_injective c₁ c₂ h₁ h₂ b hb₁ hb₂

theorem restore_strict (b : Bytes) (c' : Conn) (h : restore fresh b = (c', .rc 0)) :
    serialize c' = .blob b := Lemmas.SmBlob.restore_strict b c' h

theorem restore_safe (c : Conn) (b : Bytes) : (restore c b).2 ≠ .oob :=
  Lemmas.SmBlob.restore_safe c b

theorem reject_leaves_fresh (b : Bytes) (c' : Conn) (n : Int) (h : restore fresh b = (c', .rc n))
    (hn : n ≠ 0) : c' = fresh := Lemmas.SmBlob.reject_leaves_fresh b c' n h hn

theorem reject_clean (c : Conn) (b : Bytes) (c' : Conn) (n : Int) (h : restore c b = (c', .rc n))
    (hn : n ≠ 0) : c' = c ∨ (c'.hasSm = false ∧ c'.q.queue = [] ∧ c'.q.len = 0 ∧ c'.q.userLen = 0) :=
  Lemmas.SmBlob.reject_clean c b c' n h hn

theorem offline_only (c : Conn) (b : Bytes) (h : c.q.connected = true ∨ c.hasSm = true) :
    restore c b = (c, .rc (-2)) := Lemmas.SmBlob.offline_only c b h

theorem restored_queues_like_native (b : Bytes) (c' : Conn) (h : restore fresh b = (c', .rc 0)) :
    Lemmas.SendQueue.Inv c'.q := Lemmas.SmBlob.restored_inv b c' h

/-- "the restored queues behave like native ones", at full strength: start from ANY accepted blob
    and do ANYTHING with the restored connection afterwards (connect, user and library sends, loop
    iterations under any accept schedule, drops, SM on/off, disconnects — the restored connection
    is offline, so until `xmpp_connect_*` (which, like for a native queue, starts from an empty
    send queue) sends are refused and the histories that matter are the queue-inspection calls;
    the statement holds for every history all the same).  At every point the queue
    invariant holds, and the bytes on the wire followed by the bytes still queued are exactly the
    texts handed in — where what has been "handed in" starts with the restored unsent elements in
    their saved order (`restoredHist`), followed by whatever was queued later. -/
theorem restored_then_fifo (b : Bytes) (c' : Conn) (h : restore fresh b = (c', .rc 0))
    (ops : List Op) :
    let hN := ops.foldl stepH (restoredHist c')
    Lemmas.SendQueue.Inv hN.st ∧
      hN.wire ++ pending hN.st.queue = (hN.ghost.map (·.2)).flatten ∧
      ∃ later, hN.ghost.map (·.1) = c'.q.queue.map (·.uid) ++ later :=
  Lemmas.SmBlob.restored_then_fifo b c' h ops

/-! ### pinning and non-vacuity -/

/-- the type tags and the version prefix of the format -/
example : version = [0x1a, 0, 0, 0, 0] ∧ storeU32 0x7a 2 = [0x7a, 0, 0, 0, 2] := by decide

/-- a concrete resumable state: counters 5/7, id "id", one unsent and one unacknowledged stanza -/
def demo : Conn :=
  { q := { smEnabled := true, sentNr := 5, queue := [{ uid := 0, data := cs ['a','b'], owner := .user }],
           len := 1, userLen := 1, nextUid := 2,
           smQueue := [{ uid := 1, data := cs ['c'], owner := .user, smH := 4 }] },
    smSupport := true, canResume := true, handledNr := 7, smId := some (cs ['i','d']) }

def demoBlob : Bytes :=
  [0x1a,0,0,0,0, 0x1a,0,0,0,5, 0x1a,0,0,0,7, 0x7a,0,0,0,2,105,100, 0x9a,0,0,0,1, 0x7a,0,0,0,2,97,98,
   0xba,0,0,0,1, 0x1a,0,0,0,4, 0x7a,0,0,0,1,99]

example : serialize demo = .blob demoBlob := by decide
example : (restore fresh demoBlob).2 = .rc 0 ∧ (restore fresh demoBlob).1.handledNr = 7 := by decide
/-- truncated by one byte, extended by one byte, a flipped tag: all refused, nothing left behind -/
example : (restore fresh demoBlob.dropLast).2 = .rc (-2) ∧
          (restore fresh (demoBlob ++ [0])).2 = .rc (-2) ∧
          (restore fresh (demoBlob.set 22 0x7a)).2 = .rc (-2) ∧
          (restore fresh (demoBlob ++ [0])).1.hasSm = false ∧
          (restore fresh (demoBlob ++ [0])).1.q.queue = [] := by decide
/-- a blob that ends exactly where the next field should start (finding D15) -/
example : (restore fresh (demoBlob.take 30)).2 = .rc (-2) := by decide

/-- the restored demo connection under the queue API: the oldest unsent element comes back with its
    exact text, and the history invariant carries on -/
example : (step (Lemmas.SmBlob.restoredHist (restore fresh demoBlob).1).st (.drop .oldest)).2
    = .dropped (some (cs ['a','b'])) := by decide
example : (Lemmas.SmBlob.restoredHist (restore fresh demoBlob).1).ghost = [(0, cs ['a','b'])] := by decide

end Strophe.C16
