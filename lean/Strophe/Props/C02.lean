/-
C02 — Credentials obey the TLS and mechanism policy the user configured.   Property theorems only.

`Conn.exec (fresh jid pass cert flags) ops` is the connection machine (Model/Conn.lean, tied to
conn.c/auth.c/handler.c/event.c by engine `conn`) after an arbitrary history `ops`: any server
behaviour (arbitrary parser events with arbitrary stanza trees in `Op.run`), any TCP/TLS results,
any write back-pressure, clock advances, user calls and reconnect cycles.  `tx` lists every element
that reached the wire with the TLS state at that moment (`sec`), the user's flags at that moment
(`mandatoryW`, `tlsDisabledW`, `legacyW`) and the configuration / offers when it was first queued (`snap`).  `userOps` says the application submits only user stanzas through the API.
-/
import Strophe.Model.ConnOps
import Strophe.Lemmas.ConnC02

namespace Strophe.C02
open Strophe Strophe.Conn Strophe.Lemmas.ConnC02

/-- pinning: the flag bits and mechanism masks the statements below are about -/
theorem pin_flags : Gen.flagDisableTls = 1 ∧ Gen.flagMandatoryTls = 2 ∧ Gen.flagLegacySsl = 4 ∧
    Gen.flagTrustTls = 8 ∧ Gen.flagLegacyAuth = 16 ∧ Gen.flagDisableSm = 32 ∧
    Gen.flagEnableCompression = 64 ∧ Gen.flagCompressionDontReset = 128 := by decide

/-- with mandatory TLS no authentication data (SASL initial response, challenge response, legacy
    password) leaves the client outside an established TLS session — whatever the server does -/
theorem mandatory_tls_gate (jid pass : Option Bytes) (cert : Bool) (flags : Nat) (ops : List Op)
    (hu : userOps ops) :
    ∀ r ∈ (exec (fresh jid pass cert flags) ops).tx,
      r.mandatoryW = true → r.item.authBearing = true → r.sec = true :=
  Lemmas.ConnC02.mandatory_tls_gate jid pass cert flags ops hu

/-- the same for the flag as it was when the element was queued (a retransmission keeps the snapshot of
    its first transmission) -/
theorem mandatory_tls_gate_snap (jid pass : Option Bytes) (cert : Bool) (flags : Nat) (ops : List Op)
    (hu : userOps ops) :
    ∀ r ∈ (exec (fresh jid pass cert flags) ops).tx,
      r.snap.mandatory = true → r.item.authBearing = true → r.sec = true :=
  Lemmas.ConnC02.mandatory_tls_gate_snap jid pass cert flags ops hu

/-- with TLS disabled the client never requests it -/
theorem never_starttls_when_disabled (jid pass : Option Bytes) (cert : Bool) (flags : Nat)
    (ops : List Op) (hu : userOps ops) :
    ∀ r ∈ (exec (fresh jid pass cert flags) ops).tx,
      r.item = .starttls → r.snap.tlsDisabled = false ∧ r.tlsDisabledW = false :=
  Lemmas.ConnC02.never_starttls_when_disabled jid pass cert flags ops hu

/-- SASL PLAIN is chosen only when, on that connection, the server offered no SCRAM-*, no
    DIGEST-MD5 and (with a client certificate) no EXTERNAL -/
theorem plain_only_if_nothing_stronger (jid pass : Option Bytes) (cert : Bool) (flags : Nat)
    (ops : List Op) (hu : userOps ops) :
    ∀ r ∈ (exec (fresh jid pass cert flags) ops).tx, ∀ t, r.item = .auth (b "PLAIN") t →
      r.snap.g.offeredMechs &&& strongerMask = 0 ∧
      (r.snap.cert = true → r.snap.g.offeredMechs &&& Gen.saslMaskExternal = 0) :=
  Lemmas.ConnC02.plain_only_if_nothing_stronger jid pass cert flags ops hu

/-- legacy jabber:iq:auth only for client connections with the legacy flag -/
theorem legacy_only_if_enabled (jid pass : Option Bytes) (cert : Bool) (flags : Nat)
    (ops : List Op) (hu : userOps ops) :
    ∀ r ∈ (exec (fresh jid pass cert flags) ops).tx, ∀ u res p, r.item = .legacy u res p →
      r.snap.authLegacy = true ∧ r.snap.isClient = true ∧ r.legacyW = true :=
  Lemmas.ConnC02.legacy_only_if_enabled jid pass cert flags ops hu

/-- all 256 flag words: accepted iff disconnected and not conflicting; accepted flags read back;
    a refusal changes nothing -/
theorem set_flags_table (c : Conn) (f : Nat) (hf : f < 256) :
    ((setFlags c f).2 = 0 ↔ (c.state = .disconnected ∧ conflict f = false)) ∧
    ((setFlags c f).2 = 0 → getFlags (setFlags c f).1 = f) ∧
    ((setFlags c f).2 ≠ 0 → (setFlags c f).1 = c) :=
  Lemmas.ConnC02.set_flags_table c f hf

theorem secured_def (c : Conn) : isSecured c = (c.secured && !c.tlsFailed && c.hasTls) := rfl

theorem tls_failed_never_secured (c : Conn) (h : c.tlsFailed = true) : isSecured c = false :=
  Lemmas.ConnC02.tls_failed_never_secured c h

/-! ### non-vacuity: a history in which authentication data IS sent, after TLS, under MANDATORY_TLS -/

def featuresTlsPlain : XTree :=
  .tag (b "features") (some Gen.nsStreams) []
    [.tag (b "starttls") (some Gen.nsTls) [] [],
     .tag (b "mechanisms") (some Gen.nsSasl) []
       [.tag (b "mechanism") (some Gen.nsSasl) [] [.text (b "PLAIN")]]]

def demo : List Op :=
  [.connect .client, .run .none, .run .none,
   .run (.data [.open_ (b "stream") (some (b "s1")), .stanza featuresTlsPlain]),
   .run (.data [.stanza (.tag (b "proceed") (some Gen.nsTls) [] [])]),
   .run (.data [.open_ (b "stream") (some (b "s2")), .stanza featuresTlsPlain]),
   .run .none]

example : ((exec (fresh (some (b "user@example.org")) (some (b "secret")) false 2) demo).tx.map
    fun r => (r.item, r.sec)) =
    [(.hdr (b "example.org") none false, false), (.starttls, false),
     (.hdr (b "example.org") (some (b "user@example.org")) false, true),
     (.auth (b "PLAIN") true, true)] := by
  decide +kernel

/-- in the same history STARTTLS was requested (TLS not disabled) and PLAIN was chosen with nothing stronger on
    offer, under MANDATORY_TLS, inside TLS -/
example : ((exec (fresh (some (b "user@example.org")) (some (b "secret")) false 2) demo).tx.any fun r =>
    r.item = .starttls && !r.snap.tlsDisabled && !r.tlsDisabledW) = true := by decide +kernel

example : ((exec (fresh (some (b "user@example.org")) (some (b "secret")) false 2) demo).tx.any fun r =>
    r.item = .auth (b "PLAIN") true && r.mandatoryW && r.snap.mandatory && r.sec &&
      r.snap.g.offeredMechs &&& strongerMask == 0) = true := by decide +kernel

/-- legacy authentication is used when the flag is set and the server offers no SASL mechanism -/
def demoLegacy : List Op :=
  [.connect .client, .run .none,
   .run (.data [.open_ (b "stream") (some (b "s1")), .stanza (.tag (b "features") (some Gen.nsStreams) [] [])]),
   .run .none]

example : ((exec (fresh (some (b "user@example.org/res")) (some (b "secret")) false 16) demoLegacy).tx.any fun r =>
    r.item = .legacy (b "user") (b "res") true && r.snap.authLegacy && r.snap.isClient && r.legacyW) = true := by
  decide +kernel

end Strophe.C02
