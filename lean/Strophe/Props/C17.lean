/-
C17 — the bundled SHA-1, SHA-256, SHA-512 and MD5 (and the public xmpp_sha1_* API and HMAC
built on them) produce the standard digest for every message length, and feeding a message in
any sequence of update calls gives the same result as hashing it at once.

Property theorems only (helper lemmas live in Strophe/Lemmas/Hash*.lean).  Models:
Strophe/Model/Hash/*.lean (mirroring src/sha1.c, sha256.c, sha512.c, md5.c, scram.c
crypto_HMAC, crypto.c digest_to_string); specification: Strophe/Spec/Hash.lean (FIPS 180-4,
RFC 1321, RFC 2104).
-/
import Strophe.Lemmas.HashApi

namespace Strophe.C17
open Strophe Strophe.Hash

/-! ### pinning lemmas: the literals of the standards, as extracted from the C sources -/

/-- FIPS 180-4 §5.3.1 (SHA-1 H⁽⁰⁾) and §4.2.1 (K_t for the four round groups; R0 and R1 share K) -/
theorem pin_sha1 : Gen.sha1Init = [0x67452301, 0xefcdab89, 0x98badcfe, 0x10325476, 0xc3d2e1f0] ∧
    Gen.sha1MacroK = [0x5a827999, 0x5a827999, 0x6ed9eba1, 0x8f1bbcdc, 0xca62c1d6] ∧
    Gen.sha1RoundMacro = List.replicate 16 0 ++ List.replicate 4 1 ++ List.replicate 20 2 ++
      List.replicate 20 3 ++ List.replicate 20 4 := by decide
/-- FIPS 180-4 §5.3.3, §4.1.2 (rotation amounts), §4.2.2 (64 constants; first and last pinned) -/
theorem pin_sha256 : Gen.sha256Init = [0x6a09e667, 0xbb67ae85, 0x3c6ef372, 0xa54ff53a,
      0x510e527f, 0x9b05688c, 0x1f83d9ab, 0x5be0cd19] ∧
    Gen.sha256K.length = 64 ∧ Gen.sha256K.head? = some 0x428a2f98 ∧
    Gen.sha256K.getLast? = some 0xc67178f2 ∧
    Gen.sha256Sigma0 = (2, 13, 22) ∧ Gen.sha256Sigma1 = (6, 11, 25) ∧
    Gen.sha256Gamma0 = (7, 18, 3) ∧ Gen.sha256Gamma1 = (17, 19, 10) := by decide
/-- FIPS 180-4 §5.3.5, §4.1.3, §4.2.3 -/
theorem pin_sha512 : Gen.sha512Init = [0x6a09e667f3bcc908, 0xbb67ae8584caa73b,
      0x3c6ef372fe94f82b, 0xa54ff53a5f1d36f1, 0x510e527fade682d1, 0x9b05688c2b3e6c1f,
      0x1f83d9abfb41bd6b, 0x5be0cd19137e2179] ∧
    Gen.sha512K.length = 80 ∧ Gen.sha512K.head? = some 0x428a2f98d728ae22 ∧
    Gen.sha512K.getLast? = some 0x6c44198c4a475817 ∧
    Gen.sha512Sigma0 = (28, 34, 39) ∧ Gen.sha512Sigma1 = (14, 18, 41) ∧
    Gen.sha512Gamma0 = (1, 8, 7) ∧ Gen.sha512Gamma1 = (19, 61, 6) := by decide
/-- RFC 1321 §3.3 (A,B,C,D), §3.4 (T[1], T[64], per-round shifts and message-word order) -/
theorem pin_md5 : Gen.md5Init = [0x67452301, 0xefcdab89, 0x98badcfe, 0x10325476] ∧
    Gen.md5StepK.length = 64 ∧ Gen.md5StepK.head? = some 0xd76aa478 ∧
    Gen.md5StepK.getLast? = some 0xeb86d391 ∧
    Gen.md5StepS = [7, 12, 17, 22, 7, 12, 17, 22, 7, 12, 17, 22, 7, 12, 17, 22,
                    5, 9, 14, 20, 5, 9, 14, 20, 5, 9, 14, 20, 5, 9, 14, 20,
                    4, 11, 16, 23, 4, 11, 16, 23, 4, 11, 16, 23, 4, 11, 16, 23,
                    6, 10, 15, 21, 6, 10, 15, 21, 6, 10, 15, 21, 6, 10, 15, 21] ∧
    Gen.md5StepIdx = (List.range 16) ++ (List.range 16).map (fun i => (1 + 5 * i) % 16) ++
      (List.range 16).map (fun i => (5 + 3 * i) % 16) ++ (List.range 16).map (fun i => (7 * i) % 16) ∧
    Gen.md5StepF = List.replicate 16 1 ++ List.replicate 16 2 ++ List.replicate 16 3 ++
      List.replicate 16 4 := by decide
/-- RFC 2104 §2 (ipad, opad) and the block size B of each hash as chosen by `crypto_HMAC` -/
theorem pin_hmac : Gen.hmacIpad = 0x36 ∧ Gen.hmacOpad = 0x5C ∧
    hmacBlockSize algSha1 = 64 ∧ hmacBlockSize algSha256 = 64 ∧ hmacBlockSize algSha512 = 128 ∧
    algSha1.digestSize = 20 ∧ algSha256.digestSize = 32 ∧ algSha512.digestSize = 64 := by decide

/-- the two-word bit counters of `MD5Update` / `crypto_SHA1_Update` as the models `Md5.update` /
    `Sha1.update` have them (`<<< 3`, `>>> 29`): the high word moves only after 2^29 bytes, beyond
    any differential run, so the statements are translated from the source and pinned here; the
    theorems `md5_bitcount_exact` / `sha1_bitcount_exact` below are about exactly these numbers -/
theorem pin_len_shifts : Gen.md5LenShifts = (3, 29) ∧ Gen.sha1LenShifts = (3, 29) := by decide

/-! ### the specification's padding is FIPS 180-4 §5.1 / RFC 1321 §3.1–3.2 -/

/-- the number of zero bytes is the smallest `z` with `n + 1 + z + lenBytes ≡ 0 (mod bs)`,
    i.e. `8n + 1 + k ≡ 448 (mod 512)` resp. `896 (mod 1024)` for `k = 8z + 7` zero bits -/
theorem padZeros_spec (n : Nat) :
    ((n + 1 + Spec.Hash.padZeros 64 8 n + 8) % 64 = 0 ∧
      ∀ z, (n + 1 + z + 8) % 64 = 0 → Spec.Hash.padZeros 64 8 n ≤ z) ∧
    ((n + 1 + Spec.Hash.padZeros 128 16 n + 16) % 128 = 0 ∧
      ∀ z, (n + 1 + z + 16) % 128 = 0 → Spec.Hash.padZeros 128 16 n ≤ z) := by
  simp only [Spec.Hash.padZeros]
  refine ⟨⟨by omega, fun z hz => by omega⟩, ⟨by omega, fun z hz => by omega⟩⟩

/-- the padded message is a whole number of blocks -/
theorem padded_length (msg : Bytes) :
    (msg ++ Spec.Hash.sha1MD.pad msg.length).length % 64 = 0 ∧
    (msg ++ Spec.Hash.sha256MD.pad msg.length).length % 64 = 0 ∧
    (msg ++ Spec.Hash.sha512MD.pad msg.length).length % 128 = 0 ∧
    (msg ++ Spec.Hash.md5MD.pad msg.length).length % 64 = 0 := by
  simp [Spec.Hash.MD.pad, Spec.Hash.sha1MD, Spec.Hash.sha256MD, Spec.Hash.sha512MD, Spec.Hash.md5MD,
    Spec.Hash.zeros, Spec.Hash.padZeros, beBytes_length, leBytes_length]
  omega

/-! ### streaming = one-shot = standard, for every message and every partition -/

/-- SHA-1: any sequence of `crypto_SHA1_Update` calls (empty chunks included) followed by
    `crypto_SHA1_Final` yields the FIPS 180-4 digest of the concatenation.  No size bound is
    needed: for messages of 2^64 bits or more (outside FIPS 180-4) both sides use the bit
    length mod 2^64. -/
theorem sha1_stream_eq_oneshot (chunks : List Bytes) :
    Sha1.final (chunks.foldl Sha1.update Sha1.init) = Spec.Hash.sha1 chunks.flatten :=
  sha1_stream chunks

/-- SHA-256: domain of the C code = domain of FIPS 180-4: fewer than 2^64 bits in total -/
theorem sha256_stream_eq_oneshot (chunks : List Bytes) (h : 8 * chunks.flatten.length < 2 ^ 64) :
    Sha256.done (chunks.foldl Sha256.process Sha256.init) = some (Spec.Hash.sha256 chunks.flatten) :=
  sha256_stream chunks h

/-- SHA-512: the C code keeps a 64-bit bit count (the upper half of the 128-bit length field
    is always zero), so its domain is fewer than 2^61 bytes -/
theorem sha512_stream_eq_oneshot (chunks : List Bytes) (h : chunks.flatten.length < 2 ^ 61) :
    Sha512.done (chunks.foldl Sha512.process Sha512.init) = some (Spec.Hash.sha512 chunks.flatten) :=
  sha512_stream chunks (by omega)

/-- MD5: `MD5Update` takes a `uint32_t` length; RFC 1321 itself defines the length field
    mod 2^64, so there is no bound on the total -/
theorem md5_stream_eq_oneshot (chunks : List Bytes) (hc : ∀ c ∈ chunks, c.length < 2 ^ 32) :
    Md5.final (chunks.foldl Md5.update Md5.init) = Spec.Hash.md5 chunks.flatten :=
  md5_stream chunks hc

/-- the one-shot entry points (`crypto_SHA1`, `sha256_hash`, `sha512_hash`) are the
    special case of a single chunk -/
theorem oneshot_eq_spec (msg : Bytes) :
    Sha1.hash msg = Spec.Hash.sha1 msg ∧
    (8 * msg.length < 2 ^ 64 → Sha256.hash msg = some (Spec.Hash.sha256 msg)) ∧
    (msg.length < 2 ^ 61 → Sha512.hash msg = some (Spec.Hash.sha512 msg)) ∧
    (msg.length < 2 ^ 32 → Md5.hash msg = Spec.Hash.md5 msg) := by
  refine ⟨?_, fun h => ?_, fun h => ?_, fun h => ?_⟩
  · simpa [Sha1.hash] using sha1_stream [msg]
  · simpa [Sha256.hash] using sha256_stream [msg] (by simpa using h)
  · simpa [Sha512.hash] using sha512_stream [msg] (by simp; omega)
  · simpa [Md5.hash] using md5_stream [msg] (by simpa using h)

/-- partition independence inside the implementation: feeding the chunks one by one gives
    what hashing the concatenation at once gives -/
theorem stream_eq_hash_flatten (chunks : List Bytes) :
    Sha1.final (chunks.foldl Sha1.update Sha1.init) = Sha1.hash chunks.flatten ∧
    (8 * chunks.flatten.length < 2 ^ 64 →
      Sha256.done (chunks.foldl Sha256.process Sha256.init) = Sha256.hash chunks.flatten) ∧
    (chunks.flatten.length < 2 ^ 61 →
      Sha512.done (chunks.foldl Sha512.process Sha512.init) = Sha512.hash chunks.flatten) ∧
    (chunks.flatten.length < 2 ^ 32 →
      Md5.final (chunks.foldl Md5.update Md5.init) = Md5.hash chunks.flatten) := by
  have one := oneshot_eq_spec chunks.flatten
  refine ⟨?_, fun h => ?_, fun h => ?_, fun h => ?_⟩
  · rw [one.1]; exact sha1_stream chunks
  · rw [one.2.1 h]; exact sha256_stream chunks h
  · rw [one.2.2.1 h]; exact sha512_stream chunks (by omega)
  · rw [one.2.2.2 h]
    apply md5_stream chunks
    intro c hc
    have := length_le_flatten hc
    omega

/-- the digests have the standard sizes -/
theorem digest_sizes (msg : Bytes) :
    (Spec.Hash.sha1 msg).length = 20 ∧ (Spec.Hash.sha256 msg).length = 32 ∧
    (Spec.Hash.sha512 msg).length = 64 ∧ (Spec.Hash.md5 msg).length = 16 :=
  ⟨sha1_length msg, sha256_length msg, sha512_length msg, md5_length msg⟩

/-! ### the bit counters are exact -/

/-- SHA-1: after any updates, `count[1]:count[0]` is `8·len mod 2^64` — including the carry
    from `count[0]` into `count[1]` when 2^32 bits are crossed and the `len >> 29` part of a
    single huge update — and `(count[0] >> 3) & 63` is the number of buffered bytes -/
theorem sha1_bitcount_exact (chunks : List Bytes) :
    let c := chunks.foldl Sha1.update Sha1.init
    c.count1.toNat * 2 ^ 32 + c.count0.toNat = 8 * chunks.flatten.length % 2 ^ 64 ∧
    ((c.count0 >>> 3) &&& 63).toNat = chunks.flatten.length % 64 :=
  ⟨sha1_bitcount chunks, sha1_buffered chunks⟩

theorem md5_bitcount_exact (chunks : List Bytes) (hc : ∀ c ∈ chunks, c.length < 2 ^ 32) :
    let c := chunks.foldl Md5.update Md5.init
    c.bits1.toNat * 2 ^ 32 + c.bits0.toNat = 8 * chunks.flatten.length % 2 ^ 64 ∧
    ((c.bits0 >>> 3) &&& 0x3f).toNat = chunks.flatten.length % 64 :=
  ⟨md5_bitcount chunks hc, md5_buffered chunks hc⟩

/-- SHA-256: `length + 8·curlen` is the number of bits absorbed and `curlen = len mod 64`.
    (Beyond 2^64 bits `sha256_process` silently ignores the call — see the example below —
    hence the hypothesis.) -/
theorem sha256_bitcount_exact (chunks : List Bytes) (h : 8 * chunks.flatten.length < 2 ^ 64) :
    let c := chunks.foldl Sha256.process Sha256.init
    (c.length + UInt64.ofNat (8 * c.curlen)).toNat = 8 * chunks.flatten.length % 2 ^ 64 ∧
    c.curlen = chunks.flatten.length % 64 := by
  have hi := Sha256.stream_inv chunks h
  exact ⟨ltc_bitcount hi, by
    rw [hi.cur]; exact blocksFold_snd_length (bs := 64) (by decide) _ _ _⟩

theorem sha512_bitcount_exact (chunks : List Bytes) (h : chunks.flatten.length < 2 ^ 61) :
    let c := chunks.foldl Sha512.process Sha512.init
    (c.length + UInt64.ofNat (8 * c.curlen)).toNat = 8 * chunks.flatten.length % 2 ^ 64 ∧
    c.curlen = chunks.flatten.length % 128 := by
  have hi := Sha512.stream_inv chunks (by omega)
  exact ⟨ltc_bitcount hi, by
    rw [hi.cur]; exact blocksFold_snd_length (bs := 128) (by decide) _ _ _⟩

/-- the `while ((count[0] & 504) != 448)` padding loop of `crypto_SHA1_Final` always ends
    because its test fails, never because the model's fuel (64) runs out -/
theorem sha1_padloop_terminates (chunks : List Bytes) (b : Bytes) :
    ((Sha1.padLoop 64 (Sha1.update (chunks.foldl Sha1.update Sha1.init) b)).count0 &&& 504) = 448 :=
  Sha1.padLoop_exit (Sha1.update_inv (Sha1.stream_inv chunks) b)

/-! ### HMAC and the public SHA-1 API -/

/-- `crypto_HMAC` is RFC 2104 HMAC over the standard hash (key of any length: longer than a
    block is hashed first, shorter is zero-padded) -/
theorem hmac_eq_rfc2104 (key text : Bytes) :
    hmac algSha1 key text = some (Spec.Hash.hmacSha1 key text) ∧
    (key.length < 2 ^ 60 → text.length < 2 ^ 60 →
      hmac algSha256 key text = some (Spec.Hash.hmacSha256 key text)) ∧
    (key.length < 2 ^ 60 → text.length < 2 ^ 60 →
      hmac algSha512 key text = some (Spec.Hash.hmacSha512 key text)) :=
  ⟨hmac_sha1 key text, hmac_sha256 key text, hmac_sha512 key text⟩

/-- `xmpp_sha1_new / update* / final / to_digest / to_string` and the one-shot `xmpp_sha1`,
    `xmpp_sha1_digest`: the digest is the standard SHA-1 of the concatenation and the string is
    its 40-character lower-case hexadecimal rendering -/
theorem sha1_api (chunks : List Bytes) :
    let s := Sha1.Api.final (chunks.foldl Sha1.Api.update Sha1.Api.new)
    Sha1.Api.toDigest s = Spec.Hash.sha1 chunks.flatten ∧
    Sha1.Api.toString s = Spec.Hash.hexLower (Spec.Hash.sha1 chunks.flatten) ∧
    (Sha1.Api.toString s).length = 40 ∧
    (∀ c ∈ Sha1.Api.toString s, (48 ≤ c ∧ c ≤ 57) ∨ (97 ≤ c ∧ c ≤ 102)) ∧
    Sha1.Api.sha1 chunks.flatten = Sha1.Api.toString s ∧
    Sha1.Api.sha1Digest chunks.flatten = Sha1.Api.toDigest s := by
  have hd : Sha1.Api.toDigest (Sha1.Api.final (chunks.foldl Sha1.Api.update Sha1.Api.new))
      = Spec.Hash.sha1 chunks.flatten := by
    simp only [Sha1.Api.toDigest, Sha1.Api.final, api_ctx]
    exact sha1_stream chunks
  have hs : Sha1.Api.toString (Sha1.Api.final (chunks.foldl Sha1.Api.update Sha1.Api.new))
      = Spec.Hash.hexLower (Spec.Hash.sha1 chunks.flatten) := by
    rw [← hd]; exact digestToString_eq _
  have h1 := (oneshot_eq_spec chunks.flatten).1
  refine ⟨hd, hs, ?_, ?_, ?_, ?_⟩
  · rw [hs, hexLower_length, sha1_length]
  · rw [hs]; exact hexLower_chars _
  · rw [hs]; simp only [Sha1.Api.sha1, h1]; exact digestToString_eq _
  · rw [hd]; exact h1

/-! ### test vectors (FIPS 180-2 appendix / RFC 1321 A.5 / RFC 2202), evaluated by the kernel -/

private def hx (s : String) : Bytes := (Hex.toBytes s).getD []
private def str (s : String) : Bytes := cs s.toList

example : Sha1.hash [] = hx "da39a3ee5e6b4b0d3255bfef95601890afd80709" := by decide +kernel
example : Sha1.hash (str "abc") = hx "a9993e364706816aba3e25717850c26c9cd0d89d" := by decide +kernel
example : Sha1.hash (str "abcdbcdecdefdefgefghfghighijhijkijkljklmklmnlmnomnopnopq")
    = hx "84983e441c3bd26ebaae4aa1f95129e5e54670f1" := by decide +kernel
example : Sha256.hash [] = some (hx "e3b0c44298fc1c149afbf4c8996fb92427ae41e4649b934ca495991b7852b855") := by
  decide +kernel
example : Sha256.hash (str "abc")
    = some (hx "ba7816bf8f01cfea414140de5dae2223b00361a396177a9cb410ff61f20015ad") := by decide +kernel
example : Sha256.hash (str "abcdbcdecdefdefgefghfghighijhijkijkljklmklmnlmnomnopnopq")
    = some (hx "248d6a61d20638b8e5c026930c3e6039a33ce45964ff2167f6ecedd419db06c1") := by decide +kernel
example : Sha512.hash [] = some (hx ("cf83e1357eefb8bdf1542850d66d8007d620e4050b5715dc83f4a921d36ce9ce" ++
    "47d0d13c5d85f2b0ff8318d2877eec2f63b931bd47417a81a538327af927da3e")) := by decide +kernel
example : Sha512.hash (str "abc") = some (hx ("ddaf35a193617abacc417349ae20413112e6fa4e89a97ea20a9eeee64b55d39a" ++
    "2192992a274fc1a836ba3c23a3feebbd454d4423643ce80e2a9ac94fa54ca49f")) := by decide +kernel
example : Md5.hash [] = hx "d41d8cd98f00b204e9800998ecf8427e" := by decide +kernel
example : Md5.hash (str "abc") = hx "900150983cd24fb0d6963f7d28e17f72" := by decide +kernel
example : Md5.hash (str "12345678901234567890123456789012345678901234567890123456789012345678901234567890")
    = hx "57edf4a22be3c955ac49da2e2107b67a" := by decide +kernel
/-- the specification evaluates to the same vectors -/
example : Spec.Hash.sha1 (str "abc") = hx "a9993e364706816aba3e25717850c26c9cd0d89d" := by decide +kernel
example : Spec.Hash.md5 (str "abc") = hx "900150983cd24fb0d6963f7d28e17f72" := by decide +kernel
/-- RFC 2202 test case 2 (HMAC-SHA-1); HMAC-SHA-256/512 vectors are run-time tests (three-way
    comparison against Python's hmac) to keep this file's check time down -/
example : hmac algSha1 (str "Jefe") (str "what do ya want for nothing?")
    = some (hx "effcdf6ae5eb2fa2d27416d5f184df9c259a7c79") := by decide +kernel
/-- `xmpp_sha1("abc")` -/
example : Sha1.Api.sha1 (str "abc") = str "a9993e364706816aba3e25717850c26c9cd0d89d" := by decide +kernel

/-! ### non-vacuity: the quantified statements have the expected concrete instances -/

/-- a partition with empty chunks, through the streaming interface -/
example : Sha1.final ([[], str "a", [], str "bc", []].foldl Sha1.update Sha1.init)
    = hx "a9993e364706816aba3e25717850c26c9cd0d89d" := by decide +kernel
example : Sha512.done ([str "ab", [], str "c"].foldl Sha512.process Sha512.init)
    = Sha512.hash (str "abc") := by decide +kernel
/-- a message that straddles a block boundary, split exactly at it and one byte off -/
example : Md5.final ([List.replicate 64 0x61, List.replicate 1 0x61].foldl Md5.update Md5.init)
    = Md5.final ([List.replicate 63 0x61, List.replicate 2 0x61].foldl Md5.update Md5.init) := by
  decide +kernel
/-- crossing 2^32 bits: the carry from `count[0]` into `count[1]` (SHA-1) / `bits[1]` (MD5) -/
example : let c := Sha1.update { Sha1.init with count0 := 0xfffffff8 } [0x61]
    (c.count0, c.count1) = (0, 1) := by decide +kernel
example : let c := Md5.update { Md5.init with bits0 := 0xfffffe00 } (List.replicate 64 0x61)
    (c.bits0, c.bits1) = (0, 1) := by decide +kernel
/-- why the SHA-2 statements carry the 2^64-bit bound: beyond it `sha256_process` returns
    without absorbing anything (its `length + inlen < length` guard) -/
example : Sha256.process { Sha256.init with length := 0xfffffffffffffe00 } (List.replicate 512 0)
    = { Sha256.init with length := 0xfffffffffffffe00 } := by decide +kernel
/-- the hypotheses of the MD5 statement are satisfiable by multi-chunk inputs -/
example : ∀ c ∈ [str "a", [], str "bc"], c.length < 2 ^ 32 := by decide

end Strophe.C17
