/-
C01 — No peer input can crash, corrupt or wedge the client.   Property theorems only.   PARTIAL.

What is proved (for every history `ops`: any parser events with any stanza trees, any chunking —
the events of one read are one `Op.run (.data evs)` —, any transport/TLS/TCP behaviour, any clock):
the model reaches no crash site, every function of the machine is total (Lean's termination check:
one event-loop iteration always returns; the dispatch loops are folds over the handlers present at
the start, the write loop is a recursion over the queue), an attempt ends with exactly one
disconnect notification (C13 theorems, restated here), and a disconnected object can be connected
again or released.  What is NOT proved: memory safety of the C code outside the modelled pure
functions (C07, C09, C10, C15, C16, C18 prove theirs) — exercised under ASan/UBSan by the
correspondence runs of engine `conn` and the raw-byte exploration, which is testing.
-/
import Strophe.Model.ConnOps
import Strophe.Lemmas.ConnC13

namespace Strophe.C01
open Strophe Strophe.Conn Strophe.Lemmas.ConnC13

/-- no crash site of the model is reachable (after the repairs recorded in known_findings.json the
    model has none left; this theorem keeps it that way) -/
theorem no_crash (jid pass : Option Bytes) (cert : Bool) (flags : Nat) (ops : List Op) :
    (exec (fresh jid pass cert flags) ops).crash = none :=
  Lemmas.ConnC13.no_crash jid pass cert flags ops

/-- the fuel of `_auth`'s self-recursion (one retry when TLS cannot be initialised) suffices -/
theorem auth_fuel_enough (c : Conn) (n : Nat) : auth c (n + 3) = auth c 3 :=
  Lemmas.ConnC13.auth_fuel_enough c n

/-- a disconnected connection object can be connected again: the call is accepted whenever the
    API's own preconditions hold — a JID is set, and its domain part is not empty and does not
    start with a dot (a JID without a usable domain is refused by `xmpp_connect_client` since
    c81bf46) -/
theorem reconnectable (jid pass : Option Bytes) (cert : Bool) (flags : Nat) (ops : List Op) :
    let c := exec (fresh jid pass cert flags) ops
    c.state = .disconnected → c.jid.isSome → c.tcpFail = false →
    (∀ j, c.jid = some j → (Jid.domain j).head? ≠ none ∧ (Jid.domain j).head? ≠ some 46) →
      (connectClient c).2 = 0 ∧ (connectClient c).1.state = .connecting ∧
      (connectClient c).1.queue = [] :=
  Lemmas.ConnC13.reconnectable jid pass cert flags ops

set_option maxRecDepth 20000 in
/-- non-vacuity of `reconnectable`: after a complete attempt (connect, stream end) with the normal
    JID user@example.org the hypotheses hold and the object is connected again -/
example :
    let c := exec (fresh (some (b "user@example.org")) (some (b "secret")) false 0)
      [.connect .client, .run .none, .run (.data [.open_ (b "stream") (some (b "s1")), .end_]), .run .none]
    c.state = .disconnected ∧ c.jid.isSome = true ∧ c.tcpFail = false ∧
    (c.jid.map fun j => (Jid.domain j).head?) = some (some 101) ∧
    (connectClient c).2 = 0 ∧ (connectClient c).1.state = .connecting := by decide

/-- counterexample to the statement without the domain precondition (a JID without a usable domain
    is refused by xmpp_connect_client since c81bf46): JID "" -/
example :
    let c := exec (fresh (some []) none false 0) []
    c.state = .disconnected ∧ c.jid.isSome = true ∧ c.tcpFail = false ∧ (connectClient c).2 = xmppEInvOp := by
  decide

/-- releasing ends a running attempt with its (single) disconnect notification -/
theorem release_disconnects (c : Conn) : (release c).state = .disconnected :=
  Lemmas.ConnC13.release_disconnects c

/-- exactly one disconnect notification per attempt (C13.one_disconnect_per_attempt) -/
theorem one_outcome (jid pass : Option Bytes) (cert : Bool) (flags : Nat) (ops : List Op) (a : Nat) :
    (((exec (fresh jid pass cert flags) ops).evs.filter
        fun p => p.1.attempt = a && isDisconnectEv p.2).length) ≤ 1 :=
  Lemmas.ConnC13.one_disconnect_per_attempt jid pass cert flags ops a

/-! ### non-vacuity: inputs that used to crash the real code (findings D1, D39, D42) are handled -/

set_option maxRecDepth 20000 in
/-- `<stream:error/>` without children: reported as undefined-condition -/
example : (handleError {} (.tag (b "error") (some Gen.nsStreams) [] [])).streamError = some (19, none) := by
  decide

end Strophe.C01
