/-
C13 — Connection lifecycle: one outcome per attempt, consistent state, bounded waits.
Property theorems only.  See Props/C02.lean for `exec`; `evs` lists every notification with the
ghost record of the attempt at that moment (`attempt` = number of the accepted connect call it
belongs to, `notifiedDisconnect` = disconnect notifications delivered before it on that attempt).
The TCP connect deadline (5 s per address) is C14's subject (Props/C14.lean).
-/
import Strophe.Model.ConnOps
import Strophe.Lemmas.ConnC13

namespace Strophe.C13
open Strophe Strophe.Conn Strophe.Lemmas.ConnC13

/-- pinning: the deadlines the property names -/
theorem pin_deadlines : Gen.connectTimeout = 5000 ∧ Gen.featuresTimeout = 15000 ∧
    Gen.bindTimeout = 15000 ∧ Gen.sessionTimeout = 15000 ∧ Gen.legacyTimeout = 15000 ∧
    Gen.handshakeTimeout = 15000 ∧ Gen.disconnectTimeout = 2000 := by decide

/-- the three public predicates -/
def isConnecting (c : Conn) : Bool := c.state = .connecting || (c.state = .connected && !c.negotiated)
def isConnected (c : Conn) : Bool := c.state = .connected && c.negotiated
def isDisconnected (c : Conn) : Bool := c.state = .disconnected

theorem one_disconnect_per_attempt (jid pass : Option Bytes) (cert : Bool) (flags : Nat)
    (ops : List Op) (a : Nat) :
    (((exec (fresh jid pass cert flags) ops).evs.filter
        fun p => p.1.attempt = a && isDisconnectEv p.2).length) ≤ 1 :=
  Lemmas.ConnC13.one_disconnect_per_attempt jid pass cert flags ops a

/-- an accepted attempt that has ended produced exactly one disconnect notification, a running one
    none yet; before the first accepted connect there is nothing to report -/
theorem ended_iff_notified (jid pass : Option Bytes) (cert : Bool) (flags : Nat) (ops : List Op) :
    let c := exec (fresh jid pass cert flags) ops
    (c.g.attempt = 0 → c.state = .disconnected ∧ c.evs = []) ∧
    (0 < c.g.attempt → (c.state = .disconnected → c.g.notifiedDisconnect = 1) ∧
                        (c.state ≠ .disconnected → c.g.notifiedDisconnect = 0)) :=
  Lemmas.ConnC13.ended_iff_notified jid pass cert flags ops

/-- "connected" is never reported after the disconnect of the same attempt -/
theorem connect_before_disconnect (jid pass : Option Bytes) (cert : Bool) (flags : Nat)
    (ops : List Op) :
    ∀ p ∈ (exec (fresh jid pass cert flags) ops).evs, isConnectEv p.2 = true →
      p.1.notifiedDisconnect = 0 :=
  Lemmas.ConnC13.connect_before_disconnect jid pass cert flags ops

/-- the attempt number recorded with a notification is that of an accepted connect -/
theorem events_belong_to_attempts (jid pass : Option Bytes) (cert : Bool) (flags : Nat)
    (ops : List Op) :
    ∀ p ∈ (exec (fresh jid pass cert flags) ops).evs,
      0 < p.1.attempt ∧ p.1.attempt ≤ (exec (fresh jid pass cert flags) ops).g.attempt :=
  Lemmas.ConnC13.events_belong_to_attempts jid pass cert flags ops

theorem predicates_partition (c : Conn) :
    (isConnecting c && !isConnected c && !isDisconnected c) ||
    (!isConnecting c && isConnected c && !isDisconnected c) ||
    (!isConnecting c && !isConnected c && isDisconnected c) = true :=
  Lemmas.ConnC13.predicates_partition c

/-- the predicates agree with the notifications -/
theorem predicates_agree (jid pass : Option Bytes) (cert : Bool) (flags : Nat) (ops : List Op) :
    let c := exec (fresh jid pass cert flags) ops
    (isConnected c = true → c.g.notifiedConnect = true ∧ c.g.notifiedDisconnect = 0) ∧
    (isDisconnected c = true → c.g.attempt = 0 ∨ c.g.notifiedDisconnect = 1) :=
  Lemmas.ConnC13.predicates_agree jid pass cert flags ops

/-- a timed handler is not invoked before its period has elapsed since it was registered, re-armed
    or last fired: one pass of `handler_fire_timed` leaves it untouched -/
theorem timed_not_early (c : Conn) (t : Timed) (ht : t ∈ c.timed) (hn : (c.timed.map (·.uid)).Nodup)
    (h : c.now - t.lastStamp < t.period) :
    ∃ t' ∈ (fireTimed c).timed, t'.uid = t.uid ∧ t'.lastStamp = t.lastStamp ∧ t'.fn = t.fn :=
  Lemmas.ConnC13.timed_not_early c t ht hn h

/-- … and is invoked by the next pass once due (then it is re-stamped with the current time or,
    if it returned false, removed): in every reachable state.  (As a statement about one pass from
    an ARBITRARY connection record it is false — a handler fired earlier in the pass can register
    a timed handler that receives the same uid when the uid counter is behind; reachable states
    keep the counter ahead of every uid in use: `timed_uids_fresh`,
    `Lemmas.ConnC13.timed_fires_when_due_partial` and the counterexample next to it.) -/
theorem timed_fires_when_due (jid pass : Option Bytes) (cert : Bool) (flags : Nat) (ops : List Op)
    (t : Timed) :
    let c := exec (fresh jid pass cert flags) ops
    t ∈ c.timed → c.state = .connected → t.user = false → c.now - t.lastStamp ≥ t.period →
      ∀ t' ∈ (fireTimed c).timed, t'.uid = t.uid → t'.lastStamp = c.now :=
  Lemmas.ConnC13.timed_fires_when_due jid pass cert flags ops t

set_option maxRecDepth 20000 in
/-- non-vacuity of `timed_fires_when_due`: 15000 ms after the stream was opened the features timer of
    a reachable, connected state is registered, not a user handler, and due -/
example :
    let c := exec (fresh (some (b "user@example.org")) (some (b "secret")) false 0)
      [.connect .client, .run .none, .run (.data [.open_ (b "stream") (some (b "s1"))]), .tick 15000]
    c.state = .connected ∧
    (c.timed.map fun t => (t.fn, t.user, decide (c.now - t.lastStamp ≥ t.period))) =
      [(.missingFeatures, false, true)] := by decide

/-- every uid in use is below the uid counter, in every reachable state -/
theorem timed_uids_fresh (jid pass : Option Bytes) (cert : Bool) (flags : Nat) (ops : List Op) :
    ∀ x ∈ (exec (fresh jid pass cert flags) ops).timed, x.uid < (exec (fresh jid pass cert flags) ops).nextUid :=
  Lemmas.ConnC13.timed_uids_fresh jid pass cert flags ops

/-- timed handlers of a connection only run while it is connected -/
theorem timed_only_connected (c : Conn) (h : c.state ≠ .connected) : fireTimed c = c :=
  Lemmas.ConnC13.timed_only_connected c h

/-- uids of timed handlers are pairwise distinct in every reachable state -/
theorem timed_uids_nodup (jid pass : Option Bytes) (cert : Bool) (flags : Nat) (ops : List Op) :
    ((exec (fresh jid pass cert flags) ops).timed.map (·.uid)).Nodup :=
  Lemmas.ConnC13.timed_uids_nodup jid pass cert flags ops

/-- settings that only make sense offline are refused unless disconnected -/
theorem flags_offline_only (c : Conn) (f : Nat) (h : c.state ≠ .disconnected) :
    setFlags c f = (c, xmppEInvOp) :=
  Lemmas.ConnC13.flags_offline_only c f h

/-- a second connect on a connection that is not disconnected is refused and changes nothing -/
theorem connect_refused_unless_disconnected (c : Conn) (d : Bytes) (t : CType)
    (h : c.state ≠ .disconnected) : connConnect c d t = (c, xmppEInvOp) :=
  Lemmas.ConnC13.connect_refused_unless_disconnected c d t h

/-- a stream error sent by the server is reported with its condition and text in the disconnect
    notification: `_handle_error` stores (condition, text) … -/
theorem stream_error_stored (c : Conn) (cond : Bytes) (i : Nat) (txt : Bytes)
    (hc : Gen.streamErrorNames.find? (fun p => p.2 = cond) = some (i, cond)) (hne : cond ≠ b "text")
    (htxt : txt ≠ []) :
    (handleError c (.tag (b "error") (some Gen.nsStreams) []
        [.tag cond (some Gen.nsStreamsIetf) [] [],
         .tag (b "text") (some Gen.nsStreamsIetf) [] [.text txt]])).streamError = some (i, some txt) :=
  Lemmas.ConnC13.stream_error_stored c cond i txt hc hne htxt

/-- … and the disconnect notification carries what is stored -/
theorem disconnect_reports_stream_error (c : Conn) (h : c.state ≠ .disconnected) :
    (connDisconnect c).evs =
      c.evs ++ [(c.g, .disconnect c.error (c.streamError.map (·.1)) (c.streamError.bind (·.2)))] :=
  Lemmas.ConnC13.disconnect_reports_stream_error c h

/-! ### non-vacuity -/

/-- a server that opens its stream and then stays silent: the features wait is abandoned at the
    first iteration at which 15000 ms have passed since the stream was opened, not at 14999 -/
def silent (ms : Nat) : List Op :=
  [.connect .client, .run .none, .run (.data [.open_ (b "stream") (some (b "s1"))]), .tick ms, .run .none,
   .run .none]

set_option maxRecDepth 20000 in
example : ((exec (fresh (some (b "user@example.org")) (some (b "secret")) false 0) (silent 14999)).tx.map (·.item))
    = [.hdr (b "example.org") none false] := by decide
set_option maxRecDepth 20000 in
example : ((exec (fresh (some (b "user@example.org")) (some (b "secret")) false 0) (silent 15000)).tx.map (·.item))
    = [.hdr (b "example.org") none false, .close] := by decide
set_option maxRecDepth 20000 in
/-- graceful close: 2 s after `xmpp_disconnect` the connection is torn down, exactly one DISCONNECT -/
example : ((exec (fresh (some (b "user@example.org")) (some (b "secret")) false 0)
    [.connect .client, .run .none, .run .none, .udisc, .run .none, .tick 1999, .run .none, .tick 1, .run .none,
     .run .none]).evs.map (·.2)) = [.disconnect 0 none none] := by decide

end Strophe.C13
