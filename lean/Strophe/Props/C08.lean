/-
C08 — A TLS session is only trusted if the certificate verifies or the user said so.
Property theorems only.

Model: `Strophe/Model/TlsTrust.lean` = the decision logic libstrophe puts around OpenSSL
(tls_new's verification configuration, _tls_verify, tls_start, conn_tls_start,
xmpp_conn_is_secured, what conn_established / _handle_proceedtls_default / the write pass of
xmpp_run_once do after a failed start).  OpenSSL is the parameter `Engine` under the named
hypothesis H-openssl (`Spec.OpenSsl.HOpenSsl E P`, P = the peer: does it complete the handshake,
which verification events does OpenSSL report for it under a configuration, what its certificate
chain is).  The hypothesis is satisfiable (`h_openssl_satisfiable`) and is checked clause by clause
on every recorded run of the real OpenSSL by the correspondence engine `tls`.

PROVED (for every policy, every handler — any function of invocation index, depth and error code —,
every peer, any number of failing certificates, every engine satisfying H-openssl):
`secured_iff`, `secured_iff_good`, `secured_sound`, `no_callback_aborts`, `reject_one_aborts`,
`trust_flag_skips_verification`, `handler_sees_failures_in_order`, `failed_start_restores`,
`failed_handshake_marks_connection`, `never_cleartext_after_failure_*`, `data_over_tls_only_if_secured`,
`torn_down_stays_silent`, the configuration theorems `config_*`, `refused_domains`,
`flags_last_word_wins`, the tie to the
connection machine `same_transition_as_conn_machine`, and the 7 x 4 x 3 x 2 decision table.
ASSUMED: H-openssl — in particular that OpenSSL reports no failure exactly for chains that reach a
configured trust anchor, are inside their validity periods and name the pinned host; X.509 path
validation and name matching themselves are OpenSSL's.
TESTED (engine `tls`, check/props/c08.py): that the real tls_openssl.c / conn.c / auth.c / event.c
behave as the model on every generated cell, and — independently of model and OpenSSL's report —
that the property holds on the real code with certificates whose ground truth the generator knows.
-/
import Strophe.Lemmas.TlsTrust
import Strophe.Lemmas.TlsTrustConn

namespace Strophe.C08
open Strophe Strophe.Spec.OpenSsl Strophe.TlsTrust Strophe.Lemmas.TlsTrust

/-! ### pinning: what the property names, as read from the sources on this run -/

/-- tls_new: SSL_VERIFY_NONE without callback under the trust flag, SSL_VERIFY_PEER with
    `_tls_verify` otherwise -/
theorem pin_verify_modes :
    Gen.Tls.verifyModeTrustName = "SSL_VERIFY_NONE" ∧ Gen.Tls.callbackTrustName = "NULL" ∧
    Gen.Tls.verifyModeDefaultName = "SSL_VERIFY_PEER" ∧ Gen.Tls.callbackDefaultName = "_tls_verify" ∧
    Gen.Tls.sslVerifyNone = 0 ∧ Gen.Tls.sslVerifyPeer = 1 ∧
    Gen.Tls.verifyModeTrust = Gen.Tls.sslVerifyNone ∧ Gen.Tls.verifyModeDefault = Gen.Tls.sslVerifyPeer := by
  decide

/-- tls_new: the pinned host and the SNI name are `conn->domain`; the host flags are exactly
    X509_CHECK_FLAG_NO_PARTIAL_WILDCARDS (= 4) -/
theorem pin_host :
    Gen.Tls.hostExpr = "conn->domain" ∧ Gen.Tls.hostLenArg = "0" ∧ Gen.Tls.sniExpr = "conn->domain" ∧
    Gen.Tls.hostFlagNames = ["X509_CHECK_FLAG_NO_PARTIAL_WILDCARDS"] ∧
    Gen.Tls.hostFlags = Gen.Tls.noPartialWildcards ∧ Gen.Tls.noPartialWildcards = 4 ∧
    Gen.Tls.errHostnameMismatch = 62 := by
  decide

/-- _tls_verify: 1 for a certificate that passed, 0 without a handler, else the handler's answer -/
theorem pin_verify_callback :
    Gen.Tls.verifyRetPreverified = 1 ∧ Gen.Tls.verifyRetNoHandler = 0 ∧
    Gen.Tls.verifyReturnsHandlerAnswer = true ∧ Gen.Tls.tlsStartReturn = "ret <= 0 ? 0 : 1" := by
  decide

/-- conn_tls_start: return codes; `secured = 1` only in the success branch and nowhere else in conn.c;
    the failure branch sets tls_failed, restores the interface, frees the TLS object, stores the
    error; xmpp_conn_is_secured is the conjunction the model uses -/
theorem pin_conn_tls_start :
    Gen.Tls.rcDisabledName = "XMPP_EINVOP" ∧ Gen.Tls.rcNewFailName = "XMPP_EMEM" ∧
    Gen.Tls.rcStartFailName = "XMPP_EINT" ∧ Gen.Tls.rcDisabled = -2 ∧ Gen.Tls.rcNewFail = -1 ∧
    Gen.Tls.rcStartFail = -3 ∧
    Gen.Tls.okBranchSetsSecured = true ∧ Gen.Tls.securedSetElsewhere = 0 ∧
    Gen.Tls.failSetsTlsFailed = true ∧ Gen.Tls.failRestoresInterface = true ∧
    Gen.Tls.failFreesTls = true ∧ Gen.Tls.failSetsError = true ∧
    Gen.Tls.isSecuredExpr = "conn->secured && !conn->tls_failed && conn->tls != NULL" := by
  decide

/-- the callers: legacy SSL closes at once, STARTTLS ends the stream; the write pass tears a
    connection with a pending error down with ECONNABORTED -/
theorem pin_callers :
    Gen.Tls.legacyOnFail = "conn_disconnect" ∧ Gen.Tls.starttlsOnFail = "xmpp_disconnect" ∧
    Gen.Tls.teardownErrorName = "ECONNABORTED" ∧ Gen.Tls.teardownError = 103 := by
  decide

/-- xmpp_connect_client refuses a JID whose domain is empty or starts with a dot (XMPP_EINVOP) -/
theorem pin_domain_check :
    Gen.Tls.connectRefusesEmptyDomain = true ∧ Gen.Tls.connectRefusesDotDomain = true ∧
    Gen.Tls.connectDomainRc = -2 := by
  decide

/-! ### the verification configuration the property demands -/

/-- peer verification with libstrophe's callback is on unless the user set the trust flag -/
theorem config_verifies_peer_unless_trusted (p : Policy) :
    (p.trust = false → (sslCfg p).verifyMode = Gen.Tls.sslVerifyPeer ∧ (sslCfg p).hasCallback = true) ∧
    (p.trust = true → (sslCfg p).verifyMode = Gen.Tls.sslVerifyNone ∧ (sslCfg p).hasCallback = false) :=
  ⟨fun h => by simpa [pin_verify_modes.2.2.2.2.2.1] using cfg_notrust p h,
   fun h => by simpa [pin_verify_modes.2.2.2.2.1] using cfg_trust p h⟩

/-- partial wildcards are refused, whatever the policy -/
theorem config_no_partial_wildcards (p : Policy) :
    (sslCfg p).hostFlags = Gen.Tls.noPartialWildcards ∧ (sslCfg p).hostFlags = 4 := by
  simp [sslCfg, pin_host.2.2.2.2.1, pin_host.2.2.2.2.2.1]

/-- a connection that xmpp_connect_client lets through has exactly one expected host, the domain of
    the JID, and the same name as SNI -/
theorem config_pins_host (p : Policy) (h : connectRefused p.domain = false) :
    (sslCfg p).hosts = [p.domain] ∧ (sslCfg p).sni = some p.domain := by
  have hne : p.domain.isEmpty = false := by
    cases hd : p.domain with
    | nil => simp [connectRefused, hd, pin_domain_check.1] at h
    | cons a as => rfl
  simp [sslCfg, set1Host, sniOf, hne]

/-- an empty domain or one that starts with a dot never gets as far as a handshake (an empty name
    would clear OpenSSL's list of expected hosts, a leading dot would match every sub-domain) -/
theorem refused_domains :
    connectRefused [] = true ∧ ∀ d : Bytes, connectRefused (46 :: d) = true := by
  constructor
  · simp [connectRefused, pin_domain_check.1]
  · intro d; simp [connectRefused, pin_domain_check.2.1]

/-- the trust flag is what the user said LAST: an accepted xmpp_conn_set_flags word replaces the
    trust and disable bits whatever they were, a refused word (DISABLE_TLS together with
    TRUST_TLS / LEGACY_SSL / MANDATORY_TLS) changes nothing -/
theorem flags_last_word_wins (p : Policy) (w : Nat) :
    ((setFlags p w).2 = true → (setFlags p w).1.trust = (w / 8 % 2 == 1) ∧
      (setFlags p w).1.disabled = (w % 2 == 1) ∧ (setFlags p w).1.domain = p.domain) ∧
    ((setFlags p w).2 = false → (setFlags p w).1.trust = p.trust ∧ (setFlags p w).1.disabled = p.disabled) ∧
    ((setFlags p w).2 = false ↔ flagConflict w = true) := by
  unfold setFlags
  cases h : flagConflict w <;> simp

/-- clearing the flag clears it: TRUST_TLS then 0 leaves no trust -/
example : (setFlags (setFlags { domain := [] } 8).1 0).1.trust = false ∧
    (setFlags { domain := [] } 8).1.trust = true ∧ (setFlags { domain := [], trust := true } 9).2 = false := by
  decide

/-! ### secured ⇔ handshake succeeded ∧ (no failure ∨ trust flag ∨ every failure accepted) -/

/-- `AcceptedFrom h 0 fs` spelled out: a handler is installed and its answer to the j-th failing
    certificate (its j-th invocation) is not 0, for every j -/
theorem accepted_each_spelled_out (h : Option Handler) (fs : List VCall) :
    AcceptedFrom h 0 fs ↔ ∀ j v, fs[j]? = some v → ∃ f, h = some f ∧ f j v.depth v.err ≠ 0 := by
  simpa using acceptedFrom_iff h fs 0

/-- After conn_tls_start the connection reports secured iff TLS was not disabled, tls_new and the
    handshake went through (the peer completed its side), no earlier failure marks the connection,
    and: OpenSSL reported no failure, or the user set the trust flag, or the user's handler
    accepted EACH failing certificate. -/
theorem secured_iff (E : Engine) (P : Peer) (H : HOpenSsl E P) (c : Conn) :
    isSecured (connTlsStart E c).1 = true ↔
      c.policy.disabled = false ∧ E.newOk = true ∧ c.tlsFailed = false ∧ P.completes = true ∧
      (failures (P.facts (sslCfg c.policy)) = [] ∨ c.policy.trust = true ∨
        AcceptedFrom c.policy.handler 0 (failures (P.facts (sslCfg c.policy)))) := by
  rw [secured_after, tlsStart_ok_iff E P H]
  constructor
  · rintro ⟨h1, h2, h3, h4, h5⟩
    exact ⟨h1, h2, h3, h4, h5.elim (fun t => Or.inr (Or.inl t)) (fun a => Or.inr (Or.inr a))⟩
  · rintro ⟨h1, h2, h3, h4, h5⟩
    refine ⟨h1, h2, h3, h4, ?_⟩
    rcases h5 with h5 | h5 | h5
    · exact Or.inr (by rw [h5]; exact acceptedFrom_nil _ _)
    · exact Or.inl h5
    · exact Or.inr h5

/-- the same in the property's words: "no failure reported" is, by H-openssl, "the certificate chains
    to a configured trust anchor, is within its validity period and names the XMPP domain
    (full-label wildcards only)" -/
theorem secured_iff_good (E : Engine) (P : Peer) (H : HOpenSsl E P) (c : Conn)
    (hdom : connectRefused c.policy.domain = false) (hwf : wellFormedDomain c.policy.domain = true) :
    isSecured (connTlsStart E c).1 = true ↔
      c.policy.disabled = false ∧ E.newOk = true ∧ c.tlsFailed = false ∧ P.completes = true ∧
      ((P.cert.chains = true ∧ P.cert.inValidity = true ∧
          P.cert.presented.any (fun n => namesHost n c.policy.domain) = true) ∨
        c.policy.trust = true ∨
        AcceptedFrom c.policy.handler 0 (failures (P.facts (sslCfg c.policy)))) := by
  rw [secured_iff E P H]
  have hh := (config_pins_host c.policy hdom).1
  have hs := H.sound (sslCfg c.policy) (by rw [hh]; simpa using hwf) (config_no_partial_wildcards c.policy).2
  have hgood : failures (P.facts (sslCfg c.policy)) = [] ↔
      (P.cert.chains = true ∧ P.cert.inValidity = true ∧
        P.cert.presented.any (fun n => namesHost n c.policy.domain) = true) := by
    have : failures (P.facts (sslCfg c.policy)) = [] ↔ (P.facts (sslCfg c.policy)).all (·.ok) = true := by
      simp [failures, List.filter_eq_nil_iff]
    rw [this, hs]
    simp [good, hostOk, hh, and_assoc]
  rw [hgood]

/-- soundness, the direction the property is about: a secured connection has a good certificate,
    or the trust flag, or a handler that was asked about every failure and accepted each -/
theorem secured_sound (E : Engine) (P : Peer) (H : HOpenSsl E P) (c : Conn)
    (hdom : connectRefused c.policy.domain = false) (hwf : wellFormedDomain c.policy.domain = true)
    (h : isSecured (connTlsStart E c).1 = true) :
    good P.cert (sslCfg c.policy) = true ∨ c.policy.trust = true ∨
      (failures (P.facts (sslCfg c.policy)) ≠ [] ∧
        ∀ j v, (failures (P.facts (sslCfg c.policy)))[j]? = some v →
          ∃ f, c.policy.handler = some f ∧ f j v.depth v.err ≠ 0) := by
  have hh := (config_pins_host c.policy hdom).1
  have hs := H.sound (sslCfg c.policy) (by rw [hh]; simpa using hwf) (config_no_partial_wildcards c.policy).2
  rcases ((secured_iff E P H c).1 h).2.2.2.2 with h5 | h5 | h5
  · left
    rw [← hs]
    simpa [failures, List.filter_eq_nil_iff] using h5
  · exact Or.inr (Or.inl h5)
  · by_cases hn : failures (P.facts (sslCfg c.policy)) = []
    · left
      rw [← hs]
      simpa [failures, List.filter_eq_nil_iff] using hn
    · exact Or.inr (Or.inr ⟨hn, (accepted_each_spelled_out _ _).1 h5⟩)

/-- With no callback installed a failing certificate always aborts the handshake: XMPP_EINT, not
    secured, marked tls_failed, TLS object gone, the plain interface back in place. -/
theorem no_callback_aborts (E : Engine) (P : Peer) (H : HOpenSsl E P) (c : Conn)
    (hd : c.policy.disabled = false) (hn : E.newOk = true)
    (hnt : c.policy.trust = false) (hnc : c.policy.handler = none)
    (hf : failures (P.facts (sslCfg c.policy)) ≠ []) :
    (tlsStart E c.policy).ok = false ∧ (connTlsStart E c).2 = Gen.Tls.rcStartFail ∧
    isSecured (connTlsStart E c).1 = false ∧ (connTlsStart E c).1.tlsFailed = true ∧
    (connTlsStart E c).1.hasTls = false ∧ (connTlsStart E c).1.intfTls = c.intfTls := by
  have ho : (tlsStart E c.policy).ok = false := by
    cases hok : (tlsStart E c.policy).ok with
    | false => rfl
    | true =>
      have := ((tlsStart_ok_iff E P H c.policy).1 hok).2
      rw [hnt, hnc] at this
      rcases this with h | h
      · cases h
      · cases hfs : failures (P.facts (sslCfg c.policy)) with
        | nil => exact absurd hfs hf
        | cons v vs => rw [hfs] at h; exact absurd h (not_acceptedFrom_none 0 v vs)
  have hfh := failed_handshake E c hd hn ho
  have hrc : (connTlsStart E c).2 ≠ 0 := by rw [hfh.1, pin_rc.2.2]; decide
  have hfs := failed_start E c hrc
  exact ⟨ho, hfh.1, hfs.1, hfh.2.1, hfs.2.1, hfs.2.2.1⟩

/-- one rejection is enough: if the handler answers 0 to any failing certificate it is asked about,
    the handshake is aborted and the connection is not secured -/
theorem reject_one_aborts (E : Engine) (P : Peer) (H : HOpenSsl E P) (c : Conn)
    (hnt : c.policy.trust = false) (f : Handler) (hh : c.policy.handler = some f)
    (j : Nat) (v : VCall) (hv : (failures (P.facts (sslCfg c.policy)))[j]? = some v)
    (hrej : f j v.depth v.err = 0) :
    (tlsStart E c.policy).ok = false ∧ (connTlsStart E c).2 ≠ 0 ∧ isSecured (connTlsStart E c).1 = false := by
  have ho : (tlsStart E c.policy).ok = false := by
    cases hok : (tlsStart E c.policy).ok with
    | false => rfl
    | true =>
      have := ((tlsStart_ok_iff E P H c.policy).1 hok).2
      rw [hnt] at this
      rcases this with h | h
      · cases h
      · obtain ⟨g, hg, hne⟩ := (accepted_each_spelled_out _ _).1 h j v hv
        rw [hh] at hg
        cases hg
        exact absurd hrej hne
  have hrc : (connTlsStart E c).2 ≠ 0 := by
    intro h0
    have := ((rc_zero_iff E c).1 h0).2.2
    rw [ho] at this
    cases this
  exact ⟨ho, hrc, (failed_start E c hrc).1⟩

/-- with the trust flag OpenSSL gets no callback and SSL_VERIFY_NONE: the user's handler is never
    asked, the handshake succeeds whenever the peer completes it -/
theorem trust_flag_skips_verification (E : Engine) (P : Peer) (H : HOpenSsl E P) (p : Policy)
    (ht : p.trust = true) :
    verifyCb p = none ∧ handlerCalls p (tlsStart E p).calls = [] ∧
    ((tlsStart E p).ok = true ↔ P.completes = true) := by
  refine ⟨verifyCb_trust p ht, by simp [handlerCalls, (cfg_trust p ht).2], ?_⟩
  rw [tlsStart_ok_iff E P H]
  simp [ht]

/-- the handler is asked about failures only, in the order OpenSSL reports them, each time with the
    number of earlier failures as its invocation index, and never again after it answered 0 -/
theorem handler_sees_failures_in_order (E : Engine) (P : Peer) (H : HOpenSsl E P) (p : Policy)
    (hc : P.completes = true) (ht : p.trust = false) :
    (tlsStart E p).calls = run (tlsVerify p.handler) 0 (P.facts (sslCfg p)) ∧
    ∀ k v, tlsVerify p.handler k v =
      if v.ok then 1 else match p.handler with | none => 0 | some f => f k v.depth v.err := by
  refine ⟨by simpa [ht] using tlsStart_calls E P H p hc, ?_⟩
  intro k v
  cases hv : v.ok <;> cases hh : p.handler <;> simp [tlsVerify, hv, pin_ret.1, pin_ret.2]

/-! ### a failed start -/

/-- whatever made conn_tls_start fail (TLS disabled, tls_new failed, handshake failed): not secured,
    no TLS object, the interface and `secured` as they were, still the caller's to close -/
theorem failed_start_restores (E : Engine) (c : Conn) (h : (connTlsStart E c).2 ≠ 0) :
    isSecured (connTlsStart E c).1 = false ∧ (connTlsStart E c).1.hasTls = false ∧
    (connTlsStart E c).1.intfTls = c.intfTls ∧ (connTlsStart E c).1.secured = c.secured ∧
    (connTlsStart E c).1.state = c.state :=
  failed_start E c h

/-- a handshake that ran and failed answers XMPP_EINT, sets `tls_failed` (which by C02's
    `tls_failed_never_secured` keeps xmpp_conn_is_secured false for the rest of the attempt) and
    stores a non-zero error, which makes the next write pass tear the connection down -/
theorem failed_handshake_marks_connection (E : Engine) (P : Peer) (H : HOpenSsl E P) (c : Conn)
    (hd : c.policy.disabled = false) (hn : E.newOk = true) (ho : (tlsStart E c.policy).ok = false) :
    (connTlsStart E c).2 = Gen.Tls.rcStartFail ∧ (connTlsStart E c).1.tlsFailed = true ∧
    (connTlsStart E c).1.error ≠ 0 := by
  have h := failed_handshake E c hd hn ho
  refine ⟨h.1, h.2.1, ?_⟩
  rw [h.2.2]
  have : (tlsStart E c.policy).err ≠ 0 := by
    intro h0
    have := (H.err_iff (sslCfg c.policy) (verifyCb c.policy)).1 h0
    unfold tlsStart at ho
    rw [ho] at this
    cases this
  exact_mod_cast this

/-- return code 0 iff TLS enabled, tls_new succeeded and the handshake succeeded -/
theorem start_succeeds_iff (E : Engine) (c : Conn) :
    (connTlsStart E c).2 = 0 ↔
      c.policy.disabled = false ∧ E.newOk = true ∧ (tlsStart E c.policy).ok = true :=
  rc_zero_iff E c

/-! ### after a failed handshake the connection is torn down, not continued in the clear
(the callers: `_handle_proceedtls_default` → xmpp_disconnect, `conn_established` → conn_disconnect, and
the write pass of xmpp_run_once; the general statements about the connection machine are C02's
`tls_failed_never_secured`, `mandatory_tls_gate` and C13's `one_disconnect_per_attempt`) -/

/-- STARTTLS: after `<starttls/>` the only thing written is `</stream:stream>`, in the clear, and the
    same loop iteration closes the connection (ECONNABORTED); nothing goes through TLS; no
    credentials are sent -/
theorem never_cleartext_after_failure_starttls (E : Engine) (P : Peer) (H : HOpenSsl E P) (p : Policy)
    (hd : p.disabled = false) (hn : E.newOk = true) (ho : (tlsStart E p).ok = false) :
    (start E p .starttls).clear = [.hdr, .starttls, .close] ∧ (start E p .starttls).enc = [] ∧
    (start E p .starttls).queue = [] ∧
    (start E p .starttls).conn.state = .disconnected ∧ isSecured (start E p .starttls).conn = false ∧
    (start E p .starttls).evs = [.disconnect Gen.Tls.teardownError] := by
  have he : (tlsStart E p).err ≠ 0 := by
    intro h0
    have := (H.err_iff (sslCfg p) (verifyCb p)).1 h0
    unfold tlsStart at ho
    rw [ho] at this
    cases this
  exact starttls_failure E p hd hn ho he

/-- legacy SSL: nothing is written at all, the connection is closed at once with the TLS error -/
theorem never_cleartext_after_failure_legacy (E : Engine) (p : Policy)
    (hd : p.disabled = false) (hn : E.newOk = true) (ho : (tlsStart E p).ok = false) :
    (start E p .legacy).clear = [] ∧ (start E p .legacy).enc = [] ∧ (start E p .legacy).queue = [] ∧
    (start E p .legacy).conn.state = .disconnected ∧ isSecured (start E p .legacy).conn = false ∧
    (start E p .legacy).evs = [.disconnect ((tlsStart E p).err : Int)] :=
  legacy_failure E p hd hn ho

/-- xmpp_conn_tls_start on a raw connection: the user gets XMPP_EINT, the plain interface is back,
    and the next loop iteration closes the connection -/
theorem never_cleartext_after_failure_raw (E : Engine) (P : Peer) (H : HOpenSsl E P) (p : Policy)
    (hd : p.disabled = false) (hn : E.newOk = true) (ho : (tlsStart E p).ok = false) :
    (start E p .direct).rc = some Gen.Tls.rcStartFail ∧
    (start E p .direct).clear = [] ∧ (start E p .direct).enc = [] ∧
    (start E p .direct).conn.state = .disconnected ∧ isSecured (start E p .direct).conn = false ∧
    (start E p .direct).conn.intfTls = false := by
  have he : (tlsStart E p).err ≠ 0 := by
    intro h0
    have := (H.err_iff (sslCfg p) (verifyCb p)).1 h0
    unfold tlsStart at ho
    rw [ho] at this
    cases this
  exact direct_failure E p hd hn ho he

/-- once torn down nothing is written any more, whatever the user sends and however long it waits -/
theorem torn_down_stays_silent (s : Sess) (h : s.conn.state = .disconnected) (gated : Bool) :
    probe s gated = s ∧ tick s = s :=
  ⟨probe_disconnected s gated h, tick_disconnected s h⟩

/-- on every path and for every engine: data goes through TLS only after a successful handshake, and
    then the connection reports secured -/
theorem data_over_tls_only_if_secured (E : Engine) (p : Policy) (path : Path)
    (h : (start E p path).enc ≠ []) :
    p.disabled = false ∧ E.newOk = true ∧ (tlsStart E p).ok = true ∧
    isSecured (start E p path).conn = true :=
  enc_only_after_handshake E p path h

/-- the `conn_tls_start` of this model and the one of the connection machine (Model/Conn.lean, on
    which C02 / C03 / C13 are proved) are the same transition once the machine's two scripted bits
    are what this model computes -/
theorem same_transition_as_conn_machine (E : Engine) (k : Strophe.Conn.Conn) (c : Conn)
    (h : Lemmas.TlsTrustConn.Rel k c) (hn : k.tlsNewFail = !E.newOk)
    (hs : k.tlsStartFail = !(tlsStart E c.policy).ok) :
    Lemmas.TlsTrustConn.Rel (Strophe.Conn.connTlsStart k).1 (connTlsStart E c).1 ∧
    ((Strophe.Conn.connTlsStart k).2 = true ↔ (connTlsStart E c).2 = 0) ∧
    Strophe.Conn.isSecured (Strophe.Conn.connTlsStart k).1 = isSecured (connTlsStart E c).1 :=
  Lemmas.TlsTrustConn.connTlsStart_agrees E k c h hn hs

/-! ### H-openssl is satisfiable -/

theorem h_openssl_satisfiable (newOk completes : Bool) (cert : PeerCert) :
    HOpenSsl (idealEngine newOk completes cert) (idealPeer completes cert) :=
  ideal_satisfies newOk completes cert

/-! ### the decision table of the property: {valid, wrong-name, partial-wildcard, expired,
not-yet-valid, untrusted-issuer, self-signed} × {trust flag, no callback, callback accepting,
callback rejecting} × {STARTTLS, legacy SSL, raw} × {CA file set or not}, evaluated on the model with
the ideal engine -/

inductive Kind | valid | wrongName | partialWildcard | expired | notYetValid | untrustedIssuer | selfSigned
  deriving DecidableEq, Repr
inductive Cb | trust | none | accept | reject deriving DecidableEq, Repr

def fooExampleOrg : Bytes := cs ['f','o','o','.','e','x','a','m','p','l','e','.','o','r','g']
def otherExampleCom : Bytes := cs ['o','t','h','e','r','.','e','x','a','m','p','l','e','.','c','o','m']
def fStarExampleOrg : Bytes := cs ['f','*','.','e','x','a','m','p','l','e','.','o','r','g']
def starExampleOrg : Bytes := cs ['*','.','e','x','a','m','p','l','e','.','o','r','g']

/-- the chain as the property sees it; `caSet` = the test root is a configured trust anchor -/
def certOf (k : Kind) (caSet : Bool) : PeerCert :=
  match k with
  | .valid => { chains := caSet, inValidity := true, dnsNames := [fooExampleOrg], cn := none }
  | .wrongName => { chains := caSet, inValidity := true, dnsNames := [otherExampleCom], cn := none }
  | .partialWildcard => { chains := caSet, inValidity := true, dnsNames := [fStarExampleOrg], cn := none }
  | .expired => { chains := caSet, inValidity := false, dnsNames := [fooExampleOrg], cn := none }
  | .notYetValid => { chains := caSet, inValidity := false, dnsNames := [fooExampleOrg], cn := none }
  | .untrustedIssuer => { chains := false, inValidity := true, dnsNames := [fooExampleOrg], cn := none }
  | .selfSigned => { chains := false, inValidity := true, dnsNames := [fooExampleOrg], cn := none }

def policyOf (cb : Cb) : Policy :=
  match cb with
  | .trust => { domain := fooExampleOrg, trust := true }
  | .none => { domain := fooExampleOrg }
  | .accept => { domain := fooExampleOrg, handler := some fun _ _ _ => 1 }
  | .reject => { domain := fooExampleOrg, handler := some fun _ _ _ => 0 }

/-- what the property demands for a cell -/
def expected (k : Kind) (cb : Cb) (caSet : Bool) : Bool :=
  (k == .valid && caSet) || cb == .trust || cb == .accept

def allKinds : List Kind := [.valid, .wrongName, .partialWildcard, .expired, .notYetValid, .untrustedIssuer, .selfSigned]
def allCbs : List Cb := [.trust, .none, .accept, .reject]
def allPaths : List Path := [.starttls, .legacy, .direct]

/-- every cell: the connection ends up secured exactly when the property allows it; when it does
    not, nothing went through TLS and — on the two library-driven paths — the connection is closed -/
theorem decision_table :
    (allKinds.all fun k => allCbs.all fun cb => allPaths.all fun path => [true, false].all fun caSet =>
      let s := start (idealEngine true true (certOf k caSet)) (policyOf cb) path
      (isSecured s.conn == expected k cb caSet) &&
      (expected k cb caSet || (s.enc.isEmpty && !s.clear.contains .auth &&
        (s.conn.state == .disconnected)))) = true := by
  decide

/-! ### non-vacuity: every hypothesis combination above is met by a concrete, non-trivial value -/

def goodCert : PeerCert := certOf .valid true
def wildCert : PeerCert := { chains := true, inValidity := true, dnsNames := [starExampleOrg], cn := none }
def badCert : PeerCert := { chains := false, inValidity := false, dnsNames := [otherExampleCom], cn := none }

/-- a good certificate, no handler, no trust flag: secured (`secured_iff`, left disjunct) -/
example : isSecured (connTlsStart (idealEngine true true goodCert) { policy := policyOf .none }).1 = true := by
  decide
/-- a full-label wildcard names the domain, a partial one does not -/
example : namesHost starExampleOrg fooExampleOrg = true ∧ namesHost fStarExampleOrg fooExampleOrg = false ∧
    namesHost starExampleOrg (cs ['e','x','a','m','p','l','e','.','o','r','g']) = false ∧
    namesHost starExampleOrg (cs ['a','.','f','o','o','.','e','x','a','m','p','l','e','.','o','r','g']) = false := by
  decide
example : isSecured (connTlsStart (idealEngine true true wildCert) { policy := policyOf .none }).1 = true := by
  decide
/-- three failing events (issuer, name, validity), all accepted by the handler: secured
    (`secured_iff`, third disjunct; `secured_sound`, third disjunct with `failures ≠ []`) -/
example : failures (idealFacts badCert (sslCfg (policyOf .accept))) =
      [⟨false, 0, 20⟩, ⟨false, 0, 62⟩, ⟨false, 0, 10⟩] ∧
    isSecured (connTlsStart (idealEngine true true badCert) { policy := policyOf .accept }).1 = true := by
  decide
/-- the same certificate, a handler that accepts the first two failures and rejects the third:
    aborted after exactly three invocations (`reject_one_aborts` with j = 2) -/
example :
    let p : Policy := { domain := fooExampleOrg, handler := some fun i _ _ => if i < 2 then 1 else 0 }
    (tlsStart (idealEngine true true badCert) p).ok = false ∧
    (handlerCalls p (tlsStart (idealEngine true true badCert) p).calls).map (·.2) = [1, 1, 0] ∧
    isSecured (connTlsStart (idealEngine true true badCert) { policy := p }).1 = false := by
  decide
/-- no handler, failing certificate (`no_callback_aborts`): XMPP_EINT, tls_failed -/
example : (connTlsStart (idealEngine true true badCert) { policy := policyOf .none }).2 = -3 ∧
    (connTlsStart (idealEngine true true badCert) { policy := policyOf .none }).1.tlsFailed = true := by
  decide
/-- trust flag (`trust_flag_skips_verification`): secured with the bad certificate, handler never asked -/
example : isSecured (connTlsStart (idealEngine true true badCert) { policy := policyOf .trust }).1 = true ∧
    handlerCalls (policyOf .trust) (tlsStart (idealEngine true true badCert) (policyOf .trust)).calls = [] := by
  decide
/-- a peer that never completes the handshake: not secured even with the trust flag -/
example : isSecured (connTlsStart (idealEngine true false goodCert) { policy := policyOf .trust }).1 = false := by
  decide
/-- failed STARTTLS (`never_cleartext_after_failure_starttls`): header, starttls, closing tag; closed -/
example : (start (idealEngine true true badCert) (policyOf .reject) .starttls).clear = [.hdr, .starttls, .close] ∧
    (start (idealEngine true true badCert) (policyOf .reject) .starttls).conn.state = .disconnected := by
  decide
/-- successful STARTTLS (`data_over_tls_only_if_secured`): header and credentials go through TLS -/
example : (start (idealEngine true true goodCert) (policyOf .none) .starttls).enc = [.hdr, .auth] ∧
    (start (idealEngine true true goodCert) (policyOf .none) .starttls).clear = [.hdr, .starttls] := by
  decide
/-- `config_pins_host`, `refused_domains`: a usable domain is pinned, an unusable one is refused -/
example : connectRefused fooExampleOrg = false ∧ wellFormedDomain fooExampleOrg = true ∧
    (sslCfg (policyOf .none)).hosts = [fooExampleOrg] ∧ connectRefused (cs ['.','o','r','g']) = true := by
  decide
/-- `same_transition_as_conn_machine`: related states exist -/
example : Lemmas.TlsTrustConn.Rel ({} : Strophe.Conn.Conn) { policy := policyOf .none } := by
  simp [Lemmas.TlsTrustConn.Rel, policyOf]

end Strophe.C08
