import Strophe.Model.TlsTrust

namespace Strophe.C08
open Strophe Strophe.TlsTrust Strophe.Spec.OpenSsl

theorem pin_verify_modes : Gen.Tls.sslVerifyNone = 0 ∧ Gen.Tls.sslVerifyPeer = 1 := by decide

end Strophe.C08
