/-
C19 — JID helpers partition and rebuild addresses consistently.
Property theorems only (helper lemmas are private).
-/
import Strophe.Model.Jid

namespace Strophe.C19
open Strophe Strophe.Jid

/-! ### pinning lemmas: the literals the property names -/
theorem pin_limits : Gen.jidDomainMax = 1023 ∧ Gen.jidLocalMaxPlus1 = 1024 ∧
    Gen.jidResourceMaxPlus1 = 1024 := by decide
/-- the forbidden local-part characters are exactly  " & ' / : < > @ -/
theorem pin_forbidden : Gen.jidForbidden = [34, 38, 39, 47, 58, 60, 62, 64] := by decide

private theorem before_after (c : UInt8) (s : Bytes) :
    before c s ++ (match after c s with | some r => c :: r | none => []) = s := by
  induction s with
  | nil => simp [before, after]
  | cons x xs ih =>
    by_cases h : x = c
    · simp [before, after, h]
    · simp only [before, after, h, if_false, List.cons_append, ih]

private theorem after_none (c : UInt8) (s : Bytes) (h : c ∉ s) : after c s = none := by
  induction s with
  | nil => rfl
  | cons x xs ih =>
    have hx : x ≠ c := fun e => h (by simp [e])
    have : c ∉ xs := fun e => h (by simp [e])
    simp [after, hx, ih this]

private theorem before_all (c : UInt8) (s : Bytes) (h : c ∉ s) : before c s = s := by
  induction s with
  | nil => rfl
  | cons x xs ih =>
    have hx : x ≠ c := fun e => h (by simp [e])
    have : c ∉ xs := fun e => h (by simp [e])
    simp [before, hx, ih this]

private theorem before_append (c : UInt8) (pre r : Bytes) (h : c ∉ pre) :
    before c (pre ++ c :: r) = pre := by
  induction pre with
  | nil => simp [before]
  | cons x xs ih =>
    have hx : x ≠ c := fun e => h (by simp [e])
    have : c ∉ xs := fun e => h (by simp [e])
    simp [before, hx, ih this]

private theorem after_append (c : UInt8) (pre r : Bytes) (h : c ∉ pre) :
    after c (pre ++ c :: r) = some r := by
  induction pre with
  | nil => simp [after]
  | cons x xs ih =>
    have hx : x ≠ c := fun e => h (by simp [e])
    have : c ∉ xs := fun e => h (by simp [e])
    simp [after, hx, ih this]

private theorem before_not_mem (c : UInt8) (s : Bytes) : c ∉ before c s := by
  induction s with
  | nil => simp [before]
  | cons x xs ih =>
    by_cases h : x = c
    · simp [before, h]
    · simp only [before, h, if_false, List.mem_cons, not_or]
      exact ⟨fun e => h e.symm, ih⟩

/-- joining the parts returned by node/domain/resource reproduces the string -/
theorem parts_rejoin (s : Bytes) :
    (match node s with | some n => n ++ [at_] | none => []) ++ domain s ++
    (match resource s with | some r => slash :: r | none => []) = s := by
  have hs := before_after slash s
  have hb := before_after at_ (bare s)
  unfold node domain resource
  cases h1 : after at_ (bare s) with
  | none =>
    simp only [List.nil_append]
    exact hs
  | some r1 =>
    rw [h1] at hb
    simp only at hb ⊢
    calc before at_ (bare s) ++ [at_] ++ r1 ++
            (match after slash s with | some r => slash :: r | none => [])
        = (before at_ (bare s) ++ at_ :: r1) ++
            (match after slash s with | some r => slash :: r | none => []) := by simp
      _ = bare s ++ (match after slash s with | some r => slash :: r | none => []) := by rw [hb]
      _ = s := hs

/-- the bare JID is the string without its resource -/
theorem bare_is_prefix (s : Bytes) :
    bare s ++ (match resource s with | some r => slash :: r | none => []) = s :=
  before_after slash s

theorem bare_no_slash (s : Bytes) : slash ∉ bare s := before_not_mem slash s

/-- the resource is everything after the FIRST '/' -/
theorem resource_after_first_slash (pre r : Bytes) (h : slash ∉ pre) :
    resource (pre ++ slash :: r) = some r := after_append slash pre r h

theorem resource_none_of_no_slash (s : Bytes) (h : slash ∉ s) : resource s = none :=
  after_none slash s h

/-- the node is everything before the first '@' of the bare JID -/
theorem node_before_first_at (n rest res : Bytes) (hn : at_ ∉ n) (hns : slash ∉ n)
    (hrs : slash ∉ rest) :
    node (n ++ at_ :: rest ++ slash :: res) = some n ∧ node (n ++ at_ :: rest) = some n := by
  have hm : slash ∉ n ++ at_ :: rest := by
    intro h
    rcases List.mem_append.mp h with h | h
    · exact hns h
    · rcases List.mem_cons.mp h with h | h
      · exact absurd h (by decide)
      · exact hrs h
  constructor
  · unfold node bare
    rw [before_append slash _ res hm, after_append at_ n rest hn, before_append at_ n rest hn]
  · unfold node bare
    rw [before_all slash _ hm, after_append at_ n rest hn, before_append at_ n rest hn]

/-- what `jidNew` accepts -/
def Accepts (n : Option Bytes) (d : Bytes) (r : Option Bytes) : Prop :=
  d.length ≤ 1023 ∧ (∀ x, n = some x → x.length ≤ 1023 ∧ localOk x = true) ∧
  (∀ x, r = some x → x.length ≤ 1023)

theorem localOk_iff (n : Bytes) :
    localOk n = true ↔ ∀ c ∈ n, c.toNat ∉ [34, 38, 39, 47, 58, 60, 62, 64] := by
  unfold localOk
  rw [pin_forbidden]
  simp [List.all_eq_true]

private theorem localOk_no (n : Bytes) (h : localOk n = true) : at_ ∉ n ∧ slash ∉ n := by
  rw [localOk_iff] at h
  constructor
  · intro hm; exact (h _ hm) (by decide)
  · intro hm; exact (h _ hm) (by decide)

/-- building a JID from acceptable parts succeeds and yields node@domain/resource -/
theorem new_builds (n : Option Bytes) (d : Bytes) (r : Option Bytes) (h : Accepts n d r) :
    jidNew n (some d) r = some ((match n with | some n => n ++ [at_] | none => []) ++ d ++
            (match r with | some r => slash :: r | none => [])) := by
  obtain ⟨hd, hn, hr⟩ := h
  unfold jidNew
  simp only [pin_limits.1, pin_limits.2.1, pin_limits.2.2]
  have h1 : ¬ d.length > 1023 := by omega
  cases n with
  | none =>
    cases r with
    | none => simp [h1]
    | some y => have := hr y rfl; simp [h1]; omega
  | some x =>
    have hx := hn x rfl
    cases r with
    | none => simp [h1, hx.2]; omega
    | some y => have := hr y rfl; simp [h1, hx.2]; omega

/-- … and splitting it returns those parts (domain free of '/' and '@', as the property says) -/
theorem new_split (n : Option Bytes) (d : Bytes) (r : Option Bytes) (h : Accepts n d r)
    (hd1 : slash ∉ d) (hd2 : at_ ∉ d) :
    ∃ j, jidNew n (some d) r = some j ∧ node j = n ∧ domain j = d ∧ resource j = r := by
  refine ⟨_, new_builds n d r h, ?_⟩
  obtain ⟨_, hn, _⟩ := h
  cases n with
  | none =>
    cases r with
    | none =>
      simp only [List.nil_append, List.append_nil]
      unfold node domain resource bare
      rw [before_all slash d hd1, after_none at_ d hd2, after_none slash d hd1]
      exact ⟨rfl, rfl, rfl⟩
    | some r =>
      simp only [List.nil_append]
      unfold node domain resource bare
      rw [before_append slash d r hd1, after_none at_ d hd2, after_append slash d r hd1]
      exact ⟨rfl, rfl, rfl⟩
  | some n =>
    obtain ⟨hna, hns⟩ := localOk_no n (hn n rfl).2
    have hnd : slash ∉ n ++ at_ :: d := by
      intro hm
      rcases List.mem_append.mp hm with hm | hm
      · exact hns hm
      · rcases List.mem_cons.mp hm with hm | hm
        · exact absurd hm (by decide)
        · exact hd1 hm
    cases r with
    | none =>
      simp only [List.append_nil, List.append_assoc, List.singleton_append]
      unfold node domain resource bare
      rw [before_all slash _ hnd, after_append at_ n d hna, before_append at_ n d hna,
        after_none slash _ hnd]
      exact ⟨rfl, rfl, rfl⟩
    | some r =>
      simp only [List.append_assoc, List.singleton_append]
      rw [← List.append_assoc]
      unfold node domain resource bare
      simp only [List.append_assoc, List.cons_append]
      have e : n ++ at_ :: (d ++ slash :: r) = (n ++ at_ :: d) ++ slash :: r := by simp
      rw [e, before_append slash _ r hnd, after_append at_ n d hna, before_append at_ n d hna,
        after_append slash _ r hnd]
      exact ⟨rfl, rfl, rfl⟩

/-- refusal: missing domain, a forbidden local character, or a part over its limit -/
theorem new_refuses (n d r : Option Bytes)
    (h : d = none ∨ (∃ x, d = some x ∧ x.length > 1023) ∨ (∃ x, n = some x ∧ x.length > 1023) ∨
         (∃ x, r = some x ∧ x.length > 1023) ∨ (∃ x, n = some x ∧ localOk x = false)) :
    jidNew n d r = none := by
  unfold jidNew
  simp only [pin_limits.1, pin_limits.2.1, pin_limits.2.2]
  rcases h with h | ⟨x, h, hx⟩ | ⟨x, h, hx⟩ | ⟨x, h, hx⟩ | ⟨x, h, hx⟩
  · subst h; rfl
  · subst h; simp [hx]
  all_goals
    subst h
    cases d with
    | none => rfl
    | some d =>
      simp only
      repeat' split
      all_goals first | rfl | (exfalso; simp_all; try omega)

/-- exact characterisation: `jidNew` succeeds iff the parts are acceptable -/
theorem new_isSome_iff (n : Option Bytes) (d : Bytes) (r : Option Bytes) :
    (jidNew n (some d) r).isSome ↔ Accepts n d r := by
  constructor
  · intro h
    refine ⟨?_, ?_, ?_⟩
    · by_cases hd : d.length > 1023
      · rw [new_refuses n (some d) r (Or.inr (Or.inl ⟨d, rfl, hd⟩))] at h; simp at h
      · omega
    · intro x hx
      constructor
      · by_cases hl : x.length > 1023
        · rw [new_refuses n (some d) r (Or.inr (Or.inr (Or.inl ⟨x, hx, hl⟩)))] at h; simp at h
        · omega
      · cases hl : localOk x with
        | true => rfl
        | false =>
          rw [new_refuses n (some d) r (Or.inr (Or.inr (Or.inr (Or.inr ⟨x, hx, hl⟩))))] at h
          simp at h
    · intro x hx
      by_cases hl : x.length > 1023
      · rw [new_refuses n (some d) r (Or.inr (Or.inr (Or.inr (Or.inl ⟨x, hx, hl⟩))))] at h
        simp at h
      · omega
  · intro h; rw [new_builds n d r h]; rfl

/-! ### non-vacuity -/
/-- "a@b/c@d/e" -/
example : node (cs ['a','@','b','/','c','@','d','/','e']) = some (cs ['a']) ∧
    domain (cs ['a','@','b','/','c','@','d','/','e']) = cs ['b'] ∧
    resource (cs ['a','@','b','/','c','@','d','/','e']) = some (cs ['c','@','d','/','e']) ∧
    bare (cs ['a','@','b','/','c','@','d','/','e']) = cs ['a','@','b'] := by decide
example : Accepts (some (cs ['n','o'])) (cs ['e','x','.','o','r','g']) (some (cs ['r','/','@'])) := by
  refine ⟨by decide, ?_, ?_⟩
  · intro x hx; cases hx; decide
  · intro x hx; cases hx; decide
example : jidNew (some (cs ['a',':','b'])) (some (cs ['d'])) none = none := by decide

end Strophe.C19
