/-
C07 — SASL responses are what the RFCs say for every credential and challenge.

Property theorems only (helper lemmas: Strophe/Lemmas/Sasl*.lean).
  model          Strophe/Model/Sasl.lean   (sasl.c, scram.c, auth.c credential code, rand.c nonce rendering)
  specifications Strophe/Spec/Rfc5802.lean (SCRAM, incl. the server-side verifier `serverVerify`),
                 Strophe/Spec/Rfc2831.lean (DIGEST-MD5), Strophe/Spec/Rfc4616.lean (PLAIN),
                 Strophe/Spec/Hash.lean (SHA-1/256/512, MD5, HMAC — C17), Spec/Rfc4648.lean (base64 — C18)

Scope notes.
  * Client-nonce FRESHNESS is not a theorem: the random source is an input (`rnd`) of the model.
    What is proved is that distinct random bytes give distinct nonces (`nonce_injective`); that the
    real rand.c delivers pairwise distinct nonces is checked empirically (check/props/c07.py, op
    `fresh`).
  * RFC 5802 §5.1 also asks the client to verify that the server nonce extends the client nonce;
    `sasl_scram` does not (it answers any `r=`).  The property speaks about what the client SENDS,
    so this is out of scope here; `scram_proof_verifies` holds for every server nonce.
  * Normalize(password) is the identity (the C code omits SASLprep).
  * Inputs of 2^60 bytes and more are outside the statements (LibTomCrypt length guards; `Res.undef`).
  * An empty salt (`s=`, grammatically possible in RFC 5802) is refused cleanly
    (`scram_empty_salt_refused`); the proof theorem is for non-empty salts of any length.
-/
import Strophe.Lemmas.SaslAlgs
import Strophe.Spec.Rfc4616

namespace Strophe.C07
open Strophe Strophe.Hash Strophe.Sasl Strophe.Lemmas.Sasl
open Strophe.Spec

/-! ### pinning lemmas: the literals of the property / the RFCs, as extracted from the C sources -/

/-- RFC 5802: INT(1), "Client Key"; the nonce sizes; RFC 2831: "AUTHENTICATE:", nc, qop, "xmpp/" -/
theorem pin_literals :
    Gen.Sasl.hiInt1 = [0, 0, 0, 1] ∧
    Gen.Sasl.clientKeyLabel = cs ['C', 'l', 'i', 'e', 'n', 't', ' ', 'K', 'e', 'y'] ∧
    Gen.Sasl.scramNonceLen = 33 ∧ Gen.Sasl.digestCnonceBuf = 13 ∧ Gen.Sasl.scramInitBuf = 56 ∧
    Gen.Sasl.digestA2Prefix = cs ['A', 'U', 'T', 'H', 'E', 'N', 'T', 'I', 'C', 'A', 'T', 'E', ':'] ∧
    Gen.Sasl.digestUriPrefix = cs ['x', 'm', 'p', 'p', '/'] ∧
    Gen.Sasl.digestNc = cs ['0', '0', '0', '0', '0', '0', '0', '1'] ∧
    Gen.Sasl.digestQopDefault = cs ['a', 'u', 't', 'h'] ∧ Gen.Sasl.digestQopAuth = cs ['a', 'u', 't', 'h'] ∧
    Gen.Sasl.randHexTbl = cs ['0', '1', '2', '3', '4', '5', '6', '7', '8', '9', 'A', 'B', 'C', 'D', 'E', 'F'] := by
  decide

/-- XEP-0114 / XEP-0078 names -/
theorem pin_names :
    Gen.Sasl.nsComponent = cs ['j','a','b','b','e','r',':','c','o','m','p','o','n','e','n','t',':','a','c','c','e','p','t'] ∧
    Gen.Sasl.nsAuth = cs ['j','a','b','b','e','r',':','i','q',':','a','u','t','h'] ∧
    Gen.Sasl.legacyIqType = cs ['s','e','t'] ∧
    Gen.Sasl.legacyIqId = cs ['_','x','m','p','p','_','a','u','t','h','1'] ∧
    Gen.Sasl.handshakeParts = [cs ['<','h','a','n','d','s','h','a','k','e',' ','x','m','l','n','s','=','\''],
      cs ['\'','>'], cs ['<','/','h','a','n','d','s','h','a','k','e','>']] := by decide

/-- the repairs this property depends on are present in the tree the model was extracted from:
    NULL challenge and missing nonce are refused, qop is the client's own "auth", charset is only
    echoed, the SCRAM user name is escaped, SCRAM_Hi no longer copies the salt into `tmp[]` -/
theorem pin_fixes :
    Gen.Sasl.digestNullGuarded = true ∧ Gen.Sasl.digestNonceGuarded = true ∧
    Gen.Sasl.digestQopForced = true ∧ Gen.Sasl.digestCharsetGuarded = true ∧
    Gen.Sasl.scramEscapesName = true ∧ Gen.Sasl.hiAssertsSaltLen = false ∧
    Gen.Sasl.scramSaltMax = none := by decide

/-- which channel binding a -PLUS mechanism carries (tls_openssl.c `tls_init_channel_binding`):
    RFC 5929 §3 `tls-unique` — the first Finished message of the handshake (the client's, 12 bytes in
    TLS 1.0–1.2, 36 in SSL 3; the peer's when the session was resumed) — for every version up to
    TLS 1.2, RFC 9266 `tls-exporter` (label "EXPORTER-Channel-Binding", 32 bytes, no context) for
    TLS 1.3.  Observing it needs a live session of each version; it is translated from the source and
    pinned here (the `c=` field built from these bytes: `scram_exchange_plus` below). -/
theorem pin_channel_binding :
    Gen.Sasl.cbCases = [("SSL3_VERSION", "tls-unique", 36, "", 0), ("TLS1_VERSION", "tls-unique", 12, "", 0),
      ("TLS1_1_VERSION", "tls-unique", 12, "", 0), ("TLS1_2_VERSION", "tls-unique", 12, "", 0),
      ("TLS1_3_VERSION", "tls-exporter", 32, "EXPORTER-Channel-Binding", 24)] ∧
    Gen.Sasl.cbFinishedWhen = ("ssl_version<=TLS1_2_VERSION", "SSL_get_peer_finished", "SSL_get_finished") ∧
    Gen.Sasl.cbExporterElse = true ∧ "EXPORTER-Channel-Binding".length = 24 := by decide

/-- the mechanisms of `scram_algs[]` and the standard functions they are claimed to compute -/
def scramAlgs : List (Alg × Rfc5802.HashFn) :=
  [(algSha1, Rfc5802.sha1Fn), (algSha256, Rfc5802.sha256Fn), (algSha512, Rfc5802.sha512Fn)]

theorem scramAlgs_realize : ∀ p ∈ scramAlgs, Realizes p.1 p.2 := by
  intro p hp
  simp only [scramAlgs, List.mem_cons, List.not_mem_nil, or_false] at hp
  rcases hp with rfl | rfl | rfl
  · exact realizes_sha1
  · exact realizes_sha256
  · exact realizes_sha512

/-! ### SCRAM: the primitives are RFC 5802 §2.2 / §3 -/

/-- `hi_eq_spec`: `SCRAM_Hi` = U1 XOR U2 XOR … XOR Ui for EVERY salt (any length) and i ≥ 1 -/
theorem hi_eq_spec : ∀ p ∈ scramAlgs, ∀ (str salt : Bytes) (i : Nat), 1 ≤ i →
    str.length < 2 ^ 60 → salt.length < 2 ^ 59 →
    hi p.1 str salt i = .ok (Rfc5802.Hi p.2 str salt i) :=
  fun p hp str salt i hi1 h1 h2 => Lemmas.Sasl.hi_eq_spec (scramAlgs_realize p hp) str salt i hi1 h1 h2

/-- ClientKey, ClientSignature (over StoredKey = H(ClientKey)) and ClientProof -/
theorem scram_primitives_eq_spec : ∀ p ∈ scramAlgs, ∀ (pw salt am : Bytes) (i : Nat), 1 ≤ i →
    pw.length < 2 ^ 60 → salt.length < 2 ^ 59 → am.length < 2 ^ 60 →
    let ck := Rfc5802.ClientKey p.2 (Rfc5802.SaltedPassword p.2 pw salt i)
    let sig := Rfc5802.ClientSignature p.2 (Rfc5802.StoredKey p.2 ck) am
    clientKey p.1 pw salt i = .ok ck ∧
    clientSignature p.1 ck am = .ok sig ∧
    clientProof p.1 ck sig = Rfc5802.ClientProof ck sig := by
  intro p hp pw salt am i hi1 h1 h2 h3
  have R := scramAlgs_realize p hp
  have hck : (Rfc5802.ClientKey p.2 (Rfc5802.SaltedPassword p.2 pw salt i)).length = p.2.hLen := by
    simp [Rfc5802.ClientKey, R.hmacLen]
  exact ⟨clientKey_eq_spec R pw salt i hi1 h1 h2, clientSignature_eq_spec R _ am hck h3,
    clientProof_eq_spec R _ _ hck (by simp [Rfc5802.ClientSignature, R.hmacLen])⟩

/-- The RFC's own client is accepted by the RFC's server — for ANY hash function whose HMAC has a
    fixed output length (xor involution is all that is needed). -/
theorem server_accepts_rfc_client (F : Rfc5802.HashFn) (hl : ∀ k m, (F.HMAC k m).length = F.hLen)
    (pw salt : Bytes) (i : Nat) (am : Bytes) :
    Rfc5802.serverVerify F (Rfc5802.storedKeyOf F pw salt i) am (Rfc5802.clientProofOf F pw salt i am) = true := by
  unfold Rfc5802.serverVerify Rfc5802.clientProofOf Rfc5802.storedKeyOf Rfc5802.ClientProof
  simp only
  have hx : ∀ (a b : Bytes), a.length = b.length → Rfc5802.XOR (Rfc5802.XOR a b) b = a := by
    intro a
    induction a with
    | nil => intro b h; cases b <;> simp_all [Rfc5802.XOR]
    | cons x a ih =>
      intro b h
      cases b with
      | nil => simp at h
      | cons y b =>
        simp only [Rfc5802.XOR, List.zipWith_cons_cons, List.cons.injEq]
        exact ⟨by rw [UInt8.xor_assoc, UInt8.xor_self, UInt8.xor_zero], ih b (by simpa using h)⟩
  rw [hx _ _ (by simp [Rfc5802.ClientKey, Rfc5802.ClientSignature, hl])]
  simp [Rfc5802.StoredKey]

/-! ### SCRAM: client-final-message and its proof -/

/-- `scram_proof_verifies`.  For every mechanism, every password, every non-empty salt, every
    iteration count 1 ≤ i < 2^32, every server nonce (comma-free), every extension list, every
    channel-binding field `cb` and every client-first-message-bare: `sasl_scram` returns
    base64("c=" cb ",r=" snonce ",p=" base64(proof)) and the independent RFC 5802 server accepts
    `proof` for the StoredKey derived from (password, salt, i) and the AuthMessage
    first_bare "," server-first "," "c=" cb ",r=" snonce. -/
theorem scram_proof_verifies : ∀ p ∈ scramAlgs,
    ∀ (cb firstBare pw snonce salt : Bytes) (i : Nat) (ext : List Bytes),
    (∀ c ∈ snonce, c ≠ comma) → salt ≠ [] → 1 ≤ i → i < 2 ^ 32 → (∀ e ∈ ext, ExtOk e) →
    pw.length < 2 ^ 60 → salt.length < 2 ^ 59 →
    (Rfc5802.AuthMessage firstBare (Rfc5802.serverFirstMessage snonce salt i ext)
      (Rfc5802.clientFinalWithoutProofOf cb snonce)).length < 2 ^ 60 →
    let serverFirst := Rfc5802.serverFirstMessage snonce salt i ext
    let withoutProof := Rfc5802.clientFinalWithoutProofOf cb snonce
    let authMessage := Rfc5802.AuthMessage firstBare serverFirst withoutProof
    ∃ proof,
      scramFinal p.1 cb serverFirst firstBare pw =
        .ok (some (Base64.encode (Rfc5802.clientFinalMessageOf withoutProof proof))) ∧
      proof.length = p.2.hLen ∧
      Rfc5802.serverVerify p.2 (Rfc5802.storedKeyOf p.2 pw salt i) authMessage proof = true := by
  intro p hp cb firstBare pw snonce salt i ext hn hs hi1 hi32 hext hpw hsl ham
  have R := scramAlgs_realize p hp
  exact ⟨Rfc5802.clientProofOf p.2 pw salt i _,
    scramFinal_eq_spec R cb firstBare pw snonce salt i ext hn hs hi1 hi32 hext hpw hsl ham,
    clientProofOf_length R.hmacLen pw salt i _,
    server_accepts_rfc_client p.2 R.hmacLen pw salt i _⟩

/-- the nonce is echoed and the `c=` value is the one handed in: the message before base64 is
    literally `c=<cb>,r=<server nonce>,p=<base64 proof>` -/
theorem scram_final_shape (cb snonce proof : Bytes) :
    Rfc5802.clientFinalMessageOf (Rfc5802.clientFinalWithoutProofOf cb snonce) proof =
      cs ['c', '='] ++ cb ++ cs [',', 'r', '='] ++ snonce ++ cs [',', 'p', '='] ++ Rfc4648.encode proof := by
  simp [Rfc5802.clientFinalMessageOf, Rfc5802.clientFinalWithoutProofOf, Rfc5802.asc, cs]

/-- an empty salt, a missing attribute or an undecodable salt: clean NULL, for every mechanism -/
theorem scram_empty_salt_refused (alg : Alg) (cb firstBare pw snonce : Bytes) (i : Nat)
    (hn : ∀ c ∈ snonce, c ≠ comma) :
    scramFinal alg cb (Rfc5802.serverFirstMessage snonce [] i) firstBare pw = .ok none := by
  unfold scramFinal
  simp only [scanFields_serverFirst snonce [] i [] hn (by simp)]
  rfl

/-! ### SCRAM: client-first-message, channel binding (RFC 5802 §5.1, §6, §7) -/

/-- `scram_messages_wellformed`, first half.  Whenever a JID has a node `user`:
    * without a -PLUS mechanism `_make_scram_init_msg` succeeds and sends
      gs2-header ‖ "n=" saslname(user) ",r=" cnonce  with flag "y" over TLS and "n" otherwise;
      the channel-binding field is base64(gs2-header): "eSws" / "biws";
    * with a -PLUS mechanism over TLS (binding type and data fit the 56-byte buffer) the flag is
      "p=<type>" and the field is base64(gs2-header ‖ binding data);
    * `first_bare` is the client-first-message-bare;
    * the flag is the one RFC 5802 §6 prescribes (`Rfc5802.chooseFlag`);
    * cnonce = 32 upper-case hex digits of the 16 random bytes. -/
theorem scram_messages_wellformed (jid rnd user : Bytes) (hu : Jid.node jid = some user) :
    (∀ (secured : Bool) (tls : TlsCb),
      ∃ init flag, scramInit false secured tls jid rnd = some init ∧
        Rfc5802.chooseFlag false secured [] = some flag ∧
        init.message = Rfc5802.clientFirstMessage flag user (scramNonce rnd) ∧
        init.firstBare = Rfc5802.clientFirstMessageBare user (scramNonce rnd) ∧
        init.channelBinding = Base64.encode (Rfc5802.cbindInput flag []) ∧
        init.channelBinding = (if secured then cs ['e', 'S', 'w', 's'] else cs ['b', 'i', 'w', 's'])) ∧
    (∀ (ty data : Bytes), ty.length + 4 ≤ 56 → data.length ≤ 56 - (ty.length + 4) →
      ∃ init, scramInit true true ⟨some ty, some data⟩ jid rnd = some init ∧
        Rfc5802.chooseFlag true true ty = some (.p ty) ∧
        init.message = Rfc5802.clientFirstMessage (.p ty) user (scramNonce rnd) ∧
        init.firstBare = Rfc5802.clientFirstMessageBare user (scramNonce rnd) ∧
        init.channelBinding = Base64.encode (Rfc5802.cbindInput (.p ty) data)) ∧
    (∀ (tls : TlsCb), scramInit true false tls jid rnd = none ∧ Rfc5802.chooseFlag true false [] = none) := by
  refine ⟨fun secured tls => ?_, fun ty data hty hd => ?_, fun tls => ⟨?_, rfl⟩⟩
  · rw [scramInit_plain secured tls jid rnd user hu]
    cases secured
    · refine ⟨_, .n, rfl, rfl, rfl, ?_, rfl, ?_⟩
      · simp [ScramInit.firstBare, Rfc5802.clientFirstMessage]
      · show Base64.encode (Rfc5802.gs2Header Rfc5802.CbFlag.n) = cs ['b', 'i', 'w', 's']
        decide
    · refine ⟨_, .y, rfl, rfl, rfl, ?_, rfl, ?_⟩
      · simp [ScramInit.firstBare, Rfc5802.clientFirstMessage]
      · show Base64.encode (Rfc5802.gs2Header Rfc5802.CbFlag.y) = cs ['e', 'S', 'w', 's']
        decide
  · rw [scramInit_plus ty data jid rnd user hu hty hd]
    refine ⟨_, rfl, rfl, rfl, ?_, rfl⟩
    simp [ScramInit.firstBare, Rfc5802.clientFirstMessage]
  · simp [scramInit]

/-- the user name survives the escaping: a server that undoes `=2C` / `=3D` gets the node back,
    for every node (including ',' and '=') -/
theorem saslname_roundtrip (user : Bytes) : Rfc5802.unsaslname (Rfc5802.saslname user) = some user := by
  induction user with
  | nil => rfl
  | cons c u ih =>
    have hc : Rfc5802.saslname (c :: u) =
        (if c = 44 then [61, 50, 67] else if c = 61 then [61, 51, 68] else [c]) ++ Rfc5802.saslname u := by
      simp [Rfc5802.saslname, Rfc5802.asc]
    rw [hc]
    by_cases h1 : c = 44
    · subst h1; simp [Rfc5802.unsaslname, ih]
    · by_cases h2 : c = 61
      · subst h2; simp [Rfc5802.unsaslname, ih]
      · simp only [h1, h2, if_false, List.singleton_append]
        unfold Rfc5802.unsaslname
        simp only [h1, h2, if_false, ih, Option.map_some]

/-- `scram_messages_wellformed`, second half: the whole exchange.  The record built by
    `_make_scram_init_msg` handed to `_handle_scram_challenge` with a well-formed
    server-first-message yields client-final = "c=" base64(gs2-header ‖ cbind-data) ",r=" snonce
    ",p=" base64(proof), the proof being accepted by the RFC server for
    AuthMessage = client-first-message-bare "," server-first-message "," client-final-without-proof. -/
theorem scram_exchange : ∀ p ∈ scramAlgs,
    ∀ (secured : Bool) (tls : TlsCb) (jid rnd user pw snonce salt : Bytes) (i : Nat) (ext : List Bytes),
    Jid.node jid = some user →
    (∀ c ∈ snonce, c ≠ comma) → salt ≠ [] → 1 ≤ i → i < 2 ^ 32 → (∀ e ∈ ext, ExtOk e) →
    (0 : UInt8) ∉ Rfc5802.serverFirstMessage snonce salt i ext →
    pw.length < 2 ^ 60 → salt.length < 2 ^ 59 →
    let flag : Rfc5802.CbFlag := if secured then .y else .n
    let serverFirst := Rfc5802.serverFirstMessage snonce salt i ext
    let withoutProof := Rfc5802.clientFinalMessageWithoutProof flag [] snonce
    let authMessage := Rfc5802.AuthMessage (Rfc5802.clientFirstMessageBare user (scramNonce rnd)) serverFirst withoutProof
    authMessage.length < 2 ^ 60 →
    ∃ init proof,
      scramInit false secured tls jid rnd = some init ∧
      handleScramChallenge p.1 init (some (Base64.encode serverFirst)) pw =
        .ok (.resp (Base64.encode (Rfc5802.clientFinalMessageOf withoutProof proof))) ∧
      Rfc5802.serverVerify p.2 (Rfc5802.storedKeyOf p.2 pw salt i) authMessage proof = true := by
  intro p hp secured tls jid rnd user pw snonce salt i ext hu hn hs hi1 hi32 hext h0 hpw hsl
  intro flag serverFirst withoutProof authMessage ham
  have R := scramAlgs_realize p hp
  obtain ⟨init, flag', hinit, hflag, _, hfb, hcb, _⟩ := (scram_messages_wellformed jid rnd user hu).1 secured tls
  have hflag' : flag' = flag := by
    cases secured <;> simp [Rfc5802.chooseFlag] at hflag <;> exact hflag.symm
  subst hflag'
  have hsfne : serverFirst ≠ [] := by simp [serverFirst, Rfc5802.serverFirstMessage, Rfc5802.asc]
  have hwp : withoutProof = Rfc5802.clientFinalWithoutProofOf init.channelBinding snonce := by
    rw [hcb]
    simp only [withoutProof, Rfc5802.clientFinalMessageWithoutProof, Lemmas.Base64.encode_eq_rfc4648]
  refine ⟨init, Rfc5802.clientProofOf p.2 pw salt i authMessage, hinit, ?_,
    server_accepts_rfc_client p.2 R.hmacLen pw salt i authMessage⟩
  have hfinal := scramFinal_eq_spec R init.channelBinding init.firstBare pw snonce salt i ext hn hs hi1 hi32 hext hpw hsl
    (by rw [hfb, ← hwp]; exact ham)
  rw [hfb, ← hwp] at hfinal
  have hene : Base64.encode serverFirst ≠ [] := encode_ne_nil _ hsfne
  have hdec := decodeStr_encode serverFirst h0
  unfold handleScramChallenge
  cases he : Base64.encode serverFirst with
  | nil => exact absurd he hene
  | cons c r =>
    rw [he] at hdec
    simp only [hdec, hfb]
    rw [hfinal]
    rfl

/-- the same exchange for a -PLUS mechanism over TLS: `c=` carries base64("p=" type ",," ‖ binding
    data) and the proof is over that very field -/
theorem scram_exchange_plus : ∀ p ∈ scramAlgs,
    ∀ (ty data jid rnd user pw snonce salt : Bytes) (i : Nat) (ext : List Bytes),
    Jid.node jid = some user → ty.length + 4 ≤ 56 → data.length ≤ 56 - (ty.length + 4) →
    (∀ c ∈ snonce, c ≠ comma) → salt ≠ [] → 1 ≤ i → i < 2 ^ 32 → (∀ e ∈ ext, ExtOk e) →
    (0 : UInt8) ∉ Rfc5802.serverFirstMessage snonce salt i ext →
    pw.length < 2 ^ 60 → salt.length < 2 ^ 59 →
    let serverFirst := Rfc5802.serverFirstMessage snonce salt i ext
    let withoutProof := Rfc5802.clientFinalMessageWithoutProof (.p ty) data snonce
    let authMessage := Rfc5802.AuthMessage (Rfc5802.clientFirstMessageBare user (scramNonce rnd)) serverFirst withoutProof
    authMessage.length < 2 ^ 60 →
    ∃ init proof,
      scramInit true true ⟨some ty, some data⟩ jid rnd = some init ∧
      handleScramChallenge p.1 init (some (Base64.encode serverFirst)) pw =
        .ok (.resp (Base64.encode (Rfc5802.clientFinalMessageOf withoutProof proof))) ∧
      Rfc5802.serverVerify p.2 (Rfc5802.storedKeyOf p.2 pw salt i) authMessage proof = true := by
  intro p hp ty data jid rnd user pw snonce salt i ext hu hty hdl hn hs hi1 hi32 hext h0 hpw hsl
  intro serverFirst withoutProof authMessage ham
  have R := scramAlgs_realize p hp
  obtain ⟨init, hinit, _, _, hfb, hcb⟩ := (scram_messages_wellformed jid rnd user hu).2.1 ty data hty hdl
  have hsfne : serverFirst ≠ [] := by simp [serverFirst, Rfc5802.serverFirstMessage, Rfc5802.asc]
  have hwp : withoutProof = Rfc5802.clientFinalWithoutProofOf init.channelBinding snonce := by
    rw [hcb]
    simp only [withoutProof, Rfc5802.clientFinalMessageWithoutProof, Lemmas.Base64.encode_eq_rfc4648]
  refine ⟨init, Rfc5802.clientProofOf p.2 pw salt i authMessage, hinit, ?_,
    server_accepts_rfc_client p.2 R.hmacLen pw salt i authMessage⟩
  have hfinal := scramFinal_eq_spec R init.channelBinding init.firstBare pw snonce salt i ext hn hs hi1 hi32 hext hpw hsl
    (by rw [hfb, ← hwp]; exact ham)
  rw [hfb, ← hwp] at hfinal
  have hene : Base64.encode serverFirst ≠ [] := encode_ne_nil _ hsfne
  have hdec := decodeStr_encode serverFirst h0
  unfold handleScramChallenge
  cases he : Base64.encode serverFirst with
  | nil => exact absurd he hene
  | cons c r =>
    rw [he] at hdec
    simp only [hdec, hfb]
    rw [hfinal]
    rfl

/-! ### robustness of the challenge parsers (no NULL dereference, no abort, for ANY server input) -/

/-- `scram_parse_no_crash`: for every mechanism and EVERY byte string as server-first-message
    (no `r=`/`s=`/`i=`, undecodable salt, salt of any length, `i` = 0 / huge / non-numeric, a nonce
    that does not extend the client's) `sasl_scram` — and `_handle_scram_challenge` around it, for
    a `<challenge/>` with or without text — neither dereferences NULL nor aborts -/
theorem scram_parse_no_crash : ∀ p ∈ scramAlgs, ∀ (cb challenge firstBare pw : Bytes),
    (scramFinal p.1 cb challenge firstBare pw).safe = true ∧
    ∀ (init : ScramInit) (text : Option Bytes), (handleScramChallenge p.1 init text pw).safe = true := by
  intro p hp cb ch fb pw
  have h : p.1.digestSize ≤ Gen.Sasl.hiTmpSize := by
    have R := scramAlgs_realize p hp
    rw [R.ds]; exact R.small
  exact ⟨scramFinal_safe p.1 h cb ch fb pw, fun init text => handleScram_safe p.1 h init text pw⟩

/-- `SCRAM_Hi` itself: any salt length, any iteration count (0 included) -/
theorem hi_no_abort : ∀ p ∈ scramAlgs, ∀ (str salt : Bytes) (i : Nat), (hi p.1 str salt i).safe = true := by
  intro p hp str salt i
  have R := scramAlgs_realize p hp
  exact hi_safe p.1 (by rw [R.ds]; exact R.small) str salt i

/-- `digest_parse_no_crash`: for EVERY challenge — absent (`<challenge/>`), empty, undecodable
    base64, decodable text without `nonce` / `realm` / `qop`, unterminated quotes, any bytes —
    `sasl_digest_md5` and `_handle_digestmd5_challenge` neither dereference NULL nor abort.
    (`jid` has a node: guaranteed by `_auth`, which only starts DIGEST-MD5 for such a JID.) -/
theorem digest_parse_no_crash (challenge : Option Bytes) (jid pw rnd node : Bytes) (hnode : Jid.node jid = some node) :
    (digestMd5 challenge jid pw rnd).safe = true ∧ (handleDigestChallenge challenge jid pw rnd).safe = true :=
  ⟨digestMd5_safe challenge jid pw rnd node hnode, handleDigest_safe challenge jid pw rnd node hnode⟩

/-- the refusals are clean NULLs: no challenge text, undecodable text, no nonce directive -/
theorem digest_refusals (jid pw rnd : Bytes) :
    digestMd5 none jid pw rnd = .ok none ∧
    (∀ msg, Base64.decodeStr msg = none → digestMd5 (some msg) jid pw rnd = .ok none) ∧
    (∀ msg text, Base64.decodeStr msg = some text → (parseChallenge text).get kNonce = none →
      digestMd5 (some msg) jid pw rnd = .ok none) := by
  refine ⟨rfl, fun msg h => ?_, fun msg text h hn => ?_⟩
  · simp [digestMd5, h]
  · simp [digestMd5, h, hn]

/-- the Boolean views used by the connection model agree with the handlers -/
theorem responds_specs :
    (∀ (text : Option Bytes) (jid pw rnd node : Bytes), Jid.node jid = some node →
      ((∃ r, handleDigestChallenge text jid pw rnd = .ok (.resp r)) ↔ digestResponds text = true)) ∧
    (∀ p ∈ scramAlgs, ∀ (init : ScramInit) (text : Option Bytes) (pw : Bytes),
      match handleScramChallenge p.1 init text pw with
      | .ok (.resp _) => scramResponds text = true
      | .ok .memerr => scramResponds text = false
      | .undef _ => True
      | _ => False) := by
  refine ⟨fun text jid pw rnd node h => digestResponds_spec text jid pw rnd node h, fun p hp init text pw => ?_⟩
  have R := scramAlgs_realize p hp
  exact scramResponds_spec p.1 (by rw [R.ds]; exact R.small) init text pw

/-! ### DIGEST-MD5 (RFC 2831) -/

/-- `digest_md5_eq_rfc2831`.  For every digest-challenge that is a list of RFC 2831 directives
    (any order, any number, quoted values with ANY bytes including `"` and `\`, unquoted token
    values) containing a nonce, every JID with a node and every password: the response is
    base64 of the digest-response with
      username = node, realm = the challenge's (last) non-empty realm, else the JID's domain,
      nonce echoed, cnonce = 12 hex digits of the 6 random bytes, nc = 00000001, qop = auth
      (whatever list of qop options the server offered), digest-uri = "xmpp/" domain,
      response = HEX(KD(HEX(H(A1)), nonce:nc:cnonce:qop:HEX(H(A2)))) of RFC 2831 §2.1.2.1 with H = MD5,
      charset echoed only if the challenge carried one,
    all quoted values written as RFC 2831 §7.2 quoted-strings. -/
theorem digest_md5_eq_rfc2831 (ds : List Rfc2831.Directive) (jid pw rnd node nonce : Bytes)
    (hds : ∀ d ∈ ds, DirOk d) (hnul : (0 : UInt8) ∉ Rfc2831.renderChallenge ds)
    (hnode : Jid.node jid = some node) (hnonce : Rfc2831.lastValue ds kNonce = some nonce)
    (h1 : node.length < 2 ^ 32) (h2 : (Jid.domain jid).length < 2 ^ 31) (h3 : pw.length < 2 ^ 32)
    (h4 : nonce.length < 2 ^ 32) (h6 : ∀ r, Rfc2831.lastValue ds kRealm = some r → r.length < 2 ^ 32) :
    let realm := chosenRealm (Rfc2831.lastValue ds kRealm) (Jid.domain jid)
    let cnonce := digestCnonce rnd
    let uri := Rfc2831.digestUri specServ (Jid.domain jid)
    digestMd5 (some (Base64.encode (Rfc2831.renderChallenge ds))) jid pw rnd =
      .ok (some (Base64.encode (Rfc2831.digestResponse node realm nonce cnonce specNc specQop uri
        (Rfc2831.responseValue node realm pw nonce cnonce specNc specQop uri)
        (Rfc2831.lastValue ds kCharset)))) :=
  digestMd5_eq_spec ds jid pw rnd node nonce hds hnul hnode hnonce h1 h2 h3 h4 h6

/-- the constants of that statement are the RFC's -/
theorem digest_constants : specNc = cs ['0', '0', '0', '0', '0', '0', '0', '1'] ∧ specQop = cs ['a', 'u', 't', 'h'] ∧
    specServ = cs ['x', 'm', 'p', 'p'] ∧ kNonce = cs ['n', 'o', 'n', 'c', 'e'] ∧ kRealm = cs ['r', 'e', 'a', 'l', 'm'] ∧
    kCharset = cs ['c', 'h', 'a', 'r', 's', 'e', 't'] := by decide

/-- the parser reads back every well-formed directive list (quoted-pairs included) -/
theorem digest_parse_render (ds : List Rfc2831.Directive) (hds : ∀ d ∈ ds, DirOk d) (k : Bytes) :
    (parseChallenge (Rfc2831.renderChallenge ds)).get k = Rfc2831.lastValue ds k := by
  rw [parseChallenge_render ds hds, get_foldl_add]
  cases Rfc2831.lastValue ds k <;> simp [Table.get]

/-! ### PLAIN (RFC 4616), component handshake (XEP-0114), legacy auth (XEP-0078), EXTERNAL / ANONYMOUS -/

/-- `plain_eq_rfc4616`: base64(NUL authcid NUL passwd), no authzid; and the server's view of it -/
theorem plain_eq_rfc4616 (authid pw : Bytes) :
    saslPlain authid pw = Rfc4616.initialResponse none authid pw ∧
    saslPlain authid pw = Rfc4648.encode ([0] ++ authid ++ [0] ++ pw) ∧
    ((0 : UInt8) ∉ authid → (0 : UInt8) ∉ pw →
      Rfc4616.parse (Rfc4616.message none authid pw) = some ([], authid, pw)) := by
  refine ⟨?_, ?_, fun ha hp => ?_⟩
  · simp [saslPlain, Rfc4616.initialResponse, Rfc4616.message, Rfc4616.UTF8NUL, Lemmas.Base64.encode_eq_rfc4648]
  · simp [saslPlain, Lemmas.Base64.encode_eq_rfc4648]
  · have tw : ∀ (l r : Bytes), (0 : UInt8) ∉ l → (l ++ 0 :: r).takeWhile (· != Rfc4616.UTF8NUL) = l := by
      intro l r hl
      induction l with
      | nil => simp [Rfc4616.UTF8NUL]
      | cons a l ih =>
        have ha0 : a ≠ 0 := fun e => hl (by simp [e])
        have : (a != Rfc4616.UTF8NUL) = true := by simpa [Rfc4616.UTF8NUL] using ha0
        simp only [List.cons_append, List.takeWhile_cons, this, if_true]
        rw [ih (fun h => hl (by simp [h]))]
    unfold Rfc4616.parse Rfc4616.message
    simp only [Option.getD_none, List.nil_append, List.singleton_append, Rfc4616.UTF8NUL, List.cons_append]
    simp only [List.takeWhile_cons, bne_self_eq_false, Bool.false_eq_true, if_false, List.length_nil, List.drop_zero]
    have := tw authid pw ha
    simp only [Rfc4616.UTF8NUL] at this
    rw [List.append_assoc, List.singleton_append, this, List.drop_left]
    simp [hp]

/-- `handshake_eq_xep0114`: hex(SHA1(stream-id ‖ secret)) in `<handshake xmlns='jabber:component:accept'>` -/
theorem handshake_eq_xep0114 (streamId secret : Bytes) :
    componentHandshake (some streamId) secret =
      .ok (cs ['<','h','a','n','d','s','h','a','k','e',' ','x','m','l','n','s','=','\''] ++
           cs ['j','a','b','b','e','r',':','c','o','m','p','o','n','e','n','t',':','a','c','c','e','p','t'] ++
           cs ['\'','>'] ++ Spec.Hash.hexLower (Spec.Hash.sha1 (streamId ++ secret)) ++
           cs ['<','/','h','a','n','d','s','h','a','k','e','>']) ∧
    componentHandshake none secret = .error (-3) := by
  refine ⟨?_, rfl⟩
  unfold componentHandshake
  have hs : Sha1.final (Sha1.update (Sha1.update Sha1.init streamId) secret) = Spec.Hash.sha1 (streamId ++ secret) := by
    have := sha1_stream [streamId, secret]
    simpa using this
  simp only [hs, digestToHex_eq]
  have hp := pin_names
  rw [hp.2.2.2.2, hp.1]
  rfl

/-- `legacy_fields`: jabber:iq:auth carries node, password and resource; without a resource
    nothing is sent (disconnect) -/
theorem legacy_fields (jid pw node res : Bytes) (hn : Jid.node jid = some node) :
    (Jid.resource jid = some res →
      legacyAuth jid pw = .iq (cs ['s','e','t']) (cs ['_','x','m','p','p','_','a','u','t','h','1'])
        (cs ['j','a','b','b','e','r',':','i','q',':','a','u','t','h']) node pw res) ∧
    (Jid.resource jid = none → legacyAuth jid pw = .disc) := by
  have hp := pin_names
  refine ⟨fun hr => ?_, fun hr => ?_⟩
  · simp [legacyAuth, hn, hr, hp.2.1, hp.2.2.1, hp.2.2.2.1]
  · simp [legacyAuth, hn, hr]

/-- `anonymous_empty` / `external_identity` / PLAIN identity in `_auth`:
    ANONYMOUS carries no data; EXTERNAL carries "=" when the certificate has no xmppAddr or
    exactly one that equals the JID, else base64(JID) as authorization identity; PLAIN carries
    base64(NUL node NUL password) -/
theorem first_auth_identity (mask : Nat) (legacy : Bool) (jid : Bytes) (pw : Option Bytes) (n : Nat) (x0 : Option Bytes) :
    ((Jid.node jid = none ∧ mask / 4 % 2 = 1) →
      (authFirst mask legacy jid pw n x0).1 = .mech mechAnonymous none) ∧
    ((¬ (Jid.node jid = none ∧ mask / 4 % 2 = 1) ∧ mask / 64 % 2 = 1) →
      (authFirst mask legacy jid pw n x0).1 = .mech mechExternal (some
        (if n = 0 ∨ x0 = none ∨ (n = 1 ∧ x0 = some jid) then [eq_] else Base64.encode jid))) ∧
    (∀ node p, Jid.node jid = some node → pw = some p → mask / 64 % 2 = 0 → mask % 2 = 1 →
      (authFirst mask legacy jid pw n x0).1 = .mech mechPlain (some (saslPlain node p))) := by
  have e1 : Gen.saslMaskAnonymous = 4 := rfl
  have e2 : Gen.saslMaskExternal = 64 := rfl
  have e3 : Gen.saslMaskPlain = 1 := rfl
  refine ⟨fun ⟨h1, h2⟩ => ?_, fun ⟨h1, h2⟩ => ?_, fun node p hn hp h64 h1 => ?_⟩
  · simp [authFirst, h1, e1, h2]
  · have hc : ((Jid.node jid).isNone && (mask / 4 % 2 == 1)) = false := by
      cases hj : Jid.node jid with
      | none => simp [hj] at h1 ⊢; exact h1
      | some v => simp
    simp only [authFirst, e1, e2, hc, Bool.false_eq_true, if_false, h2, beq_self_eq_true, if_true]
    cases x0 with
    | none => by_cases hn0 : n ≥ 1 <;> simp [hn0]
    | some a =>
      by_cases hn0 : n ≥ 1
      · by_cases hn1 : n = 1
        · subst hn1; by_cases ha : a = jid <;> simp [ha]
        · have : ¬ n = 0 := by omega
          simp [hn0, hn1, this]
      · have : n = 0 := by omega
        simp [this]
  · simp [authFirst, hn, hp, e1, e2, e3, h64, h1, Nat.div_one]

/-! ### the client nonce is a faithful rendering of the random bytes -/

/-- 16 random bytes ↦ 32 upper-case hex digits, injectively: two attempts have the same SCRAM
    client nonce only if the random source delivered the same 16 bytes (likewise the 6 bytes of the
    DIGEST-MD5 cnonce).  Freshness of the random bytes themselves is an assumption checked
    empirically (see the header). -/
theorem nonce_injective (a b : Bytes) (ha : a.length = b.length) (h : hexUpper a = hexUpper b) : a = b := by
  have key : ∀ x y : Fin 256, hexUpper [UInt8.ofNat x.val] = hexUpper [UInt8.ofNat y.val] → x = y := by
    decide +kernel
  induction a generalizing b with
  | nil => cases b <;> simp_all
  | cons x a ih =>
    cases b with
    | nil => simp at ha
    | cons y b =>
      have hx : hexUpper (x :: a) = hexUpper [x] ++ hexUpper a := by simp [hexUpper]
      have hy : hexUpper (y :: b) = hexUpper [y] ++ hexUpper b := by simp [hexUpper]
      rw [hx, hy] at h
      have hl : (hexUpper [x]).length = (hexUpper [y]).length := by simp [hexUpper]
      have := List.append_inj h hl
      have hxy := key ⟨x.toNat, x.toNat_lt⟩ ⟨y.toNat, y.toNat_lt⟩ (by simpa using this.1)
      have : x = y := by
        have := congrArg Fin.val hxy
        simp at this
        exact UInt8.toNat_inj.mp this
      subst this
      rw [ih b (by simpa using ha) ‹_ ∧ _›.2]

theorem nonce_shape (rnd : Bytes) :
    randNonce Gen.Sasl.scramNonceLen rnd = some (scramNonce rnd) ∧ (scramNonce rnd).length = 32 ∧
    randNonce Gen.Sasl.digestCnonceBuf rnd = some (digestCnonce rnd) ∧ (digestCnonce rnd).length = 12 :=
  ⟨randNonce_scram rnd, by simp [scramNonce, hexUpper_length, randBytes_length],
   randNonce_digest rnd, by simp [digestCnonce, hexUpper_length, randBytes_length]⟩

/-! ### non-vacuity, test vectors and the witnesses of the repaired defects (kernel-evaluated) -/

private def str (s : String) : Bytes := cs s.toList
private def hx (s : String) : Bytes := (Hex.toBytes s).getD []

/-- PBKDF2-HMAC-SHA1("pw", "salt", 2) and PBKDF2-HMAC-SHA256("pw", "salt", 1) (Python hashlib) -/
example : hi algSha1 (str "pw") (str "salt") 2 = .ok (hx "133a0b823b029801576d5a38793387e88064dd5f") := by
  decide +kernel
example : hi algSha256 (str "pw") (str "salt") 1 =
    .ok (hx "6f4ad8c78ec365c060e648eb694ee40dea58484b0371fbd61715ac4410b7380a") := by decide +kernel
/-- the specification evaluates to the same value -/
example : Rfc5802.Hi Rfc5802.sha1Fn (str "pw") (str "salt") 2 = hx "133a0b823b029801576d5a38793387e88064dd5f" := by
  decide +kernel

/-- the message grammar: a server-first-message and the hypotheses of `scram_proof_verifies` -/
example : Rfc5802.serverFirstMessage (str "abcXYZ") [1, 2, 3] 1 = str "r=abcXYZ,s=AQID,i=1" := by decide +kernel
example : Rfc5802.serverFirstMessage (str "n") [1, 2, 3] 4096 [str "m=ext"] = str "r=n,s=AQID,i=4096,m=ext" := by
  decide +kernel
example : (∀ c ∈ str "abcXYZ", c ≠ comma) ∧ ([1, 2, 3] : Bytes) ≠ [] ∧ ExtOk (str "m=ext") := by
  unfold ExtOk; decide
/-- a complete client-final (password "pencil", salt 01 02 03, i = 1; value from the Python server) -/
example : scramFinal algSha1 (str "biws") (str "r=abcXYZ,s=AQID,i=1") (str "n=user,r=abc") (str "pencil") =
    .ok (some (str "Yz1iaXdzLHI9YWJjWFlaLHA9eUtyNFBqak1ROG1TRU5HUU1LQmk2VVZrWGF3PQ==")) := by decide +kernel
/-- … and the RFC server accepts exactly that proof -/
example : Rfc5802.serverVerify Rfc5802.sha1Fn (Rfc5802.storedKeyOf Rfc5802.sha1Fn (str "pencil") [1, 2, 3] 1)
    (str "n=user,r=abc,r=abcXYZ,s=AQID,i=1,c=biws,r=abcXYZ")
    ((Base64.decodeBin (str "yKr4PjjMQ8mSENGQMKBi6UVkXaw=")).map (·.1) |>.getD []) = true := by decide +kernel
/-- … and rejects it for another password -/
example : Rfc5802.serverVerify Rfc5802.sha1Fn (Rfc5802.storedKeyOf Rfc5802.sha1Fn (str "Pencil") [1, 2, 3] 1)
    (str "n=user,r=abc,r=abcXYZ,s=AQID,i=1,c=biws,r=abcXYZ")
    ((Base64.decodeBin (str "yKr4PjjMQ8mSENGQMKBi6UVkXaw=")).map (·.1) |>.getD []) = false := by decide +kernel

/-- D14 (fixed by 1d69871): the node "a,b=c" travels as n=a=2Cb=3Dc; gs2 header "n,,", c= "biws" -/
example : scramInit false false ⟨none, none⟩ (str "a,b=c@example.org") (hx "000102030405060708090a0b0c0d0e0f") =
    some ⟨str "n,,n=a=2Cb=3Dc,r=000102030405060708090A0B0C0D0E0F", str "biws", 3⟩ := by decide +kernel
/-- -PLUS over TLS: p=tls-exporter and the 32 bytes of binding data in the c= field -/
example : (scramInit true true ⟨some (str "tls-exporter"), some (List.replicate 32 7)⟩ (str "u@d") []).map (·.message) =
    some (str "p=tls-exporter,,n=u,r=00000000000000000000000000000000") := by decide +kernel
/-- binding data that does not fit the 56-byte buffer, or -PLUS without TLS: refused -/
example : scramInit true true ⟨some (str "tls-exporter"), some (List.replicate 41 7)⟩ (str "u@d") [] = none ∧
    scramInit true false ⟨some (str "tls-unique"), some (List.replicate 12 7)⟩ (str "u@d") [] = none := by
  decide +kernel

/-- D4 (fixed by 61739ad): a 125-byte salt is computed, not aborted on -/
example : hi algSha1 (str "pw") (List.replicate 125 97) 1 = .ok (hx "fb919a7696ea787153894e04b73dfba1e73257a6") := by
  decide +kernel
/-- `i` = 0, non-numeric and wrapped iteration counts are defined outcomes of the parser -/
example : strtol (str "4096") = 4096 ∧ strtol (str " +7x") = 7 ∧ strtol (str "abc") = 0 ∧ strtol [] = 0 ∧
    toU32 (strtol (str "4294967297")) = 1 ∧ toU32 (strtol (str "-4294967295")) = 1 := by decide +kernel
example : (scramFinal algSha1 (str "biws") (str "r=abc,s=QUJD,i=0") (str "n=u,r=a") (str "pw")).isOk = true ∧
    scramFinal algSha1 (str "biws") (str "r=abc,s=QUJD") (str "n=u,r=a") (str "pw") = .ok none ∧
    scramFinal algSha1 (str "biws") (str "r=abc,s=!!!!,i=1") (str "n=u,r=a") (str "pw") = .ok none := by
  decide +kernel

/-- the DIGEST-MD5 vector of tests/test_sasl.c (cnonce bytes 00 DE AD BE EF 00) -/
example : digestMd5 (some (str ("cmVhbG09InNvbWVyZWFsbSIsbm9uY2U9Ik9BNk1HOXRFUUdtMmhoIixxb3A9ImF1dGgi" ++
      "LGNoYXJzZXQ9dXRmLTgsYWxnb3JpdGhtPW1kNS1zZXNzCg=="))) (str "somenode@somerealm") (str "secret")
      (hx "00deadbeef00") =
    .ok (some (str ("dXNlcm5hbWU9InNvbWVub2RlIixyZWFsbT0ic29tZXJlYWxtIixub25jZT0i" ++
      "T0E2TUc5dEVRR20yaGgiLGNub25jZT0iMDBERUFEQkVFRjAwIixuYz0wMDAw" ++
      "MDAwMSxxb3A9YXV0aCxkaWdlc3QtdXJpPSJ4bXBwL3NvbWVyZWFsbSIscmVz" ++
      "cG9uc2U9NGVhNmU4N2JjMDkzMzUwNzQzZGIyOGQ3MDIwOGNhZmIsY2hhcnNl" ++
      "dD11dGYtOA=="))) := by decide +kernel
/-- D3 (fixed by 69bedf1): `realm="x",qop="auth"` has no nonce: NULL, not a NULL dereference;
    D2 (fixed by 26900de): no challenge text at all -/
example : digestMd5 (some (str "cmVhbG09IngiLHFvcD0iYXV0aCI=")) (str "u@example.org") (str "pw") (hx "00deadbeef00") = .ok none ∧
    digestMd5 none (str "u@example.org") (str "pw") [] = .ok none ∧
    handleDigestChallenge (some []) (str "u@example.org") (str "pw") [] = .ok .memerr := by decide +kernel
/-- qop list (554713d), no charset (6a95a25), quoted-pairs in nonce and user name (8218356):
    challenge `nonce="a\"b\\c",qop="auth,auth-int"` for the XEP-0106 node `d\27art` -/
example : digestMd5 (some (str "bm9uY2U9ImFcImJcXGMiLHFvcD0iYXV0aCxhdXRoLWludCI=")) (str "d\\27art@example.org") (str "pw") (hx "00deadbeef00") =
    .ok (some (str "dXNlcm5hbWU9ImRcXDI3YXJ0IixyZWFsbT0iZXhhbXBsZS5vcmciLG5vbmNlPSJhXCJiXFxjIixjbm9uY2U9IjAwREVBREJFRUYwMCIsbmM9MDAwMDAwMDEscW9wPWF1dGgsZGlnZXN0LXVyaT0ieG1wcC9leGFtcGxlLm9yZyIscmVzcG9uc2U9NjAzYWRhYzZmNzE1N2I4MzM4ODEyMDExNjI0YzMxYzc=")) := by decide +kernel
/-- a directive list meeting the hypotheses of `digest_md5_eq_rfc2831` -/
example : DirOk ⟨str "nonce", str "a\"b\\c", true⟩ ∧ DirOk ⟨str "charset", str "utf-8", false⟩ ∧
    Rfc2831.renderChallenge [⟨str "nonce", str "a\"b", true⟩, ⟨str "charset", str "utf-8", false⟩] =
      str "nonce=\"a\\\"b\",charset=utf-8" ∧
    Rfc2831.lastValue [⟨str "realm", str "r1", true⟩, ⟨str "realm", str "r2", true⟩] kRealm = some (str "r2") := by
  unfold DirOk KeyOk BareOk; decide +kernel

/-- PLAIN vector of tests/test_sasl.c; XEP-0114 handshake; legacy fields; EXTERNAL / ANONYMOUS -/
example : saslPlain (str "foo@bar.com") (str "secret") = str "AGZvb0BiYXIuY29tAHNlY3JldA==" := by decide +kernel
example : (componentHandshake (some (str "streamid")) (str "secret")).toOption =
    some (str "<handshake xmlns='jabber:component:accept'>24e16e3c839f37e724fe5b709b717efe1d38e2ae</handshake>") := by
  decide +kernel
example : legacyAuth (str "user@example.org/res") (str "p<w") =
    .iq (str "set") (str "_xmpp_auth1") (str "jabber:iq:auth") (str "user") (str "p<w") (str "res") ∧
    legacyAuth (str "user@example.org") (str "pw") = .disc := by decide +kernel
example : authFirst 4 false (str "example.org") none 0 none = (.mech mechAnonymous none, 0) ∧
    authFirst 64 false (str "u@d") none 1 (some (str "u@d")) = (.mech mechExternal (some (str "=")), 0) ∧
    authFirst 64 false (str "u@d") none 2 (some (str "u@d")) = (.mech mechExternal (some (str "dUBk")), 0) ∧
    authFirst 1 false (str "u@d") (some (str "pw")) 0 none = (.mech mechPlain (some (str "AHUAcHc=")), 0) := by
  decide +kernel
/-- nonce rendering: `xmpp_rand_nonce(buf, 13)` on the bytes 00 DE AD BE EF 00 -/
example : randNonce 13 (hx "00deadbeef00") = some (str "00DEADBEEF00") ∧ randNonce 0 [1] = none ∧
    randNonce 1 [1] = some [] ∧ randNonce 2 [0xab] = some (str "A") := by decide +kernel

end Strophe.C07
