/-
Helper lemmas and the proofs behind Props/C06.lean.
-/
import Strophe.Model.SendQueue
namespace Strophe.Lemmas.SendQueue
open Strophe Strophe.SendQueue

theorem sendRaw_eq (s : St) (o : Owner) (d : Bytes) :
    sendRaw s o d = sendRawCore s (adjustOwner s o) d := rfl

/-- number of USER elements -/
def userCount (q : List Elem) : Nat := (q.filter fun e => e.owner = .user).length
/-- number of USER elements the write loop has not touched yet -/
def notStarted (q : List Elem) : Nat := (q.filter fun e => e.owner = .user && !e.wip).length

/-- the structural invariant of the native queue (the last three fields were added to make it
    inductive: a link points to an older element, only library `<r/>` elements carry a link, and
    an element the write loop has not touched has nothing written) -/
structure Inv (s : St) : Prop where
  len_eq : s.len = s.queue.length
  userLen_eq : s.userLen = userCount s.queue
  written_le : ∀ e ∈ s.queue, e.written ≤ e.data.length
  tail_fresh : ∀ e ∈ s.queue.tail, e.written = 0 ∧ e.wip = false
  uids_lt : ∀ e ∈ s.queue, e.uid < s.nextUid
  uids_nodup : (s.queue.map (·.uid)).Nodup
  link_prev : ∀ i e, s.queue[i]? = some e → ∀ u, e.link = some u →
      (∀ j e', s.queue[j]? = some e' → e'.uid = u → j + 1 = i)
  link_lt : ∀ e ∈ s.queue, ∀ u, e.link = some u → u < e.uid
  link_owner : ∀ e ∈ s.queue, ∀ u, e.link = some u → e.owner = .smStrophe
  fresh_written : ∀ e ∈ s.queue, e.wip = false → e.written = 0

theorem inv_init : Inv ({} : St) := by
  constructor <;> simp [userCount]

theorem Inv.of_eq {s s' : St} (h : Inv s) (hq : s'.queue = s.queue) (hl : s'.len = s.len)
    (hu : s'.userLen = s.userLen) (hn : s'.nextUid = s.nextUid) : Inv s' := by
  obtain ⟨h1, h2, h3, h4, h5, h6, h7, h8, h9, h10⟩ := h
  constructor <;> simp only [hq, hl, hu, hn] <;> assumption

theorem idx_unique {q : List Elem} (h : (q.map (·.uid)).Nodup) {j k : Nat} {a b : Elem}
    (ha : q[j]? = some a) (hb : q[k]? = some b) (hab : a.uid = b.uid) : j = k := by
  have hj : j < (q.map (·.uid)).length := by
    have := (List.getElem?_eq_some_iff.1 ha).1; simpa using this
  apply (List.getElem?_inj hj h).1
  simp [List.getElem?_map, ha, hb, hab]

theorem mem_tail_of_mem_tail_append {α} (pre : List α) (e : α) (tl : List α) (x : α) (h : x ∈ tl) :
    x ∈ (pre ++ e :: tl).tail := by
  cases pre with
  | nil => simpa using h
  | cons a p => simp [h]

theorem userCount_append (a b : List Elem) : userCount (a ++ b) = userCount a + userCount b := by
  simp [userCount]

theorem push_inv (s : St) (o : Owner) (d : Bytes) (l : Option Nat) (h : Inv s)
    (hl : ∀ u, l = some u → o = .smStrophe ∧ ∃ pre e, s.queue = pre ++ [e] ∧ e.uid = u) :
    Inv (push s o d l) := by
  obtain ⟨h1, h2, h3, h4, h5, h6, h7, h8, h9, h10⟩ := h
  constructor
  · simp [push, h1]
  · simp only [push, userCount_append, h2]
    by_cases ho : o = .user <;> simp [userCount, ho]
  · simp only [push, List.mem_append, List.mem_singleton]
    rintro e (he | rfl)
    · exact h3 e he
    · simp
  · simp only [push]
    intro e he
    cases hq : s.queue with
    | nil => simp [hq] at he
    | cons a tl =>
      simp only [hq, List.cons_append, List.tail_cons, List.mem_append, List.mem_singleton] at he
      rcases he with he | rfl
      · exact h4 e (by simp [hq, he])
      · simp
  · simp only [push, List.mem_append, List.mem_singleton]
    rintro e (he | rfl)
    · have := h5 e he; omega
    · simp
  · simp only [push, List.map_append, List.map_cons, List.map_nil]
    rw [List.nodup_append]
    refine ⟨h6, by simp, ?_⟩
    intro a ha b hb
    simp only [List.mem_map] at ha
    obtain ⟨e, he, rfl⟩ := ha
    simp only [List.mem_singleton] at hb
    have := h5 e he
    omega
  · simp only [push]
    intro i e hi u hu j e' hj hju
    rw [List.getElem?_append] at hi hj
    split at hi
    · -- old element
      have he : e ∈ s.queue := List.mem_of_getElem? hi
      split at hj
      · exact h7 i e hi u hu j e' hj hju
      · simp only [List.getElem?_singleton] at hj
        split at hj
        · simp at hj; subst hj
          simp at hju
          have := h8 e he u hu
          have := h5 e he
          omega
        · simp at hj
    · simp only [List.getElem?_singleton] at hi
      split at hi
      · simp at hi; subst hi
        simp at hu
        obtain ⟨_, pre, e0, hq, hu0⟩ := hl u hu
        split at hj
        · have h0 : s.queue[pre.length]? = some e0 := by simp [hq]
          have := idx_unique h6 hj h0 (by omega)
          have hlen : s.queue.length = pre.length + 1 := by simp [hq]
          omega
        · simp only [List.getElem?_singleton] at hj
          split at hj
          · simp at hj; subst hj; simp at hju
            have : e0 ∈ s.queue := by simp [hq]
            have := h5 e0 this
            omega
          · simp at hj
      · simp at hi
  · simp only [push, List.mem_append, List.mem_singleton]
    rintro e (he | rfl) u hu
    · exact h8 e he u hu
    · simp at hu
      obtain ⟨_, pre, e0, hq, hu0⟩ := hl u hu
      have : e0 ∈ s.queue := by simp [hq]
      have := h5 e0 this
      simp; omega
  · simp only [push, List.mem_append, List.mem_singleton]
    rintro e (he | rfl) u hu
    · exact h9 e he u hu
    · simp at hu
      exact (hl u hu).1
  · simp only [push, List.mem_append, List.mem_singleton]
    rintro e (he | rfl) hw
    · exact h10 e he hw
    · rfl

theorem sendRaw_inv (s : St) (o : Owner) (d : Bytes) (h : Inv s) : Inv (sendRawCore s o d) := by
  unfold sendRawCore
  split
  · exact h
  · dsimp only
    have h1 : Inv (push s o d none) := push_inv s o d none h (by simp)
    split
    · apply push_inv
      · exact h1.of_eq rfl rfl rfl rfl
      · intro u hu
        simp at hu
        subst hu
        exact ⟨rfl, s.queue, _, rfl, rfl⟩
    · exact h1


theorem userCount_eraseIdx (q : List Elem) (i : Nat) (e : Elem) (h : q[i]? = some e) :
    userCount (q.eraseIdx i) + (if e.owner = .user then 1 else 0) = userCount q := by
  induction q generalizing i with
  | nil => simp at h
  | cons a tl ih =>
    cases i with
    | zero =>
      simp at h; subst h
      by_cases ho : a.owner = .user <;> simp [userCount, ho]
    | succ i =>
      simp at h
      have := ih i h
      by_cases ho : a.owner = .user <;> simp [userCount, ho] at this ⊢ <;> omega

theorem mem_tail_eraseIdx {α} (q : List α) (i : Nat) (x : α) (h : x ∈ (q.eraseIdx i).tail) :
    x ∈ q.tail := by
  cases q with
  | nil => simp at h
  | cons a tl =>
    cases i with
    | zero => simp at h; exact List.mem_of_mem_tail h
    | succ i => simp at h; exact List.mem_of_mem_eraseIdx h

theorem unlinkAt_inv (s : St) (i : Nat) (h : Inv s) : Inv (unlinkAt s i) := by
  unfold unlinkAt
  split
  · exact h
  · rename_i e he
    obtain ⟨h1, h2, h3, h4, h5, h6, h7, h8, h9, h10⟩ := h
    have hi : i < s.queue.length := (List.getElem?_eq_some_iff.1 he).1
    constructor
    · simp only [List.length_eraseIdx, hi, if_true, h1]; omega
    · have := userCount_eraseIdx s.queue i e he
      simp only [h2]
      split <;> simp_all <;> omega
    · intro x hx; exact h3 x (List.mem_of_mem_eraseIdx hx)
    · intro x hx; exact h4 x (mem_tail_eraseIdx _ _ _ hx)
    · intro x hx; exact h5 x (List.mem_of_mem_eraseIdx hx)
    · simp only
      exact h6.sublist ((List.eraseIdx_sublist _ _).map _)
    · simp only [List.getElem?_eraseIdx]
      intro a x ha u hu b y hb hyu
      split at ha <;> split at hb
      · exact h7 _ _ ha u hu _ _ hb hyu
      · have := h7 _ _ ha u hu _ _ hb hyu; omega
      · have := h7 _ _ ha u hu _ _ hb hyu; omega
      · have := h7 _ _ ha u hu _ _ hb hyu; omega
    · intro x hx; exact h8 x (List.mem_of_mem_eraseIdx hx)
    · intro x hx; exact h9 x (List.mem_of_mem_eraseIdx hx)
    · intro x hx; exact h10 x (List.mem_of_mem_eraseIdx hx)

/-- shape of the write loop's result -/
theorem writeLoop_shape (q : List Elem) (sched : List Accept) :
    ∃ pre suf, q = pre ++ suf ∧
      (writeLoop q sched).done = pre.map (fun e => { e with wip := true }) ∧
      ((suf = [] ∧ (writeLoop q sched).rest = []) ∨
       ∃ e tl w, suf = e :: tl ∧
          (writeLoop q sched).rest = { e with written := w, wip := true } :: tl ∧
          e.written ≤ w ∧ (e.written ≤ e.data.length → w ≤ e.data.length)) := by
  induction q generalizing sched with
  | nil => exact ⟨[], [], rfl, rfl, Or.inl ⟨rfl, rfl⟩⟩
  | cons e q ih =>
    unfold writeLoop
    dsimp only
    split
    · exact ⟨[], e :: q, rfl, rfl, Or.inr ⟨e, q, e.written, rfl, rfl, Nat.le_refl _, id⟩⟩
    · exact ⟨[], e :: q, rfl, rfl, Or.inr ⟨e, q, e.written, rfl, rfl, Nat.le_refl _, id⟩⟩
    · obtain ⟨pre, suf, h1, h2, h3⟩ := ih sched.tail
      exact ⟨e :: pre, suf, by simp [h1], by simp [h2], h3⟩
    · split
      · obtain ⟨pre, suf, h1, h2, h3⟩ := ih sched.tail
        exact ⟨e :: pre, suf, by simp [h1], by simp [h2], h3⟩
      · rename_i n _ hn
        exact ⟨[], e :: q, rfl, rfl, Or.inr ⟨e, q, e.written + n, rfl, rfl, by omega, by omega⟩⟩

theorem retire_queue (s : St) (e) : (retire s e).queue = s.queue := by
  unfold retire; dsimp only; split <;> rfl
theorem retire_nextUid (s : St) (e) : (retire s e).nextUid = s.nextUid := by
  unfold retire; dsimp only; split <;> rfl
theorem retire_len (s : St) (e) : (retire s e).len = s.len - 1 := by
  unfold retire; dsimp only; split <;> rfl
theorem retire_userLen (s : St) (e) :
    (retire s e).userLen = s.userLen - (if e.owner = .user then 1 else 0) := by
  unfold retire; dsimp only
  cases ho : e.owner <;> split <;> simp [Owner.userBit]
theorem retire_connected (s : St) (e) : (retire s e).connected = s.connected := by
  unfold retire; dsimp only; split <;> rfl

theorem foldl_retire_queue (l : List Elem) (s : St) : (l.foldl retire s).queue = s.queue := by
  induction l generalizing s with
  | nil => rfl
  | cons a l ih => simp [ih, retire_queue]
theorem foldl_retire_nextUid (l : List Elem) (s : St) :
    (l.foldl retire s).nextUid = s.nextUid := by
  induction l generalizing s with
  | nil => rfl
  | cons a l ih => simp [ih, retire_nextUid]
theorem foldl_retire_connected (l : List Elem) (s : St) :
    (l.foldl retire s).connected = s.connected := by
  induction l generalizing s with
  | nil => rfl
  | cons a l ih => simp [ih, retire_connected]
theorem foldl_retire_len (l : List Elem) (s : St) :
    (l.foldl retire s).len = s.len - l.length := by
  induction l generalizing s with
  | nil => simp
  | cons a l ih => simp [ih, retire_len]; omega
theorem foldl_retire_userLen (l : List Elem) (s : St) :
    (l.foldl retire s).userLen = s.userLen - userCount l := by
  induction l generalizing s with
  | nil => simp [userCount]
  | cons a l ih =>
    simp only [List.foldl_cons, ih, retire_userLen]
    by_cases ho : a.owner = .user <;> simp [userCount, ho] <;> omega

theorem userCount_map_wip (l : List Elem) :
    userCount (l.map fun e => { e with wip := true }) = userCount l := by
  induction l with
  | nil => rfl
  | cons a l ih =>
    simp only [userCount, List.map_cons, List.filter_cons] at ih ⊢
    by_cases ho : a.owner = .user <;> simp [ho, ih]

theorem runOnce_queue_inv (s : St) (sched : List Accept) (h : Inv s) :
    Inv ((writeLoop s.queue sched).done.foldl retire
      { s with queue := (writeLoop s.queue sched).rest }) := by
  obtain ⟨pre, suf, hq, hdone, hrest⟩ := writeLoop_shape s.queue sched
  generalize writeLoop s.queue sched = R at hdone hrest ⊢
  obtain ⟨h1, h2, h3, h4, h5, h6, h7, h8, h9, h10⟩ := h
  have hmem : ∀ x ∈ suf, x ∈ s.queue := by intro x hx; simp [hq, hx]
  constructor
  · rw [foldl_retire_len, foldl_retire_queue, hdone]
    simp only [h1, hq, List.length_append, List.length_map]
    rcases hrest with ⟨rfl, hr⟩ | ⟨e, tl, w, rfl, hr, _⟩ <;> simp [hr] <;> omega
  · rw [foldl_retire_userLen, foldl_retire_queue, hdone, userCount_map_wip]
    simp only [h2, hq, userCount_append]
    rcases hrest with ⟨rfl, hr⟩ | ⟨e, tl, w, rfl, hr, _⟩
    · simp [hr, userCount]
    · simp only [hr]
      have : userCount ({ e with written := w, wip := true } :: tl) = userCount (e :: tl) := by
        by_cases ho : e.owner = .user <;> simp [userCount, ho]
      rw [this]; omega
  · rw [foldl_retire_queue]
    rcases hrest with ⟨rfl, hr⟩ | ⟨e, tl, w, rfl, hr, hw1, hw2⟩
    · simp [hr]
    · simp only [hr, List.mem_cons]
      rintro x (rfl | hx)
      · exact hw2 (h3 e (hmem e (by simp)))
      · exact h3 x (hmem x (by simp [hx]))
  · rw [foldl_retire_queue]
    rcases hrest with ⟨rfl, hr⟩ | ⟨e, tl, w, rfl, hr, hw1, hw2⟩
    · simp [hr]
    · simp only [hr, List.tail_cons]
      intro x hx
      exact h4 x (by rw [hq]; exact mem_tail_of_mem_tail_append _ _ _ _ hx)
  · rw [foldl_retire_queue, foldl_retire_nextUid]
    rcases hrest with ⟨rfl, hr⟩ | ⟨e, tl, w, rfl, hr, hw1, hw2⟩
    · simp [hr]
    · simp only [hr, List.mem_cons]
      rintro x (rfl | hx)
      · exact h5 e (hmem e (by simp))
      · exact h5 x (hmem x (by simp [hx]))
  · rw [foldl_retire_queue]
    rcases hrest with ⟨rfl, hr⟩ | ⟨e, tl, w, rfl, hr, hw1, hw2⟩
    · simp [hr]
    · simp only [hr]
      rw [hq, List.map_append, List.nodup_append] at h6
      exact h6.2.1
  · rw [foldl_retire_queue]
    rcases hrest with ⟨rfl, hr⟩ | ⟨e, tl, w, rfl, hr, hw1, hw2⟩
    · simp [hr]
    · simp only [hr]
      intro a x ha u hu b y hb hyu
      -- transfer to indices in the old queue
      have key : ∀ (c : Nat) (z : Elem),
          ({ e with written := w, wip := true } :: tl)[c]? = some z →
          ∃ z', s.queue[pre.length + c]? = some z' ∧ z'.uid = z.uid ∧ z'.link = z.link := by
        intro c z hc
        cases c with
        | zero => simp at hc; subst hc; exact ⟨e, by simp [hq], rfl, rfl⟩
        | succ c =>
          simp at hc
          refine ⟨z, ?_, rfl, rfl⟩
          rw [hq, List.getElem?_append_right (by omega)]
          simp [hc]
      obtain ⟨x', hx1, hx2, hx3⟩ := key a x ha
      obtain ⟨y', hy1, hy2, hy3⟩ := key b y hb
      have := h7 _ _ hx1 u (by rw [hx3]; exact hu) _ _ hy1 (by rw [hy2]; exact hyu)
      omega
  · rw [foldl_retire_queue]
    rcases hrest with ⟨rfl, hr⟩ | ⟨e, tl, w, rfl, hr, hw1, hw2⟩
    · simp [hr]
    · simp only [hr, List.mem_cons]
      rintro x (rfl | hx)
      · exact h8 e (hmem e (by simp))
      · exact h8 x (hmem x (by simp [hx]))
  · rw [foldl_retire_queue]
    rcases hrest with ⟨rfl, hr⟩ | ⟨e, tl, w, rfl, hr, hw1, hw2⟩
    · simp [hr]
    · simp only [hr, List.mem_cons]
      rintro x (rfl | hx)
      · exact h9 e (hmem e (by simp))
      · exact h9 x (hmem x (by simp [hx]))
  · rw [foldl_retire_queue]
    rcases hrest with ⟨rfl, hr⟩ | ⟨e, tl, w, rfl, hr, hw1, hw2⟩
    · simp [hr]
    · simp only [hr, List.mem_cons]
      rintro x (rfl | hx)
      · simp
      · exact h10 x (hmem x (by simp [hx]))

theorem runOnce_inv (s : St) (sched : List Accept) (h : Inv s) : Inv (runOnce s sched).1 := by
  unfold runOnce
  split
  · exact h
  · dsimp only
    have := runOnce_queue_inv s sched h
    split
    · exact this.of_eq rfl rfl rfl rfl
    · exact this


/-- the state after removing a linked `<r/>` (if any) behind index `t` -/
def dropS1 (s : St) (t : Nat) (e : Elem) : St :=
  match s.queue[t + 1]? with
  | some nx => if nx.link = some e.uid then { unlinkAt s (t + 1) with rSent := false } else s
  | none => s

def dropT0 (s : St) (w : Which) : Option Nat :=
  match w with
  | .oldest => some 0
  | .youngest => lastUserUpTo s.queue (s.queue.length - 1)

def dropT1 (s : St) (head : Elem) (t0 : Nat) : Nat :=
  if t0 = 0 && head.wip && !(!s.connected) then 1 else t0

theorem dropElement_eq (s : St) (w : Which) :
    dropElement s w = (s, none) ∨
    ∃ head tl t0 t e, s.queue = head :: tl ∧
      ¬ (tl.isEmpty && ((head.wip && !(!s.connected)) || head.owner ≠ .user)) = true ∧
      dropT0 s w = some t0 ∧
      firstUserFrom s.queue (dropT1 s head t0) = some t ∧ s.queue[t]? = some e ∧
      dropElement s w = (unlinkAt (dropS1 s t e) t, some e.data) := by
  unfold dropElement
  dsimp only
  split
  · left; rfl
  · rename_i head tl hq
    split
    · left; rfl
    · rename_i hne
      split
      · left; rfl
      · rename_i t0 ht0
        split
        · left; rfl
        · rename_i t ht
          split
          · left; rfl
          · rename_i e he
            right
            exact ⟨head, tl, t0, t, e, hq, hne, ht0, ht, he, rfl⟩


theorem dropS1_inv (s : St) (t : Nat) (e : Elem) (h : Inv s) : Inv (dropS1 s t e) := by
  unfold dropS1
  split
  · split
    · exact (unlinkAt_inv s (t + 1) h).of_eq rfl rfl rfl rfl
    · exact h
  · exact h

theorem dropElement_inv (s : St) (w : Which) (h : Inv s) : Inv (dropElement s w).1 := by
  rcases dropElement_eq s w with h1 | ⟨head, tl, t0, t, e, _, _, _, _, _, h1⟩
  · rw [h1]; exact h
  · rw [h1]; exact unlinkAt_inv _ _ (dropS1_inv s t e h)

theorem inv_step (s : St) (op : Op) (h : Inv s) : Inv (step s op).1 := by
  cases op with
  | send o d => exact sendRaw_inv s (adjustOwner s o) d h
  | run sched => exact runOnce_inv s sched h
  | drop w => exact dropElement_inv s w h
  | setSm b => exact h.of_eq rfl rfl rfl rfl
  | disc =>
    show Inv (disconnectOnce s)
    unfold disconnectOnce
    split
    · exact h.of_eq rfl rfl rfl rfl
    · exact h

theorem stepH_st (h : Hist) (op : Op) : (stepH h op).st = (step h.st op).1 := by
  cases op <;> simp [stepH, step]

theorem runH_snoc (ops : List Op) (op : Op) : runH (ops ++ [op]) = stepH (runH ops) op := by
  simp [runH]

theorem foldl_stepH_ind (P : Hist → Prop) (hstep : ∀ h op, P h → P (stepH h op))
    (ops : List Op) (h : Hist) (h0 : P h) : P (ops.foldl stepH h) := by
  induction ops generalizing h with
  | nil => exact h0
  | cons op ops ih => exact ih _ (hstep h op h0)

theorem inv_reachable (ops : List Op) : Inv (runH ops).st := by
  apply foldl_stepH_ind (fun h => Inv h.st)
  · intro h op ih; rw [stepH_st]; exact inv_step _ _ ih
  · exact inv_init

theorem pending_append (a b : List Elem) : pending (a ++ b) = pending a ++ pending b := by
  simp [pending]

/-- `send`: refused when not connected; otherwise the text (followed by a linked `<r/>` when stream
    management asks for one) is appended, nothing else changes and nothing is written -/
theorem send_appends_core (s : St) (o : Owner) (d : Bytes) :
    (¬ s.connected → sendRawCore s o d = s) ∧
    (s.connected → ∃ extra, (extra = [] ∨ extra = Gen.reqAck) ∧
        pending (sendRawCore s o d).queue = pending s.queue ++ d ++ extra ∧
        ∃ added, (sendRawCore s o d).queue = s.queue ++ added) := by
  constructor
  · intro hc; unfold sendRawCore; simp [hc]
  · intro hc
    unfold sendRawCore
    simp only [hc, Bool.not_true, Bool.false_eq_true, if_false]
    split
    · refine ⟨Gen.reqAck, Or.inr rfl, ?_,
        [{ uid := s.nextUid, data := d, owner := o },
         { uid := s.nextUid + 1, data := Gen.reqAck, owner := .smStrophe, link := some s.nextUid }], ?_⟩
      · simp [push, pending, Elem.rest]
      · simp [push]
    · refine ⟨[], Or.inl rfl, ?_, _, rfl⟩
      simp [push, pending, Elem.rest]

theorem writeLoop_fifo (q : List Elem) (sched : List Accept)
    (h : ∀ e ∈ q, e.written ≤ e.data.length) :
    (writeLoop q sched).wire ++ pending (writeLoop q sched).rest = pending q := by
  induction q generalizing sched with
  | nil => simp [writeLoop, pending]
  | cons e q ih =>
    have ih' := ih sched.tail (fun x hx => h x (by simp [hx]))
    unfold writeLoop
    dsimp only
    split
    · simp [pending, Elem.rest]
    · simp [pending, Elem.rest]
    · simp only [List.append_assoc, ih']
      simp [pending]
    · split
      · simp only [List.append_assoc, ih']
        simp [pending]
      · simp only [pending, Elem.rest, List.map_cons, List.flatten_cons]
        rw [← List.append_assoc]
        congr 1
        rw [← List.drop_drop]
        exact List.take_append_drop _ _

theorem runOnce_connected (s : St) (sched : List Accept) (hc : s.connected = true) :
    (runOnce s sched).2 = (writeLoop s.queue sched).wire ∧
    (runOnce s sched).1.queue = (writeLoop s.queue sched).rest := by
  unfold runOnce
  rw [if_neg (by simp [hc])]
  dsimp only
  split <;> simp [disconnect, foldl_retire_queue]

/-- the write loop neither loses, repeats nor reorders bytes, whatever the transport accepts -/
theorem run_fifo (s : St) (sched : List Accept) (h : Inv s) :
    (runOnce s sched).2 ++ pending (runOnce s sched).1.queue = pending s.queue ∨
    (¬ s.connected ∧ runOnce s sched = (s, [])) := by
  by_cases hc : s.connected
  · left
    rw [(runOnce_connected s sched hc).1, (runOnce_connected s sched hc).2]
    exact writeLoop_fifo _ _ h.written_le
  · right
    unfold runOnce
    simp [hc]

theorem len_counts_not_started (s : St) (h : Inv s) : queueLen s = notStarted s.queue := by
  unfold queueLen
  have h2 := h.userLen_eq
  have h4 := h.tail_fresh
  cases hq : s.queue with
  | nil => simp [hq, userCount, notStarted] at h2 ⊢; exact h2
  | cons e tl =>
    simp only [hq, List.tail_cons] at h2 h4 ⊢
    have htl : (tl.filter fun e => e.owner = .user && !e.wip) = tl.filter fun e => e.owner = .user := by
      apply List.filter_congr
      intro x hx
      simp [(h4 x hx).2]
    simp only [notStarted, userCount, List.filter_cons, htl] at h2 ⊢
    by_cases ho : e.owner = .user <;> cases hw : e.wip <;> simp [ho] at h2 ⊢ <;> omega



theorem lastUserUpTo_some (q : List Elem) (i k : Nat) (h : lastUserUpTo q i = some k) :
    k ≤ i ∧ (∃ e, q[k]? = some e ∧ e.owner = .user) ∧
      ∀ j e', k < j → j ≤ i → q[j]? = some e' → e'.owner ≠ .user := by
  induction i with
  | zero =>
    unfold lastUserUpTo at h
    split at h
    · split at h
      · simp at h; subst h; refine ⟨Nat.le_refl _, ⟨_, by assumption, by assumption⟩, ?_⟩
        intro j e' h1 h2; omega
      · simp at h
    · simp at h
  | succ i ih =>
    unfold lastUserUpTo at h
    split at h
    · split at h
      · simp at h; subst h; refine ⟨Nat.le_refl _, ⟨_, by assumption, by assumption⟩, ?_⟩
        intro j e' h1 h2; omega
      · obtain ⟨h1, h2, h3⟩ := ih h
        refine ⟨by omega, h2, ?_⟩
        intro j e' hj1 hj2 hj3
        by_cases hj : j = i + 1
        · subst hj; simp_all
        · exact h3 j e' hj1 (by omega) hj3
    · obtain ⟨h1, h2, h3⟩ := ih h
      refine ⟨by omega, h2, ?_⟩
      intro j e' hj1 hj2 hj3
      by_cases hj : j = i + 1
      · subst hj; simp_all
      · exact h3 j e' hj1 (by omega) hj3

theorem lastUserUpTo_none (q : List Elem) (i : Nat) (h : lastUserUpTo q i = none) :
    ∀ j e', j ≤ i → q[j]? = some e' → e'.owner ≠ .user := by
  induction i with
  | zero =>
    unfold lastUserUpTo at h
    intro j e' hj he
    have : j = 0 := by omega
    subst this
    simp [he] at h
    exact h
  | succ i ih =>
    unfold lastUserUpTo at h
    intro j e' hj he
    by_cases hj' : j = i + 1
    · subst hj'
      simp only [he] at h
      split at h
      · simp at h
      · assumption
    · split at h
      · split at h
        · simp at h
        · exact ih h j e' (by omega) he
      · exact ih h j e' (by omega) he

theorem firstUserFrom_some (q : List Elem) (i k : Nat) (h : firstUserFrom q i = some k) :
    i ≤ k ∧ (∃ e, q[k]? = some e ∧ e.owner = .user) ∧
      ∀ j e', i ≤ j → j < k → q[j]? = some e' → e'.owner ≠ .user := by
  unfold firstUserFrom at h
  simp only [Option.map_eq_some_iff] at h
  obtain ⟨a, ha, rfl⟩ := h
  rw [List.findIdx?_eq_some_iff_getElem] at ha
  obtain ⟨hlt, hp, hnot⟩ := ha
  simp only [List.length_drop] at hlt
  refine ⟨by omega, ⟨(q.drop i)[a], ?_, by simpa using hp⟩, ?_⟩
  · simp [List.getElem_drop, Nat.add_comm]
  · intro j e' h1 h2 h3
    have := hnot (j - i) (by omega)
    simp only [List.getElem_drop] at this
    have hj : i + (j - i) = j := by omega
    simp only [hj] at this
    have h4 : j < q.length := by omega
    rw [List.getElem?_eq_getElem h4] at h3
    simp at h3
    subst h3
    simpa using this

theorem firstUserFrom_none (q : List Elem) (i : Nat) (h : firstUserFrom q i = none) :
    ∀ j e', i ≤ j → q[j]? = some e' → e'.owner ≠ .user := by
  unfold firstUserFrom at h
  simp only [Option.map_eq_none_iff] at h
  rw [List.findIdx?_eq_none_iff] at h
  intro j e' hj he
  have : e' ∈ q.drop i := by
    rw [List.mem_iff_getElem?]
    exact ⟨j - i, by simp [List.getElem?_drop]; rw [← he]; congr 1; omega⟩
  simpa using h e' this


theorem unlinkAt_queue (s : St) (i : Nat) : (unlinkAt s i).queue = s.queue.eraseIdx i := by
  unfold unlinkAt
  split
  · rename_i h
    rw [List.eraseIdx_of_length_le]
    simpa using h
  · rfl

theorem drop_queue (s : St) (t : Nat) (e : Elem) :
    (unlinkAt (dropS1 s t e) t).queue = s.queue.eraseIdx t ∨
    ∃ r, s.queue[t + 1]? = some r ∧ r.link = some e.uid ∧
      (unlinkAt (dropS1 s t e) t).queue = (s.queue.eraseIdx (t + 1)).eraseIdx t := by
  rw [unlinkAt_queue]
  unfold dropS1
  split
  · rename_i nx hnx
    split
    · right
      exact ⟨nx, hnx, by assumption, by simp [unlinkAt_queue]⟩
    · left; rfl
  · left; rfl

theorem mem_tail_of_getElem? {α} {q : List α} {i : Nat} {x : α} (h : q[i + 1]? = some x) :
    x ∈ q.tail := by
  cases q with
  | nil => simp at h
  | cons a tl => simp at h; exact List.mem_of_getElem? h

/-- what a successful drop does -/
theorem drop_exact (s : St) (w : Which) (t : Bytes) (s' : St) (h : Inv s)
    (hd : dropElement s w = (s', some t)) :
    ∃ i e, s.queue[i]? = some e ∧ e.owner = .user ∧ e.data = t ∧
      (s.connected → e.written = 0 ∧ e.wip = false) ∧
      (∀ j e', s.queue[j]? = some e' → e'.owner = .user → (s.connected → e'.wip = false) →
          (w = .oldest → i ≤ j) ∧ (w = .youngest → j ≤ i)) ∧
      (s'.queue = s.queue.eraseIdx i ∨
       (∃ r, s.queue[i + 1]? = some r ∧ r.link = some e.uid ∧ r.owner = .smStrophe ∧
             s'.queue = (s.queue.eraseIdx (i + 1)).eraseIdx i)) := by
  rcases dropElement_eq s w with h1 | ⟨head, tl, t0, i, e, hq, hne, ht0, hft, he, h1⟩
  · rw [h1] at hd; simp at hd
  · rw [h1] at hd
    simp only [Prod.mk.injEq, Option.some.injEq] at hd
    obtain ⟨hs', hdata⟩ := hd
    obtain ⟨hf1, ⟨e2, he2, hu2⟩, hf3⟩ := firstUserFrom_some _ _ _ hft
    rw [he] at he2; simp at he2; subst he2
    have hhead : s.queue[0]? = some head := by simp [hq]
    have hT1 : dropT1 s head t0 = if t0 = 0 ∧ head.wip = true ∧ s.connected = true then 1 else t0 := by
      simp [dropT1, and_assoc]
    refine ⟨i, e, he, hu2, hdata, ?_, ?_, ?_⟩
    · intro hc
      cases i with
      | zero =>
        rw [hhead] at he; simp at he; subst he
        have hw : head.wip = false := by
          rw [hT1] at hf1
          split at hf1
          · omega
          · rename_i hcond
            have : t0 = 0 := by omega
            cases hw : head.wip
            · rfl
            · exact absurd ⟨this, hw, hc⟩ hcond
        exact ⟨h.fresh_written head (by simp [hq]) hw, hw⟩
      | succ i => exact h.tail_fresh e (mem_tail_of_getElem? he)
    · intro j e' hj hu hw
      constructor
      · intro hwo
        subst hwo
        simp [dropT0] at ht0
        subst ht0
        rw [hT1] at hf1 hf3
        by_cases hji : i ≤ j
        · exact hji
        · exfalso
          by_cases hcond : (0 = 0 ∧ head.wip = true ∧ s.connected = true)
          · rw [if_pos hcond] at hf1 hf3
            by_cases hj0 : j = 0
            · subst hj0
              rw [hhead] at hj; simp at hj; subst hj
              have := hw hcond.2.2
              simp [hcond.2.1] at this
            · exact hf3 j e' (by omega) (by omega) hj hu
          · rw [if_neg hcond] at hf1 hf3
            exact hf3 j e' (by omega) (by omega) hj hu
      · intro hwy
        subst hwy
        simp only [dropT0] at ht0
        obtain ⟨hl1, _, hl3⟩ := lastUserUpTo_some _ _ _ ht0
        have hjl : j < s.queue.length := (List.getElem?_eq_some_iff.1 hj).1
        have : t0 ≤ i := by
          rw [hT1] at hf1
          split at hf1 <;> omega
        by_cases hji : j ≤ i
        · exact hji
        · exact absurd hu (hl3 j e' (by omega) (by omega) hj)
    · subst hs'
      rcases drop_queue s i e with hq' | ⟨r, hr1, hr2, hr3⟩
      · left; exact hq'
      · right
        exact ⟨r, hr1, hr2, h.link_owner r (List.mem_of_getElem? hr1) _ hr2, hr3⟩

/-- a refused drop leaves everything as it was, and is refused only when no user element is
    droppable -/
theorem drop_none (s : St) (w : Which) (s' : St) (h : Inv s)
    (hd : dropElement s w = (s', none)) :
    s' = s ∧ ∀ e ∈ s.queue, e.owner = .user → s.connected ∧ e.wip = true := by
  have _ := h
  unfold dropElement at hd
  dsimp only at hd
  split at hd
  · rename_i hq
    simp at hd
    exact ⟨hd.symm, by simp [hq]⟩
  · rename_i head tl hq
    have hhead : s.queue[0]? = some head := by simp [hq]
    split at hd
    · rename_i hcond
      simp at hd
      refine ⟨hd.symm, ?_⟩
      simp only [Bool.and_eq_true, List.isEmpty_iff, Bool.or_eq_true, Bool.not_not,
        decide_eq_true_eq] at hcond
      obtain ⟨rfl, hc⟩ := hcond
      intro e he hu
      simp [hq] at he
      subst he
      rcases hc with hc | hc
      · exact ⟨hc.2, hc.1⟩
      · exact absurd hu (by simpa using hc)
    · split at hd
      · rename_i ht0
        simp at hd
        refine ⟨hd.symm, ?_⟩
        intro e he hu
        exfalso
        cases w with
        | oldest => simp at ht0
        | youngest =>
          simp only at ht0
          obtain ⟨j, hj⟩ := List.mem_iff_getElem?.1 he
          have hjl : j < s.queue.length := (List.getElem?_eq_some_iff.1 hj).1
          exact lastUserUpTo_none _ _ ht0 j e (by omega) hj hu
      · rename_i t0 ht0
        split at hd
        · rename_i hft
          simp at hd
          refine ⟨hd.symm, ?_⟩
          intro e he hu
          obtain ⟨j, hj⟩ := List.mem_iff_getElem?.1 he
          have hnone := firstUserFrom_none _ _ hft
          split at hnone
          · rename_i hcond
            simp only [Bool.and_eq_true, decide_eq_true_eq, Bool.not_not] at hcond
            by_cases hj0 : j = 0
            · subst hj0
              rw [hhead] at hj; simp at hj; subst hj
              exact ⟨hcond.2, hcond.1.2⟩
            · exact absurd hu (hnone j e (by omega) hj)
          · exfalso
            cases w with
            | oldest =>
              simp at ht0; subst ht0
              exact hnone j e (by omega) hj hu
            | youngest =>
              simp only at ht0
              obtain ⟨_, ⟨e2, he2, hu2⟩, _⟩ := lastUserUpTo_some _ _ _ ht0
              exact hnone t0 e2 (Nat.le_refl _) he2 hu2
        · rename_i t hft
          split at hd
          · rename_i hnone
            obtain ⟨_, ⟨e2, he2, _⟩, _⟩ := firstUserFrom_some _ _ _ hft
            rw [he2] at hnone; simp at hnone
          · simp at hd


/-! ### disconnect notifications -/

theorem sendRaw_disc (s : St) (o d) : (sendRawCore s o d).disconnects = s.disconnects := by
  unfold sendRawCore
  split
  · rfl
  · dsimp only
    split <;> rfl

theorem retire_disc (s : St) (e) : (retire s e).disconnects = s.disconnects := by
  unfold retire
  dsimp only
  split <;> rfl

theorem foldl_retire_disc (l : List Elem) (s : St)  : (l.foldl retire s).disconnects = s.disconnects := by
  induction l generalizing s with
  | nil => rfl
  | cons a l ih => simp [List.foldl_cons, ih, retire_disc]

theorem unlinkAt_disc (s : St) (i) : (unlinkAt s i).disconnects = s.disconnects := by
  unfold unlinkAt
  split <;> rfl

theorem dropElement_disc (s : St) (w) : (dropElement s w).1.disconnects = s.disconnects := by
  unfold dropElement
  dsimp only
  split
  · rfl
  · split
    · rfl
    · split
      · rfl
      · split
        · rfl
        · split
          · rfl
          · rw [unlinkAt_disc]
            split
            · split
              · simp [unlinkAt_disc]
              · rfl
            · rfl

theorem at_most_one_disconnect_per_op (s : St) (op : Op) :
    (step s op).1.disconnects ≤ s.disconnects + 1 := by
  cases op with
  | send o d => simp [step, sendRaw_eq, sendRaw_disc]
  | run sched =>
    simp only [step, runOnce]
    split
    · simp
    · dsimp only
      split <;> simp [disconnect, foldl_retire_disc]
  | drop w => simp [step, dropElement_disc]
  | setSm b => simp [step]
  | disc =>
    simp only [step, disconnectOnce]
    split <;> simp [disconnect]


/-! ### the ghost-augmented history -/

/-- concatenated texts of a ghost list -/
def gflat (g : List (Nat × Bytes)) : Bytes := (g.map (·.2)).flatten

def headWritten : List Elem → Bytes
  | [] => []
  | e :: _ => e.data.take e.written

/-- `g` lists the elements of `q` in order, interleaved with entries whose text is empty -/
def Match : List Elem → List (Nat × Bytes) → Prop
  | q, [] => q = []
  | q, p :: g => (p.2 = [] ∧ Match q g) ∨ (∃ e q', q = e :: q' ∧ e.uid = p.1 ∧ e.data = p.2 ∧ Match q' g)

theorem gflat_append (a b) : gflat (a ++ b) = gflat a ++ gflat b := by simp [gflat]

theorem gflat_empty (em : List (Nat × Bytes)) (h : ∀ p ∈ em, p.2 = []) : gflat em = [] := by
  simp only [gflat, List.flatten_eq_nil_iff, List.mem_map]
  rintro l ⟨p, hp, rfl⟩; exact h p hp

theorem Match.of_parts (e : Elem) (q' : List Elem) (em g : List (Nat × Bytes))
    (hem : ∀ p ∈ em, p.2 = []) (hm : Match q' g) :
    Match (e :: q') (em ++ (e.uid, e.data) :: g) := by
  induction em with
  | nil => exact Or.inr ⟨e, q', rfl, rfl, rfl, hm⟩
  | cons p em ih =>
    exact Or.inl ⟨hem p (by simp), ih (fun x hx => hem x (by simp [hx]))⟩

theorem Match.inv_cons {e : Elem} {q' : List Elem} {post : List (Nat × Bytes)}
    (hm : Match (e :: q') post) :
    ∃ em g, post = em ++ (e.uid, e.data) :: g ∧ (∀ p ∈ em, p.2 = []) ∧ Match q' g := by
  induction post with
  | nil => simp [Match] at hm
  | cons p post ih =>
    rcases hm with ⟨hp, hm⟩ | ⟨e1, q1, hq, hu, hd, hm⟩
    · obtain ⟨em, g, h1, h2, h3⟩ := ih hm
      refine ⟨p :: em, g, by simp [h1], ?_, h3⟩
      intro x hx
      simp at hx
      rcases hx with rfl | hx
      · exact hp
      · exact h2 x hx
    · simp at hq
      obtain ⟨rfl, rfl⟩ := hq
      refine ⟨[], post, ?_, by simp, hm⟩
      cases p
      simp at hu hd
      simp [hu, hd]

theorem Match.nil_empty {post : List (Nat × Bytes)} (hm : Match [] post) : ∀ p ∈ post, p.2 = [] := by
  induction post with
  | nil => simp
  | cons p post ih =>
    rcases hm with ⟨hp, hm⟩ | ⟨e1, q1, hq, _⟩
    · intro x hx
      simp at hx
      rcases hx with rfl | hx
      · exact hp
      · exact ih hm x hx
    · simp at hq

theorem Match.of_empty {post : List (Nat × Bytes)} (h : ∀ p ∈ post, p.2 = []) : Match [] post := by
  induction post with
  | nil => rfl
  | cons p post ih => exact Or.inl ⟨h p (by simp), ih (fun x hx => h x (by simp [hx]))⟩

theorem Match.flat {q : List Elem} {post : List (Nat × Bytes)} (hm : Match q post) :
    gflat post = (q.map (·.data)).flatten := by
  induction q generalizing post with
  | nil => simp [gflat_empty post hm.nil_empty]
  | cons e q ih =>
    obtain ⟨em, g, rfl, h2, h3⟩ := hm.inv_cons
    rw [gflat_append, gflat_empty em h2]
    simp [gflat] at ih ⊢
    exact ih h3

theorem Match.uids {q : List Elem} {post : List (Nat × Bytes)} (hm : Match q post) :
    ∀ e ∈ q, e.uid ∈ post.map (·.1) := by
  induction q generalizing post with
  | nil => simp
  | cons e q ih =>
    obtain ⟨em, g, rfl, h2, h3⟩ := hm.inv_cons
    intro x hx
    simp at hx
    rcases hx with rfl | hx
    · simp
    · have := ih h3 x hx
      simp at this ⊢
      right; right; exact this

theorem Match.append {q : List Elem} {post : List (Nat × Bytes)} (hm : Match q post)
    (new : List Elem) : Match (q ++ new) (post ++ new.map fun e => (e.uid, e.data)) := by
  induction q generalizing post with
  | nil =>
    have hem := hm.nil_empty
    clear hm
    induction post with
    | nil =>
      simp
      induction new with
      | nil => rfl
      | cons a new ih => exact Or.inr ⟨a, new, rfl, rfl, rfl, ih⟩
    | cons p post ih =>
      exact Or.inl ⟨hem p (by simp), ih (fun x hx => hem x (by simp [hx]))⟩
  | cons e q ih =>
    obtain ⟨em, g, rfl, h2, h3⟩ := hm.inv_cons
    have := Match.of_parts e (q ++ new) em _ h2 (ih h3)
    simpa using this

theorem Match.head_congr {e e' : Elem} {q' : List Elem} {post : List (Nat × Bytes)}
    (hm : Match (e :: q') post) (hu : e'.uid = e.uid) (hd : e'.data = e.data) :
    Match (e' :: q') post := by
  obtain ⟨em, g, rfl, h2, h3⟩ := hm.inv_cons
  rw [← hu, ← hd]
  exact Match.of_parts e' q' em g h2 h3

theorem headWritten_fresh (l : List Elem) (h : ∀ e ∈ l, e.written = 0) : headWritten l = [] := by
  cases l with
  | nil => rfl
  | cons a l => simp [headWritten, h a (by simp)]

theorem pending_fresh (l : List Elem) (h : ∀ e ∈ l, e.written = 0) :
    pending l = (l.map (·.data)).flatten := by
  induction l with
  | nil => rfl
  | cons a l ih =>
    simp only [pending, List.map_cons, List.flatten_cons] at ih ⊢
    rw [ih (fun x hx => h x (by simp [hx]))]
    simp [Elem.rest, h a (by simp)]

theorem headWritten_pending (q : List Elem) (h : ∀ e ∈ q.tail, e.written = 0) :
    headWritten q ++ pending q = (q.map (·.data)).flatten := by
  cases q with
  | nil => rfl
  | cons e tl =>
    have := pending_fresh tl h
    simp only [pending] at this
    simp only [headWritten, pending, Elem.rest, List.map_cons, List.flatten_cons, this]
    rw [← List.append_assoc, List.take_append_drop]


/-- the invariant of a history -/
structure HInv (h : Hist) : Prop where
  inv : Inv h.st
  sm_lt : ∀ e ∈ h.st.smQueue, e.uid < h.st.nextUid
  sm_disj : ∀ e ∈ h.st.smQueue, ∀ e' ∈ h.st.queue, e'.uid ≠ e.uid
  g_lt : ∀ p ∈ h.ghost, p.1 < h.st.nextUid
  g_nodup : (h.ghost.map (·.1)).Nodup
  split : ∃ pre post, h.ghost = pre ++ post ∧ h.wire = gflat pre ++ headWritten h.st.queue ∧
    Match h.st.queue post

theorem HInv.fifo {h : Hist} (hi : HInv h) :
    h.wire ++ pending h.st.queue = (h.ghost.map (·.2)).flatten := by
  obtain ⟨pre, post, hg, hw, hm⟩ := hi.split
  rw [hw, List.append_assoc, headWritten_pending _ (fun e he => (hi.inv.tail_fresh e he).1),
    ← hm.flat, ← gflat_append, ← hg]
  rfl

theorem hinv_init : HInv {} := by
  refine ⟨inv_init, by simp, by simp, by simp, by simp, [], [], rfl, rfl, rfl⟩

/-- steps that only append fresh elements (send, setSm, disc) -/
theorem hinv_append (h : Hist) (s' : St) (new : List Elem) (hi : HInv h) (hinv' : Inv s')
    (hq : s'.queue = h.st.queue ++ new)
    (hnew : ∀ e ∈ new, h.st.nextUid ≤ e.uid ∧ e.written = 0)
    (hn : h.st.nextUid ≤ s'.nextUid) (hsm : s'.smQueue = h.st.smQueue) :
    HInv { st := s', wire := h.wire,
           ghost := h.ghost ++ (s'.queue.filter fun e => h.st.nextUid ≤ e.uid).map
              fun e => (e.uid, e.data) } := by
  have hadd : (s'.queue.filter fun e => h.st.nextUid ≤ e.uid) = new := by
    rw [hq, List.filter_append]
    have h1 : (h.st.queue.filter fun e => h.st.nextUid ≤ e.uid) = [] := by
      rw [List.filter_eq_nil_iff]
      intro e he
      have := hi.inv.uids_lt e he
      simp; omega
    have h2 : (new.filter fun e => h.st.nextUid ≤ e.uid) = new := by
      rw [List.filter_eq_self]
      intro e he
      simpa using (hnew e he).1
    rw [h1, h2]; rfl
  constructor
  · exact hinv'
  · intro e he
    rw [hsm] at he
    have := hi.sm_lt e he
    simp only; omega
  · intro e he e' he'
    simp only [hsm] at he
    simp only [hq, List.mem_append] at he'
    rcases he' with he' | he'
    · exact hi.sm_disj e he e' he'
    · have := hi.sm_lt e he
      have := (hnew e' he').1
      omega
  · intro p hp
    simp only [List.mem_append, List.mem_map, List.mem_filter] at hp
    rcases hp with hp | ⟨e, ⟨he, _⟩, rfl⟩
    · have := hi.g_lt p hp
      simp only; omega
    · exact hinv'.uids_lt e he
  · simp only [List.map_append, List.map_map]
    rw [List.nodup_append]
    refine ⟨hi.g_nodup, ?_, ?_⟩
    · have : (fun p : Nat × Bytes => p.1) ∘ (fun e : Elem => (e.uid, e.data)) = fun e => e.uid := rfl
      rw [this]
      exact hinv'.uids_nodup.sublist (List.filter_sublist.map _)
    · intro a ha b hb
      simp only [List.mem_map] at ha
      obtain ⟨p, hp, rfl⟩ := ha
      simp only [List.mem_map, List.mem_filter, Function.comp] at hb
      obtain ⟨e, ⟨_, he⟩, rfl⟩ := hb
      have := hi.g_lt p hp
      simp at he
      omega
  · obtain ⟨pre, post, hg, hw, hm⟩ := hi.split
    refine ⟨pre, post ++ new.map fun e => (e.uid, e.data), ?_, ?_, ?_⟩
    · simp only [hadd, hg, List.append_assoc]
    · simp only [hq, hw]
      congr 1
      cases hq0 : h.st.queue with
      | nil =>
        rw [List.nil_append, headWritten_fresh new (fun e he => (hnew e he).2)]; rfl
      | cons a tl => rfl
    · simp only [hq]
      exact hm.append new


theorem sendRaw_shape (s : St) (o : Owner) (d : Bytes) :
    ∃ new, (sendRawCore s o d).queue = s.queue ++ new ∧
      (∀ e ∈ new, s.nextUid ≤ e.uid ∧ e.written = 0) ∧
      s.nextUid ≤ (sendRawCore s o d).nextUid ∧ (sendRawCore s o d).smQueue = s.smQueue := by
  unfold sendRawCore
  split
  · exact ⟨[], by simp, by simp, Nat.le_refl _, rfl⟩
  · dsimp only
    split
    · refine ⟨[{ uid := s.nextUid, data := d, owner := o },
         { uid := s.nextUid + 1, data := Gen.reqAck, owner := .smStrophe, link := some s.nextUid }],
         by simp [push], by simp, by simp [push]; omega, rfl⟩
    · exact ⟨[{ uid := s.nextUid, data := d, owner := o }], by simp [push], by simp,
        by simp [push], rfl⟩

theorem writeLoop_match (q : List Elem) (sched : List Accept) (pre post : List (Nat × Bytes))
    (wire : Bytes) (ht : ∀ e ∈ q.tail, e.written = 0) (hm : Match q post)
    (hwire : wire = gflat pre ++ headWritten q) :
    ∃ pre' post', pre ++ post = pre' ++ post' ∧
      wire ++ (writeLoop q sched).wire = gflat pre' ++ headWritten (writeLoop q sched).rest ∧
      Match (writeLoop q sched).rest post' := by
  induction q generalizing sched pre post wire with
  | nil => exact ⟨pre, post, rfl, by simp [writeLoop, hwire], hm⟩
  | cons e q ih =>
    have hfull : ∃ pre' post', pre ++ post = pre' ++ post' ∧
        wire ++ (e.rest ++ (writeLoop q sched.tail).wire) =
          gflat pre' ++ headWritten (writeLoop q sched.tail).rest ∧
        Match (writeLoop q sched.tail).rest post' := by
      obtain ⟨em, g, rfl, h2, h3⟩ := hm.inv_cons
      have hq0 : headWritten q = [] := headWritten_fresh q ht
      obtain ⟨pre', post', h4, h5, h6⟩ := ih sched.tail (pre ++ em ++ [(e.uid, e.data)]) g
        (wire ++ e.rest) (fun x hx => ht x (List.mem_of_mem_tail hx)) h3 (by
          rw [hq0, hwire, gflat_append, gflat_append, gflat_empty em h2]
          simp [gflat, headWritten, Elem.rest])
      exact ⟨pre', post', by rw [← h4]; simp, by rw [← h5]; simp, h6⟩
    unfold writeLoop
    dsimp only
    split
    · exact ⟨pre, post, rfl, by simp [hwire, headWritten], hm.head_congr rfl rfl⟩
    · exact ⟨pre, post, rfl, by simp [hwire, headWritten], hm.head_congr rfl rfl⟩
    · exact hfull
    · split
      · exact hfull
      · refine ⟨pre, post, rfl, ?_, hm.head_congr rfl rfl⟩
        simp only [hwire, headWritten, Elem.rest, List.append_assoc, List.take_add]

theorem foldl_retire_smQueue (l : List Elem) (s : St) :
    ∀ x ∈ (l.foldl retire s).smQueue, x ∈ s.smQueue ∨ ∃ e ∈ l, x.uid = e.uid := by
  induction l generalizing s with
  | nil => intro x hx; exact Or.inl hx
  | cons a l ih =>
    intro x hx
    rcases ih (retire s a) x hx with h1 | ⟨e, he, hxe⟩
    · unfold retire at h1
      dsimp only at h1
      split at h1
      · simp only [List.mem_append, List.mem_singleton] at h1
        rcases h1 with h1 | rfl
        · exact Or.inl h1
        · exact Or.inr ⟨a, by simp, rfl⟩
      · exact Or.inl h1
    · exact Or.inr ⟨e, by simp [he], hxe⟩


theorem runOnce_nextUid (s : St) (sched : List Accept) : (runOnce s sched).1.nextUid = s.nextUid := by
  unfold runOnce
  split
  · rfl
  · dsimp only
    split <;> simp [disconnect, foldl_retire_nextUid]

theorem runOnce_smQueue (s : St) (sched : List Accept) :
    ∀ x ∈ (runOnce s sched).1.smQueue,
      x ∈ s.smQueue ∨ ∃ e ∈ (writeLoop s.queue sched).done, x.uid = e.uid := by
  unfold runOnce
  split
  · intro x hx; exact Or.inl hx
  · dsimp only
    intro x hx
    have : x ∈ ((writeLoop s.queue sched).done.foldl retire
        { s with queue := (writeLoop s.queue sched).rest }).smQueue := by
      split at hx
      · exact hx
      · exact hx
    exact foldl_retire_smQueue _ { s with queue := (writeLoop s.queue sched).rest } x this

theorem stepH_run (h : Hist) (sched : List Accept) :
    stepH h (.run sched) =
      { st := (runOnce h.st sched).1, wire := h.wire ++ (runOnce h.st sched).2,
        ghost := h.ghost ++ ((runOnce h.st sched).1.queue.filter fun e => h.st.nextUid ≤ e.uid).map
          fun e => (e.uid, e.data) } := rfl

theorem stepH_send (h : Hist) (o : Owner) (d : Bytes) :
    stepH h (.send o d) =
      { st := sendRawCore h.st (adjustOwner h.st o) d, wire := h.wire,
        ghost := h.ghost ++ ((sendRawCore h.st (adjustOwner h.st o) d).queue.filter fun e => h.st.nextUid ≤ e.uid).map
          fun e => (e.uid, e.data) } := rfl

theorem stepH_setSm (h : Hist) (b : Bool) :
    stepH h (.setSm b) =
      { st := { h.st with smEnabled := b }, wire := h.wire,
        ghost := h.ghost ++ (h.st.queue.filter fun e => h.st.nextUid ≤ e.uid).map
          fun e => (e.uid, e.data) } := rfl

theorem stepH_disc (h : Hist) :
    stepH h .disc =
      { st := disconnectOnce h.st, wire := h.wire,
        ghost := h.ghost ++ (h.st.queue.filter fun e => h.st.nextUid ≤ e.uid).map
          fun e => (e.uid, e.data) } := by
  by_cases hc : h.st.connected = true <;> simp [stepH, step, disconnectOnce, hc, disconnect]

theorem hinv_send (h : Hist) (o : Owner) (d : Bytes) (hi : HInv h) : HInv (stepH h (.send o d)) := by
  rw [stepH_send]
  obtain ⟨new, h1, h2, h3, h4⟩ := sendRaw_shape h.st (adjustOwner h.st o) d
  exact hinv_append h _ new hi (sendRaw_inv _ _ _ hi.inv) h1 h2 h3 h4

theorem hinv_setSm (h : Hist) (b : Bool) (hi : HInv h) : HInv (stepH h (.setSm b)) := by
  rw [stepH_setSm]
  exact hinv_append h { h.st with smEnabled := b } [] hi (hi.inv.of_eq rfl rfl rfl rfl)
    (by simp) (by simp) (Nat.le_refl _) rfl

theorem hinv_disc (h : Hist) (hi : HInv h) : HInv (stepH h .disc) := by
  rw [stepH_disc]
  by_cases hc : h.st.connected = true
  · have e : disconnectOnce h.st = disconnect h.st := by simp [disconnectOnce, hc]
    rw [e]
    exact hinv_append h (disconnect h.st) [] hi (hi.inv.of_eq rfl rfl rfl rfl)
      (by simp [disconnect]) (by simp) (Nat.le_refl _) rfl
  · have e : disconnectOnce h.st = h.st := by simp [disconnectOnce, hc]
    rw [e]
    exact hinv_append h h.st [] hi hi.inv (by simp) (by simp) (Nat.le_refl _) rfl

theorem hinv_run (h : Hist) (sched : List Accept) (hi : HInv h) : HInv (stepH h (.run sched)) := by
  rw [stepH_run]
  have hinv' := runOnce_inv h.st sched hi.inv
  have hnu := runOnce_nextUid h.st sched
  have hadd : ((runOnce h.st sched).1.queue.filter fun e => h.st.nextUid ≤ e.uid) = [] := by
    rw [List.filter_eq_nil_iff]
    intro e he
    have := hinv'.uids_lt e he
    rw [hnu] at this
    simp; omega
  rw [hadd, List.map_nil, List.append_nil]
  by_cases hc : h.st.connected = true
  · obtain ⟨hw, hq⟩ := runOnce_connected h.st sched hc
    obtain ⟨qpre, suf, hsplit, hdone, hrest⟩ := writeLoop_shape h.st.queue sched
    have hnd := hi.inv.uids_nodup
    rw [hsplit, List.map_append, List.nodup_append] at hnd
    -- every element of the new queue carries the uid of an element of `suf`
    have hrest_uid : ∀ x ∈ (writeLoop h.st.queue sched).rest, ∃ y ∈ suf, y.uid = x.uid := by
      rcases hrest with ⟨_, hr⟩ | ⟨e, tl, w, rfl, hr, _⟩
      · simp [hr]
      · rw [hr]
        intro x hx
        simp only [List.mem_cons] at hx
        rcases hx with rfl | hx
        · exact ⟨e, by simp, rfl⟩
        · exact ⟨x, by simp [hx], rfl⟩
    constructor
    · exact hinv'
    · intro x hx
      simp only [hnu]
      rcases runOnce_smQueue h.st sched x hx with h1 | ⟨e, he, hxe⟩
      · exact hi.sm_lt x h1
      · rw [hdone] at he
        simp only [List.mem_map] at he
        obtain ⟨e0, he0, rfl⟩ := he
        rw [hxe]
        exact hi.inv.uids_lt e0 (by rw [hsplit]; simp [he0])
    · intro x hx e' he'
      simp only [hq] at he'
      obtain ⟨y, hy, hyu⟩ := hrest_uid e' he'
      rcases runOnce_smQueue h.st sched x hx with h1 | ⟨e, he, hxe⟩
      · rw [← hyu]
        exact hi.sm_disj x h1 y (by rw [hsplit]; simp [hy])
      · rw [hdone] at he
        simp only [List.mem_map] at he
        obtain ⟨e0, he0, rfl⟩ := he
        rw [hxe, ← hyu]
        intro heq
        exact hnd.2.2 e0.uid (List.mem_map.2 ⟨e0, he0, rfl⟩) y.uid (List.mem_map.2 ⟨y, hy, rfl⟩)
          heq.symm
    · intro p hp
      simp only [hnu]
      exact hi.g_lt p hp
    · exact hi.g_nodup
    · obtain ⟨pre, post, hg, hwire, hm⟩ := hi.split
      obtain ⟨pre', post', h1, h2, h3⟩ := writeLoop_match h.st.queue sched pre post h.wire
        (fun e he => (hi.inv.tail_fresh e he).1) hm hwire
      exact ⟨pre', post', by simp only [hg, h1], by simp only [hw, hq, h2], by simp only [hq]; exact h3⟩
  · have : runOnce h.st sched = (h.st, []) := by
      unfold runOnce; simp [hc]
    rw [this]
    simp only [List.append_nil]
    exact hi


/-- what a drop does to one ghost entry -/
def trunc (removed : List Elem) (p : Nat × Bytes) : Nat × Bytes :=
  match removed.find? (fun e => e.uid = p.1) with
  | some e => (p.1, p.2.take e.written)
  | none => p

theorem stepH_drop (h : Hist) (w : Which) :
    stepH h (.drop w) =
      { st := (dropElement h.st w).1, wire := h.wire,
        ghost := h.ghost.map (trunc (h.st.queue.filter fun e =>
          !((dropElement h.st w).1.queue.any fun e' => e'.uid = e.uid) &&
          !((dropElement h.st w).1.smQueue.any fun e' => e'.uid = e.uid))) } := rfl

theorem trunc_cases (removed : List Elem) (p : Nat × Bytes) :
    (∃ r ∈ removed, r.uid = p.1 ∧ trunc removed p = (p.1, p.2.take r.written)) ∨
    ((∀ r ∈ removed, r.uid ≠ p.1) ∧ trunc removed p = p) := by
  unfold trunc
  split
  · rename_i e he
    left
    exact ⟨e, List.mem_of_find?_eq_some he, by simpa using List.find?_some he, rfl⟩
  · rename_i hn
    right
    rw [List.find?_eq_none] at hn
    exact ⟨fun r hr => by simpa using hn r hr, rfl⟩

theorem trunc_fst (removed : List Elem) (p : Nat × Bytes) : (trunc removed p).1 = p.1 := by
  rcases trunc_cases removed p with ⟨r, _, _, h⟩ | ⟨_, h⟩ <;> rw [h]

theorem trunc_empty (removed : List Elem) (p : Nat × Bytes) (hp : p.2 = []) :
    (trunc removed p).2 = [] := by
  rcases trunc_cases removed p with ⟨r, _, _, h⟩ | ⟨_, h⟩ <;> rw [h] <;> simp [hp]

theorem Match.drop {q : List Elem} {post : List (Nat × Bytes)} (removed : List Elem)
    (hm : Match q post)
    (hrem : ∀ r ∈ removed, r.written = 0 ∨ ∀ e ∈ q, e.uid ≠ r.uid) :
    Match (q.filter fun e => !removed.any (·.uid = e.uid)) (post.map (trunc removed)) := by
  induction post generalizing q with
  | nil => simp only [Match] at hm; subst hm; rfl
  | cons p post ih =>
    rcases hm with ⟨hp, hm⟩ | ⟨e, q', rfl, hu, hd, hm⟩
    · exact Or.inl ⟨trunc_empty removed p hp, ih hm hrem⟩
    · have ih' := ih hm (fun r hr => (hrem r hr).imp id fun h x hx => h x (by simp [hx]))
      rcases trunc_cases removed p with ⟨r, hr, hru, htr⟩ | ⟨hnone, htr⟩
      · have hany : (removed.any fun x => x.uid = e.uid) = true := by
          rw [List.any_eq_true]; exact ⟨r, hr, by simp [hru, hu]⟩
        rw [List.filter_cons, hany]
        simp only [Bool.not_true, Bool.false_eq_true, if_false, List.map_cons]
        refine Or.inl ⟨?_, ih'⟩
        rw [htr]
        rcases hrem r hr with h0 | hne
        · simp [h0]
        · exact absurd (hu.trans hru.symm) (hne e (by simp))
      · have hany : (removed.any fun x => x.uid = e.uid) = false := by
          rw [List.any_eq_false]
          intro x hx
          have := hnone x hx
          simp [hu]; exact this
        rw [List.filter_cons, hany]
        simp only [Bool.not_false, if_true, List.map_cons]
        rw [htr]
        exact Or.inr ⟨e, _, rfl, hu, hd, ih'⟩

theorem filter_any_sublist {q' q : List Elem} (hs : q'.Sublist q) (hnd : (q.map (·.uid)).Nodup) :
    q.filter (fun e => q'.any (·.uid = e.uid)) = q' := by
  induction hs with
  | slnil => rfl
  | @cons l₁ l₂ a hs ih =>
    simp only [List.map_cons, List.nodup_cons] at hnd
    have : (l₁.any fun x => x.uid = a.uid) = false := by
      rw [List.any_eq_false]
      intro x hx heq
      simp at heq
      exact hnd.1 (List.mem_map.2 ⟨x, hs.subset hx, heq⟩)
    rw [List.filter_cons, this]
    simp only [Bool.false_eq_true, if_false]
    exact ih hnd.2
  | @cons_cons l₁ l₂ a hs ih =>
    simp only [List.map_cons, List.nodup_cons] at hnd
    rw [List.filter_cons]
    simp only [List.any_cons, decide_true, Bool.true_or, if_true]
    congr 1
    refine Eq.trans ?_ (ih hnd.2)
    apply List.filter_congr
    intro x hx
    have : (decide (a.uid = x.uid)) = false := by
      simp
      intro heq
      exact hnd.1 (List.mem_map.2 ⟨x, hx, heq.symm⟩)
    simp [this]

theorem eq_of_uid_eq {q : List Elem} (hnd : (q.map (·.uid)).Nodup) {a b : Elem} (ha : a ∈ q)
    (hb : b ∈ q) (h : a.uid = b.uid) : a = b := by
  obtain ⟨i, hi⟩ := List.mem_iff_getElem?.1 ha
  obtain ⟨j, hj⟩ := List.mem_iff_getElem?.1 hb
  have := idx_unique hnd hi hj h
  subst this
  rw [hi] at hj
  exact Option.some.inj hj

theorem drop_split (q removed : List Elem) (pre post : List (Nat × Bytes)) (wire : Bytes)
    (hnd : (q.map (·.uid)).Nodup) (htl : ∀ e ∈ q.tail, e.written = 0)
    (hrem : ∀ r ∈ removed, r ∈ q) (hpre : ∀ p ∈ pre, ∀ e ∈ q, e.uid ≠ p.1)
    (hm : Match q post) (hwire : wire = gflat pre ++ headWritten q) :
    ∃ pre' post', (pre ++ post).map (trunc removed) = pre' ++ post' ∧
      wire = gflat pre' ++ headWritten (q.filter fun e => !removed.any (·.uid = e.uid)) ∧
      Match (q.filter fun e => !removed.any (·.uid = e.uid)) post' := by
  have hpre' : pre.map (trunc removed) = pre := by
    rw [List.map_congr_left (g := id)]
    · simp
    · intro p hp
      rcases trunc_cases removed p with ⟨r, hr, hru, _⟩ | ⟨_, htr⟩
      · exact absurd hru (hpre p hp r (hrem r hr))
      · exact htr
  cases q with
  | nil =>
    refine ⟨pre, post.map (trunc removed), by simp [hpre'], hwire, ?_⟩
    exact hm.drop removed (fun r hr => Or.inr (by simp))
  | cons e tl =>
    simp only [List.map_cons, List.nodup_cons] at hnd
    simp only [List.tail_cons] at htl
    by_cases hany : (removed.any fun x => x.uid = e.uid) = true
    · obtain ⟨em, g, rfl, h2, h3⟩ := hm.inv_cons
      rw [List.any_eq_true] at hany
      obtain ⟨r, hr, hru⟩ := hany
      simp at hru
      have hre : r = e := by
        have hrq := hrem r hr
        simp only [List.mem_cons] at hrq
        rcases hrq with rfl | hrq
        · rfl
        · exact absurd (List.mem_map.2 ⟨r, hrq, hru⟩) hnd.1
      subst hre
      have htr : trunc removed (r.uid, r.data) = (r.uid, r.data.take r.written) := by
        rcases trunc_cases removed (r.uid, r.data) with ⟨r', hr', hru', htr⟩ | ⟨hnone, _⟩
        · have hrq := hrem r' hr'
          simp only [List.mem_cons] at hrq
          rcases hrq with rfl | hrq
          · exact htr
          · exact absurd (List.mem_map.2 ⟨r', hrq, hru'⟩) hnd.1
        · exact absurd rfl (hnone r hr)
      have hf : ((r :: tl).filter fun e => !removed.any (·.uid = e.uid)) =
          tl.filter fun e => !removed.any (·.uid = e.uid) := by
        rw [List.filter_cons]
        have : (removed.any fun x => x.uid = r.uid) = true := by
          rw [List.any_eq_true]; exact ⟨r, hr, by simp⟩
        simp [this]
      rw [hf]
      refine ⟨pre ++ em.map (trunc removed) ++ [(r.uid, r.data.take r.written)],
        g.map (trunc removed), ?_, ?_, ?_⟩
      · simp [hpre', htr]
      · rw [headWritten_fresh _ (fun x hx => htl x (List.mem_filter.1 hx).1), hwire,
          gflat_append, gflat_append,
          gflat_empty (em.map (trunc removed)) (by
            intro p hp
            simp only [List.mem_map] at hp
            obtain ⟨p0, hp0, rfl⟩ := hp
            exact trunc_empty _ _ (h2 p0 hp0))]
        simp [gflat, headWritten]
      · apply h3.drop removed
        intro r' hr'
        have hrq := hrem r' hr'
        simp only [List.mem_cons] at hrq
        rcases hrq with rfl | hrq
        · right
          intro x hx heq
          exact hnd.1 (List.mem_map.2 ⟨x, hx, heq⟩)
        · exact Or.inl (htl r' hrq)
    · have hany' : (removed.any fun x => x.uid = e.uid) = false := by simpa using hany
      have hf : ((e :: tl).filter fun e => !removed.any (·.uid = e.uid)) =
          e :: tl.filter fun e => !removed.any (·.uid = e.uid) := by
        rw [List.filter_cons]; simp [hany']
      refine ⟨pre, post.map (trunc removed), by simp [hpre'], ?_, ?_⟩
      · rw [hf]; exact hwire
      · apply hm.drop removed
        intro r hr
        have hrq := hrem r hr
        simp only [List.mem_cons] at hrq
        rcases hrq with rfl | hrq
        · rw [List.any_eq_false] at hany'
          exact absurd (by simp) (hany' r hr)
        · exact Or.inl (htl r hrq)


theorem hinv_drop_abs (h : Hist) (s' : St) (hi : HInv h) (hinv' : Inv s')
    (hsub : s'.queue.Sublist h.st.queue) (hsm : s'.smQueue = h.st.smQueue)
    (hn : s'.nextUid = h.st.nextUid) :
    HInv { st := s', wire := h.wire,
           ghost := h.ghost.map (trunc (h.st.queue.filter fun e =>
             !(s'.queue.any fun e' => e'.uid = e.uid) &&
             !(s'.smQueue.any fun e' => e'.uid = e.uid))) } := by
  generalize hrdef : (h.st.queue.filter fun e =>
             !(s'.queue.any fun e' => e'.uid = e.uid) &&
             !(s'.smQueue.any fun e' => e'.uid = e.uid)) = removed
  have hnd := hi.inv.uids_nodup
  have hrem : ∀ r ∈ removed, r ∈ h.st.queue := by
    intro r hr; rw [← hrdef] at hr; exact (List.mem_filter.1 hr).1
  have hfilter : (h.st.queue.filter fun e => !removed.any (·.uid = e.uid)) = s'.queue := by
    refine Eq.trans ?_ (filter_any_sublist hsub hnd)
    apply List.filter_congr
    intro e he
    cases hany : (s'.queue.any fun x => x.uid = e.uid)
    · have : (removed.any fun x => x.uid = e.uid) = true := by
        rw [List.any_eq_true]
        refine ⟨e, ?_, by simp⟩
        rw [← hrdef, List.mem_filter]
        refine ⟨he, ?_⟩
        rw [hany, hsm]
        have : (h.st.smQueue.any fun e' => e'.uid = e.uid) = false := by
          rw [List.any_eq_false]
          intro x hx
          have := hi.sm_disj x hx e he
          simp; exact fun h => this h.symm
        simp [this]
      simp [this]
    · have : (removed.any fun x => x.uid = e.uid) = false := by
        rw [List.any_eq_false]
        intro r hr hru
        simp at hru
        have hre := eq_of_uid_eq hnd (hrem r hr) he hru
        subst hre
        rw [← hrdef, List.mem_filter] at hr
        simp [hany] at hr
      simp [this]
  constructor
  · exact hinv'
  · intro e he; simp only [hsm, hn] at he ⊢; exact hi.sm_lt e he
  · intro e he e' he'
    simp only [hsm] at he
    exact hi.sm_disj e he e' (hsub.subset he')
  · intro p hp
    simp only [List.mem_map] at hp
    obtain ⟨p0, hp0, rfl⟩ := hp
    simp only [trunc_fst, hn]
    exact hi.g_lt p0 hp0
  · simp only [List.map_map]
    have : ((fun p : Nat × Bytes => p.1) ∘ trunc removed) = fun p => p.1 := by
      funext p; exact trunc_fst removed p
    rw [this]
    exact hi.g_nodup
  · obtain ⟨pre, post, hg, hwire, hm⟩ := hi.split
    have hgn := hi.g_nodup
    rw [hg, List.map_append, List.nodup_append] at hgn
    have hpre : ∀ p ∈ pre, ∀ e ∈ h.st.queue, e.uid ≠ p.1 := by
      intro p hp e he heq
      exact hgn.2.2 p.1 (List.mem_map.2 ⟨p, hp, rfl⟩) e.uid (hm.uids e he) heq.symm
    obtain ⟨pre', post', h1, h2, h3⟩ := drop_split h.st.queue removed pre post h.wire hnd
      (fun e he => (hi.inv.tail_fresh e he).1) hrem hpre hm hwire
    rw [hfilter] at h2 h3
    exact ⟨pre', post', by simp only [hg, h1], h2, h3⟩

theorem unlinkAt_smQueue (s : St) (i) : (unlinkAt s i).smQueue = s.smQueue := by
  unfold unlinkAt; split <;> rfl
theorem unlinkAt_nextUid (s : St) (i) : (unlinkAt s i).nextUid = s.nextUid := by
  unfold unlinkAt; split <;> rfl
theorem dropS1_smQueue (s : St) (t e) : (dropS1 s t e).smQueue = s.smQueue := by
  unfold dropS1; split
  · split
    · simp [unlinkAt_smQueue]
    · rfl
  · rfl
theorem dropS1_nextUid (s : St) (t e) : (dropS1 s t e).nextUid = s.nextUid := by
  unfold dropS1; split
  · split
    · simp [unlinkAt_nextUid]
    · rfl
  · rfl

theorem dropElement_fields (s : St) (w : Which) :
    (dropElement s w).1.queue.Sublist s.queue ∧ (dropElement s w).1.smQueue = s.smQueue ∧
    (dropElement s w).1.nextUid = s.nextUid := by
  rcases dropElement_eq s w with h1 | ⟨head, tl, t0, t, e, _, _, _, _, _, h1⟩
  · rw [h1]; exact ⟨List.Sublist.refl _, rfl, rfl⟩
  · rw [h1]
    refine ⟨?_, by simp [unlinkAt_smQueue, dropS1_smQueue], by simp [unlinkAt_nextUid, dropS1_nextUid]⟩
    rcases drop_queue s t e with hq | ⟨r, _, _, hq⟩
    · rw [hq]; exact List.eraseIdx_sublist _ _
    · rw [hq]; exact (List.eraseIdx_sublist _ _).trans (List.eraseIdx_sublist _ _)

theorem hinv_drop (h : Hist) (w : Which) (hi : HInv h) : HInv (stepH h (.drop w)) := by
  rw [stepH_drop]
  obtain ⟨h1, h2, h3⟩ := dropElement_fields h.st w
  exact hinv_drop_abs h _ hi (dropElement_inv _ _ hi.inv) h1 h2 h3

theorem hinv_step (h : Hist) (op : Op) (hi : HInv h) : HInv (stepH h op) := by
  cases op with
  | send o d => exact hinv_send h o d hi
  | run sched => exact hinv_run h sched hi
  | drop w => exact hinv_drop h w hi
  | setSm b => exact hinv_setSm h b hi
  | disc => exact hinv_disc h hi

theorem hinv_reachable (ops : List Op) : HInv (runH ops) :=
  foldl_stepH_ind HInv hinv_step ops {} hinv_init

/-- the global statement: at any point of any history, the bytes on the wire followed by the bytes
    still queued are exactly the texts handed in (minus what drops took back), in order -/
theorem wire_is_fifo (ops : List Op) :
    (runH ops).wire ++ pending (runH ops).st.queue =
      ((runH ops).ghost.map (·.2)).flatten :=
  (hinv_reachable ops).fifo

/-- on a live connection a drop takes the whole text back: nothing of a dropped element is, or
    will ever be, on the wire -/
theorem dropped_never_on_wire (h : Hist) (w : Which) (hi : Inv h.st) (hc : h.st.connected)
    (hg : h.wire ++ pending h.st.queue = (h.ghost.map (·.2)).flatten) :
    ∀ u t, (u, t) ∈ (stepH h (.drop w)).ghost → (u, t) ∈ h.ghost ∨ t = [] := by
  have _ := hg
  intro u t hut
  rw [stepH_drop] at hut
  simp only [List.mem_map] at hut
  obtain ⟨p, hp, hpe⟩ := hut
  rcases trunc_cases _ p with ⟨r, hr, hru, htr⟩ | ⟨_, htr⟩
  · right
    rw [htr] at hpe
    rw [List.mem_filter] at hr
    obtain ⟨hrq, hrc⟩ := hr
    simp only [Bool.and_eq_true, Bool.not_eq_true', List.any_eq_false, decide_eq_true_eq] at hrc
    have hnot : r ∉ (dropElement h.st w).1.queue := fun hm => hrc.1 r hm rfl
    -- the removed element was not started
    have hw0 : r.written = 0 := by
      cases hde : dropElement h.st w with
      | mk s' res =>
        rw [hde] at hnot
        cases res with
        | none =>
          have := (drop_none h.st w s' hi hde).1
          subst this
          exact absurd hrq hnot
        | some txt =>
          obtain ⟨i, e, he, _, _, hfresh, _, hq'⟩ := drop_exact h.st w txt s' hi hde
          obtain ⟨k, hk⟩ := List.mem_iff_getElem?.1 hrq
          have hkl : k < h.st.queue.length := (List.getElem?_eq_some_iff.1 hk).1
          have hk' : h.st.queue[k] = r := by
            rw [List.getElem?_eq_getElem hkl] at hk; exact Option.some.inj hk
          by_cases hki : k = i
          · subst hki
            rw [he] at hk
            have := Option.some.inj hk
            subst this
            exact (hfresh hc).1
          · by_cases hk0 : k = 0
            · -- then r stays in the queue
              exfalso
              apply hnot
              simp only at hq' ⊢
              rcases hq' with hq' | ⟨_, _, _, _, hq'⟩
              · rw [hq', List.mem_eraseIdx_iff_getElem]
                exact ⟨k, hkl, hki, hk'⟩
              · rw [hq', List.mem_eraseIdx_iff_getElem]
                refine ⟨k, ?_, hki, ?_⟩
                · rw [List.length_eraseIdx]; split <;> omega
                · rw [List.getElem_eraseIdx]
                  split
                  · exact hk'
                  · omega
            · obtain ⟨k', rfl⟩ : ∃ k', k = k' + 1 := ⟨k - 1, by omega⟩
              exact (hi.tail_fresh r (mem_tail_of_getElem? hk)).1
    simp only [Prod.mk.injEq] at hpe
    rw [← hpe.2, hw0]
    simp
  · left
    rw [htr] at hpe
    rw [← hpe]; exact hp

theorem send_appends (s : St) (o : Owner) (d : Bytes) :
    (¬ s.connected → sendRaw s o d = s) ∧
    (s.connected → ∃ extra, (extra = [] ∨ extra = Gen.reqAck) ∧
        pending (sendRaw s o d).queue = pending s.queue ++ d ++ extra ∧
        ∃ added, (sendRaw s o d).queue = s.queue ++ added) :=
  send_appends_core s (adjustOwner s o) d

end Strophe.Lemmas.SendQueue
