/-
Helper lemmas and the proofs behind Props/C06.lean.
-/
import Strophe.Model.SendQueue

namespace Strophe.Lemmas.SendQueue
open Strophe Strophe.SendQueue

/-- number of USER elements -/
def userCount (q : List Elem) : Nat := (q.filter fun e => e.owner = .user).length

/-- number of USER elements the write loop has not touched yet -/
def notStarted (q : List Elem) : Nat := (q.filter fun e => e.owner = .user && !e.wip).length

/-- the structural invariant of the native queue -/
structure Inv (s : St) : Prop where
  len_eq : s.len = s.queue.length
  userLen_eq : s.userLen = userCount s.queue
  written_le : ∀ e ∈ s.queue, e.written ≤ e.data.length
  tail_fresh : ∀ e ∈ s.queue.tail, e.written = 0 ∧ e.wip = false
  uids_lt : ∀ e ∈ s.queue, e.uid < s.nextUid
  uids_nodup : (s.queue.map (·.uid)).Nodup
  link_prev : ∀ i e, s.queue[i]? = some e → ∀ u, e.link = some u →
      (∀ j e', s.queue[j]? = some e' → e'.uid = u → j + 1 = i)

theorem inv_init : Inv ({} : St) := by
  sorry

theorem inv_step (s : St) (op : Op) (h : Inv s) : Inv (step s op).1 := by
  sorry

theorem inv_reachable (ops : List Op) : Inv (runH ops).st := by
  sorry

/-- `send`: refused when not connected; otherwise the text (followed by a linked `<r/>` when stream
    management asks for one) is appended, nothing else changes and nothing is written -/
theorem send_appends (s : St) (o : Owner) (d : Bytes) :
    (¬ s.connected → sendRaw s o d = s) ∧
    (s.connected → ∃ extra, (extra = [] ∨ extra = Gen.reqAck) ∧
        pending (sendRaw s o d).queue = pending s.queue ++ d ++ extra ∧
        ∃ added, (sendRaw s o d).queue = s.queue ++ added) := by
  sorry

/-- the write loop neither loses, repeats nor reorders bytes, whatever the transport accepts -/
theorem run_fifo (s : St) (sched : List Accept) (h : Inv s) :
    (runOnce s sched).2 ++ pending (runOnce s sched).1.queue = pending s.queue ∨
    (¬ s.connected ∧ runOnce s sched = (s, [])) := by
  sorry

/-- what a successful drop does -/
theorem drop_exact (s : St) (w : Which) (t : Bytes) (s' : St) (h : Inv s)
    (hd : dropElement s w = (s', some t)) :
    ∃ i e, s.queue[i]? = some e ∧ e.owner = .user ∧ e.data = t ∧
      (s.connected → e.written = 0 ∧ e.wip = false) ∧
      -- it is the oldest / youngest droppable user element
      (∀ j e', s.queue[j]? = some e' → e'.owner = .user → (s.connected → e'.wip = false) →
          (w = .oldest → i ≤ j) ∧ (w = .youngest → j ≤ i)) ∧
      -- exactly it, and an `<r/>` linked to it, leave the queue
      (s'.queue = s.queue.eraseIdx i ∨
       (∃ r, s.queue[i + 1]? = some r ∧ r.link = some e.uid ∧ r.owner = .smStrophe ∧
             s'.queue = (s.queue.eraseIdx (i + 1)).eraseIdx i)) := by
  sorry

/-- a refused drop leaves everything as it was, and is refused only when no user element is
    droppable -/
theorem drop_none (s : St) (w : Which) (s' : St) (h : Inv s)
    (hd : dropElement s w = (s', none)) :
    s' = s ∧ ∀ e ∈ s.queue, e.owner = .user → s.connected ∧ e.wip = true := by
  sorry

theorem len_counts_not_started (s : St) (h : Inv s) : queueLen s = notStarted s.queue := by
  sorry

/-- the global statement: at any point of any history, the bytes on the wire followed by the bytes
    still queued are exactly the texts handed in (minus what drops took back), in order -/
theorem wire_is_fifo (ops : List Op) :
    (runH ops).wire ++ pending (runH ops).st.queue =
      ((runH ops).ghost.map (·.2)).flatten := by
  sorry

/-- on a live connection a drop takes the whole text back: nothing of a dropped element is, or
    will ever be, on the wire -/
theorem dropped_never_on_wire (h : Hist) (w : Which) (hi : Inv h.st) (hc : h.st.connected)
    (hg : h.wire ++ pending h.st.queue = (h.ghost.map (·.2)).flatten) :
    ∀ u t, (u, t) ∈ (stepH h (.drop w)).ghost → (u, t) ∈ h.ghost ∨ t = [] := by
  sorry

theorem at_most_one_disconnect_per_op (s : St) (op : Op) :
    (step s op).1.disconnects ≤ s.disconnects + 1 := by
  sorry

end Strophe.Lemmas.SendQueue
