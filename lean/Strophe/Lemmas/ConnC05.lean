/-
Proofs behind Props/C05.lean (XEP-0198 inbound count).
-/
import Strophe.Model.ConnOps

namespace Strophe.Lemmas.ConnC05
open Strophe Strophe.Conn

/-- SPECIFICATION of the inbound count, over the history of what was dispatched: it starts at 0
    when `<enabled/>` answers our `<enable/>`, goes up by one for every dispatched stanza that is not
    an XEP-0198 element while stream management is on, and is carried across connections -/
def countSince : List RxEv → Nat
  | [] => 0
  | l => l.foldl (fun n e => match e with
      | .stanza true => n + 1
      | .stanza false => n
      | .enabledAccepted => 0
      | .smReset => 0) 0

/-- the counter IS that number (mod 2^32) in every reachable state -/
theorem handled_is_dispatch_count (jid pass : Option Bytes) (cert : Bool) (flags : Nat) (ops : List Op) :
    let c := exec (fresh jid pass cert flags) ops
    c.sm.handledNr = UInt32.ofNat (countSince c.rxLog) := by
  sorry

/-- XEP-0198 elements themselves are never counted -/
theorem sm_elements_never_counted (c0 : Conn) (st : XTree) (h : st.ns? = some Gen.nsSm) :
    countsInbound c0 st = false := by
  sorry

/-- every `<r/>` is answered by exactly one `<a/>` carrying the current count, queued at once (and
    the answer is itself not a stanza: it is never numbered) -/
theorem every_r_one_a (c : Conn) (st : XTree) (hns : st.ns? = some Gen.nsSm)
    (hname : st.name? = some (b "r")) (hstate : c.state = .connected) :
    ∃ e, (smHandleStanza c st).queue = c.queue ++ [e] ∧ e.item = .ack c.sm.handledNr ∧
      e.owner = .smStrophe ∧ (smHandleStanza c st).sm.handledNr = c.sm.handledNr := by
  sorry

/-- the `h` of every `<a/>` and of every `<resume/>` that reaches the wire is the counter as it was
    when the element was produced -/
theorem reported_h_is_count (jid pass : Option Bytes) (cert : Bool) (flags : Nat) (ops : List Op)
    (hu : userOps ops) :
    ∀ r ∈ (exec (fresh jid pass cert flags) ops).tx,
      (∀ h, r.item = .ack h → h = r.snap.handledNr) ∧
      (∀ p h, r.item = .resume p h → h = r.snap.handledNr) := by
  sorry

/-- the count survives the loss of the connection and the next connect (it is what `<resume/>`
    will report) -/
theorem count_carried_across (c : Conn) (k : ConnectKind) (hsm : c.hasSm = true) :
    (connDisconnect c).sm.handledNr = c.sm.handledNr ∧ (step c (.connect k)).sm.handledNr = c.sm.handledNr := by
  sorry

end Strophe.Lemmas.ConnC05
