/-
Proofs behind Props/C05.lean (XEP-0198 inbound count).

  ConnC05Base.lean  the specification `countSince`, `Agree`, `Same`; the two step-level statements
  ConnC05Tx.lean    `reported_h_is_count`: elementwise invariant over queue / retained queue / wire log
  ConnC05Same.lean  the functions that leave counter, history and "SM record exists" alone; connect calls
  ConnC05Hs.lean    registration of `_handle_sm` (namespace filter, never an id handler)
  ConnC05Fire.lean  one dispatch against the ghost marks (`fireStanza_count`, `handleStreamStanza_agree`)
  ConnC05Main.lean  assembly with the C03 invariant (at most one negotiation handler pending)
-/
import Strophe.Lemmas.ConnC05Base
import Strophe.Lemmas.ConnC05Tx
import Strophe.Lemmas.ConnC05Same
import Strophe.Lemmas.ConnC05Main

namespace Strophe.Lemmas.ConnC05
open Strophe Strophe.Conn

/-- the counter IS that number (mod 2^32) in every reachable state -/
theorem handled_is_dispatch_count (jid pass : Option Bytes) (cert : Bool) (flags : Nat) (ops : List Op) :
    let c := exec (fresh jid pass cert flags) ops
    c.sm.handledNr = UInt32.ofNat (countSince c.rxLog) :=
  handled_is_dispatch_count' jid pass cert flags ops

/-- XEP-0198 elements themselves are never counted -/
theorem sm_elements_never_counted (c0 : Conn) (st : XTree) (h : st.ns? = some Gen.nsSm) :
    countsInbound c0 st = false :=
  sm_elements_never_counted' c0 st h

/-- every `<r/>` is answered by exactly one `<a/>` carrying the current count, queued at once (and
    the answer is itself not a stanza: it is never numbered) -/
theorem every_r_one_a (c : Conn) (st : XTree) (hns : st.ns? = some Gen.nsSm)
    (hname : st.name? = some (b "r")) (hstate : c.state = .connected) :
    ∃ e, (smHandleStanza c st).queue = c.queue ++ [e] ∧ e.item = .ack c.sm.handledNr ∧
      e.owner = .smStrophe ∧ (smHandleStanza c st).sm.handledNr = c.sm.handledNr :=
  every_r_one_a' c st hns hname hstate

/-- the `h` of every `<a/>` and of every `<resume/>` that reaches the wire is the counter as it was
    when the element was produced -/
theorem reported_h_is_count (jid pass : Option Bytes) (cert : Bool) (flags : Nat) (ops : List Op)
    (hu : userOps ops) :
    ∀ r ∈ (exec (fresh jid pass cert flags) ops).tx,
      (∀ h, r.item = .ack h → h = r.snap.handledNr) ∧
      (∀ p h, r.item = .resume p h → h = r.snap.handledNr) :=
  reported_h_is_count' jid pass cert flags ops hu

/-- the count survives the loss of the connection and the next connect (it is what `<resume/>`
    will report) -/
theorem count_carried_across (c : Conn) (k : ConnectKind) (hsm : c.hasSm = true) :
    (connDisconnect c).sm.handledNr = c.sm.handledNr ∧ (step c (.connect k)).sm.handledNr = c.sm.handledNr :=
  count_carried_across' c k hsm

end Strophe.Lemmas.ConnC05
