/-
C03, part D: the feature handlers (`_handle_features`, `_handle_features_sasl`,
`_handle_features_compress`), bind / session / stream management requests.
-/
import Strophe.Lemmas.ConnC03C

namespace Strophe.Lemmas.ConnC03
open Strophe Strophe.Conn

variable {jid : Option Bytes} {U : Item → Prop} {NR : Prop} {p : Par} {c : Conn}

/-! ### `noteOffers` -/

theorem GhostGrow.trans {a b c : Ghost} (h1 : GhostGrow a b) (h2 : GhostGrow b c) : GhostGrow a c :=
  ⟨h2.att.trans h1.att, fun x => h2.tls (h1.tls x), fun i x => h2.mechs i (h1.mechs i x),
   fun x => h2.bind (h1.bind x), fun x => h2.sess (h1.sess x), fun x => h2.sm (h1.sm x),
   fun x => h2.comp (h1.comp x), fun x => h2.auth (h1.auth x), fun x => h2.bound (h1.bound x),
   fun x => h2.resumed (h1.resumed x), h2.nc.trans h1.nc⟩

theorem foldl_or_mono (l : List Bytes) (x i : Nat) (h : x.testBit i = true) :
    (l.foldl (fun a t => a ||| mechBit t) x).testBit i = true := by
  induction l generalizing x with
  | nil => exact h
  | cons t l ih => exact ih _ (by rw [Nat.testBit_or, h]; rfl)

theorem foldl_or_mem (l : List Bytes) (x i : Nat) (t : Bytes) (ht : t ∈ l)
    (h : (mechBit t).testBit i = true) :
    (l.foldl (fun a t => a ||| mechBit t) x).testBit i = true := by
  induction l generalizing x with
  | nil => cases ht
  | cons t' l ih =>
    rcases List.mem_cons.1 ht with e | e
    · subst e; exact foldl_or_mono l _ i (by rw [Nat.testBit_or, h, Bool.or_true])
    · exact ih _ e

def no1 (st : XTree) (g : Ghost) : Ghost :=
  if (st.childByNameNs (b "starttls") Gen.nsTls).isSome then { g with offeredTls := true } else g
def no2 (st : XTree) (g : Ghost) : Ghost :=
  match st.childByNameNs (b "mechanisms") Gen.nsSasl with
  | some m => { g with offeredMechs := (childTexts m (b "mechanism")).foldl (fun a t => a ||| mechBit t) g.offeredMechs }
  | none => g
def no3 (st : XTree) (g : Ghost) : Ghost :=
  if (st.childByNameNs (b "bind") Gen.nsBind).isSome then { g with offeredBind := true } else g
def no4 (st : XTree) (g : Ghost) : Ghost :=
  if (st.childByNameNs (b "session") Gen.nsSession).isSome then { g with offeredSession := true } else g
def no5 (st : XTree) (g : Ghost) : Ghost :=
  if (st.childByNameNs (b "sm") Gen.nsSm).isSome then { g with offeredSm := true } else g
def no6 (st : XTree) (g : Ghost) : Ghost :=
  if (st.childByNameNs (b "compression") (b "http://jabber.org/features/compress")).isSome
    then { g with offeredComp := true } else g

def noG (st : XTree) (g : Ghost) : Ghost := no6 st (no5 st (no4 st (no3 st (no2 st (no1 st g)))))

theorem noteOffers_eq (c : Conn) (st : XTree) : noteOffers c st = { c with g := noG st c.g } := rfl

theorem no1_grow (st g) : GhostGrow g (no1 st g) := by
  unfold no1; split
  · exact ⟨rfl, fun _ => rfl, fun _ => id, id, id, id, id, id, id, id, rfl⟩
  · exact GhostGrow.refl _
theorem no2_grow (st g) : GhostGrow g (no2 st g) := by
  unfold no2; split
  · exact ⟨rfl, id, fun i a => foldl_or_mono _ _ i a, id, id, id, id, id, id, id, rfl⟩
  · exact GhostGrow.refl _
theorem no3_grow (st g) : GhostGrow g (no3 st g) := by
  unfold no3; split
  · exact ⟨rfl, id, fun _ => id, fun _ => rfl, id, id, id, id, id, id, rfl⟩
  · exact GhostGrow.refl _
theorem no4_grow (st g) : GhostGrow g (no4 st g) := by
  unfold no4; split
  · exact ⟨rfl, id, fun _ => id, id, fun _ => rfl, id, id, id, id, id, rfl⟩
  · exact GhostGrow.refl _
theorem no5_grow (st g) : GhostGrow g (no5 st g) := by
  unfold no5; split
  · exact ⟨rfl, id, fun _ => id, id, id, fun _ => rfl, id, id, id, id, rfl⟩
  · exact GhostGrow.refl _
theorem no6_grow (st g) : GhostGrow g (no6 st g) := by
  unfold no6; split
  · exact ⟨rfl, id, fun _ => id, id, id, id, fun _ => rfl, id, id, id, rfl⟩
  · exact GhostGrow.refl _

theorem noG_grow (st g) : GhostGrow g (noG st g) :=
  (no1_grow st g).trans <| (no2_grow st _).trans <| (no3_grow st _).trans <| (no4_grow st _).trans <|
    (no5_grow st _).trans (no6_grow st _)

/-- the other ghost fields are untouched -/
theorem noG_same (st g) : (noG st g).authOk = g.authOk ∧ (noG st g).bound = g.bound ∧
    (noG st g).resumed = g.resumed ∧ (noG st g).notifiedConnect = g.notifiedConnect ∧
    (noG st g).handshakeAck = g.handshakeAck ∧ (noG st g).legacyOk = g.legacyOk := by
  unfold noG no6 no5 no4 no3 no2 no1
  refine ⟨?_, ?_, ?_, ?_, ?_, ?_⟩ <;> (repeat' split) <;> rfl

theorem noG_tls (st g) (h : (st.childByNameNs (b "starttls") Gen.nsTls).isSome = true) :
    (noG st g).offeredTls = true := by
  have : (no1 st g).offeredTls = true := by unfold no1; rw [if_pos h]
  exact ((no2_grow st _).trans <| (no3_grow st _).trans <| (no4_grow st _).trans <|
    (no5_grow st _).trans (no6_grow st _)).tls this

theorem noG_mechs (st g) (m : XTree) (h : st.childByNameNs (b "mechanisms") Gen.nsSasl = some m)
    (t : Bytes) (ht : t ∈ childTexts m (b "mechanism")) (i : Nat) (hi : (mechBit t).testBit i = true) :
    (noG st g).offeredMechs.testBit i = true := by
  have : (no2 st (no1 st g)).offeredMechs.testBit i = true := by
    unfold no2; rw [h]; exact foldl_or_mem _ _ i t ht hi
  exact ((no3_grow st _).trans <| (no4_grow st _).trans <| (no5_grow st _).trans (no6_grow st _)).mechs i this

theorem noG_bind (st g) (h : (st.childByNameNs (b "bind") Gen.nsBind).isSome = true) :
    (noG st g).offeredBind = true := by
  have : (no3 st (no2 st (no1 st g))).offeredBind = true := by unfold no3; rw [if_pos h]
  exact ((no4_grow st _).trans <| (no5_grow st _).trans (no6_grow st _)).bind this

theorem noG_sess (st g) (h : (st.childByNameNs (b "session") Gen.nsSession).isSome = true) :
    (noG st g).offeredSession = true := by
  have : (no4 st (no3 st (no2 st (no1 st g)))).offeredSession = true := by unfold no4; rw [if_pos h]
  exact ((no5_grow st _).trans (no6_grow st _)).sess this

theorem noG_sm (st g) (h : (st.childByNameNs (b "sm") Gen.nsSm).isSome = true) :
    (noG st g).offeredSm = true := by
  have : (no5 st (no4 st (no3 st (no2 st (no1 st g))))).offeredSm = true := by unfold no5; rw [if_pos h]
  exact (no6_grow st _).sm this

theorem noG_comp (st g)
    (h : (st.childByNameNs (b "compression") (b "http://jabber.org/features/compress")).isSome = true) :
    (noG st g).offeredComp = true := by
  unfold noG no6; rw [if_pos h]

/-- recording offers preserves the invariant -/
theorem Inv.noteOffers (h : Inv jid U NR p c) (st : XTree) : Inv jid U NR p (Conn.noteOffers c st) := by
  rw [noteOffers_eq]
  have gr := noG_grow st c.g
  have sm := noG_same st c.g
  refine ⟨h.cfg, ?_, h.e.grow gr, h.gg.grow gr ?_, ?_, h.f, h.ts⟩
  · have := h.q; dsimp only; rw [sm.2.2.2.1]; exact this
  · intro a; rw [sm.1]; exact (h.gg.cg a).2.1
  · exact h.h.weaken sm.1 sm.2.2.2.1 (fun a => by rw [sm.2.1]; exact a) (fun a => by rw [sm.2.2.1]; exact a)
      id (fun a => ⟨a, id⟩) id id (fun a => Or.inl a)

/-! ### `_handle_sasl_children` -/

theorem ciEq_excl {t x y : Bytes} (h1 : ciEq t x = true) (h2 : ciEq t y = true) :
    x.map toLower = y.map toLower := by
  unfold ciEq at h1 h2
  have a := of_decide_eq_true h1; have b' := of_decide_eq_true h2
  rw [← a, ← b']

theorem ext_ne_digest : (b "EXTERNAL").map toLower ≠ (b "DIGEST-MD5").map toLower := by decide
theorem ext_ne_anon : (b "EXTERNAL").map toLower ≠ (b "ANONYMOUS").map toLower := by decide
theorem ext_ne_scram : ∀ q ∈ Gen.scramAlgs, (b "EXTERNAL").map toLower ≠ q.1.map toLower := by decide

/-- every bit `_handle_sasl_children` sets belongs to the offered mechanism -/
theorem saslChild_spec (c : Conn) (t : Bytes) :
    ∃ v, saslChild c t = { c with saslSupport := v } ∧
      ∀ i, v.testBit i = true → c.saslSupport.testBit i = true ∨ (mechBit t).testBit i = true := by
  unfold saslChild mechBit
  by_cases h1 : ciEq t (b "PLAIN") = true
  · rw [if_pos h1, if_pos h1]
    exact ⟨_, rfl, fun i a => by rwa [Nat.testBit_or, Bool.or_eq_true] at a⟩
  rw [if_neg h1, if_neg h1]
  by_cases h2 : ciEq t (b "EXTERNAL") = true
  · rw [if_pos h2]
    by_cases hc : c.cert = true
    · rw [if_pos (by rw [h2, hc]; rfl)]
      exact ⟨_, rfl, fun i a => by rwa [Nat.testBit_or, Bool.or_eq_true] at a⟩
    · rw [if_neg (by rw [h2]; simpa using hc)]
      rw [if_neg (fun a => ext_ne_digest (ciEq_excl h2 a)), if_neg (fun a => ext_ne_anon (ciEq_excl h2 a))]
      have : (Gen.scramAlgs.find? fun x => ciEq t x.1) = none := by
        rw [List.find?_eq_none]; intro q hq a; exact ext_ne_scram q hq (ciEq_excl h2 a)
      simp only [this]
      exact ⟨c.saslSupport, rfl, fun i a => Or.inl a⟩
  rw [if_neg h2, if_neg (by simp [h2])]
  by_cases h3 : ciEq t (b "DIGEST-MD5") = true
  · rw [if_pos h3, if_pos h3]
    exact ⟨_, rfl, fun i a => by rwa [Nat.testBit_or, Bool.or_eq_true] at a⟩
  rw [if_neg h3, if_neg h3]
  by_cases h4 : ciEq t (b "ANONYMOUS") = true
  · rw [if_pos h4, if_pos h4]
    exact ⟨_, rfl, fun i a => by rwa [Nat.testBit_or, Bool.or_eq_true] at a⟩
  rw [if_neg h4, if_neg h4]
  cases hf : Gen.scramAlgs.find? (fun x => ciEq t x.1) with
  | none => exact ⟨c.saslSupport, rfl, fun i a => Or.inl a⟩
  | some q => exact ⟨_, rfl, fun i a => by rwa [Nat.testBit_or, Bool.or_eq_true] at a⟩

theorem saslFold_spec (l : List Bytes) (c : Conn) :
    ∃ v, l.foldl saslChild c = { c with saslSupport := v } ∧
      ∀ i, v.testBit i = true → c.saslSupport.testBit i = true ∨ ∃ t ∈ l, (mechBit t).testBit i = true := by
  induction l generalizing c with
  | nil => exact ⟨c.saslSupport, rfl, fun i a => Or.inl a⟩
  | cons t l ih =>
    obtain ⟨v1, e1, h1⟩ := saslChild_spec c t
    obtain ⟨v2, e2, h2⟩ := ih { c with saslSupport := v1 }
    refine ⟨v2, by rw [List.foldl_cons, e1, e2], fun i a => ?_⟩
    rcases h2 i a with b' | ⟨t', ht', b'⟩
    · rcases h1 i b' with d | d
      · exact Or.inl d
      · exact Or.inr ⟨t, List.mem_cons_self, d⟩
    · exact Or.inr ⟨t', List.mem_cons_of_mem _ ht', b'⟩

/-! ### entering a pending handler -/

def keys (c : Conn) : List HK := c.handlers.map hkey ++ c.idHandlers.map hkey

theorem Inv.enter (h : Inv jid U NR p c) (hx : p.x = none) {u : Nat} {K : SysH} {usr : Bool}
    (hk : (u, HFun.sys K, usr) ∈ keys c) (hK : K ≠ .error)
    (hnt : ∀ k ∈ c.timed.map tkey, k.2.1 = .missingFeatures → p.y = some k.1) (xs : Bool)
    (hside : (xs = true → (u, HFun.sys K, usr) ∈ c.handlers.map hkey) ∧
      (xs = false → (u, HFun.sys K, usr) ∈ c.idHandlers.map hkey)) :
    Inv jid U NR { p with x := some u, xs := xs } c ∧ PendNil (some u) c := by
  have hh := h.h; rw [hx] at hh
  have nd := hh.nd
  simp only [List.map_append, List.nodup_append] at nd
  refine ⟨⟨h.cfg, h.q, h.e, h.gg, hh.enter u (hh.uidH _ hk) hnt xs ⟨?_, ?_⟩, h.f.congr rfl rfl id id, h.ts⟩, ?_⟩
  · intro e k a b'
    exact nd.2.2 _ (List.mem_map_of_mem (hside.1 e)) _ (List.mem_map_of_mem a) b'.symm
  · intro e k a b'
    exact nd.2.2 _ (List.mem_map_of_mem a) _ (List.mem_map_of_mem (hside.2 e)) b'
  · intro k a nk
    have := hh.one k a _ hk nk ⟨K, rfl, hK⟩ (by simp) (by simp)
    rw [this]

theorem Inv.pend_phase (h : Inv jid U NR p c) (hx : p.x = none) {u : Nat} {K : SysH} {usr : Bool}
    (hk : (u, HFun.sys K, usr) ∈ keys c) (hK : K ≠ .error) :
    c.g.notifiedConnect = false ∧ Phase c.g c.secured c.sm.enabled c.sm.resume c.state K :=
  h.h.phase _ hk K rfl hK (by rw [hx]; simp)

theorem Inv.no_mf (h : Inv jid U NR p c) (hx : p.x = none) {u : Nat} {K : SysH} {usr : Bool}
    (hk : (u, HFun.sys K, usr) ∈ keys c) (hK : K ≠ .error) (hKf : K ≠ .features) :
    ∀ k ∈ c.timed.map tkey, k.2.1 = .missingFeatures → p.y = some k.1 := by
  intro k a b'
  cases hy : decide (p.y = some k.1) with
  | true => exact of_decide_eq_true hy
  | false =>
    obtain ⟨_, k', h2, h3, _⟩ := h.h.t1 k a b' (of_decide_eq_false hy)
    have := h.h.one k' h2 _ hk ⟨_, h3, by simp⟩ ⟨K, rfl, hK⟩ (by rw [hx]; simp) (by rw [hx]; simp)
    rw [this] at h3; cases h3; exact absurd rfl hKf

/-- facts about the parameters inside a stanza dispatch -/
structure PC (p : Par) : Prop where
  rpb : p.rpb = false
  pb : p.pb ≠ .fresh
  sb : p.sb = .connected
  rb : p.rb = false

theorem PC.hc {p : Par} (pc : PC p) (hn : PendNil p.x c) (nn : c.g.notifiedConnect = false) : HC p c :=
  ⟨hn, nn, pc.rpb, pc.pb, pc.sb, pc.rb⟩

theorem PC.setX {p : Par} (pc : PC p) (x : Option Nat) (xs : Bool) : PC { p with x := x, xs := xs } :=
  ⟨pc.rpb, pc.pb, pc.sb, pc.rb⟩

/-! ### `_handle_features` -/

theorem and_testBit_left' {a m : Nat} (i : Nat) (h : (a &&& m).testBit i = true) : a.testBit i = true :=
  and_testBit_left i h

def hf1 (c0 : Conn) (st : XTree) : Conn :=
  if !c0.secured then
    if !c0.tlsDisabled then
      if (st.childByNameNs (b "starttls") Gen.nsTls).isSome then { c0 with tlsSupport := true } else c0
    else { c0 with tlsSupport := false }
  else c0
def hf2 (c1 : Conn) (st : XTree) : Conn :=
  match st.childByNameNs (b "mechanisms") Gen.nsSasl with
  | some m => (childTexts m (b "mechanism")).foldl saslChild c1
  | none => c1
def hf3 (c2 : Conn) : Conn :=
  if c2.saslSupport &&& ((Gen.saslMaskPlain ||| Gen.saslMaskAnonymous) ^^^ 0xFFFF) ≠ 0
    then { c2 with saslSupport := c2.saslSupport &&& (Gen.saslMaskPlain ^^^ 0xFFFF) } else c2

theorem handleFeatures_eq (c : Conn) (st : XTree) :
    handleFeatures c st = authTop (hf3 (hf2 (hf1 (delTimed (noteOffers c st) .missingFeatures) st) st)) := rfl

theorem hf1_spec (c0 : Conn) (st : XTree) (hts : c0.tlsSupport = false) :
    ∃ tsv, hf1 c0 st = { c0 with tlsSupport := tsv } ∧
      (tsv = true → c0.secured = false ∧ (st.childByNameNs (b "starttls") Gen.nsTls).isSome = true) := by
  unfold hf1
  by_cases a1 : (!c0.secured) = true
  · rw [if_pos a1]
    by_cases a2 : (!c0.tlsDisabled) = true
    · rw [if_pos a2]
      by_cases a3 : (st.childByNameNs (b "starttls") Gen.nsTls).isSome = true
      · rw [if_pos a3]; exact ⟨true, rfl, fun _ => ⟨by simpa using a1, a3⟩⟩
      · rw [if_neg a3]; exact ⟨c0.tlsSupport, rfl, fun a => by rw [hts] at a; cases a⟩
    · rw [if_neg a2]; exact ⟨false, rfl, fun a => by cases a⟩
  · rw [if_neg a1]; exact ⟨c0.tlsSupport, rfl, fun a => by rw [hts] at a; cases a⟩

theorem hf2_spec (c1 : Conn) (st : XTree) :
    ∃ v, hf2 c1 st = { c1 with saslSupport := v } ∧
      ∀ i, v.testBit i = true → c1.saslSupport.testBit i = true ∨
        ∃ m t, st.childByNameNs (b "mechanisms") Gen.nsSasl = some m ∧ t ∈ childTexts m (b "mechanism") ∧
          (mechBit t).testBit i = true := by
  unfold hf2
  cases hm : st.childByNameNs (b "mechanisms") Gen.nsSasl with
  | none => exact ⟨c1.saslSupport, rfl, fun i a => Or.inl a⟩
  | some m =>
    obtain ⟨v, e, hv⟩ := saslFold_spec (childTexts m (b "mechanism")) c1
    refine ⟨v, e, fun i a => ?_⟩
    rcases hv i a with b' | ⟨t, ht, b'⟩
    · exact Or.inl b'
    · exact Or.inr ⟨m, t, rfl, ht, b'⟩

theorem hf3_spec (c2 : Conn) :
    ∃ v, hf3 c2 = { c2 with saslSupport := v } ∧ ∀ i, v.testBit i = true → c2.saslSupport.testBit i = true := by
  unfold hf3; split
  · exact ⟨_, rfl, fun i a => and_testBit_left i a⟩
  · exact ⟨c2.saslSupport, rfl, fun i a => a⟩

theorem Inv.handleFeatures (h : Inv jid U NR p c) (hx : p.x = none) (pc : PC p) {u : Nat} {usr : Bool}
    (hk : (u, HFun.sys .features, usr) ∈ keys c) (xs : Bool)
    (hside : (xs = true → (u, HFun.sys .features, usr) ∈ c.handlers.map hkey) ∧
      (xs = false → (u, HFun.sys .features, usr) ∈ c.idHandlers.map hkey)) (st : XTree) :
    Inv jid U NR { p with x := some u, xs := xs } (Conn.handleFeatures c st) := by
  obtain ⟨hnn, hph⟩ := h.pend_phase hx hk (by simp)
  have hph : c.g.authOk = false := hph
  have h0 := (h.noteOffers st).delTimed .missingFeatures
  obtain ⟨h1, hnil⟩ := h0.enter (u := u) (K := .features) (usr := usr) hx hk (by simp)
    (fun k a b' => absurd b' (delTimed_none _ _ k a)) xs hside
  have sm := noG_same st c.g
  rw [handleFeatures_eq]
  generalize hc0 : Conn.delTimed (Conn.noteOffers c st) TFun.missingFeatures = c0 at h1 hnil
  have hg0 : c0.g = noG st c.g := by rw [← hc0]; rfl
  obtain ⟨tsv, e1, htsv⟩ := hf1_spec c0 st h1.ts
  rw [e1]
  obtain ⟨v, e2, hv⟩ := hf2_spec { c0 with tlsSupport := tsv } st
  rw [e2]
  obtain ⟨v', e3, hv'⟩ := hf3_spec { c0 with tlsSupport := tsv, saslSupport := v }
  rw [e3]
  refine Inv.authTop' _ ?_ ?_ ?_ ?_
  · refine ⟨h1.cfg, h1.q, h1.e, { h1.gg with sasl := fun i a => ?_ }, h1.h, h1.f, rfl⟩
    rcases hv i (hv' i a) with b' | ⟨m, t, hm, ht, b'⟩
    · exact h1.gg.sasl i b'
    · rw [hg0]; exact noG_mechs st _ m hm t ht i b'
  · exact ⟨hnil, by rw [hg0, sm.2.2.2.1]; exact hnn, pc.rpb, pc.pb, pc.sb, pc.rb⟩
  · show c0.g.authOk = false; rw [hg0, sm.1]; exact hph
  · intro a; exact ⟨(htsv a).1, by rw [hg0]; exact noG_tls st _ (htsv a).2⟩

/-! ### bind, session, stream management requests -/

theorem cfgRes_eq (c : Conn) : (match c.jid with
    | some j => match Jid.resource j with
      | some r => if r.isEmpty then none else some r
      | none => none
    | none => none) = cfgRes c.jid := rfl

theorem Inv.doBind (h : Inv jid U NR p c) (hc : HC p c) (ha : c.g.authOk = true)
    (hsm : c.sm.enabled = false) (hob : c.g.offeredBind = true) : Inv jid U NR p (Conn.doBind c) := by
  unfold Conn.doBind; dsimp only
  have h1 := (h.addIdHandler .bind (b "_xmpp_bind1") (Or.inl rfl) (hc.canAdd ⟨ha, hsm⟩)).addTimed
    .missingBind Gen.bindTimeout false (by simp) (by simp)
  obtain ⟨l, n, e1, _⟩ := addIdHandler_shape c (.sys .bind) (b "_xmpp_bind1") false
  rw [e1] at h1 ⊢
  obtain ⟨l2, n2, e2⟩ := addTimed_shape { c with idHandlers := l, nextUid := n } .missingBind Gen.bindTimeout false
  rw [e2] at h1 ⊢
  refine h1.sendStanzaLib _ _ (by simp) (fun _ _ _ => ⟨?_, hob, ha⟩)
    (fun _ hh => by obtain ⟨_, _, _, e⟩ := hh; cases e)
  show _ = cfgRes jid
  rw [← h.cfg.jidEq]; rfl

theorem Inv.sessionStart (h : Inv jid U NR p c) (hc : HC p c) (ha : c.g.authOk = true)
    (hb : c.g.bound = true) (hsm : c.sm.enabled = false) (hos : c.g.offeredSession = true) :
    Inv jid U NR p (Conn.sessionStart c) := by
  unfold Conn.sessionStart; dsimp only
  have h1 := (h.addIdHandler .session (b "_xmpp_session1") (Or.inr (Or.inl rfl))
    (hc.canAdd ⟨ha, hb, hsm⟩)).addTimed .missingSession Gen.sessionTimeout false (by simp) (by simp)
  obtain ⟨l, n, e1, _⟩ := addIdHandler_shape c (.sys .session) (b "_xmpp_session1") false
  rw [e1] at h1 ⊢
  obtain ⟨l2, n2, e2⟩ := addTimed_shape { c with idHandlers := l, nextUid := n } .missingSession Gen.sessionTimeout false
  rw [e2] at h1 ⊢
  exact h1.sendStanzaLib _ _ (by simp) (fun _ _ _ => ⟨hos, ha⟩)
    (fun _ hh => by obtain ⟨_, _, _, e⟩ := hh; cases e)

theorem InvH.setSmE {x y xs mb st sec smE smR pst rp oh raw hk ik tk n g}
    (h : InvH x y xs mb st sec smE smR pst rp oh raw hk ik tk n g)
    (hsm : ∀ k ∈ hk ++ ik, negK k → x ≠ some k.1 → k.2.1 = .sys .sm)
    (hrp : rp = false) (hps : pst ≠ .fresh) :
    InvH x y xs mb st sec true smR pst rp oh raw hk ik tk n g := by
  refine { h with phase := ?_, fr := ?_ }
  · intro k a s hs hs' e
    have hk' := hsm k a ⟨s, hs, hs'⟩ e
    rw [hs] at hk'; cases hk'
    exact h.phase k a _ hs hs' e
  · intro hf; rcases hf with hf | hf
    · rw [hrp] at hf; cases hf
    · exact absurd hf hps

theorem Inv.smEnable (h : Inv jid U NR p c) (hc : HC p c) (hlive : c.state = .connected)
    (ha : c.g.authOk = true) (hb : c.g.bound = true ∨ c.g.resumed = true) (hos : c.g.offeredSm = true) :
    Inv jid U NR p (Conn.smEnable c) := by
  unfold Conn.smEnable triggerSmCallback; dsimp only
  have h1 := h.addHandler (.sys .sm) 0 (some Gen.nsSm) none none false (by simp)
    (fun s hs _ => by cases hs; exact hc.canAdd ⟨ha, fun _ _ => hb⟩)
  obtain ⟨l, n, e1, hl⟩ := addHandler_shape c (.sys .sm) 0 (some Gen.nsSm) none none false
  rw [e1] at h1 ⊢
  have h2 := h1.sendStanzaLib (.enable (!c.sm.dontRequestResume)) .smStrophe (by simp)
    (fun _ _ _ => ⟨hos, ha⟩) (fun _ hh => by obtain ⟨_, _, _, e⟩ := hh; cases e)
  obtain ⟨q, n', r, e2⟩ := sendStanza_shape { c with handlers := l, nextUid := n }
    (.enable (!c.sm.dontRequestResume)) .smStrophe
  rw [e2] at h2 ⊢
  refine ⟨h2.cfg, h2.q, h2.e, ?_, ?_, h2.f, h2.ts⟩
  · exact { h2.gg with nc := fun a => absurd hlive a, smE := fun _ => ⟨ha, hb⟩ }
  · refine h2.h.setSmE ?_ (h.rp_false hc.rpb) (by rw [h.f.ps]; exact hc.pb)
    intro k a nk e
    have a' : k ∈ l.map hkey ++ c.idHandlers.map hkey := a
    rcases hl with hl | hl
    · rw [hl] at a'; exact absurd (hc.nil k a' nk) e
    · rw [hl] at a'
      simp only [List.mem_append, List.mem_singleton] at a'
      rcases a' with (a' | a') | a'
      · exact absurd (hc.nil k (List.mem_append.2 (Or.inl a')) nk) e
      · rw [a']
      · exact absurd (hc.nil k (List.mem_append.2 (Or.inr a')) nk) e

/-! ### `_handle_features_sasl` -/

def hfs3 (c0 : Conn) (st : XTree) : Conn :=
  let hasBind := (st.childByNameNs (b "bind") Gen.nsBind).isSome
  let c1 := { c0 with bindRequired := hasBind }
  let c2 := match st.childByNameNs (b "session") Gen.nsSession with
    | some s => { c1 with sessionRequired := (s.childByName (b "optional")).isNone }
    | none => c1
  if (st.childByNameNs (b "sm") Gen.nsSm).isSome
    then { c2 with sm := { c2.sm with support := true } } else c2

theorem handleFeaturesSasl_eq (c : Conn) (st : XTree) :
    handleFeaturesSasl c st =
      (let hasBind := (st.childByNameNs (b "bind") Gen.nsBind).isSome
       let c3 := hfs3 (delTimed (noteOffers c st) .missingFeaturesSasl) st
       if !c3.smDisable && c3.sm.support && c3.sm.canResume && c3.sm.previd.isSome && c3.sm.boundJid.isSome then
         let c4 := { c3 with sm := { c3.sm with bind := hasBind, resume := true } }
         let c5 := sendStanza c4 (.resume (c4.sm.previd.getD []) c4.sm.handledNr) .smStrophe
         addHandler c5 (.sys .sm) 0 (some Gen.nsSm) none none false
       else if c3.bindRequired then doBind c3
       else xmppDisconnect c3) := rfl

theorem hfs3_spec (c0 : Conn) (st : XTree) :
    ∃ sr ss, hfs3 c0 st = { c0 with bindRequired := (st.childByNameNs (b "bind") Gen.nsBind).isSome, sessionRequired := sr, sm := { c0.sm with support := ss } } ∧
      (sr = true → c0.sessionRequired = true ∨ (st.childByNameNs (b "session") Gen.nsSession).isSome = true) ∧
      (ss = true → c0.sm.support = true ∨ (st.childByNameNs (b "sm") Gen.nsSm).isSome = true) := by
  unfold hfs3; dsimp only
  cases hs : st.childByNameNs (b "session") Gen.nsSession with
  | none =>
    dsimp only
    by_cases a : (st.childByNameNs (b "sm") Gen.nsSm).isSome = true
    · rw [if_pos a]; exact ⟨c0.sessionRequired, true, rfl, fun x => Or.inl x, fun _ => Or.inr a⟩
    · rw [if_neg a]; exact ⟨c0.sessionRequired, c0.sm.support, rfl, fun x => Or.inl x, fun x => Or.inl x⟩
  | some s =>
    dsimp only
    by_cases a : (st.childByNameNs (b "sm") Gen.nsSm).isSome = true
    · rw [if_pos a]; exact ⟨_, true, rfl, fun _ => Or.inr rfl, fun _ => Or.inr a⟩
    · rw [if_neg a]; exact ⟨_, c0.sm.support, rfl, fun _ => Or.inr rfl, fun x => Or.inl x⟩

theorem Inv.handleFeaturesSasl (h : Inv jid U NR p c) (hc : HC p c) (hlive : c.state = .connected)
    (ha : c.g.authOk = true) (hsm : c.sm.enabled = false) (st : XTree) :
    Inv jid U NR p (Conn.handleFeaturesSasl c st) := by
  have h0 := (h.noteOffers st).delTimed .missingFeaturesSasl
  have sm := noG_same st c.g
  rw [handleFeaturesSasl_eq]; dsimp only
  generalize hc0 : Conn.delTimed (Conn.noteOffers c st) TFun.missingFeaturesSasl = c0 at h0
  have hg0 : c0.g = noG st c.g := by rw [← hc0]; rfl
  have hst0 : c0.state = .connected := by rw [← hc0]; exact hlive
  have hsm0 : c0.sm.enabled = false := by rw [← hc0]; exact hsm
  have hnil0 : PendNil p.x c0 := by rw [← hc0]; exact hc.nil
  have ha0 : c0.g.authOk = true := by rw [hg0, sm.1]; exact ha
  have hnn0 : c0.g.notifiedConnect = false := by rw [hg0, sm.2.2.2.1]; exact hc.nn
  obtain ⟨sr, ss, e3, hsr, hss⟩ := hfs3_spec c0 st
  rw [e3]
  -- the state after the feature flags have been recorded
  have h3 : Inv jid U NR p { c0 with bindRequired := (st.childByNameNs (b "bind") Gen.nsBind).isSome, sessionRequired := sr, sm := { c0.sm with support := ss } } := by
    refine ⟨h0.cfg, h0.q, h0.e, ?_, h0.h, h0.f, h0.ts⟩
    refine { h0.gg with bindR := ?_, sessR := ?_, smS := ?_, nc := fun a => absurd hst0 a }
    · intro a; rw [hg0]; exact noG_bind st _ a
    · intro a; rcases hsr a with b' | b'
      · exact h0.gg.sessR b'
      · rw [hg0]; exact noG_sess st _ b'
    · intro a; rcases hss a with b' | b'
      · exact h0.gg.smS b'
      · rw [hg0]; exact noG_sm st _ b'
  have hc3 : HC p { c0 with bindRequired := (st.childByNameNs (b "bind") Gen.nsBind).isSome, sessionRequired := sr, sm := { c0.sm with support := ss } } :=
    ⟨hnil0, hnn0, hc.rpb, hc.pb, hc.sb, hc.rb⟩
  dsimp only
  split
  · rename_i hcond
    simp only [Bool.and_eq_true] at hcond
    have hss' : ss = true := hcond.1.1.1.2
    -- resumption
    have h4 : Inv jid U NR p { c0 with bindRequired := (st.childByNameNs (b "bind") Gen.nsBind).isSome, sessionRequired := sr, sm := { c0.sm with support := ss, bind := (st.childByNameNs (b "bind") Gen.nsBind).isSome, resume := true } } := by
      refine ⟨h3.cfg, h3.q, h3.e, ?_, ?_, h3.f, h3.ts⟩
      · refine { h3.gg with smB := ?_, nc := fun a => absurd hst0 a }
        intro a; rw [hg0]; exact noG_bind st _ a
      · exact h3.h.weaken rfl rfl id id id (fun a => ⟨a, fun x => by cases x⟩) id id (fun a => Or.inl a)
    have h5 := h4.sendStanzaLib (.resume (c0.sm.previd.getD []) c0.sm.handledNr) .smStrophe (by simp)
      (fun _ _ _ => ⟨h3.gg.smS hss', ha0⟩) (fun _ hh => by obtain ⟨_, _, _, e⟩ := hh; cases e)
    obtain ⟨q, n, r, e5⟩ := sendStanza_shape { c0 with bindRequired := (st.childByNameNs (b "bind") Gen.nsBind).isSome, sessionRequired := sr, sm := { c0.sm with support := ss, bind := (st.childByNameNs (b "bind") Gen.nsBind).isSome, resume := true } }
      (.resume (c0.sm.previd.getD []) c0.sm.handledNr) .smStrophe
    rw [e5] at h5 ⊢
    exact h5.addHandler _ _ _ _ _ _ (by simp)
      (fun s hs _ => by cases hs; exact ⟨hnil0, hnn0, ⟨ha0, fun _ x => by cases x⟩, hc.rpb, hc.pb, by rw [hc.sb]; simp, hc.rb⟩)
  · split
    · rename_i hb
      exact h3.doBind hc3 ha0 hsm0 (by rw [hg0]; exact noG_bind st _ hb)
    · exact h3.xmppDisconnect

/-! ### `_handle_features_compress` -/

theorem compressionOffer_spec (c : Conn) (st : XTree) :
    ∃ v, compressionOffer c st = { c with compSupported := v } ∧
      (v = true → c.compSupported = true ∨
        (st.childByNameNs (b "compression") (b "http://jabber.org/features/compress")).isSome = true) := by
  unfold compressionOffer
  cases hm : st.childByNameNs (b "compression") (b "http://jabber.org/features/compress") with
  | none => exact ⟨c.compSupported, rfl, fun a => Or.inl a⟩
  | some ch =>
    dsimp only; split
    · exact ⟨true, rfl, fun _ => Or.inr rfl⟩
    · exact ⟨c.compSupported, rfl, fun a => Or.inl a⟩

theorem Inv.handleFeaturesCompress (h : Inv jid U NR p c) (hc : HC p c) (hlive : c.state = .connected)
    (ha : c.g.authOk = true) (hsm : c.sm.enabled = false) (st : XTree) :
    Inv jid U NR p (Conn.handleFeaturesCompress c st) := by
  have h0 := (h.noteOffers st).delTimed .missingFeaturesSasl
  have sm := noG_same st c.g
  unfold Conn.handleFeaturesCompress; dsimp only
  generalize hc0 : Conn.delTimed (Conn.noteOffers c st) TFun.missingFeaturesSasl = c0 at h0
  have hg0 : c0.g = noG st c.g := by rw [← hc0]; rfl
  have hst0 : c0.state = .connected := by rw [← hc0]; exact hlive
  have hsm0 : c0.sm.enabled = false := by rw [← hc0]; exact hsm
  have hnil0 : PendNil p.x c0 := by rw [← hc0]; exact hc.nil
  have ha0 : c0.g.authOk = true := by rw [hg0, sm.1]; exact ha
  have hnn0 : c0.g.notifiedConnect = false := by rw [hg0, sm.2.2.2.1]; exact hc.nn
  obtain ⟨v, e1, hv⟩ := compressionOffer_spec c0 st
  rw [e1]
  have h1 : Inv jid U NR p { c0 with compSupported := v } := by
    refine ⟨h0.cfg, h0.q, h0.e, { h0.gg with comp := ?_ }, h0.h, h0.f, h0.ts⟩
    intro a; rcases hv a with b' | b'
    · exact h0.gg.comp b'
    · rw [hg0]; exact noG_comp st _ b'
  have hc1 : HC p { c0 with compSupported := v } := ⟨hnil0, hnn0, hc.rpb, hc.pb, hc.sb, hc.rb⟩
  split
  · rename_i hcs
    have h2 := h1.sendRawLib .compress .strophe (by simp) (fun _ _ _ => h1.gg.comp hcs)
      (fun _ hh => by obtain ⟨_, _, _, e⟩ := hh; cases e)
    obtain ⟨q, n, r, e2⟩ := sendRaw_shape { c0 with compSupported := v } .compress .strophe
    rw [e2] at h2 ⊢
    exact h2.addHandler _ _ _ _ _ _ (by simp)
      (fun s hs _ => by cases hs; exact ⟨hnil0, hnn0, ⟨ha0, hsm0⟩, hc.rpb, hc.pb, by rw [hc.sb]; simp, hc.rb⟩)
  · exact h1.handleFeaturesSasl hc1 hst0 ha0 hsm0 st

end Strophe.Lemmas.ConnC03
