/-
C03, part I: connecting and the API calls; `step`, `exec`, `fresh`.
-/
import Strophe.Lemmas.ConnC03H

namespace Strophe.Lemmas.ConnC03
open Strophe Strophe.Conn

variable {jid : Option Bytes} {U : Item → Prop} {NR : Prop} {p : Par} {c : Conn}

/-- `_conn_reset` followed by the assignments of `_conn_connect`, on a disconnected object -/
def cR (c : Conn) (d : Bytes) (t : CType) : Conn :=
  { c with compActive := false, queue := [], streamError := none, boundJid := none, streamId := none,
           negotiated := false, secured := false, tlsFailed := false, error := 0, tlsSupport := false,
           saslSupport := 0, compSupported := false, bindRequired := false, sessionRequired := false,
           handlers := c.handlers.filter (·.user), idHandlers := c.idHandlers.filter (·.user),
           timed := c.timed.filter (·.user), ctype := t, domain := some d }

theorem connConnect_eq (c : Conn) (d : Bytes) (t : CType) (hd : c.state = .disconnected) :
    connConnect c d t =
      (if (cR c d t).tcpFail then (cR c d t, xmppEInt)
       else ({ cR c d t with resetParser := true,
                             openHandler := if (cR c d t).isRaw then OpenH.stub else if t = .client then .open_ else .componentOpen,
                             state := .connecting, timeoutStamp := (cR c d t).now,
                             g := { attempt := (cR c d t).g.attempt + 1 } }, 0)) := by
  have hn : ¬ (c.state ≠ .disconnected) := by rw [hd]; simp
  have e : connReset c = systemDeleteAll
      { c with compActive := false, queue := [], streamError := none, domain := none, boundJid := none,
               streamId := none, negotiated := false, secured := false, tlsFailed := false, error := 0,
               tlsSupport := false, saslSupport := 0, compSupported := false, bindRequired := false,
               sessionRequired := false } := by
    unfold connReset; rw [if_neg hn]
  unfold connConnect
  rw [if_neg hn, e]
  rfl

/-- after `handler_system_delete_all` only user handlers remain -/
theorem InvH.afterReset {y xs mb st sec smE smR pst rp oh raw hk ik tk n g}
    (h : InvH none y xs mb st sec smE smR pst rp oh raw hk ik tk n g)
    {hk' ik' : List HK} {tk' : List TK} (sh : hk'.Sublist hk) (si : ik'.Sublist ik) (stk : tk'.Sublist tk)
    (uh : ∀ k ∈ hk' ++ ik', k.2.2 = true) (ut : ∀ k ∈ tk', k.2.2 = true)
    {st' : CState} {sec' smE' smR' : Bool} {rp' : Bool} {oh' : OpenH} {raw' : Bool} {g' : Ghost}
    (hoh : (oh' = .open_ ∨ oh' = .openTls → g'.authOk = false) ∧
      (oh' = .openSasl ∨ oh' = .openCompress → g'.authOk = true))
    (hfr : rp' = true ∨ pst = .fresh → oh' ≠ .stub → g'.notifiedConnect = false ∧ smE' = false)
    (hraw : st' ≠ .disconnected → raw' = true → oh' = .stub) :
    InvH none y xs mb st' sec' smE' smR' pst rp' oh' raw' hk' ik' tk' n g' := by
  have mem : ∀ k, k ∈ hk' ++ ik' → k ∈ hk ++ ik := by
    intro k a; rcases List.mem_append.1 a with a | a
    · exact List.mem_append.2 (Or.inl (sh.subset a))
    · exact List.mem_append.2 (Or.inr (si.subset a))
  have noneg : ∀ k ∈ hk' ++ ik', ¬ negK k := by
    rintro k a ⟨s, hs, _⟩
    have := (h.userH k (mem k a)).2 (uh k a); rw [hs] at this; cases this
  constructor
  · exact fun k a => h.uidH k (mem k a)
  · exact ((sh.append si).map _).nodup h.nd
  · exact fun k a => h.uidT k (stk.subset a)
  · intro u a; cases a
  · exact h.uidY
  · intro u a; cases a
  · exact fun k a => h.userH k (mem k a)
  · exact fun k a => h.userT k (stk.subset a)
  · exact fun k1 a1 k2 a2 => h.tfn k1 (stk.subset a1) k2 (stk.subset a2)
  · exact fun k a => h.idk k (si.subset a)
  · exact fun k1 a1 _ _ n1 => absurd n1 (noneg k1 a1)
  · exact fun k a s hs hs' => absurd ⟨s, hs, hs'⟩ (noneg k a)
  · exact hoh
  · exact fun hf => ⟨fun k a nk => absurd nk (noneg k a), hfr hf⟩
  · intro k a b'
    have := (h.userT k (stk.subset a)).2 (ut k a); rw [b'] at this; cases this
  · exact fun _ => noneg
  · exact fun hd hr => ⟨hraw hd hr, noneg⟩
  · exact h.mbN
  · exact fun _ k a nk => absurd nk (noneg k a)

theorem filterUser_keys (l : List Handler) :
    ((l.filter (·.user)).map hkey).Sublist (l.map hkey) ∧ ∀ k ∈ (l.filter (·.user)).map hkey, k.2.2 = true := by
  refine ⟨List.filter_sublist.map _, ?_⟩
  intro k a; obtain ⟨hd, hm, rfl⟩ := List.mem_map.1 a
  exact (List.mem_filter.1 hm).2

theorem filterUserT_keys (l : List Timed) :
    ((l.filter (·.user)).map tkey).Sublist (l.map tkey) ∧ ∀ k ∈ (l.filter (·.user)).map tkey, k.2.2 = true := by
  refine ⟨List.filter_sublist.map _, ?_⟩
  intro k a; obtain ⟨hd, hm, rfl⟩ := List.mem_map.1 a
  exact (List.mem_filter.1 hm).2

theorem cnt_zero_of_lt (evs : List (Ghost × Ev)) (a : Nat) (h : ∀ q ∈ evs, q.1.attempt < a) : cnt evs a = 0 := by
  unfold cnt
  rw [List.length_eq_zero_iff, List.filter_eq_nil_iff]
  intro q hq
  have := Nat.ne_of_lt (h q hq)
  simp [this]

/-- `_conn_connect` on a disconnected object whose `is_raw` flag has just been set to `r` -/
theorem Good.connConnect (h : Good jid U NR c) (hd : c.state = .disconnected) (hsm : c.hasSm = true)
    (r : Bool) (d : Bytes) (t : CType)
    (hdom : ∃ j, jid = some j ∧ d = (if t = .component then j else Jid.domain j)) :
    ((Conn.connConnect { c with isRaw := r } d t).2 = 0 → Good jid U NR (Conn.connConnect { c with isRaw := r } d t).1) ∧
    ((Conn.connConnect { c with isRaw := r } d t).2 ≠ 0 →
      Good jid U NR { (Conn.connConnect { c with isRaw := r } d t).1 with isRaw := false }) := by
  obtain ⟨p, b', hi⟩ := h
  rw [connConnect_eq { c with isRaw := r } d t hd]
  obtain ⟨nc1, nc2, nc3, nc4, nc5, nc6⟩ := hi.gg.nc (by rw [hd]; simp)
  have hh := hi.h; rw [b'.x] at hh
  have kh := filterUser_keys c.handlers
  have ki := filterUser_keys c.idHandlers
  have kt := filterUserT_keys c.timed
  have uh : ∀ k ∈ (c.handlers.filter (·.user)).map hkey ++ (c.idHandlers.filter (·.user)).map hkey, k.2.2 = true := by
    intro k a; rcases List.mem_append.1 a with a | a
    · exact kh.2 k a
    · exact ki.2 k a
  have hqb : InvQ jid U NR p.w .disconnected false c.g.notifiedConnect [] c.sm.queue c.tx :=
    { q_ok := (fun _ a => nomatch a), smq_ok := hi.q.smq_ok, q_ht := (fun a => nomatch a),
      q_n := (fun _ _ a => nomatch a), q_cg := fun _ => rfl, tx_ok := hi.q.tx_ok }
  split
  · -- the TCP connect fails at once
    refine ⟨fun a => (by cases a), fun _ => ?_⟩
    refine ⟨{ p with x := none }, ⟨rfl, b'.y, b'.w, b'.mb, b'.rb, b'.rpb⟩, ?_⟩
    unfold cR; dsimp only
    refine ⟨⟨hi.cfg.jidEq, fun a => (by rw [hd] at a; exact absurd rfl a), fun a => (by rw [hd] at a; exact absurd rfl a)⟩, ?_, hi.e, ?_, ?_, ?_, rfl⟩
    · rw [hd, nc1] at *; exact hqb
    · rw [hd, nc1, nc3, nc4, nc5, nc6]
      exact { tls_sec := (fun a => nomatch a), sasl := fun i a => (by rw [Nat.zero_testBit] at a; cases a),
              comp := (fun a => nomatch a), bindR := (fun a => nomatch a), sessR := (fun a => nomatch a),
              smS := (fun a => nomatch a), smB := (fun a => nomatch a),
              nc := fun _ => ⟨rfl, rfl, rfl, rfl, rfl, rfl⟩, cg := (fun a => nomatch a),
              nn1 := (fun a => nomatch a), nn2 := fun a => absurd rfl a, smE := (fun a => nomatch a) }
    · rw [nc3]
      exact hh.afterReset kh.1 ki.1 kt.1 uh kt.2 hi.h.ohOk (fun hf o => ⟨((hi.h.fr hf).2 o).1, rfl⟩)
        (fun a => absurd hd a)
    · exact ⟨hi.f.st, hi.f.ps, fun a => (by cases a), hi.f.rpB, hi.f.rp, fun _ => rfl⟩
  · -- connecting
    refine ⟨fun _ => ?_, fun a => absurd rfl a⟩
    refine ⟨{ p with x := none, sb := .connecting }, ⟨rfl, b'.y, b'.w, b'.mb, b'.rb, b'.rpb⟩, ?_⟩
    unfold cR; dsimp only
    obtain ⟨j, hj, hdj⟩ := hdom
    refine ⟨⟨hi.cfg.jidEq, fun _ => ⟨j, hj, by rw [hdj]⟩, fun _ => hsm⟩, ?_, ?_, ?_, ?_, ?_, rfl⟩
    · exact { q_ok := (fun _ a => nomatch a), smq_ok := hi.q.smq_ok, q_ht := (fun a => nomatch a),
              q_n := (fun _ _ a => nomatch a), q_cg := fun _ => rfl, tx_ok := hi.q.tx_ok }
    · exact { att := fun q a => Nat.le_succ_of_le (hi.e.att q a), once := hi.e.once,
              zero := fun _ => cnt_zero_of_lt _ _ (fun q a => Nat.lt_succ_of_le (hi.e.att q a)),
              ucb := hi.e.ucb, neg := hi.e.neg }
    · rw [nc3, nc4, nc5, nc6]
      exact { tls_sec := fun a => (by rw [nc1] at a; cases a), sasl := fun i a => (by rw [Nat.zero_testBit] at a; cases a),
              comp := (fun a => nomatch a), bindR := (fun a => nomatch a), sessR := (fun a => nomatch a),
              smS := (fun a => nomatch a), smB := (fun a => nomatch a),
              nc := fun _ => ⟨nc1, rfl, rfl, rfl, rfl, rfl⟩, cg := fun _ => ⟨rfl, rfl, rfl⟩,
              nn1 := (fun a => nomatch a), nn2 := (fun _ a => nomatch a), smE := (fun a => nomatch a) }
    · rw [nc3]
      refine hh.afterReset kh.1 ki.1 kt.1 uh kt.2 ⟨fun _ => rfl, ?_⟩ (fun _ _ => ⟨rfl, rfl⟩) ?_
      · intro a; cases r <;> cases t <;> simp at a
      · intro _ hr; cases r
        · cases hr
        · rfl
    · exact ⟨Or.inl rfl, hi.f.ps, fun _ => b'.rb, fun _ => b'.rpb, (fun _ a => nomatch a), (fun a => nomatch a)⟩

/-! ### the connect calls -/

theorem Good.freshSm (h : Good jid U NR c) (hd : c.state = .disconnected) :
    Good jid U NR { c with hasSm := true, sm := {} } := by
  obtain ⟨p, b', hi⟩ := h
  obtain ⟨nc1, nc2, nc3, nc4, nc5, nc6⟩ := hi.gg.nc (by rw [hd]; simp)
  refine ⟨p, b', ⟨hi.cfg.jidEq, hi.cfg.dom, fun _ => rfl⟩, { hi.q with smq_ok := (fun _ a => nomatch a) }, hi.e, ?_, ?_, hi.f, hi.ts⟩
  · have := hi.gg; rw [nc3, nc4, nc5, nc6] at this; exact this
  · have := hi.h; rw [nc3, nc6] at this; exact this

theorem Good.setRawFalse (h : Good jid U NR c) (hr : c.isRaw = false) : Good jid U NR { c with isRaw := false } := by
  have e : ({ c with isRaw := false } : Conn) = c := by rw [← hr]
  rw [e]; exact h

theorem Good.unRaw (h : Good jid U NR { c with isRaw := false }) (hr : c.isRaw = false) : Good jid U NR c := by
  have e : ({ c with isRaw := false } : Conn) = c := by rw [← hr]
  rw [e] at h; exact h

theorem Good.rawFalse (h : Good jid U NR c) (hd : c.state = .disconnected) : c.isRaw = false := by
  obtain ⟨p, _, hi⟩ := h; exact hi.f.rd hd

theorem Good.jidEq (h : Good jid U NR c) : c.jid = jid := by
  obtain ⟨p, _, hi⟩ := h; exact hi.cfg.jidEq

theorem connConnect_isRaw (c : Conn) (d : Bytes) (t : CType) : (connConnect c d t).1.isRaw = c.isRaw := by
  by_cases hd : c.state = .disconnected
  · rw [connConnect_eq c d t hd]; split <;> rfl
  · unfold connConnect; rw [if_pos hd]

theorem Good.connConnect' (h : Good jid U NR c) (hsm : c.hasSm = true) (d : Bytes) (t : CType)
    (hdom : ∃ j, jid = some j ∧ d = (if t = .component then j else Jid.domain j)) :
    Good jid U NR (Conn.connConnect c d t).1 := by
  by_cases hd : c.state = .disconnected
  · have core := h.connConnect hd hsm c.isRaw d t hdom
    by_cases hrc : (Conn.connConnect c d t).2 = 0
    · exact core.1 hrc
    · refine Good.unRaw (core.2 hrc) ?_
      rw [connConnect_isRaw]; exact h.rawFalse hd
  · unfold Conn.connConnect; rw [if_pos hd]; exact h

/-- "install the SM record if there is none", then `_conn_connect` -/
theorem Good.smConnect (h : Good jid U NR c) (d : Bytes) (t : CType)
    (hdom : ∃ j, jid = some j ∧ d = (if t = .component then j else Jid.domain j)) :
    Good jid U NR (Conn.connConnect (if c.hasSm then c else { c with hasSm := true, sm := {} }) d t).1 := by
  split
  · rename_i hs; exact h.connConnect' hs d t hdom
  · rename_i hs
    by_cases hd : c.state = .disconnected
    · exact (h.freshSm hd).connConnect' rfl d t hdom
    · obtain ⟨p, _, hi⟩ := h
      exact absurd (hi.cfg.hsm hd) hs

theorem Good.setFlags (h : Good jid U NR c) (f : Nat) : Good jid U NR (Conn.setFlags c f).1 := by
  unfold Conn.setFlags; dsimp only
  split
  · exact h
  · split
    · exact h
    · split <;> exact h.frame (fun _ hi => ⟨hi.cfg, hi.q, hi.e, hi.gg, hi.h, hi.f, hi.ts⟩)

theorem setFlags_frame (c : Conn) (f : Nat) :
    (setFlags c f).1.jid = c.jid ∧ (setFlags c f).1.hasSm = c.hasSm ∧ (setFlags c f).1.state = c.state := by
  unfold setFlags; dsimp only
  split
  · exact ⟨rfl, rfl, rfl⟩
  · split
    · exact ⟨rfl, rfl, rfl⟩
    · split <;> exact ⟨rfl, rfl, rfl⟩

def ccBody (cc : Conn) (j : Bytes) : Conn × Int :=
  if (Jid.domain j).head? = none ∨ (Jid.domain j).head? = some 46 then (cc, xmppEInvOp) else
  connConnect (if cc.hasSm then cc else { cc with hasSm := true, sm := {} }) (Jid.domain j) .client

theorem connectClient_some (cc : Conn) (j : Bytes) (hj : cc.jid = some j) : connectClient cc = ccBody cc j := by
  unfold connectClient ccBody; rw [hj]

theorem connectClient_none (cc : Conn) (hj : cc.jid = none) : connectClient cc = (cc, xmppEInvOp) := by
  unfold connectClient; rw [hj]

theorem Good.connectClient (h : Good jid U NR c) : Good jid U NR (Conn.connectClient c).1 := by
  rcases Option.eq_none_or_eq_some c.jid with hj | ⟨j, hj⟩
  · rw [connectClient_none c hj]; exact h
  · rw [connectClient_some c j hj]; unfold ccBody
    split
    · exact h
    · exact h.smConnect _ _ ⟨j, by rw [← h.jidEq, hj], (if_neg (show ¬ CType.client = CType.component by decide)).symm⟩

theorem connectComponent_eq (c : Conn) : connectComponent c =
      (if c.jid.isNone || c.pass.isNone then (c, xmppEInvOp)
       else if !(setFlags c (getFlags c ||| Gen.flagDisableTls)).1.tlsDisabled
         then ((setFlags c (getFlags c ||| Gen.flagDisableTls)).1, xmppEInt)
       else connConnect
         (if (setFlags c (getFlags c ||| Gen.flagDisableTls)).1.hasSm then (setFlags c (getFlags c ||| Gen.flagDisableTls)).1
          else { (setFlags c (getFlags c ||| Gen.flagDisableTls)).1 with hasSm := true, sm := {} })
         ((if (setFlags c (getFlags c ||| Gen.flagDisableTls)).1.hasSm then (setFlags c (getFlags c ||| Gen.flagDisableTls)).1
          else { (setFlags c (getFlags c ||| Gen.flagDisableTls)).1 with hasSm := true, sm := {} }).jid.getD []) .component) := rfl

theorem Good.connectComponent (h : Good jid U NR c) : Good jid U NR (Conn.connectComponent c).1 := by
  rw [connectComponent_eq]
  have h1 := h.setFlags (getFlags c ||| Gen.flagDisableTls)
  obtain ⟨f1, _, _⟩ := setFlags_frame c (getFlags c ||| Gen.flagDisableTls)
  split
  · exact h
  · rename_i hn
    split
    · exact h1
    · generalize (Conn.setFlags c (getFlags c ||| Gen.flagDisableTls)).1 = c1 at h1 f1 ⊢
      rcases Option.eq_none_or_eq_some c.jid with hj | ⟨j, hj⟩
      · rw [hj] at hn; simp at hn
      · have hj1 : c1.jid = some j := by rw [f1, hj]
        have hd : (if c1.hasSm = true then c1 else { c1 with hasSm := true, sm := {} }).jid.getD [] = j := by
          split <;> simp [hj1]
        rw [hd]
        exact h1.smConnect j .component ⟨j, by rw [← h.jidEq, hj], (if_pos rfl).symm⟩

theorem connectRaw_eq (c : Conn) :
    connectRaw c =
      (if c.state ≠ .disconnected then (c, xmppEInvOp)
       else if (connectClient { c with isRaw := true }).2 ≠ 0
         then ({ (connectClient { c with isRaw := true }).1 with isRaw := false }, (connectClient { c with isRaw := true }).2)
         else ((connectClient { c with isRaw := true }).1, (connectClient { c with isRaw := true }).2)) := rfl

theorem Good.connectRaw (h : Good jid U NR c) : Good jid U NR (Conn.connectRaw c).1 := by
  rw [connectRaw_eq]
  split
  · exact h
  · rename_i hd
    have hd : c.state = .disconnected := by
      cases hs : c.state <;> simp_all
    have hraw := h.rawFalse hd
    rcases Option.eq_none_or_eq_some c.jid with hj | ⟨j, hj⟩
    · rw [connectClient_none { c with isRaw := true } hj]
      rw [if_pos (by simp [xmppEInvOp])]; exact h.setRawFalse hraw
    · rw [connectClient_some { c with isRaw := true } j hj]
      unfold ccBody
      split
      · rw [if_pos (by simp [xmppEInvOp])]; exact h.setRawFalse hraw
      · have hdom : ∃ j', jid = some j' ∧ Jid.domain j = (if CType.client = .component then j' else Jid.domain j') :=
          ⟨j, by rw [← h.jidEq, hj], (if_neg (show ¬ CType.client = CType.component by decide)).symm⟩
        by_cases hs : c.hasSm = true
        · rw [if_pos (show ({ c with isRaw := true } : Conn).hasSm = true from hs)]
          have core := h.connConnect hd hs true (Jid.domain j) .client hdom
          split
          · rename_i hrc; exact core.2 hrc
          · rename_i hrc; exact core.1 (by simpa using hrc)
        · rw [if_neg (show ¬ ({ c with isRaw := true } : Conn).hasSm = true from hs)]
          have core := (h.freshSm hd).connConnect hd rfl true (Jid.domain j) .client hdom
          split
          · rename_i hrc; exact core.2 hrc
          · rename_i hrc; exact core.1 (by simpa using hrc)

/-! ### `step`, `exec`, `fresh` -/

/-- what a history may contain: the application submits items in `U`; `xmpp_send_raw` only if `¬ NR` -/
def OpOk (U : Item → Prop) (NR : Prop) : Op → Prop
  | .usend it => U it
  | .urawstr it => U it
  | .uraw it => U it ∧ ¬ NR
  | _ => True

theorem Good.step (h : Good jid U NR c) (op : Op) (hop : OpOk U NR op) : Good jid U NR (Conn.step c op) := by
  have fr : ∀ {c' : Conn}, (∀ p, Inv jid U NR p c → Inv jid U NR p c') → Good jid U NR c' := fun e => h.frame e
  cases op with
  | connect k =>
    cases k with
    | client => exact h.connectClient
    | component => exact h.connectComponent
    | raw => exact h.connectRaw
  | run rx => exact h.runOnce rx
  | setTcp f e => exact fr (fun _ hi => ⟨hi.cfg, hi.q, hi.e, hi.gg, hi.h, hi.f, hi.ts⟩)
  | setTls a b' => exact fr (fun _ hi => ⟨hi.cfg, hi.q, hi.e, hi.gg, hi.h, hi.f, hi.ts⟩)
  | setSched l d => exact fr (fun _ hi => ⟨hi.cfg, hi.q, hi.e, hi.gg, hi.h, hi.f, hi.ts⟩)
  | tick ms => exact fr (fun _ hi => ⟨hi.cfg, hi.q, hi.e, hi.gg, hi.h, hi.f, hi.ts⟩)
  | setSmCallback => exact fr (fun _ hi => ⟨hi.cfg, hi.q, hi.e, hi.gg, hi.h, hi.f, hi.ts⟩)
  | setSendOnConnect on => exact fr (fun _ hi => ⟨hi.cfg, hi.q, hi.e, hi.gg, hi.h, hi.f, hi.ts⟩)
  | usend it =>
    show Good jid U NR (Conn.sendStanza c it .user)
    unfold Conn.sendStanza; split
    · rename_i hg; exact fr (fun _ hi => hi.pushUser it (Or.inl hop) hg)
    · exact h
  | urawstr it =>
    show Good jid U NR (Conn.xmppSendRawString c it)
    unfold Conn.xmppSendRawString; split
    · rename_i hg; exact fr (fun _ hi => hi.pushUser it (Or.inl hop) hg)
    · exact h
  | uraw it => exact fr (fun _ hi => hi.sendRawUser it hop.1 hop.2)
  | udisc => exact fr (fun _ hi => hi.xmppDisconnect)
  | setFlags f => exact h.setFlags f
  | release =>
    show Good jid U NR (Conn.release c)
    unfold Conn.release; split
    · exact h.connDisconnect
    · exact h
  | addUserHandlers =>
    refine fr (fun _ hi => ?_)
    refine Inv.addTimed ?_ .userTimed 1000 true (by simp) (fun e => by cases e)
    exact (hi.addHandler .userAll 0 none none none true (by simp) (fun s e _ => by cases e)).addIdHandlerUser _

theorem Good.exec (ops : List Op) (hops : ∀ op ∈ ops, OpOk U NR op) (h : Good jid U NR c) :
    Good jid U NR (Conn.exec c ops) := by
  unfold Conn.exec
  induction ops generalizing c with
  | nil => exact h
  | cons op ops ih =>
    rw [List.foldl_cons]
    exact ih (fun o ho => hops o (List.mem_cons_of_mem _ ho)) (h.step op (hops op List.mem_cons_self))

theorem good_fresh (jid pass : Option Bytes) (cert : Bool) (flags : Nat) :
    Good jid U NR (fresh jid pass cert flags) := by
  unfold fresh
  refine Good.setFlags ?_ flags
  refine ⟨{}, ⟨rfl, rfl, rfl, rfl, rfl, rfl⟩, ?_⟩
  refine ⟨⟨rfl, fun a => absurd rfl a, fun a => absurd rfl a⟩, ?_, ?_, ?_, ?_, ?_, rfl⟩
  · exact { q_ok := (fun _ a => nomatch a), smq_ok := (fun _ a => nomatch a), q_ht := (fun a => nomatch a),
            q_n := (fun _ _ a => nomatch a), q_cg := fun _ => rfl, tx_ok := (fun _ a => nomatch a) }
  · exact { att := (fun _ a => nomatch a), once := fun _ => Nat.zero_le _, zero := fun _ => rfl,
            ucb := (fun _ a => nomatch a), neg := (fun _ a => nomatch a) }
  · exact { tls_sec := (fun a => nomatch a), sasl := fun i a => (by rw [Nat.zero_testBit] at a; cases a),
            comp := (fun a => nomatch a), bindR := (fun a => nomatch a), sessR := (fun a => nomatch a),
            smS := (fun a => nomatch a), smB := (fun a => nomatch a),
            nc := fun _ => ⟨rfl, rfl, rfl, rfl, rfl, rfl⟩, cg := (fun a => nomatch a),
            nn1 := (fun a => nomatch a), nn2 := fun a => absurd rfl a, smE := (fun a => nomatch a) }
  · exact { uidH := (fun _ a => nomatch a), nd := List.nodup_nil, uidT := (fun _ a => nomatch a),
            uidX := (fun _ a => nomatch a), uidY := (fun _ a => nomatch a), xsOk := (fun _ a => nomatch a),
            userH := (fun _ a => nomatch a), userT := (fun _ a => nomatch a), tfn := (fun _ a => nomatch a),
            idk := (fun _ a => nomatch a), one := (fun _ a => nomatch a), phase := (fun _ a => nomatch a),
            ohOk := ⟨fun a => (by rcases a with a | a <;> cases a), fun a => (by rcases a with a | a <;> cases a)⟩,
            fr := fun a => (by rcases a with a | a <;> cases a), t1 := (fun _ a => nomatch a),
            cgH := (fun a => nomatch a), raw := fun a => absurd rfl a, mbN := Nat.zero_le _,
            lv := (fun _ _ a => nomatch a) }
  · exact ⟨Or.inl rfl, rfl, fun _ => rfl, fun _ => rfl, (fun a => nomatch a), fun _ => rfl⟩

end Strophe.Lemmas.ConnC03
