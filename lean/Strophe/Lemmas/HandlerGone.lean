/-
C11 helper lemmas, part 7: registrations as identities.  Allocation numbers are unique over ALL
handler lists of a context (`Disj`), a registration that has left its list never comes back
(`GoneAt` is kept by every operation), and nothing that is gone is ever invoked.
-/
import Strophe.Lemmas.HandlerTrace

namespace Strophe.Lemmas.Handler
open Strophe Strophe.Handler Strophe.HandlerSpec

/-- the handler lists of a context -/
inductive Loc
  | h (c : Nat)
  | i (c : Nat) (id : Str)
  | t (c : Nat)
  | g
  deriving DecidableEq

def listAt (st : St) : Loc → List Item
  | .h c => (st.conns c).handlers
  | .i c id => (st.conns c).idTab id
  | .t c => (st.conns c).timed
  | .g => st.gtimed

/-- the list an API call works on -/
def actLoc : Act → Option Loc
  | .add c _ _ _ => some (.h c)
  | .addId c _ _ id => some (.i c id)
  | .addTimed c _ _ _ => some (.t c)
  | .addGlobal _ _ _ => some .g
  | .del c _ => some (.h c)
  | .delId c _ id => some (.i c id)
  | .delTimed c _ => some (.t c)
  | .delGlobal _ => some .g
  | .send _ => none
  | .tick _ => none

theorem applyAct_frame (st : St) (a : Act) (l : Loc) (h : some l ≠ actLoc a) :
    listAt (applyAct st a) l = listAt st l := by
  cases a <;> cases l <;>
    simp only [actLoc, ne_eq, Option.some.injEq, Loc.h.injEq, Loc.i.injEq, Loc.t.injEq, reduceCtorEq,
      not_false_eq_true, not_true_eq_false] at h <;>
    simp only [applyAct, handlerAdd, idHandlerAdd, timedAdd, globalTimedAdd, handlerDelete, idHandlerDelete,
      timedDelete, globalTimedDelete, send, listAt] <;>
    (try split) <;> (try rfl) <;>
    (simp only [updConn]; (try split) <;> simp_all) <;>
    (try (simp [tabSet, *])) <;> (try (split <;> rfl))

theorem WF.lt_at {st : St} (w : WF st) (l : Loc) : ∀ x ∈ listAt st l, x.uid < st.nextUid := by
  cases l with
  | h c => exact (w.h c).lt
  | i c id => exact (w.i c id).lt
  | t c => exact (w.t c).lt
  | g => exact w.g.lt

theorem evo_sub {f : Bool} {live : Item → Bool} {n : Nat} {D : List Nat} {l l' : List Item}
    (h : Evo f live n D l l') : ∀ x ∈ l', x ∈ l ∨ n ≤ x.uid := by
  obtain ⟨pre, post, e, fresh, _, _⟩ := h
  intro x hx
  rw [e] at hx
  simp only [List.mem_append, List.mem_filter] at hx
  rcases hx with (hx | hx) | hx
  · exact Or.inr (fresh x (by simp [hx]))
  · exact Or.inl hx.1
  · exact Or.inr (fresh x (by simp [hx]))

theorem listAt_applyAct (st : St) (a : Act) (l : Loc) :
    ∀ x ∈ listAt (applyAct st a) l, x ∈ listAt st l ∨ st.nextUid ≤ x.uid := by
  cases l with
  | h c => exact evo_sub (handlers_applyAct st a c)
  | i c id => exact evo_sub (idTab_applyAct st a c id)
  | t c => exact evo_sub (timed_applyAct st a c)
  | g => exact evo_sub (gtimed_applyAct st a)

/-- how one step may change the lists: items are old (same list, same allocation) or freshly
    allocated, and all fresh ones are in one list -/
def Sub (st st' : St) : Prop :=
  st.nextUid ≤ st'.nextUid ∧
  ∃ l0 : Option Loc, ∀ l x, x ∈ listAt st' l →
    (∃ y ∈ listAt st l, y.uid = x.uid) ∨ (st.nextUid ≤ x.uid ∧ some l = l0)

theorem Sub.of_same (st st' : St) (hn : st.nextUid ≤ st'.nextUid)
    (h : ∀ l x, x ∈ listAt st' l → ∃ y ∈ listAt st l, y.uid = x.uid) : Sub st st' :=
  ⟨hn, none, fun l x hx => Or.inl (h l x hx)⟩

theorem applyAct_sub (st : St) (w : WF st) (a : Act) : Sub st (applyAct st a) := by
  refine ⟨applyAct_nextUid_le st a, actLoc a, ?_⟩
  intro l x hx
  rcases listAt_applyAct st a l x hx with h | h
  · exact Or.inl ⟨x, h, rfl⟩
  · by_cases hl : some l = actLoc a
    · exact Or.inr ⟨h, hl⟩
    · rw [applyAct_frame st a l hl] at hx
      have := w.lt_at l x hx
      omega

/-- registration `u` is not (any more) in list `l` -/
def GoneAt (l : Loc) (u : Nat) (st : St) : Prop := u < st.nextUid ∧ ∀ x ∈ listAt st l, x.uid ≠ u

/-- registration `u` is in no list -/
def Gone (u : Nat) (st : St) : Prop := ∀ l, GoneAt l u st

/-- allocation numbers are unique over all lists -/
def Disj (st : St) : Prop :=
  ∀ l1 l2 x y, x ∈ listAt st l1 → y ∈ listAt st l2 → x.uid = y.uid → l1 = l2

theorem GoneAt.sub {l : Loc} {u : Nat} {st st' : St} (h : GoneAt l u st) (s : Sub st st') : GoneAt l u st' := by
  obtain ⟨hn, l0, hs⟩ := s
  refine ⟨Nat.lt_of_lt_of_le h.1 hn, ?_⟩
  intro x hx e
  rcases hs l x hx with ⟨y, hy, hyx⟩ | ⟨hf, _⟩
  · exact h.2 y hy (hyx.trans e)
  · have := h.1; omega

theorem Disj.sub {st st' : St} (d : Disj st) (w : WF st) (s : Sub st st') : Disj st' := by
  obtain ⟨_, l0, hs⟩ := s
  intro l1 l2 x y hx hy e
  rcases hs l1 x hx with ⟨x', hx', ex⟩ | ⟨fx, lx⟩ <;> rcases hs l2 y hy with ⟨y', hy', ey⟩ | ⟨fy, ly⟩
  · exact d l1 l2 x' y' hx' hy' (by rw [ex, ey, e])
  · have := w.lt_at l1 x' hx'; omega
  · have := w.lt_at l2 y' hy'; omega
  · have : some l1 = some l2 := lx.trans ly.symm
    injection this

theorem disj_init : Disj {} := by
  intro l1 l2 x y hx
  cases l1 <;> cases hx

/-! ### the loops' own writes -/

/-- replacing list `l0` by a list with the same or fewer allocations -/
theorem sub_of_set (st st' : St) (l0 : Loc) (hn : st'.nextUid = st.nextUid)
    (hother : ∀ l, l ≠ l0 → listAt st' l = listAt st l)
    (hown : ∀ x ∈ listAt st' l0, ∃ y ∈ listAt st l0, y.uid = x.uid) : Sub st st' := by
  refine Sub.of_same st st' (by rw [hn]; exact Nat.le_refl _) ?_
  intro l x hx
  by_cases h : l = l0
  · subst h; exact hown x hx
  · rw [hother l h] at hx; exact ⟨x, hx, rfl⟩

theorem mem_of_uid_map {l l' : List Item} (h : l'.map (·.uid) = l.map (·.uid)) :
    ∀ x ∈ l', ∃ y ∈ l, y.uid = x.uid := by
  intro x hx
  have : x.uid ∈ l'.map (·.uid) := List.mem_map.mpr ⟨x, hx, rfl⟩
  rw [h] at this
  obtain ⟨y, hy, e⟩ := List.mem_map.mp this
  exact ⟨y, hy, e⟩

/-- a lens is the view of one list -/
structure AtLoc (L : Cfg) (l0 : Loc) : Prop where
  get : ∀ st, L.get st = listAt st l0
  other : ∀ st l' l, l ≠ l0 → listAt (L.set st l') l = listAt st l

theorem cfgH_at (c : Nat) (s : Stanza) (neg : Bool) : AtLoc (cfgH c s neg) (.h c) where
  get st := rfl
  other st l' l h := by
    cases l with
    | h c' =>
      have : c' ≠ c := fun e => h (by rw [e])
      simp [cfgH, listAt, updConn_conns_other _ _ _ _ this]
    | i c' id => by_cases hc : c' = c <;> simp [cfgH, listAt, updConn, hc]
    | t c' => by_cases hc : c' = c <;> simp [cfgH, listAt, updConn, hc]
    | g => rfl

theorem cfgI_at (c : Nat) (s : Stanza) (id : Str) (neg : Bool) : AtLoc (cfgI c s id neg) (.i c id) where
  get st := rfl
  other st l' l h := by
    cases l with
    | h c' => by_cases hc : c' = c <;> simp [cfgI, listAt, updConn, hc]
    | i c' id' =>
      by_cases hc : c' = c
      · subst hc
        have : id' ≠ id := fun e => h (by rw [e])
        simp [cfgI, listAt, tabSet, this]
      · simp [cfgI, listAt, updConn, hc]
    | t c' => by_cases hc : c' = c <;> simp [cfgI, listAt, updConn, hc]
    | g => rfl

theorem cfgT_at (c : Nat) (neg : Bool) : AtLoc (cfgT c neg) (.t c) where
  get st := rfl
  other st l' l h := by
    cases l with
    | h c' => by_cases hc : c' = c <;> simp [cfgT, listAt, updConn, hc]
    | i c' id => by_cases hc : c' = c <;> simp [cfgT, listAt, updConn, hc]
    | t c' =>
      have : c' ≠ c := fun e => h (by rw [e])
      simp [cfgT, listAt, updConn_conns_other _ _ _ _ this]
    | g => rfl

theorem cfgG_at : AtLoc cfgG .g where
  get st := rfl
  other st l' l h := by
    cases l with
    | g => exact absurd rfl h
    | h c' => rfl
    | i c' id => rfl
    | t c' => rfl

theorem set_sub {L : Cfg} {l0 : Loc} (hL : L.Ok) (hA : AtLoc L l0) (st : St) (l' : List Item)
    (h : ∀ x ∈ l', ∃ y ∈ L.get st, y.uid = x.uid) : Sub st (L.set st l') := by
  refine sub_of_set st _ l0 (hL.set_nextUid _ _) (fun l hl => hA.other st l' l hl) ?_
  intro x hx
  rw [← hA.get, hL.get_set] at hx
  rw [← hA.get]
  exact h x hx

theorem pre_sub {L : Cfg} {l0 : Loc} (hL : L.Ok) (hA : AtLoc L l0) (st : St) (it : Item) : Sub st (L.pre st it) := by
  unfold Cfg.pre
  split
  · exact set_sub hL hA st _ (mem_of_uid_map (setLast_uid _ _ _))
  · exact Sub.of_same st st (Nat.le_refl _) (fun l x hx => ⟨x, hx, rfl⟩)

theorem rem_sub {L : Cfg} {l0 : Loc} (hL : L.Ok) (hA : AtLoc L l0) (st : St) (u : Nat) :
    Sub st (L.set st (removeUid (L.get st) u)) :=
  set_sub hL hA st _ (fun x hx => ⟨x, (mem_removeUid.mp hx).1, rfl⟩)

theorem withLog_sub (st : St) (cnt : Key → Nat) (log : List Inv) : Sub st (withLog st cnt log) :=
  Sub.of_same _ _ (Nat.le_refl _) (fun l x hx => by cases l <;> exact ⟨x, hx, rfl⟩)

/-- any property kept by `Sub`-steps from well-formed states is kept by the loops -/
theorem gloop_sub_preserves (beh : Beh) {L : Cfg} {l0 : Loc} (hL : L.Ok) (hA : AtLoc L l0) (P : St → Prop)
    (hP : ∀ st st', WF st → P st → Sub st st' → P st') :
    ∀ (fuel : Nat) (st : St) (suffix : List Item) (st' : St),
      WF st → P st → gloop beh L fuel st suffix = .ok st' → WF st' ∧ P st' := by
  intro fuel st suffix st' w p h
  refine gloop_preserves beh L (fun s => WF s ∧ P s) ?_ ?_ ?_ ?_ fuel st suffix st' ⟨w, p⟩ h
  · intro s cnt log ⟨ws, ps⟩; exact ⟨ws.withLog _ _, hP _ _ ws ps (withLog_sub _ _ _)⟩
  · intro s a ⟨ws, ps⟩; exact ⟨applyAct_wf s ws a, hP _ _ ws ps (applyAct_sub s ws a)⟩
  · intro s it ⟨ws, ps⟩
    refine ⟨?_, hP _ _ ws ps (pre_sub hL hA s it)⟩
    unfold Cfg.pre; split
    · exact hL.wf_set_last _ _ _ ws
    · exact ws
  · intro s u ⟨ws, ps⟩
    exact ⟨hL.wf_set_filter _ _ ws, hP _ _ ws ps (rem_sub hL hA s u)⟩

/-! ### what the loops invoke, and what becomes of it -/

theorem after_subset {l : List Item} {u : Nat} {R : List Item} (h : after l u = some R) : ∀ x ∈ R, x ∈ l := by
  obtain ⟨A, it, e, _, _⟩ := after_some_split h
  intro x hx
  rw [e]; simp [hx]

theorem find?_mem' {l : List Item} {p : Item → Bool} {it : Item} (h : l.find? p = some it) : it ∈ l :=
  List.mem_of_find?_eq_some h

theorem gone_sub {u : Nat} {st st' : St} (h : Gone u st) (s : Sub st st') : Gone u st' :=
  fun l => (h l).sub s

/-- one loop: nothing that is gone is invoked, what returns false is gone afterwards, and `Disj` and
    `Gone` survive -/
theorem gloop_gone (beh : Beh) {L : Cfg} {l0 : Loc} (hL : L.Ok) (hA : AtLoc L l0) :
    ∀ (fuel : Nat) (st : St) (suffix : List Item) (st' : St),
      WF st → Disj st → (∀ x ∈ suffix, x ∈ L.get st) → gloop beh L fuel st suffix = .ok st' →
      WF st' ∧ Disj st' ∧ (∀ u, Gone u st → Gone u st') ∧
      ∃ Lg, st'.log = st.log ++ Lg ∧
        (∀ v ∈ Lg, ¬ Gone v.uid st) ∧ (∀ v ∈ Lg, v.ret = false → Gone v.uid st') := by
  intro fuel
  induction fuel with
  | zero =>
    intro st suffix st' w d _ h
    unfold gloop at h
    cases hf : suffix.find? (L.pred st.now) with
    | none =>
      rw [hf] at h; injection h with h; subst h
      exact ⟨w, d, fun _ g => g, [], by simp, by simp, by simp⟩
    | some it => rw [hf] at h; cases h
  | succ fuel ih =>
    intro st suffix st' w d hsub h
    unfold gloop at h
    cases hf : suffix.find? (L.pred st.now) with
    | none =>
      rw [hf] at h; injection h with h; subst h
      exact ⟨w, d, fun _ g => g, [], by simp, by simp, by simp⟩
    | some it =>
      rw [hf] at h
      simp only [] at h
      have hit : it ∈ listAt st l0 := by rw [← hA.get]; exact hsub it (find?_mem' hf)
      have hitlt : it.uid < st.nextUid := w.lt_at l0 it hit
      -- the steps up to the end of the callback
      have s0 : Sub st (L.pre st it) := pre_sub hL hA st it
      have w0 : WF (L.pre st it) := by
        unfold Cfg.pre; split
        · exact hL.wf_set_last _ _ _ w
        · exact w
      rw [invoke_eq] at h
      generalize hstep : beh it.key ((L.pre st it).cnt it.key) = step at h
      generalize hstL : withLog (L.pre st it) (bump (L.pre st it).cnt it.key)
        ((L.pre st it).log ++ [mkInv L.cls L.conn it L.name (L.pre st it).now step.keep]) = stL at h
      have sL : Sub (L.pre st it) stL := hstL ▸ withLog_sub _ _ _
      have wL : WF stL := hstL ▸ w0.withLog _ _
      have hlogL : stL.log = st.log ++ [mkInv L.cls L.conn it L.name (L.pre st it).now step.keep] := by
        rw [← hstL]
        show (L.pre st it).log ++ _ = _
        have : (L.pre st it).log = st.log := by
          unfold Cfg.pre; split
          · exact hL.set_log _ _
          · rfl
        rw [this]
      have hacts : ∀ (acts : List Act) (s : St), WF s → (WF (applyActs s acts) ∧
          (∀ P : St → Prop, (∀ a b, WF a → P a → Sub a b → P b) → P s → P (applyActs s acts))) := by
        intro acts
        induction acts with
        | nil => intro s ws; exact ⟨ws, fun _ _ p => p⟩
        | cons a r ihr =>
          intro s ws
          have w' := applyAct_wf s ws a
          obtain ⟨wr, pr⟩ := ihr (applyAct s a) w'
          exact ⟨wr, fun P hP p => pr P hP (hP _ _ ws p (applyAct_sub s ws a))⟩
      generalize hst1 : applyActs stL step.acts = st1 at h
      obtain ⟨w1, p1⟩ := hacts step.acts stL wL
      rw [hst1] at w1 p1
      have hlog1 : st1.log = stL.log := by rw [← hst1, applyActs_log]
      -- transport of Sub-stable properties from st to st1
      have tr : ∀ P : St → Prop, (∀ a b, WF a → P a → Sub a b → P b) → P st → P st1 := by
        intro P hP p
        exact p1 P hP (hP _ _ w0 (hP _ _ w p s0) sL)
      cases ha : after (L.get st1) it.uid with
      | none => rw [ha] at h; cases h
      | some rest =>
        rw [ha] at h
        simp only [] at h
        generalize hst2 : (if step.keep = true then st1 else L.set st1 (removeUid (L.get st1) it.uid)) = st2 at h
        have w2 : WF st2 := by
          rw [← hst2]; split
          · exact w1
          · exact hL.wf_set_filter _ _ w1
        have s2 : Sub st1 st2 := by
          rw [← hst2]; split
          · exact Sub.of_same _ _ (Nat.le_refl _) (fun l x hx => ⟨x, hx, rfl⟩)
          · exact rem_sub hL hA st1 it.uid
        have tr2 : ∀ P : St → Prop, (∀ a b, WF a → P a → Sub a b → P b) → P st → P st2 :=
          fun P hP p => hP _ _ w1 (tr P hP p) s2
        have d2 : Disj st2 := tr2 Disj (fun a b wa da sab => da.sub wa sab) d
        have hlog2 : st2.log = stL.log := by
          rw [← hst2]; split
          · exact hlog1
          · rw [hL.set_log]; exact hlog1
        have hsub2 : ∀ x ∈ rest, x ∈ L.get st2 := by
          intro x hx
          have hx1 := after_subset ha x hx
          rw [← hst2]; split
          · exact hx1
          · rw [hL.get_set]
            refine mem_removeUid.mpr ⟨hx1, ?_⟩
            -- `rest` lies behind the item in a list without repeated allocations
            obtain ⟨A, it1, e, hu, _⟩ := after_some_split ha
            have nd := (hL.wf_get st1 w1).nd
            rw [e, List.map_append, List.map_cons, List.nodup_append] at nd
            have := (List.nodup_cons.mp nd.2.1).1
            intro ex
            exact this (List.mem_map.mpr ⟨x, hx, by rw [ex, hu]⟩)
        obtain ⟨w', d', g', Lr, hlr, hnot, hret⟩ := ih st2 rest st' w2 d2 hsub2 h
        refine ⟨w', d', fun u g => g' u (tr2 (Gone u) (fun a b _ ga sab => gone_sub ga sab) g),
          mkInv L.cls L.conn it L.name (L.pre st it).now step.keep :: Lr, ?_, ?_, ?_⟩
        · rw [hlr, hlog2, hlogL]; simp
        · intro v hv
          rcases List.mem_cons.mp hv with rfl | hv
          · intro g
            exact (g l0).2 it hit rfl
          · intro g
            exact hnot v hv (tr2 (Gone v.uid) (fun a b _ ga sab => gone_sub ga sab) g)
        · intro v hv hr
          rcases List.mem_cons.mp hv with rfl | hv
          · -- the item itself: removed from its own list, and it never was in another one
            apply g'
            have hk : step.keep = false := hr
            intro l
            by_cases hl : l = l0
            · subst hl
              refine ⟨Nat.lt_of_lt_of_le hitlt (Nat.le_trans ?_ s2.1), ?_⟩
              · exact (tr (fun s => st.nextUid ≤ s.nextUid) (fun a b _ pa sab => Nat.le_trans pa sab.1) (Nat.le_refl _))
              · intro x hx
                rw [← hA.get, ← hst2, hk] at hx
                simp only [Bool.false_eq_true, if_false] at hx
                rw [hL.get_set] at hx
                exact (mem_removeUid.mp hx).2
            · have g0 : GoneAt l it.uid st := by
                refine ⟨hitlt, ?_⟩
                intro x hx e
                exact hl (d l l0 x it hx hit e)
              exact tr2 (GoneAt l it.uid) (fun a b _ ga sab => ga.sub sab) g0
          · exact hret v hv hr

/-! ### operations and traces -/

/-- between two states: well-formedness and uniqueness survive, what is gone stays gone, nothing that
    was gone is invoked, and what returned false is gone -/
def GonePost (st st' : St) : Prop :=
  WF st' ∧ Disj st' ∧ (∀ u, Gone u st → Gone u st') ∧
  ∃ Lg, st'.log = st.log ++ Lg ∧ (∀ v ∈ Lg, ¬ Gone v.uid st) ∧ (∀ v ∈ Lg, v.ret = false → Gone v.uid st')

theorem GonePost.of_sub {st st' : St} (w : WF st) (d : Disj st) (w' : WF st') (s : Sub st st')
    (hl : st'.log = st.log) : GonePost st st' :=
  ⟨w', d.sub w s, fun _ g => gone_sub g s, [], by simp [hl], by simp, by simp⟩

theorem GonePost.trans {st st1 st2 : St} (h1 : GonePost st st1) (h2 : GonePost st1 st2) : GonePost st st2 := by
  obtain ⟨_, _, g1, L1, e1, n1, r1⟩ := h1
  obtain ⟨w2, d2, g2, L2, e2, n2, r2⟩ := h2
  refine ⟨w2, d2, fun u g => g2 u (g1 u g), L1 ++ L2, by rw [e2, e1, List.append_assoc], ?_, ?_⟩
  · intro v hv
    rcases List.mem_append.mp hv with hv | hv
    · exact n1 v hv
    · exact fun g => n2 v hv (g1 _ g)
  · intro v hv hr
    rcases List.mem_append.mp hv with hv | hv
    · exact g2 _ (r1 v hv hr)
    · exact r2 v hv hr

theorem GonePost.of_gloop (beh : Beh) {L : Cfg} {l0 : Loc} (hL : L.Ok) (hA : AtLoc L l0) (fuel : Nat) (st st' : St)
    (w : WF st) (d : Disj st) (h : gloop beh L fuel st (L.get st) = .ok st') : GonePost st st' :=
  gloop_gone beh hL hA fuel st _ st' w d (fun _ hx => hx) h

theorem set_map_post {L : Cfg} {l0 : Loc} (hL : L.Ok) (hA : AtLoc L l0) (st : St) (w : WF st) (d : Disj st)
    (l' : List Item) (hu : l'.map (·.uid) = (L.get st).map (·.uid)) (w' : WF (L.set st l')) :
    GonePost st (L.set st l') :=
  GonePost.of_sub w d w' (set_sub hL hA st l' (mem_of_uid_map hu)) (hL.set_log _ _)

theorem stEnH_eq (st : St) (c : Nat) (s : Stanza) (neg : Bool) :
    stEnH st c = (cfgH c s neg).set st (enableAll ((cfgH c s neg).get st)) := by
  rw [cfgH_set, cfgH_get]; unfold stEnH; apply updConn_congr; rfl

theorem stEnI_eq (st : St) (c : Nat) (s : Stanza) (id : Str) (neg : Bool) :
    stEnI st c id = (cfgI c s id neg).set st (enableAll ((cfgI c s id neg).get st)) := by
  rw [cfgI_set, cfgI_get]; unfold stEnI; apply updConn_congr; rfl

theorem stEnT_eq (st : St) (c : Nat) (neg : Bool) :
    stEnT st c = (cfgT c neg).set st (enableAll ((cfgT c neg).get st)) := by
  rw [cfgT_set, cfgT_get]; unfold stEnT; apply updConn_congr; rfl

theorem fireStanza_gone (beh : Beh) (st : St) (c : Nat) (s : Stanza) (st' : St) (w : WF st) (d : Disj st)
    (h : fireStanza beh st c s = .ok st') : GonePost st st' := by
  generalize hneg : (st.conns c).negotiated = neg
  have pA : GonePost st (stEnH st c) := by
    have wA := stEnH_wf w c
    rw [stEnH_eq st c s neg] at wA ⊢
    exact set_map_post (cfgH_ok c s neg) (cfgH_at c s neg) st w d _ (enableAll_uid _) wA
  have hnegA : ((stEnH st c).conns c).negotiated = neg := by simp [stEnH, hneg]
  cases hs : s.id with
  | none =>
    rw [fireStanza_none _ _ _ _ hs, stanzaLoop_eq beh c s neg _ _ _ hnegA] at h
    exact pA.trans (GonePost.of_gloop beh (cfgH_ok c s neg) (cfgH_at c s neg) _ _ _ pA.1 pA.2.1 h)
  | some id =>
    rw [fireStanza_some _ _ _ _ id hs] at h
    have pI : GonePost (stEnH st c) (stEnI (stEnH st c) c id) := by
      have wI := stEnI_wf pA.1 c id
      rw [stEnI_eq (stEnH st c) c s id neg] at wI ⊢
      exact set_map_post (cfgI_ok c s id neg) (cfgI_at c s id neg) _ pA.1 pA.2.1 _ (enableAll_uid _) wI
    have hnegI : ((stEnI (stEnH st c) c id).conns c).negotiated = neg := by simp [stEnI, stEnH, hneg]
    rw [idLoop_eq beh c s id neg _ _ _ hnegI] at h
    cases h1 : gloop beh (cfgI c s id neg) (((stEnI (stEnH st c) c id).conns c).idTab id).length
        (stEnI (stEnH st c) c id) (((stEnI (stEnH st c) c id).conns c).idTab id) with
    | error e => rw [h1] at h; cases h
    | ok st1 =>
      rw [h1] at h
      have p1 := GonePost.of_gloop beh (cfgI_ok c s id neg) (cfgI_at c s id neg) _ _ _ pI.1 pI.2.1 h1
      have hneg1 : (st1.conns c).negotiated = neg := by
        have := gloop_spec beh (cfgI_ok c s id neg) (((stEnI (stEnH st c) c id).conns c).idTab id)
          (((stEnI (stEnH st c) c id).conns c).idTab id).length (stEnI (stEnH st c) c id) [] [] []
          pI.1 hnegI (List.length_filter_le _ _)
          (by show ((stEnI (stEnH st c) c id).conns c).idTab id = _; rw [filter_nil_dels]; simp) (by simp)
        simp only [filter_nil_dels, List.append_nil] at this
        rw [h1] at this
        exact this.2.2.2.2.1
      have h2 : stanzaLoop beh c s (st1.conns c).handlers.length st1 (st1.conns c).handlers = .ok st' := h
      rw [stanzaLoop_eq beh c s neg _ _ _ hneg1] at h2
      exact pA.trans (pI.trans (p1.trans
        (GonePost.of_gloop beh (cfgH_ok c s neg) (cfgH_at c s neg) _ _ _ p1.1 p1.2.1 h2)))

theorem fireTimedConn_gone (beh : Beh) (st : St) (c : Nat) (st' : St) (w : WF st) (d : Disj st)
    (h : fireTimedConn beh st c = .ok st') : GonePost st st' := by
  cases hc : (st.conns c).connected with
  | false =>
    rw [fireTimedConn_disconnected _ _ _ hc] at h
    injection h with h; subst h
    exact GonePost.of_sub w d w (Sub.of_same _ _ (Nat.le_refl _) (fun l x hx => ⟨x, hx, rfl⟩)) rfl
  | true =>
    generalize hneg : (st.conns c).negotiated = neg
    have pA : GonePost st (stEnT st c) := by
      have wA := stEnT_wf w c
      rw [stEnT_eq st c neg] at wA ⊢
      exact set_map_post (cfgT_ok c neg) (cfgT_at c neg) st w d _ (enableAll_uid _) wA
    have hnegA : ((stEnT st c).conns c).negotiated = neg := by simp [stEnT, hneg]
    rw [fireTimedConn_connected _ _ _ hc, timedLoop_eq beh c neg _ _ _ hnegA] at h
    exact pA.trans (GonePost.of_gloop beh (cfgT_ok c neg) (cfgT_at c neg) _ _ _ pA.1 pA.2.1 h)

theorem fireTimedConns_gone (beh : Beh) : ∀ (cs : List Nat) (st st' : St), WF st → Disj st →
    fireTimedConns beh cs st = .ok st' → GonePost st st' := by
  intro cs
  induction cs with
  | nil =>
    intro st st' w d h
    injection h with h; subst h
    exact GonePost.of_sub w d w (Sub.of_same _ _ (Nat.le_refl _) (fun l x hx => ⟨x, hx, rfl⟩)) rfl
  | cons c cs ih =>
    intro st st' w d h
    have h' : (fireTimedConn beh st c).bind (fun st1 => fireTimedConns beh cs st1) = .ok st' := h
    cases h1 : fireTimedConn beh st c with
    | error e => rw [h1] at h'; cases h'
    | ok st1 =>
      rw [h1] at h'
      have p1 := fireTimedConn_gone beh st c st1 w d h1
      exact p1.trans (ih st1 st' p1.1 p1.2.1 h')

theorem fireTimed_gone (beh : Beh) (st st' : St) (w : WF st) (d : Disj st)
    (h : fireTimed beh st = .ok st') : GonePost st st' := by
  have h' : (fireTimedConns beh (List.range st.nconns) st).bind
      (fun st1 => globalLoop beh st1.gtimed.length st1 st1.gtimed) = .ok st' := h
  cases h1 : fireTimedConns beh (List.range st.nconns) st with
  | error e => rw [h1] at h'; cases h'
  | ok st1 =>
    rw [h1] at h'
    have p1 := fireTimedConns_gone beh _ st st1 w d h1
    have h2 : globalLoop beh st1.gtimed.length st1 st1.gtimed = .ok st' := h'
    rw [globalLoop_eq] at h2
    exact p1.trans (GonePost.of_gloop beh cfgG_ok cfgG_at _ _ _ p1.1 p1.2.1 h2)

theorem sub_of_lists {st st' : St} (hn : st.nextUid ≤ st'.nextUid)
    (h : ∀ l x, x ∈ listAt st' l → x ∈ listAt st l ∨ (∃ y ∈ listAt st l, y.uid = x.uid)) : Sub st st' :=
  Sub.of_same st st' hn (fun l x hx => by
    rcases h l x hx with h | h
    · exact ⟨x, h, rfl⟩
    · exact h)

theorem add_sub (st st' : St) (l0 : Loc) (it : Item) (hn : st.nextUid ≤ st'.nextUid) (hu : it.uid = st.nextUid)
    (h : ∀ l x, x ∈ listAt st' l → x ∈ listAt st l ∨ (l = l0 ∧ x = it)) : Sub st st' := by
  refine ⟨hn, some l0, ?_⟩
  intro l x hx
  rcases h l x hx with h | ⟨h1, h2⟩
  · exact Or.inl ⟨x, h, rfl⟩
  · exact Or.inr ⟨by rw [h2, hu]; exact Nat.le_refl _, by rw [h1]⟩

theorem handlerAdd_sub (st : St) (c fn ud : Nat) (flt : Filter) (user : Bool) :
    Sub st (handlerAdd st c fn ud flt user) := by
  unfold handlerAdd
  split
  · exact Sub.of_same _ _ (Nat.le_refl _) (fun l x hx => ⟨x, hx, rfl⟩)
  · refine add_sub _ _ (.h c) { uid := st.nextUid, fn, ud, user, enabled := false, flt } (Nat.le_succ _) rfl ?_
    intro l x hx
    cases l with
    | h c' =>
      by_cases hc : c' = c
      · subst hc
        simp only [listAt, updConn_conns_same, List.mem_append, List.mem_singleton] at hx
        rcases hx with hx | hx
        · exact Or.inl hx
        · exact Or.inr ⟨rfl, hx⟩
      · left; simpa [listAt, updConn, hc] using hx
    | i c' id => left; by_cases hc : c' = c <;> simpa [listAt, updConn, hc] using hx
    | t c' => left; by_cases hc : c' = c <;> simpa [listAt, updConn, hc] using hx
    | g => exact Or.inl hx

theorem idHandlerAdd_sub (st : St) (c fn ud : Nat) (id : Str) (user : Bool) :
    Sub st (idHandlerAdd st c fn ud id user) := by
  unfold idHandlerAdd
  split
  · exact Sub.of_same _ _ (Nat.le_refl _) (fun l x hx => ⟨x, hx, rfl⟩)
  · refine add_sub _ _ (.i c id) { uid := st.nextUid, fn, ud, user, enabled := false, id } (Nat.le_succ _) rfl ?_
    intro l x hx
    cases l with
    | h c' => left; by_cases hc : c' = c <;> simpa [listAt, updConn, hc] using hx
    | i c' id' =>
      by_cases hc : c' = c
      · subst hc
        by_cases hi : id' = id
        · subst hi
          simp only [listAt, updConn_conns_same, tabSet_same, List.mem_append, List.mem_singleton] at hx
          rcases hx with hx | hx
          · exact Or.inl hx
          · exact Or.inr ⟨rfl, hx⟩
        · left; simpa [listAt, tabSet, hi] using hx
      · left; simpa [listAt, updConn, hc] using hx
    | t c' => left; by_cases hc : c' = c <;> simpa [listAt, updConn, hc] using hx
    | g => exact Or.inl hx

theorem timedAddList_mem {l l' : List Item} {n now fn ud p : Nat} {user : Bool}
    (e : timedAddList l n now fn ud p user = some l') :
    ∃ it, it.uid = n ∧ l' = it :: l := by
  unfold timedAddList at e
  split at e
  · cases e
  · injection e with e; exact ⟨_, rfl, e.symm⟩

theorem timedAdd_sub (st : St) (c fn ud p : Nat) (user : Bool) : Sub st (timedAdd st c fn ud p user) := by
  unfold timedAdd
  split
  · exact Sub.of_same _ _ (Nat.le_refl _) (fun l x hx => ⟨x, hx, rfl⟩)
  · rename_i l' e
    obtain ⟨it, hu, rfl⟩ := timedAddList_mem e
    refine add_sub _ _ (.t c) it (Nat.le_succ _) hu ?_
    intro l x hx
    cases l with
    | h c' => left; by_cases hc : c' = c <;> simpa [listAt, updConn, hc] using hx
    | i c' id => left; by_cases hc : c' = c <;> simpa [listAt, updConn, hc] using hx
    | t c' =>
      by_cases hc : c' = c
      · subst hc
        simp only [listAt, updConn_conns_same, List.mem_cons] at hx
        rcases hx with hx | hx
        · exact Or.inr ⟨rfl, hx⟩
        · exact Or.inl hx
      · left; simpa [listAt, updConn, hc] using hx
    | g => exact Or.inl hx

theorem globalTimedAdd_sub (st : St) (fn ud p : Nat) : Sub st (globalTimedAdd st fn ud p) := by
  unfold globalTimedAdd
  split
  · exact Sub.of_same _ _ (Nat.le_refl _) (fun l x hx => ⟨x, hx, rfl⟩)
  · rename_i l' e
    obtain ⟨it, hu, rfl⟩ := timedAddList_mem e
    refine add_sub _ _ .g it (Nat.le_succ _) hu ?_
    intro l x hx
    cases l with
    | h c' => exact Or.inl hx
    | i c' id => exact Or.inl hx
    | t c' => exact Or.inl hx
    | g =>
      simp only [listAt, List.mem_cons] at hx
      rcases hx with hx | hx
      · exact Or.inr ⟨rfl, hx⟩
      · exact Or.inl hx

theorem step_gone (beh : Beh) (st st' : St) (op : Op) (w : WF st) (d : Disj st)
    (h : step beh st op = .ok st') : GonePost st st' := by
  have wf' : WF st' := by
    have := step_post beh st w op
    rw [h] at this; exact this.1
  cases op with
  | add c fn ud flt user =>
    injection h with h; subst h
    exact GonePost.of_sub w d wf' (handlerAdd_sub st c fn ud flt user) (by unfold handlerAdd; split <;> rfl)
  | addId c fn ud id user =>
    injection h with h; subst h
    exact GonePost.of_sub w d wf' (idHandlerAdd_sub st c fn ud id user) (by unfold idHandlerAdd; split <;> rfl)
  | addTimed c fn ud p user =>
    injection h with h; subst h
    exact GonePost.of_sub w d wf' (timedAdd_sub st c fn ud p user) (by unfold timedAdd; split <;> rfl)
  | addGlobal fn ud p =>
    injection h with h; subst h
    exact GonePost.of_sub w d wf' (globalTimedAdd_sub st fn ud p) (by unfold globalTimedAdd; split <;> rfl)
  | del c fn =>
    injection h with h; subst h
    exact GonePost.of_sub w d wf' (applyAct_sub st w (.del c fn)) rfl
  | delId c fn id =>
    injection h with h; subst h
    exact GonePost.of_sub w d wf' (applyAct_sub st w (.delId c fn id)) rfl
  | delTimed c fn =>
    injection h with h; subst h
    exact GonePost.of_sub w d wf' (applyAct_sub st w (.delTimed c fn)) rfl
  | delGlobal fn =>
    injection h with h; subst h
    exact GonePost.of_sub w d wf' (applyAct_sub st w (.delGlobal fn)) rfl
  | fire c s => exact fireStanza_gone beh st c s st' w d h
  | fireTimed => exact fireTimed_gone beh st st' w d h
  | tick n =>
    injection h with h; subst h
    exact GonePost.of_sub w d wf' (Sub.of_same _ _ (Nat.le_refl _) (fun l x hx => by cases l <;> exact ⟨x, hx, rfl⟩)) rfl
  | setConnected c b =>
    injection h with h; subst h
    refine GonePost.of_sub w d wf' (sub_of_lists (Nat.le_refl _) ?_) rfl
    intro l x hx
    left
    cases l with
    | h c' => by_cases hc : c' = c <;> simpa [listAt, updConn, hc] using hx
    | i c' id => by_cases hc : c' = c <;> simpa [listAt, updConn, hc] using hx
    | t c' => by_cases hc : c' = c <;> simpa [listAt, updConn, hc] using hx
    | g => exact hx
  | setNegotiated c b =>
    injection h with h; subst h
    refine GonePost.of_sub w d wf' (sub_of_lists (Nat.le_refl _) ?_) rfl
    intro l x hx
    left
    cases l with
    | h c' => by_cases hc : c' = c <;> simpa [listAt, updConn, hc] using hx
    | i c' id => by_cases hc : c' = c <;> simpa [listAt, updConn, hc] using hx
    | t c' => by_cases hc : c' = c <;> simpa [listAt, updConn, hc] using hx
    | g => exact hx
  | reset c u =>
    injection h with h; subst h
    refine GonePost.of_sub w d wf' (sub_of_lists (Nat.le_refl _) ?_) rfl
    intro l x hx
    cases l with
    | h c' => left; by_cases hc : c' = c <;> simpa [resetTimed, listAt, updConn, hc] using hx
    | i c' id => left; by_cases hc : c' = c <;> simpa [resetTimed, listAt, updConn, hc] using hx
    | t c' =>
      by_cases hc : c' = c
      · subst hc
        right
        simp only [resetTimed, listAt, updConn_conns_same, List.mem_map] at hx
        obtain ⟨y, hy, rfl⟩ := hx
        exact ⟨y, hy, by split <;> rfl⟩
      · left; simpa [resetTimed, listAt, updConn, hc] using hx
    | g => exact Or.inl hx
  | sysDel c =>
    injection h with h; subst h
    refine GonePost.of_sub w d wf' (sub_of_lists (Nat.le_refl _) ?_) rfl
    intro l x hx
    left
    cases l with
    | h c' =>
      by_cases hc : c' = c
      · subst hc; simp only [systemDeleteAll, listAt, updConn_conns_same, List.mem_filter] at hx; exact hx.1
      · simpa [systemDeleteAll, listAt, updConn, hc] using hx
    | i c' id =>
      by_cases hc : c' = c
      · subst hc; simp only [systemDeleteAll, listAt, updConn_conns_same, List.mem_filter] at hx; exact hx.1
      · simpa [systemDeleteAll, listAt, updConn, hc] using hx
    | t c' =>
      by_cases hc : c' = c
      · subst hc; simp only [systemDeleteAll, listAt, updConn_conns_same, List.mem_filter] at hx; exact hx.1
      · simpa [systemDeleteAll, listAt, updConn, hc] using hx
    | g => exact hx
  | clear =>
    injection h with h; subst h
    refine GonePost.of_sub w d wf' (sub_of_lists (Nat.le_refl _) ?_) rfl
    intro l x hx
    cases l with
    | h c' => cases hx
    | i c' id => cases hx
    | t c' => cases hx
    | g => exact Or.inl hx

theorem run_gone (beh : Beh) : ∀ (ops : List Op) (st st' : St), WF st → Disj st →
    run beh st ops = .ok st' → GonePost st st' := by
  intro ops
  induction ops with
  | nil =>
    intro st st' w d h
    injection h with h; subst h
    exact GonePost.of_sub w d w (Sub.of_same _ _ (Nat.le_refl _) (fun l x hx => ⟨x, hx, rfl⟩)) rfl
  | cons op ops ih =>
    intro st st' w d h
    have h' : (step beh st op).bind (fun st1 => run beh st1 ops) = .ok st' := h
    cases h1 : step beh st op with
    | error e => rw [h1] at h'; cases h'
    | ok st1 =>
      rw [h1] at h'
      have p1 := step_gone beh st st1 op w d h1
      exact p1.trans (ih st1 st' p1.1 p1.2.1 h')

/-! ### deletion -/

theorem eq_of_uid_eq {l : List Item} (nd : (l.map (·.uid)).Nodup) {x y : Item} (hx : x ∈ l) (hy : y ∈ l)
    (e : x.uid = y.uid) : x = y := by
  induction l with
  | nil => cases hx
  | cons a l ih =>
    rw [List.map_cons, List.nodup_cons] at nd
    rcases List.mem_cons.mp hx with hxa | hx' <;> rcases List.mem_cons.mp hy with hya | hy'
    · rw [hxa, hya]
    · subst hxa; exact absurd (List.mem_map.mpr ⟨y, hy', e.symm⟩) nd.1
    · subst hya; exact absurd (List.mem_map.mpr ⟨x, hx', e⟩) nd.1
    · exact ih nd.2 hx' hy'

theorem WF.nd_at {st : St} (w : WF st) (l : Loc) : ((listAt st l).map (·.uid)).Nodup := by
  cases l with
  | h c => exact (w.h c).nd
  | i c id => exact (w.i c id).nd
  | t c => exact (w.t c).nd
  | g => exact w.g.nd

/-- the list a delete call works on afterwards -/
theorem listAt_delete (st : St) (a : Act) (l0 : Loc) (fn : Nat) (hl : actLoc a = some l0)
    (hd : deletesFn fn a = true) : listAt (applyAct st a) l0 = delFn (listAt st l0) fn := by
  cases a <;> simp only [deletesFn, beq_iff_eq, reduceCtorEq] at hd <;>
    simp only [actLoc, Option.some.injEq] at hl <;> subst hl <;> subst hd <;>
    simp [applyAct, handlerDelete, idHandlerDelete, timedDelete, globalTimedDelete, listAt]

/-- `xmpp_handler_delete` & co.: every registration of the callback function in that list is gone -/
theorem deleted_gone (st : St) (w : WF st) (d : Disj st) (a : Act) (l0 : Loc) (fn : Nat)
    (hl : actLoc a = some l0) (hd : deletesFn fn a = true) (x : Item) (hx : x ∈ listAt st l0) (hf : x.fn = fn) :
    Gone x.uid (applyAct st a) := by
  intro l
  by_cases h : l = l0
  · subst h
    refine ⟨Nat.lt_of_lt_of_le (w.lt_at l x hx) (applyAct_nextUid_le st a), ?_⟩
    intro y hy e
    rw [listAt_delete st a l fn hl hd] at hy
    unfold delFn at hy
    obtain ⟨hy1, hy2⟩ := List.mem_filter.mp hy
    have := eq_of_uid_eq (w.nd_at l) hy1 hx e
    subst this
    simp [hf] at hy2
  · have g0 : GoneAt l x.uid st := ⟨w.lt_at l0 x hx, fun y hy e => h (d l l0 y x hy hx e)⟩
    exact g0.sub (applyAct_sub st w a)

end Strophe.Lemmas.Handler
