/-
Helper lemmas and the proofs behind Props/C16.lean.
-/
import Strophe.Model.SmBlob
import Strophe.Lemmas.SendQueue

namespace Strophe.Lemmas.SmBlob
open Strophe Strophe.SendQueue Strophe.SmBlob

/-- a state the serializer produces a blob for, with every length fitting its 32-bit field
    (the C code stores `(uint32_t)len`) -/
structure Serializable (c : Conn) : Prop where
  support : c.smSupport = true
  enabled : c.q.smEnabled = true
  canResume : c.canResume = true
  id : ∃ i, c.smId = some i ∧ (0 : UInt8) ∉ i ∧ i.length < 2 ^ 32
  qlen : c.q.queue.length < 2 ^ 32
  qdata : ∀ e ∈ c.q.queue, e.data.length < 2 ^ 32
  smlen : c.q.smQueue.length < 2 ^ 32
  smdata : ∀ e ∈ c.q.smQueue, e.data.length < 2 ^ 32

theorem serialize_of_serializable (c : Conn) (h : Serializable c) : ∃ b, serialize c = .blob b := by
  sorry

/-- restoring what was serialised reproduces counters, id, both queues (texts, order, sequence
    numbers); restored elements are pristine user elements -/
theorem restore_serialize (c : Conn) (h : Serializable c) (b : Bytes) (hb : serialize c = .blob b) :
    ∃ c', restore fresh b = (c', .rc 0) ∧
      c'.q.sentNr = c.q.sentNr ∧ c'.handledNr = c.handledNr ∧ c'.smId = c.smId ∧
      c'.q.queue.map (·.data) = c.q.queue.map (·.data) ∧
      (∀ e ∈ c'.q.queue, e.owner = .user ∧ e.written = 0 ∧ e.wip = false ∧ e.link = none) ∧
      c'.q.smQueue.map (fun e => (e.smH, e.data)) = c.q.smQueue.map (fun e => (e.smH, e.data)) ∧
      c'.hasSm = true ∧ c'.smSupport = true ∧ c'.q.smEnabled = true ∧ c'.canResume = true ∧
      c'.resume = true ∧ c'.q.connected = false := by
  sorry

/-- nothing but a serialised state is accepted: an accepted blob is exactly the serialisation of
    the state it produced (so truncated, extended or altered blobs are all refused) -/
theorem restore_strict (b : Bytes) (c' : Conn) (h : restore fresh b = (c', .rc 0)) :
    serialize c' = .blob b := by
  sorry

/-- restore never reads outside the buffer, whatever the bytes -/
theorem restore_safe (c : Conn) (b : Bytes) : (restore c b).2 ≠ .oob := by
  sorry

/-- a refused blob leaves a fresh connection exactly as it was -/
theorem reject_leaves_fresh (b : Bytes) (c' : Conn) (n : Int) (h : restore fresh b = (c', .rc n))
    (hn : n ≠ 0) : c' = fresh := by
  sorry

/-- on any connection object a refusal leaves no SM state and no half-built queue behind -/
theorem reject_clean (c : Conn) (b : Bytes) (c' : Conn) (n : Int) (h : restore c b = (c', .rc n))
    (hn : n ≠ 0) : c' = c ∨ (c'.hasSm = false ∧ c'.q.queue = [] ∧ c'.q.len = 0 ∧ c'.q.userLen = 0) := by
  sorry

/-- only offline, and only when no SM state is set -/
theorem offline_only (c : Conn) (b : Bytes) (h : c.q.connected = true ∨ c.hasSm = true) :
    restore c b = (c, .rc (-2)) := by
  sorry

/-- the restored queues satisfy the invariant of native queues, so every C06 theorem applies to a
    restored connection -/
theorem restored_inv (b : Bytes) (c' : Conn) (h : restore fresh b = (c', .rc 0)) :
    Lemmas.SendQueue.Inv c'.q := by
  sorry

end Strophe.Lemmas.SmBlob
