/-
Helper lemmas and the proofs behind Props/C16.lean.
-/
import Strophe.Model.SmBlob
import Strophe.Lemmas.SendQueue

namespace Strophe.Lemmas.SmBlob
open Strophe Strophe.SendQueue Strophe.SmBlob

/-- a state the serializer produces a blob for, with every length fitting its 32-bit field
    (the C code stores `(uint32_t)len`) -/
structure Serializable (c : Conn) : Prop where
  support : c.smSupport = true
  enabled : c.q.smEnabled = true
  canResume : c.canResume = true
  id : ∃ i, c.smId = some i ∧ (0 : UInt8) ∉ i ∧ i.length < 2 ^ 32
  qlen : c.q.queue.length < 2 ^ 32
  qdata : ∀ e ∈ c.q.queue, e.data.length < 2 ^ 32
  smlen : c.q.smQueue.length < 2 ^ 32
  smdata : ∀ e ∈ c.q.smQueue, e.data.length < 2 ^ 32

/-! ### bit level: a big-endian u32 splits into four bytes and back -/

theorem u32_join_split (v : UInt32) :
    ((v >>> 24).toUInt8.toUInt32 <<< 24) ||| ((v >>> 16).toUInt8.toUInt32 <<< 16) |||
      ((v >>> 8).toUInt8.toUInt32 <<< 8) ||| v.toUInt8.toUInt32 = v := by
  apply UInt32.eq_of_toBitVec_eq
  have h24 : UInt32.toBitVec 24 % 32 = 24#32 := by decide
  have h16 : UInt32.toBitVec 16 % 32 = 16#32 := by decide
  have h8 : UInt32.toBitVec 8 % 32 = 8#32 := by decide
  simp only [UInt32.toBitVec_or, UInt32.toBitVec_shiftLeft, UInt32.toBitVec_shiftRight,
    UInt8.toBitVec_toUInt32, UInt32.toBitVec_toUInt8, h24, h16, h8, BitVec.shiftLeft_eq',
    BitVec.ushiftRight_eq', BitVec.toNat_ofNat]
  apply BitVec.eq_of_getLsbD_eq
  intro i hi
  simp only [BitVec.getLsbD_or, BitVec.getLsbD_shiftLeft, BitVec.getLsbD_setWidth,
    BitVec.getLsbD_ushiftRight]
  have : i = 0 ∨ i = 1 ∨ i = 2 ∨ i = 3 ∨ i = 4 ∨ i = 5 ∨ i = 6 ∨ i = 7 ∨ i = 8 ∨ i = 9 ∨ i = 10 ∨
      i = 11 ∨ i = 12 ∨ i = 13 ∨ i = 14 ∨ i = 15 ∨ i = 16 ∨ i = 17 ∨ i = 18 ∨ i = 19 ∨ i = 20 ∨
      i = 21 ∨ i = 22 ∨ i = 23 ∨ i = 24 ∨ i = 25 ∨ i = 26 ∨ i = 27 ∨ i = 28 ∨ i = 29 ∨ i = 30 ∨
      i = 31 := by omega
  rcases this with h|h|h|h|h|h|h|h|h|h|h|h|h|h|h|h|h|h|h|h|h|h|h|h|h|h|h|h|h|h|h|h <;> subst h <;> simp

theorem u32_split_join (b0 b1 b2 b3 : UInt8) (v : UInt32)
    (h : v = (b0.toUInt32 <<< 24) ||| (b1.toUInt32 <<< 16) ||| (b2.toUInt32 <<< 8) ||| b3.toUInt32) :
    (v >>> 24).toUInt8 = b0 ∧ (v >>> 16).toUInt8 = b1 ∧ (v >>> 8).toUInt8 = b2 ∧ v.toUInt8 = b3 := by
  subst h
  have h24 : UInt32.toBitVec 24 % 32 = 24#32 := by decide
  have h16 : UInt32.toBitVec 16 % 32 = 16#32 := by decide
  have h8 : UInt32.toBitVec 8 % 32 = 8#32 := by decide
  refine ⟨?_, ?_, ?_, ?_⟩ <;> apply UInt8.eq_of_toBitVec_eq <;>
  simp only [UInt32.toBitVec_or, UInt32.toBitVec_shiftLeft, UInt32.toBitVec_shiftRight,
    UInt8.toBitVec_toUInt32, UInt32.toBitVec_toUInt8, h24, h16, h8, BitVec.shiftLeft_eq',
    BitVec.ushiftRight_eq', BitVec.toNat_ofNat] <;>
  apply BitVec.eq_of_getLsbD_eq <;> intro i hi <;>
  simp only [BitVec.getLsbD_or, BitVec.getLsbD_shiftLeft, BitVec.getLsbD_setWidth,
    BitVec.getLsbD_ushiftRight] <;>
  (have : i = 0 ∨ i = 1 ∨ i = 2 ∨ i = 3 ∨ i = 4 ∨ i = 5 ∨ i = 6 ∨ i = 7 := by omega) <;>
  rcases this with h|h|h|h|h|h|h|h <;> subst h <;> simp
/-! ### `Except` plumbing and "these bytes sit at this offset" -/

theorem bind_ok {ε α β} (x : Except ε α) (f : α → Except ε β) (r : β) :
    (x >>= f) = .ok r ↔ ∃ a, x = .ok a ∧ f a = .ok r := by
  cases x <;> simp [bind, Except.bind]

/-- `enc` occurs in `b` starting at offset `pos` -/
def At (b : Bytes) (pos : Nat) (enc : Bytes) : Prop := enc <+: b.drop pos

theorem at_nil (b : Bytes) (pos : Nat) : At b pos [] := List.nil_prefix

theorem at_cons (b : Bytes) (pos : Nat) (x : UInt8) (e : Bytes) :
    At b pos (x :: e) ↔ b[pos]? = some x ∧ At b (pos + 1) e := by
  unfold At
  rw [List.drop_eq_getElem?_toList_append]
  cases h : b[pos]? with
  | none =>
    have : b.length ≤ pos := by simpa using h
    simp [List.drop_eq_nil_of_le (show b.length ≤ pos + 1 by omega)]
  | some y => simp [List.cons_prefix_cons, eq_comm]

theorem at_append (b : Bytes) (pos : Nat) (e1 e2 : Bytes) :
    At b pos (e1 ++ e2) ↔ At b pos e1 ∧ At b (pos + e1.length) e2 := by
  induction e1 generalizing pos with
  | nil => simp [at_nil]
  | cons x e ih => 
    simp only [List.cons_append, at_cons, ih, List.length_cons, and_assoc]
    rw [show pos + 1 + e.length = pos + (e.length + 1) by omega]

theorem at_cast {b : Bytes} {p q : Nat} {e : Bytes} (h : At b p e) (hpq : p = q) : At b q e := hpq ▸ h

theorem at_len (b : Bytes) (pos : Nat) (e : Bytes) (h : At b pos e) (hne : e ≠ []) :
    pos + e.length ≤ b.length := by
  obtain ⟨t, ht⟩ := h
  have := congrArg List.length ht
  simp at this
  have : e.length > 0 := List.length_pos_iff.2 hne
  omega

theorem at_all (b : Bytes) (pos : Nat) (e : Bytes) (h : At b pos e) (hl : pos + e.length = b.length) :
    b.drop pos = e := by
  obtain ⟨t, ht⟩ := h
  have := congrArg List.length ht
  simp at this
  have : t = [] := List.length_eq_zero_iff.1 (by omega)
  simp [← ht, this]

/-! ### each loader succeeds exactly on the encoding of its result -/

theorem rd_ok (b : Bytes) (i : Nat) (x : UInt8) : rd b i = .ok x ↔ b[i]? = some x := by
  unfold rd; cases b[i]? <;> simp

theorem rd_of_lt (b : Bytes) (i : Nat) (h : i < b.length) : rd b i = .ok b[i] := by
  simp [rd, List.getElem?_eq_getElem h]

theorem loadU32_ok (b : Bytes) (pos : Nat) (tag : UInt8) (v : UInt32) (p' : Nat) :
    loadU32 b pos tag = .ok (v, p') ↔ p' = pos + 5 ∧ At b pos (storeU32 tag v) := by
  simp only [storeU32, u32be, at_cons, at_nil, and_true]
  unfold loadU32
  by_cases h0 : pos ≥ b.length
  · simp [h0, throw, throwThe, MonadExceptOf.throw, bind, Except.bind]
  · have h0' : pos < b.length := by omega
    simp only [h0, rd_of_lt b pos h0', List.getElem?_eq_getElem h0']
    by_cases ht : b[pos] = tag
    · by_cases h5 : pos + 1 + 4 > b.length
      · simp [ht, h5, throw, throwThe, MonadExceptOf.throw, bind, Except.bind]
        intro _ _ _ _ h
        have := (List.getElem?_eq_some_iff.1 h).1
        omega
      · rw [rd_of_lt b (pos + 1) (by omega), rd_of_lt b (pos + 2) (by omega),
          rd_of_lt b (pos + 3) (by omega), rd_of_lt b (pos + 4) (by omega)]
        simp only [ht, h5, bind, Except.bind, pure, Except.pure, if_false, ne_eq, not_true]
        rw [List.getElem?_eq_getElem (show pos + 1 < b.length by omega),
          List.getElem?_eq_getElem (show pos + 1 + 1 < b.length by omega),
          List.getElem?_eq_getElem (show pos + 1 + 1 + 1 < b.length by omega),
          List.getElem?_eq_getElem (show pos + 1 + 1 + 1 + 1 < b.length by omega)]
        simp only [Except.ok.injEq, Prod.mk.injEq, Option.some.injEq]
        constructor
        · rintro ⟨h, rfl⟩
          have := u32_split_join _ _ _ _ _ h.symm
          simp [this]
        · rintro ⟨rfl, h1, h2, h3, h4⟩
          simp only [h2, h3, h4, and_true]
          exact u32_join_split v
    · simp [ht, throw, throwThe, MonadExceptOf.throw, bind, Except.bind]

theorem rdMany_ok (b : Bytes) (p n : Nat) (s : Bytes) :
    rdMany b p n = .ok s ↔ s.length = n ∧ At b p s := by
  induction n generalizing p s with
  | zero =>
    simp only [rdMany, pure, Except.pure, Except.ok.injEq]
    constructor
    · rintro rfl; exact ⟨rfl, at_nil _ _⟩
    · rintro ⟨h, -⟩; exact (List.length_eq_zero_iff.1 h).symm
  | succ n ih =>
    simp only [rdMany, bind_ok, rd_ok, ih, pure, Except.pure, Except.ok.injEq]
    constructor
    · rintro ⟨x, hx, r, ⟨hl, hr⟩, rfl⟩
      exact ⟨by simp [hl], (at_cons _ _ _ _).2 ⟨hx, hr⟩⟩
    · rintro ⟨hl, ha⟩
      cases s with
      | nil => simp at hl
      | cons x r =>
        rw [at_cons] at ha
        exact ⟨x, ha.1, r, ⟨by simpa using hl, ha.2⟩, rfl⟩

theorem storeU32_length (t : UInt8) (v : UInt32) : (storeU32 t v).length = 5 := rfl

theorem toNat_ofNat_lt (n : Nat) (h : n < 2 ^ 32) : (UInt32.ofNat n).toNat = n := by
  simp [UInt32.toNat_ofNat']; omega

theorem loadString_ok (b : Bytes) (pos : Nat) (s : Bytes) (p' : Nat) :
    loadString b pos = .ok (s, p') ↔
      p' = pos + 5 + s.length ∧ s.length < 2 ^ 32 ∧ At b pos (storeString s) := by
  unfold loadString storeString
  simp only [bind_ok, Prod.exists, loadU32_ok, at_append, storeU32_length]
  constructor
  · rintro ⟨l, p, ⟨rfl, hu⟩, h⟩
    by_cases hc : pos + 5 + l.toNat > b.length
    · simp [hc, throw, throwThe, MonadExceptOf.throw, bind, Except.bind] at h
    · simp only [hc, if_false, pure, Except.pure, bind_ok, rdMany_ok] at h
      obtain ⟨s', ⟨hl, hs⟩, h⟩ := h
      simp only [Except.ok.injEq, Prod.mk.injEq] at h
      obtain ⟨rfl, rfl⟩ := h
      have : l.toNat < 2 ^ 32 := l.toNat_lt
      refine ⟨by omega, by omega, ?_, hs⟩
      rw [hl]; simpa using hu
  · rintro ⟨rfl, hl, hu, hs⟩
    refine ⟨UInt32.ofNat s.length, pos + 5, ⟨rfl, hu⟩, ?_⟩
    rw [toNat_ofNat_lt _ hl]
    have hlen : pos + 5 + s.length ≤ b.length := by
      have := at_len b pos (storeU32 0x7a (UInt32.ofNat s.length) ++ s)
        ((at_append _ _ _ _).2 ⟨hu, hs⟩) (by simp [storeU32])
      simpa [storeU32_length, Nat.add_assoc] using this
    have hc : ¬ (pos + 5 + s.length > b.length) := by omega
    simp only [hc, if_false, pure, Except.pure, bind_ok]
    exact ⟨s, (rdMany_ok _ _ _ _).2 ⟨rfl, hs⟩, rfl⟩

def encSend (l : List Bytes) : Bytes := (l.map storeString).flatten
def encSm (l : List (UInt32 × Bytes)) : Bytes :=
  (l.map fun x => storeU32 0x1a x.1 ++ storeString x.2).flatten

theorem storeString_length (s : Bytes) : (storeString s).length = 5 + s.length := by
  simp [storeString, storeU32_length]

theorem encSend_cons (s : Bytes) (r : List Bytes) : encSend (s :: r) = storeString s ++ encSend r := rfl
theorem encSm_cons (x : UInt32 × Bytes) (r : List (UInt32 × Bytes)) :
    encSm (x :: r) = storeU32 0x1a x.1 ++ storeString x.2 ++ encSm r := rfl

theorem loadSendQueue_ok (b : Bytes) (n pos : Nat) (l : List Bytes) (p' : Nat) :
    loadSendQueue b n pos = .ok (l, p') ↔
      l.length = n ∧ (∀ s ∈ l, s.length < 2 ^ 32) ∧ p' = pos + (encSend l).length ∧
        At b pos (encSend l) := by
  induction n generalizing pos l p' with
  | zero =>
    simp only [loadSendQueue, pure, Except.pure, Except.ok.injEq, Prod.mk.injEq]
    constructor
    · rintro ⟨rfl, rfl⟩; simp [encSend, at_nil]
    · rintro ⟨h, -, rfl, -⟩
      obtain rfl := List.length_eq_zero_iff.1 h
      simp [encSend]
  | succ n ih =>
    simp only [loadSendQueue, bind_ok, Prod.exists, loadString_ok, ih, pure, Except.pure,
      Except.ok.injEq, Prod.mk.injEq]
    constructor
    · rintro ⟨s, p, ⟨rfl, hs, has⟩, r, p'', ⟨hl, hall, rfl, har⟩, rfl, rfl⟩
      refine ⟨by simp [hl], ?_, ?_, ?_⟩
      · intro x hx
        rcases List.mem_cons.1 hx with rfl | hx
        · exact hs
        · exact hall x hx
      · simp [encSend_cons, storeString_length]; omega
      · rw [encSend_cons, at_append, storeString_length]
        exact ⟨has, by rwa [← Nat.add_assoc]⟩
    · rintro ⟨hl, hall, rfl, ha⟩
      cases l with
      | nil => simp at hl
      | cons s r =>
        rw [encSend_cons, at_append, storeString_length, ← Nat.add_assoc] at ha
        refine ⟨s, _, ⟨rfl, hall s (by simp), ha.1⟩, r, _,
          ⟨by simpa using hl, fun x hx => hall x (by simp [hx]), rfl, ha.2⟩, rfl, ?_⟩
        simp [encSend_cons, storeString_length]; omega

theorem loadSmQueue_ok (b : Bytes) (n pos : Nat) (l : List (UInt32 × Bytes)) (p' : Nat) :
    loadSmQueue b n pos = .ok (l, p') ↔
      l.length = n ∧ (∀ x ∈ l, x.2.length < 2 ^ 32) ∧ p' = pos + (encSm l).length ∧
        At b pos (encSm l) := by
  induction n generalizing pos l p' with
  | zero =>
    simp only [loadSmQueue, pure, Except.pure, Except.ok.injEq, Prod.mk.injEq]
    constructor
    · rintro ⟨rfl, rfl⟩; simp [encSm, at_nil]
    · rintro ⟨h, -, rfl, -⟩
      obtain rfl := List.length_eq_zero_iff.1 h
      simp [encSm]
  | succ n ih =>
    simp only [loadSmQueue, bind_ok, Prod.exists, loadString_ok, loadU32_ok, ih, pure, Except.pure,
      Except.ok.injEq, Prod.mk.injEq]
    constructor
    · rintro ⟨h, p0, ⟨rfl, hah⟩, s, p, ⟨rfl, hs, has⟩, r, p'', ⟨hl, hall, rfl, har⟩, rfl, rfl⟩
      refine ⟨by simp [hl], ?_, ?_, ?_⟩
      · intro x hx
        rcases List.mem_cons.1 hx with rfl | hx
        · exact hs
        · exact hall x hx
      · simp [encSm_cons, storeString_length, storeU32_length]; omega
      · rw [encSm_cons, at_append, at_append]
        simp only [List.length_append, storeString_length, storeU32_length]
        exact ⟨⟨hah, has⟩, by rwa [← Nat.add_assoc, ← Nat.add_assoc]⟩
    · rintro ⟨hl, hall, rfl, ha⟩
      cases l with
      | nil => simp at hl
      | cons x r =>
        obtain ⟨h, s⟩ := x
        rw [encSm_cons, at_append, at_append] at ha
        simp only [List.length_append, storeString_length, storeU32_length, ← Nat.add_assoc] at ha
        refine ⟨h, _, ⟨rfl, ha.1.1⟩, s, _, ⟨rfl, hall (h, s) (by simp), ha.1.2⟩, r, _,
          ⟨by simpa using hl, fun x hx => hall x (by simp [hx]), rfl, ha.2⟩, rfl, ?_⟩
        simp [encSm_cons, storeString_length, storeU32_length]; omega

/-- the bytes `serialize` writes after the version prefix -/
def body (p : Parsed) : Bytes :=
  storeU32 0x1a p.sentNr ++ (storeU32 0x1a p.handledNr ++ (storeString p.id ++
  (storeU32 0x9a (UInt32.ofNat p.sendq.length) ++ (encSend p.sendq ++
  (storeU32 0xba (UInt32.ofNat p.smq.length) ++ encSm p.smq)))))

/-- every length fits its 32-bit field and the id is a C string -/
structure Fits (p : Parsed) : Prop where
  id : p.id.length < 2 ^ 32
  idz : (0 : UInt8) ∉ p.id
  qlen : p.sendq.length < 2 ^ 32
  qdata : ∀ s ∈ p.sendq, s.length < 2 ^ 32
  smlen : p.smq.length < 2 ^ 32
  smdata : ∀ x ∈ p.smq, x.2.length < 2 ^ 32

theorem parseBody_ok (b : Bytes) (p : Parsed) :
    parseBody b = .ok p ↔ Fits p ∧ At b 5 (body p) ∧ 5 + (body p).length = b.length := by
  unfold parseBody body
  simp only [bind_ok, Prod.exists, loadU32_ok, loadString_ok, at_append, storeU32_length,
    storeString_length]
  constructor
  · rintro ⟨sent, p1, ⟨rfl, h1⟩, handled, p2, ⟨rfl, h2⟩, id, p3, ⟨rfl, hid, h3⟩, h⟩
    by_cases hz : id.contains 0
    · rw [if_pos hz] at h
      simp [throw, throwThe, MonadExceptOf.throw, bind, Except.bind] at h
    · rw [if_neg hz] at h
      simp only [bind_ok, Prod.exists, loadU32_ok, loadSendQueue_ok, loadSmQueue_ok,
        pure, Except.pure] at h
      obtain ⟨n, p4, ⟨rfl, h4⟩, sq, p5, ⟨hn, hsq, rfl, h5⟩, m, p6, ⟨rfl, h6⟩, smq, p7,
        ⟨hm, hsmq, rfl, h7⟩, h⟩ := h
      by_cases hfin : 5 + 5 + 5 + 5 + id.length + 5 + (encSend sq).length + 5 + (encSm smq).length
          ≠ b.length
      · rw [if_pos hfin] at h
        simp [throw, throwThe, MonadExceptOf.throw, bind, Except.bind] at h
      · rw [if_neg hfin] at h
        simp only [Except.ok.injEq] at h
        subst h
        have hn' : UInt32.ofNat sq.length = n := by rw [hn]; simp
        have hm' : UInt32.ofNat smq.length = m := by rw [hm]; simp
        have := n.toNat_lt
        have := m.toNat_lt
        simp only [hn', hm']
        refine ⟨⟨hid, by simpa using hz, by show sq.length < _; omega, hsq,
            by show smq.length < _; omega, hsmq⟩,
          ⟨h1, h2, h3, at_cast h4 (by omega), at_cast h5 (by omega),
           at_cast h6 (by omega), at_cast h7 (by omega)⟩, ?_⟩
        simp only [List.length_append, storeU32_length, storeString_length]
        omega
  · rintro ⟨⟨hid, hz, hql, hqd, hsl, hsd⟩, ⟨h1, h2, h3, h4, h5, h6, h7⟩, hlen⟩
    refine ⟨_, _, ⟨rfl, h1⟩, _, _, ⟨rfl, h2⟩, _, _, ⟨rfl, hid, h3⟩, ?_⟩
    rw [if_neg (by simpa using hz)]
    simp only [bind_ok, Prod.exists, loadU32_ok, loadSendQueue_ok, loadSmQueue_ok,
      pure, Except.pure]
    refine ⟨_, _, ⟨rfl, at_cast h4 (by omega)⟩, _, _,
      ⟨(toNat_ofNat_lt _ hql).symm, hqd, rfl, at_cast h5 (by omega)⟩, _, _,
      ⟨rfl, at_cast h6 (by omega)⟩, _, _,
      ⟨(toNat_ofNat_lt _ hsl).symm, hsd, rfl, at_cast h7 (by omega)⟩, ?_⟩
    simp only [List.length_append, storeU32_length, storeString_length] at hlen
    rw [if_neg (by omega)]

/-! ### no read outside the buffer -/

theorem bind_err {ε α β} (x : Except ε α) (f : α → Except ε β) (e : ε) :
    (x >>= f) = .error e ↔ x = .error e ∨ ∃ a, x = .ok a ∧ f a = .error e := by
  cases x <;> simp [bind, Except.bind]

theorem loadU32_safe (b : Bytes) (pos : Nat) (tag : UInt8) : loadU32 b pos tag ≠ .error .oob := by
  unfold loadU32
  by_cases h0 : pos ≥ b.length
  · simp [h0, throw, throwThe, MonadExceptOf.throw, bind, Except.bind]
  · have h0' : pos < b.length := by omega
    simp only [h0, rd_of_lt b pos h0']
    by_cases ht : b[pos] = tag
    · by_cases h5 : pos + 1 + 4 > b.length
      · simp [ht, h5, throw, throwThe, MonadExceptOf.throw, bind, Except.bind]
      · rw [rd_of_lt b (pos + 1) (by omega), rd_of_lt b (pos + 2) (by omega),
          rd_of_lt b (pos + 3) (by omega), rd_of_lt b (pos + 4) (by omega)]
        simp [ht, h5, bind, Except.bind, pure, Except.pure]
    · simp [ht, throw, throwThe, MonadExceptOf.throw, bind, Except.bind]

theorem rdMany_safe (b : Bytes) (p n : Nat) (h : p + n ≤ b.length) : rdMany b p n ≠ .error .oob := by
  induction n generalizing p with
  | zero => simp [rdMany, pure, Except.pure]
  | succ n ih =>
    simp only [rdMany, rd_of_lt b p (by omega), ne_eq, bind_err, pure, Except.pure]
    have := ih (p + 1) (by omega)
    simp [this]

theorem loadString_safe (b : Bytes) (pos : Nat) : loadString b pos ≠ .error .oob := by
  unfold loadString
  simp only [ne_eq, bind_err, loadU32_safe, false_or, Prod.exists]
  rintro ⟨l, p, -, h⟩
  by_cases hc : p + l.toNat > b.length
  · simp [hc, throw, throwThe, MonadExceptOf.throw, bind, Except.bind] at h
  · simp only [hc, if_false, pure, Except.pure, bind_err, rdMany_safe b p l.toNat (by omega)] at h
    simp at h

theorem loadSendQueue_safe (b : Bytes) (n pos : Nat) : loadSendQueue b n pos ≠ .error .oob := by
  induction n generalizing pos with
  | zero => simp [loadSendQueue, pure, Except.pure]
  | succ n ih => simp [loadSendQueue, bind_err, loadString_safe, ih, pure, Except.pure]

theorem loadSmQueue_safe (b : Bytes) (n pos : Nat) : loadSmQueue b n pos ≠ .error .oob := by
  induction n generalizing pos with
  | zero => simp [loadSmQueue, pure, Except.pure]
  | succ n ih => simp [loadSmQueue, bind_err, loadString_safe, loadU32_safe, ih, pure, Except.pure]

theorem parseBody_safe (b : Bytes) : parseBody b ≠ .error .oob := by
  unfold parseBody
  simp only [ne_eq, bind_err, loadU32_safe, loadString_safe, false_or, Prod.exists, not_exists, not_and]
  intro sent p1 _ handled p2 _ id p3 _
  by_cases hz : id.contains 0
  · rw [if_pos hz]; simp [throw, throwThe, MonadExceptOf.throw, bind, Except.bind]
  · rw [if_neg hz]
    simp only [bind_err, loadU32_safe, loadSendQueue_safe, loadSmQueue_safe, false_or, Prod.exists,
      not_exists, not_and, pure, Except.pure]
    intro n p4 _ sq p5 _ m p6 _ smq p7 _ h
    split at h <;> simp [throw, throwThe, MonadExceptOf.throw, bind, Except.bind] at h

/-- restore never reads outside the buffer, whatever the bytes -/
theorem restore_safe (c : Conn) (b : Bytes) : (restore c b).2 ≠ .oob := by
  unfold restore
  split; · simp
  split; · simp
  split; · simp
  split; · simp
  cases h : parseBody b with
  | ok p => simp
  | error e =>
    cases e with
    | oob => exact absurd h (parseBody_safe b)
    | invalid => simp

/-- only offline, and only when no SM state is set -/
theorem offline_only (c : Conn) (b : Bytes) (h : c.q.connected = true ∨ c.hasSm = true) :
    restore c b = (c, .rc (-2)) := by
  unfold restore
  rcases h with h | h
  · simp [h]
  · by_cases hc : c.q.connected = true <;> simp [hc, h]

/-- on any connection object a refusal leaves no SM state and no half-built queue behind -/
theorem reject_clean (c : Conn) (b : Bytes) (c' : Conn) (n : Int) (h : restore c b = (c', .rc n))
    (hn : n ≠ 0) : c' = c ∨ (c'.hasSm = false ∧ c'.q.queue = [] ∧ c'.q.len = 0 ∧ c'.q.userLen = 0) := by
  unfold restore at h
  split at h; · simp only [Prod.mk.injEq] at h; exact .inl h.1.symm
  split at h; · simp only [Prod.mk.injEq] at h; exact .inl h.1.symm
  split at h; · simp only [Prod.mk.injEq] at h; exact .inl h.1.symm
  split at h; · simp only [Prod.mk.injEq] at h; exact .inl h.1.symm
  split at h
  · simp only [Prod.mk.injEq, RestoreOut.rc.injEq] at h
    exact absurd h.2.symm hn
  · simp only [Prod.mk.injEq] at h
    right; rw [← h.1]; simp

/-- a refused blob leaves a fresh connection exactly as it was -/
theorem reject_leaves_fresh (b : Bytes) (c' : Conn) (n : Int) (h : restore fresh b = (c', .rc n))
    (hn : n ≠ 0) : c' = fresh := by
  unfold restore at h
  split at h; · simp only [Prod.mk.injEq] at h; exact h.1.symm
  split at h; · simp only [Prod.mk.injEq] at h; exact h.1.symm
  split at h; · simp only [Prod.mk.injEq] at h; exact h.1.symm
  split at h; · simp only [Prod.mk.injEq] at h; exact h.1.symm
  split at h
  · simp only [Prod.mk.injEq, RestoreOut.rc.injEq] at h
    exact absurd h.2.symm hn
  · -- err_reload on a fresh object clears what was already clear
    simp only [Prod.mk.injEq] at h
    rw [← h.1]; rfl

/-! ### the shape of an accepted restore -/

/-- what `restore fresh` builds from a parsed blob -/
def restoredConn (p : Parsed) : Conn :=
  { q := { fresh.q with queue := mkElems 0 p.sendq, len := p.sendq.length, userLen := p.sendq.length,
                        smEnabled := true, rSent := false, sentNr := p.sentNr,
                        smQueue := mkSmElems (0 + p.sendq.length) p.smq,
                        nextUid := 0 + p.sendq.length + p.smq.length },
    hasSm := true, smSupport := true, canResume := true, resume := true,
    handledNr := p.handledNr, smId := some p.id }

theorem restore_fresh_ok (b : Bytes) (c' : Conn) (h : restore fresh b = (c', .rc 0)) :
    ∃ p, b.take 5 = version ∧ parseBody b = .ok p ∧ c' = restoredConn p := by
  unfold restore at h
  split at h; · simp at h
  split at h; · simp at h
  split at h; · simp at h
  split at h; · simp at h
  rename_i hv
  split at h
  · rename_i p hp
    simp only [Prod.mk.injEq, and_true] at h
    exact ⟨p, by simpa using hv, hp, h.symm⟩
  · rename_i e he
    cases e <;> simp at h

theorem restore_fresh_of (b : Bytes) (p : Parsed) (hl : 30 ≤ b.length) (hv : b.take 5 = version)
    (hp : parseBody b = .ok p) : restore fresh b = (restoredConn p, .rc 0) := by
  unfold restore
  rw [if_neg (by simp [fresh]), if_neg (by simp [fresh]), if_neg (by omega), if_neg (by simp [hv])]
  simp only [hp]
  rfl

theorem mkElems_data (s : Nat) (l : List Bytes) : (mkElems s l).map (·.data) = l := by
  unfold mkElems
  rw [List.map_map]
  exact List.zipIdx_map_fst 0 l

theorem mkSmElems_data (s : Nat) (l : List (UInt32 × Bytes)) :
    (mkSmElems s l).map (fun e => (e.smH, e.data)) = l := by
  unfold mkSmElems
  rw [List.map_map]
  exact List.zipIdx_map_fst 0 l

theorem serialize_restoredConn (p : Parsed) : serialize (restoredConn p) = .blob (version ++ body p) := by
  have h1 : ((mkElems 0 p.sendq).map fun e => storeString e.data).flatten = encSend p.sendq := by
    have := congrArg (List.map storeString) (mkElems_data 0 p.sendq)
    rw [List.map_map] at this
    unfold encSend; rw [← this]; rfl
  have h2 : ((mkSmElems (0 + p.sendq.length) p.smq).map fun e =>
      storeU32 0x1a e.smH ++ storeString e.data).flatten = encSm p.smq := by
    have := congrArg (List.map fun x : UInt32 × Bytes => storeU32 0x1a x.1 ++ storeString x.2)
      (mkSmElems_data (0 + p.sendq.length) p.smq)
    rw [List.map_map] at this
    unfold encSm; rw [← this]; rfl
  have h3 : (mkElems 0 p.sendq).length = p.sendq.length := by simp [mkElems]
  have h4 : (mkSmElems (0 + p.sendq.length) p.smq).length = p.smq.length := by simp [mkSmElems]
  simp only [serialize, restoredConn, body, h1, h2, h3, h4, List.append_assoc]
  rfl

/-- nothing but a serialised state is accepted: an accepted blob is exactly the serialisation of
    the state it produced (so truncated, extended or altered blobs are all refused) -/
theorem restore_strict (b : Bytes) (c' : Conn) (h : restore fresh b = (c', .rc 0)) :
    serialize c' = .blob b := by
  obtain ⟨p, hv, hp, rfl⟩ := restore_fresh_ok b c' h
  rw [serialize_restoredConn]
  obtain ⟨-, ha, hl⟩ := (parseBody_ok b p).1 hp
  rw [← at_all b 5 (body p) ha hl, ← hv, List.take_append_drop]

/-- `Serializable` is satisfiable by a state with non-empty queues -/
example : Serializable
    { q := { smEnabled := true, sentNr := 5, queue := [{ uid := 0, data := [97, 98], owner := .user }],
             len := 1, userLen := 1, nextUid := 2,
             smQueue := [{ uid := 1, data := [99], owner := .user, smH := 4 }] },
      smSupport := true, canResume := true, handledNr := 7, smId := some [105, 100] } := by
  constructor <;> simp

theorem serialize_eq (c : Conn) (h : Serializable c) (i : Bytes) (hi : c.smId = some i) :
    serialize c = .blob (version ++ body ⟨c.q.sentNr, c.handledNr, i, c.q.queue.map (·.data),
      c.q.smQueue.map (fun e => (e.smH, e.data))⟩) := by
  simp only [serialize, h.support, h.enabled, h.canResume, hi, body, encSend, encSm, List.map_map,
    List.length_map, List.append_assoc]
  rfl

theorem serialize_of_serializable (c : Conn) (h : Serializable c) : ∃ b, serialize c = .blob b := by
  obtain ⟨i, hi, -⟩ := h.id
  exact ⟨_, serialize_eq c h i hi⟩

theorem mkElems_pristine (s : Nat) (l : List Bytes) :
    ∀ e ∈ mkElems s l, e.owner = .user ∧ e.written = 0 ∧ e.wip = false ∧ e.link = none := by
  intro e he
  simp only [mkElems, List.mem_map] at he
  obtain ⟨x, -, rfl⟩ := he
  exact ⟨rfl, rfl, rfl, rfl⟩

/-- restoring what was serialised reproduces counters, id, both queues (texts, order, sequence
    numbers); restored elements are pristine user elements -/
theorem restore_serialize (c : Conn) (h : Serializable c) (b : Bytes) (hb : serialize c = .blob b) :
    ∃ c', restore fresh b = (c', .rc 0) ∧
      c'.q.sentNr = c.q.sentNr ∧ c'.handledNr = c.handledNr ∧ c'.smId = c.smId ∧
      c'.q.queue.map (·.data) = c.q.queue.map (·.data) ∧
      (∀ e ∈ c'.q.queue, e.owner = .user ∧ e.written = 0 ∧ e.wip = false ∧ e.link = none) ∧
      c'.q.smQueue.map (fun e => (e.smH, e.data)) = c.q.smQueue.map (fun e => (e.smH, e.data)) ∧
      c'.hasSm = true ∧ c'.smSupport = true ∧ c'.q.smEnabled = true ∧ c'.canResume = true ∧
      c'.resume = true ∧ c'.q.connected = false := by
  obtain ⟨i, hi, hz, hil⟩ := h.id
  rw [serialize_eq c h i hi] at hb
  simp only [SerOut.blob.injEq] at hb
  generalize hp : (⟨c.q.sentNr, c.handledNr, i, c.q.queue.map (·.data),
      c.q.smQueue.map (fun e => (e.smH, e.data))⟩ : Parsed) = p at hb
  have hfit : Fits p := by
    subst hp
    refine ⟨hil, hz, by simpa using h.qlen, ?_, by simpa using h.smlen, ?_⟩
    · intro s hs
      simp only [List.mem_map] at hs
      obtain ⟨e, he, rfl⟩ := hs
      exact h.qdata e he
    · intro x hx
      simp only [List.mem_map] at hx
      obtain ⟨e, he, rfl⟩ := hx
      exact h.smdata e he
  have hdrop : b.drop 5 = body p := by rw [← hb]; rfl
  have hlen : 5 + (body p).length = b.length := by rw [← hb]; simp [version]; omega
  have hparse : parseBody b = .ok p :=
    (parseBody_ok b p).2 ⟨hfit, by unfold At; rw [hdrop]; exact List.prefix_refl _, hlen⟩
  have h30 : 30 ≤ b.length := by
    rw [← hlen]
    simp only [body, List.length_append, storeU32_length, storeString_length]
    omega
  refine ⟨restoredConn p, restore_fresh_of b p h30 (by rw [← hb]; rfl) hparse, ?_⟩
  subst hp
  refine ⟨rfl, rfl, hi.symm, mkElems_data _ _, mkElems_pristine _ _, mkSmElems_data _ _,
    rfl, rfl, rfl, rfl, rfl, rfl⟩

theorem mkElems_uids (l : List Bytes) : (mkElems 0 l).map (·.uid) = List.range' 0 l.length := by
  unfold mkElems
  rw [List.map_map]
  have : ((fun e : Elem => e.uid) ∘ fun x : Bytes × Nat =>
      ({ uid := 0 + x.2, data := x.1, owner := .user } : Elem)) = Prod.snd := by
    funext x; simp
  rw [this]
  exact List.zipIdx_map_snd 0 l

/-- the restored queues satisfy the invariant of native queues, so every C06 theorem applies to a
    restored connection -/
theorem restored_inv (b : Bytes) (c' : Conn) (h : restore fresh b = (c', .rc 0)) :
    Lemmas.SendQueue.Inv c'.q := by
  obtain ⟨p, -, -, rfl⟩ := restore_fresh_ok b c' h
  have hq : (restoredConn p).q.queue = mkElems 0 p.sendq := rfl
  have hpr := mkElems_pristine 0 p.sendq
  have hlen : (mkElems 0 p.sendq).length = p.sendq.length := by simp [mkElems]
  constructor
  · show ((p.sendq.length : Nat) : Int) = ((mkElems 0 p.sendq).length : Nat)
    rw [hlen]
  · show ((p.sendq.length : Nat) : Int) = (Lemmas.SendQueue.userCount (mkElems 0 p.sendq) : Nat)
    unfold Lemmas.SendQueue.userCount
    rw [List.filter_eq_self.2 (fun e he => by simp [(hpr e he).1]), hlen]
  · intro e he; rw [hq] at he; rw [(hpr e he).2.1]; exact Nat.zero_le _
  · intro e he; rw [hq] at he
    have := hpr e (List.mem_of_mem_tail he)
    exact ⟨this.2.1, this.2.2.1⟩
  · intro e he; rw [hq] at he
    have hm : e.uid ∈ (mkElems 0 p.sendq).map (·.uid) := List.mem_map.2 ⟨e, he, rfl⟩
    rw [mkElems_uids, List.mem_range'_1] at hm
    show e.uid < 0 + p.sendq.length + p.smq.length
    omega
  · rw [hq, mkElems_uids]; exact List.nodup_range'
  · intro i e hi u hu
    rw [hq] at hi
    have := (hpr e (List.mem_of_getElem? hi)).2.2.2
    rw [this] at hu; cases hu
  · intro e he u hu; rw [hq] at he; rw [(hpr e he).2.2.2] at hu; cases hu
  · intro e he u hu; rw [hq] at he; rw [(hpr e he).2.2.2] at hu; cases hu
  · intro e he _; rw [hq] at he; exact (hpr e he).2.1


/-- the blob determines everything it is meant to carry: two resumable states with the same blob
    agree on counters, session id, unsent texts and unacknowledged (number, text) pairs -/
theorem serialize_injective (c₁ c₂ : Conn) (h₁ : Serializable c₁) (h₂ : Serializable c₂) (b : Bytes)
    (hb₁ : serialize c₁ = .blob b) (hb₂ : serialize c₂ = .blob b) :
    c₁.q.sentNr = c₂.q.sentNr ∧ c₁.handledNr = c₂.handledNr ∧ c₁.smId = c₂.smId ∧
    c₁.q.queue.map (·.data) = c₂.q.queue.map (·.data) ∧
    c₁.q.smQueue.map (fun e => (e.smH, e.data)) = c₂.q.smQueue.map (fun e => (e.smH, e.data)) := by
  obtain ⟨a, ha, a1, a2, a3, a4, -, a5, -⟩ := restore_serialize c₁ h₁ b hb₁
  obtain ⟨d, hd, d1, d2, d3, d4, -, d5, -⟩ := restore_serialize c₂ h₂ b hb₂
  have : a = d := by rw [ha] at hd; exact (Prod.mk.inj hd).1
  subst this
  exact ⟨a1.symm.trans d1, a2.symm.trans d2, a3.symm.trans d3, a4.symm.trans d4, a5.symm.trans d5⟩

/-! ### a restored connection and everything done with it afterwards -/
section RestoredHistory
open Strophe.Lemmas.SendQueue

/-- the history a restored connection starts with: nothing on the wire yet, the restored unsent
    elements are what has been handed in -/
def restoredHist (c' : Conn) : Hist :=
  { st := c'.q, wire := [], ghost := c'.q.queue.map fun e => (e.uid, e.data) }

theorem match_self (q : List Elem) : Match q (q.map fun e => (e.uid, e.data)) := by
  induction q with
  | nil => rfl
  | cons e tl ih => exact Or.inr ⟨e, tl, rfl, rfl, rfl, ih⟩

theorem mkSmElems_uids (s : Nat) (l : List (UInt32 × Bytes)) :
    ∀ e ∈ mkSmElems s l, s ≤ e.uid ∧ e.uid < s + l.length := by
  intro e he
  simp only [mkSmElems, List.mem_map] at he
  obtain ⟨⟨⟨h, t⟩, i⟩, hx, rfl⟩ := he
  have := List.mem_zipIdx hx
  simp at this ⊢
  omega


theorem stepH_ghost_prefix (h : Hist) (op : Op) :
    ∃ later, (stepH h op).ghost.map (·.1) = h.ghost.map (·.1) ++ later := by
  unfold stepH
  split
  rename_i s' out hs
  split
  · refine ⟨[], ?_⟩
    simp only [List.append_nil, List.map_map]
    apply List.map_congr_left
    intro p _
    obtain ⟨u, t⟩ := p
    simp only [Function.comp]
    split <;> rfl
  · exact ⟨_, List.map_append⟩
  · exact ⟨_, List.map_append⟩

theorem foldl_stepH_ghost_prefix (ops : List Op) (h : Hist) :
    ∃ later, (ops.foldl stepH h).ghost.map (·.1) = h.ghost.map (·.1) ++ later := by
  induction ops generalizing h with
  | nil => exact ⟨[], by simp⟩
  | cons op ops ih =>
    obtain ⟨l1, h1⟩ := stepH_ghost_prefix h op
    obtain ⟨l2, h2⟩ := ih (stepH h op)
    exact ⟨l1 ++ l2, by rw [List.foldl_cons, h2, h1, List.append_assoc]⟩

theorem restored_hinv (b : Bytes) (c' : Conn) (h : restore fresh b = (c', .rc 0)) :
    HInv (restoredHist c') := by
  have hinv := restored_inv b c' h
  obtain ⟨p, -, -, rfl⟩ := restore_fresh_ok b c' h
  have hq : (restoredConn p).q.queue = mkElems 0 p.sendq := rfl
  have hsm : (restoredConn p).q.smQueue = mkSmElems (0 + p.sendq.length) p.smq := rfl
  have hn : (restoredConn p).q.nextUid = 0 + p.sendq.length + p.smq.length := rfl
  have hu : ∀ e ∈ mkElems 0 p.sendq, e.uid < p.sendq.length := by
    intro e he
    have hm : e.uid ∈ (mkElems 0 p.sendq).map (·.uid) := List.mem_map.2 ⟨e, he, rfl⟩
    rw [mkElems_uids, List.mem_range'_1] at hm
    omega
  refine ⟨hinv, ?_, ?_, ?_, ?_, [], _, rfl, ?_, match_self _⟩
  · intro e he
    show e.uid < (restoredConn p).q.nextUid
    rw [hn]; rw [show (restoredHist (restoredConn p)).st.smQueue = _ from hsm] at he
    have := (mkSmElems_uids _ _ e he).2; omega
  · intro e he e' he'
    rw [show (restoredHist (restoredConn p)).st.smQueue = _ from hsm] at he
    rw [show (restoredHist (restoredConn p)).st.queue = _ from hq] at he'
    have h1 := (mkSmElems_uids _ _ e he).1
    have h2 := hu e' he'
    omega
  · intro g hg
    show g.1 < (restoredConn p).q.nextUid
    rw [hn]
    simp only [restoredHist, hq, List.mem_map] at hg
    obtain ⟨e, he, rfl⟩ := hg
    have := hu e he
    show e.uid < _
    omega
  · show (((restoredConn p).q.queue.map fun e => (e.uid, e.data)).map (·.1)).Nodup
    rw [List.map_map, hq]
    have : ((fun x : Nat × Bytes => x.1) ∘ fun e : Elem => (e.uid, e.data)) = fun e => e.uid := rfl
    rw [this, mkElems_uids]; exact List.nodup_range'
  · show ([] : Bytes) = gflat [] ++ headWritten (restoredConn p).q.queue
    rw [hq]
    cases hl : mkElems 0 p.sendq with
    | nil => rfl
    | cons e tl =>
      have := (mkElems_pristine 0 p.sendq e (by rw [hl]; exact List.mem_cons_self)).2.1
      simp [gflat, headWritten, this]

/-- the restored queues behave like native ones, in full: whatever is done with the restored
    connection afterwards (connect, sends, loop iterations under any accept schedule, drops,
    disconnects), the bytes on the wire followed by the bytes still queued are the restored unsent
    texts, in the saved order, followed by everything handed in later -/
theorem restored_then_fifo (b : Bytes) (c' : Conn) (h : restore fresh b = (c', .rc 0))
    (ops : List Op) :
    let hN := ops.foldl stepH (restoredHist c')
    Inv hN.st ∧ hN.wire ++ pending hN.st.queue = (hN.ghost.map (·.2)).flatten ∧
      ∃ later, hN.ghost.map (·.1) = c'.q.queue.map (·.uid) ++ later := by
  intro hN
  have hi : HInv hN := foldl_stepH_ind HInv hinv_step ops _ (restored_hinv b c' h)
  refine ⟨hi.inv, hi.fifo, ?_⟩
  obtain ⟨later, hl⟩ := foldl_stepH_ghost_prefix ops (restoredHist c')
  refine ⟨later, ?_⟩
  rw [hl]
  simp [restoredHist, List.map_map, Function.comp_def]

end RestoredHistory

end Strophe.Lemmas.SmBlob
