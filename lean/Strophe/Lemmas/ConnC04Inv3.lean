/-
State-preservation facts (`St`: functions that leave the connection state alone; quiet and loud
stanza names, after Lemmas/ConnC13Good.lean), handlers are not removed during a dispatch (`HasH`),
and the branches of `_handle_sm`.
-/
import Strophe.Lemmas.ConnC04Inv2

namespace Strophe.Lemmas.ConnC04
open Strophe Strophe.Conn

variable {c : Conn}

/-! ### St -/

def St (s : CState) (c : Conn) : Prop := c.state = s

variable {s : CState}

theorem St_triggerSmCallback (h : St s c) : St s (triggerSmCallback c) := h
theorem St_addHandler {fn ud ns name type user} (h : St s c) : St s (addHandler c fn ud ns name type user) := by
  c4auto addHandler
theorem St_addIdHandler {fn id user} (h : St s c) : St s (addIdHandler c fn id user) := by
  c4auto addIdHandler
theorem St_addTimed {fn period user} (h : St s c) : St s (addTimed c fn period user) := by
  c4auto addTimed
theorem St_delTimed {fn} (h : St s c) : St s (delTimed c fn) := by
  c4auto delTimed
theorem St_resetTimed (h : St s c) : St s (resetTimed c) := by
  c4auto resetTimed
theorem St_resetSmForReconnect (h : St s c) : St s (resetSmForReconnect c) := by
  c4auto resetSmForReconnect
theorem St_notify {e} (h : St s c) : St s (notify c e) := by
  c4auto notify
theorem St_pushRawWith {it o sn} (h : St s c) : St s (pushRawWith c it o sn) := by
  c4auto pushRawWith
theorem St_pushRaw {it o} (h : St s c) : St s (pushRaw c it o) := by
  c4auto pushRaw
theorem St_sendStanza {it o} (h : St s c) : St s (sendStanza c it o) := by
  c4auto sendStanza
theorem St_sendRaw {it o} (h : St s c) : St s (sendRaw c it o) := by
  c4auto sendRaw
theorem St_sendRawString {it} (h : St s c) : St s (sendRawString c it) := by
  c4auto sendRawString
theorem St_xmppDisconnect (h : St s c) : St s (xmppDisconnect c) := by
  c4auto xmppDisconnect
theorem St_connTlsStart (h : St s c) : St s ((connTlsStart c).1) := by
  c4auto connTlsStart
theorem St_connOpenStream (h : St s c) : St s (connOpenStream c) := by
  c4auto connOpenStream
theorem St_prepareReset {o} (h : St s c) : St s (prepareReset c o) := h
theorem St_negotiationSuccess (h : St s c) : St s (negotiationSuccess c) := by
  c4auto negotiationSuccess
theorem St_authLegacyStep (h : St s c) : St s (authLegacyStep c) := by
  c4auto authLegacyStep
theorem St_saslChild {t} (h : St s c) : St s (saslChild c t) := by
  c4auto saslChild
theorem St_noteOffers {st} (h : St s c) : St s (noteOffers c st) := by
  c4auto noteOffers
theorem St_doBind (h : St s c) : St s (doBind c) := by
  c4auto doBind
theorem St_smEnable (h : St s c) : St s (smEnable c) := by
  c4auto smEnable
theorem St_sessionStart (h : St s c) : St s (sessionStart c) := by
  c4auto sessionStart
theorem St_handleFeaturesSasl {st} (h : St s c) : St s (handleFeaturesSasl c st) := by
  c4auto handleFeaturesSasl
theorem St_compressionOffer {st} (h : St s c) : St s (compressionOffer c st) := by
  c4auto compressionOffer
theorem St_handleFeaturesCompress {st} (h : St s c) : St s (handleFeaturesCompress c st) := by
  c4auto handleFeaturesCompress
theorem St_smQueueResend (h : St s c) : St s (smQueueResend c) := by
  c4auto smQueueResend
theorem St_handleSm {st} (h : St s c) : St s (handleSm c st) := by
  c4auto handleSm
theorem St_handleBind {st} (h : St s c) : St s (handleBind c st) := by
  c4auto handleBind
theorem St_handleSession {st} (h : St s c) : St s (handleSession c st) := by
  c4auto handleSession
theorem St_handleLegacy {st} (h : St s c) : St s (handleLegacy c st) := by
  c4auto handleLegacy
theorem St_handleError {st} (h : St s c) : St s (handleError c st) := by
  c4auto handleError
theorem St_smElement {st} (h : St s c) : St s (smHandleStanza.smElement c st) := by
  c4auto smHandleStanza.smElement
theorem St_smHandleStanza {st} (h : St s c) : St s (smHandleStanza c st) := by
  c4auto smHandleStanza
theorem St_componentOpen (h : St s c) : St s (componentOpen c) := by
  c4auto componentOpen
theorem St_runOpenHandler (h : St s c) : St s (runOpenHandler c) := by
  c4auto runOpenHandler
theorem St_retire {e} (h : St s c) : St s (retire c e) := by
  c4auto retire

/-- element names for which no handler disconnects directly -/
def quiet (st : XTree) : Prop := st.name?.getD [] ≠ b "features" ∧ st.name?.getD [] ≠ b "failure"

theorem St_handleSaslResult {st} (hq : st.name?.getD [] ≠ b "failure") (h : St s c) :
    St s (handleSaslResult c st) := by
  unfold handleSaslResult
  dsimp only
  rw [if_neg hq]
  c4trav

theorem St_runSys {k st} (hq : quiet st) (hk : k ≠ .features) (h : St s c) : St s (runSys c k st).1 := by
  cases k
  case features => exact absurd rfl hk
  all_goals
    unfold runSys
    dsimp only
    c4trav
  all_goals exact hq.2

theorem name_of_matches {hd : Handler} {st : XTree} {n : Bytes} (hn : hd.name = some n)
    (hm : hMatches hd st = true) : st.name?.getD [] = n := by
  unfold hMatches at hm
  rw [hn] at hm
  simp only [Bool.and_eq_true, decide_eq_true_eq] at hm
  rw [hm.1.2]; rfl

/-- a stanza handler that runs on a quiet stanza leaves the connection state alone -/
theorem St_runHandler_quiet {hd : Handler} {st} (hq : quiet st) (hw : HW c) (hmem : hd ∈ c.handlers)
    (hm : hMatches hd st = true) (h : St s c) : St s (runHandler c hd st).1 := by
  have hok := hw.okh hd hmem
  unfold runHandler
  cases hf : hd.fn with
  | userAll => dsimp only; exact St_notify h
  | sys k =>
    dsimp only
    refine St_runSys hq ?_ h
    intro hk
    subst hk
    rw [hf] at hok
    simp only [okH, beq_iff_eq] at hok
    exact hq.1 (name_of_matches hok hm)

/-- an id handler leaves the connection state alone -/
theorem St_runHandler_id {hd : Handler} {st} (hw : HW c) (hmem : hd ∈ c.idHandlers) (h : St s c) :
    St s (runHandler c hd st).1 := by
  have hok := hw.oki hd hmem
  unfold runHandler
  cases hf : hd.fn with
  | userAll => dsimp only; exact St_notify h
  | sys k =>
    rw [hf] at hok
    dsimp only
    cases k <;> first | cases hok | skip
    all_goals
      unfold runSys
      dsimp only
      c4trav

/-! ### HasH: a dispatch only ever appends to the handler list -/

def HasH (x : Handler) (c : Conn) : Prop := x ∈ c.handlers

variable {x : Handler}

theorem HasH_addHandler {fn ud ns name type user} (h : HasH x c) : HasH x (addHandler c fn ud ns name type user) := by
  unfold addHandler; split
  · exact h
  · exact List.mem_append_left _ h

theorem HasH_triggerSmCallback (h : HasH x c) : HasH x (triggerSmCallback c) := h
theorem HasH_addIdHandler {fn id user} (h : HasH x c) : HasH x (addIdHandler c fn id user) := by
  c4auto addIdHandler
theorem HasH_addTimed {fn period user} (h : HasH x c) : HasH x (addTimed c fn period user) := by
  c4auto addTimed
theorem HasH_delTimed {fn} (h : HasH x c) : HasH x (delTimed c fn) := by
  c4auto delTimed
theorem HasH_resetTimed (h : HasH x c) : HasH x (resetTimed c) := by
  c4auto resetTimed
theorem HasH_resetSmForReconnect (h : HasH x c) : HasH x (resetSmForReconnect c) := by
  c4auto resetSmForReconnect
theorem HasH_notify {e} (h : HasH x c) : HasH x (notify c e) := by
  c4auto notify
theorem HasH_connDisconnect (h : HasH x c) : HasH x (connDisconnect c) := by
  c4auto connDisconnect
theorem HasH_pushRawWith {it o sn} (h : HasH x c) : HasH x (pushRawWith c it o sn) := by
  c4auto pushRawWith
theorem HasH_pushRaw {it o} (h : HasH x c) : HasH x (pushRaw c it o) := by
  c4auto pushRaw
theorem HasH_sendStanza {it o} (h : HasH x c) : HasH x (sendStanza c it o) := by
  c4auto sendStanza
theorem HasH_sendRaw {it o} (h : HasH x c) : HasH x (sendRaw c it o) := by
  c4auto sendRaw
theorem HasH_sendRawString {it} (h : HasH x c) : HasH x (sendRawString c it) := by
  c4auto sendRawString
theorem HasH_xmppDisconnect (h : HasH x c) : HasH x (xmppDisconnect c) := by
  c4auto xmppDisconnect
theorem HasH_connTlsStart (h : HasH x c) : HasH x ((connTlsStart c).1) := by
  c4auto connTlsStart
theorem HasH_connOpenStream (h : HasH x c) : HasH x (connOpenStream c) := by
  c4auto connOpenStream
theorem HasH_prepareReset {o} (h : HasH x c) : HasH x (prepareReset c o) := h
theorem HasH_negotiationSuccess (h : HasH x c) : HasH x (negotiationSuccess c) := by
  c4auto negotiationSuccess
theorem HasH_authLegacyStep (h : HasH x c) : HasH x (authLegacyStep c) := by
  c4auto authLegacyStep
theorem HasH_auth (n : Nat) : ∀ {c}, HasH x c → HasH x (auth c n) := by
  induction n with
  | zero => intro c h; exact h
  | succ n ih =>
    intro c h
    rw [auth]
    dsimp only
    c4trav
    all_goals first | (apply ih; c4trav) | skip
theorem HasH_authTop (h : HasH x c) : HasH x (authTop c) := HasH_auth _ h
theorem HasH_saslChild {t} (h : HasH x c) : HasH x (saslChild c t) := by
  c4auto saslChild
theorem HasH_noteOffers {st} (h : HasH x c) : HasH x (noteOffers c st) := by
  c4auto noteOffers
theorem HasH_handleFeatures {st} (h : HasH x c) : HasH x (handleFeatures c st) := by
  c4auto handleFeatures
theorem HasH_doBind (h : HasH x c) : HasH x (doBind c) := by
  c4auto doBind
theorem HasH_smEnable (h : HasH x c) : HasH x (smEnable c) := by
  c4auto smEnable
theorem HasH_sessionStart (h : HasH x c) : HasH x (sessionStart c) := by
  c4auto sessionStart
theorem HasH_handleFeaturesSasl {st} (h : HasH x c) : HasH x (handleFeaturesSasl c st) := by
  c4auto handleFeaturesSasl
theorem HasH_compressionOffer {st} (h : HasH x c) : HasH x (compressionOffer c st) := by
  c4auto compressionOffer
theorem HasH_handleFeaturesCompress {st} (h : HasH x c) : HasH x (handleFeaturesCompress c st) := by
  c4auto handleFeaturesCompress
theorem HasH_handleSaslResult {st} (h : HasH x c) : HasH x (handleSaslResult c st) := by
  c4auto handleSaslResult
theorem HasH_smQueueResend (h : HasH x c) : HasH x (smQueueResend c) := by
  c4auto smQueueResend
theorem HasH_handleSm {st} (h : HasH x c) : HasH x (handleSm c st) := by
  c4auto handleSm
theorem HasH_handleBind {st} (h : HasH x c) : HasH x (handleBind c st) := by
  c4auto handleBind
theorem HasH_handleSession {st} (h : HasH x c) : HasH x (handleSession c st) := by
  c4auto handleSession
theorem HasH_handleLegacy {st} (h : HasH x c) : HasH x (handleLegacy c st) := by
  c4auto handleLegacy
theorem HasH_handleError {st} (h : HasH x c) : HasH x (handleError c st) := by
  c4auto handleError
theorem HasH_runSys {k st} (h : HasH x c) : HasH x ((runSys c k st).1) := by
  c4auto runSys
theorem HasH_runHandler {k st} (h : HasH x c) : HasH x ((runHandler c k st).1) := by
  c4auto runHandler

/-! ### the branches of `_handle_sm` -/

/-- same XEP-0198 record up to `enabled` and the inbound counter -/
structure SmKeep (s s' : SmState) : Prop where
  queue : s'.queue = s.queue
  sentNr : s'.sentNr = s.sentNr
  id : s'.id = s.id
  previd : s'.previd = s.previd
  boundJid : s'.boundJid = s.boundJid
  support : s'.support = s.support
  canResume : s'.canResume = s.canResume

/-- the record after `<enabled/>` was accepted -/
structure SmEnabled (s s' : SmState) : Prop where
  queue : s'.queue = s.queue
  sentNr : s'.sentNr = s.sentNr
  enabled : s'.enabled = true
  id : s'.id = s.id ∨ (s'.id.isSome = true ∧ s'.canResume = true)
  previd : s'.previd = s.previd
  boundJid : s'.boundJid = s.boundJid
  support : s'.support = s.support
  canResume : s'.canResume = s.canResume ∨ (s'.id.isSome = true ∧ s'.canResume = true)

/-- the record after `<failed/>` with a cause: reset, what the server handled is dropped -/
structure SmFailed (s s' : SmState) : Prop where
  queue : s'.queue <:+ s.queue
  sentNr : s'.sentNr = 0
  enabled : s'.enabled = false
  id : s'.id = none
  previd : s'.previd = none
  boundJid : s'.boundJid = none
  support : s'.support = s.support

/-- what `_handle_sm` does after the record was reset -/
def hsmTail (c3 : Conn) (hadBind wasResume : Bool) : Conn :=
  if hadBind then triggerSmCallback (doBind c3)
  else if wasResume then triggerSmCallback (xmppDisconnect c3)
  else if !c3.negotiated then triggerSmCallback (negotiationSuccess c3)
  else triggerSmCallback c3

theorem handleSm_cases (P : Conn → Prop) (c : Conn) (st : XTree)
    (hdis : ∀ s', s'.enabled = false → SmKeep c.sm s' → P { c with sm := s' })
    (hen : c.sm.enabled = true → st.name? = some (b "enabled") → ∀ s', SmEnabled c.sm s' →
      P (negotiationSuccess (smQueueResend { c with sm := s' })))
    (hres : ∀ ours v, c.sm.previd = some ours → st.name? = some (b "resumed") → getH st = some v →
      P (negotiationSuccess (smQueueResend (resumedC1 c v))))
    (hfail : ∀ s', SmFailed c.sm s' →
      (s'.queue = c.sm.queue ∨ s'.queue = smQueueCleanup c.sm.queue ((getH st).getD 0)) →
      ∀ hb wr, wr = c.sm.resume → P (hsmTail { c with sm := s' } hb wr)) :
    P (handleSm c st) := by
  have keep : ∀ (s' : SmState), s'.enabled = false → s'.queue = c.sm.queue → s'.sentNr = c.sm.sentNr →
      s'.id = c.sm.id → s'.previd = c.sm.previd → s'.boundJid = c.sm.boundJid → s'.support = c.sm.support →
      s'.canResume = c.sm.canResume → P { c with sm := s' } :=
    fun s' h0 h1 h2 h3 h4 h5 h6 h7 => hdis s' h0 ⟨h1, h2, h3, h4, h5, h6, h7⟩
  have nm : ∀ n : Bytes, st.name?.getD [] = n → n ≠ [] → st.name? = some n := by
    intro n hn hne
    cases h : st.name? with
    | none => rw [h] at hn; exact absurd hn.symm hne
    | some m => rw [h] at hn; exact congrArg some hn
  unfold handleSm
  dsimp only
  refine pred_ite (P := P) (fun hn => ?_) (fun _ => ?_)
  · have hname := nm _ hn (by decide)
    refine pred_ite (P := P) (fun _ => ?_) (fun he => ?_)
    · exact keep _ rfl rfl rfl rfl rfl rfl rfl rfl
    · have he : c.sm.enabled = true := by simpa using he
      split
      · split
        · exact keep _ rfl rfl rfl rfl rfl rfl rfl rfl
        · exact hen he hname _ ⟨rfl, rfl, he, .inr ⟨rfl, rfl⟩, rfl, rfl, rfl, .inr ⟨rfl, rfl⟩⟩
      · exact hen he hname _ ⟨rfl, rfl, he, .inl rfl, rfl, rfl, rfl, .inl rfl⟩
  · refine pred_ite (P := P) (fun hn => ?_) (fun _ => ?_)
    · have hname := nm _ hn (by decide)
      split
      · exact keep _ rfl rfl rfl rfl rfl rfl rfl rfl
      · rename_i ours hp
        refine pred_ite (P := P) (fun _ => ?_) (fun _ => ?_)
        · exact keep _ rfl rfl rfl rfl rfl rfl rfl rfl
        · split
          · exact keep _ rfl rfl rfl rfl rfl rfl rfl rfl
          · rename_i v hv
            have := hres ours v hp hname hv
            unfold resumedC1 at this
            exact this
    · refine pred_ite (P := P) (fun _ => ?_) (fun _ => ?_)
      · split
        · exact keep _ rfl rfl rfl rfl rfl rfl rfl rfl
        · rename_i cause hc
          have hq : ∀ v, smQueueCleanup c.sm.queue v <:+ c.sm.queue := fun v => List.dropWhile_suffix _
          show P (hsmTail _ _ _)
          by_cases h1 : cause.name?.getD [] = b "item-not-found"
          · by_cases h2 : c.sm.resume = true
            · simp only [h1, h2, ↓reduceIte]
              refine hfail _ ?_ ?_ _ _ ?_ <;> first | exact ⟨hq _, rfl, rfl, rfl, rfl, rfl, rfl⟩ | exact .inr rfl | simp [h2]
            · simp only [h1, h2, ↓reduceIte]
              refine hfail _ ?_ ?_ _ _ ?_ <;> first | exact ⟨List.suffix_refl _, rfl, rfl, rfl, rfl, rfl, rfl⟩ | exact .inl rfl | simp [h2]
          · by_cases h3 : cause.name?.getD [] = b "feature-not-implemented"
            · simp only [h3, ↓reduceIte]
              refine hfail _ ?_ ?_ _ _ ?_ <;> first | exact ⟨List.suffix_refl _, rfl, rfl, rfl, rfl, rfl, rfl⟩ | exact .inl rfl | rfl
            · simp only [h1, h3, ↓reduceIte]
              refine hfail _ ?_ ?_ _ _ ?_ <;> first | exact ⟨List.suffix_refl _, rfl, rfl, rfl, rfl, rfl, rfl⟩ | exact .inl rfl | rfl
      · exact keep _ rfl rfl rfl rfl rfl rfl rfl rfl

end Strophe.Lemmas.ConnC04
