/-
What is in the send queue stays there until it is written — up to the next `_conn_reset`
(`requeued_until_reset_partial`, the positive part next to known finding D52).
-/
import Strophe.Lemmas.ConnC04Step

namespace Strophe.Lemmas.ConnC04
open Strophe Strophe.Conn

variable {c : Conn} {qe : QElem} {k0 : Nat}

def InQ (e : QElem) (q : List QElem) : Prop :=
  ∃ e' ∈ q, e'.item = e.item ∧ e'.owner = e.owner ∧ e'.snap = e.snap
def InTx (e : QElem) (n : Nat) (tx : List TxRec) : Prop :=
  ∃ r ∈ tx.drop n, r.item = e.item ∧ r.owner = e.owner

/-- queued, or written since the log had `n` entries -/
def QT (e : QElem) (n : Nat) (c : Conn) : Prop := n ≤ c.tx.length ∧ (InQ e c.queue ∨ InTx e n c.tx)

theorem InTx.append {tx l : List TxRec} (h : InTx qe k0 tx) : InTx qe k0 (tx ++ l) := by
  obtain ⟨r, hr, h1⟩ := h
  refine ⟨r, ?_, h1⟩
  rw [List.drop_append]
  exact List.mem_append_left _ hr

theorem QT_pushRawWith {it o sn} (h : QT qe k0 c) : QT qe k0 (pushRawWith c it o sn) := by
  have s := pushRawWith_same c it o sn
  refine ⟨by rw [s.tx]; exact h.1, ?_⟩
  rcases h.2 with ⟨e', he', h1⟩ | h2
  · exact .inl ⟨e', pushRawWith_queue_mono c it o sn e' he', h1⟩
  · exact .inr (by rw [s.tx]; exact h2)

theorem QT_resetSmForReconnect (h : QT qe k0 c) : QT qe k0 (resetSmForReconnect c) := by
  obtain ⟨_, _, _, h4, h5, _⟩ := resetSmForReconnect_same c
  unfold QT; rw [h4, h5]; exact h

theorem retire_tx (c : Conn) (x : QElem) :
    ∃ r, (retire c x).tx = c.tx ++ [r] ∧ r.item = x.item ∧ r.owner = x.owner := by
  obtain ⟨⟨r, h1, h2, h3, _⟩, _⟩ := retire_counts c x
  exact ⟨r, h1, h2, h3⟩

theorem retire_pre (c : Conn) (x : QElem) (q : List QElem) (s' : List Accept) (hn : k0 ≤ c.tx.length)
    (h : InQ qe (x :: q) ∨ InTx qe k0 c.tx) :
    k0 ≤ (retire { c with queue := q, sched := s' } x).tx.length ∧
    (InQ qe q ∨ InTx qe k0 (retire { c with queue := q, sched := s' } x).tx) := by
  obtain ⟨r, hr, hi, ho⟩ := retire_tx { c with queue := q, sched := s' } x
  have hr : (retire { c with queue := q, sched := s' } x).tx = c.tx ++ [r] := hr
  rw [hr]
  refine ⟨by rw [List.length_append]; exact Nat.le_trans hn (Nat.le_add_right _ _), ?_⟩
  rcases h with ⟨e', he', h1⟩ | h
  · rcases List.mem_cons.1 he' with hx | he'
    · right
      refine ⟨r, ?_, by rw [hi, ← hx]; exact h1.1, by rw [ho, ← hx]; exact h1.2.1⟩
      rw [List.drop_append]
      apply List.mem_append_right
      have : k0 - c.tx.length = 0 := by omega
      rw [this]; exact List.mem_singleton.2 rfl
    · exact .inl ⟨e', he', h1⟩
  · exact .inr h.append

/-- the write loop: an element of `l` is written or stays queued -/
theorem QT_writeElems : ∀ (l : List QElem) {c : Conn}, k0 ≤ c.tx.length → (InQ qe l ∨ InTx qe k0 c.tx) →
    QT qe k0 (writeElems c l)
  | [], c, hn, h => by
    refine ⟨hn, ?_⟩
    rcases h with ⟨_, hx, _⟩ | h
    · cases hx
    · exact .inr h
  | x :: q, c, hn, h => by
    have hwip : InQ qe (x :: q) → InQ qe (({ x with wip := true } : QElem) :: q) := by
      intro ⟨e', he', h1⟩
      rcases List.mem_cons.1 he' with hx | he'
      · exact ⟨_, List.mem_cons_self, by rw [← hx]; exact h1⟩
      · exact ⟨e', List.mem_cons_of_mem _ he', h1⟩
    unfold writeElems
    dsimp only
    split
    · refine QT_writeElems q ?_ ?_
      · exact (retire_pre c x q _ hn h).1
      · exact (retire_pre c x q _ hn h).2
    · exact ⟨hn, h.elim (fun hq => .inl (hwip hq)) .inr⟩
    · exact ⟨hn, h.elim (fun hq => .inl (hwip hq)) .inr⟩

theorem QT_writeLoop (h : QT qe k0 c) : QT qe k0 (writeLoop c) := QT_writeElems c.queue h.1 h.2

theorem QT_retire {x} (h : QT qe k0 c) : QT qe k0 (retire c x) := by
  obtain ⟨r, hr, _⟩ := retire_tx c x
  have hq : (retire c x).queue = c.queue := by
    unfold retire triggerSmCallback; dsimp only; split <;> rfl
  refine ⟨by rw [hr, List.length_append]; exact Nat.le_trans h.1 (Nat.le_add_right _ _), ?_⟩
  rcases h.2 with h1 | h2
  · exact .inl (by rw [hq]; exact h1)
  · exact .inr (by rw [hr]; exact h2.append)

theorem QT_triggerSmCallback (h : QT qe k0 c) : QT qe k0 (triggerSmCallback c) := h
theorem QT_addHandler {fn ud ns name type user} (h : QT qe k0 c) : QT qe k0 (addHandler c fn ud ns name type user) := by
  c4auto addHandler
theorem QT_addIdHandler {fn id user} (h : QT qe k0 c) : QT qe k0 (addIdHandler c fn id user) := by
  c4auto addIdHandler
theorem QT_addTimed {fn period user} (h : QT qe k0 c) : QT qe k0 (addTimed c fn period user) := by
  c4auto addTimed
theorem QT_delTimed {fn} (h : QT qe k0 c) : QT qe k0 (delTimed c fn) := by
  c4auto delTimed
theorem QT_resetTimed (h : QT qe k0 c) : QT qe k0 (resetTimed c) := by
  c4auto resetTimed
theorem QT_systemDeleteAll (h : QT qe k0 c) : QT qe k0 (systemDeleteAll c) := by
  c4auto systemDeleteAll
theorem QT_notify {e} (h : QT qe k0 c) : QT qe k0 (notify c e) := by
  c4auto notify
theorem QT_connDisconnect (h : QT qe k0 c) : QT qe k0 (connDisconnect c) := by
  c4auto connDisconnect
theorem QT_pushRaw {it o} (h : QT qe k0 c) : QT qe k0 (pushRaw c it o) := by
  c4auto pushRaw
theorem QT_sendStanza {it o} (h : QT qe k0 c) : QT qe k0 (sendStanza c it o) := by
  c4auto sendStanza
theorem QT_sendRaw {it o} (h : QT qe k0 c) : QT qe k0 (sendRaw c it o) := by
  c4auto sendRaw
theorem QT_sendRawString {it} (h : QT qe k0 c) : QT qe k0 (sendRawString c it) := by
  c4auto sendRawString
theorem QT_xmppDisconnect (h : QT qe k0 c) : QT qe k0 (xmppDisconnect c) := by
  c4auto xmppDisconnect
theorem QT_connTlsStart (h : QT qe k0 c) : QT qe k0 ((connTlsStart c).1) := by
  c4auto connTlsStart
theorem QT_connOpenStream (h : QT qe k0 c) : QT qe k0 (connOpenStream c) := by
  c4auto connOpenStream
theorem QT_prepareReset {o} (h : QT qe k0 c) : QT qe k0 (prepareReset c o) := h
theorem QT_negotiationSuccess (h : QT qe k0 c) : QT qe k0 (negotiationSuccess c) := by
  c4auto negotiationSuccess
theorem QT_authLegacyStep (h : QT qe k0 c) : QT qe k0 (authLegacyStep c) := by
  c4auto authLegacyStep
theorem QT_auth (n : Nat) : ∀ {c}, QT qe k0 c → QT qe k0 (auth c n) := by
  induction n with
  | zero => intro c h; exact h
  | succ n ih =>
    intro c h
    rw [auth]
    dsimp only
    c4trav
    all_goals first | (apply ih; c4trav) | skip
theorem QT_authTop (h : QT qe k0 c) : QT qe k0 (authTop c) := QT_auth _ h
theorem QT_saslChild {t} (h : QT qe k0 c) : QT qe k0 (saslChild c t) := by
  c4auto saslChild
theorem QT_noteOffers {st} (h : QT qe k0 c) : QT qe k0 (noteOffers c st) := by
  c4auto noteOffers
theorem QT_handleFeatures {st} (h : QT qe k0 c) : QT qe k0 (handleFeatures c st) := by
  c4auto handleFeatures
theorem QT_doBind (h : QT qe k0 c) : QT qe k0 (doBind c) := by
  c4auto doBind
theorem QT_smEnable (h : QT qe k0 c) : QT qe k0 (smEnable c) := by
  c4auto smEnable
theorem QT_sessionStart (h : QT qe k0 c) : QT qe k0 (sessionStart c) := by
  c4auto sessionStart
theorem QT_handleFeaturesSasl {st} (h : QT qe k0 c) : QT qe k0 (handleFeaturesSasl c st) := by
  c4auto handleFeaturesSasl
theorem QT_compressionOffer {st} (h : QT qe k0 c) : QT qe k0 (compressionOffer c st) := by
  c4auto compressionOffer
theorem QT_handleFeaturesCompress {st} (h : QT qe k0 c) : QT qe k0 (handleFeaturesCompress c st) := by
  c4auto handleFeaturesCompress
theorem QT_handleSaslResult {st} (h : QT qe k0 c) : QT qe k0 (handleSaslResult c st) := by
  c4auto handleSaslResult
theorem QT_smQueueResend (h : QT qe k0 c) : QT qe k0 (smQueueResend c) := by
  c4auto smQueueResend
theorem QT_handleSm {st} (h : QT qe k0 c) : QT qe k0 (handleSm c st) := by
  c4auto handleSm
theorem QT_handleBind {st} (h : QT qe k0 c) : QT qe k0 (handleBind c st) := by
  c4auto handleBind
theorem QT_handleSession {st} (h : QT qe k0 c) : QT qe k0 (handleSession c st) := by
  c4auto handleSession
theorem QT_handleLegacy {st} (h : QT qe k0 c) : QT qe k0 (handleLegacy c st) := by
  c4auto handleLegacy
theorem QT_handleError {st} (h : QT qe k0 c) : QT qe k0 (handleError c st) := by
  c4auto handleError
theorem QT_runSys {k st} (h : QT qe k0 c) : QT qe k0 ((runSys c k st).1) := by
  c4auto runSys
theorem QT_runHandler {k st} (h : QT qe k0 c) : QT qe k0 ((runHandler c k st).1) := by
  c4auto runHandler
theorem QT_fireOne {st uid} (h : QT qe k0 c) : QT qe k0 (fireOne st c uid) := by
  c4auto fireOne
theorem QT_fireIdOne {st uid} (h : QT qe k0 c) : QT qe k0 (fireIdOne st c uid) := by
  c4auto fireIdOne
theorem QT_fireStanza {st} (h : QT qe k0 c) : QT qe k0 (fireStanza c st) := by
  c4auto fireStanza
theorem QT_smElement {st} (h : QT qe k0 c) : QT qe k0 (smHandleStanza.smElement c st) := by
  c4auto smHandleStanza.smElement
theorem QT_smHandleStanza {st} (h : QT qe k0 c) : QT qe k0 (smHandleStanza c st) := by
  c4auto smHandleStanza
theorem QT_handleStreamStanza {st} (h : QT qe k0 c) : QT qe k0 (handleStreamStanza c st) := by
  c4auto handleStreamStanza
theorem QT_componentOpen (h : QT qe k0 c) : QT qe k0 (componentOpen c) := by
  c4auto componentOpen
theorem QT_runOpenHandler (h : QT qe k0 c) : QT qe k0 (runOpenHandler c) := by
  c4auto runOpenHandler
theorem QT_handleStreamStart {n id} (h : QT qe k0 c) : QT qe k0 (handleStreamStart c n id) := by
  c4auto handleStreamStart
theorem QT_handleStreamEnd (h : QT qe k0 c) : QT qe k0 (handleStreamEnd c) := by
  c4auto handleStreamEnd
theorem QT_parserEvent {e} (h : QT qe k0 c) : QT qe k0 (parserEvent c e) := by
  c4auto parserEvent
theorem QT_runTimed {f} (h : QT qe k0 c) : QT qe k0 ((runTimed c f).1) := by
  c4auto runTimed
theorem QT_fireTimedOne {uid} (h : QT qe k0 c) : QT qe k0 (fireTimedOne c uid) := by
  c4auto fireTimedOne
theorem QT_fireTimed (h : QT qe k0 c) : QT qe k0 (fireTimed c) := by
  c4auto fireTimed
theorem QT_connEstablished (h : QT qe k0 c) : QT qe k0 (connEstablished c) := by
  c4auto connEstablished
theorem QT_runOnce {rx} (h : QT qe k0 c) : QT qe k0 (runOnce c rx) := by
  c4auto runOnce
theorem QT_xmppSend {it} (h : QT qe k0 c) : QT qe k0 (xmppSend c it) := by
  c4auto xmppSend
theorem QT_xmppSendRawString {it} (h : QT qe k0 c) : QT qe k0 (xmppSendRawString c it) := by
  c4auto xmppSendRawString
theorem QT_xmppSendRaw {it} (h : QT qe k0 c) : QT qe k0 (xmppSendRaw c it) := by
  c4auto xmppSendRaw

theorem QT_release (h : QT qe k0 c) : QT qe k0 (release c) := by
  c4auto release

/-- for every operation other than a connect (whose `_conn_reset` empties the send queue: known finding
    D52) and the release of the object, an element of the send queue stays queued or is written -/
theorem requeued_until_reset_partial (c : Conn) (op : Op) (e : QElem) (he : e ∈ c.queue)
    (hop : match op with | .connect _ => False | .release => False | _ => True) :
    (∃ e' ∈ (step c op).queue, e'.item = e.item ∧ e'.owner = e.owner ∧ e'.snap = e.snap) ∨
    (∃ r ∈ (step c op).tx.drop c.tx.length, r.item = e.item ∧ r.owner = e.owner) := by
  have h0 : QT e c.tx.length c := ⟨Nat.le_refl _, .inl ⟨e, he, rfl, rfl, rfl⟩⟩
  have key : QT e c.tx.length (step c op) := by
    cases op with
    | connect k => exact absurd hop id
    | release => exact absurd hop id
    | run rx => exact QT_runOnce h0
    | setTcp f e => exact h0
    | setTls sf nf => exact h0
    | setSched l d => exact h0
    | tick ms => exact h0
    | setSmCallback => exact h0
    | setSendOnConnect on => exact h0
    | setFlags f =>
      show QT e c.tx.length (setFlags c f).1
      unfold setFlags
      dsimp only
      refine pred_ite_fst (P := QT e c.tx.length) (fun _ => h0) (fun _ => ?_)
      refine pred_ite_fst (P := QT e c.tx.length) (fun _ => h0) (fun _ => ?_)
      exact pred_ite_fst (P := QT e c.tx.length) (fun _ => h0) (fun _ => h0)
    | usend it => exact QT_xmppSend h0
    | uraw it => exact QT_xmppSendRaw h0
    | urawstr it => exact QT_xmppSendRawString h0
    | udisc => exact QT_xmppDisconnect h0
    | addUserHandlers => exact QT_addTimed (QT_addIdHandler (QT_addHandler h0))
  exact key.2

end Strophe.Lemmas.ConnC04
