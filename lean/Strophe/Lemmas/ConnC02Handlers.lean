/-
The C02 invariant is preserved by the stanza handlers of the late phase (after `<success/>`).
-/
import Strophe.Lemmas.ConnC02Auth

namespace Strophe.Lemmas.ConnC02
open Strophe Strophe.Conn

theorem LateC.same {c c' : Conn} (l : LateC c) (e1 : c'.handlers = c.handlers) (e2 : c'.idHandlers = c.idHandlers)
    (e3 : c'.openHandler = c.openHandler) (e4 : c'.sm.enabled = c.sm.enabled) : LateC c' := by
  unfold LateC; rw [e1, e2, e3, e4]; exact l

theorem LateC_addHandler {c : Conn} (l : LateC c) (fn : HFun) (ud : Nat) (ns name type : Option Bytes) (user : Bool) :
    LateC (addHandler c fn ud ns name type user) := by
  rcases l with ⟨x, hx, hp⟩ | l | l | l | l
  · refine .inl ⟨x, ?_, hp⟩
    rw [addHandler_handlers]; split <;> simp [hx]
  · exact .inr (.inl (by simpa using l))
  · exact .inr (.inr (.inl (by simpa using l)))
  · exact .inr (.inr (.inr (.inl (by simpa using l))))
  · exact .inr (.inr (.inr (.inr (by simpa using l))))

/-- frame of the functions that neither disconnect nor touch the parser or `tlsSupport` -/
syntax "same_ctx[" term "," term "]" : term
macro_rules
  | `(same_ctx[$c, $d]) => `(($d).state = ($c).state ∧ ($d).pst = ($c).pst ∧ ($d).tlsSupport = ($c).tlsSupport ∧
      ($d).tlsMandatory = ($c).tlsMandatory ∧ ($d).hasTls = ($c).hasTls ∧ ($d).secured = ($c).secured)

/-! ### bind / session / stream management requests -/

@[simp] theorem doBind_frame (c : Conn) : same_ctx[c, doBind c] := by simp [doBind]

theorem Inv_doBind {u ut : Option Nat} {c : Conn} (h : Inv u ut c) (l : LateC c) (s : Safe c) :
    Inv u ut (doBind c) := by
  unfold doBind
  exact Inv_sendStanza' (Inv_addTimed (Inv_addIdHandler h _ _ _ rfl (fun _ => ⟨s, l⟩) (by simp)) _ _ _ (by simp))
    _ _ rfl

@[simp] theorem sessionStart_frame (c : Conn) : same_ctx[c, sessionStart c] := by simp [sessionStart]

theorem Inv_sessionStart {u ut : Option Nat} {c : Conn} (h : Inv u ut c) (l : LateC c) (s : Safe c) :
    Inv u ut (sessionStart c) := by
  unfold sessionStart
  exact Inv_sendStanza' (Inv_addTimed (Inv_addIdHandler h _ _ _ rfl (fun _ => ⟨s, l⟩) (by simp)) _ _ _ (by simp))
    _ _ rfl

@[simp] theorem smEnable_frame (c : Conn) : same_ctx[c, smEnable c] := by simp [smEnable]

theorem Inv_smEnable {u ut : Option Nat} {c : Conn} (h : Inv u ut c) (l : LateC c) (s : Safe c)
    (hl : c.state ≠ .disconnected) : Inv u ut (smEnable c) := by
  unfold smEnable
  have h2 := Inv_sendStanza' (Inv_addHandler h (.sys .sm) 0 (some Gen.nsSm) none none false (by simp [isF])
    (by simp [isT]) (by simp [isS]) (fun _ => ⟨s, l⟩) (by simp))
    (.enable (!(addHandler c (.sys .sm) 0 (some Gen.nsSm) none none false).sm.dontRequestResume)) .smStrophe rfl
  refine Inv_smUpdate h2 _ (fun e he => he) (fun _ => .inr ⟨?_, by simpa using hl⟩)
  exact (LateC_addHandler l (.sys .sm) 0 (some Gen.nsSm) none none false).same (by simp) (by simp) (by simp) (by simp)

/-- `_sm_queue_resend`: the retained elements are never part of the authentication -/
theorem Inv_smQueueResend {u ut : Option Nat} {c : Conn} (h : Inv u ut c) : Inv u ut (smQueueResend c) := by
  unfold smQueueResend
  have key : ∀ (l : List (UInt32 × QElem)) (c : Conn), Inv u ut c → (∀ e ∈ l, negItem e.2.item = false) →
      Inv u ut (l.foldl (fun c e => if c.state = .connected then pushRawWith c e.2.item e.2.owner e.2.snap else c) c) := by
    intro l
    induction l with
    | nil => intro c h _; exact h
    | cons e l ih =>
      intro c h hn
      simp only [List.foldl_cons]
      refine ih _ ?_ (fun e' he' => hn e' (List.mem_cons_of_mem _ he'))
      have hne := hn e (List.mem_cons_self ..)
      split
      · exact Inv_pushRawWith h _ _ _ (fun hb => by rw [authBearing_neg hb] at hne; cases hne)
          (fun n => by rw [n] at hne; cases hne)
      · exact h
  exact key c.sm.queue _ (Inv_smUpdate h _ (by simp) (fun e => .inl e)) h.el.smN

theorem smQueueResend_fold_frame (b : Conn) (l : List (UInt32 × QElem)) (c : Conn)
    (hb : same_ctx[b, c] ∧ c.handlers = b.handlers ∧ c.idHandlers = b.idHandlers ∧ c.sm.enabled = b.sm.enabled) :
    let d := l.foldl (fun c e => if c.state = .connected then pushRawWith c e.2.item e.2.owner e.2.snap else c) c
    same_ctx[b, d] ∧ d.handlers = b.handlers ∧ d.idHandlers = b.idHandlers ∧ d.sm.enabled = b.sm.enabled := by
  induction l generalizing c with
  | nil => simpa using hb
  | cons e l ih =>
    simp only [List.foldl_cons]
    refine ih _ ?_
    split
    · simpa using hb
    · exact hb

@[simp] theorem smQueueResend_frame (c : Conn) :
    same_ctx[c, smQueueResend c] ∧ (smQueueResend c).handlers = c.handlers ∧
    (smQueueResend c).idHandlers = c.idHandlers ∧ (smQueueResend c).sm.enabled = c.sm.enabled :=
  smQueueResend_fold_frame c c.sm.queue { c with sm := { c.sm with queue := [] } } (by simp)

/-- in the late phase the offers are no longer used: the ghost may change -/
theorem Inv.lateMono {u ut : Option Nat} {c c' : Conn} (h : Inv u ut c) (l : LateC c) (m : Mono c c')
    (io : same_io[c, c']) (ks : c'.saslSupport = c.saslSupport) : Inv u ut c' := by
  obtain ⟨a, b, d, e, o⟩ := h.ph.e6 l
  refine h.setMe m io ⟨fun _ => .inr ⟨a.mono m.hs, b.mono m.tm, d.mono m.hs, fun _ => ?_⟩,
    fun _ => .inl (e.mono m.hs), ?_⟩
  · unfold OpenPre at *; rw [m.oh]; exact o
  · have := h.me.k; unfold KMask at *; rw [ks]; exact this

/-! ### `_handle_features_sasl`, `_handle_features_compress` -/

/-- the bookkeeping part of `_handle_features_sasl` -/
def hfsPrep (c : Conn) (st : XTree) : Conn :=
  let c := noteOffers c st
  let c0 := delTimed c .missingFeaturesSasl
  let hasBind := (st.childByNameNs (b "bind") Gen.nsBind).isSome
  let c1 := { c0 with bindRequired := hasBind }
  let c2 := match st.childByNameNs (b "session") Gen.nsSession with
    | some s => { c1 with sessionRequired := (s.childByName (b "optional")).isNone }
    | none => c1
  if (st.childByNameNs (b "sm") Gen.nsSm).isSome
    then { c2 with sm := { c2.sm with support := true } } else c2

@[simp] theorem hfsPrep_frame (c : Conn) (st : XTree) :
    same_cfg[c, hfsPrep c st] ∧ same_tls[c, hfsPrep c st] ∧ same_io[c, hfsPrep c st] ∧
    same_h[c, hfsPrep c st] ∧ same_sm[c, hfsPrep c st] ∧ same_p[c, hfsPrep c st] ∧
    (hfsPrep c st).timed = c.timed.filter (·.fn ≠ .missingFeaturesSasl) ∧
    (hfsPrep c st).tlsSupport = c.tlsSupport ∧ (hfsPrep c st).saslSupport = c.saslSupport := by
  unfold hfsPrep; repeat' split
  all_goals simp

/-- the resumption request of `_handle_features_sasl` -/
def hfsResume (c3 : Conn) (st : XTree) : Conn :=
  let c4 := { c3 with sm := { c3.sm with bind := (st.childByNameNs (b "bind") Gen.nsBind).isSome, resume := true } }
  addHandler (sendStanza c4 (.resume (c4.sm.previd.getD []) c4.sm.handledNr) .smStrophe)
    (.sys .sm) 0 (some Gen.nsSm) none none false

theorem handleFeaturesSasl_eq (c : Conn) (st : XTree) : handleFeaturesSasl c st =
    if !(hfsPrep c st).smDisable && (hfsPrep c st).sm.support && (hfsPrep c st).sm.canResume &&
        (hfsPrep c st).sm.previd.isSome && (hfsPrep c st).sm.boundJid.isSome then hfsResume (hfsPrep c st) st
    else if (hfsPrep c st).bindRequired then doBind (hfsPrep c st)
    else xmppDisconnect (hfsPrep c st) := rfl

@[simp] theorem hfsResume_frame (c : Conn) (st : XTree) : same_ctx[c, hfsResume c st] := by simp [hfsResume]

theorem Inv_hfsResume {u ut : Option Nat} {c : Conn} (h : Inv u ut c) (l : LateC c) (s : Safe c)
    (st : XTree) : Inv u ut (hfsResume c st) := by
  unfold hfsResume
  have h4 := Inv_smUpdate h { c.sm with bind := (st.childByNameNs (b "bind") Gen.nsBind).isSome, resume := true }
    (fun _ he => he) (fun e => .inl e)
  have h5 := Inv_sendStanza' h4 (.resume (c.sm.previd.getD []) c.sm.handledNr) .smStrophe rfl
  refine Inv_addHandler h5 _ _ _ _ _ _ (by simp [isF]) (by simp [isT]) (by simp [isS]) (fun _ => ⟨?_, ?_⟩) (by simp)
  · exact s.same (by simp) (by simp) (by simp) (by simp)
  · exact l.same (by simp) (by simp) (by simp) (by simp)

attribute [local irreducible] hfsPrep

theorem Mono_filterTimed {c c' : Conn} (p : Timed → Bool) (e1 : c'.handlers = c.handlers)
    (e2 : c'.idHandlers = c.idHandlers) (e3 : c'.timed = c.timed.filter p) (e4 : c'.sm.queue = c.sm.queue)
    (e5 : same_cfg[c, c']) (e6 : same_tls[c, c']) (e7 : c'.openHandler = c.openHandler) (e8 : same_p[c, c'])
    (e9 : c'.sm.enabled = c.sm.enabled) : Mono c c' :=
  ⟨fun x hx => ⟨x, e1 ▸ hx, rfl, rfl, rfl, rfl⟩, fun x hx => ⟨x, e2 ▸ hx, rfl, rfl⟩,
    fun t ht => ⟨t, (List.mem_filter.1 (e3 ▸ ht)).1, rfl, rfl, rfl⟩, fun _ he => e4 ▸ he, e5, e6, e7, e8, e9⟩

theorem Inv_handleFeaturesSasl {u ut : Option Nat} {c : Conn} (h : Inv u ut c) (l : LateC c) (s : Safe c)
    (st : XTree) : Inv u ut (handleFeaturesSasl c st) := by
  rw [handleFeaturesSasl_eq]
  have h3 : Inv u ut (hfsPrep c st) :=
    h.lateMono l (Mono_filterTimed (fun x => !decide (x.fn = TFun.missingFeaturesSasl)) (by simp) (by simp)
      (by simp) (by simp) (by simp) (by simp) (by simp) (by simp) (by simp)) (by simp) (by simp)
  have l3 : LateC (hfsPrep c st) := l.same (by simp) (by simp) (by simp) (by simp)
  have s3 : Safe (hfsPrep c st) := s.same (by simp) (by simp) (by simp) (by simp)
  split
  · exact Inv_hfsResume h3 l3 s3 st
  · split
    · exact Inv_doBind h3 l3 s3
    · exact Inv_xmppDisconnect h3

theorem handleFeaturesSasl_frame (c : Conn) (st : XTree) : same_ctx[c, handleFeaturesSasl c st] := by
  rw [handleFeaturesSasl_eq]; repeat' split
  all_goals simp

@[simp] theorem compressionOffer_frame (c : Conn) (st : XTree) :
    same_cfg[c, compressionOffer c st] ∧ same_tls[c, compressionOffer c st] ∧ same_io[c, compressionOffer c st] ∧
    same_h[c, compressionOffer c st] ∧ same_sm[c, compressionOffer c st] ∧ same_p[c, compressionOffer c st] ∧
    same_t[c, compressionOffer c st] ∧ (compressionOffer c st).g = c.g ∧
    (compressionOffer c st).tlsSupport = c.tlsSupport ∧ (compressionOffer c st).saslSupport = c.saslSupport := by
  unfold compressionOffer; repeat' split
  all_goals simp

theorem Inv_handleFeaturesCompress {u ut : Option Nat} {c : Conn} (h : Inv u ut c) (l : LateC c) (s : Safe c)
    (st : XTree) : Inv u ut (handleFeaturesCompress c st) := by
  unfold handleFeaturesCompress
  have h1 : Inv u ut (compressionOffer (delTimed (noteOffers c st) .missingFeaturesSasl) st) :=
    h.lateMono l (Mono_filterTimed (fun x => !decide (x.fn = TFun.missingFeaturesSasl)) (by simp) (by simp) (by simp) (by simp) (by simp) (by simp) (by simp) (by simp)
      (by simp)) (by simp) (by simp)
  have l1 : LateC (compressionOffer (delTimed (noteOffers c st) .missingFeaturesSasl) st) :=
    l.same (by simp) (by simp) (by simp) (by simp)
  have s1 : Safe (compressionOffer (delTimed (noteOffers c st) .missingFeaturesSasl) st) :=
    s.same (by simp) (by simp) (by simp) (by simp)
  simp only
  split
  · exact Inv_addHandler (Inv_sendRaw' h1 _ _ rfl) _ _ _ _ _ _ (by simp [isF]) (by simp [isT]) (by simp [isS])
      (fun _ => ⟨s1.same (by simp) (by simp) (by simp) (by simp), l1.same (by simp) (by simp) (by simp) (by simp)⟩)
      (by simp)
  · exact Inv_handleFeaturesSasl h1 l1 s1 st

theorem handleFeaturesCompress_frame (c : Conn) (st : XTree) : same_ctx[c, handleFeaturesCompress c st] := by
  unfold handleFeaturesCompress; simp only; split
  · simp
  · have := handleFeaturesSasl_frame (compressionOffer (delTimed (noteOffers c st) .missingFeaturesSasl) st) st
    simpa using this

/-! ### `_handle_sm` -/

theorem mem_smQueueCleanup {q : List (UInt32 × QElem)} {h : Nat} {e : UInt32 × QElem}
    (he : e ∈ smQueueCleanup q h) : e ∈ q := (List.dropWhile_sublist _).subset he

@[simp] theorem resetSmState_queue (s : SmState) : (resetSmState s).queue = s.queue := rfl
@[simp] theorem resetSmState_enabled (s : SmState) : (resetSmState s).enabled = s.enabled := rfl

def smOff (c : Conn) : Conn := { c with sm := { c.sm with enabled := false } }

def smEnabledBranch (c : Conn) (st : XTree) : Conn :=
  if !c.sm.enabled then smOff c else
  let c1 := { c with sm := { c.sm with handledNr := 0 } }
  match st.attr (b "resume") with
  | some _ =>
    match st.attr (b "id") with
    | none => { c1 with sm := { c1.sm with enabled := false } }
    | some id =>
      negotiationSuccess (smQueueResend { c1 with sm := { c1.sm with canResume := true, id := some id } })
  | none => negotiationSuccess (smQueueResend c1)

def smResumedBranch (c : Conn) (st : XTree) : Conn :=
  match c.sm.previd with
  | none => smOff c
  | some ours =>
    if st.attr (b "previd") ≠ some ours then smOff c
    else match getH st with
      | none => smOff c
      | some h =>
        let q := smQueueCleanup c.sm.queue h
        let sent : UInt32 := match q with
          | e :: _ => e.1
          | [] => UInt32.ofNat h
        negotiationSuccess (smQueueResend
          { c with sm := { c.sm with enabled := true, id := c.sm.previd, previd := none, boundJid := none, sentNr := sent, queue := q }, boundJid := c.sm.boundJid, g := { c.g with resumed := true } })

def smFailC2 (c1 : Conn) (st cause : XTree) : Conn :=
  let cn := cause.name?.getD []
  if cn = b "item-not-found" then
    if c1.sm.resume then
      { c1 with sm := { c1.sm with queue := smQueueCleanup c1.sm.queue ((getH st).getD 0) } }
    else c1
  else if cn = b "feature-not-implemented" then
    { c1 with sm := { c1.sm with resume := false, canResume := false, dontRequestResume := true } }
  else c1

def smFailedBranch (c : Conn) (st : XTree) : Conn :=
  match st.childByNs Gen.nsStanzasIetf with
  | none => smOff c
  | some cause =>
    let c2 := smFailC2 (smOff c) st cause
    let c3 := { c2 with sm := resetSmState c2.sm }
    if c2.sm.bind then doBind c3
    else if c.sm.resume then xmppDisconnect c3
    else if !c3.negotiated then negotiationSuccess c3
    else c3

theorem handleSm_eq (c : Conn) (st : XTree) : handleSm c st =
    if st.name?.getD [] = b "enabled" then smEnabledBranch c st
    else if st.name?.getD [] = b "resumed" then smResumedBranch c st
    else if st.name?.getD [] = b "failed" then smFailedBranch c st
    else smOff c := rfl

theorem Inv_smOff {u ut : Option Nat} {c : Conn} (h : Inv u ut c) : Inv u ut (smOff c) :=
  Inv_smUpdate h _ (fun _ he => he) (by simp)

@[simp] theorem smOff_frame (c : Conn) : same_ctx[c, smOff c] ∧ (smOff c).handlers = c.handlers ∧
    (smOff c).idHandlers = c.idHandlers := by simp [smOff]

theorem Inv_smEnabledBranch {u ut : Option Nat} {c : Conn} (h : Inv u ut c) (st : XTree) :
    Inv u ut (smEnabledBranch c st) := by
  unfold smEnabledBranch
  split
  · exact Inv_smOff h
  · simp only
    split
    · split
      · exact Inv_smUpdate h _ (fun _ he => he) (by simp)
      · exact Inv_negotiationSuccess (Inv_smQueueResend (Inv_smUpdate h _ (fun _ he => he) (fun e => .inl e)))
    · exact Inv_negotiationSuccess (Inv_smQueueResend (Inv_smUpdate h _ (fun _ he => he) (fun e => .inl e)))

theorem Inv_smGhost {u ut : Option Nat} {c : Conn} (h : Inv u ut c) (s' : SmState) (g' : Ghost) (bj : Option Bytes)
    (hq : ∀ e ∈ s'.queue, e ∈ c.sm.queue)
    (he : s'.enabled = true → c.sm.enabled = true ∨ (LateC c ∧ c.state ≠ .disconnected))
    (hg : g'.offeredMechs = c.g.offeredMechs) : Inv u ut { c with sm := s', boundJid := bj, g := g' } :=
  (Inv_smUpdate h s' hq he).same (by simp [SameAll, hg])

/-- some handler of the late phase is installed (e.g. the one that is running) -/
def LateH (c : Conn) : Prop :=
  (∃ h ∈ c.handlers, isLate h.fn = true) ∨ (∃ h ∈ c.idHandlers, isLate h.fn = true)

theorem LateH.late {c : Conn} (l : LateH c) : LateC c := by
  rcases l with l | l
  · exact .inl l
  · exact .inr (.inl l)

theorem LateH.same {c c' : Conn} (l : LateH c) (e1 : c'.handlers = c.handlers) (e2 : c'.idHandlers = c.idHandlers) :
    LateH c' := by
  unfold LateH; rw [e1, e2]; exact l

theorem LateH.safe {u : Option Nat} {c : Conn} (l : LateH c) (g : G u c) : Safe c := by
  rcases g.gated with ⟨n1, n2, _, _⟩ | s
  · rcases l with ⟨x, hx, hp⟩ | ⟨x, hx, hp⟩
    · have := n1 x hx; simp [gatedFn, hp] at this
    · have := n2 x hx; simp [gatedFn, hp] at this
  · exact s

theorem Inv_smResumedBranch {u ut : Option Nat} {c : Conn} (h : Inv u ut c) (l : LateC c)
    (hl : c.state ≠ .disconnected) (st : XTree) : Inv u ut (smResumedBranch c st) := by
  unfold smResumedBranch
  split
  · exact Inv_smOff h
  · split
    · exact Inv_smOff h
    · split
      · exact Inv_smOff h
      · exact Inv_negotiationSuccess (Inv_smQueueResend (Inv_smGhost h _ _ _ (fun e he => mem_smQueueCleanup he)
          (fun _ => .inr ⟨l, hl⟩) rfl))

theorem smFailC2_frame (c : Conn) (st cause : XTree) :
    same_cfg[c, smFailC2 c st cause] ∧ same_tls[c, smFailC2 c st cause] ∧ same_io[c, smFailC2 c st cause] ∧
    same_h[c, smFailC2 c st cause] ∧ same_neg[c, smFailC2 c st cause] ∧ same_p[c, smFailC2 c st cause] ∧
    same_t[c, smFailC2 c st cause] ∧ (smFailC2 c st cause).sm.enabled = c.sm.enabled ∧
    (∀ e ∈ (smFailC2 c st cause).sm.queue, e ∈ c.sm.queue) := by
  unfold smFailC2; simp only; repeat' split
  all_goals simp
  exact fun a b he => mem_smQueueCleanup he

theorem Inv_smFailC2 {u ut : Option Nat} {c : Conn} (h : Inv u ut c) (st cause : XTree) :
    Inv u ut (smFailC2 c st cause) := by
  unfold smFailC2; simp only; repeat' split
  · exact Inv_smUpdate h _ (fun e he => mem_smQueueCleanup he) (fun e => .inl e)
  · exact h
  · exact Inv_smUpdate h _ (fun _ he => he) (fun e => .inl e)
  · exact h

theorem Inv_smFailedBranch {u ut : Option Nat} {c : Conn} (h : Inv u ut c) (l : LateH c) (st : XTree) :
    Inv u ut (smFailedBranch c st) := by
  unfold smFailedBranch
  split
  · exact Inv_smOff h
  · rename_i cause _
    have fr := smFailC2_frame (smOff c) st cause
    have h2 := Inv_smFailC2 (Inv_smOff h) st cause
    have h3 : Inv u ut { smFailC2 (smOff c) st cause with sm := resetSmState (smFailC2 (smOff c) st cause).sm } :=
      Inv_smUpdate h2 _ (by simp) (fun e => .inl (by simpa using e))
    have l3 : LateH { smFailC2 (smOff c) st cause with sm := resetSmState (smFailC2 (smOff c) st cause).sm } :=
      l.same (by simp [fr.2.2.2.1.1]) (by simp [fr.2.2.2.1.2.1])
    have s3 := l3.safe h3.g
    simp only
    split
    · exact Inv_doBind h3 l3.late s3
    · split
      · exact Inv_xmppDisconnect h3
      · split
        · exact Inv_negotiationSuccess h3
        · exact h3

theorem Inv_handleSm {u ut : Option Nat} {c : Conn} (h : Inv u ut c) (l : LateH c)
    (hl : c.state ≠ .disconnected) (st : XTree) : Inv u ut (handleSm c st) := by
  rw [handleSm_eq]
  split
  · exact Inv_smEnabledBranch h st
  · split
    · exact Inv_smResumedBranch h l.late hl st
    · split
      · exact Inv_smFailedBranch h l st
      · exact Inv_smOff h

theorem handleSm_frame (c : Conn) (st : XTree) : same_ctx[c, handleSm c st] := by
  rw [handleSm_eq]
  unfold smEnabledBranch smResumedBranch smFailedBranch
  simp only
  repeat' split
  all_goals simp [(smFailC2_frame _ _ _).1, (smFailC2_frame _ _ _).2.1, (smFailC2_frame _ _ _).2.2.2.2.1,
    (smFailC2_frame _ _ _).2.2.2.2.2.1]

/-! ### bind, session, legacy, error -/

/-- the state `_handle_bind` continues with after a result -/
def bindC1 (c0 : Conn) (st : XTree) : Conn :=
  let bj := match st.childByName (b "bind") with
    | some bnd => match bnd.childByName (b "jid") with
      | some j => j.getText
      | none => none
    | none => none
  let c0 := { c0 with g := { c0.g with bound := true } }
  match st.childByName (b "bind") with
  | some bnd => if (bnd.childByName (b "jid")).isSome then { c0 with boundJid := bj } else c0
  | none => c0

theorem bindC1_same (c : Conn) (st : XTree) : SameAll c (bindC1 c st) := by
  unfold bindC1; simp only; repeat' split
  all_goals simp [SameAll]

theorem handleBind_eq (c : Conn) (st : XTree) : handleBind c st =
    match st.attr (b "type") with
    | some t =>
      if t = b "error" then xmppDisconnect (delTimed c .missingBind)
      else if t = b "result" then
        if (bindC1 (delTimed c .missingBind) st).sessionRequired then sessionStart (bindC1 (delTimed c .missingBind) st)
        else if (bindC1 (delTimed c .missingBind) st).sm.support && !(bindC1 (delTimed c .missingBind) st).smDisable
          then smEnable (bindC1 (delTimed c .missingBind) st)
        else negotiationSuccess (bindC1 (delTimed c .missingBind) st)
      else xmppDisconnect (delTimed c .missingBind)
    | none => xmppDisconnect (delTimed c .missingBind) := rfl

theorem Inv_handleBind {u ut : Option Nat} {c : Conn} (h : Inv u ut c) (l : LateH c)
    (hl : c.state ≠ .disconnected) (st : XTree) : Inv u ut (handleBind c st) := by
  rw [handleBind_eq]
  have h0 : Inv u ut (delTimed c .missingBind) := Inv_delTimed h _
  have sa := bindC1_same (delTimed c .missingBind) st
  have h1 : Inv u ut (bindC1 (delTimed c .missingBind) st) := h0.same sa
  have l1 : LateH (bindC1 (delTimed c .missingBind) st) := l.same (by simp [sa.1]) (by simp [sa.2.1])
  have s1 := l1.safe h1.g
  split
  · split
    · exact Inv_xmppDisconnect h0
    · split
      · split
        · exact Inv_sessionStart h1 l1.late s1
        · split
          · exact Inv_smEnable h1 l1.late s1 (by simpa [sa.2.2.2.2.2.1.1] using hl)
          · exact Inv_negotiationSuccess h1
      · exact Inv_xmppDisconnect h0
  · exact Inv_xmppDisconnect h0

theorem handleBind_frame (c : Conn) (st : XTree) : same_ctx[c, handleBind c st] := by
  rw [handleBind_eq]
  have sa := bindC1_same (delTimed c .missingBind) st
  obtain ⟨_, _, _, _, ⟨a1, _⟩, ⟨b1, b2, b3, _⟩, _, _, ⟨_, p2⟩, _, _, _⟩ := sa
  have ts : (bindC1 (delTimed c .missingBind) st).tlsSupport = c.tlsSupport := by
    unfold bindC1; simp only; repeat' split
    all_goals simp
  repeat' split
  all_goals simp [a1, b1, b2, b3, p2, ts]

theorem Inv_handleSession {u ut : Option Nat} {c : Conn} (h : Inv u ut c) (l : LateH c)
    (hl : c.state ≠ .disconnected) (st : XTree) : Inv u ut (handleSession c st) := by
  unfold handleSession
  have h0 : Inv u ut (delTimed c .missingSession) := Inv_delTimed h _
  have l0 : LateH (delTimed c .missingSession) := l.same (by simp) (by simp)
  have s0 := l0.safe h0.g
  simp only
  split
  · split
    · exact Inv_xmppDisconnect h0
    · split
      · split
        · exact Inv_smEnable h0 l0.late s0 (by simpa using hl)
        · exact Inv_negotiationSuccess h0
      · exact Inv_xmppDisconnect h0
  · exact Inv_xmppDisconnect h0

theorem handleSession_frame (c : Conn) (st : XTree) : same_ctx[c, handleSession c st] := by
  unfold handleSession; simp only; repeat' split
  all_goals simp

theorem Inv_handleLegacy {u ut : Option Nat} {c : Conn} (h : Inv u ut c) (st : XTree) :
    Inv u ut (handleLegacy c st) := by
  unfold handleLegacy
  have h0 : Inv u ut (delTimed c .missingLegacy) := Inv_delTimed h _
  simp only
  split
  · exact Inv_xmppDisconnect h0
  · split
    · exact Inv_xmppDisconnect h0
    · split
      · exact Inv_xmppDisconnect h0
      · split
        · exact Inv_negotiationSuccess (Inv_ghost_same h0 _ rfl)
        · exact Inv_xmppDisconnect h0

theorem handleLegacy_frame (c : Conn) (st : XTree) :
    same_ctx[c, handleLegacy c st] ∧ (handleLegacy c st).handlers = c.handlers ∧
    (handleLegacy c st).idHandlers = c.idHandlers := by
  unfold handleLegacy; simp only; repeat' split
  all_goals simp

theorem Inv_handleError {u ut : Option Nat} {c : Conn} (h : Inv u ut c) (st : XTree) : Inv u ut (handleError c st) :=
  h.same (by simp [SameAll, handleError])

theorem handleError_frame (c : Conn) (st : XTree) :
    same_ctx[c, handleError c st] ∧ (handleError c st).handlers = c.handlers ∧
    (handleError c st).idHandlers = c.idHandlers := by
  simp [handleError]

end Strophe.Lemmas.ConnC02
