/-
The C02 invariant is preserved by the stanza handlers, the dispatch loops, the event loop and the
API calls.
-/
import Strophe.Lemmas.ConnC02Inv

namespace Strophe.Lemmas.ConnC02
open Strophe Strophe.Conn

/-! ### `_handle_features` -/

@[simp] theorem noteOffers_frame (c : Conn) (st : XTree) :
    same_cfg[c, noteOffers c st] ∧ same_tls[c, noteOffers c st] ∧ same_io[c, noteOffers c st] ∧
    same_h[c, noteOffers c st] ∧ same_sm[c, noteOffers c st] ∧
    (noteOffers c st).tlsSupport = c.tlsSupport ∧ (noteOffers c st).saslSupport = c.saslSupport := by
  simp [noteOffers]

theorem H_noteOffers {u : Option Nat} {c : Conn} (h : H u c) (st : XTree) : H u (noteOffers c st) :=
  h.same (by simp [SameH])

/-- the STARTTLS part of `_handle_features` -/
def hfTls (c0 : Conn) (st : XTree) : Conn :=
  if !c0.secured then
    if !c0.tlsDisabled then
      if (st.childByNameNs (b "starttls") Gen.nsTls).isSome then { c0 with tlsSupport := true } else c0
    else { c0 with tlsSupport := false }
  else c0

/-- the `<mechanisms/>` part -/
def hfSasl (c1 : Conn) (st : XTree) : Conn :=
  match st.childByNameNs (b "mechanisms") Gen.nsSasl with
  | some m => (childTexts m (b "mechanism")).foldl saslChild c1
  | none => c1

/-- PLAIN is dropped when anything better is on offer -/
def hfMask (c2 : Conn) : Conn :=
  if c2.saslSupport &&& ((Gen.saslMaskPlain ||| Gen.saslMaskAnonymous) ^^^ 0xFFFF) ≠ 0
    then { c2 with saslSupport := c2.saslSupport &&& (Gen.saslMaskPlain ^^^ 0xFFFF) } else c2

theorem handleFeatures_eq (c : Conn) (st : XTree) : handleFeatures c st =
    authTop (hfMask (hfSasl (hfTls (delTimed (noteOffers c st) .missingFeatures) st) st)) := rfl

@[simp] theorem hfTls_frame (c : Conn) (st : XTree) :
    same_cfg[c, hfTls c st] ∧ same_tls[c, hfTls c st] ∧ same_io[c, hfTls c st] ∧
    same_h[c, hfTls c st] ∧ same_sm[c, hfTls c st] ∧
    (hfTls c st).g = c.g ∧ (hfTls c st).saslSupport = c.saslSupport := by
  unfold hfTls; repeat' split
  all_goals simp

theorem hfTls_sup {c : Conn} {st : XTree} (h0 : c.tlsSupport = false) (h : (hfTls c st).tlsSupport = true) :
    c.secured = false ∧ c.tlsDisabled = false := by
  unfold hfTls at h
  repeat' split at h
  all_goals simp_all

@[simp] theorem saslChild_frame (c : Conn) (t : Bytes) :
    same_cfg[c, saslChild c t] ∧ same_tls[c, saslChild c t] ∧ same_io[c, saslChild c t] ∧
    same_h[c, saslChild c t] ∧ same_sm[c, saslChild c t] ∧
    (saslChild c t).g = c.g ∧ (saslChild c t).tlsSupport = c.tlsSupport := by
  unfold saslChild; repeat' split
  all_goals simp

theorem saslChild_fold_frame (b : Conn) (l : List Bytes) (c : Conn)
    (hb : same_cfg[b, c] ∧ same_tls[b, c] ∧ same_io[b, c] ∧ same_h[b, c] ∧ same_sm[b, c] ∧ c.g = b.g ∧
      c.tlsSupport = b.tlsSupport) :
    let d := l.foldl saslChild c
    same_cfg[b, d] ∧ same_tls[b, d] ∧ same_io[b, d] ∧ same_h[b, d] ∧ same_sm[b, d] ∧ d.g = b.g ∧
      d.tlsSupport = b.tlsSupport := by
  induction l generalizing c with
  | nil => simpa using hb
  | cons e l ih =>
    simp only [List.foldl_cons]
    exact ih (saslChild c e) (by simpa using hb)

@[simp] theorem hfSasl_frame (c : Conn) (st : XTree) :
    same_cfg[c, hfSasl c st] ∧ same_tls[c, hfSasl c st] ∧ same_io[c, hfSasl c st] ∧
    same_h[c, hfSasl c st] ∧ same_sm[c, hfSasl c st] ∧
    (hfSasl c st).g = c.g ∧ (hfSasl c st).tlsSupport = c.tlsSupport := by
  unfold hfSasl; split
  · exact saslChild_fold_frame c _ c (by simp)
  · simp

@[simp] theorem hfMask_frame (c : Conn) :
    same_cfg[c, hfMask c] ∧ same_tls[c, hfMask c] ∧ same_io[c, hfMask c] ∧
    same_h[c, hfMask c] ∧ same_sm[c, hfMask c] ∧
    (hfMask c).g = c.g ∧ (hfMask c).tlsSupport = c.tlsSupport := by
  unfold hfMask; split <;> simp

theorem H_handleFeatures {u : Option Nat} {c : Conn} (h : H u c) (hs : c.tlsSupport = false) (st : XTree) :
    H u (handleFeatures c st) := by
  rw [handleFeatures_eq]
  refine H_auth 3 _ (h.same (by simp [SameH])) ?_
  intro ht
  simp only [hfMask_frame, hfSasl_frame] at ht
  have := hfTls_sup (c := delTimed (noteOffers c st) .missingFeatures) (st := st) (by simpa using hs) ht
  simpa using this

theorem handleFeatures_sup (c : Conn) (st : XTree) : (handleFeatures c st).tlsSupport = false := by
  rw [handleFeatures_eq]; exact auth_sup 2 _

/-! ### `_handle_features_sasl`, `_handle_features_compress` -/

/-- the bookkeeping part of `_handle_features_sasl` -/
def hfsPrep (c : Conn) (st : XTree) : Conn :=
  let c := noteOffers c st
  let c0 := delTimed c .missingFeaturesSasl
  let hasBind := (st.childByNameNs (b "bind") Gen.nsBind).isSome
  let c1 := { c0 with bindRequired := hasBind }
  let c2 := match st.childByNameNs (b "session") Gen.nsSession with
    | some s => { c1 with sessionRequired := (s.childByName (b "optional")).isNone }
    | none => c1
  if (st.childByNameNs (b "sm") Gen.nsSm).isSome
    then { c2 with sm := { c2.sm with support := true } } else c2

@[simp] theorem hfsPrep_frame (c : Conn) (st : XTree) :
    same_cfg[c, hfsPrep c st] ∧ same_tls[c, hfsPrep c st] ∧ same_io[c, hfsPrep c st] ∧
    same_h[c, hfsPrep c st] ∧ same_sm[c, hfsPrep c st] ∧
    (hfsPrep c st).tlsSupport = c.tlsSupport ∧ (hfsPrep c st).saslSupport = c.saslSupport := by
  unfold hfsPrep; repeat' split
  all_goals simp

theorem handleFeaturesSasl_eq (c : Conn) (st : XTree) : handleFeaturesSasl c st =
    let c3 := hfsPrep c st
    if !c3.smDisable && c3.sm.support && c3.sm.canResume && c3.sm.previd.isSome && c3.sm.boundJid.isSome then
      let c4 := { c3 with sm := { c3.sm with bind := (st.childByNameNs (b "bind") Gen.nsBind).isSome, resume := true } }
      addHandler (sendStanza c4 (.resume (c4.sm.previd.getD []) c4.sm.handledNr) .smStrophe)
        (.sys .sm) 0 (some Gen.nsSm) none none false
    else if c3.bindRequired then doBind c3
    else xmppDisconnect c3 := rfl

theorem H_handleFeaturesSasl {u : Option Nat} {c : Conn} (h : H u c) (s : Safe c) (st : XTree) :
    H u (handleFeaturesSasl c st) := by
  rw [handleFeaturesSasl_eq]
  have h3 : H u (hfsPrep c st) := h.same (by simp [SameH])
  have s3 : Safe (hfsPrep c st) := s.same (by simp) (by simp) (by simp) (by simp)
  simp only
  split
  · refine H_addHandler (H_sendStanza (h3.same (by simp [SameH])) _ _ (by simp [Item.authBearing])
      (by simp [ElemOk])) _ _ _ _ _ _ (by simp [hT]) (fun _ => ?_) (by simp)
    exact s3.same (by simp) (by simp) (by simp) (by simp)
  · split
    · exact H_doBind h3 s3
    · exact H_xmppDisconnect h3

theorem handleFeaturesSasl_sup (c : Conn) (st : XTree) :
    (handleFeaturesSasl c st).tlsSupport = c.tlsSupport := by
  rw [handleFeaturesSasl_eq]; simp only; repeat' split
  all_goals simp

@[simp] theorem compressionOffer_frame (c : Conn) (st : XTree) :
    same_cfg[c, compressionOffer c st] ∧ same_tls[c, compressionOffer c st] ∧ same_io[c, compressionOffer c st] ∧
    same_h[c, compressionOffer c st] ∧ same_sm[c, compressionOffer c st] ∧
    (compressionOffer c st).tlsSupport = c.tlsSupport ∧ (compressionOffer c st).saslSupport = c.saslSupport := by
  unfold compressionOffer; repeat' split
  all_goals simp

theorem H_handleFeaturesCompress {u : Option Nat} {c : Conn} (h : H u c) (s : Safe c) (st : XTree) :
    H u (handleFeaturesCompress c st) := by
  unfold handleFeaturesCompress
  have h1 : H u (compressionOffer (delTimed (noteOffers c st) .missingFeatures) st) := h.same (by simp [SameH])
  have s1 : Safe (compressionOffer (delTimed (noteOffers c st) .missingFeatures) st) :=
    s.same (by simp) (by simp) (by simp) (by simp)
  simp only
  split
  · exact H_addHandler (H_sendRaw h1 _ _ (by simp [Item.authBearing]) (by simp [ElemOk])) _ _ _ _ _ _
      (by simp [hT]) (fun _ => s1.same (by simp) (by simp) (by simp) (by simp)) (by simp)
  · exact H_handleFeaturesSasl h1 s1 st

theorem handleFeaturesCompress_sup (c : Conn) (st : XTree) :
    (handleFeaturesCompress c st).tlsSupport = c.tlsSupport := by
  unfold handleFeaturesCompress; simp only; split
  · simp
  · rw [handleFeaturesSasl_sup]; simp

/-! ### `_handle_sasl_result` -/

theorem H_handleSaslResult {u : Option Nat} {c : Conn} (h : H u c) (s : Safe c) (hs : c.tlsSupport = false)
    (st : XTree) : H u (handleSaslResult c st) := by
  unfold handleSaslResult
  simp only
  split
  · exact H_auth 3 c h (by simp [hs])
  · split
    · refine H_connOpenStream (H_prepareReset (h.same (by simp [SameH])) _ (fun _ => ?_))
      exact s.same rfl rfl rfl rfl
    · exact H_xmppDisconnect h

theorem handleSaslResult_sup {c : Conn} (hs : c.tlsSupport = false) (st : XTree) :
    (handleSaslResult c st).tlsSupport = false := by
  unfold handleSaslResult
  simp only
  split
  · exact auth_sup 2 c
  · split <;> simp [hs]

/-! ### `_handle_sm` -/

theorem mem_smQueueCleanup {q : List (UInt32 × QElem)} {h : Nat} {e : UInt32 × QElem}
    (he : e ∈ smQueueCleanup q h) : e ∈ q := (List.dropWhile_sublist _).subset he

@[simp] theorem resetSmState_queue (s : SmState) : (resetSmState s).queue = s.queue := rfl
@[simp] theorem resetSmState_enabled (s : SmState) : (resetSmState s).enabled = s.enabled := rfl

def smOff (c : Conn) : Conn := { c with sm := { c.sm with enabled := false } }

def smEnabledBranch (c : Conn) (st : XTree) : Conn :=
  if !c.sm.enabled then smOff c else
  let c1 := { c with sm := { c.sm with handledNr := 0 } }
  match st.attr (b "resume") with
  | some _ =>
    match st.attr (b "id") with
    | none => { c1 with sm := { c1.sm with enabled := false } }
    | some id =>
      negotiationSuccess (smQueueResend { c1 with sm := { c1.sm with canResume := true, id := some id } })
  | none => negotiationSuccess (smQueueResend c1)

def smResumedBranch (c : Conn) (st : XTree) : Conn :=
  match c.sm.previd with
  | none => smOff c
  | some ours =>
    if st.attr (b "previd") ≠ some ours then smOff c
    else match getH st with
      | none => smOff c
      | some h =>
        let q := smQueueCleanup c.sm.queue h
        let sent : UInt32 := match q with
          | e :: _ => e.1
          | [] => UInt32.ofNat h
        negotiationSuccess (smQueueResend
          { c with sm := { c.sm with enabled := true, id := c.sm.previd, previd := none, boundJid := none, sentNr := sent, queue := q }, boundJid := c.sm.boundJid, g := { c.g with resumed := true } })

def smFailC2 (c1 : Conn) (st cause : XTree) : Conn :=
  let cn := cause.name?.getD []
  if cn = b "item-not-found" then
    if c1.sm.resume then
      { c1 with sm := { c1.sm with queue := smQueueCleanup c1.sm.queue ((getH st).getD 0) } }
    else c1
  else if cn = b "feature-not-implemented" then
    { c1 with sm := { c1.sm with resume := false, canResume := false, dontRequestResume := true } }
  else c1

def smFailedBranch (c : Conn) (st : XTree) : Conn :=
  match st.childByNs Gen.nsStanzasIetf with
  | none => smOff c
  | some cause =>
    let c2 := smFailC2 (smOff c) st cause
    let c3 := { c2 with sm := resetSmState c2.sm }
    if c2.sm.bind then doBind c3
    else if c.sm.resume then xmppDisconnect c3
    else if !c3.negotiated then negotiationSuccess c3
    else c3

theorem handleSm_eq (c : Conn) (st : XTree) : handleSm c st =
    if st.name?.getD [] = b "enabled" then smEnabledBranch c st
    else if st.name?.getD [] = b "resumed" then smResumedBranch c st
    else if st.name?.getD [] = b "failed" then smFailedBranch c st
    else smOff c := rfl

@[simp] theorem smOff_frame (c : Conn) :
    same_cfg[c, smOff c] ∧ same_tls[c, smOff c] ∧ same_io[c, smOff c] ∧ same_h[c, smOff c] ∧
    same_neg[c, smOff c] ∧ (smOff c).sm.queue = c.sm.queue := by
  simp [smOff]

theorem smFailC2_frame (c : Conn) (st cause : XTree) :
    same_cfg[c, smFailC2 c st cause] ∧ same_tls[c, smFailC2 c st cause] ∧ same_io[c, smFailC2 c st cause] ∧
    same_h[c, smFailC2 c st cause] ∧ same_neg[c, smFailC2 c st cause] ∧
    (∀ e ∈ (smFailC2 c st cause).sm.queue, e ∈ c.sm.queue) := by
  unfold smFailC2; simp only; repeat' split
  all_goals simp
  exact fun a b he => mem_smQueueCleanup he

theorem H_smEnabledBranch {u : Option Nat} {c : Conn} (h : H u c) (s : Safe c) (st : XTree) :
    H u (smEnabledBranch c st) := by
  unfold smEnabledBranch
  split
  · exact h.same (by simp [SameH])
  · rename_i he
    simp only
    split
    · split
      · exact h.same (by simp [SameH])
      · exact H_negotiationSuccess (H_smQueueResend (h.same (by simp [SameH])) (s.gateC.same rfl rfl rfl rfl)
          (by simpa using he))
    · exact H_negotiationSuccess (H_smQueueResend (h.same (by simp [SameH])) (s.gateC.same rfl rfl rfl rfl)
          (by simpa using he))

theorem H_smResumedBranch {u : Option Nat} {c : Conn} (h : H u c) (s : Safe c) (st : XTree) :
    H u (smResumedBranch c st) := by
  unfold smResumedBranch
  split
  · exact h.same (by simp [SameH])
  · split
    · exact h.same (by simp [SameH])
    · split
      · exact h.same (by simp [SameH])
      · refine H_negotiationSuccess (H_smQueueResend (h.same ?_) (s.gateC.same rfl rfl rfl rfl) rfl)
        simp only [SameH, true_and, and_true]
        exact fun e he => mem_smQueueCleanup he

theorem H_smFailedBranch {u : Option Nat} {c : Conn} (h : H u c) (s : Safe c) (st : XTree) :
    H u (smFailedBranch c st) := by
  unfold smFailedBranch
  split
  · exact h.same (by simp [SameH])
  · rename_i cause _
    have fr := smFailC2_frame (smOff c) st cause
    simp only [smOff_frame] at fr
    obtain ⟨⟨f1, f2, f3, f4, f5⟩, ⟨g1, g2, g3, g4⟩, ⟨i1, i2⟩, ⟨j1, j2, j3⟩, ⟨k1, k2, k3⟩, q⟩ := fr
    have h3 : H u { smFailC2 (smOff c) st cause with sm := resetSmState (smFailC2 (smOff c) st cause).sm } :=
      h.same ⟨g1, f1, g2, g3, i2, i1, by simpa using q, j1, j2, j3⟩
    have s3 : Safe { smFailC2 (smOff c) st cause with sm := resetSmState (smFailC2 (smOff c) st cause).sm } :=
      s.same g1 f1 g2 g3
    simp only
    split
    · exact H_doBind h3 s3
    · split
      · exact H_xmppDisconnect h3
      · split
        · exact H_negotiationSuccess h3
        · exact h3

theorem H_handleSm {u : Option Nat} {c : Conn} (h : H u c) (s : Safe c) (st : XTree) :
    H u (handleSm c st) := by
  rw [handleSm_eq]
  split
  · exact H_smEnabledBranch h s st
  · split
    · exact H_smResumedBranch h s st
    · split
      · exact H_smFailedBranch h s st
      · exact h.same (by simp [SameH])

theorem handleSm_sup (c : Conn) (st : XTree) : (handleSm c st).tlsSupport = c.tlsSupport := by
  rw [handleSm_eq]
  unfold smEnabledBranch smResumedBranch smFailedBranch
  simp only
  repeat' split
  all_goals simp [(smFailC2_frame _ _ _).2.2.2.2.1]

/-! ### bind, session, legacy, error -/

/-- the state `_handle_bind` continues with after a result -/
def bindC1 (c0 : Conn) (st : XTree) : Conn :=
  let bj := match st.childByName (b "bind") with
    | some bnd => match bnd.childByName (b "jid") with
      | some j => j.getText
      | none => none
    | none => none
  let c0 := { c0 with g := { c0.g with bound := true } }
  match st.childByName (b "bind") with
  | some bnd => if (bnd.childByName (b "jid")).isSome then { c0 with boundJid := bj } else c0
  | none => c0

@[simp] theorem bindC1_frame (c : Conn) (st : XTree) :
    same_cfg[c, bindC1 c st] ∧ same_tls[c, bindC1 c st] ∧ same_io[c, bindC1 c st] ∧
    same_h[c, bindC1 c st] ∧ same_sm[c, bindC1 c st] ∧ same_neg[c, bindC1 c st] := by
  unfold bindC1; simp only; repeat' split
  all_goals simp

theorem handleBind_eq (c : Conn) (st : XTree) : handleBind c st =
    let c0 := delTimed c .missingBind
    match st.attr (b "type") with
    | some t =>
      if t = b "error" then xmppDisconnect c0
      else if t = b "result" then
        let c1 := bindC1 c0 st
        if c1.sessionRequired then sessionStart c1
        else if c1.sm.support && !c1.smDisable then smEnable c1
        else negotiationSuccess c1
      else xmppDisconnect c0
    | none => xmppDisconnect c0 := rfl

theorem H_handleBind {u : Option Nat} {c : Conn} (h : H u c) (s : Safe c) (st : XTree) :
    H u (handleBind c st) := by
  rw [handleBind_eq]
  have h0 : H u (delTimed c .missingBind) := H_delTimed h _
  have h1 : H u (bindC1 (delTimed c .missingBind) st) := h.same (by simp [SameH])
  have s1 : Safe (bindC1 (delTimed c .missingBind) st) := s.same (by simp) (by simp) (by simp) (by simp)
  simp only
  split
  · split
    · exact H_xmppDisconnect h0
    · split
      · split
        · exact H_sessionStart h1 s1
        · split
          · exact H_smEnable h1 s1
          · exact H_negotiationSuccess h1
      · exact H_xmppDisconnect h0
  · exact H_xmppDisconnect h0

theorem handleBind_sup (c : Conn) (st : XTree) : (handleBind c st).tlsSupport = c.tlsSupport := by
  rw [handleBind_eq]; simp only; repeat' split
  all_goals simp

theorem H_handleSession {u : Option Nat} {c : Conn} (h : H u c) (s : Safe c) (st : XTree) :
    H u (handleSession c st) := by
  unfold handleSession
  have h0 : H u (delTimed c .missingSession) := H_delTimed h _
  have s0 : Safe (delTimed c .missingSession) := s.same (by simp) (by simp) (by simp) (by simp)
  simp only
  split
  · split
    · exact H_xmppDisconnect h0
    · split
      · split
        · exact H_smEnable h0 s0
        · exact H_negotiationSuccess h0
      · exact H_xmppDisconnect h0
  · exact H_xmppDisconnect h0

theorem handleSession_sup (c : Conn) (st : XTree) : (handleSession c st).tlsSupport = c.tlsSupport := by
  unfold handleSession; simp only; repeat' split
  all_goals simp

theorem H_handleLegacy {u : Option Nat} {c : Conn} (h : H u c) (st : XTree) :
    H u (handleLegacy c st) := by
  unfold handleLegacy
  have h0 : H u (delTimed c .missingLegacy) := H_delTimed h _
  simp only
  split
  · exact H_xmppDisconnect h0
  · split
    · exact H_xmppDisconnect h0
    · split
      · exact H_xmppDisconnect h0
      · split
        · exact H_negotiationSuccess (h0.same (by simp [SameH]))
        · exact H_xmppDisconnect h0

theorem handleLegacy_sup (c : Conn) (st : XTree) : (handleLegacy c st).tlsSupport = c.tlsSupport := by
  unfold handleLegacy; simp only; repeat' split
  all_goals simp

theorem H_handleError {u : Option Nat} {c : Conn} (h : H u c) (st : XTree) : H u (handleError c st) :=
  h.same (by simp [SameH, handleError])

theorem handleError_sup (c : Conn) (st : XTree) : (handleError c st).tlsSupport = c.tlsSupport := by
  simp [handleError]

end Strophe.Lemmas.ConnC02
