/-
C05: what `<a/>` and `<resume/>` report.  Every queued, retained and written element whose item is
`.ack h` / `.resume _ h` carries the counter of its own snapshot (`Tx`), preserved by every function
reachable from `step` when the application only submits user items.
-/
import Strophe.Lemmas.ConnC13Tac

namespace Strophe.Lemmas.ConnC05
open Strophe Strophe.Conn Strophe.Lemmas.ConnC13

/-- the `h` an element reports is the counter of its snapshot -/
def good (it : Item) (s : Snap) : Prop :=
  match it with
  | .ack h => h = s.handledNr
  | .resume _ h => h = s.handledNr
  | _ => True

theorem good_user {it : Item} (h : it.isUserItem = true) (s : Snap) : good it s := by
  cases it <;> simp_all [Item.isUserItem, good]

structure TxV (q : List QElem) (sq : List (UInt32 × QElem)) (tx : List TxRec) : Prop where
  q : ∀ e ∈ q, good e.item e.snap
  sq : ∀ e ∈ sq, good e.2.item e.2.snap
  tx : ∀ r ∈ tx, good r.item r.snap

def Tx (c : Conn) : Prop := TxV c.queue c.sm.queue c.tx

variable {c : Conn}

theorem Tx_triggerSmCallback (h : Tx c) : Tx (triggerSmCallback c) := h
theorem Tx_prepareReset {o} (h : Tx c) : Tx (prepareReset c o) := h
theorem Tx_notify {e} (h : Tx c) : Tx (notify c e) := by cauto notify
theorem Tx_addHandler {fn ud ns name type user} (h : Tx c) : Tx (addHandler c fn ud ns name type user) := by
  cauto addHandler
theorem Tx_addIdHandler {fn id user} (h : Tx c) : Tx (addIdHandler c fn id user) := by cauto addIdHandler
theorem Tx_addTimed {fn period user} (h : Tx c) : Tx (addTimed c fn period user) := by cauto addTimed
theorem Tx_delTimed {fn} (h : Tx c) : Tx (delTimed c fn) := by cauto delTimed
theorem Tx_resetTimed (h : Tx c) : Tx (resetTimed c) := by cauto resetTimed
theorem Tx_systemDeleteAll (h : Tx c) : Tx (systemDeleteAll c) := by cauto systemDeleteAll
theorem Tx_resetSmForReconnect (h : Tx c) : Tx (resetSmForReconnect c) := by
  unfold resetSmForReconnect; dsimp only; split <;> exact h
theorem Tx_connDisconnect (h : Tx c) : Tx (connDisconnect c) := by cauto connDisconnect

theorem good_append {q : List QElem} {e : QElem} (hq : ∀ x ∈ q, good x.item x.snap)
    (he : good e.item e.snap) : ∀ x ∈ q ++ [e], good x.item x.snap := by
  intro x hx
  rcases List.mem_append.1 hx with hx | hx
  · exact hq x hx
  · simp only [List.mem_singleton] at hx; subst hx; exact he

theorem Tx_pushRawWith {it o sn} (h : Tx c) (hg : good it sn) : Tx (pushRawWith c it o sn) := by
  unfold pushRawWith triggerSmCallback; dsimp only
  repeat' split
  all_goals
    unfold Tx
    refine ⟨?_, h.sq, h.tx⟩
    first
      | exact good_append (good_append h.q hg) True.intro
      | exact good_append h.q hg

theorem Tx_pushRaw {it o} (h : Tx c) (hg : good it (curSnap c)) : Tx (pushRaw c it o) :=
  Tx_pushRawWith h hg
theorem Tx_sendStanza {it o} (h : Tx c) (hg : good it (curSnap c)) : Tx (sendStanza c it o) := by
  unfold sendStanza; split
  · exact Tx_pushRaw h hg
  · exact h
theorem Tx_sendRaw {it o} (h : Tx c) (hg : good it (curSnap c)) : Tx (sendRaw c it o) := by
  unfold sendRaw; split
  · exact Tx_pushRaw h hg
  · exact h
theorem Tx_sendRawString {it} (h : Tx c) (hg : good it (curSnap c)) : Tx (sendRawString c it) := by
  unfold sendRawString; split
  · exact Tx_pushRaw h hg
  · exact h

/-- closes the side goals `good it (curSnap _)` left by the traversal -/
macro "txside" : tactic => `(tactic| all_goals first | exact True.intro | exact rfl | skip)

theorem Tx_xmppDisconnect (h : Tx c) : Tx (xmppDisconnect c) := by
  unfold xmppDisconnect; ctrav; txside
theorem Tx_connTlsStart (h : Tx c) : Tx (connTlsStart c).1 := by
  unfold connTlsStart; ctrav
theorem Tx_connOpenStream (h : Tx c) : Tx (connOpenStream c) := by
  unfold connOpenStream; ctrav; txside
theorem Tx_negotiationSuccess (h : Tx c) : Tx (negotiationSuccess c) := by
  unfold negotiationSuccess; dsimp only; ctrav; txside
theorem Tx_authLegacyStep (h : Tx c) : Tx (authLegacyStep c) := by
  unfold authLegacyStep; ctrav; txside

theorem Tx_auth (n : Nat) : ∀ {c}, Tx c → Tx (auth c n) := by
  induction n with
  | zero => intro c h; exact h
  | succ n ih =>
    intro c h
    rw [auth]
    dsimp only
    ctrav
    all_goals first | (apply ih; ctrav) | exact True.intro | skip

theorem Tx_authTop (h : Tx c) : Tx (authTop c) := by cauto authTop
theorem Tx_saslChild {t} (h : Tx c) : Tx (saslChild c t) := by cauto saslChild
theorem Tx_noteOffers {st} (h : Tx c) : Tx (noteOffers c st) := h
theorem Tx_handleFeatures {st} (h : Tx c) : Tx (handleFeatures c st) := by cauto handleFeatures
theorem Tx_doBind (h : Tx c) : Tx (doBind c) := by
  unfold doBind; dsimp only; ctrav; txside
theorem Tx_smEnable (h : Tx c) : Tx (smEnable c) := by
  unfold smEnable; dsimp only; ctrav; txside
theorem Tx_sessionStart (h : Tx c) : Tx (sessionStart c) := by
  unfold sessionStart; dsimp only; ctrav; txside
theorem Tx_handleFeaturesSasl {st} (h : Tx c) : Tx (handleFeaturesSasl c st) := by
  unfold handleFeaturesSasl; dsimp only; ctrav; txside
theorem Tx_compressionOffer {st} (h : Tx c) : Tx (compressionOffer c st) := by cauto compressionOffer
theorem Tx_handleFeaturesCompress {st} (h : Tx c) : Tx (handleFeaturesCompress c st) := by
  unfold handleFeaturesCompress; dsimp only; ctrav; txside
theorem Tx_handleSaslResult {st} (h : Tx c) : Tx (handleSaslResult c st) := by cauto handleSaslResult

theorem Tx_smQueueResend (h : Tx c) : Tx (smQueueResend c) := by
  unfold smQueueResend
  dsimp only
  have key : ∀ (l : List (UInt32 × QElem)) (x : Conn), Tx x → (∀ e ∈ l, good e.2.item e.2.snap) →
      Tx (l.foldl (fun c e => if c.state = .connected then pushRawWith c e.2.item e.2.owner e.2.snap else c) x) := by
    intro l
    induction l with
    | nil => intro x hx _; exact hx
    | cons e l ih =>
      intro x hx hl
      refine ih _ ?_ (fun e' he' => hl e' (List.mem_cons_of_mem _ he'))
      dsimp only
      split
      · exact Tx_pushRawWith hx (hl e (List.mem_cons_self))
      · exact hx
  exact key _ _ ⟨h.q, (fun _ a => nomatch a), h.tx⟩ h.sq

theorem dropWhile_mem {α} {p : α → Bool} {l : List α} {x : α} (h : x ∈ l.dropWhile p) : x ∈ l :=
  (List.dropWhile_sublist p).subset h

theorem Tx_rec1 {p : UInt32 × QElem → Bool} (h : Tx c) :
    Tx { c with sm := { c.sm with queue := c.sm.queue.dropWhile p } } :=
  ⟨h.q, fun e he => h.sq e (dropWhile_mem he), h.tx⟩
theorem Tx_rec2 {p : UInt32 × QElem → Bool} {b : Bool} (h : Tx c) :
    Tx { c with sm := { c.sm with queue := c.sm.queue.dropWhile p, rSent := b } } :=
  ⟨h.q, fun e he => h.sq e (dropWhile_mem he), h.tx⟩

theorem Tx_resetSm (h : Tx c) : Tx { c with sm := resetSmState c.sm } := h

theorem Tx_handleSm {st} (h : Tx c) : Tx (handleSm c st) := by
  unfold handleSm smQueueCleanup; dsimp only; ctrav
theorem Tx_handleBind {st} (h : Tx c) : Tx (handleBind c st) := by cauto handleBind
theorem Tx_handleSession {st} (h : Tx c) : Tx (handleSession c st) := by cauto handleSession
theorem Tx_handleLegacy {st} (h : Tx c) : Tx (handleLegacy c st) := by cauto handleLegacy
theorem Tx_handleError {st} (h : Tx c) : Tx (handleError c st) := by cauto handleError
theorem Tx_runSys {k st} (h : Tx c) : Tx (runSys c k st).1 := by
  unfold runSys; ctrav; txside
theorem Tx_runHandler {k st} (h : Tx c) : Tx (runHandler c k st).1 := by
  unfold runHandler; ctrav
theorem Tx_fireOne {st uid} (h : Tx c) : Tx (fireOne st c uid) := by
  unfold fireOne; ctrav
theorem Tx_fireIdOne {st uid} (h : Tx c) : Tx (fireIdOne st c uid) := by cauto fireIdOne
theorem Tx_fireStanza {st} (h : Tx c) : Tx (fireStanza c st) := by cauto fireStanza
theorem Tx_smElement {st} (h : Tx c) : Tx (smHandleStanza.smElement c st) := by
  unfold smHandleStanza.smElement; ctrav; txside
theorem Tx_smHandleStanza {st} (h : Tx c) : Tx (smHandleStanza c st) := by cauto smHandleStanza
theorem Tx_handleStreamStanza {st} (h : Tx c) : Tx (handleStreamStanza c st) := by cauto handleStreamStanza
theorem Tx_componentOpen (h : Tx c) : Tx (componentOpen c) := by
  unfold componentOpen; dsimp only; ctrav; txside
theorem Tx_runOpenHandler (h : Tx c) : Tx (runOpenHandler c) := by cauto runOpenHandler
theorem Tx_handleStreamStart {n id} (h : Tx c) : Tx (handleStreamStart c n id) := by cauto handleStreamStart
theorem Tx_handleStreamEnd (h : Tx c) : Tx (handleStreamEnd c) := by cauto handleStreamEnd
theorem Tx_parserEvent {e} (h : Tx c) : Tx (parserEvent c e) := by
  unfold parserEvent; ctrav; txside
theorem Tx_runTimed {f} (h : Tx c) : Tx (runTimed c f).1 := by cauto runTimed
theorem Tx_fireTimedOne {uid} (h : Tx c) : Tx (fireTimedOne c uid) := by cauto fireTimedOne
theorem Tx_fireTimed (h : Tx c) : Tx (fireTimed c) := by cauto fireTimed

theorem Tx_retire {e : QElem} (h : Tx c) (he : good e.item e.snap) : Tx (retire c e) := by
  unfold retire triggerSmCallback; dsimp only
  split
  all_goals
    unfold Tx
    refine ⟨h.q, ?_, ?_⟩
  · intro x hx
    rcases List.mem_append.1 hx with hx | hx
    · exact h.sq x hx
    · simp only [List.mem_singleton] at hx; subst hx; exact he
  · intro x hx
    rcases List.mem_append.1 hx with hx | hx
    · exact h.tx x hx
    · simp only [List.mem_singleton] at hx; subst hx; exact he
  · exact h.sq
  · intro x hx
    rcases List.mem_append.1 hx with hx | hx
    · exact h.tx x hx
    · simp only [List.mem_singleton] at hx; subst hx; exact he

/-- `Tx` of the state does not depend on `queue` once the elements to write are known good -/
theorem Tx_setQueue {q : List QElem} {s : List Accept} (h : Tx c) (hq : ∀ e ∈ q, good e.item e.snap) :
    Tx { c with queue := q, sched := s } := ⟨hq, h.sq, h.tx⟩

theorem Tx_writeElems (l : List QElem) : ∀ {c}, Tx c → (∀ e ∈ l, good e.item e.snap) → Tx (writeElems c l) := by
  induction l with
  | nil => intro c h _; exact ⟨(fun _ a => nomatch a), h.sq, h.tx⟩
  | cons e q ih =>
    intro c h hl
    have he := hl e List.mem_cons_self
    have hq : ∀ x ∈ q, good x.item x.snap := fun x hx => hl x (List.mem_cons_of_mem _ hx)
    have hwip : ∀ x ∈ ({ e with wip := true } : QElem) :: q, good x.item x.snap := by
      intro x hx
      rcases List.mem_cons.1 hx with hx | hx
      · subst hx; exact he
      · exact hq x hx
    unfold writeElems
    dsimp only
    repeat' split
    all_goals first
      | exact ih (Tx_retire (Tx_setQueue h hq) he) hq
      | exact ⟨hwip, h.sq, h.tx⟩

theorem Tx_writeLoop (h : Tx c) : Tx (writeLoop c) := Tx_writeElems _ h h.q

theorem Tx_connEstablished (h : Tx c) : Tx (connEstablished c) := by cauto connEstablished
theorem Tx_rec3 {e : Int} (h : Tx c) : Tx { c with error := e } := h
theorem Tx_runOnce {rx} (h : Tx c) : Tx (runOnce c rx) := by
  unfold runOnce; ctrav
theorem Tx_connReset (h : Tx c) : Tx (connReset c) := by
  unfold connReset systemDeleteAll
  split
  · exact h
  · exact ⟨(fun _ a => nomatch a), h.sq, h.tx⟩
theorem Tx_setFlags {f} (h : Tx c) : Tx (setFlags c f).1 := by cauto setFlags
theorem Tx_connConnect {d t} (h : Tx c) : Tx (connConnect c d t).1 := by
  unfold connConnect; dsimp only; ctrav
theorem Tx_rec4 (h : Tx c) : Tx { c with hasSm := true, sm := {} } :=
  ⟨h.q, (fun _ a => nomatch a), h.tx⟩
theorem Tx_connectClient (h : Tx c) : Tx (connectClient c).1 := by
  unfold connectClient; ctrav
theorem Tx_connectComponent (h : Tx c) : Tx (connectComponent c).1 := by
  unfold connectComponent; ctrav
theorem Tx_connectRaw (h : Tx c) : Tx (connectRaw c).1 := by
  unfold connectRaw; ctrav
theorem Tx_release (h : Tx c) : Tx (release c) := by cauto release

theorem Tx_step (op : Op) (h : Tx c)
    (hu : match op with | .usend it | .uraw it | .urawstr it => it.isUserItem = true | _ => True) :
    Tx (step c op) := by
  cases op with
  | connect k =>
    cases k
    · exact Tx_connectClient h
    · exact Tx_connectComponent h
    · exact Tx_connectRaw h
  | run rx => exact Tx_runOnce h
  | setTcp f e => exact h
  | setTls sf nf => exact h
  | setSched l d => exact h
  | tick ms => exact h
  | setSmCallback => exact h
  | setSendOnConnect on => exact h
  | setFlags f => exact Tx_setFlags h
  | usend it => exact Tx_sendStanza h (good_user hu _)
  | uraw it => exact Tx_sendRaw h (good_user hu _)
  | urawstr it =>
    show Tx (xmppSendRawString c it)
    unfold xmppSendRawString
    split
    · exact Tx_pushRaw h (good_user hu _)
    · exact h
  | udisc => exact Tx_xmppDisconnect h
  | release => exact Tx_release h
  | addUserHandlers => exact Tx_addTimed (Tx_addIdHandler (Tx_addHandler h))

theorem Tx_exec (ops : List Op) (hu : userOps ops) : ∀ {c}, Tx c → Tx (exec c ops) := by
  induction ops with
  | nil => intro c h; exact h
  | cons op ops ih =>
    intro c h
    exact ih (fun o ho => hu o (List.mem_cons_of_mem _ ho)) (Tx_step op h (hu op List.mem_cons_self))

theorem Tx_fresh (jid pass : Option Bytes) (cert : Bool) (flags : Nat) : Tx (fresh jid pass cert flags) := by
  unfold fresh
  apply Tx_setFlags
  exact ⟨(fun _ a => nomatch a), (fun _ a => nomatch a), (fun _ a => nomatch a)⟩

theorem reported_h_is_count' (jid pass : Option Bytes) (cert : Bool) (flags : Nat) (ops : List Op)
    (hu : userOps ops) :
    ∀ r ∈ (exec (fresh jid pass cert flags) ops).tx,
      (∀ h, r.item = .ack h → h = r.snap.handledNr) ∧
      (∀ p h, r.item = .resume p h → h = r.snap.handledNr) := by
  intro r hr
  have hg := (Tx_exec ops hu (Tx_fresh jid pass cert flags)).tx r hr
  refine ⟨fun h e => ?_, fun p h e => ?_⟩
  · rw [e] at hg; exact hg
  · rw [e] at hg; exact hg

end Strophe.Lemmas.ConnC05
