/-
C03, part A: the invariant of the connection machine used by Lemmas/ConnC03.lean and its
preservation by the primitive operations (handler bookkeeping, queueing, notifications).

The invariant is a conjunction of four groups, each a predicate over the VALUES of the fields it
speaks about, so that an update of other fields preserves it by definitional unfolding.
-/
import Strophe.Model.ConnOps

namespace Strophe.Lemmas.ConnC03
open Strophe Strophe.Conn

/-! ### keys of handlers / timers (what the invariant looks at) -/

abbrev HK := Nat × HFun × Bool
abbrev TK := Nat × TFun × Bool
def hkey (h : Handler) : HK := (h.uid, h.fn, h.user)
def tkey (t : Timed) : TK := (t.uid, t.fn, t.user)

/-- a pending negotiation handler: a system handler other than the stream-error handler -/
def negK (k : HK) : Prop := ∃ s, k.2.1 = .sys s ∧ s ≠ .error

def cfgRes (jid : Option Bytes) : Option Bytes :=
  match jid with
  | some j => match Jid.resource j with
    | some r => if r.isEmpty then none else some r
    | none => none
  | none => none

def isConnEv : Ev → Bool
  | .connect => true
  | .rawConnect => true
  | _ => false

/-! ### static predicate on queued / written elements -/

/-- what a library-owned element must satisfy, given the snapshot taken when it was queued -/
def LibOk (jid : Option Bytes) (it : Item) (o : Owner) (s : Snap) : Prop :=
  match it with
  | .hdr to frm comp =>
    o = .smStrophe ∧ (∃ j, jid = some j ∧ to = (if comp then j else Jid.domain j)) ∧
    (∀ f, frm = some f → ∃ j, jid = some j ∧ f = Jid.bare j ∧ (64 : UInt8) ∈ j)
  | .starttls => s.g.offeredTls = true ∧ s.secured = false
  | .auth m _ => s.g.offeredMechs &&& mechBit m ≠ 0 ∧ s.g.authOk = false
  | .response _ => s.g.authOk = false
  | .compress => s.g.offeredComp = true
  | .bind res => res = cfgRes jid ∧ s.g.offeredBind = true ∧ s.g.authOk = true
  | .session => s.g.offeredSession = true ∧ s.g.authOk = true
  | .enable _ => s.g.offeredSm = true ∧ s.g.authOk = true
  | .resume _ _ => s.g.offeredSm = true ∧ s.g.authOk = true
  | _ => True

/-- a user-owned element is one the application submitted (`U`) or the stanza its connection handler
    sends from within the CONNECT notification -/
def UOk (U : Item → Prop) (it : Item) : Prop := U it ∨ ∃ n i, it = .user n i

/-- `U`: what the application may submit; `NR`: the history does not use `xmpp_send_raw` -/
def EOk (jid : Option Bytes) (U : Item → Prop) (NR : Prop) (it : Item) (o : Owner) (s : Snap) : Prop :=
  (o = .user → UOk U it ∧ (NR → s.negotiated = true)) ∧ (o ≠ .user → LibOk jid it o s)

def isHdrFrom (it : Item) : Prop := ∃ to f comp, it = .hdr to (some f) comp

/-! ### group 1: configuration -/

structure InvCfg (jid : Option Bytes) (cjid dom : Option Bytes) (ctype : CType) (state : CState)
    (hasSm : Bool) : Prop where
  jidEq : cjid = jid
  dom : state ≠ .disconnected →
    ∃ j, jid = some j ∧ dom = some (if ctype = .component then j else Jid.domain j)
  hsm : state ≠ .disconnected → hasSm = true

/-! ### group 2: queues and the wire log -/

structure InvQ (jid : Option Bytes) (U : Item → Prop) (NR : Prop) (w : Bool)
    (state : CState) (hasTls notified : Bool)
    (queue : List QElem) (smq : List (UInt32 × QElem)) (tx : List TxRec) : Prop where
  q_ok : ∀ e ∈ queue, EOk jid U NR e.item e.owner e.snap
  smq_ok : ∀ e ∈ smq, EOk jid U NR e.2.item e.2.owner e.2.snap ∧ e.2.owner ≠ .smStrophe
  q_ht : state = .connected → ∀ e ∈ queue, e.owner ≠ .user → isHdrFrom e.item → hasTls = true
  q_n : w = false → NR → state = .connected → ∀ e ∈ queue, e.owner = .user → notified = true
  q_cg : state = .connecting → queue = []
  tx_ok : ∀ r ∈ tx, EOk jid U NR r.item r.owner r.snap ∧
    (r.owner ≠ .user → isHdrFrom r.item → r.sec = true) ∧
    (r.owner = .user → NR → r.notifiedW = true)

/-! ### group 3: notifications -/

def cnt (evs : List (Ghost × Ev)) (a : Nat) : Nat :=
  (evs.filter fun p => p.1.attempt = a && isConnEv p.2).length

def NegOk (g : Ghost) : Prop :=
  (g.authOk = true ∧ (g.bound = true ∨ g.resumed = true)) ∨ g.handshakeAck = true ∨ g.legacyOk = true

structure InvE (g : Ghost) (evs : List (Ghost × Ev)) : Prop where
  att : ∀ p ∈ evs, p.1.attempt ≤ g.attempt
  once : ∀ a, cnt evs a ≤ 1
  zero : g.notifiedConnect = false → cnt evs g.attempt = 0
  ucb : ∀ p ∈ evs, ((∃ n i, p.2 = .userStanza n i) ∨ p.2 = .userTimed) → p.1.notifiedConnect = true
  neg : ∀ p ∈ evs, p.2 = .connect → NegOk p.1

/-! ### group 4: machine state against the ghost record -/

structure InvG (state : CState) (negotiated secured hasTls : Bool) (saslSupport : Nat)
    (compSupported bindRequired sessionRequired smSupport smBind smEnabled smResume : Bool)
    (g : Ghost) : Prop where
  tls_sec : hasTls = true → secured = true
  sasl : ∀ i, saslSupport.testBit i = true → g.offeredMechs.testBit i = true
  comp : compSupported = true → g.offeredComp = true
  bindR : bindRequired = true → g.offeredBind = true
  sessR : sessionRequired = true → g.offeredSession = true
  smS : smSupport = true → g.offeredSm = true
  smB : smBind = true → g.offeredBind = true
  nc : state ≠ .connected → hasTls = false ∧ negotiated = false ∧ smEnabled = false ∧
    smSupport = false ∧ smBind = false ∧ smResume = false
  cg : state = .connecting → g.notifiedConnect = false ∧ g.authOk = false ∧ secured = false
  nn1 : negotiated = true → g.notifiedConnect = true
  nn2 : state ≠ .disconnected → g.notifiedConnect = true → negotiated = true
  smE : smEnabled = true → g.authOk = true ∧ (g.bound = true ∨ g.resumed = true)

/-! ### group 5: handlers, timers, phases -/

/-- what must hold while a system handler of kind `k` is pending -/
def Phase (g : Ghost) (secured smE smR : Bool) (state : CState) : SysH → Prop
  | .features => g.authOk = false
  | .proceedTls => g.authOk = false ∧ secured = false
  | .saslResult _ => g.authOk = false
  | .digestChallenge => g.authOk = false
  | .digestRspauth => g.authOk = false
  | .scramChallenge _ _ => g.authOk = false
  | .featuresSasl => g.authOk = true ∧ smE = false
  | .featuresCompress => g.authOk = true ∧ smE = false
  | .compressResult => g.authOk = true ∧ smE = false
  | .bind => g.authOk = true ∧ smE = false
  | .session => g.authOk = true ∧ g.bound = true ∧ smE = false
  | .sm => g.authOk = true ∧ (state ≠ .disconnected → smR = false → g.bound = true ∨ g.resumed = true)
  | .legacy => True
  | .componentHs => True
  | .error => True

/-- parameters of the invariant: `x` uid of the stanza handler being run (it is removed afterwards),
    `y` same for timers, `w` the "connect notification pending" mode of `InvQ.q_n`, and frame bounds:
    the state is `sb` or disconnected, the parser state is `pb`, `isRaw ≤ rb`, `resetParser ≤ rpb` -/
structure Par where
  x : Option Nat := none
  y : Option Nat := none
  xs : Bool := true
  mb : Nat := 0
  w : Bool := false
  sb : CState := .disconnected
  pb : PSt := .closed
  rb : Bool := true
  rpb : Bool := true

structure InvF (p : Par) (state : CState) (pst : PSt) (resetParser isRaw : Bool) : Prop where
  st : state = p.sb ∨ state = .disconnected
  ps : pst = p.pb
  rw : isRaw = true → p.rb = true
  rpB : resetParser = true → p.rpb = true
  rp : pst = .fresh → state = .connected → resetParser = false
  rd : state = .disconnected → isRaw = false

structure InvH (x y : Option Nat) (xs : Bool) (mb : Nat) (state : CState) (secured smE smR : Bool) (pst : PSt)
    (resetParser : Bool) (oh : OpenH) (isRaw : Bool)
    (hk : List HK) (ik : List HK) (tk : List TK) (nextUid : Nat) (g : Ghost) : Prop where
  uidH : ∀ k ∈ hk ++ ik, k.1 < nextUid
  nd : ((hk ++ ik).map (·.1)).Nodup
  uidT : ∀ k ∈ tk, k.1 < nextUid
  uidX : ∀ u, x = some u → u < nextUid
  uidY : ∀ u, y = some u → u < nextUid
  xsOk : ∀ u, x = some u → (xs = true → ∀ k ∈ ik, k.1 ≠ u) ∧ (xs = false → ∀ k ∈ hk, k.1 ≠ u)
  userH : ∀ k ∈ hk ++ ik, (k.2.1 = .userAll ↔ k.2.2 = true)
  userT : ∀ k ∈ tk, (k.2.1 = .userTimed ↔ k.2.2 = true)
  tfn : ∀ k1 ∈ tk, ∀ k2 ∈ tk, k1.2.1 = k2.2.1 → k1 = k2
  idk : ∀ k ∈ ik, k.2.1 = .sys .bind ∨ k.2.1 = .sys .session ∨ k.2.1 = .sys .legacy ∨ k.2.1 = .userAll
  one : ∀ k1 ∈ hk ++ ik, ∀ k2 ∈ hk ++ ik, negK k1 → negK k2 → x ≠ some k1.1 → x ≠ some k2.1 → k1 = k2
  phase : ∀ k ∈ hk ++ ik, ∀ s, k.2.1 = .sys s → s ≠ .error → x ≠ some k.1 →
    g.notifiedConnect = false ∧ Phase g secured smE smR state s
  ohOk : (oh = .open_ ∨ oh = .openTls → g.authOk = false) ∧
    (oh = .openSasl ∨ oh = .openCompress → g.authOk = true)
  fr : resetParser = true ∨ pst = .fresh →
    (∀ k ∈ hk ++ ik, negK k → x = some k.1) ∧ (oh ≠ .stub → g.notifiedConnect = false ∧ smE = false)
  t1 : ∀ k ∈ tk, k.2.1 = .missingFeatures → y ≠ some k.1 →
    g.authOk = false ∧ ∃ k' ∈ hk ++ ik, k'.2.1 = .sys .features ∧ x ≠ some k'.1
  cgH : state = .connecting → ∀ k ∈ hk ++ ik, ¬ negK k
  raw : state ≠ .disconnected → isRaw = true → oh = .stub ∧ ∀ k ∈ hk ++ ik, ¬ negK k
  mbN : mb ≤ nextUid
  lv : state = .disconnected → ∀ k ∈ hk ++ ik, negK k → x ≠ some k.1 → mb ≤ k.1

/-! ### the invariant -/

structure Inv (jid : Option Bytes) (U : Item → Prop) (NR : Prop) (p : Par) (c : Conn) : Prop where
  cfg : InvCfg jid c.jid c.domain c.ctype c.state c.hasSm
  q : InvQ jid U NR p.w c.state c.hasTls c.g.notifiedConnect c.queue c.sm.queue c.tx
  e : InvE c.g c.evs
  gg : InvG c.state c.negotiated c.secured c.hasTls c.saslSupport c.compSupported c.bindRequired
    c.sessionRequired c.sm.support c.sm.bind c.sm.enabled c.sm.resume c.g
  h : InvH p.x p.y p.xs p.mb c.state c.secured c.sm.enabled c.sm.resume c.pst c.resetParser c.openHandler c.isRaw
    (c.handlers.map hkey) (c.idHandlers.map hkey) (c.timed.map tkey) c.nextUid c.g
  f : InvF p c.state c.pst c.resetParser c.isRaw
  ts : c.tlsSupport = false

/-- the pending negotiation handlers are all excluded (i.e. there is none besides the running one) -/
def PendNil (x : Option Nat) (c : Conn) : Prop :=
  ∀ k ∈ c.handlers.map hkey ++ c.idHandlers.map hkey, negK k → x = some k.1

/-! ### key-level lemmas on `InvH` -/

theorem InvH.addCore {x y xs mb st sec smE smR pst rp oh raw hk ik tk n g}
    (h : InvH x y xs mb st sec smE smR pst rp oh raw hk ik tk n g) (fn : HFun) (usr : Bool) (hk' ik' : List HK)
    (mem : ∀ k, k ∈ hk' ++ ik' ↔ k ∈ hk ++ ik ∨ k = (n, fn, usr))
    (memH : ∀ k ∈ hk', k ∈ hk ∨ k = (n, fn, usr))
    (memI : ∀ k ∈ ik', k ∈ ik ∨ (k = (n, fn, usr) ∧ (k.2.1 = .sys .bind ∨ k.2.1 = .sys .session ∨ k.2.1 = .sys .legacy ∨ k.2.1 = .userAll)))
    (hnd : ((hk' ++ ik').map (·.1)).Nodup)
    (hu : fn = .userAll ↔ usr = true)
    (hneg : ∀ s, fn = .sys s → s ≠ .error →
      (∀ k ∈ hk ++ ik, negK k → x = some k.1) ∧ g.notifiedConnect = false ∧ Phase g sec smE smR st s ∧
      rp = false ∧ pst ≠ .fresh ∧ st ≠ .connecting ∧ (st ≠ .disconnected → raw = false)) :
    InvH x y xs mb st sec smE smR pst rp oh raw hk' ik' tk (n + 1) g := by
  have negNew : negK (n, fn, usr) → ∃ s, fn = .sys s ∧ s ≠ .error := fun a => a
  constructor
  · intro k hk'; rcases (mem k).1 hk' with a | a
    · exact Nat.lt_succ_of_lt (h.uidH k a)
    · subst a; exact Nat.lt_succ_self _
  · exact hnd
  · intro k a; exact Nat.lt_succ_of_lt (h.uidT k a)
  · intro u a; exact Nat.lt_succ_of_lt (h.uidX u a)
  · intro u a; exact Nat.lt_succ_of_lt (h.uidY u a)
  · intro u a; refine ⟨fun e k hk1 => ?_, fun e k hk1 => ?_⟩
    · rcases memI k hk1 with b | b
      · exact ((h.xsOk u a).1 e) k b
      · rw [b.1]; exact Nat.ne_of_gt (h.uidX u a)
    · rcases memH k hk1 with b | b
      · exact ((h.xsOk u a).2 e) k b
      · rw [b]; exact Nat.ne_of_gt (h.uidX u a)
  · intro k hk'; rcases (mem k).1 hk' with a | a
    · exact h.userH k a
    · subst a; exact hu
  · exact h.userT
  · exact h.tfn
  · intro k a; rcases memI k a with b | b
    · exact h.idk k b
    · exact b.2
  · intro k1 h1 k2 h2 n1 n2 e1 e2
    rcases (mem k1).1 h1 with a | a <;> rcases (mem k2).1 h2 with b | b
    · exact h.one k1 a k2 b n1 n2 e1 e2
    · subst b; obtain ⟨s, hs, hs'⟩ := negNew n2
      exact absurd ((hneg s hs hs').1 k1 a n1) e1
    · subst a; obtain ⟨s, hs, hs'⟩ := negNew n1
      exact absurd ((hneg s hs hs').1 k2 b n2) e2
    · subst a; subst b; rfl
  · intro k hk' s hs hs' e; rcases (mem k).1 hk' with a | a
    · exact h.phase k a s hs hs' e
    · subst a; have := hneg s hs hs'; exact ⟨this.2.1, this.2.2.1⟩
  · exact h.ohOk
  · intro hf; refine ⟨?_, (h.fr hf).2⟩
    intro k hk' nk; rcases (mem k).1 hk' with a | a
    · exact (h.fr hf).1 k a nk
    · subst a; obtain ⟨s, hs, hs'⟩ := negNew nk
      have := hneg s hs hs'; rcases hf with hf | hf
      · rw [this.2.2.2.1] at hf; cases hf
      · exact absurd hf this.2.2.2.2.1
  · intro k a b c; obtain ⟨h1, k', h2, h3, h4⟩ := h.t1 k a b c
    exact ⟨h1, k', (mem k').2 (Or.inl h2), h3, h4⟩
  · intro hc k hk' nk; rcases (mem k).1 hk' with a | a
    · exact h.cgH hc k a nk
    · subst a; obtain ⟨s, hs, hs'⟩ := negNew nk
      exact (hneg s hs hs').2.2.2.2.2.1 hc
  · intro hd hr; refine ⟨(h.raw hd hr).1, ?_⟩
    intro k hk' nk; rcases (mem k).1 hk' with a | a
    · exact (h.raw hd hr).2 k a nk
    · subst a; obtain ⟨s, hs, hs'⟩ := negNew nk
      have := (hneg s hs hs').2.2.2.2.2.2 hd; rw [this] at hr; cases hr
  · exact Nat.le_succ_of_le h.mbN
  · intro hd k hk' nk e; rcases (mem k).1 hk' with a | a
    · exact h.lv hd k a nk e
    · subst a; exact h.mbN

theorem InvH.addH {x y xs mb st sec smE smR pst rp oh raw hk ik tk n g}
    (h : InvH x y xs mb st sec smE smR pst rp oh raw hk ik tk n g) (fn : HFun) (usr : Bool)
    (hu : fn = .userAll ↔ usr = true)
    (hneg : ∀ s, fn = .sys s → s ≠ .error →
      (∀ k ∈ hk ++ ik, negK k → x = some k.1) ∧ g.notifiedConnect = false ∧ Phase g sec smE smR st s ∧
      rp = false ∧ pst ≠ .fresh ∧ st ≠ .connecting ∧ (st ≠ .disconnected → raw = false)) :
    InvH x y xs mb st sec smE smR pst rp oh raw (hk ++ [(n, fn, usr)]) ik tk (n + 1) g := by
  refine h.addCore fn usr _ _ ?_ ?_ (fun k a => Or.inl a) ?_ hu hneg
  · intro k; simp only [List.mem_append, List.mem_singleton]; constructor
    · rintro ((a | a) | a) <;> simp [a]
    · rintro ((a | a) | a) <;> simp [a]
  · intro k a; simpa only [List.mem_append, List.mem_singleton] using a
  · have nd := h.nd
    simp only [List.map_append, List.map_cons, List.map_nil, List.nodup_append, List.mem_append,
      List.mem_map, List.mem_singleton] at nd ⊢
    have fresh : ∀ k ∈ hk ++ ik, k.1 ≠ n := fun k a => Nat.ne_of_lt (h.uidH k a)
    refine ⟨⟨nd.1, (by simp), ?_⟩, nd.2.1, ?_⟩
    · rintro a ⟨k, hk1, rfl⟩ b' rfl; exact fresh k (List.mem_append.2 (Or.inl hk1))
    · rintro a (⟨k, hk1, rfl⟩ | rfl) b' ⟨k', hk2, rfl⟩
      · exact nd.2.2 _ ⟨k, hk1, rfl⟩ _ ⟨k', hk2, rfl⟩
      · exact (fresh k' (List.mem_append.2 (Or.inr hk2))).symm

theorem InvH.addI {x y xs mb st sec smE smR pst rp oh raw hk ik tk n g}
    (h : InvH x y xs mb st sec smE smR pst rp oh raw hk ik tk n g) (fn : HFun) (usr : Bool)
    (hk3 : fn = .sys .bind ∨ fn = .sys .session ∨ fn = .sys .legacy ∨ fn = .userAll)
    (hu : fn = .userAll ↔ usr = true)
    (hneg : ∀ s, fn = .sys s → s ≠ .error →
      (∀ k ∈ hk ++ ik, negK k → x = some k.1) ∧ g.notifiedConnect = false ∧ Phase g sec smE smR st s ∧
      rp = false ∧ pst ≠ .fresh ∧ st ≠ .connecting ∧ (st ≠ .disconnected → raw = false)) :
    InvH x y xs mb st sec smE smR pst rp oh raw hk (ik ++ [(n, fn, usr)]) tk (n + 1) g := by
  refine h.addCore fn usr _ _ ?_ (fun k a => Or.inl a) ?_ ?_ hu hneg
  · intro k; simp only [List.mem_append, List.mem_singleton]; constructor
    · rintro (a | a | a) <;> simp [a]
    · rintro ((a | a) | a) <;> simp [a]
  · intro k a; simp only [List.mem_append, List.mem_singleton] at a
    rcases a with a | a
    · exact Or.inl a
    · subst a; exact Or.inr ⟨rfl, hk3⟩
  · have nd := h.nd
    simp only [List.map_append, List.map_cons, List.map_nil, List.nodup_append, List.mem_append,
      List.mem_map, List.mem_singleton] at nd ⊢
    have fresh : ∀ k ∈ hk ++ ik, k.1 ≠ n := fun k a => Nat.ne_of_lt (h.uidH k a)
    refine ⟨nd.1, ⟨nd.2.1, (by simp), ?_⟩, ?_⟩
    · rintro a ⟨k, hk1, rfl⟩ b' rfl; exact fresh k (List.mem_append.2 (Or.inr hk1))
    · rintro a ⟨k, hk1, rfl⟩ b' (⟨k', hk2, rfl⟩ | rfl)
      · exact nd.2.2 _ ⟨k, hk1, rfl⟩ _ ⟨k', hk2, rfl⟩
      · exact fresh k (List.mem_append.2 (Or.inl hk1))

theorem InvH.addT {x y xs mb st sec smE smR pst rp oh raw hk ik tk n g}
    (h : InvH x y xs mb st sec smE smR pst rp oh raw hk ik tk n g) (fn : TFun) (usr : Bool)
    (hu : fn = .userTimed ↔ usr = true) (hfresh : ∀ k ∈ tk, k.2.1 ≠ fn)
    (hmf : fn = .missingFeatures →
      g.authOk = false ∧ ∃ k' ∈ hk ++ ik, k'.2.1 = .sys .features ∧ x ≠ some k'.1) :
    InvH x y xs mb st sec smE smR pst rp oh raw hk ik ((n, fn, usr) :: tk) (n + 1) g := by
  have htfn : ∀ k1 ∈ (n, fn, usr) :: tk, ∀ k2 ∈ (n, fn, usr) :: tk, k1.2.1 = k2.2.1 → k1 = k2 := by
    intro k1 a1 k2 a2 e
    rcases List.mem_cons.1 a1 with b1 | b1 <;> rcases List.mem_cons.1 a2 with b2 | b2
    · rw [b1, b2]
    · subst b1; exact absurd e.symm (hfresh k2 b2)
    · subst b2; exact absurd e (hfresh k1 b1)
    · exact h.tfn k1 b1 k2 b2 e
  refine { h with uidH := ?_, uidT := ?_, uidX := ?_, uidY := ?_, userT := ?_, t1 := ?_, mbN := Nat.le_succ_of_le h.mbN, tfn := htfn }
  · intro k a; exact Nat.lt_succ_of_lt (h.uidH k a)
  · intro k a; rcases List.mem_cons.1 a with a | a
    · subst a; exact Nat.lt_succ_self _
    · exact Nat.lt_succ_of_lt (h.uidT k a)
  · intro u a; exact Nat.lt_succ_of_lt (h.uidX u a)
  · intro u a; exact Nat.lt_succ_of_lt (h.uidY u a)
  · intro k a; rcases List.mem_cons.1 a with a | a
    · subst a; exact hu
    · exact h.userT k a
  · intro k a b c; rcases List.mem_cons.1 a with a | a
    · subst a; exact hmf b
    · exact h.t1 k a b c

theorem InvH.subT {x y xs mb st sec smE smR pst rp oh raw hk ik tk tk' n g}
    (h : InvH x y xs mb st sec smE smR pst rp oh raw hk ik tk n g) (sub : ∀ k ∈ tk', k ∈ tk) :
    InvH x y xs mb st sec smE smR pst rp oh raw hk ik tk' n g :=
  { h with uidT := fun k a => h.uidT k (sub k a), userT := fun k a => h.userT k (sub k a),
           tfn := fun k1 a1 k2 a2 => h.tfn k1 (sub k1 a1) k2 (sub k2 a2),
           t1 := fun k a => h.t1 k (sub k a) }

/-- the handler with uid `u` that was running is removed -/
theorem InvH.fireCore {y xs mb st sec smE smR pst rp oh raw hk ik tk n g} (u : Nat)
    (h : InvH (some u) y xs mb st sec smE smR pst rp oh raw hk ik tk n g) (hk' ik' : List HK)
    (mem : ∀ k, k ∈ hk' ++ ik' ↔ k ∈ hk ++ ik ∧ k.1 ≠ u) (memI : ∀ k ∈ ik', k ∈ ik)
    (hnd : ((hk' ++ ik').map (·.1)).Nodup) (xs' : Bool) :
    InvH none y xs' mb st sec smE smR pst rp oh raw hk' ik' tk n g := by
  have ne : ∀ k : HK, k.1 ≠ u → some u ≠ some k.1 := fun k a b => a (Option.some.inj b).symm
  constructor
  · intro k a; exact h.uidH k ((mem k).1 a).1
  · exact hnd
  · exact h.uidT
  · intro u' a; cases a
  · exact h.uidY
  · intro u' a; cases a
  · intro k a; exact h.userH k ((mem k).1 a).1
  · exact h.userT
  · exact h.tfn
  · intro k a; exact h.idk k (memI k a)
  · intro k1 a1 k2 a2 n1 n2 _ _
    exact h.one k1 ((mem k1).1 a1).1 k2 ((mem k2).1 a2).1 n1 n2 (ne k1 ((mem k1).1 a1).2) (ne k2 ((mem k2).1 a2).2)
  · intro k a s hs hs' _
    exact h.phase k ((mem k).1 a).1 s hs hs' (ne k ((mem k).1 a).2)
  · exact h.ohOk
  · intro hf; refine ⟨?_, (h.fr hf).2⟩
    intro k a nk; have := (h.fr hf).1 k ((mem k).1 a).1 nk
    exact absurd (Option.some.inj this).symm ((mem k).1 a).2
  · intro k a b c; obtain ⟨h1, k', h2, h3, h4⟩ := h.t1 k a b c
    refine ⟨h1, k', (mem k').2 ⟨h2, fun e => h4 (by rw [e])⟩, h3, fun e => by cases e⟩
  · intro hc k a; exact h.cgH hc k ((mem k).1 a).1
  · intro hd hr; exact ⟨(h.raw hd hr).1, fun k a => (h.raw hd hr).2 k ((mem k).1 a).1⟩
  · exact h.mbN
  · intro hd k a nk _; exact h.lv hd k ((mem k).1 a).1 nk (ne k ((mem k).1 a).2)

/-- a regular stanza handler finished -/
theorem InvH.fireH {y mb st sec smE smR pst rp oh raw hk ik tk n g} (u : Nat)
    (h : InvH (some u) y true mb st sec smE smR pst rp oh raw hk ik tk n g) (xs' : Bool) :
    InvH none y xs' mb st sec smE smR pst rp oh raw (hk.filter (·.1 ≠ u)) ik tk n g := by
  refine h.fireCore u _ _ ?_ (fun k a => a) ?_ xs'
  · intro k; simp only [List.mem_append, List.mem_filter, decide_eq_true_eq]; constructor
    · rintro (⟨a, b⟩ | a)
      · exact ⟨Or.inl a, b⟩
      · exact ⟨Or.inr a, (h.xsOk u rfl).1 rfl k a⟩
    · rintro ⟨a | a, b⟩
      · exact Or.inl ⟨a, b⟩
      · exact Or.inr a
  · exact (((List.filter_sublist.append (List.Sublist.refl _)).map _).nodup h.nd)

/-- an id handler finished -/
theorem InvH.fireI {y mb st sec smE smR pst rp oh raw hk ik tk n g} (u : Nat)
    (h : InvH (some u) y false mb st sec smE smR pst rp oh raw hk ik tk n g) (xs' : Bool) :
    InvH none y xs' mb st sec smE smR pst rp oh raw hk (ik.filter (·.1 ≠ u)) tk n g := by
  refine h.fireCore u _ _ ?_ (fun k a => (List.mem_filter.1 a).1) ?_ xs'
  · intro k; simp only [List.mem_append, List.mem_filter, decide_eq_true_eq]; constructor
    · rintro (a | ⟨a, b⟩)
      · exact ⟨Or.inl a, (h.xsOk u rfl).2 rfl k a⟩
      · exact ⟨Or.inr a, b⟩
    · rintro ⟨a | a, b⟩
      · exact Or.inl a
      · exact Or.inr ⟨a, b⟩
  · exact ((((List.Sublist.refl _).append List.filter_sublist).map _).nodup h.nd)

/-- the timer with uid `v` that was running is removed -/
theorem InvH.fireT {x xs mb st sec smE smR pst rp oh raw hk ik tk n g} (v : Nat)
    (h : InvH x (some v) xs mb st sec smE smR pst rp oh raw hk ik tk n g) :
    InvH x none xs mb st sec smE smR pst rp oh raw hk ik (tk.filter (·.1 ≠ v)) n g := by
  have htfn : ∀ k1 ∈ tk.filter (·.1 ≠ v), ∀ k2 ∈ tk.filter (·.1 ≠ v), k1.2.1 = k2.2.1 → k1 = k2 :=
    fun k1 a1 k2 a2 => h.tfn k1 (List.mem_filter.1 a1).1 k2 (List.mem_filter.1 a2).1
  refine { h with uidT := ?_, uidY := ?_, userT := ?_, t1 := ?_, tfn := htfn }
  · intro k a; exact h.uidT k (List.mem_filter.1 a).1
  · intro u a; cases a
  · intro k a; exact h.userT k (List.mem_filter.1 a).1
  · intro k a b _; have := List.mem_filter.1 a
    exact h.t1 k this.1 b (fun e => by have := this.2; simp [(Option.some.inj e)] at this)

/-- start running the pending handler `u` (no `missingFeatures` timer may be live) -/
theorem InvH.enter {y xs mb st sec smE smR pst rp oh raw hk ik tk n g} (u : Nat)
    (h : InvH none y xs mb st sec smE smR pst rp oh raw hk ik tk n g) (hu : u < n)
    (hnt : ∀ k ∈ tk, k.2.1 = .missingFeatures → y = some k.1) (xs' : Bool)
    (hxs : (xs' = true → ∀ k ∈ ik, k.1 ≠ u) ∧ (xs' = false → ∀ k ∈ hk, k.1 ≠ u)) :
    InvH (some u) y xs' mb st sec smE smR pst rp oh raw hk ik tk n g := by
  refine { h with uidX := ?_, xsOk := ?_, one := ?_, phase := ?_, fr := ?_, t1 := ?_, lv := fun hd k a nk _ => h.lv hd k a nk (by simp) }
  · intro u' a; cases a; exact hu
  · intro u' a; cases a; exact hxs
  · intro k1 a1 k2 a2 n1 n2 _ _; exact h.one k1 a1 k2 a2 n1 n2 (by simp) (by simp)
  · intro k a s hs hs' _; exact h.phase k a s hs hs' (by simp)
  · intro hf; refine ⟨?_, (h.fr hf).2⟩
    intro k a nk; exact absurd ((h.fr hf).1 k a nk) (by simp)
  · intro k a b c; exact absurd (hnt k a b) c

theorem InvH.enterT {x xs mb st sec smE smR pst rp oh raw hk ik tk n g} (v : Nat)
    (h : InvH x none xs mb st sec smE smR pst rp oh raw hk ik tk n g) (hv : v < n) :
    InvH x (some v) xs mb st sec smE smR pst rp oh raw hk ik tk n g := by
  refine { h with uidY := ?_, t1 := ?_ }
  · intro u' a; cases a; exact hv
  · intro k a b _; exact h.t1 k a b (by simp)

/-- regular handlers are removed while no `missingFeatures` timer is live -/
theorem InvH.subH {x y xs mb st sec smE smR pst rp oh raw hk hk' ik tk n g}
    (h : InvH x y xs mb st sec smE smR pst rp oh raw hk ik tk n g) (sub : hk'.Sublist hk)
    (hnt : ∀ k ∈ tk, k.2.1 = .missingFeatures → y = some k.1) :
    InvH x y xs mb st sec smE smR pst rp oh raw hk' ik tk n g := by
  have mem : ∀ k, k ∈ hk' ++ ik → k ∈ hk ++ ik := by
    intro k a; rcases List.mem_append.1 a with a | a
    · exact List.mem_append.2 (Or.inl (sub.subset a))
    · exact List.mem_append.2 (Or.inr a)
  refine { h with uidH := fun k a => h.uidH k (mem k a),
                  nd := ((sub.append (List.Sublist.refl _)).map _).nodup h.nd,
                  xsOk := fun u a => ⟨(h.xsOk u a).1, fun e k b => (h.xsOk u a).2 e k (sub.subset b)⟩,
                  userH := fun k a => h.userH k (mem k a),
                  one := fun k1 a1 k2 a2 => h.one k1 (mem k1 a1) k2 (mem k2 a2),
                  phase := fun k a => h.phase k (mem k a),
                  fr := fun hf => ⟨fun k a => (h.fr hf).1 k (mem k a), (h.fr hf).2⟩,
                  t1 := fun k a b' c' => absurd (hnt k a b') c',
                  cgH := fun hc k a => h.cgH hc k (mem k a),
                  raw := fun hd hr => ⟨(h.raw hd hr).1, fun k a => (h.raw hd hr).2 k (mem k a)⟩,
                  lv := fun hd k a => h.lv hd k (mem k a) }

end Strophe.Lemmas.ConnC03
