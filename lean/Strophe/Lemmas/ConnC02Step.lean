/-
The C02 invariant through the write loop, `xmpp_run_once`, the API calls and whole histories.
-/
import Strophe.Lemmas.ConnC02Loop

namespace Strophe.Lemmas.ConnC02
open Strophe Strophe.Conn

/-! ### the write loop -/

/-- the record `retire` appends -/
def txRec (c : Conn) (e : QElem) : TxRec :=
  { item := e.item, owner := e.owner, sec := c.hasTls, snap := e.snap, attemptW := c.g.attempt,
    mandatoryW := c.tlsMandatory, tlsDisabledW := c.tlsDisabled, legacyW := c.authLegacy,
    notifiedW := c.g.notifiedConnect,
    smNum := if !e.owner.smBit && c.sm.enabled then some c.sm.sentNr else none }

theorem retire_eq (c : Conn) (e : QElem) : retire c e =
    if !e.owner.smBit && c.sm.enabled then
      { c with tx := c.tx ++ [txRec c e],
               sm := { c.sm with queue := c.sm.queue ++ [(c.sm.sentNr, e)], sentNr := c.sm.sentNr + 1 } }
    else { c with tx := c.tx ++ [txRec c e] } := rfl

theorem Inv_retire {c : Conn} (h : Inv none none c) (e : QElem)
    (h1 : c.tlsMandatory = true → e.item.authBearing = true → c.hasTls = true)
    (hN : negItem e.item = true → e.owner = .smStrophe ∧ ItemOk e.item e.snap ∧ FlagsNow c e.snap) :
    Inv none none (retire c e) := by
  have hrec : RecOk (txRec c e) := by
    refine ⟨?_, ?_, ?_, ?_⟩
    · intro hm hb
      obtain ⟨_, _, f1, _, _⟩ := hN (authBearing_neg hb)
      refine h1 ?_ hb
      rcases hm with hm | hm
      · exact hm
      · rw [← f1]; exact hm
    · intro hi
      have hi' : e.item = .starttls := hi
      obtain ⟨_, ok, _, f2, _⟩ := hN (by rw [hi']; rfl)
      have := ok.1 hi
      exact ⟨this, by show c.tlsDisabled = false; rw [← f2]; exact this⟩
    · intro u r p hi
      have hi' : e.item = .legacy u r p := hi
      obtain ⟨_, ok, _, _, f3⟩ := hN (by rw [hi']; rfl)
      have := ok.2.1 u r p hi
      exact ⟨this.1, this.2, by show c.authLegacy = true; rw [← f3]; exact this.1⟩
    · intro t hi
      have hi' : e.item = .auth (b "PLAIN") t := hi
      obtain ⟨_, ok, _⟩ := hN (by rw [hi']; rfl)
      exact ok.2.2 t hi
  have txN : ∀ r ∈ c.tx ++ [txRec c e], RecOk r := by
    intro r hr
    rcases List.mem_append.1 hr with hr | hr
    · exact h.el.txN r hr
    · rw [List.mem_singleton.1 hr]; exact hrec
  rw [retire_eq]
  split
  · rename_i hsm
    refine ⟨⟨h.g.nc, h.g.userH, h.g.userI, h.g.ud0, h.g.uniq, h.g.q1, h.g.noT, h.g.gated⟩,
      ⟨h.ph.idFn, h.ph.uniqS, h.ph.uniqTM, h.ph.excl, h.ph.e5, h.ph.e6, h.ph.e7, h.ph.frp, h.ph.userT⟩,
      ⟨h.me.i1, h.me.i2, h.me.k⟩, ⟨txN, h.el.qN, ?_⟩⟩
    intro x hx
    rcases List.mem_append.1 hx with hx | hx
    · exact h.el.smN x hx
    · rw [List.mem_singleton.1 hx]
      cases hn : negItem e.item
      · rfl
      · have := (hN hn).1
        simp [this, Owner.smBit] at hsm
  · exact ⟨⟨h.g.nc, h.g.userH, h.g.userI, h.g.ud0, h.g.uniq, h.g.q1, h.g.noT, h.g.gated⟩,
      ⟨h.ph.idFn, h.ph.uniqS, h.ph.uniqTM, h.ph.excl, h.ph.e5, h.ph.e6, h.ph.e7, h.ph.frp, h.ph.userT⟩,
      ⟨h.me.i1, h.me.i2, h.me.k⟩, ⟨txN, h.el.qN, h.el.smN⟩⟩

@[simp] theorem retire_frame (c : Conn) (e : QElem) :
    same_cfg[c, retire c e] ∧ same_tls[c, retire c e] ∧ (retire c e).queue = c.queue ∧
    (retire c e).tlsSupport = c.tlsSupport := by
  rw [retire_eq]; split <;> simp

/-- the queue is replaced by elements that look like old ones (dropping the head, marking it in progress) -/
theorem Inv_queueLike {c : Conn} (h : Inv none none c) (q : List QElem) (sc : List Accept) (er : Int)
    (hq : ∀ e' ∈ q, ∃ e ∈ c.queue, e'.item = e.item ∧ e'.owner = e.owner ∧ e'.snap = e.snap) :
    Inv none none { c with queue := q, sched := sc, error := er } := by
  refine ⟨⟨h.g.nc, h.g.userH, h.g.userI, h.g.ud0, h.g.uniq, ?_, h.g.noT, h.g.gated⟩,
    ⟨h.ph.idFn, h.ph.uniqS, h.ph.uniqTM, h.ph.excl, h.ph.e5, h.ph.e6, h.ph.e7, h.ph.frp, h.ph.userT⟩,
    ⟨h.me.i1, h.me.i2, h.me.k⟩, ⟨h.el.txN, ?_, h.el.smN⟩⟩
  · intro hc hm e' he' hb
    obtain ⟨e, he, e1, _, _⟩ := hq e' he'
    exact h.g.q1 hc hm e he (e1 ▸ hb)
  · intro e' he' hn
    obtain ⟨e, he, e1, e2, e3⟩ := hq e' he'
    rw [e1, e2, e3]; exact h.el.qN e he (e1 ▸ hn)

theorem writeElems_cons (c : Conn) (e : QElem) (q : List QElem) : writeElems c (e :: q) =
    match (match c.sched with | a :: _ => a | [] => c.schedDefault) with
    | .all => writeElems (retire { c with queue := q, sched := (match c.sched with | _ :: r => r | [] => []) } e) q
    | .again => { c with queue := { e with wip := true } :: q, sched := (match c.sched with | _ :: r => r | [] => []) }
    | .hard => { c with queue := { e with wip := true } :: q, sched := (match c.sched with | _ :: r => r | [] => []),
                        error := eConnReset } := by
  rw [writeElems]
  cases c.sched <;> rfl

theorem Inv_writeElems : ∀ (l : List QElem) (c : Conn), Inv none none c → c.state = .connected → c.queue = l →
    Inv none none (writeElems c l) ∧ (writeElems c l).tlsSupport = c.tlsSupport ∧ (writeElems c l).state = .connected
  | [], c, h, hc, _ => by
    unfold writeElems
    exact ⟨by simpa using Inv_queueLike h [] c.sched c.error (by simp), rfl, hc⟩
  | e :: q, c, h, hc, hq => by
    rw [writeElems_cons]
    have he : e ∈ c.queue := by rw [hq]; exact List.mem_cons_self ..
    have hsub : ∀ e' ∈ q, ∃ e0 ∈ c.queue, e'.item = e0.item ∧ e'.owner = e0.owner ∧ e'.snap = e0.snap :=
      fun e' he' => ⟨e', by rw [hq]; exact List.mem_cons_of_mem _ he', rfl, rfl, rfl⟩
    have hwip : ∀ e' ∈ ({ e with wip := true } :: q), ∃ e0 ∈ c.queue, e'.item = e0.item ∧ e'.owner = e0.owner ∧
        e'.snap = e0.snap := by
      intro e' he'
      rcases List.mem_cons.1 he' with rfl | he'
      · exact ⟨e, he, rfl, rfl, rfl⟩
      · exact hsub e' he'
    split
    · have h0 := Inv_queueLike h q (match c.sched with | _ :: r => r | [] => []) c.error hsub
      have h1 := Inv_retire h0 e (fun hm hb => (h.g.q1 hc hm e he hb).1)
        (fun hn => ⟨(h.el.qN e he hn).1, (h.el.qN e he hn).2.1, (h.el.qN e he hn).2.2 hc⟩)
      have := Inv_writeElems q _ h1 (by simpa using hc) (by simp)
      exact ⟨this.1, by simpa using this.2.1, this.2.2⟩
    · exact ⟨Inv_queueLike h _ _ c.error hwip, rfl, hc⟩
    · exact ⟨Inv_queueLike h _ _ _ hwip, rfl, hc⟩

/-- changes to a disconnected object: flags, reset of the negotiation state, fewer handlers -/
theorem Inv_disc {c c' : Conn} (h : Inv none none c) (hd : c'.state = .disconnected)
    (hs : ∀ h' ∈ c'.handlers, ∃ h ∈ c.handlers, h'.fn = h.fn ∧ h'.uid = h.uid ∧ h'.ud = h.ud ∧ h'.user = h.user)
    (ids : ∀ h' ∈ c'.idHandlers, ∃ h ∈ c.idHandlers, h'.fn = h.fn ∧ h'.user = h.user)
    (tm : ∀ t' ∈ c'.timed, ∃ t ∈ c.timed, t'.fn = t.fn ∧ t'.uid = t.uid ∧ t'.user = t.user)
    (smq : ∀ e ∈ c'.sm.queue, e ∈ c.sm.queue) (en : c'.sm.enabled = false)
    (oh : c'.openHandler = c.openHandler) (p : same_p[c, c']) (tx : c'.tx = c.tx)
    (q : ∀ e ∈ c'.queue, e ∈ c.queue) (k : KMask c') (sec : c'.secured = true → c.secured = true) :
    Inv none none c' := by
  have late : LateC c' → LateC c := by
    rintro (⟨x, hx, hp⟩ | ⟨x, hx, hp⟩ | l | l | l)
    · obtain ⟨y, hy, e, _⟩ := hs x hx; exact .inl ⟨y, hy, e ▸ hp⟩
    · obtain ⟨y, hy, e, _⟩ := ids x hx; exact .inr (.inl ⟨y, hy, e ▸ hp⟩)
    · exact .inr (.inr (.inl (oh ▸ l)))
    · exact .inr (.inr (.inr (.inl (oh ▸ l))))
    · rw [en] at l; cases l
  have fr : Fr c' → Fr c := by unfold Fr; rw [p.1, p.2]; exact id
  refine ⟨⟨by rw [hd]; simp, ?_, ?_, ?_, ?_, (by rw [hd]; intro x; cases x), fun s => (h.g.noT (sec s)).mono hs,
      .inr (.inl hd)⟩,
    ⟨?_, ?_, ?_, ?_, ?_, ?_, fun _ => en, (by rw [hd]; intro x; cases x), ?_⟩,
    ⟨fun x => absurd hd x, fun x => absurd hd x, k⟩, ⟨by rw [tx]; exact h.el.txN, ?_, fun e he => h.el.smN e (smq e he)⟩⟩
  · intro x hx hu
    obtain ⟨y, hy, e1, _, _, e4⟩ := hs x hx
    rw [e1]; exact h.g.userH y hy (e4 ▸ hu)
  · intro x hx hu
    obtain ⟨y, hy, e1, e4⟩ := ids x hx
    rw [e1]; exact h.g.userI y hy (e4 ▸ hu)
  · intro x hx hp
    obtain ⟨y, hy, e1, _, e3, _⟩ := hs x hx
    rw [e3]; exact h.g.ud0 y hy (e1 ▸ hp)
  · intro x hx x2 hx2 hp he
    obtain ⟨y, hy, e1, e2, _, _⟩ := hs x hx
    obtain ⟨y2, hy2, f1, f2, _, _⟩ := hs x2 hx2
    rw [e2, f2]; exact h.g.uniq y hy y2 hy2 (e1 ▸ hp) (by rw [← e1, ← f1]; exact he)
  · intro x hx
    obtain ⟨y, hy, e1, _⟩ := ids x hx
    rw [e1]; exact h.ph.idFn y hy
  · intro x hx x2 hx2 p1 p2 n1 n2
    obtain ⟨y, hy, e1, e2, _, _⟩ := hs x hx
    obtain ⟨y2, hy2, f1, f2, _, _⟩ := hs x2 hx2
    rw [e2, f2]
    exact h.ph.uniqS y hy y2 hy2 (e1 ▸ p1) (f1 ▸ p2) (by simp) (by simp)
  · intro x hx x2 hx2 p1 p2
    obtain ⟨y, hy, e1, e2, _⟩ := tm x hx
    obtain ⟨y2, hy2, f1, f2, _⟩ := tm x2 hx2
    rw [e2, f2]; exact h.ph.uniqTM y hy y2 hy2 (e1 ▸ p1) (f1 ▸ p2)
  · rcases h.ph.excl with ⟨a, b⟩ | ⟨⟨a, a'⟩, b⟩ | ⟨⟨a, a'⟩, b⟩
    · exact .inl ⟨a.mono hs, b.mono hs⟩
    · exact .inr (.inl ⟨⟨a.mono hs, a'.mono tm⟩, b.mono hs⟩)
    · exact .inr (.inr ⟨⟨a.mono hs, a'.mono tm⟩, b.mono hs⟩)
  · intro f
    obtain ⟨a, b, d, e⟩ := h.ph.e5 (fr f)
    exact ⟨a.mono hs, b.mono tm, d.mono hs, e.mono hs⟩
  · intro l
    obtain ⟨a, b, d, e, o⟩ := h.ph.e6 (late l)
    exact ⟨a.mono hs, b.mono tm, d.mono hs, e.mono hs, by unfold OpenPre at *; rw [oh]; exact o⟩
  · intro x hx hu
    obtain ⟨y, hy, e1, _, e3⟩ := tm x hx
    rw [e1]; exact h.ph.userT y hy (e3 ▸ hu)
  · intro e he hn
    obtain ⟨a, b, _⟩ := h.el.qN e (q e he) hn
    exact ⟨a, b, (by rw [hd]; intro x; cases x)⟩

/-! ### connecting -/

theorem KMask_zero {c : Conn} (h : c.saslSupport = 0) : KMask c := by
  intro hk; simp [h] at hk


/-- the state between an accepted connect call and the TCP connection -/
structure CI (c : Conn) : Prop where
  st : c.state = .connecting
  q : c.queue = []
  hs : ∀ h ∈ c.handlers, h.fn = .userAll
  ids : ∀ h ∈ c.idHandlers, h.fn = .userAll
  tm : ∀ t ∈ c.timed, t.fn ≠ .missingFeatures
  oh : c.openHandler = .stub ∨ c.openHandler = .open_ ∨ c.openHandler = .componentOpen
  en : c.sm.enabled = false
  a0 : c.saslSupport = 0
  o0 : c.g.offeredMechs = 0
  sec : c.secured = false
  txN : ∀ r ∈ c.tx, RecOk r
  smN : ∀ e ∈ c.sm.queue, negItem e.2.item = false

/-- invariant between API calls -/
def SI (c : Conn) : Prop := c.tlsSupport = false ∧ (CI c ∨ Inv none none c)

theorem NoH_userAll {u : Option Nat} {p : HFun → Bool} {c : Conn} (hs : ∀ h ∈ c.handlers, h.fn = .userAll)
    (hp : p .userAll = false) : NoH u p c := by
  intro x hx hpx
  rw [hs x hx, hp] at hpx; cases hpx

/-- the TCP connection is there: the handler world starts from a clean state -/
theorem CI.toInv {c : Conn} (h : CI c) (s' : CState) (hs' : s' ≠ .connecting)
    (hr : s' = .connected → c.resetParser = false) (ts : Nat) :
    Inv none none { c with state := s', timeoutStamp := ts } := by
  have nF : NoH none isF { c with state := s', timeoutStamp := ts } := NoH_userAll h.hs rfl
  have nT : NoH none isT { c with state := s', timeoutStamp := ts } := NoH_userAll h.hs rfl
  have nS : NoH none isS { c with state := s', timeoutStamp := ts } := NoH_userAll h.hs rfl
  have nTM : NoTM none { c with state := s', timeoutStamp := ts } := fun t ht hf => absurd hf (h.tm t ht)
  have nL : ¬LateC { c with state := s', timeoutStamp := ts } := by
    rintro (⟨x, hx, hp⟩ | ⟨x, hx, hp⟩ | l | l | l)
    · rw [h.hs x hx] at hp; cases hp
    · rw [h.ids x hx] at hp; cases hp
    · rcases h.oh with o | o | o <;> simp [o] at l
    · rcases h.oh with o | o | o <;> simp [o] at l
    · have := h.en; simp at l; rw [this] at l; cases l
  have nt : NT { c with state := s', timeoutStamp := ts } := by
    intro m _ ho
    simp [h.o0] at ho
  refine ⟨⟨hs', ?_, ?_, ?_, ?_, ?_, fun _ => nT, .inl ⟨?_, ?_, ?_, ?_⟩⟩,
    ⟨?_, ?_, ?_, .inl ⟨nT, nS⟩, fun _ => ⟨nF, nTM, nT, nS⟩, fun l => absurd l nL, fun _ => h.en, fun x _ => hr x, ?_⟩,
    ⟨fun _ => .inl nt, fun _ => .inl nS, ?_⟩, ⟨h.txN, ?_, h.smN⟩⟩
  · exact fun x hx _ => h.hs x hx
  · exact fun x hx _ => h.ids x hx
  · intro x hx hp; rw [h.hs x hx] at hp; cases hp
  · intro x hx y _ hp; rw [h.hs x hx] at hp; cases hp
  · intro _ _ e he; rw [show ({ c with state := s', timeoutStamp := ts } : Conn).queue = c.queue from rfl, h.q] at he
    cases he
  · intro x hx; rw [h.hs x hx]; rfl
  · intro x hx; rw [h.ids x hx]; rfl
  · rcases h.oh with o | o | o <;> simp [o]
  · rcases h.oh with o | o | o <;> simp [o]
  · intro x hx; rw [h.ids x hx]; rfl
  · intro x hx y _ px; rw [h.hs x hx] at px; cases px
  · intro x hx y _ px; exact absurd px (h.tm x hx)
  · exact fun t ht _ => h.tm t ht
  · intro hk
    simp [h.a0] at hk
  · intro e he; rw [show ({ c with state := s', timeoutStamp := ts } : Conn).queue = c.queue from rfl, h.q] at he
    cases he

theorem CI.established {c : Conn} (h : CI c) (hr : c.resetParser = false) (ts : Nat) :
    Inv none none { c with state := .connected, timeoutStamp := ts } :=
  h.toInv .connected (by simp) (fun _ => hr) ts

theorem CI.withErr {c : Conn} (h : CI c) (er : Int) (ts : Nat) (rp : Bool) (p : PSt) :
    CI { c with error := er, timeoutStamp := ts, resetParser := rp, pst := p } :=
  ⟨h.st, h.q, h.hs, h.ids, h.tm, h.oh, h.en, h.a0, h.o0, h.sec, h.txN, h.smN⟩

theorem CI.disconnect {c : Conn} (h : CI c) : Inv none none (connDisconnect c) := by
  have base := h.toInv .disconnected (by simp) (by simp) c.timeoutStamp
  refine Inv_disc base (by simp) ?_ ?_ ?_ ?_ ?_ (by simp) (by simp) (by simp) (by simp) ?_ (by simp)
  · intro x hx; exact ⟨x, by simpa using hx, rfl, rfl, rfl, rfl⟩
  · intro x hx; exact ⟨x, by simpa using hx, rfl, rfl⟩
  · intro x hx; exact ⟨x, by simpa using hx, rfl, rfl, rfl⟩
  · intro e he; simpa using he
  · exact connDisconnect_enabled (by rw [h.st]; simp)
  · have := KMask_zero (c := c) h.a0
    unfold KMask at *; simpa using this

theorem Inv_connEstablished {c : Conn} (h : Inv none none c) (hs : c.secured = false) (hn : NoH none isT c) :
    Inv none none (connEstablished c) ∧ (connEstablished c).tlsSupport = c.tlsSupport := by
  unfold connEstablished
  split
  · have h1 := Inv_connTlsStart h hs hn
    simp only
    split
    · exact ⟨Inv_connDisconnect h1, by simp⟩
    · exact ⟨Inv_connOpenStream h1, by simp⟩
  · split
    · exact ⟨Inv_notify ((Inv_resetTimed h).same (by simp [SameAll])) _, by simp⟩
    · exact ⟨Inv_connOpenStream h, by simp⟩

/-- the pending parser reset is carried out -/
theorem Inv_resetStep {c : Conn} (h : Inv none none c) :
    Inv none none { c with resetParser := false, pst := if c.resetParser then .fresh else c.pst } := by
  have hfr : Fr { c with resetParser := false, pst := if c.resetParser then .fresh else c.pst } → Fr c := by
    rintro (f | f)
    · cases f
    · cases hr : c.resetParser
      · simp [hr] at f; exact .inr f
      · exact .inl hr
  refine ⟨⟨h.g.nc, h.g.userH, h.g.userI, h.g.ud0, h.g.uniq, h.g.q1, h.g.noT, h.g.gated⟩,
    ⟨h.ph.idFn, h.ph.uniqS, h.ph.uniqTM, h.ph.excl, fun f => h.ph.e5 (hfr f), h.ph.e6, h.ph.e7, fun _ _ => rfl,
      h.ph.userT⟩, ⟨?_, h.me.i2, h.me.k⟩, ⟨h.el.txN, h.el.qN, h.el.smN⟩⟩
  intro hl
  rcases h.me.i1 hl with n | ⟨a, b, d, e⟩
  · exact .inl n
  · exact .inr ⟨a, b, d, fun f => e (hfr f)⟩

theorem PE_foldl_parserEvent (evs : List PEv) {c : Conn} (h : PE c) : PE (evs.foldl parserEvent c) :=
  foldl_pres (P := PE) parserEvent (fun _ a h => PE_parserEvent h a) evs c h

theorem fireTimed_of_not_connected {c : Conn} (h : c.state ≠ .connected) : fireTimed c = c := by
  simp [fireTimed, h]

/-! ### `xmpp_run_once` -/

def roWrite (c : Conn) : Conn :=
  if c.state = .connected then
    let w := writeLoop c
    if w.error ≠ 0 then connDisconnect { w with error := eConnAborted } else w
  else c

def roReset (c1 : Conn) : Conn :=
  { c1 with resetParser := false, pst := if c1.resetParser then .fresh else c1.pst }

def roWait (c3 : Conn) : Conn :=
  if c3.state = .connecting then
    if c3.now - c3.timeoutStamp ≤ Gen.connectTimeout then c3
    else if c3.tcpFail then connDisconnect { c3 with error := eTimedOut }
    else { c3 with timeoutStamp := c3.now }
  else c3

def roRead (c4 : Conn) (rx : Rx) : Conn :=
  if c4.state = .connecting then
    if c4.tcpErr then
      if c4.tcpFail then connDisconnect { c4 with error := -1 }
      else { c4 with timeoutStamp := c4.now }
    else connEstablished { c4 with state := .connected }
  else if c4.state = .connected then
    match rx with
    | .none => c4
    | .data evs => evs.foldl parserEvent c4
    | .eof => connDisconnect { c4 with error := 0 }
    | .ioerr => connDisconnect { c4 with error := eConnReset }
  else c4

theorem runOnce_eq (c : Conn) (rx : Rx) : runOnce c rx =
    let c4 := roWait (fireTimed (roReset (roWrite c)))
    if c4.state = .disconnected then c4
    else
      let readable := match rx with | .none => false | _ => true
      let ready := c4.state = .connecting || readable || (c4.state = .connected && !c4.queue.isEmpty)
      if !ready then c4 else fireTimed (roRead c4 rx) := rfl

/-- invariant inside `xmpp_run_once` after the parser reset step -/
def SI' (c : Conn) : Prop := c.tlsSupport = false ∧ ((CI c ∧ c.resetParser = false) ∨ Inv none none c)

theorem SI'.si {c : Conn} (h : SI' c) : SI c := ⟨h.1, h.2.elim (fun x => .inl x.1) .inr⟩

theorem SI_ite {p : Prop} [Decidable p] {a b : Conn} (ha : SI a) (hb : SI b) : SI (if p then a else b) := by
  split
  · exact ha
  · exact hb

theorem SI_roWrite {c : Conn} (h : SI c) : SI (roWrite c) := by
  unfold roWrite
  split
  · rename_i hc
    rcases h.2 with ci | iv
    · rw [ci.st] at hc; cases hc
    · have w := Inv_writeElems c.queue c iv hc rfl
      simp only [writeLoop]
      exact SI_ite ⟨by simpa [w.2.1] using h.1, .inr (Inv_connDisconnect (w.1.same (by simp [SameAll])))⟩
        ⟨by rw [w.2.1]; exact h.1, .inr w.1⟩
  · exact h

theorem SI'_roReset {c : Conn} (h : SI c) : SI' (roReset c) := by
  unfold roReset
  refine ⟨h.1, ?_⟩
  rcases h.2 with ci | iv
  · exact .inl ⟨ci.withErr c.error c.timeoutStamp _ _, rfl⟩
  · exact .inr (Inv_resetStep iv)

theorem SI'_fireTimed {c : Conn} (h : SI' c) : SI' (fireTimed c) := by
  rcases h.2 with ci | iv
  · rw [fireTimed_of_not_connected (by rw [ci.1.st]; simp)]; exact h
  · have := PE_fireTimed ⟨iv, h.1⟩
    exact ⟨this.2, .inr this.1⟩

theorem SI'_roWait {c : Conn} (h : SI' c) : SI' (roWait c) := by
  unfold roWait
  split
  · rename_i hc
    rcases h.2 with ci | iv
    · split
      · exact h
      · split
        · exact ⟨by simpa using h.1, .inr (ci.1.withErr eTimedOut c.timeoutStamp c.resetParser c.pst).disconnect⟩
        · exact ⟨h.1, .inl ⟨ci.1.withErr c.error c.now c.resetParser c.pst, ci.2⟩⟩
    · exact absurd hc iv.g.nc
  · exact h

theorem SI'_roRead {c : Conn} (h : SI' c) (rx : Rx) : SI' (roRead c rx) := by
  unfold roRead
  split
  · rename_i hc
    rcases h.2 with ci | iv
    · split
      · split
        · exact ⟨by simpa using h.1, .inr (ci.1.withErr (-1) c.timeoutStamp c.resetParser c.pst).disconnect⟩
        · exact ⟨h.1, .inl ⟨ci.1.withErr c.error c.now c.resetParser c.pst, ci.2⟩⟩
      · have e := Inv_connEstablished (c := { c with state := .connected })
          (by simpa using ci.1.established ci.2 c.timeoutStamp) ci.1.sec (NoH_userAll ci.1.hs rfl)
        exact ⟨by rw [e.2]; exact h.1, .inr e.1⟩
    · exact absurd hc iv.g.nc
  · split
    · rename_i hc
      rcases h.2 with ci | iv
      · rw [ci.1.st] at hc; cases hc
      · cases rx with
        | none => exact h
        | data evs =>
          have := PE_foldl_parserEvent evs ⟨iv, h.1⟩
          exact ⟨this.2, .inr this.1⟩
        | eof => exact ⟨by simpa using h.1, .inr (Inv_connDisconnect (iv.same (by simp [SameAll])))⟩
        | ioerr => exact ⟨by simpa using h.1, .inr (Inv_connDisconnect (iv.same (by simp [SameAll])))⟩
    · exact h

theorem SI_runOnce {c : Conn} (h : SI c) (rx : Rx) : SI (runOnce c rx) := by
  rw [runOnce_eq]
  have h4 := SI'_roWait (SI'_fireTimed (SI'_roReset (SI_roWrite h)))
  exact SI_ite h4.si (SI_ite h4.si (SI'_fireTimed (SI'_roRead h4 rx)).si)

/-! ### API calls -/

theorem SI_connConnect {c : Conn} (h : SI c) (domain : Bytes) (t : CType) : SI (connConnect c domain t).1 := by
  unfold connConnect
  split
  · exact h
  · rename_i hd
    have hd : c.state = .disconnected := by simpa using hd
    rcases h.2 with ci | iv
    · rw [ci.st] at hd; cases hd
    · have en := iv.ph.e7 hd
      simp only [connReset, hd, ne_eq, not_true_eq_false, if_false, systemDeleteAll]
      split
      · refine ⟨rfl, .inr (Inv_disc iv (by first | rfl | exact hd) ?_ ?_ ?_ (fun _ he => he) en rfl ⟨rfl, rfl⟩ rfl (by simp) (KMask_zero rfl)
          (by simp))⟩
        · intro x hx; exact ⟨x, (List.mem_filter.1 hx).1, rfl, rfl, rfl, rfl⟩
        · intro x hx; exact ⟨x, (List.mem_filter.1 hx).1, rfl, rfl⟩
        · intro x hx; exact ⟨x, (List.mem_filter.1 hx).1, rfl, rfl, rfl⟩
      · refine ⟨rfl, .inl ⟨rfl, rfl, ?_, ?_, ?_, ?_, en, rfl, rfl, rfl, iv.el.txN, iv.el.smN⟩⟩
        · intro x hx
          have := List.mem_filter.1 hx
          exact iv.g.userH x this.1 (by simpa using this.2)
        · intro x hx
          have := List.mem_filter.1 hx
          exact iv.g.userI x this.1 (by simpa using this.2)
        · intro x hx
          have := List.mem_filter.1 hx
          exact iv.ph.userT x this.1 (by simpa using this.2)
        · simp only [prepareReset]
          split
          · exact .inl rfl
          · split
            · exact .inr (.inl rfl)
            · exact .inr (.inr rfl)

/-- updates of fields nothing depends on -/
theorem SI_same {c c' : Conn} (h : SI c) (sa : SameAll c c') (ts : c'.tlsSupport = c.tlsSupport) : SI c' := by
  refine ⟨ts ▸ h.1, ?_⟩
  obtain ⟨a1, a2, a3, a4, ⟨_, _, _, _, _⟩, ⟨b1, _, b3, _⟩, ⟨c1, c2⟩, a8, _, a10, a11, a12⟩ := sa
  rcases h.2 with ci | iv
  · exact .inl ⟨b1 ▸ ci.st, c1 ▸ ci.q, a1 ▸ ci.hs, a2 ▸ ci.ids, a3 ▸ ci.tm, a8 ▸ ci.oh, a10 ▸ ci.en, a11 ▸ ci.a0,
      a12 ▸ ci.o0, b3 ▸ ci.sec, c2 ▸ ci.txN, a4 ▸ ci.smN⟩
  · exact .inr (iv.same ⟨a1, a2, a3, a4, ⟨‹_›, ‹_›, ‹_›, ‹_›, ‹_›⟩, ⟨b1, ‹_›, b3, ‹_›⟩, ⟨c1, c2⟩, a8, ‹_›, a10, a11, a12⟩)

theorem SI_smInit {c : Conn} (h : SI c) : SI { c with hasSm := true, sm := {} } := by
  refine ⟨h.1, ?_⟩
  rcases h.2 with ci | iv
  · exact .inl ⟨ci.st, ci.q, ci.hs, ci.ids, ci.tm, ci.oh, rfl, ci.a0, ci.o0, ci.sec, ci.txN, by simp⟩
  · exact .inr ((Inv_smUpdate iv {} (by simp) (by simp)).same (by simp [SameAll]))

def applyFlags (c : Conn) (f : Nat) : Conn :=
  { c with tlsDisabled := f &&& Gen.flagDisableTls ≠ 0, tlsMandatory := f &&& Gen.flagMandatoryTls ≠ 0, tlsLegacySsl := f &&& Gen.flagLegacySsl ≠ 0, tlsTrust := f &&& Gen.flagTrustTls ≠ 0, authLegacy := f &&& Gen.flagLegacyAuth ≠ 0, smDisable := f &&& Gen.flagDisableSm ≠ 0, compAllowed := f &&& Gen.flagEnableCompression ≠ 0, compDontReset := f &&& Gen.flagCompressionDontReset ≠ 0 }

def knownFlags : Nat := Gen.flagDisableTls ||| Gen.flagMandatoryTls ||| Gen.flagLegacySsl ||| Gen.flagTrustTls |||
  Gen.flagLegacyAuth ||| Gen.flagDisableSm ||| Gen.flagEnableCompression ||| Gen.flagCompressionDontReset

theorem setFlags_eq (c : Conn) (f : Nat) : setFlags c f =
    if c.state ≠ .disconnected then (c, xmppEInvOp)
    else if (f &&& Gen.flagDisableTls ≠ 0 &&
        (f &&& Gen.flagMandatoryTls ≠ 0 || f &&& Gen.flagLegacySsl ≠ 0 || f &&& Gen.flagTrustTls ≠ 0)) then (c, xmppEInvOp)
    else if f &&& (knownFlags ^^^ 0xFFFFFFFFFFFFFFFF) ≠ 0 then (applyFlags c f, xmppEInvOp)
    else (applyFlags c f, 0) := rfl

theorem SI_applyFlags {c : Conn} (h : SI c) (hd : c.state = .disconnected) (f : Nat) : SI (applyFlags c f) := by
  rcases h.2 with ci | iv
  · rw [ci.st] at hd; cases hd
  · exact ⟨h.1, .inr (Inv_disc iv hd (fun x hx => ⟨x, hx, rfl, rfl, rfl, rfl⟩) (fun x hx => ⟨x, hx, rfl, rfl⟩)
      (fun x hx => ⟨x, hx, rfl, rfl, rfl⟩) (fun _ he => he) (iv.ph.e7 hd) rfl ⟨rfl, rfl⟩ rfl (fun _ he => he) iv.me.k
      (fun x => x))⟩

theorem SI_setFlags {c : Conn} (h : SI c) (f : Nat) : SI (setFlags c f).1 := by
  rw [setFlags_eq]
  split
  · exact h
  · rename_i hd
    have hd : c.state = .disconnected := by simpa using hd
    split
    · exact h
    · split
      · exact SI_applyFlags h hd f
      · exact SI_applyFlags h hd f

theorem SI_connectClient {c : Conn} (h : SI c) : SI (connectClient c).1 := by
  unfold connectClient
  split
  · exact h
  · split
    · exact h
    · simp only
      split
      · exact SI_connConnect h _ _
      · exact SI_connConnect (SI_smInit h) _ _

theorem SI_connectComponent {c : Conn} (h : SI c) : SI (connectComponent c).1 := by
  unfold connectComponent
  split
  · exact h
  · have h1 := SI_setFlags h (getFlags c ||| Gen.flagDisableTls)
    simp only
    split
    · exact h1
    · split
      · exact SI_connConnect h1 _ _
      · exact SI_connConnect (SI_smInit h1) _ _

theorem SI_connectRaw {c : Conn} (h : SI c) : SI (connectRaw c).1 := by
  unfold connectRaw
  split
  · exact h
  · have h1 : SI (connectClient { c with isRaw := true }).1 :=
      SI_connectClient (SI_same h (by simp [SameAll]) rfl)
    simp only
    split
    · exact SI_same h1 (by simp [SameAll]) rfl
    · exact h1

theorem CI.notConn {c : Conn} (ci : CI c) : ¬(c.state = .connected) := by rw [ci.st]; simp

theorem SI_push {c : Conn} (h : SI c) (it : Item) (hn : negItem it = false) :
    SI (sendStanza c it .user) ∧ SI (sendRaw c it .user) ∧
    SI (if isConnectedFor c .user then pushRaw c it .user else c) := by
  rcases h.2 with ci | iv
  · have e1 : isConnectedFor c .user = false := by simp [isConnectedFor, ci.st]
    refine ⟨?_, ?_, ?_⟩
    · rw [sendStanza_eq, e1]; exact h
    · rw [sendRaw_eq, if_neg ci.notConn]; exact h
    · rw [e1]; exact h
  · refine ⟨⟨by simpa using h.1, .inr (Inv_sendStanza' iv _ _ hn)⟩, ⟨by simpa using h.1, .inr (Inv_sendRaw' iv _ _ hn)⟩, ?_⟩
    split
    · exact ⟨by simpa using h.1, .inr (Inv_pushRaw' iv _ _ hn)⟩
    · exact h

theorem userItem_neg {it : Item} (h : it.isUserItem = true) : negItem it = false := by
  cases it <;> simp_all [Item.isUserItem, negItem]

theorem CI.addTimed {c : Conn} (ci : CI c) (fn : TFun) (p : Nat) (u : Bool) (hf : fn ≠ .missingFeatures) :
    CI (addTimed c fn p u) := by
  refine ⟨by simpa using ci.st, by simpa using ci.q, by simpa using ci.hs, by simpa using ci.ids, ?_,
    by simpa using ci.oh, by simpa using ci.en, by simpa using ci.a0, by simpa using ci.o0, by simpa using ci.sec,
    by simpa using ci.txN, by simpa using ci.smN⟩
  intro t ht
  rcases mem_addTimed ht with ht | ⟨e, _⟩
  · exact ci.tm t ht
  · rw [e]; exact hf

theorem SI_xmppDisconnect {c : Conn} (h : SI c) : SI (xmppDisconnect c) := by
  rcases h.2 with ci | iv
  · unfold xmppDisconnect
    split
    · exact h
    · rw [sendRawString_eq, if_neg ci.notConn]
      exact ⟨by simpa using h.1, .inl (ci.addTimed _ _ _ (by simp))⟩
  · exact ⟨by simpa using h.1, .inr (Inv_xmppDisconnect iv)⟩

theorem SI_release {c : Conn} (h : SI c) : SI (release c) := by
  unfold release
  split
  · rcases h.2 with ci | iv
    · exact ⟨by simpa using h.1, .inr ci.disconnect⟩
    · exact ⟨by simpa using h.1, .inr (Inv_connDisconnect iv)⟩
  · exact h

theorem SI_addUserHandlers {c : Conn} (h : SI c) :
    SI (addTimed (addIdHandler (addHandler c .userAll 0 none none none true) .userAll (b "uid1") true)
      .userTimed 1000 true) := by
  refine ⟨by simpa using h.1, ?_⟩
  rcases h.2 with ci | iv
  · refine .inl (CI.addTimed ⟨by simpa using ci.st, by simpa using ci.q, ?_, ?_, by simpa using ci.tm,
      by simpa using ci.oh, by simpa using ci.en, by simpa using ci.a0, by simpa using ci.o0, by simpa using ci.sec,
      by simpa using ci.txN, by simpa using ci.smN⟩ _ _ _ (by simp))
    · intro x hx
      rcases mem_addHandler (by simpa using hx) with hx | ⟨hx, _⟩
      · exact ci.hs x hx
      · subst hx; simp
    · intro x hx
      rcases mem_addIdHandler hx with hx | ⟨hx, _⟩
      · exact ci.ids x (by simpa using hx)
      · exact hx
  · exact .inr (Inv_addTimed (Inv_addIdHandler (Inv_addHandler iv .userAll 0 none none none true (by simp [isF])
      (by simp [isT]) (by simp [isS]) (by simp [isLate]) (by simp)) .userAll (b "uid1") true rfl (by simp [isLate])
      (by simp)) _ _ _ (by simp))

theorem SI_step {c : Conn} (h : SI c) (op : Op)
    (hu : match op with | .usend it | .uraw it | .urawstr it => it.isUserItem = true | _ => True) :
    SI (step c op) := by
  cases op with
  | connect k =>
    cases k with
    | client => exact SI_connectClient h
    | component => exact SI_connectComponent h
    | raw => exact SI_connectRaw h
  | run rx => exact SI_runOnce h rx
  | setTcp f e => exact SI_same h (by simp [SameAll, step]) rfl
  | setTls sf nf => exact SI_same h (by simp [SameAll, step]) rfl
  | setSched l d => exact SI_same h (by simp [SameAll, step]) rfl
  | tick ms => exact SI_same h (by simp [SameAll, step]) rfl
  | usend it => exact (SI_push h it (userItem_neg hu)).1
  | uraw it => exact (SI_push h it (userItem_neg hu)).2.1
  | urawstr it => exact (SI_push h it (userItem_neg hu)).2.2
  | udisc => exact SI_xmppDisconnect h
  | setFlags f => exact SI_setFlags h f
  | release => exact SI_release h
  | addUserHandlers => exact SI_addUserHandlers h
  | setSmCallback => exact SI_same h (by simp [SameAll, step]) rfl
  | setSendOnConnect on => exact SI_same h (by simp [SameAll, step]) rfl

theorem SI_exec (ops : List Op) (hu : userOps ops) {c : Conn} (h : SI c) : SI (exec c ops) := by
  unfold exec
  induction ops generalizing c with
  | nil => exact h
  | cons op ops ih =>
    simp only [List.foldl_cons]
    exact ih (fun o ho => hu o (List.mem_cons_of_mem _ ho)) (SI_step h op (hu op (List.mem_cons_self ..)))

theorem Inv_new (jid pass : Option Bytes) (cert : Bool) : Inv none none { jid := jid, pass := pass, cert := cert } := by
  refine ⟨⟨by simp, by simp, by simp, by simp, by simp, by simp, fun _ => by simp [NoH], .inr (.inl rfl)⟩,
    ⟨by simp, by simp, by simp, .inl ⟨by simp [NoH], by simp [NoH]⟩,
      fun _ => ⟨by simp [NoH], by simp [NoTM], by simp [NoH], by simp [NoH]⟩, ?_, fun _ => rfl, by simp, by simp⟩,
    ⟨by simp, by simp, KMask_zero rfl⟩, ⟨by simp, by simp, by simp⟩⟩
  rintro (⟨x, hx, _⟩ | ⟨x, hx, _⟩ | l | l | l)
  · simp at hx
  · simp at hx
  · simp at l
  · simp at l
  · simp at l

theorem SI_fresh (jid pass : Option Bytes) (cert : Bool) (flags : Nat) : SI (fresh jid pass cert flags) :=
  SI_setFlags ⟨rfl, .inr (Inv_new jid pass cert)⟩ flags

/-- every record of every history satisfies the C02 properties -/
theorem all_records (jid pass : Option Bytes) (cert : Bool) (flags : Nat) (ops : List Op) (hu : userOps ops) :
    ∀ r ∈ (exec (fresh jid pass cert flags) ops).tx, RecOk r := by
  have h := SI_exec ops hu (SI_fresh jid pass cert flags)
  rcases h.2 with ci | iv
  · exact ci.txN
  · exact iv.el.txN

end Strophe.Lemmas.ConnC02
