/-
The invariant behind `contiguous_numbers` and the reachable-state form of
`retained_only_released_by_h`:
  * a disconnected connection has stream management off,
  * while stream management is on and no answer to `<enable/>`/`<resume/>` is pending, the retained
    numbers are consecutive,
  * before the first connect there is no XEP-0198 record.
-/
import Strophe.Lemmas.ConnC04Inv3

namespace Strophe.Lemmas.ConnC04
open Strophe Strophe.Conn

variable {c : Conn}

/-! ### Dis: stream management is off -/

def Dis (c : Conn) : Prop := c.sm.enabled = false

theorem Dis_pushRawWith {it o sn} (h : Dis c) : Dis (pushRawWith c it o sn) :=
  (pushRawWith_same c it o sn).en.trans h
theorem Dis_resetSmForReconnect (_h : Dis c) : Dis (resetSmForReconnect c) :=
  (resetSmForReconnect_same c).2.2.1

theorem Dis_triggerSmCallback (h : Dis c) : Dis (triggerSmCallback c) := h
theorem Dis_addHandler {fn ud ns name type user} (h : Dis c) : Dis (addHandler c fn ud ns name type user) := by
  c4auto addHandler
theorem Dis_addIdHandler {fn id user} (h : Dis c) : Dis (addIdHandler c fn id user) := by
  c4auto addIdHandler
theorem Dis_addTimed {fn period user} (h : Dis c) : Dis (addTimed c fn period user) := by
  c4auto addTimed
theorem Dis_delTimed {fn} (h : Dis c) : Dis (delTimed c fn) := by
  c4auto delTimed
theorem Dis_resetTimed (h : Dis c) : Dis (resetTimed c) := by
  c4auto resetTimed
theorem Dis_systemDeleteAll (h : Dis c) : Dis (systemDeleteAll c) := by
  c4auto systemDeleteAll
theorem Dis_notify {e} (h : Dis c) : Dis (notify c e) := by
  c4auto notify
theorem Dis_connDisconnect (h : Dis c) : Dis (connDisconnect c) := by
  c4auto connDisconnect
theorem Dis_pushRaw {it o} (h : Dis c) : Dis (pushRaw c it o) := by
  c4auto pushRaw
theorem Dis_sendStanza {it o} (h : Dis c) : Dis (sendStanza c it o) := by
  c4auto sendStanza
theorem Dis_sendRaw {it o} (h : Dis c) : Dis (sendRaw c it o) := by
  c4auto sendRaw
theorem Dis_sendRawString {it} (h : Dis c) : Dis (sendRawString c it) := by
  c4auto sendRawString
theorem Dis_xmppDisconnect (h : Dis c) : Dis (xmppDisconnect c) := by
  c4auto xmppDisconnect
theorem Dis_connTlsStart (h : Dis c) : Dis ((connTlsStart c).1) := by
  c4auto connTlsStart
theorem Dis_connOpenStream (h : Dis c) : Dis (connOpenStream c) := by
  c4auto connOpenStream
theorem Dis_prepareReset {o} (h : Dis c) : Dis (prepareReset c o) := h
theorem Dis_negotiationSuccess (h : Dis c) : Dis (negotiationSuccess c) := by
  c4auto negotiationSuccess
theorem Dis_authLegacyStep (h : Dis c) : Dis (authLegacyStep c) := by
  c4auto authLegacyStep
theorem Dis_auth (n : Nat) : ∀ {c}, Dis c → Dis (auth c n) := by
  induction n with
  | zero => intro c h; exact h
  | succ n ih =>
    intro c h
    rw [auth]
    dsimp only
    c4trav
    all_goals first | (apply ih; c4trav) | skip
theorem Dis_authTop (h : Dis c) : Dis (authTop c) := Dis_auth _ h
theorem Dis_saslChild {t} (h : Dis c) : Dis (saslChild c t) := by
  c4auto saslChild
theorem Dis_noteOffers {st} (h : Dis c) : Dis (noteOffers c st) := by
  c4auto noteOffers
theorem Dis_handleFeatures {st} (h : Dis c) : Dis (handleFeatures c st) := by
  c4auto handleFeatures
theorem Dis_doBind (h : Dis c) : Dis (doBind c) := by
  c4auto doBind
theorem Dis_sessionStart (h : Dis c) : Dis (sessionStart c) := by
  c4auto sessionStart
theorem Dis_handleFeaturesSasl {st} (h : Dis c) : Dis (handleFeaturesSasl c st) := by
  c4auto handleFeaturesSasl
theorem Dis_compressionOffer {st} (h : Dis c) : Dis (compressionOffer c st) := by
  c4auto compressionOffer
theorem Dis_handleFeaturesCompress {st} (h : Dis c) : Dis (handleFeaturesCompress c st) := by
  c4auto handleFeaturesCompress
theorem Dis_handleSaslResult {st} (h : Dis c) : Dis (handleSaslResult c st) := by
  c4auto handleSaslResult
theorem Dis_smQueueResend (h : Dis c) : Dis (smQueueResend c) := by
  c4auto smQueueResend
theorem Dis_handleLegacy {st} (h : Dis c) : Dis (handleLegacy c st) := by
  c4auto handleLegacy
theorem Dis_handleError {st} (h : Dis c) : Dis (handleError c st) := by
  c4auto handleError
theorem Dis_componentOpen (h : Dis c) : Dis (componentOpen c) := by
  c4auto componentOpen
theorem Dis_runOpenHandler (h : Dis c) : Dis (runOpenHandler c) := by
  c4auto runOpenHandler

theorem Dis_hsmTail {hb wr} (h : Dis c) : Dis (hsmTail c hb wr) := by
  c4auto hsmTail

/-- after `_handle_sm`: stream management is off, or nothing is retained any more -/
def EQ (c : Conn) : Prop := c.sm.enabled = false ∨ c.sm.queue = []

theorem EQ_resend (c : Conn) : EQ (negotiationSuccess (smQueueResend c)) := by
  right
  rw [(negotiationSuccess_fields _).2.1, smQueueResend_eq]
  exact (resendLoop_same _ _).smq

theorem handleSm_EQ (c : Conn) (st : XTree) : EQ (handleSm c st) := by
  refine handleSm_cases EQ c st ?_ ?_ ?_ ?_
  · intro s' h _; exact .inl h
  · intro _ _ s' _; exact EQ_resend _
  · intro _ _ _ _ _; exact EQ_resend _
  · intro s' hs _ hb wr _
    exact .inl (Dis_hsmTail (c := { c with sm := s' }) hs.enabled)

/-! ### B -/

structure BV (state : CState) (en : Bool) (q : List (UInt32 × QElem)) (nr : UInt32) (hs : List Handler)
    (hasSm : Bool) : Prop where
  dd : state = .disconnected → en = false
  cg : en = true → (hs.any fun h => h.fn = .sys .sm) = false → ContigQ q nr
  hs : hasSm = false → q = [] ∧ state = .disconnected

def B (c : Conn) : Prop := BV c.state c.sm.enabled c.sm.queue c.sm.sentNr c.handlers c.hasSm

theorem B.contig (h : B c) (he : c.sm.enabled = true) (hp : smPending c = false) : Contig c.sm :=
  h.cg he hp

theorem any_sm_append {l : List Handler} {x : Handler} (h : ((l ++ [x]).any fun h => h.fn = .sys .sm) = false) :
    (l.any fun h => h.fn = .sys .sm) = false := by
  rw [List.any_append, Bool.or_eq_false_iff] at h; exact h.1

theorem B_addHandler {fn ud ns name type user} (h : B c) : B (addHandler c fn ud ns name type user) := by
  unfold addHandler; split
  · exact h
  · exact { h with cg := fun he hp => h.cg he (any_sm_append hp) }

/-- handlers are removed, but no XEP-0198 handler -/
theorem B_filterH (p : Handler → Bool) (hp : ∀ x ∈ c.handlers, x.fn = .sys .sm → p x = true) (h : B c) :
    B { c with handlers := c.handlers.filter p } := by
  refine { h with cg := fun he hn => h.cg he ?_ }
  cases hany : (c.handlers.any fun h => h.fn = .sys .sm)
  · rfl
  · exfalso
    rw [List.any_eq_true] at hany
    obtain ⟨x, hx, hfn⟩ := hany
    have hfn : x.fn = .sys .sm := by simpa using hfn
    have : ((c.handlers.filter p).any fun h => h.fn = .sys .sm) = true := by
      rw [List.any_eq_true]
      exact ⟨x, List.mem_filter.2 ⟨hx, hp x hx hfn⟩, by simp [hfn]⟩
    rw [this] at hn; cases hn

theorem B_rec1 (h : B c) : B { c with handlers := c.handlers.filter (fun h => h.fn ≠ .sys .features) } :=
  B_filterH _ (fun x _ hfn => by simp [hfn]) h

theorem any_sm_map {l : List Handler} (f : Handler → Handler) (hf : ∀ x, (f x).fn = x.fn) :
    ((l.map f).any fun h => h.fn = .sys .sm) = (l.any fun h => h.fn = .sys .sm) := by
  rw [List.any_map]; congr 1; funext x; simp [hf]

theorem B_rec2 (h : B c) :
    B { c with handlers := c.handlers.map fun (h : Handler) => { h with enabled := true } } := by
  refine { h with cg := fun he hn => h.cg he ?_ }
  rw [← any_sm_map (fun (h : Handler) => { h with enabled := true }) (fun _ => rfl)]; exact hn

theorem B_rec3 {id : Bytes} (h : B c) :
    B { c with handlers := c.handlers.map fun (h : Handler) => { h with enabled := true },
                idHandlers := c.idHandlers.map fun (h : Handler) =>
                  if h.id = some id then { h with enabled := true } else h } :=
  B_rec2 h

/-- the connection gets established -/
theorem B_rec4 (h : B c) (hs : c.state = .connecting) : B { c with state := .connected } := by
  refine { h with dd := fun hd => (by cases hd), hs := fun hn => ?_ }
  have := (h.hs hn).2
  rw [hs] at this; cases this

/-- first connect: the XEP-0198 record is created -/
theorem B_rec5 : B { c with hasSm := true, sm := {} } :=
  ⟨fun _ => rfl, fun he => (by cases he), fun he => (by cases he)⟩

theorem B_pushRawWith {it o sn} (h : B c) : B (pushRawWith c it o sn) := by
  have hs := pushRawWith_same c it o sn
  unfold B
  rw [hs.state, hs.en, hs.smq, hs.nr, hs.handlers, hs.hasSm]
  exact h

theorem B_connDisconnect (h : B c) : B (connDisconnect c) := by
  unfold connDisconnect
  split
  · exact h
  · obtain ⟨h1, h2, h3, _, _, _, h7, _, _, h10, _⟩ :=
      resetSmForReconnect_same { c with state := .disconnected, negotiated := false, hasTls := false, isRaw := false }
    unfold notify B
    dsimp only
    rw [h1, h2, h3, h7, h10]
    exact ⟨fun _ => rfl, fun he => (by cases he), fun hn => ⟨(h.hs hn).1, rfl⟩⟩

theorem B_retire {e} (h : B c) : B (retire c e) := by
  unfold retire triggerSmCallback
  dsimp only
  split
  · rename_i hb
    have he : c.sm.enabled = true := by
      simp only [Bool.and_eq_true] at hb; exact hb.2
    refine { h with cg := fun _ hp => (h.cg he hp).snoc e, hs := fun hn => ?_ }
    have h1 := (h.hs hn).2
    have := h.dd h1
    rw [he] at this; cases this
  · exact h

theorem B_resend (hdd : c.state = .disconnected → c.sm.enabled = false)
    (hhs : c.hasSm = false → c.state = .disconnected) : B (smQueueResend c) := by
  rw [smQueueResend_eq]
  have hs := resendLoop_same c.sm.queue { c with sm := { c.sm with queue := [] } }
  unfold B
  rw [hs.state, hs.en, hs.smq, hs.nr, hs.handlers, hs.hasSm]
  exact ⟨hdd, fun _ _ => ContigQ.nil _, fun hn => ⟨rfl, hhs hn⟩⟩

theorem B_smQueueResend (h : B c) : B (smQueueResend c) :=
  B_resend h.dd (fun hn => (h.hs hn).2)

theorem B_smElement {st} (h : B c) : B (smHandleStanza.smElement c st) := by
  have key : ∀ (p : UInt32 × QElem → Bool),
      B { c with sm := { c.sm with queue := c.sm.queue.dropWhile p, rSent := false } } := by
    intro p
    refine { h with cg := fun he hp => (h.cg he hp).dropWhile p, hs := fun hn => ⟨?_, (h.hs hn).2⟩ }
    show c.sm.queue.dropWhile p = []
    rw [(h.hs hn).1]; rfl
  have hsend : ∀ it o, B (sendStanza c it o) := by
    intro it o
    unfold sendStanza pushRaw
    split
    · exact B_pushRawWith h
    · exact h
  unfold smHandleStanza.smElement triggerSmCallback
  split
  · exact h
  · split
    · exact hsend _ _
    · split
      · split
        · exact h
        · exact key _
      · exact h

/-! ### NDisc -/

def NDisc (c : Conn) : Prop := c.state ≠ .disconnected

theorem NDisc_triggerSmCallback (h : NDisc c) : NDisc (triggerSmCallback c) := h
theorem NDisc_addHandler {fn ud ns name type user} (h : NDisc c) : NDisc (addHandler c fn ud ns name type user) := by
  c4auto addHandler
theorem NDisc_addIdHandler {fn id user} (h : NDisc c) : NDisc (addIdHandler c fn id user) := by
  c4auto addIdHandler
theorem NDisc_addTimed {fn period user} (h : NDisc c) : NDisc (addTimed c fn period user) := by
  c4auto addTimed
theorem NDisc_delTimed {fn} (h : NDisc c) : NDisc (delTimed c fn) := by
  c4auto delTimed
theorem NDisc_resetTimed (h : NDisc c) : NDisc (resetTimed c) := by
  c4auto resetTimed
theorem NDisc_notify {e} (h : NDisc c) : NDisc (notify c e) := by
  c4auto notify
theorem NDisc_pushRawWith {it o sn} (h : NDisc c) : NDisc (pushRawWith c it o sn) := by
  c4auto pushRawWith
theorem NDisc_pushRaw {it o} (h : NDisc c) : NDisc (pushRaw c it o) := by
  c4auto pushRaw
theorem NDisc_sendStanza {it o} (h : NDisc c) : NDisc (sendStanza c it o) := by
  c4auto sendStanza
theorem NDisc_sendRaw {it o} (h : NDisc c) : NDisc (sendRaw c it o) := by
  c4auto sendRaw
theorem NDisc_sendRawString {it} (h : NDisc c) : NDisc (sendRawString c it) := by
  c4auto sendRawString
theorem NDisc_xmppDisconnect (h : NDisc c) : NDisc (xmppDisconnect c) := by
  c4auto xmppDisconnect
theorem NDisc_negotiationSuccess (h : NDisc c) : NDisc (negotiationSuccess c) := by
  c4auto negotiationSuccess
theorem NDisc_doBind (h : NDisc c) : NDisc (doBind c) := by
  c4auto doBind
theorem NDisc_sessionStart (h : NDisc c) : NDisc (sessionStart c) := by
  c4auto sessionStart

/-! ### B: functions that do not touch the XEP-0198 record -/

theorem B_triggerSmCallback (h : B c) : B (triggerSmCallback c) := h
theorem B_addIdHandler {fn id user} (h : B c) : B (addIdHandler c fn id user) := by
  c4auto addIdHandler
theorem B_addTimed {fn period user} (h : B c) : B (addTimed c fn period user) := by
  c4auto addTimed
theorem B_delTimed {fn} (h : B c) : B (delTimed c fn) := by
  c4auto delTimed
theorem B_resetTimed (h : B c) : B (resetTimed c) := by
  c4auto resetTimed
theorem B_notify {e} (h : B c) : B (notify c e) := by
  c4auto notify
theorem B_pushRaw {it o} (h : B c) : B (pushRaw c it o) := by
  c4auto pushRaw
theorem B_sendStanza {it o} (h : B c) : B (sendStanza c it o) := by
  c4auto sendStanza
theorem B_sendRaw {it o} (h : B c) : B (sendRaw c it o) := by
  c4auto sendRaw
theorem B_sendRawString {it} (h : B c) : B (sendRawString c it) := by
  c4auto sendRawString
theorem B_xmppDisconnect (h : B c) : B (xmppDisconnect c) := by
  c4auto xmppDisconnect
theorem B_connTlsStart (h : B c) : B ((connTlsStart c).1) := by
  c4auto connTlsStart
theorem B_connOpenStream (h : B c) : B (connOpenStream c) := by
  c4auto connOpenStream
theorem B_prepareReset {o} (h : B c) : B (prepareReset c o) := h
theorem B_negotiationSuccess (h : B c) : B (negotiationSuccess c) := by
  c4auto negotiationSuccess
theorem B_authLegacyStep (h : B c) : B (authLegacyStep c) := by
  c4auto authLegacyStep
theorem B_auth (n : Nat) : ∀ {c}, B c → B (auth c n) := by
  induction n with
  | zero => intro c h; exact h
  | succ n ih =>
    intro c h
    rw [auth]
    dsimp only
    c4trav
    all_goals first | (apply ih; c4trav) | skip
theorem B_authTop (h : B c) : B (authTop c) := B_auth _ h
theorem B_saslChild {t} (h : B c) : B (saslChild c t) := by
  c4auto saslChild
theorem B_noteOffers {st} (h : B c) : B (noteOffers c st) := by
  c4auto noteOffers
theorem B_handleFeatures {st} (h : B c) : B (handleFeatures c st) := by
  c4auto handleFeatures
theorem B_doBind (h : B c) : B (doBind c) := by
  c4auto doBind
theorem B_sessionStart (h : B c) : B (sessionStart c) := by
  c4auto sessionStart
theorem B_handleFeaturesSasl {st} (h : B c) : B (handleFeaturesSasl c st) := by
  c4auto handleFeaturesSasl
theorem B_compressionOffer {st} (h : B c) : B (compressionOffer c st) := by
  c4auto compressionOffer
theorem B_handleFeaturesCompress {st} (h : B c) : B (handleFeaturesCompress c st) := by
  c4auto handleFeaturesCompress
theorem B_handleSaslResult {st} (h : B c) : B (handleSaslResult c st) := by
  c4auto handleSaslResult
theorem B_handleLegacy {st} (h : B c) : B (handleLegacy c st) := by
  c4auto handleLegacy
theorem B_handleError {st} (h : B c) : B (handleError c st) := by
  c4auto handleError

theorem B_hsmTail {hb wr} (h : B c) : B (hsmTail c hb wr) := by
  c4auto hsmTail

/-! ### B: switching stream management on -/

theorem addHandler_sm_pending (c : Conn) (ns name type : Option Bytes) (user : Bool) :
    ((addHandler c (.sys .sm) 0 ns name type user).handlers.any fun h => h.fn = .sys .sm) = true := by
  unfold addHandler
  split
  · rename_i h
    rw [List.any_eq_true] at h ⊢
    obtain ⟨x, hx, hp⟩ := h
    exact ⟨x, hx, by simp at hp; simp [hp.1]⟩
  · rw [List.any_append]; simp

theorem sendStanza_same (c : Conn) (it : Item) (o : Owner) : PushSame c (sendStanza c it o) := by
  unfold sendStanza pushRaw
  split
  · exact pushRawWith_same _ _ _ _
  · exact PushSame.refl _

theorem B_smEnable (h : B c) (hnd : NDisc c) : B (smEnable c) := by
  unfold smEnable triggerSmCallback
  dsimp only
  have hs := sendStanza_same (addHandler c (.sys .sm) 0 (some Gen.nsSm) none none false)
    (.enable (!(addHandler c (.sys .sm) 0 (some Gen.nsSm) none none false).sm.dontRequestResume)) .smStrophe
  have hp := addHandler_sm_pending c (some Gen.nsSm) none none false
  have hst : (addHandler c (.sys .sm) 0 (some Gen.nsSm) none none false).state = c.state := by
    unfold addHandler; split <;> rfl
  have hhs : (addHandler c (.sys .sm) 0 (some Gen.nsSm) none none false).hasSm = c.hasSm := by
    unfold addHandler; split <;> rfl
  refine ⟨?_, ?_, ?_⟩
  · intro hd
    exact absurd ((hs.state.trans hst).symm.trans hd) hnd
  · intro _ hn
    rw [hs.handlers, hp] at hn; cases hn
  · intro hn
    have := (h.hs ((hs.hasSm.trans hhs).symm.trans hn)).2
    exact absurd this hnd

theorem B_handleSm {st} (h : B c) (hnd : NDisc c) : B (handleSm c st) := by
  refine handleSm_cases B c st ?_ ?_ ?_ ?_
  · intro s' he hk
    exact ⟨fun _ => he, fun he' => (by rw [he] at he'; cases he'), fun hn => (by rw [hk.queue]; exact h.hs hn)⟩
  · intro he _ s' hk
    apply B_negotiationSuccess
    apply B_smQueueResend
    refine ⟨fun hd => absurd hd hnd, fun _ hp => ?_, fun hn => ?_⟩
    · rw [hk.queue, hk.sentNr]; exact h.cg he hp
    · rw [hk.queue]; exact h.hs hn
  · intro ours v _ _ _
    apply B_negotiationSuccess
    exact B_resend (c := resumedC1 c v) (fun hd => absurd hd hnd) (fun hn => (h.hs hn).2)
  · intro s' hk _ hb wr _
    apply B_hsmTail
    refine ⟨fun _ => hk.enabled, fun he => (by rw [hk.enabled] at he; cases he), fun hn => ⟨?_, (h.hs hn).2⟩⟩
    have := hk.queue
    rw [(h.hs hn).1] at this
    exact List.eq_nil_of_suffix_nil this

theorem B_handleBind {st} (h : B c) (hnd : NDisc c) : B (handleBind c st) := by
  c4auto handleBind

theorem B_handleSession {st} (h : B c) (hnd : NDisc c) : B (handleSession c st) := by
  c4auto handleSession

theorem B_runSys {k st} (h : B c) (hnd : NDisc c) : B (runSys c k st).1 := by
  unfold runSys
  c4trav

theorem B_runHandler {hd st} (h : B c) (hnd : NDisc c) : B (runHandler c hd st).1 := by
  unfold runHandler
  c4trav

theorem quiet_or (st : XTree) (hl : ¬ quiet st) :
    st.name?.getD [] = b "features" ∨ st.name?.getD [] = b "failure" := by
  unfold quiet at hl
  by_cases h1 : st.name?.getD [] = b "features"
  · exact .inl h1
  · by_cases h2 : st.name?.getD [] = b "failure"
    · exact .inr h2
    · exact absurd ⟨h1, h2⟩ hl

/-- on "features" / "failure" the XEP-0198 handler only switches stream management off -/
theorem handleSm_loud {st} (hl : ¬ quiet st) (c : Conn) :
    handleSm c st = { c with sm := { c.sm with enabled := false } } := by
  unfold handleSm
  dsimp only
  rcases quiet_or st hl with e | e <;> rw [e] <;>
    rw [if_neg (by decide), if_neg (by decide), if_neg (by decide)]

theorem B_handleSm_loud {st} (hl : ¬ quiet st) (h : B c) : B (handleSm c st) := by
  rw [handleSm_loud hl]
  exact ⟨fun _ => rfl, fun he => (by cases he), h.hs⟩

theorem B_runSys_loud {k st nm} (hl : ¬ quiet st) (hk : okH (.sys k) nm = true) (h : B c) :
    B (runSys c k st).1 := by
  cases k
  case bind => cases hk
  case session => cases hk
  case legacy => cases hk
  case sm =>
    have := B_handleSm_loud (st := st) hl h
    unfold runSys
    dsimp only
    exact pred_ite_fst (P := B) (fun _ => h) (fun _ => this)
  all_goals
    unfold runSys
    dsimp only
    c4trav

theorem B_runHandler_loud {hd : Handler} {st} (hl : ¬ quiet st) (hw : HW c) (hmem : hd ∈ c.handlers) (h : B c) :
    B (runHandler c hd st).1 := by
  have hok := hw.okh hd hmem
  unfold runHandler
  cases hf : hd.fn with
  | userAll => dsimp only; exact B_notify h
  | sys k =>
    rw [hf] at hok
    dsimp only
    exact B_runSys_loud hl hok h

/-! ### one dispatch -/

/-- during the id-handler phase, and during the handler phase of a quiet stanza -/
def Pq (c : Conn) : Prop := HW c ∧ B c ∧ NDisc c
/-- during the handler phase of a loud stanza -/
def Pl (c : Conn) : Prop := HW c ∧ B c

theorem Pq_fireIdOne {st uid} (h : Pq c) : Pq (fireIdOne st c uid) := by
  unfold fireIdOne
  split
  · exact h
  · rename_i hd hf
    have hmem := List.mem_of_find?_eq_some hf
    split
    · exact h
    · have h1 : HW (runHandler c hd st).1 := HW_runHandler h.1
      have h2 : B (runHandler c hd st).1 := B_runHandler h.2.1 h.2.2
      have h3 : NDisc (runHandler c hd st).1 := by
        have := St_runHandler_id (st := st) h.1 hmem (s := c.state) rfl
        unfold NDisc; rw [this]; exact h.2.2
      split
      rename_i c1 keep heq
      rw [heq] at h1 h2 h3
      split
      · exact ⟨h1, h2, h3⟩
      · exact ⟨HW_rec3 h1, h2, h3⟩

/-- removing the handler that has just run -/
theorem B_remove {c1 : Conn} {hd : Handler} (hw1 : HW c1) (h1 : B c1) (hmem1 : hd ∈ c1.handlers)
    (heq : hd.fn = .sys .sm → EQ c1) :
    B { c1 with handlers := c1.handlers.filter (·.uid ≠ hd.uid) } := by
  by_cases hfn : hd.fn = .sys .sm
  · rcases heq hfn with he | hq
    · exact ⟨h1.dd, fun he' => (by rw [he] at he'; cases he'), h1.hs⟩
    · exact ⟨h1.dd, fun _ _ => (by rw [hq]; exact ContigQ.nil _), h1.hs⟩
  · refine B_filterH _ ?_ h1
    intro x hx hxfn
    -- another handler with the same uid would be the same handler
    by_cases hu : x.uid = hd.uid
    · have := eq_of_uid_eq hw1.ndh hx hmem1 hu
      rw [this] at hxfn; exact absurd hxfn hfn
    · simp [hu]

theorem runHandler_sm_EQ {hd : Handler} {st} {c1 : Conn} (hfn : hd.fn = .sys .sm)
    (heq : runHandler c hd st = (c1, false)) : EQ c1 := by
  unfold runHandler at heq
  rw [hfn] at heq
  unfold runSys at heq
  dsimp only at heq
  split at heq
  · cases heq
  · injection heq with h1 _
    rw [← h1]; exact handleSm_EQ c st

theorem Pq_fireOne {st uid} (hq : quiet st) (h : Pq c) : Pq (fireOne st c uid) := by
  unfold fireOne
  split
  · exact h
  · rename_i hd hf
    have hmem := List.mem_of_find?_eq_some hf
    have huid : hd.uid = uid := by simpa using List.find?_some hf
    split
    · exact h
    · split
      · rename_i hm
        have h1 : HW (runHandler c hd st).1 := HW_runHandler h.1
        have h2 : B (runHandler c hd st).1 := B_runHandler h.2.1 h.2.2
        have h3 : NDisc (runHandler c hd st).1 := by
          have := St_runHandler_quiet hq h.1 hmem hm (s := c.state) rfl
          unfold NDisc; rw [this]; exact h.2.2
        have h4 : HasH hd (runHandler c hd st).1 := HasH_runHandler hmem
        split
        rename_i c1 keep heq
        rw [heq] at h1 h2 h3 h4
        cases keep
        · rw [if_neg (by simp)]
          rw [← huid]
          exact ⟨HW_rec2 h1, B_remove h1 h2 h4 (fun hfn => runHandler_sm_EQ hfn heq), h3⟩
        · rw [if_pos rfl]; exact ⟨h1, h2, h3⟩
      · exact h

theorem Pl_fireOne {st uid} (hl : ¬ quiet st) (h : Pl c) : Pl (fireOne st c uid) := by
  unfold fireOne
  split
  · exact h
  · rename_i hd hf
    have hmem := List.mem_of_find?_eq_some hf
    have huid : hd.uid = uid := by simpa using List.find?_some hf
    split
    · exact h
    · split
      · have h1 : HW (runHandler c hd st).1 := HW_runHandler h.1
        have h2 : B (runHandler c hd st).1 := B_runHandler_loud hl h.1 hmem h.2
        have h4 : HasH hd (runHandler c hd st).1 := HasH_runHandler hmem
        split
        rename_i c1 keep heq
        rw [heq] at h1 h2 h4
        cases keep
        · rw [if_neg (by simp)]
          rw [← huid]
          exact ⟨HW_rec2 h1, B_remove h1 h2 h4 (fun hfn => runHandler_sm_EQ hfn heq)⟩
        · rw [if_pos rfl]; exact ⟨h1, h2⟩
      · exact h

theorem Pl_handlerPhase {st} (c1 : Conn) (h : Pq c1) :
    Pl ((c1.handlers.map (·.uid)).foldl (fireOne st) c1) := by
  by_cases hq : quiet st
  · have := pred_foldl (P := Pq) (fun c x hc => Pq_fireOne (uid := x) hq hc) (c1.handlers.map (·.uid)) h
    exact ⟨this.1, this.2.1⟩
  · exact pred_foldl (P := Pl) (fun c x hc => Pl_fireOne (uid := x) hq hc) _ ⟨h.1, h.2.1⟩

theorem Pl_fireStanza {st} (h : Pq c) : Pl (fireStanza c st) := by
  unfold fireStanza
  dsimp only
  refine Pl_handlerPhase _ ?_
  split
  · refine pred_foldl (P := Pq) (fun c x hc => Pq_fireIdOne hc) _ ?_
    exact ⟨HW_rec6 h.1, B_rec3 h.2.1, h.2.2⟩
  · exact ⟨HW_rec5 h.1, B_rec2 h.2.1, h.2.2⟩

/-! ### the combined invariant -/

def K (c : Conn) : Prop := HW c ∧ B c

theorem B_smHandleStanza {st} (h : B c) : B (smHandleStanza c st) := by
  c4auto smHandleStanza

theorem K_handleStreamStanza {st} (h : K c) : K (handleStreamStanza c st) := by
  unfold handleStreamStanza
  refine pred_ite (P := K) (fun _ => h) (fun hs => ?_)
  dsimp only
  have := Pl_fireStanza (st := st) ⟨h.1, h.2, hs⟩
  refine pred_ite (P := K) (fun _ => ?_) (fun _ => ?_)
  · exact ⟨HW_smHandleStanza (c := { (fireStanza c st) with rxLog := _ }) this.1,
      B_smHandleStanza (c := { (fireStanza c st) with rxLog := _ }) this.2⟩
  · exact this

theorem B_componentOpen (h : B c) : B (componentOpen c) := by
  c4auto componentOpen
theorem B_runOpenHandler (h : B c) : B (runOpenHandler c) := by
  c4auto runOpenHandler
theorem B_handleStreamStart {n id} (h : B c) : B (handleStreamStart c n id) := by
  c4auto handleStreamStart
theorem B_handleStreamEnd (h : B c) : B (handleStreamEnd c) := by
  c4auto handleStreamEnd
theorem B_runTimed {f} (h : B c) : B ((runTimed c f).1) := by
  c4auto runTimed
theorem B_fireTimedOne {uid} (h : B c) : B (fireTimedOne c uid) := by
  c4auto fireTimedOne
theorem B_fireTimed (h : B c) : B (fireTimed c) := by
  c4auto fireTimed
theorem B_writeElems (l : List QElem) : ∀ {c}, B c → B (writeElems c l) := by
  induction l with
  | nil => intro c h; exact h
  | cons e q ih =>
    intro c h
    unfold writeElems
    c4trav
    all_goals first | (apply ih; c4trav) | skip
theorem B_writeLoop (h : B c) : B (writeLoop c) := B_writeElems _ h
theorem B_connEstablished (h : B c) : B (connEstablished c) := by
  c4auto connEstablished
theorem B_xmppSend {it} (h : B c) : B (xmppSend c it) := by
  c4auto xmppSend
theorem B_xmppSendRawString {it} (h : B c) : B (xmppSendRawString c it) := by
  c4auto xmppSendRawString
theorem B_xmppSendRaw {it} (h : B c) : B (xmppSendRaw c it) := by
  c4auto xmppSendRaw
theorem B_release (h : B c) : B (release c) := by
  c4auto release
theorem B_setFlags {f} (h : B c) : B ((setFlags c f).1) := by
  c4auto setFlags

theorem B_connReset (h : B c) : B (connReset c) := by
  unfold connReset systemDeleteAll
  refine pred_ite (P := B) (fun _ => h) (fun hs => ?_)
  have hs : c.state = .disconnected := by simpa using hs
  exact ⟨h.dd, fun he => (by rw [h.dd hs] at he; cases he), h.hs⟩

theorem B_connConnect {d t} (h : B c) (hsm : c.hasSm = true) : B (connConnect c d t).1 := by
  unfold connConnect
  refine pred_ite_fst (P := B) (fun _ => h) (fun hs => ?_)
  have hs : c.state = .disconnected := by simpa using hs
  have hr := B_connReset h
  have e1 : (connReset c).sm = c.sm := by
    unfold connReset systemDeleteAll; rw [if_neg (by simp [hs])]
  have e2 : (connReset c).hasSm = c.hasSm := by
    unfold connReset systemDeleteAll; rw [if_neg (by simp [hs])]
  have e3 : (connReset c).state = .disconnected := by
    unfold connReset systemDeleteAll; rw [if_neg (by simp [hs])]; exact hs
  dsimp only
  refine pred_ite_fst (P := B) (fun _ => hr) (fun _ => ?_)
  refine ⟨fun hd => (by cases hd), fun he => ?_, fun hn => ?_⟩
  · have : (connReset c).sm.enabled = false := hr.dd e3
    have he' : (connReset c).sm.enabled = true := he
    rw [this] at he'; cases he'
  · have hn' : (connReset c).hasSm = false := hn
    rw [e2, hsm] at hn'; cases hn'

theorem B_connectClient (h : B c) : B (connectClient c).1 := by
  unfold connectClient
  split
  · exact h
  · refine pred_ite_fst (P := B) (fun _ => h) (fun _ => ?_)
    dsimp only
    by_cases hs : c.hasSm = true
    · rw [if_pos hs]; exact B_connConnect h hs
    · rw [if_neg hs]; exact B_connConnect B_rec5 rfl

theorem B_connectComponent (h : B c) : B (connectComponent c).1 := by
  unfold connectComponent
  refine pred_ite_fst (P := B) (fun _ => h) (fun _ => ?_)
  have h1 : B (setFlags c (getFlags c ||| Gen.flagDisableTls)).1 := B_setFlags h
  generalize (setFlags c (getFlags c ||| Gen.flagDisableTls)) = p at h1 ⊢
  obtain ⟨c1, rc⟩ := p
  dsimp only at h1 ⊢
  refine pred_ite_fst (P := B) (fun _ => h1) (fun _ => ?_)
  by_cases hs : c1.hasSm = true
  · rw [if_pos hs]; exact B_connConnect h1 hs
  · rw [if_neg hs]; exact B_connConnect B_rec5 rfl

theorem B_connectRaw (h : B c) : B (connectRaw c).1 := by
  unfold connectRaw
  refine pred_ite_fst (P := B) (fun _ => h) (fun _ => ?_)
  have h1 : B (connectClient { c with isRaw := true }).1 := B_connectClient (c := { c with isRaw := true }) h
  generalize (connectClient { c with isRaw := true }) = p at h1 ⊢
  obtain ⟨c1, rc⟩ := p
  dsimp only at h1 ⊢
  exact pred_ite_fst (P := B) (fun _ => h1) (fun _ => h1)

/-! ### K along the event loop -/

theorem K_rec1 (h : K c) (hs : c.state = .connecting) : K { c with state := .connected } :=
  ⟨h.1, B_rec4 h.2 hs⟩
theorem K_handleStreamStart {n id} (h : K c) : K (handleStreamStart c n id) :=
  ⟨HW_handleStreamStart h.1, B_handleStreamStart h.2⟩
theorem K_handleStreamEnd (h : K c) : K (handleStreamEnd c) :=
  ⟨HW_handleStreamEnd h.1, B_handleStreamEnd h.2⟩
theorem K_sendStanza {it o} (h : K c) : K (sendStanza c it o) :=
  ⟨HW_sendStanza h.1, B_sendStanza h.2⟩
theorem K_parserEvent {e} (h : K c) : K (parserEvent c e) := by
  c4auto parserEvent
theorem K_writeLoop (h : K c) : K (writeLoop c) :=
  ⟨HW_writeLoop h.1, B_writeLoop h.2⟩
theorem K_connDisconnect (h : K c) : K (connDisconnect c) :=
  ⟨HW_connDisconnect h.1, B_connDisconnect h.2⟩
theorem K_fireTimed (h : K c) : K (fireTimed c) :=
  ⟨HW_fireTimed h.1, B_fireTimed h.2⟩
theorem K_connEstablished (h : K c) : K (connEstablished c) :=
  ⟨HW_connEstablished h.1, B_connEstablished h.2⟩
theorem K_runOnce {rx} (h : K c) : K (runOnce c rx) := by
  unfold runOnce
  c4trav

theorem K_step (op : Op) (h : K c) : K (step c op) := by
  cases op with
  | connect k =>
    cases k
    · exact ⟨HW_connectClient h.1, B_connectClient h.2⟩
    · exact ⟨HW_connectComponent h.1, B_connectComponent h.2⟩
    · exact ⟨HW_connectRaw h.1, B_connectRaw h.2⟩
  | run rx => exact K_runOnce h
  | setTcp f e => exact h
  | setTls sf nf => exact h
  | setSched l d => exact h
  | tick ms => exact h
  | setSmCallback => exact h
  | setSendOnConnect on => exact h
  | setFlags f => exact ⟨HW_setFlags h.1, B_setFlags h.2⟩
  | usend it => exact ⟨HW_xmppSend h.1, B_xmppSend h.2⟩
  | uraw it => exact ⟨HW_xmppSendRaw h.1, B_xmppSendRaw h.2⟩
  | urawstr it => exact ⟨HW_xmppSendRawString h.1, B_xmppSendRawString h.2⟩
  | udisc => exact ⟨HW_xmppDisconnect h.1, B_xmppDisconnect h.2⟩
  | release => exact ⟨HW_release h.1, B_release h.2⟩
  | addUserHandlers =>
    exact ⟨HW_addTimed' rfl (HW_addIdHandler' rfl (HW_addHandler' rfl h.1)), B_addTimed (B_addIdHandler (B_addHandler h.2))⟩

theorem K_exec (ops : List Op) : ∀ {c}, K c → K (exec c ops) := by
  induction ops with
  | nil => intro c h; exact h
  | cons op ops ih => intro c h; exact ih (K_step op h)

theorem B_fresh (jid pass : Option Bytes) (cert : Bool) (flags : Nat) : B (fresh jid pass cert flags) := by
  unfold fresh
  apply B_setFlags
  exact ⟨fun _ => rfl, fun he => (by cases he), fun _ => ⟨rfl, rfl⟩⟩

theorem K_reach (jid pass : Option Bytes) (cert : Bool) (flags : Nat) (ops : List Op) :
    K (exec (fresh jid pass cert flags) ops) :=
  K_exec ops ⟨HW_fresh jid pass cert flags, B_fresh jid pass cert flags⟩

end Strophe.Lemmas.ConnC04
