/-
The library functions that are built from other public calls (copy, new_from_string, reply, reply_error,
error_new) respect the ownership rules themselves: they run without a fault and leave the invariant with
exactly one new reference — the returned stanza — in the caller's hands.
-/
import Strophe.Lemmas.StoreOps

namespace Strophe.Store
open Strophe Strophe.Stanza

/-- the caller's references after a function returned a new stanza (or NULL) -/
def holdNew (hold : Nat → Nat) : Option Nat → (Nat → Nat)
  | some id => bump hold id
  | none => hold

theorem copy_inv {m : Mem} {G : Ghost} {hold : Nat → Nat} {s : Nat} (h : Inv m G hold)
    (hl : (m.get s).live = true) :
    ∃ m' r G', copy m s = .ok (m', r) ∧ Inv m' G' (holdNew hold r) := by
  obtain ⟨t, ht⟩ := exportTree_ok h hl
  unfold copy
  simp only [bind, Except.bind, ht]
  cases hc : Stanza.copy t with
  | none => exact ⟨m, none, G, rfl, h⟩
  | some t' =>
    obtain ⟨m', G', he, hi, _⟩ := importTree_inv t' m G hold h
    exact ⟨m', some m.size, G', by simp [he, bind, Except.bind, pure, Except.pure], hi⟩

theorem fromString_inv {m : Mem} {G : Ghost} {hold : Nat → Nat} (b : Bytes) (h : Inv m G hold) :
    ∃ m' r G', fromString m b = .ok (m', r) ∧ Inv m' G' (holdNew hold r) := by
  unfold fromString
  cases hc : Stanza.fromString b with
  | none => exact ⟨m, none, G, rfl, h⟩
  | some t' =>
    obtain ⟨m', G', he, hi, _⟩ := importTree_inv t' m G hold h
    exact ⟨m', some m.size, G', by simp [he, bind, Except.bind, pure, Except.pure], hi⟩

/-- `xmpp_stanza_reply`, with what `xmpp_stanza_reply_error` needs to know about the result -/
theorem reply_inv {m : Mem} {G : Ghost} {hold : Nat → Nat} {s : Nat} (h : Inv m G hold)
    (hl : (m.get s).live = true) :
    ∃ m' r G', reply m s = .ok (m', r) ∧ Inv m' G' (holdNew hold r) ∧
      (r = none → m' = m) ∧ (m'.get s).live = true := by
  unfold reply
  rw [Mem.deref_of_live hl]
  simp only [bind, Except.bind]
  cases hc : Stanza.reply (mkTree (m.get s) []) with
  | none => exact ⟨m, none, G, rfl, h, fun _ => rfl, hl⟩
  | some t' =>
    obtain ⟨m', G', he, hi, hk, _⟩ := importTree_inv t' m G hold h
    refine ⟨m', some m.size, G', by simp [he, bind, Except.bind, pure, Except.pure], hi, ?_, ?_⟩
    · intro hh; cases hh
    · rw [(hk.2 s (Mem.live_lt hl)).1]; exact hl

/-- liveness is part of the pointer view -/
theorem live_of_ptr {m m' : Mem} (hp : (∀ x, PtrEq (m'.get x) (m.get x)) ∧ m'.size = m.size) (x : Nat) :
    (m'.get x).live = (m.get x).live := (hp.1 x).1


theorem replyErrorBody_inv {m3 : Mem} {Ga : Ghost} {hold : Nat → Nat} {r : Nat} (et cond : Bytes)
    (tx : Option Bytes) (hi3 : Inv m3 Ga (bump hold r)) :
    ∃ m' G', replyErrorBody m3 r et cond tx = .ok (m', some r) ∧ Inv m' G' (bump hold r) := by
  have hr0 : 0 < bump hold r r := by simp [bump]
  -- error = xmpp_stanza_new; set_name; set_type; add_child(reply, error); release(error)
  obtain ⟨hi4, hk4, hnp4, _⟩ := fresh_facts hi3
  have hre : r ≠ m3.size := Nat.ne_of_lt (Mem.live_lt (held_live hi3 hr0))
  have he0 : 0 < bump (bump hold r) m3.size m3.size := by simp [bump]
  obtain ⟨m5, rc5, e5, hi5, hs5⟩ := setName_good sError hi4 (held_live hi4 he0)
  obtain ⟨m6, rc6, e6, hi6, hs6⟩ := setAttribute_good kType et hi5 (held_live hi5 he0)
  have hr6 : (m6.get r).live = true := held_live hi6 (by simp [bump]; split <;> omega)
  obtain ⟨m7, m8, e7, e8, hi8, hs8⟩ := add_release_inv hi6 hr6 hk4 hnp4 hre
  have hmem_e : m3.size ∈ (attachG Ga r m3.size).kids r := mem_attachG.mpr (Or.inr ⟨rfl, rfl⟩)
  -- item = xmpp_stanza_new; set_name(condition); set_ns; add_child(error, item); release(item)
  obtain ⟨hi9, hk9, hnp9, _⟩ := fresh_facts hi8
  have hi0 : 0 < bump (bump hold r) m8.size m8.size := by simp [bump]
  have hei : m3.size ≠ m8.size := Nat.ne_of_lt (Mem.live_lt (hi8.kid_live hmem_e))
  obtain ⟨m10, rc10, e10, hi10, hs10⟩ := setName_good cond hi9 (held_live hi9 hi0)
  obtain ⟨m11, rc11, e11, hi11, hs11⟩ := setAttribute_good xmlnsKey nsStanzas hi10 (held_live hi10 hi0)
  obtain ⟨m12, m13, e12, e13, hi13, hs13⟩ := add_release_inv hi11 (hi11.kid_live hmem_e) hk9 hnp9 hei
  cases tx with
  | none =>
    refine ⟨m13, _, ?_, hi13⟩
    simp [replyErrorBody, bind, Except.bind, stanzaNew_eq, e5, e6, e7, e8, e10, e11, e12, e13,
      pure, Except.pure]
  | some tx =>
    have hmem_e' : m3.size ∈ (attachG (attachG Ga r m3.size) m3.size m8.size).kids r :=
      mem_attachG.mpr (Or.inl hmem_e)
    -- item = xmpp_stanza_new; set_name("text"); set_ns; add_child(error, item); release(item)
    obtain ⟨hi14, hk14, hnp14, _⟩ := fresh_facts hi13
    have hj0 : 0 < bump (bump hold r) m13.size m13.size := by simp [bump]
    have hej : m3.size ≠ m13.size := Nat.ne_of_lt (Mem.live_lt (hi13.kid_live hmem_e'))
    obtain ⟨m15, rc15, e15, hi15, hs15⟩ := setName_good sText hi14 (held_live hi14 hj0)
    obtain ⟨m16, rc16, e16, hi16, hs16⟩ := setAttribute_good xmlnsKey nsStanzas hi15 (held_live hi15 hj0)
    obtain ⟨m17, m18, e17, e18, hi18, hs18⟩ := add_release_inv hi16 (hi16.kid_live hmem_e') hk14 hnp14 hej
    have hmem_j : m13.size ∈
        (attachG (attachG (attachG Ga r m3.size) m3.size m8.size) m3.size m13.size).kids m3.size :=
      mem_attachG.mpr (Or.inr ⟨rfl, rfl⟩)
    -- text_stanza = xmpp_stanza_new; set_text; add_child(item, text_stanza); release(text_stanza)
    obtain ⟨hi19, hk19, hnp19, _⟩ := fresh_facts hi18
    have hk0 : 0 < bump (bump hold r) m18.size m18.size := by simp [bump]
    have hjk : m13.size ≠ m18.size := Nat.ne_of_lt (Mem.live_lt (hi18.kid_live hmem_j))
    obtain ⟨m20, rc20, e20, hi20, hs20⟩ := setText_good tx hi19 (held_live hi19 hk0)
    obtain ⟨m21, m22, e21, e22, hi22, hs22⟩ := add_release_inv hi20 (hi20.kid_live hmem_j) hk19 hnp19 hjk
    refine ⟨m22, _, ?_, hi22⟩
    simp [replyErrorBody, bind, Except.bind, stanzaNew_eq, e5, e6, e7, e8, e10, e11, e12, e13,
      e15, e16, e17, e18, e20, e21, e22, pure, Except.pure]

theorem replyError_inv {m : Mem} {G : Ghost} {hold : Nat → Nat} {s : Nat} (et cond tx : Option Bytes)
    (h : Inv m G hold) (hl : (m.get s).live = true) :
    ∃ m' r G', replyError m s et cond tx = .ok (m', r) ∧ Inv m' G' (holdNew hold r) := by
  cases et with
  | none => exact ⟨m, none, G, by simp [replyError, pure, Except.pure], h⟩
  | some et =>
  cases cond with
  | none => exact ⟨m, none, G, by simp [replyError, pure, Except.pure], h⟩
  | some cond =>
  obtain ⟨ma, ra, Ga, ea, hia, hnone, hsa⟩ := reply_inv h hl
  cases ra with
  | none => exact ⟨ma, none, Ga, by simp [replyError, ea, bind, Except.bind, pure, Except.pure], hia⟩
  | some r =>
  simp only [holdNew] at hia
  have hr0 : 0 < bump hold r r := by simp [bump]
  -- xmpp_stanza_set_type(reply, "error")
  obtain ⟨m1, rc1, e1, hi1, hs1⟩ := setAttribute_good kType sError hia (held_live hia hr0)
  have hs1l : (m1.get s).live = true := by rw [live_of_ptr (setAttribute_ptr e1)]; exact hsa
  -- xmpp_stanza_get_to(stanza)
  obtain ⟨to, e2⟩ := getAttribute_ok kTo hs1l
  cases to with
  | none =>
    obtain ⟨m', G', e4, hi4⟩ := replyErrorBody_inv et cond tx hi1
    exact ⟨m', some r, G', by simp [replyError, ea, bind, Except.bind, e1, e2, e4], hi4⟩
  | some to =>
    -- xmpp_stanza_set_from(reply, to)
    obtain ⟨m3, rc3, e3, hi3, _⟩ := setAttribute_good kFrom to hi1 (held_live hi1 hr0)
    obtain ⟨m', G', e4, hi4⟩ := replyErrorBody_inv et cond tx hi3
    exact ⟨m', some r, G', by simp [replyError, ea, bind, Except.bind, e1, e2, e3, e4], hi4⟩


theorem errorNew_inv {m : Mem} {G : Ghost} {hold : Nat → Nat} (ty : Int) (tx : Option Bytes) (h : Inv m G hold) :
    ∃ m' G', errorNew m ty tx = .ok (m', m.size) ∧ Inv m' G' (bump hold m.size) := by
  -- error = _stanza_new_with_attrs(ctx, "stream:error", ...)
  obtain ⟨hi1, _, hnpe, _⟩ := fresh_facts h
  have he0 : 0 < bump hold m.size m.size := by simp [bump]
  obtain ⟨m2, rc2, e2, hi2, hs2⟩ := setName_good (bytesOfNats Gen.Stanza.streamErrorElement) hi1 (held_live hi1 he0)
  -- error_type = xmpp_stanza_new; set_name; set_ns; add_child_ex(error, error_type, 0)
  obtain ⟨hi3, _, hnpt, _⟩ := fresh_facts hi2
  have ht0 : 0 < bump (bump hold m.size) m2.size m2.size := by simp [bump]
  have hs2' : m2.size = m.size + 1 := by rw [hs2]; simp
  have het : m.size ≠ m2.size := by omega
  obtain ⟨m4, rc4, e4, hi4, hs4⟩ := setName_good
    (bytesOfNats (if ty < 0 then Gen.Stanza.streamErrorDefault
      else Gen.Stanza.streamErrorNames.getD ty.toNat Gen.Stanza.streamErrorDefault)) hi3 (held_live hi3 ht0)
  obtain ⟨m5, rc5, e5, hi5, hs5⟩ := setAttribute_good xmlnsKey nsStreams hi4 (held_live hi4 ht0)
  have hle5 : (m5.get m.size).live = true := held_live hi5 (by simp [bump]; split <;> omega)
  obtain ⟨m6, e6, hi6, hs6⟩ := attach_root_inv hi5 hle5 hnpe hnpt het
  cases tx with
  | none =>
    refine ⟨m6, _, ?_, hi6⟩
    simp only [errorNew, bind, Except.bind, stanzaNew_eq, e2, e4, e5, e6, pure, Except.pure]
  | some tx =>
    have hsz6 : m6.size = m.size + 2 := by rw [hs6, hs5, hs4]; simp; omega
    -- error_text = xmpp_stanza_new; content = xmpp_stanza_new
    obtain ⟨hi7, _, hnpx, _⟩ := fresh_facts hi6
    obtain ⟨hi8, _, hnpy, _⟩ := fresh_facts hi7
    have hsz7 : (m6.push Node.fresh).size = m6.size + 1 := by simp
    have hx0 : 0 < bump (bump (bump hold m.size) m6.size) (m6.push Node.fresh).size m6.size := by
      simp [bump]
    have hy0 : 0 < bump (bump (bump hold m.size) m6.size) (m6.push Node.fresh).size (m6.push Node.fresh).size := by
      simp [bump]
    obtain ⟨m9, rc9, e9, hi9, hs9⟩ := setName_good sText hi8 (held_live hi8 hx0)
    obtain ⟨m10, rc10, e10, hi10, hs10⟩ := setAttribute_good xmlnsKey nsStreams hi9 (held_live hi9 hx0)
    obtain ⟨m11, rc11, e11, hi11, hs11⟩ := setText_good tx hi10 (held_live hi10 hy0)
    have hxy : m6.size ≠ (m6.push Node.fresh).size := by simp
    -- add_child_ex(error_text, content, 0)
    obtain ⟨m12, e12, hi12, hs12⟩ := attach_root_inv hi11 (held_live hi11 hx0) hnpx hnpy hxy
    -- add_child_ex(error, error_text, 0)
    have hle12 : (m12.get m.size).live = true := held_live hi12 (by simp [bump]; split <;> omega)
    have hex : m.size ≠ m6.size := by omega
    have hroot12 : ¬ HasPar (attachG (attachG G m.size m2.size) m6.size (m6.push Node.fresh).size) m.size := by
      rw [hasPar_attachG, hasPar_attachG]
      rintro ((hh | hh) | hh)
      · exact hnpe hh
      · exact het hh
      · simp at hh; omega
    have hnp12 : ¬ HasPar (attachG (attachG G m.size m2.size) m6.size (m6.push Node.fresh).size) m6.size := by
      rw [hasPar_attachG]
      rintro (hh | hh)
      · exact hnpx hh
      · exact hxy hh
    obtain ⟨m13, e13, hi13, hs13⟩ := attach_root_inv hi12 hle12 hroot12 hnp12 hex
    refine ⟨m13, _, ?_, hi13⟩
    simp only [errorNew, bind, Except.bind, stanzaNew_eq, e2, e4, e5, e6, e9, e10, e11, e12, e13, pure, Except.pure]

end Strophe.Store
