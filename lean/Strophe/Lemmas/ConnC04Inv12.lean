/-
Consecutive numbers while a session is resumable, part 2: one dispatch, the event loop, reachable
states.
-/
import Strophe.Lemmas.ConnC04Inv11

namespace Strophe.Lemmas.ConnC04
open Strophe Strophe.Conn

variable {c : Conn}

theorem Rs_runSys {k st} (h : Rs c) (hz : (k = .featuresSasl ∨ k = .featuresCompress) → NoIdTok c)
    (hb : (k = .bind ∨ k = .session) → Off c ∧ NR c) : Rs (runSys c k st).1 := by
  cases k
  case featuresSasl =>
    have hz := hz (.inl rfl)
    unfold runSys; exact Rs_handleFeaturesSasl h hz
  case featuresCompress =>
    have hz := hz (.inr rfl)
    unfold runSys; exact Rs_handleFeaturesCompress h hz
  case bind =>
    obtain ⟨ho, hn⟩ := hb (.inl rfl)
    unfold runSys; exact Rs_handleBind h ho hn
  case session =>
    obtain ⟨ho, hn⟩ := hb (.inr rfl)
    unfold runSys; exact Rs_handleSession h ho hn
  all_goals
    unfold runSys
    dsimp only
    c4trav

theorem Rs_runHandler {hd : Handler} {st} (h : Rs c)
    (hz : (hd.fn = .sys .featuresSasl ∨ hd.fn = .sys .featuresCompress) → NoIdTok c)
    (hb : (hd.fn = .sys .bind ∨ hd.fn = .sys .session) → Off c ∧ NR c) : Rs (runHandler c hd st).1 := by
  unfold runHandler
  cases hf : hd.fn with
  | userAll => dsimp only; exact Rs_notify h
  | sys k =>
    dsimp only
    apply Rs_runSys h
    · intro hk; apply hz; rw [hf]; rcases hk with e | e <;> rw [e] <;> simp
    · intro hk; apply hb; rw [hf]; rcases hk with e | e <;> rw [e] <;> simp

/-- no bind / session request is pending while a stanza handler of the negotiation is -/
theorem NoIdTok_of_tokH {ut : Option Nat} {hd : Handler} (h : Tk none ut 1 c) (hm : hd ∈ c.handlers)
    (ht : isTok hd.fn = true) : NoIdTok c := by
  have e1 := cnt_exempt hm ht
  have hle := h.le
  unfold NoIdTok; omega

/-- a bind / session request is pending: no resumption is possible -/
theorem NR_of_tokI {hd : Handler} (h : Rs c) (hnd : c.state ≠ .disconnected) (hm : hd ∈ c.idHandlers)
    (ht : isTok hd.fn = true) : NR c := by
  intro hr
  have := h.c2 hnd hr
  have e1 := cnt_exempt hm ht
  omega

/-- between two handlers of a dispatch -/
def TR (ut : Option Nat) (c : Conn) : Prop := TH ut c ∧ Rs c

theorem TR_fireIdOne {ut st uid} (h : TR ut c ∧ NDisc c) : TR ut (fireIdOne st c uid) ∧ NDisc (fireIdOne st c uid) := by
  have hT := TH_fireIdOne (st := st) (uid := uid) h.1.1
  unfold fireIdOne at hT ⊢
  split
  · exact h
  · rename_i hd hf
    have hmem := List.mem_of_find?_eq_some hf
    split
    · exact h
    · have key : Rs (runHandler c hd st).1 := by
        apply Rs_runHandler h.1.2
        · intro hk
          have := h.1.1.2.oki hd hmem
          rcases hk with e | e <;> rw [e] at this <;> cases this
        · intro hk
          have ht : isTok hd.fn = true := by rcases hk with e | e <;> rw [e] <;> rfl
          exact ⟨Off_of_tokI h.1.1.1 hmem ht, NR_of_tokI h.1.2 h.2 hmem ht⟩
      have hst : NDisc (runHandler c hd st).1 := by
        have := St_runHandler_id (st := st) h.1.1.2 hmem (s := c.state) rfl
        unfold NDisc; rw [this]; exact h.2
      simp only [hf] at hT
      rw [if_neg (by assumption)] at hT
      split
      rename_i c1 keep heq
      rw [heq] at key hst
      simp only [heq] at hT
      split
      · rename_i hk
        rw [if_pos hk] at hT
        exact ⟨⟨hT, key⟩, hst⟩
      · rename_i hk
        rw [if_neg hk] at hT
        exact ⟨⟨hT, Rs_rec1 key⟩, hst⟩

theorem TR_fireOne {ut st uid} (h : TR ut c) : TR ut (fireOne st c uid) := by
  refine ⟨TH_fireOne h.1, ?_⟩
  unfold fireOne
  split
  · exact h.2
  · rename_i hd hf
    have hmem := List.mem_of_find?_eq_some hf
    split
    · exact h.2
    · split
      · have key : Rs (runHandler c hd st).1 := by
          apply Rs_runHandler h.2
          · intro hk
            exact NoIdTok_of_tokH h.1.1 hmem (by rcases hk with e | e <;> rw [e] <;> rfl)
          · intro hk
            have := h.1.2.okh hd hmem
            rcases hk with e | e <;> rw [e] at this <;> cases this
        split
        rename_i c1 keep heq
        rw [heq] at key
        split
        · exact key
        · exact key
      · exact h.2

theorem TR_fireStanza {ut st} (h : TR ut c) (hnd : NDisc c) : TR ut (fireStanza c st) := by
  unfold fireStanza
  dsimp only
  refine pred_foldl (P := TR ut) (fun c x hc => TR_fireOne (uid := x) hc) _ ?_
  split
  · refine (pred_foldl (P := fun c => TR ut c ∧ NDisc c) (fun c x hc => TR_fireIdOne (uid := x) hc) _ ?_).1
    exact ⟨⟨⟨Tk_rec6 h.1.1, HW_rec6 h.1.2⟩, Rs_rec2 h.2⟩, hnd⟩
  · exact ⟨⟨Tk_rec5 h.1.1, HW_rec5 h.1.2⟩, h.2⟩

theorem TR_handleStreamStanza {ut st} (h : TR ut c) : TR ut (handleStreamStanza c st) := by
  refine ⟨TH_handleStreamStanza h.1, ?_⟩
  unfold handleStreamStanza
  refine pred_ite (P := Rs) (fun _ => h.2) (fun hs => ?_)
  dsimp only
  have := (TR_fireStanza (st := st) h hs).2
  refine pred_ite (P := Rs) (fun _ => ?_) (fun _ => this)
  exact Rs_smHandleStanza (c := { (fireStanza c st) with rxLog := _ }) this

/-! ### parser events, timers, the event loop -/

theorem Rs_runTimed {f} (h : Rs c) : Rs ((runTimed c f).1) := by
  c4auto runTimed
theorem Rs_fireTimedOne {uid} (h : Rs c) : Rs (fireTimedOne c uid) := by
  c4auto fireTimedOne
theorem Rs_fireTimed (h : Rs c) : Rs (fireTimed c) := by
  c4auto fireTimed

def TRP (c : Conn) : Prop := TR none c ∧ NC c

theorem TRP_parserEvent {e} (h : TRP c) : TRP (parserEvent c e) := by
  have hT : TP (parserEvent c e) := TP_parserEvent ⟨h.1.1, h.2⟩
  refine ⟨⟨hT.1, ?_⟩, hT.2⟩
  cases e with
  | stanza st =>
    unfold parserEvent
    exact pred_ite (P := Rs) (fun _ => h.1.2) (fun _ => (TR_handleStreamStanza h.1).2)
  | open_ nm id =>
    unfold parserEvent
    exact pred_ite (P := Rs) (fun _ => h.1.2) (fun _ => Rs_handleStreamStart (c := { c with pst := .opened }) h.1.2)
  | end_ =>
    unfold parserEvent
    exact pred_ite (P := Rs) (fun _ => h.1.2) (fun _ => Rs_handleStreamEnd (c := { c with pst := .closed }) h.1.2)
  | error =>
    unfold parserEvent
    exact Rs_sendStanza (c := { c with pst := .closed }) h.1.2

theorem TR_fireTimed (h : TR none c) : TR none (fireTimed c) := ⟨TH_fireTimed h.1, Rs_fireTimed h.2⟩
theorem TR_writeLoop {ut} (h : TR ut c) : TR ut (writeLoop c) := ⟨TH_writeLoop h.1, Rs_writeLoop h.2⟩
theorem TR_connDisconnect {ut} (h : TR ut c) : TR ut (connDisconnect c) := ⟨TH_connDisconnect h.1, Rs_connDisconnect h.2⟩
theorem TR_connEstablished {ut} (h : TR ut c) : TR ut (connEstablished c) :=
  ⟨TH_connEstablished h.1, Rs_connEstablished h.2⟩
theorem TR_rec1 {ut} (h : TR ut c) :
    TR ut { c with resetParser := false, pst := if c.resetParser = true then PSt.fresh else c.pst } :=
  ⟨TH_rec1 h.1, h.2⟩
theorem TR_rec2 {ut} (h : TR ut c) (hs : c.state = .connecting) (hr : RP0 c) : TR ut { c with state := .connected } :=
  ⟨TH_rec2 h.1 hs hr, Rs_rec4 h.2 hs⟩
theorem TR_evFold {evs : List PEv} (h : TR none c) (hc : c.state = .connected) : TR none (evFold c evs) := by
  have : TRP c := ⟨h, by unfold NC; rw [hc]; simp⟩
  exact (pred_foldl (P := TRP) (fun c e hc => TRP_parserEvent (e := e) hc) evs this).1

theorem TR_runOnce {rx} (h : TR none c) : TR none (runOnce c rx) := by
  unfold runOnce
  cases rx with
  | data evs =>
    dsimp only
    have e : ∀ c4, List.foldl parserEvent c4 evs = evFold c4 evs := fun _ => rfl
    simp only [e]
    c4trav
  | none => dsimp only; c4trav
  | eof => dsimp only; c4trav
  | ioerr => dsimp only; c4trav

/-! ### reachable states -/

def TZ (c : Conn) : Prop := TI c ∧ Rs c

theorem TZ_step (op : Op) (h : TZ c) : TZ (step c op) := by
  refine ⟨TI_step op h.1, ?_⟩
  have hw : HW c := h.1.1.1
  cases op with
  | connect k =>
    cases k
    · exact Rs_connectClient h.2 hw
    · exact Rs_connectComponent h.2 hw
    · exact Rs_connectRaw h.2 hw
  | run rx => exact (TR_runOnce ⟨⟨h.1.2, hw⟩, h.2⟩).2
  | setTcp f e => exact h.2
  | setTls sf nf => exact h.2
  | setSched l d => exact h.2
  | tick ms => exact h.2
  | setSmCallback => exact h.2
  | setSendOnConnect on => exact h.2
  | setFlags f => exact Rs_setFlags h.2
  | usend it => exact Rs_xmppSend h.2
  | uraw it => exact Rs_xmppSendRaw h.2
  | urawstr it => exact Rs_xmppSendRawString h.2
  | udisc => exact Rs_xmppDisconnect h.2
  | release => exact Rs_release h.2
  | addUserHandlers => exact Rs_addTimed (Rs_addIdHandler' rfl (Rs_addHandler h.2))

theorem TZ_exec (ops : List Op) : ∀ {c}, TZ c → TZ (exec c ops) := by
  induction ops with
  | nil => intro c h; exact h
  | cons op ops ih => intro c h; exact ih (TZ_step op h)

theorem Rs_fresh (jid pass : Option Bytes) (cert : Bool) (flags : Nat) : Rs (fresh jid pass cert flags) := by
  unfold fresh
  apply Rs_setFlags
  exact ⟨fun hp => (by cases hp), fun _ hr => (by cases hr.1), fun _ => ContigQ.nil _⟩

theorem TZ_reach (jid pass : Option Bytes) (cert : Bool) (flags : Nat) (ops : List Op) :
    TZ (exec (fresh jid pass cert flags) ops) :=
  TZ_exec ops ⟨TI_reach jid pass cert flags [], Rs_fresh jid pass cert flags⟩

end Strophe.Lemmas.ConnC04
