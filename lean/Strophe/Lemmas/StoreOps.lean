/-
Every library function of `Model/Store.lean` runs without a fault on a heap that satisfies the ownership
invariant, given arguments the caller may pass (live stanzas it holds or borrows), and re-establishes the
invariant with the caller's references adjusted.
-/
import Strophe.Lemmas.StoreAdd
import Strophe.Lemmas.StoreRelease

namespace Strophe.Store
open Strophe Strophe.Stanza

/-! ### functions that touch only type / strings / attributes of one stanza -/

/-- a live node is overwritten by one with the same pointer view, on a heap that differs only in the
    allocator's books -/
theorem inv_put_data {m m1 : Mem} {G : Ghost} {hold : Nat → Nat} (h : Inv m G hold) (hh : m1.heap = m.heap)
    {s : Nat} {n' : Node} (hp : PtrEq n' (m.get s)) : Inv (m1.put s n') G hold := by
  apply InvP.congr h
  intro x
  have hget : ∀ j, m1.get j = m.get j := by intro j; simp [Mem.get, hh]
  rw [Mem.get_put]
  split
  · next hx => rw [hx.1]; exact hp
  · rw [hget]; exact PtrEq.rfl' _

/-- a heap that differs from `m` only in the allocator's books and in non-pointer fields of node `s` -/
theorem ptrEq_put {m m1 : Mem} (hh : m1.heap = m.heap) {s : Nat} {n' : Node} (hp : PtrEq n' (m.get s)) :
    (∀ x, PtrEq ((m1.put s n').get x) (m.get x)) ∧ (m1.put s n').size = m.size := by
  have hget : ∀ j, m1.get j = m.get j := by intro j; simp [Mem.get, hh]
  refine ⟨?_, by simp [Mem.size, hh, Mem.put]⟩
  intro x
  rw [Mem.get_put]
  split
  · next hx => rw [hx.1]; exact hp
  · rw [hget]; exact PtrEq.rfl' _

theorem setName_ptr {m m' : Mem} {s : Nat} {name : Bytes} {rc : Int} (h : setName m s name = .ok (m', rc)) :
    (∀ x, PtrEq (m'.get x) (m.get x)) ∧ m'.size = m.size := by
  unfold setName at h
  rw [bind_ok] at h
  obtain ⟨n, hn, h⟩ := h
  rw [Mem.deref_ok] at hn
  obtain ⟨_, rfl⟩ := hn
  split at h <;> rw [pure_ok] at h <;> cases h
  · exact ⟨fun x => PtrEq.rfl' _, rfl⟩
  · exact ptrEq_put rfl ⟨rfl, rfl, rfl, rfl, rfl⟩

theorem setText_ptr {m m' : Mem} {s : Nat} {text : Bytes} {rc : Int} (h : setText m s text = .ok (m', rc)) :
    (∀ x, PtrEq (m'.get x) (m.get x)) ∧ m'.size = m.size := by
  unfold setText at h
  rw [bind_ok] at h
  obtain ⟨n, hn, h⟩ := h
  rw [Mem.deref_ok] at hn
  obtain ⟨_, rfl⟩ := hn
  split at h <;> rw [pure_ok] at h <;> cases h
  · exact ⟨fun x => PtrEq.rfl' _, rfl⟩
  · exact ptrEq_put rfl ⟨rfl, rfl, rfl, rfl, rfl⟩

theorem setAttribute_ptr {m m' : Mem} {s : Nat} {key val : Bytes} {rc : Int}
    (h : setAttribute m s key val = .ok (m', rc)) :
    (∀ x, PtrEq (m'.get x) (m.get x)) ∧ m'.size = m.size := by
  unfold setAttribute at h
  rw [bind_ok] at h
  obtain ⟨n, hn, h⟩ := h
  rw [Mem.deref_ok] at hn
  obtain ⟨_, rfl⟩ := hn
  split at h
  · rw [pure_ok] at h; cases h; exact ⟨fun x => PtrEq.rfl' _, rfl⟩
  · cases ha : (m.get s).attrs with
    | none =>
      simp only [ha] at h
      split at h <;> rw [pure_ok] at h <;> cases h <;> exact ptrEq_put rfl ⟨rfl, rfl, rfl, rfl, rfl⟩
    | some tab =>
      simp only [ha] at h
      split at h <;> rw [pure_ok] at h <;> cases h <;> exact ptrEq_put rfl ⟨rfl, rfl, rfl, rfl, rfl⟩

theorem delAttribute_ptr {m m' : Mem} {s : Nat} {key : Bytes} {rc : Int}
    (h : delAttribute m s key = .ok (m', rc)) :
    (∀ x, PtrEq (m'.get x) (m.get x)) ∧ m'.size = m.size := by
  unfold delAttribute at h
  rw [bind_ok] at h
  obtain ⟨n, hn, h⟩ := h
  rw [Mem.deref_ok] at hn
  obtain ⟨_, rfl⟩ := hn
  split at h
  · rw [pure_ok] at h; cases h; exact ⟨fun x => PtrEq.rfl' _, rfl⟩
  · cases ha : (m.get s).attrs with
    | none => simp only [ha] at h; rw [pure_ok] at h; cases h; exact ⟨fun x => PtrEq.rfl' _, rfl⟩
    | some tab =>
      simp only [ha] at h
      rw [pure_ok] at h
      cases h
      apply ptrEq_put (m1 := if (tab.drop key).2 = 0 then m.free 3 else m) (by split <;> rfl)
      exact ⟨rfl, rfl, rfl, rfl, rfl⟩

theorem setName_ok {m : Mem} {s : Nat} (name : Bytes) (hl : (m.get s).live = true) :
    ∃ r, setName m s name = .ok r := by
  unfold setName
  rw [Mem.deref_of_live hl]
  simp only [bind, Except.bind]
  split <;> exact ⟨_, rfl⟩

theorem setText_ok {m : Mem} {s : Nat} (text : Bytes) (hl : (m.get s).live = true) :
    ∃ r, setText m s text = .ok r := by
  unfold setText
  rw [Mem.deref_of_live hl]
  simp only [bind, Except.bind]
  split <;> exact ⟨_, rfl⟩

theorem setAttribute_ok {m : Mem} {s : Nat} (key val : Bytes) (hl : (m.get s).live = true) :
    ∃ r, setAttribute m s key val = .ok r := by
  unfold setAttribute
  rw [Mem.deref_of_live hl]
  simp only [bind, Except.bind]
  split
  · exact ⟨_, rfl⟩
  · cases (m.get s).attrs <;> exact ⟨_, rfl⟩

theorem delAttribute_ok {m : Mem} {s : Nat} (key : Bytes) (hl : (m.get s).live = true) :
    ∃ r, delAttribute m s key = .ok r := by
  unfold delAttribute
  rw [Mem.deref_of_live hl]
  simp only [bind, Except.bind]
  split
  · exact ⟨_, rfl⟩
  · cases (m.get s).attrs <;> exact ⟨_, rfl⟩

/-- the four mutators of type / strings / attributes, in one statement -/
theorem data_inv {m m' : Mem} {G : Ghost} {hold : Nat → Nat} (h : Inv m G hold)
    (hp : (∀ x, PtrEq (m'.get x) (m.get x)) ∧ m'.size = m.size) : Inv m' G hold :=
  InvP.congr h hp.1

theorem getAttribute_ok {m : Mem} {s : Nat} (key : Bytes) (hl : (m.get s).live = true) :
    ∃ v, getAttribute m s key = .ok v := by
  unfold getAttribute
  rw [Mem.deref_of_live hl]
  simp only [bind, Except.bind]
  split
  · exact ⟨_, rfl⟩
  · split <;> exact ⟨_, rfl⟩

/-! ### new / clone / release of a child -/

theorem new_inv {m : Mem} {G : Ghost} {hold : Nat → Nat} (h : Inv m G hold) {n : Node} (hl : n.live = true)
    (hr : n.ref = 1) (hp : n.parent = none) (hn : n.next = none) (hc : n.children = none) :
    Inv (m.push n) G (bump hold m.size) := InvP.push h hl hr hp hn hc (by simp)

theorem clone_inv {m : Mem} {G : Ghost} {hold : Nat → Nat} {s : Nat} (h : Inv m G hold)
    (hl : (m.get s).live = true) :
    ∃ m', clone m s = .ok m' ∧ Inv m' G (bump hold s) ∧ m'.size = m.size ∧
      ∀ x, (m'.get x).live = (m.get x).live := by
  refine ⟨m.put s { m.get s with ref := (m.get s).ref + 1 }, ?_, InvP.bump_ref h hl (by simp), by simp, ?_⟩
  · simp [clone, Mem.deref_of_live hl, bind, Except.bind, pure, Except.pure]
  · intro x
    rw [Mem.get_put]
    split
    · next hx => rw [hx.1]
    · rfl

theorem two_le_fuel (m : Mem) : 2 ≤ m.fuel := by
  unfold Mem.fuel
  have : 1 * 2 ≤ (m.size + 1) * (m.size + 2) := Nat.mul_le_mul (by omega) (by omega)
  omega

/-- the caller gives up a reference to a stanza that has a parent: only the count changes -/
theorem release_child_inv {m : Mem} {G : Ghost} {hold : Nat → Nat} {s : Nat} (h : Inv m G hold)
    (hh : 0 < hold s) (hp : HasPar G s) :
    ∃ m', release m.fuel m s = .ok (m', false) ∧ Inv m' G (unbump hold s) ∧ m'.size = m.size ∧
      ∀ x, (m'.get x).live = (m.get x).live ∧ (m'.get x).parent = (m.get x).parent ∧
        (m'.get x).next = (m.get x).next ∧ (m'.get x).children = (m.get x).children := by
  have hl : (m.get s).live = true := (h.held s (by simpa using hh)).1
  have hs := Mem.live_lt hl
  have hr := h.ref s hl (by simp)
  rw [hpN_of hp] at hr
  have hgt : (m.get s).ref > 1 := by simp at hr; omega
  have hg : ∀ x, (m.put s { m.get s with ref := (m.get s).ref - 1 }).get x =
      if x = s then { m.get s with ref := (m.get s).ref - 1 } else m.get x := by
    intro x; rw [Mem.get_put]; by_cases hx : x = s <;> simp [hx, hs]
  refine ⟨m.put s { m.get s with ref := (m.get s).ref - 1 }, ?_, ?_, by simp, ?_⟩
  · obtain ⟨f, hf⟩ : ∃ f, m.fuel = f + 1 := ⟨m.fuel - 1, by have := two_le_fuel m; omega⟩
    rw [hf]
    simp [release, Mem.deref_of_live hl, bind, Except.bind, hgt, pure, Except.pure]
  · have hlive : ∀ x, ((m.put s { m.get s with ref := (m.get s).ref - 1 }).get x).live = (m.get x).live := by
      intro x; rw [hg]; split <;> simp_all
    constructor
    · intro p hlp hzp
      rw [hlive] at hlp
      have hc : ((m.put s { m.get s with ref := (m.get s).ref - 1 }).get p).children = (m.get p).children := by
        rw [hg]; split <;> simp_all
      rw [hc]
      apply Chain.congr (h.chain p hlp hzp)
      intro a _
      refine ⟨hlive a, ?_⟩
      rw [hg]; split <;> simp_all
    · intro p hp'; rw [hlive] at hp'; exact h.nokids p hp'
    · intro p c hc
      have := h.kid p c hc
      rw [hlive]
      refine ⟨this.1, this.2.1, ?_⟩
      rw [hg]; split <;> simp_all
    · exact h.nodup
    · exact h.uniq
    · exact h.rank
    · intro x hlx hzx
      rw [hlive] at hlx
      have := h.ref x hlx hzx
      rw [hg]
      simp only [unbump]
      split
      · next hx => subst hx; simp at this ⊢; omega
      · exact this
    · intro x hlx hzx hpx hpe
      rw [hlive] at hlx
      have := h.root x hlx hzx hpx hpe
      rw [hg]; split <;> simp_all
    · intro x hx
      rw [hlive]
      have : 0 < hold x := by
        simp only [unbump] at hx
        split at hx <;> simp at hx <;> omega
      exact h.held x (by simpa using this)
    · intro x hx; simp at hx
  · intro x
    rw [hg]; split <;> simp_all


/-! ### read-only walks -/

theorem nthSib_spec {m : Mem} : ∀ (i : Nat) (l : List Nat) (ptr : Option Nat), Chain m ptr l →
    nthSib m ptr i = .ok l[i]?
  | i, [], ptr, h => by
    have : ptr = none := h
    subst this
    cases i <;> simp [nthSib, pure, Except.pure]
  | 0, a :: l, ptr, h => by
    obtain ⟨rfl, _, _⟩ := h
    simp [nthSib, pure, Except.pure]
  | i + 1, a :: l, ptr, h => by
    obtain ⟨rfl, hl, hc⟩ := h
    simp only [nthSib]
    rw [Mem.deref_of_live hl]
    simp only [bind, Except.bind]
    rw [nthSib_spec i l _ hc]
    simp

/-- following a path of child indices from a live stanza: no fault, and what is found is a live
    descendant -/
theorem resolvePath_spec {m : Mem} {G : Ghost} {hold : Nat → Nat} (h : Inv m G hold) :
    ∀ (path : List Nat) (s : Nat), (m.get s).live = true →
      ∃ r, resolvePath m s path = .ok r ∧ ∀ id, r = some id → (m.get id).live = true ∧ Desc G s id
  | [], s, hl => ⟨some s, by simp [resolvePath, pure, Except.pure], by
      intro id hid; cases hid; exact ⟨hl, Desc.refl⟩⟩
  | i :: rest, s, hl => by
    have hc := h.chain s hl (by simp)
    simp only [resolvePath]
    rw [Mem.deref_of_live hl]
    simp only [bind, Except.bind]
    rw [nthSib_spec i _ _ hc]
    cases hk : (G.kids s)[i]? with
    | none => exact ⟨none, rfl, by intro id hid; cases hid⟩
    | some c =>
      have hmem : c ∈ G.kids s := List.mem_of_getElem? hk
      obtain ⟨r, hr, hp⟩ := resolvePath_spec h rest c (h.kid_live hmem)
      refine ⟨r, by simpa using hr, ?_⟩
      intro id hid
      have := hp id hid
      exact ⟨this.1, Desc.cons hmem this.2⟩

theorem chainNodes_ok {m : Mem} : ∀ (l : List Nat) (f : Nat) (ptr : Option Nat), Chain m ptr l → l.length ≤ f →
    ∃ ns, chainNodes f m ptr = .ok ns
  | [], f, ptr, h, _ => by
    have : ptr = none := h
    subst this
    cases f <;> exact ⟨_, rfl⟩
  | a :: l, f, ptr, h, hf => by
    obtain ⟨rfl, hl, hc⟩ := h
    cases f with
    | zero => simp at hf
    | succ f =>
      obtain ⟨ns, hns⟩ := chainNodes_ok l f _ hc (by simp at hf; omega)
      refine ⟨m.get a :: ns, ?_⟩
      simp [chainNodes, Mem.deref_of_live hl, bind, Except.bind, hns, pure, Except.pure]

def ExpP (m : Mem) (G : Ghost) (f : Nat) : Prop :=
  ∀ s, (m.get s).live = true → (brank G m.size s + 1) * (m.size + 2) ≤ f → ∃ t, exportTree f m s = .ok t

def ExpQ (m : Mem) (G : Ghost) (f : Nat) : Prop :=
  ∀ (p : Nat) (cs : List Nat) (ptr : Option Nat), Chain m ptr cs → (∀ c ∈ cs, c ∈ G.kids p) →
    brank G m.size p * (m.size + 2) + cs.length + 1 ≤ f → ∃ ts, exportKids f m p ptr = .ok ts

theorem export_spec {m : Mem} {G : Ghost} {hold : Nat → Nat} (h : Inv m G hold) :
    ∀ f, ExpP m G f ∧ ExpQ m G f := by
  intro f
  induction f with
  | zero =>
    constructor
    · intro s _ hf
      have : 0 < (brank G m.size s + 1) * (m.size + 2) := Nat.mul_pos (by omega) (by omega)
      omega
    · intro p cs ptr _ _ hf; omega
  | succ f ih =>
    constructor
    · intro s hl hf
      have hc := h.chain s hl (by simp)
      have hlen := h.kids_length_le s
      have hB : (brank G m.size s + 1) * (m.size + 2) = brank G m.size s * (m.size + 2) + (m.size + 2) := by
        rw [Nat.add_mul]; simp
      obtain ⟨ks, hks⟩ := ih.2 s (G.kids s) _ hc (fun _ hc => hc) (by omega)
      exact ⟨mkTree (m.get s) ks, by simp [exportTree, Mem.deref_of_live hl, bind, Except.bind, hks, pure, Except.pure]⟩
    · intro p cs ptr hch hcs hf
      cases cs with
      | nil =>
        have : ptr = none := hch
        subst this
        exact ⟨[], by simp [exportKids, pure, Except.pure]⟩
      | cons c cs' =>
        obtain ⟨rfl, hl, hc'⟩ := hch
        have hk := h.kid p c (hcs c (by simp))
        have hlt := brank_lt (G := G) (Mem.live_lt hk.1) (h.rank p c (hcs c (by simp)))
        have hmul : (brank G m.size c + 1) * (m.size + 2) ≤ brank G m.size p * (m.size + 2) :=
          Nat.mul_le_mul_right _ (by omega)
        simp only [List.length_cons] at hf
        obtain ⟨t, ht⟩ := ih.1 c hl (by omega)
        obtain ⟨ts, hts⟩ := ih.2 p cs' _ hc' (fun a ha => hcs a (by simp [ha])) (by omega)
        exact ⟨t :: ts, by
          simp [exportKids, Mem.deref_of_live hl, bind, Except.bind, hk.2.2, ht, hts, pure, Except.pure]⟩

theorem exportTree_ok {m : Mem} {G : Ghost} {hold : Nat → Nat} (h : Inv m G hold) {s : Nat}
    (hl : (m.get s).live = true) : ∃ t, exportTree m.fuel m s = .ok t := by
  apply (export_spec h m.fuel).1 s hl
  unfold Mem.fuel
  exact Nat.mul_le_mul_right _ (by have := brank_le G m.size s; omega)

/-- `stanza->parent` of a live stanza, if set, is live (after the repair of D6) -/
theorem parent_live {m : Mem} {G : Ghost} {hold : Nat → Nat} (h : Inv m G hold) {s p : Nat}
    (hl : (m.get s).live = true) (hp : (m.get s).parent = some p) : (m.get p).live = true := by
  by_cases hh : HasPar G s
  · obtain ⟨q, hq⟩ := hh
    have := (h.kid q s hq).2.2
    rw [hp] at this
    cases this
    exact (h.par_live hq).1
  · have := (h.root s hl (by simp) hh rfl).2
    rw [hp] at this
    cases this

theorem renderCtx_ok {m : Mem} {G : Ghost} {hold : Nat → Nat} (h : Inv m G hold) {s : Nat}
    (hl : (m.get s).live = true) : ∃ par, renderCtx m (m.get s) = .ok par := by
  unfold renderCtx
  split
  · cases hp : (m.get s).parent with
    | none => exact ⟨_, rfl⟩
    | some p =>
      simp only []
      rw [Mem.deref_of_live (parent_live h hl hp)]
      exact ⟨_, rfl⟩
  · exact ⟨_, rfl⟩

theorem toText_ok {m : Mem} {G : Ghost} {hold : Nat → Nat} (h : Inv m G hold) {s : Nat}
    (hl : (m.get s).live = true) : ∃ r, toText m s = .ok r := by
  obtain ⟨t, ht⟩ := exportTree_ok h hl
  obtain ⟨par, hpar⟩ := renderCtx_ok h hl
  unfold toText
  rw [Mem.deref_of_live hl]
  simp only [bind, Except.bind, ht, hpar]
  exact ⟨_, rfl⟩

theorem getText_ok {m : Mem} {G : Ghost} {hold : Nat → Nat} (h : Inv m G hold) {s : Nat}
    (hl : (m.get s).live = true) : ∃ r, getText m s = .ok r := by
  unfold getText
  rw [Mem.deref_of_live hl]
  simp only [bind, Except.bind]
  split
  · exact ⟨_, rfl⟩
  · obtain ⟨ns, hns⟩ := chainNodes_ok (G.kids s) m.fuel _ (h.chain s hl (by simp))
      (Nat.le_trans (h.kids_length_le s) (size_le_fuel m))
    rw [hns]
    exact ⟨_, rfl⟩


/-! ### building a fresh subtree -/

theorem desc_root {G : Ghost} {c p : Nat} (hp : ¬ HasPar G p) (hne : p ≠ c) : ¬ Desc G c p :=
  fun hd => hp (hd.hasPar_of_ne hne)

/-- what `importTree` / `importKids` leave of the old heap -/
def OldKept (n : Nat) (m m' : Mem) (G G' : Ghost) : Prop :=
  m.size ≤ m'.size ∧ ∀ x, x < n → (m'.get x).live = (m.get x).live ∧ (HasPar G' x → HasPar G x)

theorem OldKept.trans {n n' : Nat} {m1 m2 m3 : Mem} {G1 G2 G3 : Ghost} (h1 : OldKept n m1 m2 G1 G2)
    (h2 : OldKept n' m2 m3 G2 G3) (hn : n ≤ n') : OldKept n m1 m3 G1 G3 := by
  refine ⟨Nat.le_trans h1.1 h2.1, ?_⟩
  intro x hx
  have a := h1.2 x hx
  have b := h2.2 x (Nat.lt_of_lt_of_le hx hn)
  exact ⟨by rw [b.1, a.1], fun hh => a.2 (b.2 hh)⟩

theorem hasPar_fresh {m : Mem} {G : Ghost} {hold : Nat → Nat} (h : Inv m G hold) : ¬ HasPar G m.size := by
  rintro ⟨p, hp⟩
  have := h.kid_lt hp
  omega

mutual
theorem importTree_inv : ∀ (t : Tree) (m : Mem) (G : Ghost) (hold : Nat → Nat), Inv m G hold →
    ∃ m' G', importTree m t = .ok (m', m.size) ∧ Inv m' G' (bump hold m.size) ∧ OldKept m.size m m' G G' ∧
      m.size < m'.size ∧ ¬ HasPar G' m.size
  | .tag name attrs ks, m, G, hold, h => by
    have h1 := new_inv h (n := { Node.fresh with kind := .tag, data := some name, attrs := attrs }) rfl rfl rfl rfl rfl
    have hl1 : ((m.push { Node.fresh with kind := .tag, data := some name, attrs := attrs }).get m.size).live = true := by
      rw [Mem.get_push]; simp; rfl
    obtain ⟨m', G', he, hi, hk⟩ := importKids_inv ks _ G (bump hold m.size) m.size h1 hl1 (hasPar_fresh h)
    refine ⟨m', G', (by simp only [importTree]; exact he), hi, ?_, ?_, ?_⟩
    · refine ⟨by have := hk.1; simp at this; omega, ?_⟩
      intro x hx
      have := hk.2 x (by simp; omega)
      rw [Mem.get_push] at this
      simpa [Nat.ne_of_lt hx] using this
    · have := hk.1; simp at this; omega
    · intro hh
      exact hasPar_fresh h ((hk.2 m.size (by simp)).2 hh)
  | .text d ks, m, G, hold, h => by
    have h1 := new_inv h (n := { Node.fresh with kind := .text, data := some d }) rfl rfl rfl rfl rfl
    have hl1 : ((m.push { Node.fresh with kind := .text, data := some d }).get m.size).live = true := by
      rw [Mem.get_push]; simp; rfl
    obtain ⟨m', G', he, hi, hk⟩ := importKids_inv ks _ G (bump hold m.size) m.size h1 hl1 (hasPar_fresh h)
    refine ⟨m', G', (by simp only [importTree]; exact he), hi, ?_, ?_, ?_⟩
    · refine ⟨by have := hk.1; simp at this; omega, ?_⟩
      intro x hx
      have := hk.2 x (by simp; omega)
      rw [Mem.get_push] at this
      simpa [Nat.ne_of_lt hx] using this
    · have := hk.1; simp at this; omega
    · intro hh
      exact hasPar_fresh h ((hk.2 m.size (by simp)).2 hh)
  | .unknown ks, m, G, hold, h => by
    have h1 := new_inv h (n := Node.fresh) rfl rfl rfl rfl rfl
    have hl1 : ((m.push Node.fresh).get m.size).live = true := by
      rw [Mem.get_push]; simp; rfl
    obtain ⟨m', G', he, hi, hk⟩ := importKids_inv ks _ G (bump hold m.size) m.size h1 hl1 (hasPar_fresh h)
    refine ⟨m', G', (by simp only [importTree]; exact he), hi, ?_, ?_, ?_⟩
    · refine ⟨by have := hk.1; simp at this; omega, ?_⟩
      intro x hx
      have := hk.2 x (by simp; omega)
      rw [Mem.get_push] at this
      simpa [Nat.ne_of_lt hx] using this
    · have := hk.1; simp at this; omega
    · intro hh
      exact hasPar_fresh h ((hk.2 m.size (by simp)).2 hh)
theorem importKids_inv : ∀ (ks : List Tree) (m : Mem) (G : Ghost) (hold : Nat → Nat) (p : Nat), Inv m G hold →
    (m.get p).live = true → ¬ HasPar G p →
    ∃ m' G', importKids m p ks = .ok (m', p) ∧ Inv m' G' hold ∧ OldKept m.size m m' G G'
  | [], m, G, hold, p, h, _, _ =>
    ⟨m, G, by simp [importKids, pure, Except.pure], h, Nat.le_refl _, fun _ _ => ⟨rfl, fun hh => hh⟩⟩
  | k :: ks, m, G, hold, p, h, hp, hroot => by
    have hps := Mem.live_lt hp
    obtain ⟨m1, G1, he1, hi1, hk1, hlt1, hnp1⟩ := importTree_inv k m G hold h
    have hp1 : (m1.get p).live = true := by rw [(hk1.2 p hps).1]; exact hp
    have hroot1 : ¬ HasPar G1 p := fun hh => hroot ((hk1.2 p hps).2 hh)
    have hne : p ≠ m.size := Nat.ne_of_lt hps
    obtain ⟨m2, he2, hi2, hsz2⟩ := attach_inv hi1 hp1 (by simp [bump]) hnp1 (desc_root hroot1 hne)
    rw [unbump_bump] at hi2
    have hp2 : (m2.get p).live = true := by
      have := (hi2.held (m.size) )
      by_cases hh : 0 < hold p
      · exact (hi2.held p (by simpa using hh)).1
      · -- `p` is live because attaching changes no liveness: use the chain clause of the new parent
        have hmem : m.size ∈ (attachG G1 p m.size).kids p := mem_attachG.mpr (Or.inr ⟨rfl, rfl⟩)
        exact (hi2.par_live hmem).1
    have hroot2 : ¬ HasPar (attachG G1 p m.size) p := by
      rw [hasPar_attachG]
      intro hh
      rcases hh with hh | hh
      · exact hroot1 hh
      · exact hne hh
    have hk2 : OldKept m.size m1 m2 G1 (attachG G1 p m.size) := by
      refine ⟨by omega, ?_⟩
      intro x hx
      refine ⟨?_, ?_⟩
      · by_cases hl : (m1.get x).live = true
        · rw [hl]
          -- live nodes stay live: they are held, or a child, or a root with a holder
          have hr := hi1.ref x hl (by simp)
          by_cases hpx : HasPar G1 x
          · obtain ⟨q, hq⟩ := hpx
            exact hi2.kid_live (mem_attachG.mpr (Or.inl hq))
          · have : 0 < bump hold m.size x := by
              rw [hpN_not hpx] at hr; simp at hr; omega
            by_cases hxc : x = m.size
            · subst hxc
              exact hi2.kid_live (mem_attachG.mpr (Or.inr ⟨rfl, rfl⟩))
            · have : 0 < hold x := by simpa [bump, hxc] using this
              exact (hi2.held x (by simpa using this)).1
        · have hl' : (m1.get x).live = false := by simpa using hl
          rw [hl']
          -- dead nodes stay dead: a live node has a reference, which must come from somewhere
          apply Classical.byContradiction
          intro hlive
          have hlive : (m2.get x).live = true := by simpa using hlive
          have hr := hi2.ref x hlive (by simp)
          have hnp : ¬ HasPar (attachG G1 p m.size) x := by
            rw [hasPar_attachG]
            rintro (⟨q, hq⟩ | hxc)
            · rw [hi1.kid_live hq] at hl'; cases hl'
            · subst hxc
              rw [(hi1.held m.size (by simp [bump])).1] at hl'; cases hl'
          rw [hpN_not hnp] at hr
          have : 0 < hold x := by simp at hr; omega
          have := (hi1.held x (by simp [bump]; split <;> omega)).1
          rw [this] at hl'; cases hl'
      · intro hh
        rcases hasPar_attachG.mp hh with hh | hh
        · exact hh
        · omega
    obtain ⟨m3, G3, he3, hi3, hk3⟩ := importKids_inv ks m2 (attachG G1 p m.size) hold p hi2 hp2 hroot2
    refine ⟨m3, G3, ?_, hi3, (hk1.trans hk2 (Nat.le_refl _)).trans hk3 (by omega)⟩
    simp [importKids, he1, bind, Except.bind, he2, he3]
end


/-! ### the mutators with their invariant in one statement -/

theorem setName_good {m : Mem} {G : Ghost} {hold : Nat → Nat} {s : Nat} (name : Bytes) (h : Inv m G hold)
    (hl : (m.get s).live = true) :
    ∃ m' rc, setName m s name = .ok (m', rc) ∧ Inv m' G hold ∧ m'.size = m.size := by
  obtain ⟨⟨m', rc⟩, he⟩ := setName_ok name hl
  exact ⟨m', rc, he, data_inv h (setName_ptr he), (setName_ptr he).2⟩

theorem setText_good {m : Mem} {G : Ghost} {hold : Nat → Nat} {s : Nat} (text : Bytes) (h : Inv m G hold)
    (hl : (m.get s).live = true) :
    ∃ m' rc, setText m s text = .ok (m', rc) ∧ Inv m' G hold ∧ m'.size = m.size := by
  obtain ⟨⟨m', rc⟩, he⟩ := setText_ok text hl
  exact ⟨m', rc, he, data_inv h (setText_ptr he), (setText_ptr he).2⟩

theorem setAttribute_good {m : Mem} {G : Ghost} {hold : Nat → Nat} {s : Nat} (key val : Bytes) (h : Inv m G hold)
    (hl : (m.get s).live = true) :
    ∃ m' rc, setAttribute m s key val = .ok (m', rc) ∧ Inv m' G hold ∧ m'.size = m.size := by
  obtain ⟨⟨m', rc⟩, he⟩ := setAttribute_ok key val hl
  exact ⟨m', rc, he, data_inv h (setAttribute_ptr he), (setAttribute_ptr he).2⟩

theorem delAttribute_good {m : Mem} {G : Ghost} {hold : Nat → Nat} {s : Nat} (key : Bytes) (h : Inv m G hold)
    (hl : (m.get s).live = true) :
    ∃ m' rc, delAttribute m s key = .ok (m', rc) ∧ Inv m' G hold ∧ m'.size = m.size := by
  obtain ⟨⟨m', rc⟩, he⟩ := delAttribute_ok key hl
  exact ⟨m', rc, he, data_inv h (delAttribute_ptr he), (delAttribute_ptr he).2⟩

theorem held_live {m : Mem} {G : Ghost} {hold : Nat → Nat} (h : Inv m G hold) {x : Nat} (hx : 0 < hold x) :
    (m.get x).live = true := (h.held x (by simpa using hx)).1

theorem desc_of_nokids {G : Ghost} {a x : Nat} (hk : G.kids a = []) (hd : Desc G a x) : x = a := by
  induction hd with
  | refl => rfl
  | step _ hx ih => subst ih; rw [hk] at hx; simp at hx

/-- a fresh stanza (not yet linked anywhere) after `xmpp_stanza_new` -/
theorem fresh_facts {m : Mem} {G : Ghost} {hold : Nat → Nat} (h : Inv m G hold) :
    Inv (m.push Node.fresh) G (bump hold m.size) ∧ G.kids m.size = [] ∧ ¬ HasPar G m.size ∧ hold m.size = 0 := by
  have hdead : (m.get m.size).live = false := by rw [Mem.get_of_ge (Nat.le_refl _)]; rfl
  refine ⟨new_inv h rfl rfl rfl rfl rfl, h.nokids _ (Or.inl hdead), hasPar_fresh h, ?_⟩
  apply Classical.byContradiction
  intro hne
  have := held_live h (x := m.size) (by omega)
  rw [hdead] at this; cases this

/-- `xmpp_stanza_add_child(p, c); xmpp_stanza_release(c);` for a childless detached `c` the caller holds once
    more than recorded in `hold` -/
theorem add_release_inv {m : Mem} {G : Ghost} {hold : Nat → Nat} {p c : Nat} (h : Inv m G (bump hold c))
    (hp : (m.get p).live = true) (hk : G.kids c = []) (hnp : ¬ HasPar G c) (hne : p ≠ c) :
    ∃ m1 m2, addChildEx m p c true = .ok (m1, Gen.Stanza.eOk) ∧ release m1.fuel m1 c = .ok (m2, false) ∧
      Inv m2 (attachG G p c) hold ∧ m2.size = m.size := by
  have hcyc : ¬ Desc G c p := fun hd => hne (desc_of_nokids hk hd)
  obtain ⟨m1, he1, hi1, hs1⟩ := addChildEx_inv true h hp (by simp [bump]) hnp hcyc
  simp only [if_true] at hi1
  obtain ⟨m2, he2, hi2, hs2, _⟩ := release_child_inv hi1 (by simp [bump])
    (hasPar_attachG.mpr (Or.inr rfl))
  rw [unbump_bump] at hi2
  exact ⟨m1, m2, he1, he2, hi2, by rw [hs2, hs1]⟩

/-- `xmpp_stanza_add_child_ex(p, c, 0)` for a detached `c` held once more than recorded, below a root -/
theorem attach_root_inv {m : Mem} {G : Ghost} {hold : Nat → Nat} {p c : Nat} (h : Inv m G (bump hold c))
    (hp : (m.get p).live = true) (hroot : ¬ HasPar G p) (hnp : ¬ HasPar G c) (hne : p ≠ c) :
    ∃ m1, addChildEx m p c false = .ok (m1, Gen.Stanza.eOk) ∧ Inv m1 (attachG G p c) hold ∧ m1.size = m.size := by
  obtain ⟨m1, he1, hi1, hs1⟩ := attach_inv h hp (by simp [bump]) hnp (desc_root hroot hne)
  rw [unbump_bump] at hi1
  exact ⟨m1, he1, hi1, hs1⟩

end Strophe.Store
