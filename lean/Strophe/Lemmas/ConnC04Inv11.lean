/-
Consecutive numbers while a session is resumable: `_sm_enable` (which restarts the numbering) is
never reached while a session id is held or a resumption is possible.
-/
import Strophe.Lemmas.ConnC04Inv10

namespace Strophe.Lemmas.ConnC04
open Strophe Strophe.Conn

variable {c : Conn}

/-- the library would answer the stream features with `<resume/>` -/
def ResB (previd boundJid : Option Bytes) (support smDisable : Bool) : Prop :=
  previd.isSome = true ∧ boundJid.isSome = true ∧ support = true ∧ smDisable = false

structure RsV (previd boundJid sid : Option Bytes) (canResume support smDisable : Bool) (state : CState)
    (ids : List Handler) (q : List (UInt32 × QElem)) (nr : UInt32) : Prop where
  c3 : previd.isSome = true → canResume = true
  c2 : state ≠ .disconnected → ResB previd boundJid support smDisable → cnt none ids = 0
  rz : (sid.isSome = true ∨ (previd.isSome = true ∧ boundJid.isSome = true)) → ContigQ q nr

def Rs (c : Conn) : Prop :=
  RsV c.sm.previd c.sm.boundJid c.sm.id c.sm.canResume c.sm.support c.smDisable c.state c.idHandlers c.sm.queue
    c.sm.sentNr

/-- no resumption will be attempted -/
def NR (c : Conn) : Prop := ¬ ResB c.sm.previd c.sm.boundJid c.sm.support c.smDisable

/-- no bind / session request is pending -/
def NoIdTok (c : Conn) : Prop := cnt none c.idHandlers = 0

theorem NR_pushRawWith {it o sn} (h : NR c) : NR (pushRawWith c it o sn) := by
  have s := pushRawWith_same c it o sn
  unfold NR; rw [s.smPrevid, s.smBoundJid, s.smSupport, s.smDisable]; exact h
theorem NoIdTok_pushRawWith {it o sn} (h : NoIdTok c) : NoIdTok (pushRawWith c it o sn) := by
  unfold NoIdTok; rw [(pushRawWith_same c it o sn).idHandlers]; exact h

theorem NR_triggerSmCallback (h : NR c) : NR (triggerSmCallback c) := h
theorem NR_addHandler {fn ud ns name type user} (h : NR c) : NR (addHandler c fn ud ns name type user) := by
  c4auto addHandler
theorem NR_addIdHandler {fn id user} (h : NR c) : NR (addIdHandler c fn id user) := by
  c4auto addIdHandler
theorem NR_addTimed {fn period user} (h : NR c) : NR (addTimed c fn period user) := by
  c4auto addTimed
theorem NR_delTimed {fn} (h : NR c) : NR (delTimed c fn) := by
  c4auto delTimed
theorem NR_resetTimed (h : NR c) : NR (resetTimed c) := by
  c4auto resetTimed
theorem NR_notify {e} (h : NR c) : NR (notify c e) := by
  c4auto notify
theorem NR_pushRaw {it o} (h : NR c) : NR (pushRaw c it o) := by
  c4auto pushRaw
theorem NR_sendStanza {it o} (h : NR c) : NR (sendStanza c it o) := by
  c4auto sendStanza
theorem NR_sendRaw {it o} (h : NR c) : NR (sendRaw c it o) := by
  c4auto sendRaw
theorem NR_sendRawString {it} (h : NR c) : NR (sendRawString c it) := by
  c4auto sendRawString
theorem NR_xmppDisconnect (h : NR c) : NR (xmppDisconnect c) := by
  c4auto xmppDisconnect
theorem NR_negotiationSuccess (h : NR c) : NR (negotiationSuccess c) := by
  c4auto negotiationSuccess
theorem NR_noteOffers {st} (h : NR c) : NR (noteOffers c st) := by
  c4auto noteOffers
theorem NR_compressionOffer {st} (h : NR c) : NR (compressionOffer c st) := by
  c4auto compressionOffer

theorem NoIdTok_triggerSmCallback (h : NoIdTok c) : NoIdTok (triggerSmCallback c) := h
theorem NoIdTok_addHandler {fn ud ns name type user} (h : NoIdTok c) : NoIdTok (addHandler c fn ud ns name type user) := by
  c4auto addHandler
theorem NoIdTok_addTimed {fn period user} (h : NoIdTok c) : NoIdTok (addTimed c fn period user) := by
  c4auto addTimed
theorem NoIdTok_delTimed {fn} (h : NoIdTok c) : NoIdTok (delTimed c fn) := by
  c4auto delTimed
theorem NoIdTok_resetTimed (h : NoIdTok c) : NoIdTok (resetTimed c) := by
  c4auto resetTimed
theorem NoIdTok_notify {e} (h : NoIdTok c) : NoIdTok (notify c e) := by
  c4auto notify
theorem NoIdTok_pushRaw {it o} (h : NoIdTok c) : NoIdTok (pushRaw c it o) := by
  c4auto pushRaw
theorem NoIdTok_sendStanza {it o} (h : NoIdTok c) : NoIdTok (sendStanza c it o) := by
  c4auto sendStanza
theorem NoIdTok_sendRaw {it o} (h : NoIdTok c) : NoIdTok (sendRaw c it o) := by
  c4auto sendRaw
theorem NoIdTok_sendRawString {it} (h : NoIdTok c) : NoIdTok (sendRawString c it) := by
  c4auto sendRawString
theorem NoIdTok_noteOffers {st} (h : NoIdTok c) : NoIdTok (noteOffers c st) := by
  c4auto noteOffers
theorem NoIdTok_compressionOffer {st} (h : NoIdTok c) : NoIdTok (compressionOffer c st) := by
  c4auto compressionOffer

/-! ### Rs: basic operations -/

theorem Rs_same {c' : Conn} (h : Rs c) (e1 : c'.sm.previd = c.sm.previd) (e2 : c'.sm.boundJid = c.sm.boundJid)
    (e3 : c'.sm.id = c.sm.id) (e4 : c'.sm.canResume = c.sm.canResume) (e5 : c'.sm.support = c.sm.support)
    (e6 : c'.smDisable = c.smDisable) (e7 : c'.state = c.state) (e8 : c'.idHandlers = c.idHandlers)
    (e9 : c'.sm.queue = c.sm.queue) (e10 : c'.sm.sentNr = c.sm.sentNr) : Rs c' := by
  unfold Rs; rw [e1, e2, e3, e4, e5, e6, e7, e8, e9, e10]; exact h

theorem Rs_pushRawWith {it o sn} (h : Rs c) : Rs (pushRawWith c it o sn) := by
  have s := pushRawWith_same c it o sn
  exact Rs_same h s.smPrevid s.smBoundJid s.smId s.smCanResume s.smSupport s.smDisable s.state s.idHandlers s.smq s.nr

/-- a bind / session request is registered: no resumption is possible -/
theorem Rs_addIdHandler {fn id user} (h : Rs c) (hn : NR c) : Rs (addIdHandler c fn id user) := by
  unfold addIdHandler; split
  · exact h
  · exact { h with c2 := fun _ hr => absurd hr hn }

theorem Rs_addIdHandler' {fn id user} (hnt : isTok fn = false) (h : Rs c) : Rs (addIdHandler c fn id user) := by
  unfold addIdHandler; split
  · exact h
  · refine { h with c2 := fun hs hr => ?_ }
    show cnt none (c.idHandlers ++ [_]) = 0
    rw [cnt_append, cnt_single, h.c2 hs hr]
    simp [tokP, hnt]

theorem Rs_filterI (p : Handler → Bool) (h : Rs c) : Rs { c with idHandlers := c.idHandlers.filter p } := by
  refine { h with c2 := fun hs hr => ?_ }
  have := cnt_filter_le none p c.idHandlers
  have := h.c2 hs hr
  show cnt none (c.idHandlers.filter p) = 0
  omega

theorem Rs_mapI (f : Handler → Handler) (hf : ∀ x, (f x).fn = x.fn ∧ (f x).uid = x.uid) (h : Rs c) :
    Rs { c with idHandlers := c.idHandlers.map f } := by
  refine { h with c2 := fun hs hr => ?_ }
  show cnt none (c.idHandlers.map f) = 0
  rw [cnt_map none f hf]; exact h.c2 hs hr

theorem Rs_rec1 {p : Handler → Bool} (h : Rs c) : Rs { c with idHandlers := c.idHandlers.filter p } := Rs_filterI p h
theorem Rs_rec2 {id : Bytes} (h : Rs c) :
    Rs { c with handlers := c.handlers.map (fun (h : Handler) => { h with enabled := true }),
                idHandlers := c.idHandlers.map (fun (h : Handler) =>
                  if h.id = some id then { h with enabled := true } else h) } :=
  Rs_mapI (c := { c with handlers := c.handlers.map (fun (h : Handler) => { h with enabled := true }) }) _
    (fun x => by split <;> exact ⟨rfl, rfl⟩) h
theorem Rs_rec3 {p q : Handler → Bool} {r : Timed → Bool} (h : Rs c) :
    Rs { c with handlers := c.handlers.filter p, idHandlers := c.idHandlers.filter q, timed := c.timed.filter r } :=
  Rs_filterI (c := { c with handlers := c.handlers.filter p, timed := c.timed.filter r }) q h
/-- the connection gets established -/
theorem Rs_rec4 (h : Rs c) (hs : c.state = .connecting) : Rs { c with state := .connected } :=
  { h with c2 := fun _ hr => h.c2 (by rw [hs]; simp) hr }
/-- first connect -/
theorem Rs_rec5 : Rs { c with hasSm := true, sm := {} } :=
  ⟨fun hp => (by cases hp), fun _ hr => (by cases hr.1), fun _ => ContigQ.nil _⟩

theorem Rs_resetSmForReconnect (h : Rs c) (hs : c.state = .disconnected) : Rs (resetSmForReconnect c) := by
  unfold resetSmForReconnect
  dsimp only
  split
  · rename_i hcr
    refine ⟨fun _ => hcr, fun hn => absurd hs hn, fun hz => ?_⟩
    rcases hz with hz | hz
    · cases hz
    · exact h.rz (.inl hz.1)
  · refine ⟨fun hp => (by cases hp), fun hn => absurd hs hn, fun hz => ?_⟩
    rcases hz with hz | hz
    · cases hz
    · cases hz.1

theorem Rs_connDisconnect (h : Rs c) : Rs (connDisconnect c) := by
  unfold connDisconnect
  split
  · exact h
  · have := Rs_resetSmForReconnect (c := { c with state := .disconnected, negotiated := false, hasTls := false, isRaw := false })
      { h with c2 := fun hn => absurd rfl hn } rfl
    unfold notify
    exact this

/-- the record keeps everything `Rs` reads, except that retained elements may be released -/
def SmRsOk (c : Conn) (s' : SmState) : Prop :=
  s'.previd = c.sm.previd ∧ s'.boundJid = c.sm.boundJid ∧ s'.id = c.sm.id ∧ s'.canResume = c.sm.canResume ∧
  s'.support = c.sm.support ∧ s'.sentNr = c.sm.sentNr ∧ s'.queue <:+ c.sm.queue

theorem Rs_rec9 {s' : SmState} {bj : Option Bytes} {g' : Ghost} (h : Rs c) (hk : SmRsOk c s') :
    Rs { c with sm := s', boundJid := bj, g := g' } := by
  obtain ⟨e1, e2, e3, e4, e5, e6, e7⟩ := hk
  unfold Rs
  dsimp only
  rw [e1, e2, e3, e4, e5, e6]
  exact ⟨h.c3, h.c2, fun hz => (h.rz hz).suffix e7⟩

theorem Rs_triggerSmCallback (h : Rs c) : Rs (triggerSmCallback c) := h
theorem Rs_addHandler {fn ud ns name type user} (h : Rs c) : Rs (addHandler c fn ud ns name type user) := by
  c4auto addHandler
  all_goals (first | exact ⟨rfl, rfl, rfl, rfl, rfl, rfl, List.suffix_refl _⟩ | exact ⟨rfl, rfl, rfl, rfl, rfl, rfl, List.dropWhile_suffix _⟩ | exact ⟨rfl, rfl, rfl, rfl, rfl, rfl, List.nil_suffix⟩)
theorem Rs_addTimed {fn period user} (h : Rs c) : Rs (addTimed c fn period user) := by
  c4auto addTimed
  all_goals (first | exact ⟨rfl, rfl, rfl, rfl, rfl, rfl, List.suffix_refl _⟩ | exact ⟨rfl, rfl, rfl, rfl, rfl, rfl, List.dropWhile_suffix _⟩ | exact ⟨rfl, rfl, rfl, rfl, rfl, rfl, List.nil_suffix⟩)
theorem Rs_delTimed {fn} (h : Rs c) : Rs (delTimed c fn) := by
  c4auto delTimed
  all_goals (first | exact ⟨rfl, rfl, rfl, rfl, rfl, rfl, List.suffix_refl _⟩ | exact ⟨rfl, rfl, rfl, rfl, rfl, rfl, List.dropWhile_suffix _⟩ | exact ⟨rfl, rfl, rfl, rfl, rfl, rfl, List.nil_suffix⟩)
theorem Rs_resetTimed (h : Rs c) : Rs (resetTimed c) := by
  c4auto resetTimed
  all_goals (first | exact ⟨rfl, rfl, rfl, rfl, rfl, rfl, List.suffix_refl _⟩ | exact ⟨rfl, rfl, rfl, rfl, rfl, rfl, List.dropWhile_suffix _⟩ | exact ⟨rfl, rfl, rfl, rfl, rfl, rfl, List.nil_suffix⟩)
theorem Rs_systemDeleteAll (h : Rs c) : Rs (systemDeleteAll c) := by
  c4auto systemDeleteAll
  all_goals (first | exact ⟨rfl, rfl, rfl, rfl, rfl, rfl, List.suffix_refl _⟩ | exact ⟨rfl, rfl, rfl, rfl, rfl, rfl, List.dropWhile_suffix _⟩ | exact ⟨rfl, rfl, rfl, rfl, rfl, rfl, List.nil_suffix⟩)
theorem Rs_notify {e} (h : Rs c) : Rs (notify c e) := by
  c4auto notify
  all_goals (first | exact ⟨rfl, rfl, rfl, rfl, rfl, rfl, List.suffix_refl _⟩ | exact ⟨rfl, rfl, rfl, rfl, rfl, rfl, List.dropWhile_suffix _⟩ | exact ⟨rfl, rfl, rfl, rfl, rfl, rfl, List.nil_suffix⟩)
theorem Rs_pushRaw {it o} (h : Rs c) : Rs (pushRaw c it o) := by
  c4auto pushRaw
  all_goals (first | exact ⟨rfl, rfl, rfl, rfl, rfl, rfl, List.suffix_refl _⟩ | exact ⟨rfl, rfl, rfl, rfl, rfl, rfl, List.dropWhile_suffix _⟩ | exact ⟨rfl, rfl, rfl, rfl, rfl, rfl, List.nil_suffix⟩)
theorem Rs_sendStanza {it o} (h : Rs c) : Rs (sendStanza c it o) := by
  c4auto sendStanza
  all_goals (first | exact ⟨rfl, rfl, rfl, rfl, rfl, rfl, List.suffix_refl _⟩ | exact ⟨rfl, rfl, rfl, rfl, rfl, rfl, List.dropWhile_suffix _⟩ | exact ⟨rfl, rfl, rfl, rfl, rfl, rfl, List.nil_suffix⟩)
theorem Rs_sendRaw {it o} (h : Rs c) : Rs (sendRaw c it o) := by
  c4auto sendRaw
  all_goals (first | exact ⟨rfl, rfl, rfl, rfl, rfl, rfl, List.suffix_refl _⟩ | exact ⟨rfl, rfl, rfl, rfl, rfl, rfl, List.dropWhile_suffix _⟩ | exact ⟨rfl, rfl, rfl, rfl, rfl, rfl, List.nil_suffix⟩)
theorem Rs_sendRawString {it} (h : Rs c) : Rs (sendRawString c it) := by
  c4auto sendRawString
  all_goals (first | exact ⟨rfl, rfl, rfl, rfl, rfl, rfl, List.suffix_refl _⟩ | exact ⟨rfl, rfl, rfl, rfl, rfl, rfl, List.dropWhile_suffix _⟩ | exact ⟨rfl, rfl, rfl, rfl, rfl, rfl, List.nil_suffix⟩)
theorem Rs_xmppDisconnect (h : Rs c) : Rs (xmppDisconnect c) := by
  c4auto xmppDisconnect
  all_goals (first | exact ⟨rfl, rfl, rfl, rfl, rfl, rfl, List.suffix_refl _⟩ | exact ⟨rfl, rfl, rfl, rfl, rfl, rfl, List.dropWhile_suffix _⟩ | exact ⟨rfl, rfl, rfl, rfl, rfl, rfl, List.nil_suffix⟩)
theorem Rs_connTlsStart (h : Rs c) : Rs ((connTlsStart c).1) := by
  c4auto connTlsStart
  all_goals (first | exact ⟨rfl, rfl, rfl, rfl, rfl, rfl, List.suffix_refl _⟩ | exact ⟨rfl, rfl, rfl, rfl, rfl, rfl, List.dropWhile_suffix _⟩ | exact ⟨rfl, rfl, rfl, rfl, rfl, rfl, List.nil_suffix⟩)
theorem Rs_connOpenStream (h : Rs c) : Rs (connOpenStream c) := by
  c4auto connOpenStream
  all_goals (first | exact ⟨rfl, rfl, rfl, rfl, rfl, rfl, List.suffix_refl _⟩ | exact ⟨rfl, rfl, rfl, rfl, rfl, rfl, List.dropWhile_suffix _⟩ | exact ⟨rfl, rfl, rfl, rfl, rfl, rfl, List.nil_suffix⟩)
theorem Rs_prepareReset {o} (h : Rs c) : Rs (prepareReset c o) := h
theorem Rs_negotiationSuccess (h : Rs c) : Rs (negotiationSuccess c) := by
  c4auto negotiationSuccess
  all_goals (first | exact ⟨rfl, rfl, rfl, rfl, rfl, rfl, List.suffix_refl _⟩ | exact ⟨rfl, rfl, rfl, rfl, rfl, rfl, List.dropWhile_suffix _⟩ | exact ⟨rfl, rfl, rfl, rfl, rfl, rfl, List.nil_suffix⟩)
theorem Rs_authLegacyStep (h : Rs c) : Rs (authLegacyStep c) := by
  c4auto authLegacyStep
  all_goals (first | exact ⟨rfl, rfl, rfl, rfl, rfl, rfl, List.suffix_refl _⟩ | exact ⟨rfl, rfl, rfl, rfl, rfl, rfl, List.dropWhile_suffix _⟩ | exact ⟨rfl, rfl, rfl, rfl, rfl, rfl, List.nil_suffix⟩)
theorem Rs_auth (n : Nat) : ∀ {c}, Rs c → Rs (auth c n) := by
  induction n with
  | zero => intro c h; exact h
  | succ n ih =>
    intro c h
    rw [auth]
    dsimp only
    c4trav
    all_goals first | (apply ih; c4trav) | skip
theorem Rs_authTop (h : Rs c) : Rs (authTop c) := Rs_auth _ h
theorem Rs_saslChild {t} (h : Rs c) : Rs (saslChild c t) := by
  c4auto saslChild
  all_goals (first | exact ⟨rfl, rfl, rfl, rfl, rfl, rfl, List.suffix_refl _⟩ | exact ⟨rfl, rfl, rfl, rfl, rfl, rfl, List.dropWhile_suffix _⟩ | exact ⟨rfl, rfl, rfl, rfl, rfl, rfl, List.nil_suffix⟩)
theorem Rs_noteOffers {st} (h : Rs c) : Rs (noteOffers c st) := by
  c4auto noteOffers
  all_goals (first | exact ⟨rfl, rfl, rfl, rfl, rfl, rfl, List.suffix_refl _⟩ | exact ⟨rfl, rfl, rfl, rfl, rfl, rfl, List.dropWhile_suffix _⟩ | exact ⟨rfl, rfl, rfl, rfl, rfl, rfl, List.nil_suffix⟩)
theorem Rs_compressionOffer {st} (h : Rs c) : Rs (compressionOffer c st) := by
  c4auto compressionOffer
  all_goals (first | exact ⟨rfl, rfl, rfl, rfl, rfl, rfl, List.suffix_refl _⟩ | exact ⟨rfl, rfl, rfl, rfl, rfl, rfl, List.dropWhile_suffix _⟩ | exact ⟨rfl, rfl, rfl, rfl, rfl, rfl, List.nil_suffix⟩)
theorem Rs_handleSaslResult {st} (h : Rs c) : Rs (handleSaslResult c st) := by
  c4auto handleSaslResult
  all_goals (first | exact ⟨rfl, rfl, rfl, rfl, rfl, rfl, List.suffix_refl _⟩ | exact ⟨rfl, rfl, rfl, rfl, rfl, rfl, List.dropWhile_suffix _⟩ | exact ⟨rfl, rfl, rfl, rfl, rfl, rfl, List.nil_suffix⟩)
theorem Rs_smQueueResend (h : Rs c) : Rs (smQueueResend c) := by
  c4auto smQueueResend
  all_goals (first | exact ⟨rfl, rfl, rfl, rfl, rfl, rfl, List.suffix_refl _⟩ | exact ⟨rfl, rfl, rfl, rfl, rfl, rfl, List.dropWhile_suffix _⟩ | exact ⟨rfl, rfl, rfl, rfl, rfl, rfl, List.nil_suffix⟩)
theorem Rs_handleLegacy {st} (h : Rs c) : Rs (handleLegacy c st) := by
  c4auto handleLegacy
  all_goals (first | exact ⟨rfl, rfl, rfl, rfl, rfl, rfl, List.suffix_refl _⟩ | exact ⟨rfl, rfl, rfl, rfl, rfl, rfl, List.dropWhile_suffix _⟩ | exact ⟨rfl, rfl, rfl, rfl, rfl, rfl, List.nil_suffix⟩)
theorem Rs_handleError {st} (h : Rs c) : Rs (handleError c st) := by
  c4auto handleError
  all_goals (first | exact ⟨rfl, rfl, rfl, rfl, rfl, rfl, List.suffix_refl _⟩ | exact ⟨rfl, rfl, rfl, rfl, rfl, rfl, List.dropWhile_suffix _⟩ | exact ⟨rfl, rfl, rfl, rfl, rfl, rfl, List.nil_suffix⟩)
theorem Rs_smElement {st} (h : Rs c) : Rs (smHandleStanza.smElement c st) := by
  c4auto smHandleStanza.smElement
  all_goals (first | exact ⟨rfl, rfl, rfl, rfl, rfl, rfl, List.suffix_refl _⟩ | exact ⟨rfl, rfl, rfl, rfl, rfl, rfl, List.dropWhile_suffix _⟩ | exact ⟨rfl, rfl, rfl, rfl, rfl, rfl, List.nil_suffix⟩)
theorem Rs_smHandleStanza {st} (h : Rs c) : Rs (smHandleStanza c st) := by
  c4auto smHandleStanza
  all_goals (first | exact ⟨rfl, rfl, rfl, rfl, rfl, rfl, List.suffix_refl _⟩ | exact ⟨rfl, rfl, rfl, rfl, rfl, rfl, List.dropWhile_suffix _⟩ | exact ⟨rfl, rfl, rfl, rfl, rfl, rfl, List.nil_suffix⟩)
theorem Rs_componentOpen (h : Rs c) : Rs (componentOpen c) := by
  c4auto componentOpen
  all_goals (first | exact ⟨rfl, rfl, rfl, rfl, rfl, rfl, List.suffix_refl _⟩ | exact ⟨rfl, rfl, rfl, rfl, rfl, rfl, List.dropWhile_suffix _⟩ | exact ⟨rfl, rfl, rfl, rfl, rfl, rfl, List.nil_suffix⟩)
theorem Rs_runOpenHandler (h : Rs c) : Rs (runOpenHandler c) := by
  c4auto runOpenHandler
  all_goals (first | exact ⟨rfl, rfl, rfl, rfl, rfl, rfl, List.suffix_refl _⟩ | exact ⟨rfl, rfl, rfl, rfl, rfl, rfl, List.dropWhile_suffix _⟩ | exact ⟨rfl, rfl, rfl, rfl, rfl, rfl, List.nil_suffix⟩)
theorem Rs_handleStreamStart {n id} (h : Rs c) : Rs (handleStreamStart c n id) := by
  c4auto handleStreamStart
  all_goals (first | exact ⟨rfl, rfl, rfl, rfl, rfl, rfl, List.suffix_refl _⟩ | exact ⟨rfl, rfl, rfl, rfl, rfl, rfl, List.dropWhile_suffix _⟩ | exact ⟨rfl, rfl, rfl, rfl, rfl, rfl, List.nil_suffix⟩)

theorem Rs_hf2 {st} (h : Rs c) : Rs (hf2 c st) := by
  c4auto hf2
theorem Rs_handleFeatures {st} (h : Rs c) : Rs (handleFeatures c st) := by
  rw [handleFeatures_eq]; exact Rs_hf2 (Rs_delTimed (Rs_noteOffers h))

theorem Rs_doBind (h : Rs c) (hn : NR c) : Rs (doBind c) := by
  c4auto doBind
theorem Rs_sessionStart (h : Rs c) (hn : NR c) : Rs (sessionStart c) := by
  c4auto sessionStart

/-- `_sm_enable`: the numbering restarts; no session id is held and no resumption was possible -/
theorem Rs_smEnable (h : Rs c) (ho : Off c) (hn : NR c) (hc : (c.sm.support && !c.smDisable) = true) :
    Rs (smEnable c) := by
  have hsup : c.sm.support = true ∧ c.smDisable = false := by
    simp only [Bool.and_eq_true, Bool.not_eq_true'] at hc; exact hc
  have hnp : ¬ (c.sm.previd.isSome = true ∧ c.sm.boundJid.isSome = true) :=
    fun hp => hn ⟨hp.1, hp.2, hsup.1, hsup.2⟩
  have h2 : Rs (sendStanza (addHandler c (.sys .sm) 0 (some Gen.nsSm) none none false)
      (.enable (!(addHandler c (.sys .sm) 0 (some Gen.nsSm) none none false).sm.dontRequestResume)) .smStrophe) :=
    Rs_sendStanza (Rs_addHandler h)
  have o2 := Off_sendStanza (it := .enable (!(addHandler c (.sys .sm) 0 (some Gen.nsSm) none none false).sm.dontRequestResume))
    (o := .smStrophe) (Off_addHandler (fn := .sys .sm) (ud := 0) (ns := some Gen.nsSm) (name := none) (type := none) (user := false) ho)
  have hs := sendStanza_same (addHandler c (.sys .sm) 0 (some Gen.nsSm) none none false)
    (.enable (!(addHandler c (.sys .sm) 0 (some Gen.nsSm) none none false).sm.dontRequestResume)) .smStrophe
  have ea : (addHandler c (.sys .sm) 0 (some Gen.nsSm) none none false).sm = c.sm := by
    unfold addHandler; split <;> rfl
  unfold smEnable triggerSmCallback
  dsimp only
  refine ⟨h2.c3, h2.c2, fun hz => ?_⟩
  exfalso
  rcases hz with hz | hz
  · have : (sendStanza (addHandler c (.sys .sm) 0 (some Gen.nsSm) none none false)
      (.enable (!(addHandler c (.sys .sm) 0 (some Gen.nsSm) none none false).sm.dontRequestResume)) .smStrophe).sm.id.isSome = true := hz
    rw [o2.2] at this; cases this
  · apply hnp
    have h1 : (sendStanza (addHandler c (.sys .sm) 0 (some Gen.nsSm) none none false)
      (.enable (!(addHandler c (.sys .sm) 0 (some Gen.nsSm) none none false).sm.dontRequestResume)) .smStrophe).sm.previd.isSome = true := hz.1
    have h3 : (sendStanza (addHandler c (.sys .sm) 0 (some Gen.nsSm) none none false)
      (.enable (!(addHandler c (.sys .sm) 0 (some Gen.nsSm) none none false).sm.dontRequestResume)) .smStrophe).sm.boundJid.isSome = true := hz.2
    rw [hs.smPrevid, ea] at h1
    rw [hs.smBoundJid, ea] at h3
    exact ⟨h1, h3⟩

theorem Rs_handleBind {st} (h : Rs c) (ho : Off c) (hn : NR c) : Rs (handleBind c st) := by
  c4auto handleBind
theorem Rs_handleSession {st} (h : Rs c) (ho : Off c) (hn : NR c) : Rs (handleSession c st) := by
  c4auto handleSession

/-! ### `_handle_features_sasl` -/

/-- the first part: the offers are noted -/
def hfsC3 (c : Conn) (st : XTree) : Conn :=
  let c := noteOffers c st
  let c0 := delTimed c .missingFeaturesSasl
  let hasBind := (st.childByNameNs (b "bind") Gen.nsBind).isSome
  let c1 := { c0 with bindRequired := hasBind }
  let c2 := match st.childByNameNs (b "session") Gen.nsSession with
    | some s => { c1 with sessionRequired := (s.childByName (b "optional")).isNone }
    | none => c1
  if (st.childByNameNs (b "sm") Gen.nsSm).isSome
    then { c2 with sm := { c2.sm with support := true } } else c2

/-- the second part: resume, bind or give up -/
def hfsTail (c3 : Conn) (hasBind : Bool) : Conn :=
  if !c3.smDisable && c3.sm.support && c3.sm.canResume && c3.sm.previd.isSome && c3.sm.boundJid.isSome then
    let c4 := { c3 with sm := { c3.sm with bind := hasBind, resume := true } }
    let c5 := sendStanza c4 (.resume (c4.sm.previd.getD []) c4.sm.handledNr) .smStrophe
    addHandler c5 (.sys .sm) 0 (some Gen.nsSm) none none false
  else if c3.bindRequired then doBind c3
  else xmppDisconnect c3

theorem handleFeaturesSasl_eq (c : Conn) (st : XTree) :
    handleFeaturesSasl c st = hfsTail (hfsC3 c st) (st.childByNameNs (b "bind") Gen.nsBind).isSome := rfl

/-- the server offers stream management while no bind / session request is pending -/
theorem Rs_rec6 (h : Rs c) (hz : NoIdTok c) : Rs { c with sm := { c.sm with support := true } } :=
  { h with c2 := fun _ _ => hz }

theorem Rs_hfsC3 {st} (h : Rs c) (hz : NoIdTok c) : Rs (hfsC3 c st) := by
  c4auto hfsC3

theorem Rs_hfsTail {hb} (h : Rs c) : Rs (hfsTail c hb) := by
  unfold hfsTail
  refine pred_ite (P := Rs) (fun _ => ?_) (fun hc => ?_)
  · dsimp only
    c4trav
  · have hn : NR c := by
      intro hr
      apply hc
      have := h.c3 hr.1
      simp [hr.1, hr.2.1, hr.2.2.1, hr.2.2.2, this]
    c4trav

theorem Rs_handleFeaturesSasl {st} (h : Rs c) (hz : NoIdTok c) : Rs (handleFeaturesSasl c st) := by
  rw [handleFeaturesSasl_eq]; exact Rs_hfsTail (Rs_hfsC3 h hz)

theorem Rs_handleFeaturesCompress {st} (h : Rs c) (hz : NoIdTok c) : Rs (handleFeaturesCompress c st) := by
  c4auto handleFeaturesCompress

/-! ### `_handle_sm` -/

theorem Rs_hsmTail {hb wr} (h : Rs c) (hn : NR c) : Rs (hsmTail c hb wr) := by
  c4auto hsmTail

theorem Rs_resend {s' : SmState} {bj : Option Bytes} {g' : Ghost} (h3 : s'.previd.isSome = true → s'.canResume = true)
    (h2 : c.state ≠ .disconnected → ResB s'.previd s'.boundJid s'.support c.smDisable → cnt none c.idHandlers = 0) :
    Rs (negotiationSuccess (smQueueResend { c with sm := s', boundJid := bj, g := g' })) := by
  apply Rs_negotiationSuccess
  rw [smQueueResend_eq]
  have hs := resendLoop_same s'.queue { c with sm := { s' with queue := [] }, boundJid := bj, g := g' }
  unfold Rs
  rw [hs.smPrevid, hs.smBoundJid, hs.smId, hs.smCanResume, hs.smSupport, hs.smDisable, hs.state, hs.idHandlers,
    hs.smq, hs.nr]
  exact ⟨h3, h2, fun _ => ContigQ.nil _⟩

theorem Rs_handleSm {st} (h : Rs c) : Rs (handleSm c st) := by
  refine handleSm_cases Rs c st ?_ ?_ ?_ ?_
  · intro s' _ hk
    unfold Rs
    dsimp only
    rw [hk.previd, hk.boundJid, hk.id, hk.canResume, hk.support, hk.queue, hk.sentNr]
    exact h
  · intro _ _ s' hk
    refine Rs_resend (c := c) (bj := c.boundJid) (g' := c.g) ?_ ?_
    · intro hp
      rw [hk.previd] at hp
      rcases hk.canResume with e | e
      · rw [e]; exact h.c3 hp
      · exact e.2
    · rw [hk.previd, hk.boundJid, hk.support]; exact h.c2
  · intro ours v _ _ _
    refine Rs_resend (c := c) ?_ ?_
    · intro hp; cases hp
    · intro _ hr; cases hr.1
  · intro s' hk _ hb wr _
    have hn : NR { c with sm := s' } := by
      intro hr
      have : s'.previd.isSome = true := hr.1
      rw [hk.previd] at this; cases this
    refine Rs_hsmTail (c := { c with sm := s' }) ?_ hn
    refine ⟨fun hp => ?_, fun _ hr => ?_, fun hz => ?_⟩
    · have : s'.previd.isSome = true := hp
      rw [hk.previd] at this; cases this
    · exact absurd hr hn
    · exfalso
      rcases hz with hz | hz
      · have : s'.id.isSome = true := hz
        rw [hk.id] at this; cases this
      · have : s'.previd.isSome = true := hz.1
        rw [hk.previd] at this; cases this

/-! ### the write loop, stream end, flags -/

theorem Rs_retire {e} (h : Rs c) : Rs (retire c e) := by
  unfold retire triggerSmCallback
  dsimp only
  split
  · exact { h with rz := fun hz => (h.rz hz).snoc e }
  · exact h

theorem Rs_writeElems (l : List QElem) : ∀ {c}, Rs c → Rs (writeElems c l) := by
  induction l with
  | nil => intro c h; exact h
  | cons e q ih =>
    intro c h
    unfold writeElems
    c4trav
    all_goals first | (apply ih; c4trav) | skip
theorem Rs_writeLoop (h : Rs c) : Rs (writeLoop c) := Rs_writeElems _ h

theorem resetSm_noResume (c : Conn) (hcr : c.sm.canResume = false) :
    (resetSmForReconnect c).sm.previd = none ∧ (resetSmForReconnect c).sm.id = none := by
  unfold resetSmForReconnect
  dsimp only
  rw [if_neg (by rw [hcr]; simp)]
  exact ⟨rfl, rfl⟩

theorem Rs_handleStreamEnd (h : Rs c) : Rs (handleStreamEnd c) := by
  unfold handleStreamEnd
  refine pred_ite (P := Rs) (fun _ => h) (fun hs => ?_)
  unfold triggerSmCallback connDisconnect
  dsimp only
  have e1 : (delTimed { c with sm := { c.sm with canResume := false } } .disconnectCleanup).state = c.state := rfl
  rw [if_neg (by rw [e1]; exact hs)]
  unfold notify
  dsimp only
  obtain ⟨a1, a2⟩ := resetSm_noResume
    { (delTimed { c with sm := { c.sm with canResume := false } } .disconnectCleanup) with
      state := .disconnected, negotiated := false, hasTls := false, isRaw := false } rfl
  obtain ⟨_, _, _, _, _, b6, _⟩ := resetSmForReconnect_same
    { (delTimed { c with sm := { c.sm with canResume := false } } .disconnectCleanup) with
      state := .disconnected, negotiated := false, hasTls := false, isRaw := false }
  refine ⟨fun hp => ?_, fun hn => ?_, fun hz => ?_⟩
  · rw [a1] at hp; cases hp
  · exact absurd b6 hn
  · exfalso
    rcases hz with hz | hz
    · rw [a2] at hz; cases hz
    · rw [a1] at hz; cases hz.1

theorem Rs_setFlags {f} (h : Rs c) : Rs (setFlags c f).1 := by
  unfold setFlags
  dsimp only
  refine pred_ite_fst (P := Rs) (fun _ => h) (fun hs => ?_)
  have hs : c.state = .disconnected := by simpa using hs
  refine pred_ite_fst (P := Rs) (fun _ => h) (fun _ => ?_)
  have key : ∀ (b1 b2 b3 b4 b5 b6 b7 b8 : Bool),
      Rs { c with tlsDisabled := b1, tlsMandatory := b2, tlsLegacySsl := b3, tlsTrust := b4, authLegacy := b5,
                  smDisable := b6, compAllowed := b7, compDontReset := b8 } :=
    fun _ _ _ _ _ _ _ _ => { h with c2 := fun hn => absurd hs hn }
  exact pred_ite_fst (P := Rs) (fun _ => key _ _ _ _ _ _ _ _) (fun _ => key _ _ _ _ _ _ _ _)

theorem Rs_connEstablished (h : Rs c) : Rs (connEstablished c) := by
  c4auto connEstablished
theorem Rs_xmppSend {it} (h : Rs c) : Rs (xmppSend c it) := by
  c4auto xmppSend
theorem Rs_xmppSendRawString {it} (h : Rs c) : Rs (xmppSendRawString c it) := by
  c4auto xmppSendRawString
theorem Rs_xmppSendRaw {it} (h : Rs c) : Rs (xmppSendRaw c it) := by
  c4auto xmppSendRaw
theorem Rs_release (h : Rs c) : Rs (release c) := by
  c4auto release

/-! ### connect -/

theorem Rs_connConnect {d t} (h : Rs c) (hw : HW c) : Rs (connConnect c d t).1 := by
  unfold connConnect
  refine pred_ite_fst (P := Rs) (fun _ => h) (fun hs => ?_)
  have hs : c.state = .disconnected := by simpa using hs
  have er : connReset c = systemDeleteAll
      { c with compActive := false, queue := [], streamError := none, domain := none, boundJid := none, streamId := none, negotiated := false, secured := false, tlsFailed := false, error := 0, tlsSupport := false, saslSupport := 0, compSupported := false, bindRequired := false, sessionRequired := false } := by
    unfold connReset; rw [if_neg (by simp [hs])]
  have c1i : cnt none (connReset c).idHandlers = 0 := by
    rw [er, cnt_eq_zero]
    intro x hx
    have hx : x ∈ c.idHandlers.filter (·.user) := hx
    obtain ⟨hx1, hx2⟩ := List.mem_filter.1 hx
    rw [tokP_none_iff, hw.ufi x hx1 hx2]; rfl
  have e1 : (connReset c).sm = c.sm := by rw [er]; rfl
  have e2 : (connReset c).smDisable = c.smDisable := by rw [er]; rfl
  have key : ∀ (st : CState), RsV (connReset c).sm.previd (connReset c).sm.boundJid (connReset c).sm.id
      (connReset c).sm.canResume (connReset c).sm.support (connReset c).smDisable st (connReset c).idHandlers
      (connReset c).sm.queue (connReset c).sm.sentNr := by
    intro st
    rw [e1]
    exact ⟨h.c3, fun _ _ => c1i, h.rz⟩
  dsimp only
  exact pred_ite_fst (P := Rs) (fun _ => key _) (fun _ => key _)

theorem Rs_connectClient (h : Rs c) (hw : HW c) : Rs (connectClient c).1 := by
  unfold connectClient
  split
  · exact h
  · refine pred_ite_fst (P := Rs) (fun _ => h) (fun _ => ?_)
    dsimp only
    by_cases hs : c.hasSm = true
    · rw [if_pos hs]; exact Rs_connConnect h hw
    · rw [if_neg hs]; exact Rs_connConnect (c := { c with hasSm := true, sm := {} }) Rs_rec5 hw

theorem Rs_connectComponent (h : Rs c) (hw : HW c) : Rs (connectComponent c).1 := by
  unfold connectComponent
  refine pred_ite_fst (P := Rs) (fun _ => h) (fun _ => ?_)
  have h1 : Rs (setFlags c (getFlags c ||| Gen.flagDisableTls)).1 := Rs_setFlags h
  have h2 : HW (setFlags c (getFlags c ||| Gen.flagDisableTls)).1 := HW_setFlags hw
  generalize (setFlags c (getFlags c ||| Gen.flagDisableTls)) = p at h1 h2 ⊢
  obtain ⟨c1, rc⟩ := p
  dsimp only at h1 h2 ⊢
  refine pred_ite_fst (P := Rs) (fun _ => h1) (fun _ => ?_)
  by_cases hs : c1.hasSm = true
  · rw [if_pos hs]; exact Rs_connConnect h1 h2
  · rw [if_neg hs]; exact Rs_connConnect (c := { c1 with hasSm := true, sm := {} }) Rs_rec5 h2

theorem Rs_connectRaw (h : Rs c) (hw : HW c) : Rs (connectRaw c).1 := by
  unfold connectRaw
  refine pred_ite_fst (P := Rs) (fun _ => h) (fun _ => ?_)
  have h1 : Rs (connectClient { c with isRaw := true }).1 := Rs_connectClient (c := { c with isRaw := true }) h hw
  generalize (connectClient { c with isRaw := true }) = p at h1 ⊢
  obtain ⟨c1, rc⟩ := p
  dsimp only at h1 ⊢
  exact pred_ite_fst (P := Rs) (fun _ => h1) (fun _ => h1)

end Strophe.Lemmas.ConnC04
