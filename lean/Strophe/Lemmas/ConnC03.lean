/-
Proofs behind Props/C03.lean (negotiation follows the server's offers; "connected" means fully
negotiated).
-/
import Strophe.Model.ConnOps

namespace Strophe.Lemmas.ConnC03
open Strophe Strophe.Conn

def configuredResource (jid : Option Bytes) : Option Bytes :=
  match jid with
  | some j => match Jid.resource j with
    | some r => if r.isEmpty then none else some r
    | none => none
  | none => none

def isConnectEv : Ev → Bool
  | .connect => true
  | .rawConnect => true
  | _ => false

/-- histories that never use `xmpp_send_raw` (see known finding D13) -/
def noSendRaw (ops : List Op) : Prop := ∀ op ∈ ops, match op with | .uraw _ => False | _ => True

theorem requests_answer_offers (jid pass : Option Bytes) (cert : Bool) (flags : Nat) (ops : List Op)
    (hu : userOps ops) :
    ∀ r ∈ (exec (fresh jid pass cert flags) ops).tx,
      (r.item = .starttls → r.snap.g.offeredTls = true) ∧
      (∀ m t, r.item = .auth m t → r.snap.g.offeredMechs &&& mechBit m ≠ 0) ∧
      (r.item = .compress → r.snap.g.offeredComp = true) ∧
      (∀ res, r.item = .bind res → r.snap.g.offeredBind = true) ∧
      (r.item = .session → r.snap.g.offeredSession = true) ∧
      (∀ x, r.item = .enable x → r.snap.g.offeredSm = true) ∧
      (∀ p h, r.item = .resume p h → r.snap.g.offeredSm = true) := by
  sorry

/-- RFC 6120 order, in the form that holds for every server behaviour: resource binding, session
    and stream management requests are only issued after authentication has succeeded on that
    connection; STARTTLS only on a stream that is not yet secured; SASL requests only before
    authentication has succeeded -/
theorem negotiation_order (jid pass : Option Bytes) (cert : Bool) (flags : Nat) (ops : List Op)
    (hu : userOps ops) :
    ∀ r ∈ (exec (fresh jid pass cert flags) ops).tx,
      ((∃ res, r.item = .bind res) ∨ r.item = .session ∨ (∃ x, r.item = .enable x) ∨
        (∃ p h, r.item = .resume p h) → r.snap.g.authOk = true) ∧
      (r.item = .starttls → r.snap.secured = false) ∧
      ((∃ m t, r.item = .auth m t) ∨ (∃ t, r.item = .response t) → r.snap.g.authOk = false) := by
  sorry

theorem header_fields (jid pass : Option Bytes) (cert : Bool) (flags : Nat) (ops : List Op)
    (hu : userOps ops) :
    ∀ r ∈ (exec (fresh jid pass cert flags) ops).tx, ∀ to frm comp, r.item = .hdr to frm comp →
      (∃ j, jid = some j ∧ to = (if comp then j else Jid.domain j)) ∧
      (∀ f, frm = some f → r.sec = true ∧ ∃ j, jid = some j ∧ f = Jid.bare j ∧ (64 : UInt8) ∈ j) := by
  sorry

theorem bind_resource (jid pass : Option Bytes) (cert : Bool) (flags : Nat) (ops : List Op)
    (hu : userOps ops) :
    ∀ r ∈ (exec (fresh jid pass cert flags) ops).tx, ∀ res, r.item = .bind res →
      res = configuredResource jid := by
  sorry

theorem connect_once (jid pass : Option Bytes) (cert : Bool) (flags : Nat) (ops : List Op) (a : Nat) :
    (((exec (fresh jid pass cert flags) ops).evs.filter
        fun p => p.1.attempt = a && isConnectEv p.2).length) ≤ 1 := by
  sorry

theorem connect_implies_negotiated (jid pass : Option Bytes) (cert : Bool) (flags : Nat)
    (ops : List Op) :
    ∀ p ∈ (exec (fresh jid pass cert flags) ops).evs, p.2 = .connect →
      (p.1.authOk = true ∧ (p.1.bound = true ∨ p.1.resumed = true)) ∨
      p.1.handshakeAck = true ∨ p.1.legacyOk = true := by
  sorry

theorem no_user_callback_before_connect (jid pass : Option Bytes) (cert : Bool) (flags : Nat)
    (ops : List Op) :
    ∀ p ∈ (exec (fresh jid pass cert flags) ops).evs,
      ((∃ n i, p.2 = .userStanza n i) ∨ p.2 = .userTimed) → p.1.notifiedConnect = true := by
  sorry

/-- FULL-STRENGTH statement (false of the current code, see `send_raw_before_connect`):
      ∀ r ∈ tx, r.owner = .user → r.notifiedW = true
    (nothing the user submits is WRITTEN before CONNECT was delivered on that connection).
    Proved for histories that do not use `xmpp_send_raw`. -/
theorem no_user_data_before_connect_partial (jid pass : Option Bytes) (cert : Bool) (flags : Nat)
    (ops : List Op) (hn : noSendRaw ops) :
    ∀ r ∈ (exec (fresh jid pass cert flags) ops).tx, r.owner = .user → r.notifiedW = true := by
  sorry

/-- the same at QUEUE time: a user element is queued on a negotiated stream, or (re-queued by a
    stream-management resumption) on a stream whose session is already confirmed -/
theorem no_user_data_before_connect_queue_partial (jid pass : Option Bytes) (cert : Bool) (flags : Nat)
    (ops : List Op) (hn : noSendRaw ops) :
    ∀ r ∈ (exec (fresh jid pass cert flags) ops).tx, r.owner = .user →
      r.snap.negotiated = true ∨
      (r.snap.g.authOk = true ∧ (r.snap.g.bound = true ∨ r.snap.g.resumed = true)) := by
  sorry

/-- `negotiated` and the CONNECT notification go together -/
theorem negotiated_iff_notified (jid pass : Option Bytes) (cert : Bool) (flags : Nat) (ops : List Op) :
    let c := exec (fresh jid pass cert flags) ops
    c.state = .connected → (c.negotiated = true ↔ c.g.notifiedConnect = true) := by
  sorry

end Strophe.Lemmas.ConnC03
