/-
Proofs behind Props/C03.lean (negotiation follows the server's offers; "connected" means fully
negotiated).
-/
import Strophe.Model.ConnOps
import Strophe.Lemmas.ConnC03I

namespace Strophe.Lemmas.ConnC03
open Strophe Strophe.Conn

def configuredResource (jid : Option Bytes) : Option Bytes :=
  match jid with
  | some j => match Jid.resource j with
    | some r => if r.isEmpty then none else some r
    | none => none
  | none => none

def isConnectEv : Ev → Bool
  | .connect => true
  | .rawConnect => true
  | _ => false

/-- histories that never use `xmpp_send_raw` (see known finding D13) -/
def noSendRaw (ops : List Op) : Prop := ∀ op ∈ ops, match op with | .uraw _ => False | _ => True

/-! ### reading the theorems off the invariant (Lemmas/ConnC03A–I.lean) -/

theorem cfgRes_cfg (jid : Option Bytes) : cfgRes jid = configuredResource jid := rfl
theorem isConnEv_eq : isConnEv = isConnectEv := by funext e; cases e <;> rfl

theorem opOk_of_userOps {ops : List Op} (hu : userOps ops) :
    ∀ op ∈ ops, OpOk (fun it => it.isUserItem = true) False op := by
  intro op hop; have := hu op hop
  cases op <;> first | trivial | exact this | exact ⟨this, id⟩

theorem opOk_of_noSendRaw {ops : List Op} (hn : noSendRaw ops) :
    ∀ op ∈ ops, OpOk (fun _ => True) True op := by
  intro op hop; have := hn op hop
  cases op <;> first | trivial | exact this.elim

theorem opOk_any (ops : List Op) : ∀ op ∈ ops, OpOk (fun _ => True) False op := by
  intro op _; cases op <;> first | trivial | exact ⟨trivial, id⟩

/-- library-owned or user-item: what every written element satisfies in a `userOps` history -/
theorem tx_lib (jid pass : Option Bytes) (cert : Bool) (flags : Nat) (ops : List Op) (hu : userOps ops) :
    ∀ r ∈ (exec (fresh jid pass cert flags) ops).tx,
      (r.item.isUserItem = true ∨ LibOk jid r.item r.owner r.snap) ∧ (isHdrFrom r.item → r.sec = true) := by
  obtain ⟨p, _, hi⟩ := Good.exec (jid := jid) ops (opOk_of_userOps hu) (good_fresh jid pass cert flags)
  intro r hr
  obtain ⟨hok, hsec, _⟩ := hi.q.tx_ok r hr
  by_cases ho : r.owner = .user
  · have hui : r.item.isUserItem = true := by
      rcases (hok.1 ho).1 with a | ⟨n, i, a⟩
      · exact a
      · rw [a]; rfl
    refine ⟨Or.inl hui, fun hh => ?_⟩
    obtain ⟨_, _, _, e⟩ := hh; rw [e] at hui; cases hui
  · exact ⟨Or.inr (hok.2 ho), hsec ho⟩

theorem requests_answer_offers (jid pass : Option Bytes) (cert : Bool) (flags : Nat) (ops : List Op)
    (hu : userOps ops) :
    ∀ r ∈ (exec (fresh jid pass cert flags) ops).tx,
      (r.item = .starttls → r.snap.g.offeredTls = true) ∧
      (∀ m t, r.item = .auth m t → r.snap.g.offeredMechs &&& mechBit m ≠ 0) ∧
      (r.item = .compress → r.snap.g.offeredComp = true) ∧
      (∀ res, r.item = .bind res → r.snap.g.offeredBind = true) ∧
      (r.item = .session → r.snap.g.offeredSession = true) ∧
      (∀ x, r.item = .enable x → r.snap.g.offeredSm = true) ∧
      (∀ p h, r.item = .resume p h → r.snap.g.offeredSm = true) := by
  intro r hr
  obtain ⟨h1, _⟩ := tx_lib jid pass cert flags ops hu r hr
  rcases h1 with h1 | h1
  · refine ⟨?_, ?_, ?_, ?_, ?_, ?_, ?_⟩ <;> (intros; rename_i e; first | (rw [e] at h1; cases h1) | skip)
    all_goals (rename_i e' _; rw [e'] at h1; cases h1)
  · refine ⟨fun e => ?_, fun m t e => ?_, fun e => ?_, fun res e => ?_, fun e => ?_, fun x e => ?_, fun q hh e => ?_⟩ <;>
      (rw [e] at h1)
    · exact h1.1
    · exact h1.1
    · exact h1
    · exact h1.2.1
    · exact h1.1
    · exact h1.1
    · exact h1.1

/-- RFC 6120 order, in the form that holds for every server behaviour: resource binding, session
    and stream management requests are only issued after authentication has succeeded on that
    connection; STARTTLS only on a stream that is not yet secured; SASL requests only before
    authentication has succeeded -/
theorem negotiation_order (jid pass : Option Bytes) (cert : Bool) (flags : Nat) (ops : List Op)
    (hu : userOps ops) :
    ∀ r ∈ (exec (fresh jid pass cert flags) ops).tx,
      ((∃ res, r.item = .bind res) ∨ r.item = .session ∨ (∃ x, r.item = .enable x) ∨
        (∃ p h, r.item = .resume p h) → r.snap.g.authOk = true) ∧
      (r.item = .starttls → r.snap.secured = false) ∧
      ((∃ m t, r.item = .auth m t) ∨ (∃ t, r.item = .response t) → r.snap.g.authOk = false) := by
  intro r hr
  obtain ⟨h1, _⟩ := tx_lib jid pass cert flags ops hu r hr
  rcases h1 with h1 | h1
  · refine ⟨?_, ?_, ?_⟩
    · rintro (⟨_, e⟩ | e | ⟨_, e⟩ | ⟨_, _, e⟩) <;> (rw [e] at h1; cases h1)
    · intro e; rw [e] at h1; cases h1
    · rintro (⟨_, _, e⟩ | ⟨_, e⟩) <;> (rw [e] at h1; cases h1)
  · refine ⟨?_, ?_, ?_⟩
    · rintro (⟨_, e⟩ | e | ⟨_, e⟩ | ⟨_, _, e⟩) <;> rw [e] at h1
      · exact h1.2.2
      · exact h1.2
      · exact h1.2
      · exact h1.2
    · intro e; rw [e] at h1; exact h1.2
    · rintro (⟨_, _, e⟩ | ⟨_, e⟩) <;> rw [e] at h1
      · exact h1.2
      · exact h1

theorem header_fields (jid pass : Option Bytes) (cert : Bool) (flags : Nat) (ops : List Op)
    (hu : userOps ops) :
    ∀ r ∈ (exec (fresh jid pass cert flags) ops).tx, ∀ to frm comp, r.item = .hdr to frm comp →
      (∃ j, jid = some j ∧ to = (if comp then j else Jid.domain j)) ∧
      (∀ f, frm = some f → r.sec = true ∧ ∃ j, jid = some j ∧ f = Jid.bare j ∧ (64 : UInt8) ∈ j) := by
  intro r hr to frm comp e
  obtain ⟨h1, h2⟩ := tx_lib jid pass cert flags ops hu r hr
  rcases h1 with h1 | h1
  · rw [e] at h1; cases h1
  · rw [e] at h1
    refine ⟨h1.2.1, fun f hf => ⟨h2 ⟨to, f, comp, by rw [e, hf]⟩, h1.2.2 f hf⟩⟩

theorem bind_resource (jid pass : Option Bytes) (cert : Bool) (flags : Nat) (ops : List Op)
    (hu : userOps ops) :
    ∀ r ∈ (exec (fresh jid pass cert flags) ops).tx, ∀ res, r.item = .bind res →
      res = configuredResource jid := by
  intro r hr res e
  obtain ⟨h1, _⟩ := tx_lib jid pass cert flags ops hu r hr
  rcases h1 with h1 | h1
  · rw [e] at h1; cases h1
  · rw [e] at h1; rw [← cfgRes_cfg]; exact h1.1

theorem connect_once (jid pass : Option Bytes) (cert : Bool) (flags : Nat) (ops : List Op) (a : Nat) :
    (((exec (fresh jid pass cert flags) ops).evs.filter
        fun p => p.1.attempt = a && isConnectEv p.2).length) ≤ 1 := by
  obtain ⟨p, _, hi⟩ := Good.exec (jid := jid) ops (opOk_any ops) (good_fresh jid pass cert flags)
  have := hi.e.once a
  unfold cnt at this; rw [isConnEv_eq] at this; exact this

theorem connect_implies_negotiated (jid pass : Option Bytes) (cert : Bool) (flags : Nat)
    (ops : List Op) :
    ∀ p ∈ (exec (fresh jid pass cert flags) ops).evs, p.2 = .connect →
      (p.1.authOk = true ∧ (p.1.bound = true ∨ p.1.resumed = true)) ∨
      p.1.handshakeAck = true ∨ p.1.legacyOk = true := by
  obtain ⟨p, _, hi⟩ := Good.exec (jid := jid) ops (opOk_any ops) (good_fresh jid pass cert flags)
  intro q hq e; exact hi.e.neg q hq e

theorem no_user_callback_before_connect (jid pass : Option Bytes) (cert : Bool) (flags : Nat)
    (ops : List Op) :
    ∀ p ∈ (exec (fresh jid pass cert flags) ops).evs,
      ((∃ n i, p.2 = .userStanza n i) ∨ p.2 = .userTimed) → p.1.notifiedConnect = true := by
  obtain ⟨p, _, hi⟩ := Good.exec (jid := jid) ops (opOk_any ops) (good_fresh jid pass cert flags)
  intro q hq e; exact hi.e.ucb q hq e

/-- FULL-STRENGTH statement (false of the current code, see `send_raw_before_connect`):
      ∀ r ∈ tx, r.owner = .user → r.notifiedW = true
    (nothing the user submits is WRITTEN before CONNECT was delivered on that connection).
    Proved for histories that do not use `xmpp_send_raw`. -/
theorem no_user_data_before_connect_partial (jid pass : Option Bytes) (cert : Bool) (flags : Nat)
    (ops : List Op) (hn : noSendRaw ops) :
    ∀ r ∈ (exec (fresh jid pass cert flags) ops).tx, r.owner = .user → r.notifiedW = true := by
  obtain ⟨p, _, hi⟩ := Good.exec (jid := jid) ops (opOk_of_noSendRaw hn) (good_fresh jid pass cert flags)
  intro r hr ho; exact (hi.q.tx_ok r hr).2.2 ho trivial

/-- the same at QUEUE time: a user element is queued on a negotiated stream, or (re-queued by a
    stream-management resumption) on a stream whose session is already confirmed -/
theorem no_user_data_before_connect_queue_partial (jid pass : Option Bytes) (cert : Bool) (flags : Nat)
    (ops : List Op) (hn : noSendRaw ops) :
    ∀ r ∈ (exec (fresh jid pass cert flags) ops).tx, r.owner = .user →
      r.snap.negotiated = true ∨
      (r.snap.g.authOk = true ∧ (r.snap.g.bound = true ∨ r.snap.g.resumed = true)) := by
  obtain ⟨p, _, hi⟩ := Good.exec (jid := jid) ops (opOk_of_noSendRaw hn) (good_fresh jid pass cert flags)
  intro r hr ho; exact Or.inl (((hi.q.tx_ok r hr).1.1 ho).2 trivial)

/-- `negotiated` and the CONNECT notification go together -/
theorem negotiated_iff_notified (jid pass : Option Bytes) (cert : Bool) (flags : Nat) (ops : List Op) :
    let c := exec (fresh jid pass cert flags) ops
    c.state = .connected → (c.negotiated = true ↔ c.g.notifiedConnect = true) := by
  obtain ⟨p, _, hi⟩ := Good.exec (jid := jid) ops (opOk_any ops) (good_fresh jid pass cert flags)
  intro c hc
  exact ⟨hi.gg.nn1, hi.gg.nn2 (by rw [hc]; simp)⟩

end Strophe.Lemmas.ConnC03
