/-
Lemmas about the model of src/stanza.c: the snprintf-truncation accounting of
`_render_stanza_recursive` computes exactly the plain rendering `render` (every buffer size), both
passes of `xmpp_stanza_to_text`, and what `_escape_xml` can emit.  Used by Props/C09.lean.
-/
import Strophe.Model.Stanza
import Strophe.Lemmas.HashTab
namespace Strophe.Stanza
open Strophe.HashTab

/-! ### `snprintf` truncation accounting -/

/-- cursor invariant of `_render_stanza_recursive` after the pieces `p` were produced for a buffer of
    `buflen` bytes -/
def RS.Inv (buflen : Nat) (p : Bytes) (s : RS) : Prop :=
  s.written = p.length ∧ s.out = stored buflen p ∧ s.left = (if p.length < buflen then buflen - p.length else 0)

theorem RS.inv_init (buflen : Nat) : RS.Inv buflen [] ⟨0, buflen, []⟩ := by
  refine ⟨rfl, ?_, ?_⟩
  · simp [stored]
  · by_cases h : 0 < buflen <;> simp [h]; omega

theorem stored_append (buflen : Nat) (p q : Bytes) :
    stored buflen p ++ stored (if p.length < buflen then buflen - p.length else 0) q = stored buflen (p ++ q) := by
  unfold stored
  by_cases h0 : buflen = 0
  · simp [h0]
  · by_cases h : p.length < buflen
    · have h1 : buflen - p.length ≠ 0 := by omega
      simp only [h0, h, if_true, if_false, h1]
      rw [List.take_append, List.take_of_length_le (by omega)]
      congr 2; omega
    · simp only [h0, h, if_false, if_true]
      rw [List.take_append]
      have : buflen - 1 - p.length = 0 := by omega
      simp [this]

theorem RS.inv_update {buflen : Nat} {p : Bytes} {s : RS} (h : RS.Inv buflen p s) (q : Bytes) :
    RS.Inv buflen (p ++ q) (s.update buflen q.length (stored s.left q)) := by
  obtain ⟨hw, ho, hl⟩ := h
  have hst := stored_append buflen p q
  unfold RS.update
  by_cases hc : s.written + q.length ≥ buflen
  · rw [if_pos hc]
    refine ⟨by simp [hw], ?_, ?_⟩
    · simp only; rw [ho, hl, hst]
    · simp only [List.length_append]; rw [if_neg (by omega)]
  · rw [if_neg hc]
    refine ⟨by simp [hw], ?_, ?_⟩
    · simp only; rw [ho, hl, hst]
    · simp only [List.length_append]
      rw [hl, if_pos (by omega), if_pos (by omega)]; omega

theorem RS.inv_put {buflen : Nat} {p : Bytes} {s : RS} (h : RS.Inv buflen p s) (q : Bytes) :
    RS.Inv buflen (p ++ q) (s.put buflen q) := RS.inv_update h q


/-! ### the attribute loop -/

def shown (par : Option (Option HashTab)) (e : Entry) : Bool := ¬ (e.1 = xmlnsKey ∧ elideNs par e.2)

theorem shownAttrs_eq (par : Option (Option HashTab)) (tab : HashTab) :
    shownAttrs par (some tab) = tab.toList.filter (shown par) := rfl

theorem renderAttrsRec_ok (par : Option (Option HashTab)) (tab : HashTab) (buflen : Nat) :
    ∀ (l : List Entry) (p : Bytes) (s : RS), (∀ e ∈ l, tab.get e.1 = some e.2) → RS.Inv buflen p s →
      ∃ s', renderAttrsRec par tab buflen l s = .ok s' ∧
        RS.Inv buflen (p ++ (l.filter (shown par)).flatMap renderAttr) s'
  | [], p, s, _, hi => ⟨s, rfl, by simpa using hi⟩
  | (key, val) :: rest, p, s, hg, hi => by
    have hk : tab.get key = some val := hg (key, val) (List.mem_cons_self ..)
    have hrest : ∀ e ∈ rest, tab.get e.1 = some e.2 := fun e he => hg e (List.mem_cons_of_mem _ he)
    simp only [renderAttrsRec, hk]
    by_cases hc : key = xmlnsKey ∧ elideNs par val
    · rw [if_pos hc]
      obtain ⟨s', h1, h2⟩ := renderAttrsRec_ok par tab buflen rest p s hrest hi
      refine ⟨s', h1, ?_⟩
      have : shown par (key, val) = false := by simp [shown, hc]
      simpa [List.filter_cons, this] using h2
    · rw [if_neg hc]
      have hi' := RS.inv_put hi (sp :: key ++ eq :: dq :: escapeXml val ++ [dq])
      obtain ⟨s', h1, h2⟩ := renderAttrsRec_ok par tab buflen rest _ _ hrest hi'
      refine ⟨s', h1, ?_⟩
      have : shown par (key, val) = true := by simp [shown, hc]
      simpa [List.filter_cons, this, renderAttr, List.append_assoc] using h2

/-! ### the two renderers agree -/

theorem render_tag (par : Option (Option HashTab)) (name : Bytes) (attrs : Option HashTab) (ks : List Tree) :
    render par (.tag name attrs ks) =
      lt :: name ++ (shownAttrs par attrs).flatMap renderAttr ++
        tagBody name ks.isEmpty (renderKids (some attrs) ks) := by
  rw [render]

/-- the attribute part of the tag branch -/
theorem attrs_part_ok (par : Option (Option HashTab)) (attrs : Option HashTab) (buflen : Nat) (p : Bytes) (s : RS)
    (hwf : ∀ tab, attrs = some tab → HashTab.WF tab) (hi : RS.Inv buflen p s) :
    ∃ s', renderAttrs par attrs buflen s = Except.ok s' ∧
      RS.Inv buflen (p ++ (shownAttrs par attrs).flatMap renderAttr) s' := by
  cases attrs with
  | none => exact ⟨s, rfl, by simpa [shownAttrs] using hi⟩
  | some tab =>
    have hw := hwf tab rfl
    simp only [renderAttrs]
    by_cases hc : tab.count > 0
    · rw [if_pos hc, shownAttrs_eq]
      exact renderAttrsRec_ok par tab buflen tab.toList p s
        (fun e he => HashTab.get_of_mem_toList hw (k := e.1) (v := e.2) he) hi
    · rw [if_neg hc]
      have : tab.toList = [] := by
        have := hw.count
        simp only [HashTab.count] at hc
        exact List.eq_nil_of_length_eq_zero (by omega)
      exact ⟨s, rfl, by simpa [shownAttrs, this] using hi⟩

mutual
theorem renderRec_ok (par : Option (Option HashTab)) : ∀ (t : Tree) (buflen : Nat), TabsWF t → renderable t = true →
    renderRec par t buflen = .ok ((render par t).length, stored buflen (render par t))
  | .unknown _, _, _, hr => by simp [renderable] at hr
  | .text d _, buflen, _, _ => by
    have hi := RS.inv_put (RS.inv_init buflen) (escapeXml d)
    obtain ⟨h1, h2, _⟩ := hi
    simp only [renderRec, render]
    simp only [List.nil_append] at h1 h2
    rw [h1, h2]
  | .tag name attrs ks, buflen, hw, hr => by
    simp only [TabsWF] at hw
    simp only [renderable] at hr
    have hi0 := RS.inv_put (RS.inv_init buflen) (lt :: name)
    obtain ⟨s1, e1, hi1⟩ := attrs_part_ok par attrs buflen _ _ hw.1 hi0
    rw [renderRec.eq_def]
    simp only
    rw [e1]
    simp only
    cases ks with
    | nil =>
      have hi2 := RS.inv_put hi1 [sl, gt]
      obtain ⟨h1, h2, _⟩ := hi2
      simp only [render_tag, tagBody, List.isEmpty_nil, if_true]
      simp only [List.nil_append, List.append_assoc] at h1 h2 ⊢
      rw [h1, h2]
    | cons k ks' =>
      have hi2 := RS.inv_put hi1 [gt]
      obtain ⟨s3, e3, hi3⟩ := renderKidsRec_ok (some attrs) (k :: ks') buflen _ _ hw.2 hr hi2
      simp only
      rw [e3]
      have hi4 := RS.inv_put hi3 (lt :: sl :: name ++ [gt])
      obtain ⟨h1, h2, _⟩ := hi4
      simp only [render_tag, tagBody, List.isEmpty_cons, Bool.false_eq_true, if_false]
      simp only [List.nil_append, List.append_assoc, List.cons_append] at h1 h2 ⊢
      rw [h1, h2]
theorem renderKidsRec_ok (par : Option (Option HashTab)) : ∀ (ks : List Tree) (buflen : Nat) (p : Bytes) (s : RS),
    TabsWFKids ks → renderableKids ks = true → RS.Inv buflen p s →
    ∃ s', renderKidsRec par ks buflen s = .ok s' ∧ RS.Inv buflen (p ++ renderKids par ks) s'
  | [], _, p, s, _, _, hi => ⟨s, by simp [renderKidsRec], by simpa [renderKids] using hi⟩
  | k :: ks, buflen, p, s, hw, hr, hi => by
    simp only [TabsWFKids] at hw
    simp only [renderableKids, Bool.and_eq_true] at hr
    have e := renderRec_ok par k s.left hw.1 hr.1
    have hi' := RS.inv_update hi (render par k)
    obtain ⟨s', e', hi''⟩ := renderKidsRec_ok par ks buflen _ _ hw.2 hr.2 hi'
    refine ⟨s', ?_, ?_⟩
    · simp only [renderKidsRec, e]; exact e'
    · simpa [renderKids, List.append_assoc] using hi''
end


mutual
theorem renderRec_err (par : Option (Option HashTab)) : ∀ (t : Tree) (buflen : Nat), TabsWF t → renderable t = false →
    renderRec par t buflen = .error .einvop
  | .unknown _, _, _, _ => by simp [renderRec]
  | .text d _, _, _, hr => by simp [renderable] at hr
  | .tag name attrs ks, buflen, hw, hr => by
    simp only [TabsWF] at hw
    simp only [renderable] at hr
    have hi0 := RS.inv_put (RS.inv_init buflen) (lt :: name)
    obtain ⟨s1, e1, hi1⟩ := attrs_part_ok par attrs buflen _ _ hw.1 hi0
    rw [renderRec.eq_def]
    simp only
    rw [e1]
    simp only
    cases ks with
    | nil => simp [renderableKids] at hr
    | cons k ks' =>
      simp only
      rw [renderKidsRec_err (some attrs) (k :: ks') buflen _ hw.2 hr]
theorem renderKidsRec_err (par : Option (Option HashTab)) : ∀ (ks : List Tree) (buflen : Nat) (s : RS),
    TabsWFKids ks → renderableKids ks = false → renderKidsRec par ks buflen s = .error .einvop
  | [], _, _, _, hr => by simp [renderableKids] at hr
  | k :: ks, buflen, s, hw, hr => by
    simp only [TabsWFKids] at hw
    simp only [renderableKids, Bool.and_eq_false_iff] at hr
    cases hk : renderable k with
    | false =>
      simp only [renderKidsRec, renderRec_err par k s.left hw.1 hk]
    | true =>
      have hr' : renderableKids ks = false := by
        rcases hr with h | h
        · rw [hk] at h; cases h
        · exact h
      simp only [renderKidsRec, renderRec_ok par k s.left hw.1 hk]
      exact renderKidsRec_err par ks buflen _ hw.2 hr'
end

/-! ### `xmpp_stanza_to_text` -/

theorem stored_of_lt (n : Nat) (p : Bytes) (h : p.length < n) : stored n p = p := by
  unfold stored
  rw [if_neg (by omega), List.take_of_length_le (by omega)]

/-- both passes together: the returned string is the full rendering, the reported length its length -/
theorem toText_ok (par : Option (Option HashTab)) (t : Tree) (hw : TabsWF t) (hr : renderable t = true) :
    toText par t = .ok (cstr (render par t), (render par t).length) := by
  unfold toText
  simp only [renderRec_ok par t _ hw hr]
  by_cases h : (render par t).length > Gen.Stanza.firstBuf - 1
  · rw [if_pos h, if_neg (by omega), stored_of_lt _ _ (by omega)]
  · rw [if_neg h, stored_of_lt _ _ (by simp only [Gen.Stanza.firstBuf] at h ⊢; omega)]

theorem toText_err (par : Option (Option HashTab)) (t : Tree) (hw : TabsWF t) (hr : renderable t = false) :
    toText par t = .error .einvop := by
  unfold toText
  simp only [renderRec_err par t _ hw hr]

/-! ### `_escape_xml` -/

theorem escapeByte_eq (b : UInt8) :
    escapeByte b = if b = 34 then [38, 113, 117, 111, 116, 59]
      else if b = 38 then [38, 97, 109, 112, 59]
      else if b = 60 then [38, 108, 116, 59]
      else if b = 62 then [38, 103, 116, 59]
      else [b] := by
  unfold escapeByte
  simp only [Gen.Stanza.escapeTable, List.lookup]
  by_cases h1 : b = 34
  · subst h1; decide
  by_cases h2 : b = 38
  · subst h2; decide
  by_cases h3 : b = 60
  · subst h3; decide
  by_cases h4 : b = 62
  · subst h4; decide
  have e1 : (b.toNat == 34) = false := by simpa [← UInt8.toNat_inj] using h1
  have e2 : (b.toNat == 38) = false := by simpa [← UInt8.toNat_inj] using h2
  have e3 : (b.toNat == 60) = false := by simpa [← UInt8.toNat_inj] using h3
  have e4 : (b.toNat == 62) = false := by simpa [← UInt8.toNat_inj] using h4
  simp [e1, e2, e3, e4, h1, h2, h3, h4]

theorem escapeXml_nil : escapeXml [] = [] := rfl
theorem escapeXml_cons (b : UInt8) (s : Bytes) : escapeXml (b :: s) = escapeByte b ++ escapeXml s := by
  simp [escapeXml]
theorem escapeXml_append (s t : Bytes) : escapeXml (s ++ t) = escapeXml s ++ escapeXml t := by
  simp [escapeXml]

/-- the four cases of `escapeByte`, as a case split usable in proofs -/
theorem escapeByte_cases (b : UInt8) :
    (b = 34 ∧ escapeByte b = [38, 113, 117, 111, 116, 59]) ∨
    (b = 38 ∧ escapeByte b = [38, 97, 109, 112, 59]) ∨
    (b = 60 ∧ escapeByte b = [38, 108, 116, 59]) ∨
    (b = 62 ∧ escapeByte b = [38, 103, 116, 59]) ∨
    (b ≠ 34 ∧ b ≠ 38 ∧ b ≠ 60 ∧ b ≠ 62 ∧ escapeByte b = [b]) := by
  rw [escapeByte_eq]
  by_cases h1 : b = 34
  · simp [h1]
  by_cases h2 : b = 38
  · simp [h2]
  by_cases h3 : b = 60
  · simp [h3]
  by_cases h4 : b = 62
  · simp [h4]
  simp [h1, h2, h3, h4]

/-- no byte produced by the escaper is `<`, `>` or `"` -/
theorem escapeByte_no_markup (b c : UInt8) (h : c ∈ escapeByte b) : c ≠ 60 ∧ c ≠ 62 ∧ c ≠ 34 := by
  rcases escapeByte_cases b with ⟨_, e⟩ | ⟨_, e⟩ | ⟨_, e⟩ | ⟨_, e⟩ | ⟨h1, _, h3, h4, e⟩
  · rw [e] at h; revert c; decide
  · rw [e] at h; revert c; decide
  · rw [e] at h; revert c; decide
  · rw [e] at h; revert c; decide
  · rw [e] at h; simp at h; subst h; exact ⟨h3, h4, h1⟩

theorem escapeXml_no_markup (s : Bytes) : ∀ c ∈ escapeXml s, c ≠ 60 ∧ c ≠ 62 ∧ c ≠ 34 := by
  intro c hc
  simp only [escapeXml, List.mem_flatMap] at hc
  obtain ⟨b, _, hb⟩ := hc
  exact escapeByte_no_markup b c hb

theorem escapeByte_zero (b : UInt8) (h : (0 : UInt8) ∈ escapeByte b) : b = 0 := by
  rcases escapeByte_cases b with ⟨_, e⟩ | ⟨_, e⟩ | ⟨_, e⟩ | ⟨_, e⟩ | ⟨_, _, _, _, e⟩
  · rw [e] at h; exact absurd h (by decide)
  · rw [e] at h; exact absurd h (by decide)
  · rw [e] at h; exact absurd h (by decide)
  · rw [e] at h; exact absurd h (by decide)
  · rw [e] at h; simp at h; exact h.symm

theorem escapeXml_nulfree (s : Bytes) (h : (0 : UInt8) ∉ s) : (0 : UInt8) ∉ escapeXml s := by
  intro hc
  simp only [escapeXml, List.mem_flatMap] at hc
  obtain ⟨b, hb, hz⟩ := hc
  exact h (escapeByte_zero b hz ▸ hb)

end Strophe.Stanza
