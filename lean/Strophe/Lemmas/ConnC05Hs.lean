/-
C05: what is known about the handler lists wherever a stanza is dispatched (`HS`):
  * the XEP-0198 handler `_handle_sm` is registered for the SM namespace, any name, any type, as a
    system handler; it is never an id handler;
  * (only inside one dispatch, `u = some v`) the enabled `_handle_sm` handlers are exactly the one
    with uid `v` (`v = none`: there is none).
-/
import Strophe.Lemmas.ConnC05Base

namespace Strophe.Lemmas.ConnC05
open Strophe Strophe.Conn Strophe.Lemmas.ConnC13

/-- registration of a stanza handler: `_handle_sm` only with the XEP-0198 namespace filter -/
def hOk (fn : HFun) (ns name type : Option Bytes) (user : Bool) : Prop :=
  match fn with
  | .sys .sm => ns = some Gen.nsSm ∧ name = none ∧ type = none ∧ user = false
  | _ => True

def iOk (fn : HFun) : Prop :=
  match fn with
  | .sys .sm => False
  | _ => True

structure HSV (u : Option (Option Nat)) (hs ids : List Handler) : Prop where
  shape : ∀ h ∈ hs, hOk h.fn h.ns h.name h.type h.user
  idk : ∀ h ∈ ids, iOk h.fn
  en : ∀ v, u = some v → ∀ h ∈ hs, h.fn = .sys .sm → h.enabled = true → some h.uid = v

def HS (u : Option (Option Nat)) (c : Conn) : Prop := HSV u c.handlers c.idHandlers

variable {u : Option (Option Nat)} {c : Conn}

macro "hside" : tactic => `(tactic| first | exact True.intro | exact ⟨rfl, rfl, rfl, rfl⟩ | skip)

theorem HS_triggerSmCallback (h : HS u c) : HS u (triggerSmCallback c) := h
theorem HS_prepareReset {o} (h : HS u c) : HS u (prepareReset c o) := h
theorem HS_noteOffers {st} (h : HS u c) : HS u (noteOffers c st) := h
theorem HS_resetSmForReconnect (h : HS u c) : HS u (resetSmForReconnect c) := by
  unfold resetSmForReconnect; dsimp only; split <;> exact h

theorem HS_addHandler {fn ud ns name type user} (h : HS u c) (ok : hOk fn ns name type user) :
    HS u (addHandler c fn ud ns name type user) := by
  unfold addHandler; split
  · exact h
  · refine ⟨?_, h.idk, ?_⟩
    · intro x hx
      rcases List.mem_append.1 hx with hx | hx
      · exact h.shape x hx
      · simp only [List.mem_singleton] at hx; subst hx; exact ok
    · intro v hv x hx hf he
      rcases List.mem_append.1 hx with hx | hx
      · exact h.en v hv x hx hf he
      · simp only [List.mem_singleton] at hx; subst hx; cases he

theorem HS_addIdHandler {fn id user} (h : HS u c) (ok : iOk fn) : HS u (addIdHandler c fn id user) := by
  unfold addIdHandler; split
  · exact h
  · refine ⟨h.shape, ?_, h.en⟩
    intro x hx
    rcases List.mem_append.1 hx with hx | hx
    · exact h.idk x hx
    · simp only [List.mem_singleton] at hx; subst hx; exact ok

theorem HS_rec1 {p : Handler → Bool} (h : HS u c) : HS u { c with handlers := c.handlers.filter p } :=
  ⟨fun x hx => h.shape x (List.mem_filter.1 hx).1, h.idk,
   fun v hv x hx => h.en v hv x (List.mem_filter.1 hx).1⟩
theorem HS_rec2 {p : Handler → Bool} (h : HS u c) : HS u { c with idHandlers := c.idHandlers.filter p } :=
  ⟨h.shape, fun x hx => h.idk x (List.mem_filter.1 hx).1, h.en⟩
theorem HS_rec3 {p q : Handler → Bool} {tm : List Timed} (h : HS u c) :
    HS u { c with handlers := c.handlers.filter p, idHandlers := c.idHandlers.filter q, timed := tm } :=
  ⟨fun x hx => h.shape x (List.mem_filter.1 hx).1, fun x hx => h.idk x (List.mem_filter.1 hx).1,
   fun v hv x hx => h.en v hv x (List.mem_filter.1 hx).1⟩
theorem HS_rec4 {id : Bytes} (h : HS u c) :
    HS u { c with idHandlers := c.idHandlers.map fun (h : Handler) =>
      if h.id = some id then { h with enabled := true } else h } := by
  refine ⟨h.shape, ?_, h.en⟩
  intro x hx
  obtain ⟨y, hy, rfl⟩ := List.mem_map.1 hx
  split
  · exact h.idk y hy
  · exact h.idk y hy
/-- the start of a dispatch (only outside one) -/
theorem HS_rec5 (h : HS none c) :
    HS none { c with handlers := c.handlers.map fun (h : Handler) => { h with enabled := true } } := by
  refine ⟨?_, h.idk, fun _ hv => nomatch hv⟩
  intro x hx
  obtain ⟨y, hy, rfl⟩ := List.mem_map.1 hx
  exact h.shape y hy
theorem HS_rec6 {id : Bytes} (h : HS none c) :
    HS none { c with handlers := c.handlers.map fun (h : Handler) => { h with enabled := true },
                     idHandlers := c.idHandlers.map fun (h : Handler) =>
                       if h.id = some id then { h with enabled := true } else h } :=
  ⟨(HS_rec5 h).shape, (HS_rec4 (id := id) h).idk, fun _ hv => nomatch hv⟩

theorem HS_notify {e} (h : HS u c) : HS u (notify c e) := by
  unfold notify; (try dsimp only); ctrav; all_goals hside

theorem HS_addTimed {fn period user} (h : HS u c) : HS u (addTimed c fn period user) := by
  unfold addTimed; (try dsimp only); ctrav; all_goals hside

theorem HS_delTimed {fn} (h : HS u c) : HS u (delTimed c fn) := by
  unfold delTimed; (try dsimp only); ctrav; all_goals hside

theorem HS_resetTimed  (h : HS u c) : HS u (resetTimed c) := by
  unfold resetTimed; (try dsimp only); ctrav; all_goals hside

theorem HS_systemDeleteAll  (h : HS u c) : HS u (systemDeleteAll c) := by
  unfold systemDeleteAll; (try dsimp only); ctrav; all_goals hside

theorem HS_connDisconnect  (h : HS u c) : HS u (connDisconnect c) := by
  unfold connDisconnect; (try dsimp only); ctrav; all_goals hside

theorem HS_pushRawWith {it o sn} (h : HS u c) : HS u (pushRawWith c it o sn) := by
  unfold pushRawWith; (try dsimp only); ctrav; all_goals hside

theorem HS_pushRaw {it o} (h : HS u c) : HS u (pushRaw c it o) := by
  unfold pushRaw; (try dsimp only); ctrav; all_goals hside

theorem HS_sendStanza {it o} (h : HS u c) : HS u (sendStanza c it o) := by
  unfold sendStanza; (try dsimp only); ctrav; all_goals hside

theorem HS_sendRaw {it o} (h : HS u c) : HS u (sendRaw c it o) := by
  unfold sendRaw; (try dsimp only); ctrav; all_goals hside

theorem HS_sendRawString {it} (h : HS u c) : HS u (sendRawString c it) := by
  unfold sendRawString; (try dsimp only); ctrav; all_goals hside

theorem HS_xmppDisconnect  (h : HS u c) : HS u (xmppDisconnect c) := by
  unfold xmppDisconnect; (try dsimp only); ctrav; all_goals hside

theorem HS_connTlsStart  (h : HS u c) : HS u ((connTlsStart c).1) := by
  unfold connTlsStart; (try dsimp only); ctrav; all_goals hside

theorem HS_connOpenStream  (h : HS u c) : HS u (connOpenStream c) := by
  unfold connOpenStream; (try dsimp only); ctrav; all_goals hside

theorem HS_negotiationSuccess  (h : HS u c) : HS u (negotiationSuccess c) := by
  unfold negotiationSuccess; (try dsimp only); ctrav; all_goals hside

theorem HS_authLegacyStep  (h : HS u c) : HS u (authLegacyStep c) := by
  unfold authLegacyStep; (try dsimp only); ctrav; all_goals hside

theorem HS_auth (n : Nat) : ∀ {c}, HS u c → HS u (auth c n) := by
  induction n with
  | zero => intro c h; exact h
  | succ n ih =>
    intro c h
    rw [auth]
    dsimp only
    ctrav
    all_goals first | (apply ih; ctrav) | skip
    all_goals hside

theorem HS_authTop  (h : HS u c) : HS u (authTop c) := by
  unfold authTop; (try dsimp only); ctrav; all_goals hside

theorem HS_saslChild {t} (h : HS u c) : HS u (saslChild c t) := by
  unfold saslChild; (try dsimp only); ctrav; all_goals hside

theorem HS_handleFeatures {st} (h : HS u c) : HS u (handleFeatures c st) := by
  unfold handleFeatures; (try dsimp only); ctrav; all_goals hside

theorem HS_doBind  (h : HS u c) : HS u (doBind c) := by
  unfold doBind; (try dsimp only); ctrav; all_goals hside

theorem HS_smEnable  (h : HS u c) : HS u (smEnable c) := by
  unfold smEnable; (try dsimp only); ctrav; all_goals hside

theorem HS_sessionStart  (h : HS u c) : HS u (sessionStart c) := by
  unfold sessionStart; (try dsimp only); ctrav; all_goals hside

theorem HS_handleFeaturesSasl {st} (h : HS u c) : HS u (handleFeaturesSasl c st) := by
  unfold handleFeaturesSasl; (try dsimp only); ctrav; all_goals hside

theorem HS_compressionOffer {st} (h : HS u c) : HS u (compressionOffer c st) := by
  unfold compressionOffer; (try dsimp only); ctrav; all_goals hside

theorem HS_handleFeaturesCompress {st} (h : HS u c) : HS u (handleFeaturesCompress c st) := by
  unfold handleFeaturesCompress; (try dsimp only); ctrav; all_goals hside

theorem HS_handleSaslResult {st} (h : HS u c) : HS u (handleSaslResult c st) := by
  unfold handleSaslResult; (try dsimp only); ctrav; all_goals hside

theorem HS_smQueueResend  (h : HS u c) : HS u (smQueueResend c) := by
  unfold smQueueResend; (try dsimp only); ctrav; all_goals hside

theorem HS_handleSm {st} (h : HS u c) : HS u (handleSm c st) := by
  unfold handleSm; (try dsimp only); ctrav; all_goals hside

theorem HS_handleBind {st} (h : HS u c) : HS u (handleBind c st) := by
  unfold handleBind; (try dsimp only); ctrav; all_goals hside

theorem HS_handleSession {st} (h : HS u c) : HS u (handleSession c st) := by
  unfold handleSession; (try dsimp only); ctrav; all_goals hside

theorem HS_handleLegacy {st} (h : HS u c) : HS u (handleLegacy c st) := by
  unfold handleLegacy; (try dsimp only); ctrav; all_goals hside

theorem HS_handleError {st} (h : HS u c) : HS u (handleError c st) := by
  unfold handleError; (try dsimp only); ctrav; all_goals hside

theorem HS_runSys {k st} (h : HS u c) : HS u ((runSys c k st).1) := by
  unfold runSys; (try dsimp only); ctrav; all_goals hside

theorem HS_runHandler {k st} (h : HS u c) : HS u ((runHandler c k st).1) := by
  unfold runHandler; (try dsimp only); ctrav; all_goals hside

theorem HS_fireOne {st uid} (h : HS u c) : HS u (fireOne st c uid) := by
  unfold fireOne; (try dsimp only); ctrav; all_goals hside

theorem HS_fireIdOne {st uid} (h : HS u c) : HS u (fireIdOne st c uid) := by
  unfold fireIdOne; (try dsimp only); ctrav; all_goals hside

theorem HS_smElement {st} (h : HS u c) : HS u (smHandleStanza.smElement c st) := by
  unfold smHandleStanza.smElement; (try dsimp only); ctrav; all_goals hside

theorem HS_smHandleStanza {st} (h : HS u c) : HS u (smHandleStanza c st) := by
  unfold smHandleStanza; (try dsimp only); ctrav; all_goals hside

theorem HS_componentOpen  (h : HS u c) : HS u (componentOpen c) := by
  unfold componentOpen; (try dsimp only); ctrav; all_goals hside

theorem HS_runOpenHandler  (h : HS u c) : HS u (runOpenHandler c) := by
  unfold runOpenHandler; (try dsimp only); ctrav; all_goals hside

theorem HS_handleStreamStart {n id} (h : HS u c) : HS u (handleStreamStart c n id) := by
  unfold handleStreamStart; (try dsimp only); ctrav; all_goals hside

theorem HS_handleStreamEnd  (h : HS u c) : HS u (handleStreamEnd c) := by
  unfold handleStreamEnd; (try dsimp only); ctrav; all_goals hside

theorem HS_runTimed {f} (h : HS u c) : HS u ((runTimed c f).1) := by
  unfold runTimed; (try dsimp only); ctrav; all_goals hside

theorem HS_fireTimedOne {uid} (h : HS u c) : HS u (fireTimedOne c uid) := by
  unfold fireTimedOne; (try dsimp only); ctrav; all_goals hside

theorem HS_fireTimed  (h : HS u c) : HS u (fireTimed c) := by
  unfold fireTimed; (try dsimp only); ctrav; all_goals hside

theorem HS_retire {e} (h : HS u c) : HS u (retire c e) := by
  unfold retire; (try dsimp only); ctrav; all_goals hside

theorem HS_writeElems (l : List QElem) : ∀ {c}, HS u c → HS u (writeElems c l) := by
  induction l with
  | nil => intro c h; exact h
  | cons e q ih =>
    intro c h
    unfold writeElems
    ctrav
    all_goals first | (apply ih; ctrav) | skip
theorem HS_writeLoop (h : HS u c) : HS u (writeLoop c) := HS_writeElems _ h

theorem HS_connEstablished  (h : HS u c) : HS u (connEstablished c) := by
  unfold connEstablished; (try dsimp only); ctrav; all_goals hside

theorem HS_connReset  (h : HS u c) : HS u (connReset c) := by
  unfold connReset; (try dsimp only); ctrav; all_goals hside

theorem HS_setFlags {f} (h : HS u c) : HS u ((setFlags c f).1) := by
  unfold setFlags; (try dsimp only); ctrav; all_goals hside

theorem HS_connConnect {d t} (h : HS u c) : HS u ((connConnect c d t).1) := by
  unfold connConnect; (try dsimp only); ctrav; all_goals hside

theorem HS_connectClient  (h : HS u c) : HS u ((connectClient c).1) := by
  unfold connectClient; (try dsimp only); ctrav; all_goals hside

theorem HS_connectComponent  (h : HS u c) : HS u ((connectComponent c).1) := by
  unfold connectComponent; (try dsimp only); ctrav; all_goals hside

theorem HS_connectRaw  (h : HS u c) : HS u ((connectRaw c).1) := by
  unfold connectRaw; (try dsimp only); ctrav; all_goals hside

theorem HS_release  (h : HS u c) : HS u (release c) := by
  unfold release; (try dsimp only); ctrav; all_goals hside

theorem HS_xmppSend {it} (h : HS u c) : HS u (xmppSend c it) := by
  unfold xmppSend; (try dsimp only); ctrav; all_goals hside

theorem HS_xmppSendRaw {it} (h : HS u c) : HS u (xmppSendRaw c it) := by
  unfold xmppSendRaw; (try dsimp only); ctrav; all_goals hside

theorem HS_xmppSendRawString {it} (h : HS u c) : HS u (xmppSendRawString c it) := by
  unfold xmppSendRawString; (try dsimp only); ctrav; all_goals hside


/-! ### functions that start a dispatch: outside one only -/

theorem HS_fireStanza {st} (h : HS none c) : HS none (fireStanza c st) := by
  unfold fireStanza; dsimp only; ctrav
theorem HS_handleStreamStanza {st} (h : HS none c) : HS none (handleStreamStanza c st) := by
  unfold handleStreamStanza; dsimp only; ctrav
theorem HS_parserEvent {e} (h : HS none c) : HS none (parserEvent c e) := by
  unfold parserEvent; ctrav
theorem HS_runOnce {rx} (h : HS none c) : HS none (runOnce c rx) := by
  unfold runOnce; ctrav

theorem HS_step (op : Op) (h : HS none c) : HS none (step c op) := by
  cases op with
  | connect k =>
    cases k
    · exact HS_connectClient h
    · exact HS_connectComponent h
    · exact HS_connectRaw h
  | run rx => exact HS_runOnce h
  | setTcp f e => exact h
  | setTls sf nf => exact h
  | setSched l d => exact h
  | tick ms => exact h
  | setSmCallback => exact h
  | setSendOnConnect on => exact h
  | setFlags f => exact HS_setFlags h
  | usend it => exact HS_xmppSend h
  | uraw it => exact HS_xmppSendRaw h
  | urawstr it => exact HS_xmppSendRawString h
  | udisc => exact HS_xmppDisconnect h
  | release => exact HS_release h
  | addUserHandlers => exact HS_addTimed (HS_addIdHandler (HS_addHandler h True.intro) True.intro)

theorem HS_fresh (jid pass : Option Bytes) (cert : Bool) (flags : Nat) : HS none (fresh jid pass cert flags) := by
  unfold fresh
  apply HS_setFlags
  exact ⟨(fun _ a => nomatch a), (fun _ a => nomatch a), (fun _ hv => nomatch hv)⟩

end Strophe.Lemmas.ConnC05
