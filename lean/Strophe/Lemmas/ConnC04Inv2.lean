/-
Well-formedness of the handler lists (kept unconditionally by every function): which functions
sit in which list, under which name; uids are fresh; at most one `missingFeatures` timer.
-/
import Strophe.Lemmas.ConnC04Step

namespace Strophe.Lemmas.ConnC04
open Strophe Strophe.Conn

/-- a stanza handler is not one of the id handlers' functions, and `_handle_features` is
    registered for the element name "features" -/
def okH (fn : HFun) (name : Option Bytes) : Bool :=
  match fn with
  | .sys .bind => false
  | .sys .session => false
  | .sys .legacy => false
  | .sys .features => name == some (b "features")
  | _ => true

def okI (fn : HFun) : Bool :=
  match fn with
  | .sys .bind => true
  | .sys .session => true
  | .sys .legacy => true
  | .userAll => true
  | _ => false

structure HWV (hs ids : List Handler) (tm : List Timed) (nu : Nat) : Prop where
  okh : ∀ h ∈ hs, okH h.fn h.name = true
  oki : ∀ h ∈ ids, okI h.fn = true
  ufh : ∀ h ∈ hs, h.user = true → h.fn = .userAll
  ufi : ∀ h ∈ ids, h.user = true → h.fn = .userAll
  uft : ∀ t ∈ tm, t.user = true → t.fn = .userTimed
  bh : ∀ h ∈ hs, h.uid < nu
  bi : ∀ h ∈ ids, h.uid < nu
  ndh : (hs.map (·.uid)).Nodup
  ndi : (ids.map (·.uid)).Nodup
  dj : ∀ h ∈ hs, ∀ h' ∈ ids, h.uid ≠ h'.uid
  mu : ∀ t1 ∈ tm, ∀ t2 ∈ tm, t1.fn = .missingFeatures → t2.fn = .missingFeatures → t1.uid = t2.uid

def HW (c : Conn) : Prop := HWV c.handlers c.idHandlers c.timed c.nextUid

variable {c : Conn}

theorem nodup_map_filter {l : List Handler} (p : Handler → Bool) (h : (l.map (·.uid)).Nodup) :
    ((l.filter p).map (·.uid)).Nodup :=
  List.Nodup.sublist (List.Sublist.map _ List.filter_sublist) h

theorem eq_of_uid_eq : ∀ {l : List Handler}, (l.map (·.uid)).Nodup → ∀ {x y : Handler}, x ∈ l → y ∈ l →
    x.uid = y.uid → x = y
  | [], _, _, _, hx, _, _ => by cases hx
  | a :: l, hnd, x, y, hx, hy, hu => by
    rw [List.map_cons, List.nodup_cons] at hnd
    rcases List.mem_cons.1 hx with hxa | hx <;> rcases List.mem_cons.1 hy with hya | hy
    · rw [hxa, hya]
    · exact absurd (List.mem_map.2 ⟨y, hy, by rw [← hu, hxa]⟩) hnd.1
    · exact absurd (List.mem_map.2 ⟨x, hx, by rw [hu, hya]⟩) hnd.1
    · exact eq_of_uid_eq hnd.2 hx hy hu

theorem HW_rec1 {n : Nat} {q : List QElem} {s' : SmState} (h : HW c) (hn : c.nextUid ≤ n) :
    HW { c with nextUid := n, queue := q, sm := s' } :=
  { h with bh := fun x hx => Nat.lt_of_lt_of_le (h.bh x hx) hn, bi := fun x hx => Nat.lt_of_lt_of_le (h.bi x hx) hn }

theorem HW_filterH (p : Handler → Bool) (h : HW c) : HW { c with handlers := c.handlers.filter p } :=
  { h with
    okh := fun x hx => h.okh x (List.mem_filter.1 hx).1
    ufh := fun x hx => h.ufh x (List.mem_filter.1 hx).1
    bh := fun x hx => h.bh x (List.mem_filter.1 hx).1
    ndh := nodup_map_filter p h.ndh
    dj := fun x hx => h.dj x (List.mem_filter.1 hx).1 }

theorem HW_filterI (p : Handler → Bool) (h : HW c) : HW { c with idHandlers := c.idHandlers.filter p } :=
  { h with
    oki := fun x hx => h.oki x (List.mem_filter.1 hx).1
    ufi := fun x hx => h.ufi x (List.mem_filter.1 hx).1
    bi := fun x hx => h.bi x (List.mem_filter.1 hx).1
    ndi := nodup_map_filter p h.ndi
    dj := fun x hx y hy => h.dj x hx y (List.mem_filter.1 hy).1 }

theorem HW_filterT (p : Timed → Bool) (h : HW c) : HW { c with timed := c.timed.filter p } :=
  { h with
    uft := fun x hx => h.uft x (List.mem_filter.1 hx).1
    mu := fun x hx y hy => h.mu x (List.mem_filter.1 hx).1 y (List.mem_filter.1 hy).1 }

theorem HW_mapH (f : Handler → Handler) (hf : ∀ x, (f x).uid = x.uid ∧ (f x).fn = x.fn ∧ (f x).name = x.name ∧ (f x).user = x.user)
    (h : HW c) : HW { c with handlers := c.handlers.map f } := by
  have hu : (c.handlers.map f).map (·.uid) = c.handlers.map (·.uid) := by
    rw [List.map_map]; exact List.map_congr_left (fun x _ => (hf x).1)
  refine { h with okh := ?_, ufh := ?_, bh := ?_, ndh := ?_, dj := ?_ }
  · intro x hx; obtain ⟨y, hy, rfl⟩ := List.mem_map.1 hx
    rw [(hf y).2.1, (hf y).2.2.1]; exact h.okh y hy
  · intro x hx; obtain ⟨y, hy, rfl⟩ := List.mem_map.1 hx
    rw [(hf y).2.1, (hf y).2.2.2]; exact h.ufh y hy
  · intro x hx; obtain ⟨y, hy, rfl⟩ := List.mem_map.1 hx
    rw [(hf y).1]; exact h.bh y hy
  · show ((c.handlers.map f).map (·.uid)).Nodup
    rw [hu]; exact h.ndh
  · intro x hx; obtain ⟨y, hy, rfl⟩ := List.mem_map.1 hx
    rw [(hf y).1]; exact h.dj y hy

theorem HW_mapI (f : Handler → Handler) (hf : ∀ x, (f x).uid = x.uid ∧ (f x).fn = x.fn ∧ (f x).name = x.name ∧ (f x).user = x.user)
    (h : HW c) : HW { c with idHandlers := c.idHandlers.map f } := by
  have hu : (c.idHandlers.map f).map (·.uid) = c.idHandlers.map (·.uid) := by
    rw [List.map_map]; exact List.map_congr_left (fun x _ => (hf x).1)
  refine { h with oki := ?_, ufi := ?_, bi := ?_, ndi := ?_, dj := ?_ }
  · intro x hx; obtain ⟨y, hy, rfl⟩ := List.mem_map.1 hx
    rw [(hf y).2.1]; exact h.oki y hy
  · intro x hx; obtain ⟨y, hy, rfl⟩ := List.mem_map.1 hx
    rw [(hf y).2.1, (hf y).2.2.2]; exact h.ufi y hy
  · intro x hx; obtain ⟨y, hy, rfl⟩ := List.mem_map.1 hx
    rw [(hf y).1]; exact h.bi y hy
  · show ((c.idHandlers.map f).map (·.uid)).Nodup
    rw [hu]; exact h.ndi
  · intro x hx z hz; obtain ⟨y, hy, rfl⟩ := List.mem_map.1 hz
    rw [(hf y).1]; exact h.dj x hx y hy

theorem HW_mapT (f : Timed → Timed) (hf : ∀ x, (f x).uid = x.uid ∧ (f x).fn = x.fn ∧ (f x).user = x.user)
    (h : HW c) : HW { c with timed := c.timed.map f } := by
  refine { h with uft := ?_, mu := ?_ }
  · intro x hx; obtain ⟨y, hy, rfl⟩ := List.mem_map.1 hx
    rw [(hf y).2.1, (hf y).2.2]; exact h.uft y hy
  · intro x hx z hz; obtain ⟨y, hy, rfl⟩ := List.mem_map.1 hx; obtain ⟨w, hw, rfl⟩ := List.mem_map.1 hz
    rw [(hf y).2.1, (hf w).2.1, (hf y).1, (hf w).1]; exact h.mu y hy w hw

theorem HW_rec2 {p : Handler → Bool} (h : HW c) : HW { c with handlers := c.handlers.filter p } := HW_filterH p h
theorem HW_rec3 {p : Handler → Bool} (h : HW c) : HW { c with idHandlers := c.idHandlers.filter p } := HW_filterI p h
theorem HW_rec4 {p : Timed → Bool} (h : HW c) : HW { c with timed := c.timed.filter p } := HW_filterT p h
theorem HW_rec5 (h : HW c) :
    HW { c with handlers := c.handlers.map fun (h : Handler) => { h with enabled := true } } :=
  HW_mapH _ (fun _ => ⟨rfl, rfl, rfl, rfl⟩) h
theorem HW_rec6 {id : Bytes} (h : HW c) :
    HW { c with handlers := c.handlers.map fun (h : Handler) => { h with enabled := true },
                idHandlers := c.idHandlers.map fun (h : Handler) =>
                  if h.id = some id then { h with enabled := true } else h } :=
  HW_mapI (c := { c with handlers := c.handlers.map fun (h : Handler) => { h with enabled := true } }) _
    (fun x => by split <;> exact ⟨rfl, rfl, rfl, rfl⟩) (HW_rec5 h)
theorem HW_rec7 (h : HW c) :
    HW { c with timed := c.timed.map fun (t : Timed) => { t with enabled := true } } :=
  HW_mapT _ (fun _ => ⟨rfl, rfl, rfl⟩) h
theorem HW_rec8 {uid s : Nat} (h : HW c) :
    HW { c with timed := c.timed.map fun (x : Timed) => if x.uid = uid then { x with lastStamp := s } else x } :=
  HW_mapT _ (fun x => by split <;> exact ⟨rfl, rfl, rfl⟩) h
theorem HW_rec9 {p q : Handler → Bool} {r : Timed → Bool} (h : HW c) :
    HW { c with handlers := c.handlers.filter p, idHandlers := c.idHandlers.filter q, timed := c.timed.filter r } :=
  HW_filterT (c := { c with handlers := c.handlers.filter p, idHandlers := c.idHandlers.filter q }) r
    (HW_filterI (c := { c with handlers := c.handlers.filter p }) q (HW_filterH p h))
theorem HW_rec10 {s : Nat} (h : HW c) :
    HW { c with timed := c.timed.map fun (t : Timed) => { t with lastStamp := s } } :=
  HW_mapT _ (fun _ => ⟨rfl, rfl, rfl⟩) h

/-- what may be registered: a system function under its name, or the application's catch-all -/
def addOkH (fn : HFun) (name : Option Bytes) (user : Bool) : Bool :=
  okH fn name && (!user || fn == .userAll)
def addOkI (fn : HFun) (user : Bool) : Bool := okI fn && (!user || fn == .userAll)
def addOkT (fn : TFun) (user : Bool) : Bool := (!user || fn == .userTimed)

theorem HW_addHandler' {fn ud ns name type user} (hok : addOkH fn name user = true) (h : HW c) :
    HW (addHandler c fn ud ns name type user) := by
  unfold addHandler; split
  · exact h
  · simp only [addOkH, Bool.and_eq_true, Bool.or_eq_true, Bool.not_eq_true', beq_iff_eq] at hok
    refine { h with okh := ?_, ufh := ?_, bh := ?_, bi := ?_, ndh := ?_, dj := ?_ }
    · intro x hx
      rcases List.mem_append.1 hx with hx | hx
      · exact h.okh x hx
      · simp only [List.mem_singleton] at hx; subst hx; exact hok.1
    · intro x hx hu
      rcases List.mem_append.1 hx with hx | hx
      · exact h.ufh x hx hu
      · simp only [List.mem_singleton] at hx; subst hx
        rcases hok.2 with h1 | h1
        · rw [h1] at hu; cases hu
        · exact h1
    · intro x hx
      rcases List.mem_append.1 hx with hx | hx
      · exact Nat.lt_succ_of_lt (h.bh x hx)
      · simp only [List.mem_singleton] at hx; subst hx; exact Nat.lt_succ_self _
    · intro x hx; exact Nat.lt_succ_of_lt (h.bi x hx)
    · show ((c.handlers ++ [_]).map Handler.uid).Nodup
      rw [List.map_append, List.nodup_append]
      refine ⟨h.ndh, by simp, ?_⟩
      intro a ha b hb
      obtain ⟨x, hx, rfl⟩ := List.mem_map.1 ha
      simp only [List.map_cons, List.map_nil, List.mem_singleton] at hb
      have := h.bh x hx
      omega
    · intro x hx y hy
      rcases List.mem_append.1 hx with hx | hx
      · exact h.dj x hx y hy
      · simp only [List.mem_singleton] at hx; subst hx
        have := h.bi y hy
        show c.nextUid ≠ y.uid
        omega

theorem HW_addIdHandler' {fn id user} (hok : addOkI fn user = true) (h : HW c) :
    HW (addIdHandler c fn id user) := by
  unfold addIdHandler; split
  · exact h
  · simp only [addOkI, Bool.and_eq_true, Bool.or_eq_true, Bool.not_eq_true', beq_iff_eq] at hok
    refine { h with oki := ?_, ufi := ?_, bh := ?_, bi := ?_, ndi := ?_, dj := ?_ }
    · intro x hx
      rcases List.mem_append.1 hx with hx | hx
      · exact h.oki x hx
      · simp only [List.mem_singleton] at hx; subst hx; exact hok.1
    · intro x hx hu
      rcases List.mem_append.1 hx with hx | hx
      · exact h.ufi x hx hu
      · simp only [List.mem_singleton] at hx; subst hx
        rcases hok.2 with h1 | h1
        · rw [h1] at hu; cases hu
        · exact h1
    · intro x hx; exact Nat.lt_succ_of_lt (h.bh x hx)
    · intro x hx
      rcases List.mem_append.1 hx with hx | hx
      · exact Nat.lt_succ_of_lt (h.bi x hx)
      · simp only [List.mem_singleton] at hx; subst hx; exact Nat.lt_succ_self _
    · show ((c.idHandlers ++ [_]).map Handler.uid).Nodup
      rw [List.map_append, List.nodup_append]
      refine ⟨h.ndi, by simp, ?_⟩
      intro a ha b hb
      obtain ⟨x, hx, rfl⟩ := List.mem_map.1 ha
      simp only [List.map_cons, List.map_nil, List.mem_singleton] at hb
      have := h.bi x hx
      omega
    · intro x hx y hy
      rcases List.mem_append.1 hy with hy | hy
      · exact h.dj x hx y hy
      · simp only [List.mem_singleton] at hy; subst hy
        have := h.bh x hx
        show x.uid ≠ c.nextUid
        omega

theorem HW_addTimed' {fn period user} (hok : addOkT fn user = true) (h : HW c) :
    HW (addTimed c fn period user) := by
  unfold addTimed; split
  · exact h
  · rename_i hany
    simp only [addOkT, Bool.or_eq_true, Bool.not_eq_true', beq_iff_eq] at hok
    refine { h with uft := ?_, bh := ?_, bi := ?_, mu := ?_ }
    · intro x hx hu
      rcases List.mem_cons.1 hx with hx | hx
      · subst hx
        rcases hok with h1 | h1
        · rw [h1] at hu; cases hu
        · exact h1
      · exact h.uft x hx hu
    · intro x hx; exact Nat.lt_succ_of_lt (h.bh x hx)
    · intro x hx; exact Nat.lt_succ_of_lt (h.bi x hx)
    · -- a second timer of the same function is never added
      have hno : ∀ t ∈ c.timed, t.fn ≠ fn := by
        intro t ht he
        apply hany
        rw [List.any_eq_true]
        exact ⟨t, ht, by simp [he]⟩
      intro x hx y hy h1 h2
      rcases List.mem_cons.1 hx with hx | hx <;> rcases List.mem_cons.1 hy with hy | hy
      · subst hx; subst hy; rfl
      · subst hx; exact absurd (h2.trans h1.symm) (hno y hy)
      · subst hy; exact absurd (h1.trans h2.symm) (hno x hx)
      · exact h.mu x hx y hy h1 h2

theorem HW_triggerSmCallback (h : HW c) : HW (triggerSmCallback c) := h
theorem HW_delTimed {fn} (h : HW c) : HW (delTimed c fn) := by
  c4auto delTimed
theorem HW_resetTimed (h : HW c) : HW (resetTimed c) := by
  c4auto resetTimed
theorem HW_systemDeleteAll (h : HW c) : HW (systemDeleteAll c) := by
  c4auto systemDeleteAll
theorem HW_resetSmForReconnect (h : HW c) : HW (resetSmForReconnect c) := by
  c4auto resetSmForReconnect
theorem HW_notify {e} (h : HW c) : HW (notify c e) := by
  c4auto notify
theorem HW_connDisconnect (h : HW c) : HW (connDisconnect c) := by
  c4auto connDisconnect
theorem HW_pushRawWith {it o sn} (h : HW c) : HW (pushRawWith c it o sn) := by
  c4auto pushRawWith
theorem HW_pushRaw {it o} (h : HW c) : HW (pushRaw c it o) := by
  c4auto pushRaw
theorem HW_sendStanza {it o} (h : HW c) : HW (sendStanza c it o) := by
  c4auto sendStanza
theorem HW_sendRaw {it o} (h : HW c) : HW (sendRaw c it o) := by
  c4auto sendRaw
theorem HW_sendRawString {it} (h : HW c) : HW (sendRawString c it) := by
  c4auto sendRawString
theorem HW_xmppDisconnect (h : HW c) : HW (xmppDisconnect c) := by
  c4auto xmppDisconnect
theorem HW_connTlsStart (h : HW c) : HW ((connTlsStart c).1) := by
  c4auto connTlsStart
theorem HW_connOpenStream (h : HW c) : HW (connOpenStream c) := by
  c4auto connOpenStream
theorem HW_prepareReset {o} (h : HW c) : HW (prepareReset c o) := h
theorem HW_negotiationSuccess (h : HW c) : HW (negotiationSuccess c) := by
  c4auto negotiationSuccess
theorem HW_authLegacyStep (h : HW c) : HW (authLegacyStep c) := by
  c4auto authLegacyStep
theorem HW_auth (n : Nat) : ∀ {c}, HW c → HW (auth c n) := by
  induction n with
  | zero => intro c h; exact h
  | succ n ih =>
    intro c h
    rw [auth]
    dsimp only
    c4trav
    all_goals first | (apply ih; c4trav) | skip
theorem HW_authTop (h : HW c) : HW (authTop c) := HW_auth _ h
theorem HW_saslChild {t} (h : HW c) : HW (saslChild c t) := by
  c4auto saslChild
theorem HW_noteOffers {st} (h : HW c) : HW (noteOffers c st) := by
  c4auto noteOffers
theorem HW_handleFeatures {st} (h : HW c) : HW (handleFeatures c st) := by
  c4auto handleFeatures
theorem HW_doBind (h : HW c) : HW (doBind c) := by
  c4auto doBind
theorem HW_smEnable (h : HW c) : HW (smEnable c) := by
  c4auto smEnable
theorem HW_sessionStart (h : HW c) : HW (sessionStart c) := by
  c4auto sessionStart
theorem HW_handleFeaturesSasl {st} (h : HW c) : HW (handleFeaturesSasl c st) := by
  c4auto handleFeaturesSasl
theorem HW_compressionOffer {st} (h : HW c) : HW (compressionOffer c st) := by
  c4auto compressionOffer
theorem HW_handleFeaturesCompress {st} (h : HW c) : HW (handleFeaturesCompress c st) := by
  c4auto handleFeaturesCompress
theorem HW_handleSaslResult {st} (h : HW c) : HW (handleSaslResult c st) := by
  c4auto handleSaslResult
theorem HW_smQueueResend (h : HW c) : HW (smQueueResend c) := by
  c4auto smQueueResend
theorem HW_handleSm {st} (h : HW c) : HW (handleSm c st) := by
  c4auto handleSm
theorem HW_handleBind {st} (h : HW c) : HW (handleBind c st) := by
  c4auto handleBind
theorem HW_handleSession {st} (h : HW c) : HW (handleSession c st) := by
  c4auto handleSession
theorem HW_handleLegacy {st} (h : HW c) : HW (handleLegacy c st) := by
  c4auto handleLegacy
theorem HW_handleError {st} (h : HW c) : HW (handleError c st) := by
  c4auto handleError
theorem HW_runSys {k st} (h : HW c) : HW ((runSys c k st).1) := by
  c4auto runSys
theorem HW_runHandler {k st} (h : HW c) : HW ((runHandler c k st).1) := by
  c4auto runHandler
theorem HW_fireOne {st uid} (h : HW c) : HW (fireOne st c uid) := by
  c4auto fireOne
theorem HW_fireIdOne {st uid} (h : HW c) : HW (fireIdOne st c uid) := by
  c4auto fireIdOne
theorem HW_fireStanza {st} (h : HW c) : HW (fireStanza c st) := by
  c4auto fireStanza
theorem HW_smElement {st} (h : HW c) : HW (smHandleStanza.smElement c st) := by
  c4auto smHandleStanza.smElement
theorem HW_smHandleStanza {st} (h : HW c) : HW (smHandleStanza c st) := by
  c4auto smHandleStanza
theorem HW_handleStreamStanza {st} (h : HW c) : HW (handleStreamStanza c st) := by
  c4auto handleStreamStanza
theorem HW_componentOpen (h : HW c) : HW (componentOpen c) := by
  c4auto componentOpen
theorem HW_runOpenHandler (h : HW c) : HW (runOpenHandler c) := by
  c4auto runOpenHandler
theorem HW_handleStreamStart {n id} (h : HW c) : HW (handleStreamStart c n id) := by
  c4auto handleStreamStart
theorem HW_handleStreamEnd (h : HW c) : HW (handleStreamEnd c) := by
  c4auto handleStreamEnd
theorem HW_parserEvent {e} (h : HW c) : HW (parserEvent c e) := by
  c4auto parserEvent
theorem HW_runTimed {f} (h : HW c) : HW ((runTimed c f).1) := by
  c4auto runTimed
theorem HW_fireTimedOne {uid} (h : HW c) : HW (fireTimedOne c uid) := by
  c4auto fireTimedOne
theorem HW_fireTimed (h : HW c) : HW (fireTimed c) := by
  c4auto fireTimed
theorem HW_retire {e} (h : HW c) : HW (retire c e) := by
  c4auto retire
theorem HW_writeElems (l : List QElem) : ∀ {c}, HW c → HW (writeElems c l) := by
  induction l with
  | nil => intro c h; exact h
  | cons e q ih =>
    intro c h
    unfold writeElems
    c4trav
    all_goals first | (apply ih; c4trav) | skip
theorem HW_writeLoop (h : HW c) : HW (writeLoop c) := HW_writeElems _ h
theorem HW_connEstablished (h : HW c) : HW (connEstablished c) := by
  c4auto connEstablished
theorem HW_runOnce {rx} (h : HW c) : HW (runOnce c rx) := by
  c4auto runOnce
theorem HW_xmppSend {it} (h : HW c) : HW (xmppSend c it) := by
  c4auto xmppSend
theorem HW_xmppSendRawString {it} (h : HW c) : HW (xmppSendRawString c it) := by
  c4auto xmppSendRawString
theorem HW_xmppSendRaw {it} (h : HW c) : HW (xmppSendRaw c it) := by
  c4auto xmppSendRaw
theorem HW_release (h : HW c) : HW (release c) := by
  c4auto release
theorem HW_connReset (h : HW c) : HW (connReset c) := by
  c4auto connReset
theorem HW_setFlags {f} (h : HW c) : HW ((setFlags c f).1) := by
  c4auto setFlags
theorem HW_connConnect {d t} (h : HW c) : HW ((connConnect c d t).1) := by
  c4auto connConnect
theorem HW_connectClient (h : HW c) : HW ((connectClient c).1) := by
  c4auto connectClient
theorem HW_connectComponent (h : HW c) : HW ((connectComponent c).1) := by
  c4auto connectComponent
theorem HW_connectRaw (h : HW c) : HW ((connectRaw c).1) := by
  c4auto connectRaw

theorem HW_step (op : Op) (h : HW c) : HW (step c op) := by
  cases op with
  | connect k =>
    cases k
    · exact HW_connectClient h
    · exact HW_connectComponent h
    · exact HW_connectRaw h
  | run rx => exact HW_runOnce h
  | setTcp f e => exact h
  | setTls sf nf => exact h
  | setSched l d => exact h
  | tick ms => exact h
  | setSmCallback => exact h
  | setSendOnConnect on => exact h
  | setFlags f => exact HW_setFlags h
  | usend it => exact HW_xmppSend h
  | uraw it => exact HW_xmppSendRaw h
  | urawstr it => exact HW_xmppSendRawString h
  | udisc => exact HW_xmppDisconnect h
  | release => exact HW_release h
  | addUserHandlers => exact HW_addTimed' rfl (HW_addIdHandler' rfl (HW_addHandler' rfl h))

theorem HW_exec (ops : List Op) : ∀ {c}, HW c → HW (exec c ops) := by
  induction ops with
  | nil => intro c h; exact h
  | cons op ops ih => intro c h; exact ih (HW_step op h)

theorem HW_fresh (jid pass : Option Bytes) (cert : Bool) (flags : Nat) : HW (fresh jid pass cert flags) := by
  unfold fresh
  apply HW_setFlags
  refine ⟨?_, ?_, ?_, ?_, ?_, ?_, ?_, List.nodup_nil, List.nodup_nil, ?_, ?_⟩ <;> intro x hx <;> cases hx

theorem HW_reach (jid pass : Option Bytes) (cert : Bool) (flags : Nat) (ops : List Op) :
    HW (exec (fresh jid pass cert flags) ops) :=
  HW_exec ops (HW_fresh jid pass cert flags)

end Strophe.Lemmas.ConnC04
