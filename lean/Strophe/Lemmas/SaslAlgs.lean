/-
C07 — helper lemmas, part 7: the rows of `scram_algs[]` realise the standard functions; the
"is a response sent" predicates used by the connection model.
-/
import Strophe.Lemmas.SaslWhole
open Strophe Strophe.Hash Strophe.Sasl
open Strophe.Spec.Rfc5802

namespace Strophe.Lemmas.Sasl

theorem realizes_sha1 : Realizes algSha1 sha1Fn where
  ds := rfl
  small := by decide
  hmacLen := fun k t => by simp [sha1Fn, Spec.Hash.hmacSha1, Spec.Hash.hmac, sha1_length]
  hLen := fun m => sha1_length m
  hmac := fun k t _ _ => hmac_sha1 k t
  hmacParts := fun k a b _ _ => hmacParts_sha1 k a b
  hash := fun m _ => by
    have := sha1_stream [m]
    simpa [algSha1, Sha1.hash, sha1Fn] using this

theorem realizes_sha256 : Realizes algSha256 sha256Fn where
  ds := rfl
  small := by decide
  hmacLen := fun k t => by simp [sha256Fn, Spec.Hash.hmacSha256, Spec.Hash.hmac, sha256_length]
  hLen := fun m => sha256_length m
  hmac := fun k t hk ht => hmac_sha256 k t hk ht
  hmacParts := fun k a b hk hab => hmacParts_sha256 k a b hk hab
  hash := fun m hm => by
    have := sha256_stream [m] (by simp; omega)
    simpa [algSha256, Sha256.hash, sha256Fn] using this

theorem realizes_sha512 : Realizes algSha512 sha512Fn where
  ds := rfl
  small := by decide
  hmacLen := fun k t => by simp [sha512Fn, Spec.Hash.hmacSha512, Spec.Hash.hmac, sha512_length]
  hLen := fun m => sha512_length m
  hmac := fun k t hk ht => hmac_sha512 k t hk ht
  hmacParts := fun k a b hk hab => hmacParts_sha512 k a b hk hab
  hash := fun m hm => by
    have := sha512_stream [m] (by simp; omega)
    simpa [algSha512, Sha512.hash, sha512Fn] using this

/-- with a nonce in the table `sasl_digest_md5` always produces a reply -/
theorem digestReply_ok (T : Table) (node domain pw cnonce : Bytes) (hn : (T.get kNonce).isSome) :
    ∃ r, digestReply T node domain pw cnonce = .ok (some r) := by
  obtain ⟨nonce, hn⟩ := Option.isSome_iff_exists.mp hn
  have hne : ∀ k, k ≠ kRealm → (withRealm T domain).get k = T.get k := by
    intro k hk
    unfold withRealm
    cases hr : T.get kRealm with
    | none => simp [Table.get_add_ne _ _ _ _ hk]
    | some r =>
      by_cases he : r.isEmpty
      · simp [he, Table.get_add_ne _ _ _ _ hk]
      · simp [he]
  have hN : (withRealm T domain).get kNonce = some nonce := by rw [hne _ (by decide)]; exact hn
  unfold digestReply
  simp (config := { decide := true }) only [Table.get_add, if_true, if_false, hN]
  exact ⟨_, rfl⟩

/-- `digestResponds` is exactly "the handler sends a `<response/>`" (JID with a node) -/
theorem digestResponds_spec (text : Option Bytes) (jid pw rnd node : Bytes) (hnode : Jid.node jid = some node) :
    (∃ r, handleDigestChallenge text jid pw rnd = .ok (.resp r)) ↔ digestResponds text = true := by
  unfold handleDigestChallenge digestResponds digestMd5
  cases text with
  | none => simp [Res.bind]
  | some msg =>
    cases msg with
    | nil => simp [Res.bind]
    | cons c m =>
      simp only
      cases Base64.decodeStr (c :: m) with
      | none => simp [Res.bind]
      | some t =>
        simp only [hnode]
        cases hn : (parseChallenge t).get kNonce with
        | none => simp [Res.bind]
        | some v =>
          obtain ⟨r, hr⟩ := digestReply_ok (parseChallenge t) node (Jid.domain jid) pw
            ((randNonce Gen.Sasl.digestCnonceBuf rnd).getD []) (by rw [hn]; rfl)
          simp [hr, Res.bind]

theorem xorBytes_length_le (a b : Bytes) : (xorBytes a b).length ≤ a.length := by
  simp [xorBytes]; omega

theorem clientProof_length_le (alg : Alg) (key sign : Bytes) : (clientProof alg key sign).length ≤ alg.digestSize := by
  unfold clientProof
  have := xorBytes_length_le (key.take alg.digestSize) (sign.take alg.digestSize)
  simp at this ⊢
  omega

/-- once r/s/i are there and the salt decodes, `sasl_scram` produces a message (or is outside the
    modelled sizes): the three truncation checks never fire -/
theorem scramFinal_responds (alg : Alg) (h : alg.digestSize ≤ Gen.Sasl.hiTmpSize) (cb ch fb pw r s i : Bytes)
    (p : Bytes × Nat) (hr : (scanFields (tokens ch)).r = some r) (hs : (scanFields (tokens ch)).s = some s)
    (hi : (scanFields (tokens ch)).i = some i) (hd : Base64.decodeBin s = some p) :
    (∃ m, scramFinal alg cb ch fb pw = .ok (some m)) ∨ (∃ w, scramFinal alg cb ch fb pw = .undef w) := by
  unfold scramFinal
  simp only [hr, hs, hi, hd]
  have c1 : ¬ (litC ++ cb ++ [comma] ++ r).length ≥
      3 + cb.length + r.length + 3 + (alg.digestSize + 2) / 3 * 4 + 1 := by
    simp [litC, cs]; omega
  have c2 : ¬ (fb ++ [comma] ++ ch ++ [comma] ++ (litC ++ cb ++ [comma] ++ r)).length ≥
      3 + (3 + cb.length + r.length + 3 + (alg.digestSize + 2) / 3 * 4 + 1) + fb.length + ch.length := by
    simp [litC, cs]; omega
  rw [if_neg c1, if_neg c2]
  have hk := clientKey_safe alg h pw (p.1.take p.2) (toU32 (strtol i))
  cases hck : clientKey alg pw (p.1.take p.2) (toU32 (strtol i)) with
  | crash w => rw [hck] at hk; simp [Res.safe] at hk
  | abort w => rw [hck] at hk; simp [Res.safe] at hk
  | undef w => exact Or.inr ⟨w, rfl⟩
  | ok key =>
    simp only [Res.bind]
    have hsafe : (clientSignature alg key (fb ++ [comma] ++ ch ++ [comma] ++ (litC ++ cb ++ [comma] ++ r))).safe = true := by
      unfold clientSignature; exact ofDigest_safe _ _
    cases hcs : clientSignature alg key (fb ++ [comma] ++ ch ++ [comma] ++ (litC ++ cb ++ [comma] ++ r)) with
    | crash w => rw [hcs] at hsafe; simp [Res.safe] at hsafe
    | abort w => rw [hcs] at hsafe; simp [Res.safe] at hsafe
    | undef w => exact Or.inr ⟨w, rfl⟩
    | ok sign =>
      simp only [Res.bind]
      have hl := clientProof_length_le alg key sign
      have c3 : ¬ (litC ++ cb ++ [comma] ++ r).length + (Base64.encode (clientProof alg key sign)).length + 3 + 1 >
          3 + cb.length + r.length + 3 + (alg.digestSize + 2) / 3 * 4 + 1 := by
        rw [Lemmas.Base64.encode_length]
        simp [litC, cs]
        have : ((clientProof alg key sign).length + 2) / 3 ≤ (alg.digestSize + 2) / 3 :=
          Nat.div_le_div_right (by omega)
        omega
      rw [if_neg c3]
      exact Or.inl ⟨_, rfl⟩

/-- `scramResponds` is exactly "the handler sends a `<response/>`" (outside the `undef` sizes) -/
theorem scramResponds_spec (alg : Alg) (h : alg.digestSize ≤ Gen.Sasl.hiTmpSize) (init : ScramInit)
    (text : Option Bytes) (pw : Bytes) :
    match handleScramChallenge alg init text pw with
    | .ok (.resp _) => scramResponds text = true
    | .ok .memerr => scramResponds text = false
    | .undef _ => True
    | _ => False := by
  unfold handleScramChallenge scramResponds
  cases text with
  | none => simp
  | some msg =>
    cases msg with
    | nil => simp
    | cons c m =>
      simp only
      cases Base64.decodeStr (c :: m) with
      | none => simp
      | some ch =>
        simp only
        cases hr : (scanFields (tokens ch)).r with
        | none =>
          have : scramFinal alg init.channelBinding ch init.firstBare pw = .ok none := by
            unfold scramFinal; simp [hr]
          simp [this, Res.bind]
        | some r =>
        cases hs : (scanFields (tokens ch)).s with
        | none =>
          have : scramFinal alg init.channelBinding ch init.firstBare pw = .ok none := by
            unfold scramFinal; simp [hr, hs]
          simp [this, Res.bind]
        | some s =>
        cases hi : (scanFields (tokens ch)).i with
        | none =>
          have : scramFinal alg init.channelBinding ch init.firstBare pw = .ok none := by
            unfold scramFinal; simp [hr, hs, hi]
          simp [this, Res.bind]
        | some i =>
        cases hd : Base64.decodeBin s with
        | none =>
          have : scramFinal alg init.channelBinding ch init.firstBare pw = .ok none := by
            unfold scramFinal; simp [hr, hs, hi, hd]
          simp [this, Res.bind, hd]
        | some p =>
          rcases scramFinal_responds alg h init.channelBinding ch init.firstBare pw r s i p hr hs hi hd with
            ⟨m, hm⟩ | ⟨w, hw⟩
          · simp [hm, Res.bind, hd]
          · simp [hw, Res.bind]

end Strophe.Lemmas.Sasl
