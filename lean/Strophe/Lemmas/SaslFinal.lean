/-
C07 — helper lemmas, part 2: `sasl_scram` on a well-formed server-first-message.
-/
import Strophe.Lemmas.SaslScram
open Strophe Strophe.Hash Strophe.Sasl
open Strophe.Spec.Rfc5802

namespace Strophe.Lemmas.Sasl

/-- extension attributes of a server-first-message: `,e1,e2…` -/
def extFlat (ext : List Bytes) : Bytes := ext.flatMap (fun e => comma :: e)

/-- a legal extension attribute for the C scanner: non-empty, comma-free, not one of r= s= i= -/
def ExtOk (e : Bytes) : Prop :=
  e ≠ [] ∧ (∀ c ∈ e, c ≠ comma) ∧ hasPrefix litR e = false ∧ hasPrefix litS e = false ∧ hasPrefix litI e = false

theorem tokens_ext (p : Bytes) (ext : List Bytes) (hp : p ≠ []) (hpc : ∀ c ∈ p, c ≠ comma)
    (hext : ∀ e ∈ ext, ExtOk e) : tokensAux (p ++ extFlat ext) [] = p :: ext := by
  induction ext generalizing p with
  | nil => simpa [extFlat] using tokens_last p hp hpc
  | cons e es ih =>
    have he := hext e (by simp)
    have : p ++ extFlat (e :: es) = p ++ comma :: (e ++ extFlat es) := by simp [extFlat]
    rw [this, tokens_cons p _ hp hpc, ih e he.1 he.2.1 (fun x hx => hext x (by simp [hx]))]

theorem serverFirst_shape (snonce salt : Bytes) (i : Nat) (ext : List Bytes) :
    serverFirstMessage snonce salt i ext =
      (litR ++ snonce) ++ comma :: ((litS ++ Base64.encode salt) ++ comma :: ((litI ++ decimal i) ++ extFlat ext)) := by
  simp [serverFirstMessage, asc, litR, litS, litI, cs, comma, extFlat, Lemmas.Base64.encode_eq_rfc4648]

theorem tokens_serverFirst (snonce salt : Bytes) (i : Nat) (ext : List Bytes)
    (hn : ∀ c ∈ snonce, c ≠ comma) (hext : ∀ e ∈ ext, ExtOk e) :
    tokens (serverFirstMessage snonce salt i ext) =
      (litR ++ snonce) :: (litS ++ Base64.encode salt) :: (litI ++ decimal i) :: ext := by
  have lit_nc : ∀ (l : Bytes), (l = litR ∨ l = litS ∨ l = litI) → ∀ c ∈ l, c ≠ comma := by
    intro l hl c hc
    rcases hl with rfl | rfl | rfl <;> (simp [litR, litS, litI, cs] at hc; rcases hc with rfl | rfl <;> decide)
  unfold tokens
  rw [serverFirst_shape, tokens_cons _ _ (by simp [litR, cs]) (by
        intro c hc; simp only [List.mem_append] at hc
        rcases hc with hc | hc
        · exact lit_nc litR (Or.inl rfl) c hc
        · exact hn c hc),
      tokens_cons _ _ (by simp [litS, cs]) (by
        intro c hc; simp only [List.mem_append] at hc
        rcases hc with hc | hc
        · exact lit_nc litS (Or.inr (Or.inl rfl)) c hc
        · exact encode_nocomma salt c hc),
      tokens_ext _ ext (by simp [litI, cs]) (by
        intro c hc; simp only [List.mem_append] at hc
        rcases hc with hc | hc
        · exact lit_nc litI (Or.inr (Or.inr rfl)) c hc
        · exact decimal_nocomma i c hc) hext]

theorem scan_ext (f : Fields) (ext : List Bytes) (hext : ∀ e ∈ ext, ExtOk e) :
    ext.foldl (fun f t =>
      if hasPrefix litR t then { f with r := some t }
      else if hasPrefix litS t then { f with s := some (t.drop 2) }
      else if hasPrefix litI t then { f with i := some (t.drop 2) }
      else f) f = f := by
  induction ext generalizing f with
  | nil => rfl
  | cons e es ih =>
    obtain ⟨_, _, h1, h2, h3⟩ := hext e (by simp)
    simp only [List.foldl_cons, h1, h2, h3, Bool.false_eq_true, if_false]
    exact ih f (fun x hx => hext x (by simp [hx]))

theorem scanFields_serverFirst (snonce salt : Bytes) (i : Nat) (ext : List Bytes)
    (hn : ∀ c ∈ snonce, c ≠ comma) (hext : ∀ e ∈ ext, ExtOk e) :
    scanFields (tokens (serverFirstMessage snonce salt i ext)) =
      { r := some (litR ++ snonce), s := some (Base64.encode salt), i := some (decimal i) } := by
  rw [tokens_serverFirst snonce salt i ext hn hext]
  unfold scanFields
  have hr : hasPrefix litR (litR ++ snonce) = true := by simp [hasPrefix, litR, cs]
  have hs1 : hasPrefix litR (litS ++ Base64.encode salt) = false := by simp [hasPrefix, litR, litS, cs]
  have hs2 : hasPrefix litS (litS ++ Base64.encode salt) = true := by simp [hasPrefix, litS, cs]
  have hi1 : hasPrefix litR (litI ++ decimal i) = false := by simp [hasPrefix, litR, litI, cs]
  have hi2 : hasPrefix litS (litI ++ decimal i) = false := by simp [hasPrefix, litS, litI, cs]
  have hi3 : hasPrefix litI (litI ++ decimal i) = true := by simp [hasPrefix, litI, cs]
  simp only [List.foldl_cons, hr, hs1, hs2, hi1, hi2, hi3, Bool.false_eq_true, if_true, if_false]
  rw [scan_ext _ ext hext]
  simp [litS, litI, cs]


/-- the proof the model computes is the RFC's, and it has the digest length -/
theorem clientProofOf_length {F : HashFn} (hl : ∀ k m, (F.HMAC k m).length = F.hLen) (pw salt : Bytes) (i : Nat)
    (am : Bytes) : (clientProofOf F pw salt i am).length = F.hLen := by
  simp [clientProofOf, ClientProof, XOR_length, ClientKey, ClientSignature, hl]

/-- `sasl_scram` on a well-formed server-first-message: the client-final-message of RFC 5802
    with the RFC's ClientProof over the RFC's AuthMessage -/
theorem scramFinal_eq_spec {alg : Alg} {F : HashFn} (R : Realizes alg F)
    (cb firstBare pw snonce salt : Bytes) (i : Nat) (ext : List Bytes)
    (hn : ∀ c ∈ snonce, c ≠ comma) (hsalt : salt ≠ []) (hi1 : 1 ≤ i) (hi32 : i < 2 ^ 32)
    (hext : ∀ e ∈ ext, ExtOk e)
    (hpw : pw.length < 2 ^ 60) (hsl : salt.length < 2 ^ 59)
    (ham : (AuthMessage firstBare (serverFirstMessage snonce salt i ext)
              (clientFinalWithoutProofOf cb snonce)).length < 2 ^ 60) :
    scramFinal alg cb (serverFirstMessage snonce salt i ext) firstBare pw =
      .ok (some (Base64.encode (clientFinalMessageOf (clientFinalWithoutProofOf cb snonce)
        (clientProofOf F pw salt i (AuthMessage firstBare (serverFirstMessage snonce salt i ext)
          (clientFinalWithoutProofOf cb snonce)))))) := by
  unfold scramFinal
  simp only [scanFields_serverFirst snonce salt i ext hn hext]
  rw [decodeBin_encode salt hsalt]
  simp only [strtol_decimal i (by omega), toU32_small i hi32, List.take_length]
  -- the response / auth buffers
  have hresp : litC ++ cb ++ [comma] ++ (litR ++ snonce) = clientFinalWithoutProofOf cb snonce := by
    simp [clientFinalWithoutProofOf, asc, litC, litR, cs, comma]
  have hauth : firstBare ++ [comma] ++ serverFirstMessage snonce salt i ext ++ [comma] ++
      (litC ++ cb ++ [comma] ++ (litR ++ snonce)) =
      AuthMessage firstBare (serverFirstMessage snonce salt i ext) (clientFinalWithoutProofOf cb snonce) := by
    rw [hresp]; simp [AuthMessage, asc, comma]
  rw [hauth, hresp]
  have hrl : (clientFinalWithoutProofOf cb snonce).length = 3 + cb.length + (litR ++ snonce).length := by
    simp [clientFinalWithoutProofOf, asc, litR, cs]; omega
  have c1 : ¬ (clientFinalWithoutProofOf cb snonce).length ≥
      3 + cb.length + (litR ++ snonce).length + 3 + (alg.digestSize + 2) / 3 * 4 + 1 := by omega
  rw [if_neg c1]
  have c2 : ¬ (AuthMessage firstBare (serverFirstMessage snonce salt i ext) (clientFinalWithoutProofOf cb snonce)).length ≥
      3 + (3 + cb.length + (litR ++ snonce).length + 3 + (alg.digestSize + 2) / 3 * 4 + 1) + firstBare.length +
        (serverFirstMessage snonce salt i ext).length := by
    simp only [AuthMessage, asc, List.length_append, List.length_map, List.length_cons, List.length_nil, hrl]
    omega
  rw [if_neg c2]
  rw [clientKey_eq_spec R pw salt i hi1 hpw hsl]
  simp only [Res.bind]
  have hckl : (ClientKey F (SaltedPassword F pw salt i)).length = F.hLen := by simp [ClientKey, R.hmacLen]
  rw [clientSignature_eq_spec R _ _ hckl ham]
  simp only [Res.bind]
  have hsl' : (ClientSignature F (StoredKey F (ClientKey F (SaltedPassword F pw salt i)))
      (AuthMessage firstBare (serverFirstMessage snonce salt i ext) (clientFinalWithoutProofOf cb snonce))).length = F.hLen := by
    simp [ClientSignature, R.hmacLen]
  rw [clientProof_eq_spec R _ _ hckl hsl']
  have hpl := clientProofOf_length R.hmacLen pw salt i
    (AuthMessage firstBare (serverFirstMessage snonce salt i ext) (clientFinalWithoutProofOf cb snonce))
  have hproof : ClientProof (ClientKey F (SaltedPassword F pw salt i))
      (ClientSignature F (StoredKey F (ClientKey F (SaltedPassword F pw salt i)))
        (AuthMessage firstBare (serverFirstMessage snonce salt i ext) (clientFinalWithoutProofOf cb snonce))) =
      clientProofOf F pw salt i
        (AuthMessage firstBare (serverFirstMessage snonce salt i ext) (clientFinalWithoutProofOf cb snonce)) := rfl
  rw [hproof]
  have c3 : ¬ (clientFinalWithoutProofOf cb snonce).length + (Base64.encode (clientProofOf F pw salt i
      (AuthMessage firstBare (serverFirstMessage snonce salt i ext) (clientFinalWithoutProofOf cb snonce)))).length + 3 + 1 >
      3 + cb.length + (litR ++ snonce).length + 3 + (alg.digestSize + 2) / 3 * 4 + 1 := by
    rw [Lemmas.Base64.encode_length, hpl, R.ds, hrl]
    omega
  rw [if_neg c3]
  simp [clientFinalMessageOf, asc, litP, cs, Lemmas.Base64.encode_eq_rfc4648]

end Strophe.Lemmas.Sasl
