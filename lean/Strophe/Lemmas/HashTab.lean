/-
Lemmas about the model of src/hash.c (`Model/HashTab.lean`): the invariant `WF` kept by
hash_new / hash_add / hash_drop, and what hash_get answers after them.  Used by Props/C09.lean.
-/
import Strophe.Model.HashTab
namespace Strophe.HashTab

/-! chain level -/

theorem chainFind_none_iff (key : Bytes) : ∀ c : List Entry, chainFind key c = none ↔ key ∉ c.map Prod.fst
  | [] => by simp [chainFind]
  | (k, v) :: rest => by
    by_cases h : k = key
    · simp [chainFind, h]
    · have := chainFind_none_iff key rest
      simp [chainFind, h, this, Ne.symm h]

theorem chainFind_some_mem (key : Bytes) : ∀ (c : List Entry) (v : Bytes), chainFind key c = some v → (key, v) ∈ c
  | [], v, h => by simp [chainFind] at h
  | (k, w) :: rest, v, h => by
    by_cases hk : k = key
    · simp [chainFind, hk] at h; simp [hk, h]
    · simp [chainFind, hk] at h
      exact List.mem_cons_of_mem _ (chainFind_some_mem key rest v h)

theorem chainFind_of_mem (key v : Bytes) : ∀ (c : List Entry), (c.map Prod.fst).Nodup → (key, v) ∈ c →
    chainFind key c = some v
  | [], _, h => by simp at h
  | (k, w) :: rest, hn, h => by
    simp only [List.map_cons, List.nodup_cons] at hn
    by_cases hk : k = key
    · simp only [chainFind, hk, if_true]
      rcases List.mem_cons.1 h with h | h
      · simp at h; simp [h.2]
      · exfalso; apply hn.1; rw [hk]; exact List.mem_map_of_mem (f := Prod.fst) h
    · simp only [chainFind, hk, if_false]
      rcases List.mem_cons.1 h with h | h
      · simp at h; exact absurd h.1.symm hk
      · exact chainFind_of_mem key v rest hn.2 h

theorem chainReplace_keys (key val : Bytes) : ∀ c : List Entry, (chainReplace key val c).map Prod.fst = c.map Prod.fst
  | [] => rfl
  | (k, v) :: rest => by
    by_cases h : k = key
    · simp [chainReplace, h]
    · simp [chainReplace, h, chainReplace_keys key val rest]

theorem chainReplace_length (key val : Bytes) (c : List Entry) : (chainReplace key val c).length = c.length := by
  have := congrArg List.length (chainReplace_keys key val c); simpa using this

theorem chainFind_replace (key val k' : Bytes) : ∀ c : List Entry,
    chainFind k' (chainReplace key val c) =
      if k' = key then (if key ∈ c.map Prod.fst then some val else none) else chainFind k' c
  | [] => by simp [chainReplace, chainFind]
  | (k, v) :: rest => by
    have ih := chainFind_replace key val k' rest
    by_cases h : k = key
    · subst h
      by_cases h2 : k' = k
      · simp [chainReplace, chainFind, h2]
      · simp [chainReplace, chainFind, h2, Ne.symm h2]
    · by_cases h2 : k' = key
      · subst h2
        have : k' ≠ k := Ne.symm h
        have e : (k' ∈ List.map Prod.fst ((k, v) :: rest)) ↔ (k' ∈ List.map Prod.fst rest) := by
          rw [List.map_cons, List.mem_cons]; exact ⟨fun h => h.resolve_left this, Or.inr⟩
        simp only [chainReplace, chainFind, h, if_false, ih, if_true, e]
      · simp [chainReplace, chainFind, h, ih, h2]

theorem chainDrop_sublist (key : Bytes) : ∀ c : List Entry, (chainDrop key c).Sublist c
  | [] => by simp [chainDrop]
  | (k, v) :: rest => by
    by_cases h : k = key
    · simp [chainDrop, h]
    · simp [chainDrop, h, chainDrop_sublist key rest]

theorem chainDrop_length (key : Bytes) : ∀ c : List Entry, key ∈ c.map Prod.fst →
    (chainDrop key c).length + 1 = c.length
  | [], h => by simp at h
  | (k, v) :: rest, h => by
    by_cases hk : k = key
    · simp [chainDrop, hk]
    · have : key ∈ rest.map Prod.fst := by
        simp only [List.map_cons, List.mem_cons] at h
        rcases h with h | h
        · exact absurd h.symm hk
        · exact h
      simp [chainDrop, hk, chainDrop_length key rest this]

theorem chainFind_drop (key k' : Bytes) : ∀ c : List Entry, (c.map Prod.fst).Nodup →
    chainFind k' (chainDrop key c) = if k' = key then none else chainFind k' c
  | [], _ => by simp [chainDrop, chainFind]
  | (k, v) :: rest, hn => by
    simp only [List.map_cons, List.nodup_cons] at hn
    have ih := chainFind_drop key k' rest hn.2
    by_cases h : k = key
    · subst h
      by_cases h2 : k' = k
      · subst h2
        simp [chainDrop, (chainFind_none_iff k' rest).2 hn.1]
      · simp [chainDrop, chainFind, h2, Ne.symm h2]
    · by_cases h2 : k' = key
      · subst h2
        simp [chainDrop, chainFind, h, ih]
      · simp [chainDrop, chainFind, h, ih, h2]

/-! table level -/

theorem hashKey_eq (t : HashTab) (k : Bytes) : t.hashKey k = hashIdx t.buckets.length k := rfl

theorem hashKey_lt {t : HashTab} (h : WF t) (k : Bytes) : t.hashKey k < t.buckets.length :=
  Nat.mod_lt _ h.pos

theorem wf_new (n : Nat) (h : 0 < n) : WF (new n) where
  pos := by simpa [new] using h
  nodup := by intro i hi; simp [new]
  home := by intro i hi e he; simp [new] at he
  count := by simp [new, toList]

theorem getD_eq_getElem {α} (l : List α) (d : α) (i : Nat) (h : i < l.length) : l.getD i d = l[i] := by
  simp [List.getD, h]

/-- splitting the flattened table around chain `i` -/
theorem flatten_split (l : List (List Entry)) (i : Nat) (h : i < l.length) :
    l.flatten = (l.take i).flatten ++ l[i] ++ (l.drop (i + 1)).flatten := by
  conv => lhs; rw [← List.take_append_drop i l]
  rw [List.flatten_append, List.drop_eq_getElem_cons h, List.flatten_cons]
  simp [List.append_assoc]

theorem flatten_set (l : List (List Entry)) (i : Nat) (c : List Entry) (h : i < l.length) :
    (l.set i c).flatten = (l.take i).flatten ++ c ++ (l.drop (i + 1)).flatten := by
  have hl : i < (l.set i c).length := by simpa using h
  rw [flatten_split (l.set i c) i hl]
  simp [List.take_set_of_le, List.drop_set_of_lt]


theorem toList_length_set (t : HashTab) (i : Nat) (c : List Entry) (h : i < t.buckets.length) :
    (t.buckets.set i c).flatten.length + t.buckets[i].length = t.toList.length + c.length := by
  rw [flatten_set _ _ _ h, toList, flatten_split t.buckets i h]
  simp only [List.length_append]; omega

theorem wf_set {t : HashTab} (h : WF t) (i : Nat) (hi : i < t.buckets.length) (c : List Entry) (n : Nat)
    (hnd : (c.map Prod.fst).Nodup) (hhome : ∀ e ∈ c, hashIdx t.buckets.length e.1 = i)
    (hn : n + t.buckets[i].length = t.numKeys + c.length) : WF ⟨t.buckets.set i c, n⟩ where
  pos := by simpa using h.pos
  nodup := by
    intro j hj
    simp only [List.length_set] at hj
    by_cases e : i = j
    · subst e; simpa using hnd
    · rw [List.getElem_set_ne e]; exact h.nodup j hj
  home := by
    intro j hj x hx
    simp only [List.length_set] at hj ⊢
    by_cases e : i = j
    · subst e; simp at hx; exact hhome x hx
    · rw [List.getElem_set_ne e] at hx; exact h.home j hj x hx
  count := by
    have := toList_length_set t i c hi
    have hc := h.count
    simp only [toList] at this hc ⊢
    omega

theorem get_def (t : HashTab) (k : Bytes) : t.get k = chainFind k (t.buckets.getD (t.hashKey k) []) := rfl

theorem mem_toList_of_get {t : HashTab} (h : WF t) {k v : Bytes} (hg : t.get k = some v) : (k, v) ∈ t.toList := by
  rw [get_def, getD_eq_getElem _ _ _ (hashKey_lt h k)] at hg
  exact List.mem_flatten.2 ⟨_, List.getElem_mem _, chainFind_some_mem _ _ _ hg⟩

theorem get_of_mem_toList {t : HashTab} (h : WF t) {k v : Bytes} (hm : (k, v) ∈ t.toList) : t.get k = some v := by
  obtain ⟨c, hc, hkv⟩ := List.mem_flatten.1 hm
  obtain ⟨j, hj, rfl⟩ := List.getElem_of_mem hc
  have hh := h.home j hj _ hkv
  rw [get_def, hashKey_eq]
  simp only at hh
  rw [hh, getD_eq_getElem _ _ _ hj]
  exact chainFind_of_mem _ _ _ (h.nodup j hj) hkv

theorem get_none_iff {t : HashTab} (h : WF t) (k : Bytes) : t.get k = none ↔ k ∉ t.toList.map Prod.fst := by
  constructor
  · intro hg hm
    obtain ⟨⟨k', v⟩, hm', e⟩ := List.mem_map.1 hm
    simp only at e; subst e
    rw [get_of_mem_toList h hm'] at hg; cases hg
  · intro hn
    cases hg : t.get k with
    | none => rfl
    | some v => exact absurd (List.mem_map_of_mem (f := Prod.fst) (mem_toList_of_get h hg)) hn

theorem keys_nodup {t : HashTab} (h : WF t) : (t.toList.map Prod.fst).Nodup := by
  rw [toList, List.map_flatten]
  unfold List.Nodup
  rw [List.pairwise_flatten]
  constructor
  · intro l hl
    obtain ⟨c, hc, rfl⟩ := List.mem_map.1 hl
    obtain ⟨j, hj, rfl⟩ := List.getElem_of_mem hc
    exact h.nodup j hj
  · rw [List.pairwise_iff_getElem]
    intro i j hi hj hij a ha b hb hab
    subst hab
    simp only [List.length_map] at hi hj
    simp only [List.getElem_map] at ha hb
    obtain ⟨⟨k1, v1⟩, h1, rfl⟩ := List.mem_map.1 ha
    obtain ⟨⟨k2, v2⟩, h2, e⟩ := List.mem_map.1 hb
    simp only at e
    have e1 := h.home i hi _ h1
    have e2 := h.home j hj _ h2
    simp only at e1 e2
    rw [e] at e2
    omega

theorem getD_set {α} (l : List α) (i j : Nat) (x d : α) (hi : i < l.length) :
    (l.set i x).getD j d = if i = j then x else l.getD j d := by
  by_cases e : i = j
  · subst e; simp [List.getD, hi]
  · simp [List.getD, e, List.getElem?_set_ne e]

theorem get_add {t : HashTab} (h : WF t) (k v k' : Bytes) :
    (t.add k v).get k' = if k' = k then some v else t.get k' := by
  have hlt := hashKey_lt h k
  unfold add
  simp only
  cases hf : chainFind k (t.buckets.getD (t.hashKey k) []) with
  | some w =>
    simp only [get_def, hashKey_eq, List.length_set]
    rw [getD_set _ _ _ _ _ (by simpa [hashKey_eq] using hlt)]
    by_cases e : hashIdx t.buckets.length k = hashIdx t.buckets.length k'
    · rw [if_pos e, chainFind_replace]
      by_cases e2 : k' = k
      · have : k ∈ (t.buckets.getD (hashIdx t.buckets.length k) []).map Prod.fst := by
          by_cases hc : k ∈ (t.buckets.getD (hashIdx t.buckets.length k) []).map Prod.fst
          · exact hc
          · rw [← hashKey_eq] at hc
            rw [(chainFind_none_iff _ _).2 hc] at hf; cases hf
        subst e2
        rw [if_pos rfl, if_pos this, if_pos rfl]
      · simp [e2, e]
    · have : k' ≠ k := by rintro rfl; exact e rfl
      simp [e, this]
  | none =>
    simp only [get_def, hashKey_eq, List.length_set]
    rw [getD_set _ _ _ _ _ (by simpa [hashKey_eq] using hlt)]
    by_cases e : hashIdx t.buckets.length k = hashIdx t.buckets.length k'
    · rw [if_pos e]
      by_cases e2 : k' = k
      · simp [chainFind, e2]
      · simp [chainFind, e2, Ne.symm e2, e]
    · have : k' ≠ k := by rintro rfl; exact e rfl
      simp [e, this]

theorem wf_add {t : HashTab} (h : WF t) (k v : Bytes) : WF (t.add k v) := by
  have hlt := hashKey_lt h k
  unfold add
  simp only
  have hg : t.buckets.getD (t.hashKey k) [] = t.buckets[t.hashKey k] := getD_eq_getElem _ _ _ hlt
  cases hf : chainFind k (t.buckets.getD (t.hashKey k) []) with
  | some w =>
    simp only
    apply wf_set h _ hlt
    · rw [chainReplace_keys, hg]; exact h.nodup _ hlt
    · intro e he
      have : e.1 ∈ (chainReplace k v (t.buckets.getD (t.hashKey k) [])).map Prod.fst := List.mem_map_of_mem (f := Prod.fst) he
      rw [chainReplace_keys, hg] at this
      obtain ⟨e', he', e1⟩ := List.mem_map.1 this
      rw [← e1]; exact h.home _ hlt e' he'
    · rw [chainReplace_length, hg]
  | none =>
    simp only
    apply wf_set h _ hlt
    · rw [List.map_cons, List.nodup_cons, hg]
      refine ⟨?_, h.nodup _ hlt⟩
      rw [← hg]; exact (chainFind_none_iff _ _).1 hf
    · intro e he
      rcases List.mem_cons.1 he with rfl | he
      · rfl
      · rw [hg] at he; exact h.home _ hlt e he
    · rw [hg]; simp; omega

theorem get_drop {t : HashTab} (h : WF t) (k k' : Bytes) :
    (t.drop k).1.get k' = if k' = k then none else t.get k' := by
  have hlt := hashKey_lt h k
  have hg : t.buckets.getD (t.hashKey k) [] = t.buckets[t.hashKey k] := getD_eq_getElem _ _ _ hlt
  unfold drop
  simp only
  cases hf : chainFind k (t.buckets.getD (t.hashKey k) []) with
  | some w =>
    simp only [get_def, hashKey_eq, List.length_set]
    rw [getD_set _ _ _ _ _ (by simpa [hashKey_eq] using hlt)]
    by_cases e : hashIdx t.buckets.length k = hashIdx t.buckets.length k'
    · rw [if_pos e, chainFind_drop _ _ _ (by rw [← hashKey_eq, hg]; exact h.nodup _ hlt)]
      by_cases e2 : k' = k
      · simp [e2]
      · simp [e2, e]
    · have : k' ≠ k := by rintro rfl; exact e rfl
      simp [e, this]
  | none =>
    simp only
    by_cases e2 : k' = k
    · subst e2; simpa [get_def] using hf
    · simp [e2]

theorem drop_rc (t : HashTab) (k : Bytes) : (t.drop k).2 = if (t.get k).isSome then 0 else -1 := by
  unfold drop
  simp only [get_def]
  split <;> simp_all

theorem wf_drop {t : HashTab} (h : WF t) (k : Bytes) : WF (t.drop k).1 := by
  have hlt := hashKey_lt h k
  have hg : t.buckets.getD (t.hashKey k) [] = t.buckets[t.hashKey k] := getD_eq_getElem _ _ _ hlt
  unfold drop
  simp only
  cases hf : chainFind k (t.buckets.getD (t.hashKey k) []) with
  | some w =>
    simp only
    have hsub := chainDrop_sublist k (t.buckets.getD (t.hashKey k) [])
    apply wf_set h _ hlt
    · exact ((hsub.map Prod.fst).nodup (by rw [hg]; exact h.nodup _ hlt))
    · intro e he
      have := hsub.subset he
      rw [hg] at this; exact h.home _ hlt e this
    · have hk : k ∈ (t.buckets.getD (t.hashKey k) []).map Prod.fst := by
        by_cases hc : k ∈ (t.buckets.getD (t.hashKey k) []).map Prod.fst
        · exact hc
        · rw [(chainFind_none_iff _ _).2 hc] at hf; cases hf
      have hl := chainDrop_length k _ hk
      have hc := h.count
      have hpos : 0 < t.toList.length := by
        have := mem_toList_of_get h (k := k) (v := w) (by rw [get_def]; exact hf)
        exact List.length_pos_of_mem this
      rw [hg] at hl ⊢
      omega
  | none => exact h

end Strophe.HashTab
