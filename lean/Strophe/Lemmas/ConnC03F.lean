/-
C03, part F: stanza dispatch (`handler_fire_stanza`), the stream-open handlers, parser events.
-/
import Strophe.Lemmas.ConnC03E

namespace Strophe.Lemmas.ConnC03
open Strophe Strophe.Conn

variable {jid : Option Bytes} {U : Item → Prop} {NR : Prop} {p : Par} {c : Conn}

/-! ### the id handlers leave `state` alone -/

theorem st_sendStanza (c : Conn) (it : Item) (o : Owner) : (sendStanza c it o).state = c.state := by
  obtain ⟨_, _, _, e⟩ := sendStanza_shape c it o; rw [e]
theorem st_addHandler (c : Conn) (fn ud ns nm ty us) : (addHandler c fn ud ns nm ty us).state = c.state := by
  obtain ⟨_, _, e, _⟩ := addHandler_shape c fn ud ns nm ty us; rw [e]
theorem st_addIdHandler (c : Conn) (fn id us) : (addIdHandler c fn id us).state = c.state := by
  obtain ⟨_, _, e, _⟩ := addIdHandler_shape c fn id us; rw [e]
theorem st_addTimed (c : Conn) (fn pd us) : (addTimed c fn pd us).state = c.state := by
  obtain ⟨_, _, e⟩ := addTimed_shape c fn pd us; rw [e]
theorem st_xmppDisconnect (c : Conn) : (xmppDisconnect c).state = c.state := by
  obtain ⟨_, _, _, _, e⟩ := xmppDisconnect_shape c; rw [e]

theorem st_sessionStart (c : Conn) : (sessionStart c).state = c.state := by
  unfold sessionStart; dsimp only; rw [st_sendStanza, st_addTimed, st_addIdHandler]
theorem st_smEnable (c : Conn) : (smEnable c).state = c.state := by
  unfold smEnable triggerSmCallback; dsimp only; rw [st_sendStanza, st_addHandler]
theorem st_negotiationSuccess (c : Conn) : (negotiationSuccess c).state = c.state := by
  unfold negotiationSuccess; dsimp only; split
  · rw [st_sendStanza]; rfl
  · rfl

theorem st_hbResult (c : Conn) (st : XTree) : (hbResult c st).state = c.state := by
  unfold hbResult; dsimp only
  obtain ⟨bj, e⟩ := hbC1_spec c st
  rw [e]
  split
  · rw [st_sessionStart]
  · split
    · rw [st_smEnable]
    · rw [st_negotiationSuccess]

theorem st_handleBind (c : Conn) (st : XTree) : (handleBind c st).state = c.state := by
  rw [handleBind_eq]; dsimp only
  split
  · split
    · rw [st_xmppDisconnect]; rfl
    · split
      · rw [st_hbResult]; rfl
      · rw [st_xmppDisconnect]; rfl
  · rw [st_xmppDisconnect]; rfl

theorem st_handleSession (c : Conn) (st : XTree) : (handleSession c st).state = c.state := by
  unfold handleSession; dsimp only
  split
  · split
    · rw [st_xmppDisconnect]; rfl
    · split
      · split
        · rw [st_smEnable]; rfl
        · rw [st_negotiationSuccess]; rfl
      · rw [st_xmppDisconnect]; rfl
  · rw [st_xmppDisconnect]; rfl

theorem st_handleLegacy (c : Conn) (st : XTree) : (handleLegacy c st).state = c.state := by
  unfold handleLegacy; dsimp only
  split
  · rw [st_xmppDisconnect]; rfl
  · split
    · rw [st_xmppDisconnect]; rfl
    · split
      · rw [st_xmppDisconnect]; rfl
      · split
        · rw [st_negotiationSuccess]; rfl
        · rw [st_xmppDisconnect]; rfl

/-! ### one visit of the handler loops -/

theorem filter_keys (l : List Handler) (u : Nat) :
    (l.filter (·.uid ≠ u)).map hkey = (l.map hkey).filter (·.1 ≠ u) := by
  rw [List.filter_map]; rfl

theorem Inv.fireH (h : Inv jid U NR p c) {u : Nat} (hx : p.x = some u) (hxs : p.xs = true) (xs' : Bool) :
    Inv jid U NR { p with x := none, xs := xs' } { c with handlers := c.handlers.filter (·.uid ≠ u) } := by
  have hh := h.h; rw [hx, hxs] at hh
  refine ⟨h.cfg, h.q, h.e, h.gg, ?_, h.f.congr rfl rfl id id, h.ts⟩
  show InvH none _ xs' _ _ _ _ _ _ _ _ _ ((c.handlers.filter (·.uid ≠ u)).map hkey) _ _ _ _
  rw [filter_keys]; exact hh.fireH u xs'

theorem Inv.fireI (h : Inv jid U NR p c) {u : Nat} (hx : p.x = some u) (hxs : p.xs = false) (xs' : Bool) :
    Inv jid U NR { p with x := none, xs := xs' } { c with idHandlers := c.idHandlers.filter (·.uid ≠ u) } := by
  have hh := h.h; rw [hx, hxs] at hh
  refine ⟨h.cfg, h.q, h.e, h.gg, ?_, h.f.congr rfl rfl id id, h.ts⟩
  show InvH none _ xs' _ _ _ _ _ _ _ _ _ _ ((c.idHandlers.filter (·.uid ≠ u)).map hkey) _ _ _
  rw [filter_keys]; exact hh.fireI u xs'

theorem Inv.notifyOther (h : Inv jid U NR p c) (e : Ev) (hne : isConnEv e = false)
    (hu : ((∃ n i, e = .userStanza n i) ∨ e = .userTimed) → c.g.notifiedConnect = true)
    (hnd : ∀ a b d, e ≠ .disconnect a b d) : Inv jid U NR p (Conn.notify c e) := by
  cases e with
  | connect => cases hne
  | rawConnect => cases hne
  | disconnect a b d => exact absurd rfl (hnd a b d)
  | userStanza n i => exact ⟨h.cfg, h.q, h.e.push_other _ rfl hu, h.gg, h.h, h.f, h.ts⟩
  | userTimed => exact ⟨h.cfg, h.q, h.e.push_other _ rfl hu, h.gg, h.h, h.f, h.ts⟩

/-- parameters during a stanza dispatch / timer run -/
structure DP (p : Par) : Prop where
  x : p.x = none
  w : p.w = false
  sb : p.sb = .connected
  rb : p.rb = true
  rpb : p.rpb = true

/-- facts available when a pending negotiation handler is about to run -/
theorem Inv.pend_ctx (h : Inv jid U NR p c) (dp : DP p) {u : Nat} {K : SysH} {usr : Bool}
    (hk : (u, HFun.sys K, usr) ∈ keys c) (hK : K ≠ .error) (hu : u < p.mb) :
    c.state = .connected ∧ c.resetParser = false ∧ c.pst ≠ .fresh ∧ c.isRaw = false := by
  have nk : negK (u, HFun.sys K, usr) := ⟨K, rfl, hK⟩
  have hne : p.x ≠ some u := by rw [dp.x]; simp
  have hlive : c.state ≠ .disconnected := by
    intro hd; exact absurd (h.h.lv hd _ hk nk hne) (Nat.not_le_of_lt hu)
  refine ⟨h.live dp.sb hlive, ?_, ?_, ?_⟩
  · cases hr : c.resetParser with
    | false => rfl
    | true => exact absurd ((h.h.fr (Or.inl hr)).1 _ hk nk) hne
  · intro hf; exact absurd ((h.h.fr (Or.inr hf)).1 _ hk nk) hne
  · cases hr : c.isRaw with
    | false => rfl
    | true => exact absurd nk ((h.h.raw hlive hr).2 _ hk)

theorem mem_keys_h {c : Conn} {hd : Handler} (hm : hd ∈ c.handlers) : hkey hd ∈ keys c :=
  List.mem_append.2 (Or.inl (List.mem_map_of_mem hm))
theorem mem_keys_i {c : Conn} {hd : Handler} (hm : hd ∈ c.idHandlers) : hkey hd ∈ keys c :=
  List.mem_append.2 (Or.inr (List.mem_map_of_mem hm))

/-- the common part of both loops: handler `hd` (found in the list named by `xs`) runs -/
theorem Inv.runHandler (h : Inv jid U NR p c) (dp : DP p) (hd : Handler) (xs : Bool)
    (hside : (xs = true → hd ∈ c.handlers) ∧ (xs = false → hd ∈ c.idHandlers))
    (hu : hd.uid < p.mb) (hgate : (hd.user && !c.negotiated) = false) (st : XTree) :
    ((Conn.runHandler c hd st).2 = false →
      Inv jid U NR { p with x := some hd.uid, xs := xs, rb := false } (Conn.runHandler c hd st).1) ∧
    ((Conn.runHandler c hd st).2 = true → Inv jid U NR p (Conn.runHandler c hd st).1) := by
  have hmem : hkey hd ∈ keys c := by
    cases xs with
    | true => exact mem_keys_h (hside.1 rfl)
    | false => exact mem_keys_i (hside.2 rfl)
  unfold Conn.runHandler
  cases hfn : hd.fn with
  | userAll =>
    dsimp only
    refine ⟨fun a => (by cases a), fun _ => ?_⟩
    have hus : hd.user = true := (h.h.userH _ hmem).1 (by simp [hkey, hfn])
    rw [hus] at hgate
    have hneg : c.negotiated = true := by simpa using hgate
    exact h.notifyOther _ rfl (fun _ => h.gg.nn1 hneg) (fun _ _ _ e => by cases e)
  | sys K =>
    dsimp only
    by_cases hK : K = .error
    · subst hK
      exact ⟨fun a => (by cases a), fun _ => ⟨h.cfg, h.q, h.e, h.gg, h.h, h.f, h.ts⟩⟩
    · have hk : (hd.uid, HFun.sys K, hd.user) ∈ keys c := by
        have := hmem; simp only [hkey, hfn] at this; exact this
      obtain ⟨hlive, hrp, hps, hraw⟩ := h.pend_ctx dp hk hK hu
      have hE : Inv jid U NR { p with rb := false, rpb := false } c :=
        h.repar _ rfl rfl rfl rfl (Or.inr rfl) rfl rfl (fun a => by rw [hraw] at a; cases a)
          (fun a => by rw [hrp] at a; cases a)
      have pcE : PC ({ p with rb := false, rpb := false } : Par) :=
        ⟨rfl, by show p.pb ≠ .fresh; rw [← h.f.ps]; exact hps, dp.sb, rfl⟩
      have hs' : (xs = true → (hd.uid, HFun.sys K, hd.user) ∈ c.handlers.map hkey) ∧
          (xs = false → (hd.uid, HFun.sys K, hd.user) ∈ c.idHandlers.map hkey) := by
        refine ⟨fun e => ?_, fun e => ?_⟩
        · have := List.mem_map_of_mem (f := hkey) (hside.1 e); simp only [hkey, hfn] at this; exact this
        · have := List.mem_map_of_mem (f := hkey) (hside.2 e); simp only [hkey, hfn] at this; exact this
      have r := hE.runSys dp.x pcE dp.w hlive hk hK xs hs' st
      refine ⟨fun a => ?_, fun a => ?_⟩
      · exact (r.1 a).repar _ rfl rfl rfl rfl (Or.inr rfl) rfl rfl (fun a' => (r.1 a).f.rw a') (fun _ => dp.rpb)
      · exact (r.2 a).repar _ rfl rfl rfl rfl (Or.inr rfl) rfl rfl (fun _ => dp.rb) (fun _ => dp.rpb)

theorem Inv.fireOne (h : Inv jid U NR p c) (dp : DP p) (st : XTree) (uid : Nat) (hu : uid < p.mb) :
    Inv jid U NR p (Conn.fireOne st c uid) := by
  unfold Conn.fireOne
  cases hf : c.handlers.find? (·.uid = uid) with
  | none => exact h
  | some hd =>
    dsimp only
    have hm := List.mem_of_find?_eq_some hf
    have hid : hd.uid = uid := by simpa using List.find?_some hf
    split
    · exact h
    · rename_i hg
      simp only [Bool.or_eq_true, not_or, Bool.not_eq_true] at hg
      split
      · have r := h.runHandler dp hd true ⟨fun _ => hm, fun a => (by cases a)⟩ (by rw [hid]; exact hu) hg.1 st
        cases hr : Conn.runHandler c hd st with
        | mk c1 keep =>
          rw [hr] at r; dsimp only at r ⊢
          cases keep with
          | true => simp only [if_true]; exact r.2 rfl
          | false =>
            simp only [Bool.false_eq_true, if_false]
            have := (r.1 rfl).fireH (u := hd.uid) rfl rfl p.xs
            rw [hid] at this
            exact this.repar _ (by rw [dp.x]) rfl rfl rfl (Or.inr rfl) rfl rfl (fun _ => dp.rb) this.f.rpB
      · exact h

theorem Inv.fireIdOne (h : Inv jid U NR p c) (dp : DP p) (st : XTree) (uid : Nat) (hu : uid < p.mb) :
    Inv jid U NR p (Conn.fireIdOne st c uid) := by
  unfold Conn.fireIdOne
  cases hf : c.idHandlers.find? (·.uid = uid) with
  | none => exact h
  | some hd =>
    dsimp only
    have hm := List.mem_of_find?_eq_some hf
    have hid : hd.uid = uid := by simpa using List.find?_some hf
    split
    · exact h
    · rename_i hg
      simp only [Bool.or_eq_true, not_or, Bool.not_eq_true] at hg
      have r := h.runHandler dp hd false ⟨fun a => (by cases a), fun _ => hm⟩ (by rw [hid]; exact hu) hg.1 st
      cases hr : Conn.runHandler c hd st with
      | mk c1 keep =>
        rw [hr] at r; dsimp only at r ⊢
        cases keep with
        | true => simp only [if_true]; exact r.2 rfl
        | false =>
          simp only [Bool.false_eq_true, if_false]
          have := (r.1 rfl).fireI (u := hd.uid) rfl rfl p.xs
          rw [hid] at this
          exact this.repar _ (by rw [dp.x]) rfl rfl rfl (Or.inr rfl) rfl rfl (fun _ => dp.rb) this.f.rpB

/-! ### `handler_fire_stanza` -/

theorem st_fireIdOne (h : Inv jid U NR p c) (st : XTree) (uid : Nat) :
    (fireIdOne st c uid).state = c.state := by
  unfold fireIdOne
  cases hf : c.idHandlers.find? (·.uid = uid) with
  | none => rfl
  | some hd =>
    dsimp only
    have hm := List.mem_of_find?_eq_some hf
    have hk := h.h.idk _ (List.mem_map_of_mem (f := hkey) hm)
    split
    · rfl
    · have : (runHandler c hd st).1.state = c.state := by
        unfold runHandler
        rcases hk with e | e | e | e <;> (simp only [hkey] at e; rw [e]; dsimp only [runSys])
        · exact st_handleBind c st
        · exact st_handleSession c st
        · exact st_handleLegacy c st
        · rfl
      cases hr : runHandler c hd st with
      | mk c1 keep =>
        rw [hr] at this; dsimp only at this ⊢
        cases keep <;> simpa using this

theorem Inv.setMb (h : Inv jid U NR p c) (hl : c.state ≠ .disconnected) (m : Nat) (hm : m ≤ c.nextUid) :
    Inv jid U NR { p with mb := m } c :=
  ⟨h.cfg, h.q, h.e, h.gg, { h.h with mbN := hm, lv := fun a => absurd a hl }, h.f.congr rfl rfl id id, h.ts⟩

theorem Inv.zeroMb (h : Inv jid U NR p c) : Inv jid U NR { p with mb := 0 } c :=
  ⟨h.cfg, h.q, h.e, h.gg, { h.h with mbN := Nat.zero_le _, lv := fun _ _ _ _ _ => Nat.zero_le _ },
   h.f.congr rfl rfl id id, h.ts⟩

theorem Inv.idFold (dp : DP p) (st : XTree) (l : List Nat) (hl : ∀ u ∈ l, u < p.mb)
    (h : Inv jid U NR p c) :
    Inv jid U NR p (l.foldl (Conn.fireIdOne st) c) ∧ (l.foldl (Conn.fireIdOne st) c).state = c.state := by
  induction l generalizing c with
  | nil => exact ⟨h, rfl⟩
  | cons u l ih =>
    rw [List.foldl_cons]
    have h1 := h.fireIdOne dp st u (hl u List.mem_cons_self)
    have := ih (fun v hv => hl v (List.mem_cons_of_mem _ hv)) h1
    exact ⟨this.1, this.2.trans (st_fireIdOne h st u)⟩

theorem Inv.regFold (dp : DP p) (st : XTree) (l : List Nat) (hl : ∀ u ∈ l, u < p.mb)
    (h : Inv jid U NR p c) : Inv jid U NR p (l.foldl (Conn.fireOne st) c) := by
  induction l generalizing c with
  | nil => exact h
  | cons u l ih =>
    rw [List.foldl_cons]
    exact ih (fun v hv => hl v (List.mem_cons_of_mem _ hv)) (h.fireOne dp st u (hl u List.mem_cons_self))

theorem map_keys_eq (l : List Handler) (f : Handler → Handler) (hf : ∀ x, hkey (f x) = hkey x) :
    (l.map f).map hkey = l.map hkey := by
  rw [List.map_map]; congr 1; funext x; exact hf x

def fsId (c : Conn) (st : XTree) : Conn :=
  match st.attr (b "id") with
  | some id =>
    let c0 : Conn := { c with idHandlers := c.idHandlers.map fun (h : Handler) => if h.id = some id then { h with enabled := true } else h }
    ((c0.idHandlers.filter (·.id = some id)).map (·.uid)).foldl (fireIdOne st) c0
  | none => c

theorem fireStanza_eq (c : Conn) (st : XTree) :
    fireStanza c st =
      (let cE : Conn := { c with handlers := c.handlers.map fun (h : Handler) => { h with enabled := true } }
       let c1 := fsId cE st
       (c1.handlers.map (·.uid)).foldl (fireOne st) c1) := rfl

theorem Inv.fsId (h : Inv jid U NR p c) (dp : DP p) (hl : c.state ≠ .disconnected) (st : XTree) :
    ∃ m, Inv jid U NR { p with mb := m } (ConnC03.fsId c st) ∧ (ConnC03.fsId c st).state = c.state := by
  have dpm : ∀ m, DP ({ p with mb := m } : Par) := fun _ => ⟨dp.x, dp.w, dp.sb, dp.rb, dp.rpb⟩
  unfold ConnC03.fsId
  cases st.attr (b "id") with
  | none => exact ⟨p.mb, h, rfl⟩
  | some id =>
    dsimp only
    have hk : (c.idHandlers.map fun (h : Handler) => if h.id = some id then { h with enabled := true } else h).map hkey
        = c.idHandlers.map hkey := map_keys_eq _ _ (fun x => by split <;> rfl)
    have h0 : Inv jid U NR p { c with idHandlers := c.idHandlers.map fun (h : Handler) => if h.id = some id then { h with enabled := true } else h } := by
      refine ⟨h.cfg, h.q, h.e, h.gg, ?_, h.f, h.ts⟩
      show InvH _ _ _ _ _ _ _ _ _ _ _ _ _ ((c.idHandlers.map _).map hkey) _ _ _
      rw [hk]; exact h.h
    have h0' := h0.setMb hl c.nextUid (Nat.le_refl _)
    refine ⟨c.nextUid, Inv.idFold (dpm _) st _ ?_ h0'⟩
    intro u hu
    obtain ⟨hd, hm, rfl⟩ := List.mem_map.1 hu
    have hm' := (List.mem_filter.1 hm).1
    exact h0.h.uidH _ (List.mem_append.2 (Or.inr (List.mem_map_of_mem (f := hkey) hm')))

theorem Inv.fireStanza (h : Inv jid U NR p c) (dp : DP p) (hl : c.state ≠ .disconnected) (st : XTree) :
    Inv jid U NR { p with mb := 0 } (Conn.fireStanza c st) := by
  have dpm : ∀ m, DP ({ p with mb := m } : Par) := fun _ => ⟨dp.x, dp.w, dp.sb, dp.rb, dp.rpb⟩
  rw [fireStanza_eq]; dsimp only
  have hk : (c.handlers.map fun (h : Handler) => ({ h with enabled := true } : Handler)).map hkey
      = c.handlers.map hkey := map_keys_eq _ _ (fun x => rfl)
  have hE : Inv jid U NR p { c with handlers := c.handlers.map fun (h : Handler) => { h with enabled := true } } := by
    refine ⟨h.cfg, h.q, h.e, h.gg, ?_, h.f, h.ts⟩
    show InvH _ _ _ _ _ _ _ _ _ _ _ _ ((c.handlers.map _).map hkey) _ _ _ _
    rw [hk]; exact h.h
  obtain ⟨m, h1, hs1⟩ := hE.fsId dp hl st
  generalize ConnC03.fsId { c with handlers := c.handlers.map fun (h : Handler) => { h with enabled := true } } st = c1 at h1 hs1
  have h2' := h1.setMb (by rw [hs1]; exact hl) c1.nextUid (Nat.le_refl _)
  have h3 := Inv.regFold (dpm _) st (c1.handlers.map (·.uid)) ?_ h2'
  · exact h3.zeroMb
  · intro u hu
    obtain ⟨hd, hm, rfl⟩ := List.mem_map.1 hu
    exact h1.h.uidH _ (List.mem_append.2 (Or.inl (List.mem_map_of_mem (f := hkey) hm)))

/-! ### stream management bookkeeping of inbound stanzas -/

theorem Inv.smHandleStanza (h : Inv jid U NR p c) (st : XTree) : Inv jid U NR p (Conn.smHandleStanza c st) := by
  have hel : Inv jid U NR p (Conn.smHandleStanza.smElement c st) := by
    unfold Conn.smHandleStanza.smElement triggerSmCallback
    split
    · exact h
    · split
      · exact h.sendStanzaLib _ _ (by simp) (fun _ _ _ => trivial) (fun _ hh => by obtain ⟨_, _, _, e⟩ := hh; cases e)
      · split
        · split
          · exact h
          · dsimp only
            exact ⟨h.cfg, { h.q with smq_ok := fun e a => h.q.smq_ok e ((List.dropWhile_sublist _).subset a) },
              h.e, h.gg, h.h, h.f, h.ts⟩
        · exact h
  unfold Conn.smHandleStanza triggerSmCallback
  split
  · split
    · exact ⟨h.cfg, h.q, h.e, h.gg, h.h, h.f, h.ts⟩
    · exact hel
  · exact hel

theorem Inv.handleStreamStanza (h : Inv jid U NR p c) (dp : DP p) (st : XTree) :
    Inv jid U NR { p with mb := 0 } (Conn.handleStreamStanza c st) := by
  unfold Conn.handleStreamStanza
  split
  · exact h.zeroMb
  · rename_i hl
    have h1 := h.fireStanza dp hl st
    have h2 : Inv jid U NR { p with mb := 0 }
        { Conn.fireStanza c st with rxLog := (Conn.fireStanza c st).rxLog ++ rxMarks c st ++
            [.stanza (countsInbound (Conn.fireStanza c st) st)] } :=
      ⟨h1.cfg, h1.q, h1.e, h1.gg, h1.h, h1.f, h1.ts⟩
    dsimp only; split
    · exact h2.smHandleStanza st
    · exact h2

end Strophe.Lemmas.ConnC03
