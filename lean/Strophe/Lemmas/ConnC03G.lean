/-
C03, part G: the stream-open handlers, stream start / end, parser events, timed handlers.
-/
import Strophe.Lemmas.ConnC03F

namespace Strophe.Lemmas.ConnC03
open Strophe Strophe.Conn

variable {jid : Option Bytes} {U : Item → Prop} {NR : Prop} {p : Par} {c : Conn}

theorem addHandler_mem (c : Conn) (fn : HFun) (ud : Nat) (ns name type : Option Bytes) (usr : Bool) :
    ∃ k ∈ (addHandler c fn ud ns name type usr).handlers.map hkey, k.2.1 = fn := by
  unfold addHandler
  split
  · rename_i ha
    obtain ⟨hd, hm, hp⟩ := List.any_eq_true.1 ha
    simp only [decide_eq_true_eq] at hp
    exact ⟨hkey hd, List.mem_map_of_mem hm, hp.1⟩
  · exact ⟨(c.nextUid, fn, usr), by simp [hkey], rfl⟩

/-- install `<features/>`-type handler `K` together with its timer `T` at stream open -/
theorem Inv.openFeat (h : Inv jid U NR p c) (hc : HC p c) (hx : p.x = none) (K : SysH)
    (hph : Phase c.g c.secured c.sm.enabled c.sm.resume c.state K) (T : TFun) (hT : T ≠ .userTimed)
    (hmf : T = .missingFeatures → K = .features ∧ c.g.authOk = false) :
    Inv jid U NR p (Conn.addTimed (Conn.addHandler c (.sys K) 0 (some Gen.nsStreams) (some (b "features")) none false)
      T Gen.featuresTimeout false) := by
  have h1 := h.addHandler (.sys K) 0 (some Gen.nsStreams) (some (b "features")) none false (by simp)
    (fun s hs _ => by cases hs; exact hc.canAdd hph)
  refine h1.addTimed T _ false (by simp [hT]) ?_
  intro e
  obtain ⟨k, hk, hk2⟩ := addHandler_mem c (.sys K) 0 (some Gen.nsStreams) (some (b "features")) none false
  obtain ⟨l, n, e1, _⟩ := addHandler_shape c (.sys K) 0 (some Gen.nsStreams) (some (b "features")) none false
  rw [e1] at hk ⊢
  refine ⟨(hmf e).2, k, List.mem_append.2 (Or.inl hk), ?_, by rw [hx]; simp⟩
  rw [hk2, (hmf e).1]

theorem Inv.addErrorHandler (h : Inv jid U NR p c) :
    Inv jid U NR p (Conn.addHandler c (.sys .error) 0 (some Gen.nsStreams) (some (b "error")) none false) :=
  h.addHandler _ _ _ _ _ _ (by simp) (fun s hs hs' => by cases hs; exact absurd rfl hs')

theorem HC.frame {c' : Conn} (hc : HC p c) (e1 : c'.handlers = c.handlers) (e2 : c'.idHandlers = c.idHandlers)
    (e3 : c'.g = c.g) : HC p c' :=
  ⟨by unfold PendNil; rw [e1, e2]; exact hc.nil, by rw [e3]; exact hc.nn, hc.rpb, hc.pb, hc.sb, hc.rb⟩

theorem Inv.componentOpen (h : Inv jid U NR p c) (hc : HC p c) (hnil : ∀ k ∈ keys c, ¬ negK k) :
    Inv jid U NR p (Conn.componentOpen c) := by
  unfold Conn.componentOpen; dsimp only
  have h2 := h.resetTimed.addErrorHandler
  obtain ⟨l, n, e1, hl⟩ := addHandler_shape (Conn.resetTimed c) (.sys .error) 0 (some Gen.nsStreams) (some (b "error")) none false
  rw [e1] at h2 ⊢
  have hnil2 : PendNil p.x { Conn.resetTimed c with handlers := l, nextUid := n } := by
    intro k a nk
    have a' : k ∈ l.map hkey ++ c.idHandlers.map hkey := a
    have : k ∈ keys c ∨ k = ((Conn.resetTimed c).nextUid, HFun.sys .error, false) := by
      rcases hl with hl | hl <;> rw [hl] at a'
      · exact Or.inl a'
      · simp only [List.mem_append, List.mem_singleton] at a'
        rcases a' with (a' | a') | a'
        · exact Or.inl (List.mem_append.2 (Or.inl a'))
        · exact Or.inr a'
        · exact Or.inl (List.mem_append.2 (Or.inr a'))
    rcases this with b' | b'
    · exact absurd nk (hnil k b')
    · rw [b'] at nk; obtain ⟨s, hs, hs'⟩ := nk; cases hs; exact absurd rfl hs'
  have hc2 : HC p { Conn.resetTimed c with handlers := l, nextUid := n } :=
    ⟨hnil2, hc.nn, hc.rpb, hc.pb, hc.sb, hc.rb⟩
  split
  · exact h2.xmppDisconnect
  · have h3 := h2.sendRawString .handshake (fun _ => trivial) (fun _ hh => by obtain ⟨_, _, _, e⟩ := hh; cases e)
    obtain ⟨q, n', r, e3⟩ := sendRawString_shape { Conn.resetTimed c with handlers := l, nextUid := n } .handshake
    rw [e3] at h3 ⊢
    have hc3 : HC p { Conn.resetTimed c with handlers := l, nextUid := n', queue := q, sm := { c.sm with rSent := r } } :=
      ⟨hnil2, hc.nn, hc.rpb, hc.pb, hc.sb, hc.rb⟩
    refine Inv.addTimed ?_ _ _ _ (by simp) (by simp)
    exact h3.addHandler _ _ _ _ _ _ (by simp) (fun s hs _ => by cases hs; exact hc3.canAdd trivial)

theorem Inv.runOpenHandler (h : Inv jid U NR p c) (dp : DP p) (hlive : c.state ≠ .disconnected)
    (hnil : ∀ k ∈ keys c, ¬ negK k)
    (hnn : c.openHandler ≠ .stub → c.g.notifiedConnect = false ∧ c.sm.enabled = false)
    (hrp : c.resetParser = false) (hps : c.pst ≠ .fresh) :
    Inv jid U NR p (Conn.runOpenHandler c) := by
  by_cases hst : c.openHandler = .stub
  · unfold Conn.runOpenHandler; rw [hst]; exact h
  have hraw : c.isRaw = false := by
    cases hr : c.isRaw with
    | false => rfl
    | true => exact absurd (h.h.raw hlive hr).1 hst
  have hE : Inv jid U NR { p with rb := false, rpb := false } c :=
    h.repar _ rfl rfl rfl rfl (Or.inr rfl) rfl rfl (fun a => by rw [hraw] at a; cases a)
      (fun a => by rw [hrp] at a; cases a)
  have back : ∀ {c'}, Inv jid U NR { p with rb := false, rpb := false } c' → Inv jid U NR p c' :=
    fun h' => h'.repar p rfl rfl rfl rfl (Or.inr rfl) rfl rfl (fun _ => dp.rb) (fun _ => dp.rpb)
  have hc : HC ({ p with rb := false, rpb := false } : Par) c :=
    ⟨fun k a nk => absurd nk (hnil k a), (hnn hst).1, rfl, by show p.pb ≠ .fresh; rw [← h.f.ps]; exact hps, dp.sb, rfl⟩
  have hx : ({ p with rb := false, rpb := false } : Par).x = none := dp.x
  apply back
  unfold Conn.runOpenHandler
  cases ho : c.openHandler with
  | stub => exact absurd ho hst
  | open_ =>
    dsimp only
    have h2 := hE.resetTimed.addErrorHandler
    obtain ⟨l, n, e1, hl⟩ := addHandler_shape (Conn.resetTimed c) (.sys .error) 0 (some Gen.nsStreams) (some (b "error")) none false
    rw [e1] at h2 ⊢
    have hnil2 : PendNil p.x { Conn.resetTimed c with handlers := l, nextUid := n } := by
      intro k a nk
      have a' : k ∈ l.map hkey ++ c.idHandlers.map hkey := a
      have : k ∈ keys c ∨ k = ((Conn.resetTimed c).nextUid, HFun.sys .error, false) := by
        rcases hl with hl | hl <;> rw [hl] at a'
        · exact Or.inl a'
        · simp only [List.mem_append, List.mem_singleton] at a'
          rcases a' with (a' | a') | a'
          · exact Or.inl (List.mem_append.2 (Or.inl a'))
          · exact Or.inr a'
          · exact Or.inl (List.mem_append.2 (Or.inr a'))
      rcases this with b' | b'
      · exact absurd nk (hnil k b')
      · rw [b'] at nk; obtain ⟨s, hs, hs'⟩ := nk; cases hs; exact absurd rfl hs'
    have ha : c.g.authOk = false := h.h.ohOk.1 (Or.inl ho)
    exact h2.openFeat ⟨hnil2, hc.nn, hc.rpb, hc.pb, hc.sb, hc.rb⟩ hx .features ha .missingFeatures (by simp)
      (fun _ => ⟨rfl, ha⟩)
  | openTls =>
    dsimp only
    have ha : c.g.authOk = false := h.h.ohOk.1 (Or.inr ho)
    exact hE.openFeat hc hx .features ha .missingFeatures (by simp) (fun _ => ⟨rfl, ha⟩)
  | openSasl =>
    dsimp only
    have ha : c.g.authOk = true := h.h.ohOk.2 (Or.inl ho)
    exact hE.openFeat hc hx .featuresSasl ⟨ha, (hnn hst).2⟩ .missingFeaturesSasl (by simp) (fun e => by cases e)
  | openCompress =>
    dsimp only
    have ha : c.g.authOk = true := h.h.ohOk.2 (Or.inr ho)
    exact hE.openFeat hc hx .featuresCompress ⟨ha, (hnn hst).2⟩ .missingFeaturesSasl (by simp) (fun e => by cases e)
  | componentOpen => exact hE.componentOpen hc hnil

/-! ### stream start / end, parser events -/

theorem Inv.setPst (h : Inv jid U NR p c) (v : PSt) (hv : v ≠ .fresh) :
    Inv jid U NR { p with pb := v } { c with pst := v } := by
  refine ⟨h.cfg, h.q, h.e, h.gg, ?_, ?_, h.ts⟩
  · refine { h.h with fr := ?_ }
    intro hf; rcases hf with hf | hf
    · exact h.h.fr (Or.inl hf)
    · exact absurd hf hv
  · exact ⟨h.f.st, rfl, h.f.rw, h.f.rpB, (fun a => absurd a hv), h.f.rd⟩

theorem Inv.hd0 (_h : Inv jid U NR p c) (hmb : p.mb = 0) :
    ∀ k ∈ c.handlers.map hkey ++ c.idHandlers.map hkey, negK k → p.x ≠ some k.1 → p.mb ≤ k.1 :=
  fun _ _ _ _ => by rw [hmb]; exact Nat.zero_le _

theorem Inv.handleStreamStart (h : Inv jid U NR p c) (dp : DP p) (hmb : p.mb = 0)
    (hnil : ∀ k ∈ keys c, ¬ negK k)
    (hnn : c.openHandler ≠ .stub → c.g.notifiedConnect = false ∧ c.sm.enabled = false)
    (hrp : c.state = .connected → c.resetParser = false) (hps : c.pst ≠ .fresh)
    (name : Bytes) (id : Option Bytes) : Inv jid U NR p (Conn.handleStreamStart c name id) := by
  unfold Conn.handleStreamStart
  split
  · exact h
  · rename_i hl
    dsimp only
    split
    · refine Inv.runOpenHandler ?_ dp hl hnil hnn (hrp (h.live dp.sb hl)) hps
      exact ⟨h.cfg, h.q, h.e, h.gg, h.h, h.f, h.ts⟩
    · refine Inv.connDisconnect ?_ (h.hd0 hmb)
      exact ⟨h.cfg, h.q, h.e, h.gg, h.h, h.f, h.ts⟩

theorem Inv.handleStreamEnd (h : Inv jid U NR p c) (hmb : p.mb = 0) :
    Inv jid U NR p (Conn.handleStreamEnd c) := by
  unfold Conn.handleStreamEnd triggerSmCallback
  split
  · exact h
  · dsimp only
    refine Inv.connDisconnect (Inv.delTimed ?_ _) (h.hd0 hmb)
    exact ⟨h.cfg, h.q, h.e, h.gg, h.h, h.f, h.ts⟩

theorem DP.setPb {p : Par} (dp : DP p) (v : PSt) : DP { p with pb := v } :=
  ⟨dp.x, dp.w, dp.sb, dp.rb, dp.rpb⟩

theorem Inv.parserEvent (h : Inv jid U NR p c) (dp : DP p) (hmb : p.mb = 0) (e : PEv) :
    ∃ pb, Inv jid U NR { p with pb := pb } (Conn.parserEvent c e) := by
  have same : ∀ n, Inv jid U NR { p with pb := p.pb } { c with protoViol := n } :=
    fun _ => ⟨h.cfg, h.q, h.e, h.gg, h.h, h.f, h.ts⟩
  cases e with
  | open_ n id =>
    unfold Conn.parserEvent; dsimp only
    split
    · exact ⟨p.pb, same _⟩
    · rename_i hf
      have hf : c.pst = .fresh := by
        cases hp : c.pst <;> simp_all
      have hfr := h.h.fr (Or.inr hf)
      have hx : ∀ k : HK, p.x ≠ some k.1 := fun k => by rw [dp.x]; simp
      refine ⟨.opened, ?_⟩
      refine Inv.handleStreamStart (h.setPst .opened (by simp)) (dp.setPb _) hmb
        (fun k a nk => absurd (hfr.1 k a nk) (hx k)) hfr.2 (fun hs => h.f.rp hf hs) (by simp) n id
  | stanza t =>
    unfold Conn.parserEvent; dsimp only
    split
    · exact ⟨p.pb, same _⟩
    · refine ⟨p.pb, ?_⟩
      have := h.handleStreamStanza dp t
      exact this.repar _ rfl rfl rfl hmb (Or.inr rfl) rfl rfl this.f.rw this.f.rpB
  | end_ =>
    unfold Conn.parserEvent; dsimp only
    split
    · exact ⟨p.pb, same _⟩
    · exact ⟨.closed, Inv.handleStreamEnd (h.setPst .closed (by simp)) hmb⟩
  | error =>
    refine ⟨.closed, ?_⟩
    unfold Conn.parserEvent
    exact (h.setPst .closed (by simp)).sendStanzaLib _ _ (by simp) (fun _ _ _ => trivial)
      (fun _ hh => by obtain ⟨_, _, _, e⟩ := hh; cases e)

theorem Inv.eventsFold (l : List PEv) (dp : DP p) (hmb : p.mb = 0) (h : Inv jid U NR p c) :
    ∃ pb, Inv jid U NR { p with pb := pb } (l.foldl Conn.parserEvent c) := by
  induction l generalizing p c with
  | nil => exact ⟨p.pb, h⟩
  | cons e l ih =>
    rw [List.foldl_cons]
    obtain ⟨pb, h1⟩ := h.parserEvent dp hmb e
    obtain ⟨pb', h2⟩ := ih (dp.setPb pb) hmb h1
    exact ⟨pb', h2⟩

/-! ### timed handlers -/

theorem Inv.enterT (h : Inv jid U NR p c) (hy : p.y = none) (v : Nat) (hv : v < c.nextUid) :
    Inv jid U NR { p with y := some v } c := by
  have hh := h.h; rw [hy] at hh
  exact ⟨h.cfg, h.q, h.e, h.gg, hh.enterT v hv, h.f.congr rfl rfl id id, h.ts⟩

theorem filterT_keys (l : List Timed) (u : Nat) :
    (l.filter (·.uid ≠ u)).map tkey = (l.map tkey).filter (·.1 ≠ u) := by
  rw [List.filter_map]; rfl

theorem Inv.fireT (h : Inv jid U NR p c) {v : Nat} (hy : p.y = some v) :
    Inv jid U NR { p with y := none } { c with timed := c.timed.filter (·.uid ≠ v) } := by
  have hh := h.h; rw [hy] at hh
  refine ⟨h.cfg, h.q, h.e, h.gg, ?_, h.f.congr rfl rfl id id, h.ts⟩
  show InvH _ none _ _ _ _ _ _ _ _ _ _ _ _ ((c.timed.filter (·.uid ≠ v)).map tkey) _ _
  rw [filterT_keys]; exact hh.fireT v

theorem mapT_keys (l : List Timed) (f : Timed → Timed) (hf : ∀ x, tkey (f x) = tkey x) :
    (l.map f).map tkey = l.map tkey := by
  rw [List.map_map]; congr 1; funext x; exact hf x

/-- the `missingFeatures` timer: delete the `<features/>` handler, then `_auth` -/
theorem Inv.missingFeatures (h : Inv jid U NR p c) (dp : DP p) (hy : p.y = none)
    {t : Timed} (ht : t ∈ c.timed) (hfn : t.fn = .missingFeatures) :
    Inv jid U NR { p with y := some t.uid }
      (Conn.authTop { c with handlers := c.handlers.filter (fun h => h.fn ≠ .sys .features) }) := by
  have hxn : ∀ k : HK, p.x ≠ some k.1 := fun k => by rw [dp.x]; simp
  have htk : tkey t ∈ c.timed.map tkey := List.mem_map_of_mem ht
  obtain ⟨ha, k', hk', hk'f, _⟩ := h.h.t1 _ htk (by simp [tkey, hfn]) (by rw [hy]; simp)
  have nk' : negK k' := ⟨_, hk'f, by simp⟩
  obtain ⟨hnn, _⟩ := h.h.phase k' hk' _ hk'f (by simp) (hxn k')
  have hrp : c.resetParser = false := by
    cases hr : c.resetParser with
    | false => rfl
    | true => exact absurd ((h.h.fr (Or.inl hr)).1 _ hk' nk') (hxn k')
  have hps : c.pst ≠ .fresh := fun hf => absurd ((h.h.fr (Or.inr hf)).1 _ hk' nk') (hxn k')
  have hraw : c.isRaw = false := by
    cases hr : c.isRaw with
    | false => rfl
    | true =>
      by_cases hd : c.state = .disconnected
      · rw [h.f.rd hd] at hr; cases hr
      · exact absurd nk' ((h.h.raw hd hr).2 _ hk')
  have h1 := h.enterT hy t.uid (h.h.uidT _ htk)
  have hE : Inv jid U NR { p with y := some t.uid, rb := false, rpb := false } c :=
    h1.repar _ rfl rfl rfl rfl (Or.inr rfl) rfl rfl (fun a => by rw [hraw] at a; cases a)
      (fun a => by rw [hrp] at a; cases a)
  -- remove the features handler
  have hsub : ((c.handlers.filter (fun h => h.fn ≠ .sys .features)).map hkey).Sublist (c.handlers.map hkey) :=
    List.filter_sublist.map _
  have h2 : Inv jid U NR { p with y := some t.uid, rb := false, rpb := false }
      { c with handlers := c.handlers.filter (fun h => h.fn ≠ .sys .features) } := by
    refine ⟨hE.cfg, hE.q, hE.e, hE.gg, hE.h.subH hsub ?_, hE.f, hE.ts⟩
    intro k a b'
    have := h.h.tfn k a _ htk (by rw [b']; simp [tkey, hfn])
    rw [this]; rfl
  have hnil : PendNil p.x { c with handlers := c.handlers.filter (fun h => h.fn ≠ .sys .features) } := by
    intro k a nk
    exfalso
    have a' : k ∈ (c.handlers.filter (fun h => h.fn ≠ .sys .features)).map hkey ++ c.idHandlers.map hkey := a
    rcases List.mem_append.1 a' with b' | b'
    · obtain ⟨hd, hm, rfl⟩ := List.mem_map.1 b'
      have hm' := List.mem_filter.1 hm
      have := h.h.one _ (List.mem_append.2 (Or.inl (List.mem_map_of_mem (f := hkey) hm'.1))) k' hk' nk nk' (hxn _) (hxn _)
      have hf : hd.fn = .sys .features := by
        have := congrArg (fun k : HK => k.2.1) this; simp only [hkey] at this; rw [this]; exact hk'f
      have := hm'.2; simp [hf] at this
    · have := h.h.one _ (List.mem_append.2 (Or.inr b')) k' hk' nk nk' (hxn _) (hxn _)
      have hk3 := h.h.idk k b'
      rw [this, hk'f] at hk3
      rcases hk3 with e | e | e | e <;> cases e
  refine (h2.authTop ⟨hnil, hnn, rfl, by show p.pb ≠ .fresh; rw [← h.f.ps]; exact hps, dp.sb, rfl⟩ ha).repar _
    rfl rfl rfl rfl (Or.inr rfl) rfl rfl (fun _ => dp.rb) (fun _ => dp.rpb)

theorem Inv.fireTimedOne (h : Inv jid U NR p c) (dp : DP p) (hmb : p.mb = 0) (hy : p.y = none) (uid : Nat) :
    Inv jid U NR p (Conn.fireTimedOne c uid) := by
  unfold Conn.fireTimedOne
  cases hf : c.timed.find? (·.uid = uid) with
  | none => exact h
  | some t =>
    dsimp only
    have hm := List.mem_of_find?_eq_some hf
    have hid : t.uid = uid := by simpa using List.find?_some hf
    split
    · exact h
    · rename_i hg
      simp only [Bool.or_eq_true, not_or, Bool.not_eq_true] at hg
      split
      · -- the handler is due
        have hk : (c.timed.map fun (x : Timed) => if x.uid = uid then { x with lastStamp := c.now } else x).map tkey
            = c.timed.map tkey := mapT_keys _ _ (fun x => by split <;> rfl)
        have h0 : Inv jid U NR p { c with timed := c.timed.map fun (x : Timed) => if x.uid = uid then { x with lastStamp := c.now } else x } := by
          refine ⟨h.cfg, h.q, h.e, h.gg, ?_, h.f, h.ts⟩
          show InvH _ _ _ _ _ _ _ _ _ _ _ _ _ _ ((c.timed.map _).map tkey) _ _
          rw [hk]; exact h.h
        have hm0 : ({ t with lastStamp := c.now } : Timed) ∈
            c.timed.map fun (x : Timed) => if x.uid = uid then { x with lastStamp := c.now } else x := by
          refine List.mem_map.2 ⟨t, hm, ?_⟩; rw [if_pos hid]
        have hyT : ∀ {c'}, Inv jid U NR { p with y := some uid } c' →
            Inv jid U NR p { c' with timed := c'.timed.filter (·.uid ≠ uid) } := by
          intro c' h'
          exact (h'.fireT rfl).repar p rfl (by rw [hy]) rfl rfl (Or.inr rfl) rfl rfl (fun _ => dp.rb) (fun _ => dp.rpb)
        have hv : uid < c.nextUid := by
          rw [← hid]; exact h.h.uidT _ (List.mem_map_of_mem (f := tkey) hm)
        have hE := h0.enterT hy uid hv
        unfold Conn.runTimed
        cases hfn : t.fn with
        | missingFeatures =>
          dsimp only
          have := h0.missingFeatures dp hy hm0 hfn
          rw [show ({ t with lastStamp := c.now } : Timed).uid = uid from hid] at this
          exact hyT this
        | missingFeaturesSasl => exact hyT hE.xmppDisconnect
        | missingBind => exact hyT hE.xmppDisconnect
        | missingSession => exact hyT hE.xmppDisconnect
        | missingLegacy => exact hyT hE.xmppDisconnect
        | missingHandshake => exact hyT hE.xmppDisconnect
        | disconnectCleanup => exact hyT (hE.connDisconnect (hE.hd0 hmb))
        | userTimed =>
          dsimp only
          have hus : t.user = true := (h.h.userT _ (List.mem_map_of_mem (f := tkey) hm)).1 (by simp [tkey, hfn])
          have hg1 := hg.1; rw [hus] at hg1
          have hneg : c.negotiated = true := by simpa using hg1
          exact h0.notifyOther _ rfl (fun _ => h.gg.nn1 hneg) (fun _ _ _ e => by cases e)
      · exact h

theorem Inv.timedFold (dp : DP p) (hmb : p.mb = 0) (hy : p.y = none) (l : List Nat)
    (h : Inv jid U NR p c) : Inv jid U NR p (l.foldl Conn.fireTimedOne c) := by
  induction l generalizing c with
  | nil => exact h
  | cons u l ih => rw [List.foldl_cons]; exact ih (h.fireTimedOne dp hmb hy u)

theorem Inv.fireTimed (h : Inv jid U NR p c) (dp : DP p) (hmb : p.mb = 0) (hy : p.y = none) :
    Inv jid U NR p (Conn.fireTimed c) := by
  unfold Conn.fireTimed
  split
  · exact h
  · dsimp only
    refine Inv.timedFold dp hmb hy _ ?_
    have hk : (c.timed.map fun (t : Timed) => ({ t with enabled := true } : Timed)).map tkey = c.timed.map tkey :=
      mapT_keys _ _ (fun x => rfl)
    refine ⟨h.cfg, h.q, h.e, h.gg, ?_, h.f, h.ts⟩
    show InvH _ _ _ _ _ _ _ _ _ _ _ _ _ _ ((c.timed.map _).map tkey) _ _
    rw [hk]; exact h.h

end Strophe.Lemmas.ConnC03
