/-
xmpp_stanza_add_child_ex keeps the ownership invariant: a detached, held stanza `c` put below a live stanza
`p` that is not inside `c`'s own subtree.
-/
import Strophe.Lemmas.StoreInv

namespace Strophe.Store
open Strophe Strophe.Stanza

theorem size_le_fuel (m : Mem) : m.size ≤ m.fuel := by
  unfold Mem.fuel
  exact Nat.le_trans (Nat.le_succ _) (Nat.le_mul_of_pos_right _ (by omega))

theorem walkLast_spec : ∀ (l : List Nat) (f : Nat) (m : Mem) (a : Nat), Chain m (some a) l → l.length ≤ f →
    walkLast f m a = .ok l.getLast!
  | [], _, _, _, h, _ => by simp [Chain] at h
  | [b], f, m, a, h, hf => by
    simp only [Chain] at h
    obtain ⟨h1, h2, h3⟩ := h
    cases h1
    cases f with
    | zero => simp at hf
    | succ f =>
      simp only [walkLast]
      rw [Mem.deref_of_live h2]
      simp [bind, Except.bind, h3, pure, Except.pure, List.getLast!, List.getLast]
  | b :: b2 :: l, f, m, a, h, hf => by
    simp only [Chain] at h
    obtain ⟨h1, h2, h3, h4⟩ := h
    cases h1
    cases f with
    | zero => simp at hf
    | succ f =>
      simp only [walkLast]
      rw [Mem.deref_of_live h2]
      simp only [bind, Except.bind, h3]
      have := walkLast_spec (b2 :: l) f m b2 (show Chain m (some b2) (b2 :: l) from ⟨rfl, h4⟩)
        (by simp at hf ⊢; omega)
      rw [this]
      simp [List.getLast!, List.getLast]

/-- new ranks after `c` went below `p`: `p` and its ancestors are lifted above `c` -/
noncomputable def liftRank (G : Ghost) (p c : Nat) : Nat → Nat :=
  open Classical in fun x => if Desc G x p then G.rank x + G.rank c + 1 else G.rank x

/-- the ghost after `c` was appended to the children of `p` -/
noncomputable def attachG (G : Ghost) (p c : Nat) : Ghost :=
  ⟨fun q => if q = p then G.kids p ++ [c] else G.kids q, liftRank G p c⟩

theorem attachG_kids (G : Ghost) (p c q : Nat) :
    (attachG G p c).kids q = if q = p then G.kids p ++ [c] else G.kids q := rfl

theorem mem_attachG {G : Ghost} {p c q x : Nat} :
    x ∈ (attachG G p c).kids q ↔ x ∈ G.kids q ∨ (q = p ∧ x = c) := by
  rw [attachG_kids]
  by_cases hq : q = p
  · subst hq; simp
  · simp [hq]

theorem hasPar_attachG {G : Ghost} {p c x : Nat} : HasPar (attachG G p c) x ↔ HasPar G x ∨ x = c := by
  constructor
  · rintro ⟨q, hq⟩
    rcases mem_attachG.mp hq with h | ⟨_, h⟩
    · exact Or.inl ⟨q, h⟩
    · exact Or.inr h
  · rintro (⟨q, hq⟩ | h)
    · exact ⟨q, mem_attachG.mpr (Or.inl hq)⟩
    · exact ⟨p, mem_attachG.mpr (Or.inr ⟨rfl, h⟩)⟩

/-- the invariant after the heap was changed the way an attachment changes it -/
theorem attach_core {m m' : Mem} {G : Ghost} {hold : Nat → Nat} {p c : Nat} (h : Inv m G hold)
    (hp : (m.get p).live = true) (hc : 0 < hold c) (hroot : ¬ HasPar G c) (hcyc : ¬ Desc G c p)
    (hother : ∀ x, x ≠ c → (m'.get x).live = (m.get x).live ∧ (m'.get x).ref = (m.get x).ref ∧
      (m'.get x).parent = (m.get x).parent)
    (hc' : (m'.get c).live = true ∧ (m'.get c).ref = (m.get c).ref ∧ (m'.get c).parent = some p ∧
      (m'.get c).next = none ∧ (m'.get c).children = (m.get c).children)
    (hchain : Chain m' (m'.get p).children (G.kids p ++ [c]))
    (hnext : ∀ q, q ≠ p → ∀ a ∈ G.kids q, (m'.get a).next = (m.get a).next)
    (hchild : ∀ x, x ≠ p → (m'.get x).children = (m.get x).children)
    (hrootnext : ∀ x, x ≠ c → ¬ HasPar G x → (m'.get x).next = (m.get x).next) :
    Inv m' (attachG G p c) (unbump hold c) := by
  have hlc : (m.get c).live = true := (h.held c (by simpa using hc)).1
  have hcp : c ≠ p := by intro e; subst e; exact hcyc Desc.refl
  have hck : ∀ q, c ∉ G.kids q := fun q hq => hroot ⟨q, hq⟩
  have hlive : ∀ x, (m'.get x).live = (m.get x).live := by
    intro x
    by_cases hx : x = c
    · subst hx; rw [hc'.1, hlc]
    · exact (hother x hx).1
  constructor
  · -- chain
    intro q hlq _
    rw [hlive] at hlq
    by_cases hq : q = p
    · subst hq; rw [attachG_kids]; simpa using hchain
    · rw [attachG_kids]; simp only [hq, if_false]
      rw [hchild q hq]
      apply Chain.congr (h.chain q hlq (by simp))
      intro a ha
      exact ⟨hlive a, hnext q hq a ha⟩
  · intro q hq
    have hq : (m'.get q).live = false := by simpa using hq
    rw [hlive] at hq
    have := h.nokids q (Or.inl hq)
    rw [attachG_kids]
    by_cases hqp : q = p
    · subst hqp; rw [hp] at hq; cases hq
    · simp [hqp, this]
  · intro q x hx
    rcases mem_attachG.mp hx with hx1 | ⟨hq, hx1⟩
    · have := h.kid q x hx1
      have hxc : x ≠ c := fun e => hck q (e ▸ hx1)
      rw [hlive, (hother x hxc).2.2]
      exact ⟨this.1, by simp, this.2.2⟩
    · rw [hq, hx1]
      exact ⟨hc'.1, by simp, hc'.2.2.1⟩
  · intro q
    rw [attachG_kids]
    by_cases hq : q = p
    · subst hq
      simp only [if_true]
      rw [List.nodup_append]
      refine ⟨h.nodup q, by simp, ?_⟩
      intro a ha b hb
      simp at hb; subst hb
      intro e; subst e; exact hck q ha
    · simp [hq, h.nodup q]
  · intro q1 q2 x h1 h2
    rcases mem_attachG.mp h1 with h1 | ⟨hq1, hx1⟩ <;> rcases mem_attachG.mp h2 with h2 | ⟨hq2, hx2⟩
    · exact h.uniq q1 q2 x h1 h2
    · rw [hx2] at h1; exact absurd h1 (hck q1)
    · rw [hx1] at h2; exact absurd h2 (hck q2)
    · rw [hq1, hq2]
  · -- rank
    intro q x hx
    show liftRank G p c x < liftRank G p c q
    unfold liftRank
    rcases mem_attachG.mp hx with hx | ⟨hq, hxc⟩
    · have hr := h.rank q x hx
      by_cases hd : Desc G x p
      · have hdq : Desc G q p := Desc.cons hx hd
        simp [hd, hdq]; omega
      · by_cases hdq : Desc G q p
        · simp [hd, hdq]; omega
        · simp [hd, hdq]; exact hr
    · subst hq; subst hxc
      have : Desc G q q := Desc.refl
      simp [hcyc, this]; omega
  · -- ref
    intro x hlx _
    rw [hlive] at hlx
    have hr := h.ref x hlx (by simp)
    by_cases hx : x = c
    · subst hx
      rw [hc'.2.1]
      have h1 : hpN (attachG G p x) x = 1 := hpN_of (hasPar_attachG.mpr (Or.inr rfl))
      have h2 : hpN G x = 0 := hpN_not hroot
      simp only [unbump, if_true]
      rw [h1]; rw [h2] at hr
      omega
    · rw [(hother x hx).2.1]
      have h1 : hpN (attachG G p c) x = hpN G x := by
        by_cases hh : HasPar G x
        · rw [hpN_of hh, hpN_of (hasPar_attachG.mpr (Or.inl hh))]
        · rw [hpN_not hh, hpN_not (fun h' => (hasPar_attachG.mp h').elim hh hx)]
      simp only [unbump, hx, if_false]
      rw [h1]; exact hr
  · -- root
    intro x hlx _ hnp _
    rw [hlive] at hlx
    have hnp' : ¬ HasPar G x ∧ x ≠ c := by
      constructor
      · intro hh; exact hnp (hasPar_attachG.mpr (Or.inl hh))
      · intro hh; exact hnp (hasPar_attachG.mpr (Or.inr hh))
    have := h.root x hlx (by simp) hnp'.1 rfl
    rw [hrootnext x hnp'.2 hnp'.1, (hother x hnp'.2).2.2]
    exact this
  · intro x hx
    have hx : 0 < unbump hold c x := by simpa using hx
    rw [hlive]
    have : 0 < hold x := by
      simp only [unbump] at hx
      split at hx <;> omega
    exact h.held x (by simpa using this)
  · intro x hx; simp at hx


theorem getLast!_mem {l : List Nat} (h : l ≠ []) : l.getLast! ∈ l := by
  cases l with
  | nil => exact absurd rfl h
  | cons a l => simp only [List.getLast!]; exact List.getLast_mem _

/-- `xmpp_stanza_add_child_ex(p, c, 0)`: the caller's reference to `c` goes to `p` -/
theorem attach_inv {m : Mem} {G : Ghost} {hold : Nat → Nat} {p c : Nat} (h : Inv m G hold)
    (hp : (m.get p).live = true) (hc : 0 < hold c) (hroot : ¬ HasPar G c) (hcyc : ¬ Desc G c p) :
    ∃ m', addChildEx m p c false = .ok (m', Gen.Stanza.eOk) ∧
      Inv m' (attachG G p c) (unbump hold c) ∧ m'.size = m.size := by
  have hlc : (m.get c).live = true := (h.held c (by simpa using hc)).1
  have hcs : c < m.size := Mem.live_lt hlc
  have hps : p < m.size := Mem.live_lt hp
  have hcp : c ≠ p := by intro e; subst e; exact hcyc Desc.refl
  have hck : ∀ q, c ∉ G.kids q := fun q hq => hroot ⟨q, hq⟩
  have hcroot := h.root c hlc (by simp) hroot rfl
  have hchp := h.chain p hp (by simp)
  -- after `child->parent = stanza`
  have e1 : m.deref c = .ok (m.get c) := Mem.deref_of_live hlc
  have hg2 : ∀ x, (m.put c { m.get c with parent := some p }).get x =
      if x = c then { m.get c with parent := some p } else m.get x := by
    intro x; rw [Mem.get_put]; by_cases hx : x = c <;> simp [hx, hcs]
  have hg2p : (m.put c { m.get c with parent := some p }).get p = m.get p := by rw [hg2]; simp [Ne.symm hcp]
  have e2 : (m.put c { m.get c with parent := some p }).deref p = .ok (m.get p) := by
    rw [Mem.deref_ok, hg2p]; exact ⟨hp, rfl⟩
  cases hch : (m.get p).children with
  | none =>
    have hk0 : G.kids p = [] := by rw [hch] at hchp; exact hchp.of_none
    refine ⟨(m.put c { m.get c with parent := some p }).put p { m.get p with children := some c }, ?_, ?_, by simp⟩
    · simp [addChildEx, e1, e2, hch, bind, Except.bind, pure, Except.pure]
    · have hg : ∀ x, ((m.put c { m.get c with parent := some p }).put p { m.get p with children := some c }).get x =
          if x = p then { m.get p with children := some c }
          else if x = c then { m.get c with parent := some p } else m.get x := by
        intro x
        rw [Mem.get_put, hg2]
        by_cases hx : x = p <;> simp [hx, hps]
      apply attach_core h hp hc hroot hcyc
      · intro x hx; rw [hg]; by_cases hxp : x = p <;> simp [hxp, hx]
      · rw [hg]; simp [hcp, hcroot.1, hlc]
      · rw [hk0, hg]; simp
        show Chain _ (some c) [c]
        refine ⟨rfl, ?_, ?_⟩
        · rw [hg]; simp [hcp, hlc]
        · rw [hg]; simp [hcp, hcroot.1]; rfl
      · intro q _ a ha
        have hac : a ≠ c := fun e => hck q (e ▸ ha)
        rw [hg]; by_cases hap : a = p <;> simp [hap, hac]
      · intro x hx; rw [hg]; simp [hx]; by_cases hxc : x = c <;> simp [hxc]
      · intro x hx _; rw [hg]; by_cases hxp : x = p <;> simp [hxp, hx]
  | some first =>
    rw [hch] at hchp
    obtain ⟨l', hl'⟩ := hchp.head
    have hne : G.kids p ≠ [] := by rw [hl']; simp
    have hlastmem := getLast!_mem hne
    obtain ⟨last, hlast⟩ : ∃ last, (G.kids p).getLast! = last := ⟨_, rfl⟩
    rw [hlast] at hlastmem
    have hlast_ne_c : last ≠ c := fun e => hck p (e ▸ hlastmem)
    have hlast_live : (m.get last).live = true := h.kid_live hlastmem
    have hlast_s := Mem.live_lt hlast_live
    -- the chain of `p` is still there after the first store
    have hch2 : Chain (m.put c { m.get c with parent := some p }) (some first) (G.kids p) := by
      apply Chain.congr hchp
      intro a ha
      have hac : a ≠ c := fun e => hck p (e ▸ ha)
      rw [hg2]; simp [hac]
    have e3 : walkLast (m.put c { m.get c with parent := some p }).fuel (m.put c { m.get c with parent := some p }) first
        = .ok last := by
      rw [← hlast]
      apply walkLast_spec _ _ _ _ hch2
      refine Nat.le_trans (h.kids_length_le p) ?_
      have := size_le_fuel (m.put c { m.get c with parent := some p })
      rwa [Mem.size_put] at this
    have hg2l : (m.put c { m.get c with parent := some p }).get last = m.get last := by
      rw [hg2]; simp [hlast_ne_c]
    have e4 : (m.put c { m.get c with parent := some p }).deref last = .ok (m.get last) := by
      rw [Mem.deref_ok, hg2l]; exact ⟨hlast_live, rfl⟩
    have hg3 : ∀ x, ((m.put c { m.get c with parent := some p }).put last
          { m.get last with next := some c }).get x =
        if x = last then { m.get last with next := some c }
        else if x = c then { m.get c with parent := some p } else m.get x := by
      intro x
      rw [Mem.get_put, hg2]
      by_cases hx : x = last <;> simp [hx, hlast_s]
    have e5 : ((m.put c { m.get c with parent := some p }).put last
          { m.get last with next := some c }).deref c = .ok { m.get c with parent := some p } := by
      rw [Mem.deref_ok, hg3]; simp [Ne.symm hlast_ne_c, hlc]
    refine ⟨((m.put c { m.get c with parent := some p }).put last
          { m.get last with next := some c }).put c
          { m.get c with parent := some p, prev := some last }, ?_, ?_, by simp⟩
    · simp [addChildEx, e1, e2, hch, e3, e4, e5, bind, Except.bind, pure, Except.pure]
    · have hg : ∀ x, (((m.put c { m.get c with parent := some p }).put last
            { m.get last with next := some c }).put c
            { m.get c with parent := some p, prev := some last }).get x =
          if x = c then { m.get c with parent := some p, prev := some last }
          else if x = last then { m.get last with next := some c } else m.get x := by
        intro x
        rw [Mem.get_put, hg3]
        by_cases hx : x = c
        · simp [hx, hcs]
        · simp [hx]
      apply attach_core h hp hc hroot hcyc
      · intro x hx; rw [hg]; by_cases hxl : x = last <;> simp [hxl, hx, hlast_ne_c]
      · rw [hg]; simp [hcroot.1, hlc]
      · have hpc : (if p = c then ({ m.get c with parent := some p, prev := some last } : Node)
            else if p = last then { m.get last with next := some c } else m.get p).children
            = some first := by
          have hpl : p ≠ last := fun e => h.not_self_kid p (e ▸ hlastmem)
          simp [Ne.symm hcp, hpl, hch]
        rw [hg, hpc]
        apply Chain.snoc hchp hne (hck p) (h.nodup p)
        · intro a ha
          have hac : a ≠ c := fun e => hck p (e ▸ ha)
          rw [hg]; by_cases hal : a = last <;> simp [hal, hac, hlast_ne_c]
        · intro a ha hal
          rw [hlast] at hal
          have hac : a ≠ c := fun e => hck p (e ▸ ha)
          rw [hg]; simp [hal, hac]
        · rw [hlast, hg]; simp [hlast_ne_c]
        · rw [hg]; simp [hlc]
        · rw [hg]; simp [hcroot.1]
      · intro q hq a ha
        have hac : a ≠ c := fun e => hck q (e ▸ ha)
        have hal : a ≠ last := by
          intro e
          exact hq (h.uniq q p a ha (e ▸ hlastmem))
        rw [hg]; simp [hac, hal]
      · intro x _; rw [hg]
        by_cases hxc : x = c
        · simp [hxc]
        · by_cases hxl : x = last <;> simp [hxc, hxl, hlast_ne_c]
      · intro x hx hnp
        have hxl : x ≠ last := fun e => hnp ⟨p, e ▸ hlastmem⟩
        rw [hg]; simp [hx, hxl]

theorem unbump_bump (hold : Nat → Nat) (c : Nat) : unbump (bump hold c) c = hold := by
  funext x
  simp only [unbump, bump]
  split <;> simp

/-- `xmpp_stanza_add_child_ex(p, c, do_clone)` -/
theorem addChildEx_inv {m : Mem} {G : Ghost} {hold : Nat → Nat} {p c : Nat} (dc : Bool) (h : Inv m G hold)
    (hp : (m.get p).live = true) (hc : 0 < hold c) (hroot : ¬ HasPar G c) (hcyc : ¬ Desc G c p) :
    ∃ m', addChildEx m p c dc = .ok (m', Gen.Stanza.eOk) ∧
      Inv m' (attachG G p c) (if dc then hold else unbump hold c) ∧ m'.size = m.size := by
  cases dc with
  | false => simpa using attach_inv h hp hc hroot hcyc
  | true =>
    have hlc : (m.get c).live = true := (h.held c (by simpa using hc)).1
    have hcp : c ≠ p := by intro e; subst e; exact hcyc Desc.refl
    have h1 : Inv (m.put c { m.get c with ref := (m.get c).ref + 1 }) G (bump hold c) :=
      InvP.bump_ref h hlc (by simp)
    have hp1 : ((m.put c { m.get c with ref := (m.get c).ref + 1 }).get p).live = true := by
      rw [Mem.get_put_ne _ (Ne.symm hcp)]; exact hp
    obtain ⟨m', he, hi, hs⟩ := attach_inv h1 hp1 (by simp [bump]) hroot hcyc
    refine ⟨m', ?_, ?_, by simpa using hs⟩
    · have e0 : clone m c = .ok (m.put c { m.get c with ref := (m.get c).ref + 1 }) := by
        simp [clone, Mem.deref_of_live hlc, bind, Except.bind, pure, Except.pure]
      have : addChildEx m p c true = (do let m1 ← clone m c; addChildEx m1 p c false) := by
        simp [addChildEx]
      rw [this, e0]
      exact he
    · rw [unbump_bump] at hi
      simpa using hi

end Strophe.Store
