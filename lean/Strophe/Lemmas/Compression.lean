/-
Helper lemmas for C20 (Props/C20.lean): the staging layer of compression.c under ANY answer
schedule of the lower transport (write side) and under any fragmentation (read side).

Method: a disconnect or a fuel exhaustion is never undone (`FlagsLe`); the invariants `Core` /
`RunInv` (write: everything deflate produced is either forwarded or still staged, in order;
everything deflate consumed is a prefix of the submitted stream and the send queue remembers
exactly how far it got) and `RInv` (read) are preserved by every function.
-/
import Strophe.Spec.Zlib
namespace Strophe.Lemmas.Compression
open Strophe Strophe.Compression Strophe.Spec.Zlib

variable {C : Codec}

/-- `t` is at least as bad as `s`: a disconnect / divergence is never undone -/
def FlagsLe (s t : St C) : Prop :=
  (t.connected = true → s.connected = true) ∧ (s.diverged = true → t.diverged = true)

theorem FlagsLe.refl (s : St C) : FlagsLe s s := ⟨id, id⟩
theorem FlagsLe.trans {s t u : St C} (a : FlagsLe s t) (b : FlagsLe t u) : FlagsLe s u :=
  ⟨fun h => a.1 (b.1 h), fun h => b.2 (a.2 h)⟩

def Good (s : St C) : Prop := s.connected = true ∧ s.diverged = false

theorem Good.of_le {s t : St C} (h : FlagsLe s t) (g : Good t) : Good s := by
  refine ⟨h.1 g.1, ?_⟩
  cases hd : s.diverged with
  | false => rfl
  | true => have := h.2 hd; rw [g.2] at this; cases this

theorem nodiv_of_le {s t : St C} (h : FlagsLe s t) (g : t.diverged = false) : s.diverged = false := by
  cases hd : s.diverged with
  | false => rfl
  | true => have := h.2 hd; rw [g] at this; cases this

theorem lowerWrite_flags (s : St C) (b : Bytes) :
    (lowerWrite s b).1.connected = s.connected ∧ (lowerWrite s b).1.diverged = s.diverged := by
  unfold lowerWrite
  simp only
  split <;> (split <;> exact ⟨rfl, rfl⟩)

theorem tryWrite_flags (s : St C) (f : Bool) :
    (tryWrite s f).1.connected = s.connected ∧ (tryWrite s f).1.diverged = s.diverged := by
  unfold tryWrite
  simp only
  split
  · split
    · exact lowerWrite_flags s s.out
    · exact lowerWrite_flags s s.out
  · exact ⟨rfl, rfl⟩

def _root_.Strophe.Compression.LoopOut.st : LoopOut C → St C
  | .ret s _ => s
  | .done s _ => s
  | .fuel s => s

/-- the value `_compression_write` continues with / returns -/
def _root_.Strophe.Compression.LoopOut.val : LoopOut C → Option Int
  | .ret _ r => some r
  | .done _ r => some r
  | .fuel _ => none

def _root_.Strophe.Compression.LoopOut.isRet : LoopOut C → Bool
  | .ret _ _ => true
  | _ => false

def _root_.Strophe.Compression.LoopOut.isDone : LoopOut C → Bool
  | .done _ _ => true
  | _ => false

theorem disconnect_le (s : St C) : FlagsLe s (disconnect s) := by
  refine ⟨?_, ?_⟩ <;> simp [disconnect]

theorem tryWrite_le (s : St C) (f : Bool) : FlagsLe s (tryWrite s f).1 := by
  have ht := tryWrite_flags s f
  exact ⟨fun h => by rw [← ht.1]; exact h, fun h => by rw [ht.2]; exact h⟩

theorem cwLoop_le : ∀ (fuel : Nat) (s : St C) (inp : Bytes) (k : Nat) (fl : Int),
    FlagsLe s (cwLoop fuel s inp k fl).st := by
  intro fuel
  induction fuel with
  | zero => intro s inp k fl; simp [cwLoop, LoopOut.st, FlagsLe.refl]
  | succ fuel ih =>
    intro s inp k fl
    have hle := tryWrite_le s false
    unfold cwLoop
    simp only
    split
    · exact hle
    · split
      · exact hle.trans ⟨by simp [LoopOut.st], by simp [LoopOut.st]⟩
      · split
        · exact hle.trans ⟨by simp [LoopOut.st], by simp [LoopOut.st]⟩
        · split
          · exact hle.trans ⟨by simp [LoopOut.st, disconnect], by simp [LoopOut.st, disconnect]⟩
          · split
            · exact hle.trans ⟨by simp [LoopOut.st], by simp [LoopOut.st]⟩
            · refine hle.trans (FlagsLe.trans ?_ (ih _ _ _ _))
              exact ⟨by simp, by simp⟩

theorem compressionWrite_le (fuel : Nat) (s : St C) (inp : Bytes) (fl : Int) :
    FlagsLe s (compressionWrite fuel s inp fl).1 := by
  have h := cwLoop_le fuel s inp 0 fl
  unfold compressionWrite
  split
  · exact FlagsLe.refl s
  · split
    · rename_i s' r heq; rw [heq] at h; exact h
    · rename_i s' heq; rw [heq] at h
      exact h.trans ⟨by simp [LoopOut.st], by simp [LoopOut.st]⟩
    · rename_i s' r heq; rw [heq] at h
      split
      · exact h.trans (tryWrite_le _ _)
      · exact h

theorem compressionFlush_le (fuel : Nat) (s : St C) : FlagsLe s (compressionFlush fuel s).1 :=
  compressionWrite_le _ _ _ _

theorem upperWrite_le (fuel : Nat) (s : St C) (inp : Bytes) : FlagsLe s (upperWrite fuel s inp).1 := by
  have h := compressionWrite_le fuel s inp Gen.Zl.compressionWriteMode
  unfold upperWrite
  simp only
  split
  · exact h.trans ⟨by simp, by simp⟩
  · exact h

theorem sendLoop_le (fuel : Nat) : ∀ (q : List (Bytes × Nat)) (s : St C), FlagsLe s (sendLoop fuel s q).1 := by
  intro q
  induction q with
  | nil => intro s; simp [sendLoop, FlagsLe.refl]
  | cons e rest ih =>
    intro s
    obtain ⟨d, w⟩ := e
    unfold sendLoop
    simp only
    split
    · exact upperWrite_le _ _ _
    · exact (upperWrite_le _ _ _).trans (ih _)

theorem runOnceSend_le (fuel : Nat) (s : St C) : FlagsLe s (runOnceSend fuel s) := by
  unfold runOnceSend
  split
  · exact FlagsLe.refl s
  · simp only
    have h1 := sendLoop_le fuel s.queue s
    have h2 : FlagsLe s { (sendLoop fuel s s.queue).1 with queue := (sendLoop fuel s s.queue).2 } :=
      h1.trans ⟨by simp, by simp⟩
    have h3 := h2.trans (compressionFlush_le fuel _)
    split
    · exact h3.trans ⟨by simp [disconnect], by simp [disconnect]⟩
    · exact h3

theorem runOp_le (fuel : Nat) (s : St C) (op : Op) : FlagsLe s (runOp fuel s op) := by
  cases op with
  | send b =>
    simp only [runOp, sendRaw]
    split
    · exact ⟨by simp, by simp⟩
    · exact FlagsLe.refl s
  | iter sc =>
    simp only [runOp]
    exact FlagsLe.trans (t := { s with sched := sc }) ⟨by simp, by simp⟩ (runOnceSend_le _ _)

theorem run_le (fuel : Nat) : ∀ (ops : List Op) (s : St C), FlagsLe s (run fuel s ops) := by
  intro ops
  induction ops with
  | nil => intro s; exact FlagsLe.refl s
  | cons op rest ih => intro s; exact (runOp_le fuel s op).trans (ih _)

/-! ### what every staging function preserves, whatever the lower transport answers -/

theorem bufSize_pos : 0 < bufSize := by decide

/-- everything deflate produced is forwarded or still staged, in order -/
structure Core (H : HDeflate C) (s : St C) : Prop where
  okz : H.ok s.z
  stream : s.net ++ s.out = H.prod s.z
  outLe : s.out.length ≤ bufSize

/-- the schedule contains no hard error -/
def NoErr (s : St C) : Prop := Accept.err ∉ s.sched

theorem recoverable_eagain : recoverable Gen.Zl.eAgain = true := by decide

theorem lowerWrite_gen (s : St C) (b : Bytes) :
    (lowerWrite s b).1.z = s.z ∧ (lowerWrite s b).1.out = s.out ∧
    (lowerWrite s b).1.net = s.net ++ b.take (lowerWrite s b).2.toNat ∧
    (lowerWrite s b).1.queue = s.queue ∧
    (NoErr s → (lowerWrite s b).1.error = s.error ∧ NoErr (lowerWrite s b).1 ∧
      ((lowerWrite s b).2 < 0 → recoverable (lowerWrite s b).1.lerr = true)) := by
  unfold lowerWrite NoErr
  simp only
  cases hs : s.sched with
  | nil =>
    have hneg : ¬ ((b.length : Int) < 0) := by omega
    simp [popSched, Accept.ret, hneg]
  | cons a rest =>
    cases a with
    | all =>
      have hneg : ¬ ((b.length : Int) < 0) := by omega
      simp [popSched, Accept.ret, hneg]
    | upTo k =>
      have hneg : ¬ (((min k b.length : Nat) : Int) < 0) := by omega
      simp [popSched, Accept.ret, hneg]
    | again =>
      simp [popSched, Accept.ret, recoverable_eagain]
    | err =>
      have hr : recoverable Gen.Zl.eConnReset = false := by decide
      simp [popSched, Accept.ret, hr]

theorem tryWrite_gen (H : HDeflate C) (s : St C) (f : Bool) (hc : Core H s) :
    Core H (tryWrite s f).1 ∧ (tryWrite s f).1.z = s.z ∧ (tryWrite s f).1.queue = s.queue ∧
    (tryWrite s f).1.connected = s.connected ∧ (tryWrite s f).1.diverged = s.diverged ∧
    (NoErr s → (tryWrite s f).1.error = s.error ∧ NoErr (tryWrite s f).1 ∧
      ((tryWrite s f).2 < 0 → recoverable (tryWrite s f).1.lerr = true)) := by
  obtain ⟨hz, ho, hn, hq, hne⟩ := lowerWrite_gen s s.out
  have hfl := lowerWrite_flags s s.out
  unfold tryWrite
  simp only
  split
  · split
    · rename_i hneg
      refine ⟨⟨by rw [hz]; exact hc.okz, ?_, by rw [ho]; exact hc.outLe⟩, hz, hq, hfl.1, hfl.2, hne⟩
      rw [hz, hn, ho, ← hc.stream]
      have : (lowerWrite s s.out).2.toNat = 0 := by omega
      rw [this]; simp
    · refine ⟨⟨by rw [hz]; exact hc.okz, ?_, ?_⟩, hz, hq, hfl.1, hfl.2, ?_⟩
      · show (lowerWrite s s.out).1.net ++ (lowerWrite s s.out).1.out.drop _ = H.prod (lowerWrite s s.out).1.z
        rw [hz, hn, ho, ← hc.stream, List.append_assoc, List.take_append_drop]
      · show ((lowerWrite s s.out).1.out.drop _).length ≤ bufSize
        rw [ho, List.length_drop]
        have := hc.outLe
        omega
      · intro h
        obtain ⟨e1, e2, e3⟩ := hne h
        exact ⟨e1, e2, e3⟩
  · exact ⟨hc, rfl, rfl, rfl, rfl, fun h => ⟨rfl, h, fun h0 => by simp at h0⟩⟩

/-- the state after one deflate call keeps the core invariant -/
theorem core_after_deflate (H : HDeflate C) (t : St C) (inp : Bytes) (fl : Int) (hc : Core H t) :
    Core H { t with z := (C.deflate t.z inp fl (bufSize - t.out.length)).1,
                    out := t.out ++ (C.deflate t.z inp fl (bufSize - t.out.length)).2.2.1 } := by
  refine ⟨H.step_ok _ _ _ _ hc.okz, ?_, ?_⟩
  · show t.net ++ (t.out ++ _) = _
    rw [H.step_prod _ _ _ _ hc.okz, ← hc.stream, List.append_assoc]
  · show (t.out ++ _).length ≤ bufSize
    have h1 := H.produced_le t.z inp fl (bufSize - t.out.length) hc.okz
    have h2 := hc.outLe
    simp only [List.length_append]
    omega

/-- what one run of the do/while of `_compression_write` guarantees, however it is left -/
structure LoopPost (H : HDeflate C) (s : St C) (inp : Bytes) (k : Nat) (fl : Int) (o : LoopOut C) :
    Prop where
  core : Core H o.st
  queue : o.st.queue = s.queue
  conn : o.st.connected = s.connected
  div : o.st.diverged = s.diverged
  /-- deflate has consumed exactly the first `m` bytes of the input -/
  cons : ∃ m, m ≤ inp.length ∧ H.cons o.st.z = H.cons s.z ++ inp.take m ∧
    (fl = 0 → ∀ r, o.val = some r → r.toNat = k + m ∧ r ≤ ((k + inp.length : Nat) : Int)) ∧
    (fl = 0 → o.isDone = true → m = inp.length)
  err : NoErr s → o.st.error = s.error ∧ NoErr o.st ∧
    (∀ r, o.isRet = true → o.val = some r → r < 0 → recoverable o.st.lerr = true)

theorem zOk_ne_streamEnd : Gen.Zl.zOk ≠ Gen.Zl.zStreamEnd := by decide
theorem zBufError_ne_streamEnd : Gen.Zl.zBufError ≠ Gen.Zl.zStreamEnd := by decide
theorem zBufError_ne_ok : Gen.Zl.zBufError ≠ Gen.Zl.zOk := by decide

theorem cwLoop_gen (H : HDeflate C) : ∀ (fuel : Nat) (s : St C) (inp : Bytes) (k : Nat) (fl : Int),
    Core H s → (fl = 0 → inp ≠ []) → LoopPost H s inp k fl (cwLoop fuel s inp k fl) := by
  intro fuel
  induction fuel with
  | zero =>
    intro s inp k fl hc _
    simp only [cwLoop]
    exact ⟨hc, rfl, rfl, rfl, ⟨0, by omega, by simp [LoopOut.st], by simp [LoopOut.val], by simp [LoopOut.isDone]⟩,
      fun h => ⟨rfl, h, by simp [LoopOut.isRet]⟩⟩
  | succ fuel ih =>
    intro s inp k fl hc hne
    obtain ⟨htc, htz, htq, htconn, htdiv, hterr⟩ := tryWrite_gen H s false hc
    unfold cwLoop
    simp only
    split
    · -- the lower layer would block
      refine ⟨htc, htq, htconn, htdiv, ⟨0, by omega, by simp [LoopOut.st, htz], ?_, by simp [LoopOut.isDone]⟩, ?_⟩
      · intro _ r hr
        simp only [LoopOut.val, Option.some.injEq] at hr
        subst hr
        split
        · exact ⟨by simp, by omega⟩
        · rename_i hcond
          have h1 : k = 0 := by omega
          have h2 : (tryWrite s false).2 < 0 := by omega
          subst h1
          exact ⟨by omega, by omega⟩
      · intro hn
        obtain ⟨e1, e2, e3⟩ := hterr hn
        refine ⟨e1, e2, ?_⟩
        intro r _ hr hneg
        simp only [LoopOut.val, Option.some.injEq] at hr
        subst hr
        split at hneg
        · omega
        · exact e3 hneg
    · rename_i hnb
      have hroom : 0 < bufSize - (tryWrite s false).1.out.length := by omega
      have hok := htc.okz
      have hcd := core_after_deflate H (tryWrite s false).1 inp fl htc
      have hcl := H.consumed_le (tryWrite s false).1.z inp fl (bufSize - (tryWrite s false).1.out.length) hok
      have hsc := H.step_cons (tryWrite s false).1.z inp fl (bufSize - (tryWrite s false).1.out.length) hok
      have hnoerr := H.no_error (tryWrite s false).1.z inp fl (bufSize - (tryWrite s false).1.out.length) hok
      have hprog := H.progress (tryWrite s false).1.z inp fl (bufSize - (tryWrite s false).1.out.length) hok
      have hconsm : H.cons (C.deflate (tryWrite s false).1.z inp fl (bufSize - (tryWrite s false).1.out.length)).1 =
          H.cons s.z ++ inp.take (C.deflate (tryWrite s false).1.z inp fl (bufSize - (tryWrite s false).1.out.length)).2.1 := by
        rw [hsc, htz]
      have herr1 : NoErr s → (tryWrite s false).1.error = s.error ∧ NoErr (tryWrite s false).1 :=
        fun h => ⟨(hterr h).1, (hterr h).2.1⟩
      split
      · rename_i h
        cases hnoerr with
        | inl h1 => rw [h1] at h; exact absurd h zOk_ne_streamEnd
        | inr h1 => rw [h1] at h; exact absurd h zBufError_ne_streamEnd
      · split
        · rename_i hbe
          refine ⟨hcd, htq, htconn, htdiv, ⟨_, hcl, hconsm, ?_, ?_⟩, ?_⟩
          · intro h0; exact absurd h0 hbe.1
          · intro h0; exact absurd h0 hbe.1
          · intro hn
            exact ⟨(herr1 hn).1, (herr1 hn).2, by simp [LoopOut.isRet]⟩
        · split
          · rename_i hnbe hnok
            -- rc = Z_BUF_ERROR with Z_NO_FLUSH: excluded by `progress`
            exfalso
            cases hnoerr with
            | inl h1 => exact hnok h1
            | inr h1 =>
              have hfl0 : fl = 0 := by
                by_cases h0 : fl = 0
                · exact h0
                · exact absurd ⟨h0, h1⟩ hnbe
              exact hprog (hne hfl0) hroom h1
          · split
            · rename_i hexit
              refine ⟨hcd, htq, htconn, htdiv, ⟨_, hcl, hconsm, ?_, ?_⟩, ?_⟩
              · intro _ r hr
                simp only [LoopOut.val, Option.some.injEq] at hr
                subst hr
                exact ⟨by omega, by omega⟩
              · intro _ _
                have : inp.length ≤ (C.deflate (tryWrite s false).1.z inp fl (bufSize - (tryWrite s false).1.out.length)).2.1 := by
                  simpa [List.isEmpty_iff, List.drop_eq_nil_iff] using hexit.1
                omega
              · intro hn
                exact ⟨(herr1 hn).1, (herr1 hn).2, by simp [LoopOut.isRet]⟩
            · rename_i hnexit
              have hne' : fl = 0 → inp.drop (C.deflate (tryWrite s false).1.z inp fl (bufSize - (tryWrite s false).1.out.length)).2.1 ≠ [] := by
                intro h0 hemp
                apply hnexit
                exact ⟨by simp [hemp], fun h => h.1 h0⟩
              have hp := ih _ (inp.drop (C.deflate (tryWrite s false).1.z inp fl (bufSize - (tryWrite s false).1.out.length)).2.1)
                (k + (C.deflate (tryWrite s false).1.z inp fl (bufSize - (tryWrite s false).1.out.length)).2.1) fl hcd hne'
              obtain ⟨m, hm, hcm, hval, hdone⟩ := hp.cons
              refine ⟨hp.core, hp.queue.trans htq, hp.conn.trans htconn, hp.div.trans htdiv,
                ⟨(C.deflate (tryWrite s false).1.z inp fl (bufSize - (tryWrite s false).1.out.length)).2.1 + m, ?_, ?_, ?_, ?_⟩, ?_⟩
              · rw [List.length_drop] at hm; omega
              · rw [hcm]
                show H.cons (C.deflate _ _ _ _).1 ++ _ = _
                rw [hconsm, List.append_assoc, ← List.take_add]
              · intro h0 r hr
                obtain ⟨a, b⟩ := hval h0 r hr
                rw [List.length_drop] at b
                exact ⟨by omega, by omega⟩
              · intro h0 hd
                have := hdone h0 hd
                rw [List.length_drop] at this
                omega
              · intro hn
                obtain ⟨e1, e2, e3⟩ := hp.err (herr1 hn).2
                exact ⟨e1.trans (herr1 hn).1, e2, e3⟩

theorem writeMode_zero : Gen.Zl.compressionWriteMode = 0 := by decide
theorem flushMode_ne_zero (b : Bool) :
    (if b then Gen.Zl.compressionFlushModeDontReset else Gen.Zl.compressionFlushModeReset) ≠ 0 := by
  cases b <;> decide

/-- compression_write under any schedule: unless fuel ran out, the return value says exactly how
    much of the element deflate has consumed, and nothing staged was lost -/
theorem compressionWrite_gen (H : HDeflate C) (fuel : Nat) (s : St C) (inp : Bytes) (hc : Core H s)
    (hd : (compressionWrite fuel s inp 0).1.diverged = false) :
    Core H (compressionWrite fuel s inp 0).1 ∧ (compressionWrite fuel s inp 0).1.queue = s.queue ∧
    (compressionWrite fuel s inp 0).1.connected = s.connected ∧
    H.cons (compressionWrite fuel s inp 0).1.z =
      H.cons s.z ++ inp.take (compressionWrite fuel s inp 0).2.toNat ∧
    (compressionWrite fuel s inp 0).2 ≤ (inp.length : Int) ∧
    ((compressionWrite fuel s inp 0).2 = (inp.length : Int) →
      H.cons (compressionWrite fuel s inp 0).1.z = H.cons s.z ++ inp) ∧
    (NoErr s → (compressionWrite fuel s inp 0).1.error = s.error ∧
      NoErr (compressionWrite fuel s inp 0).1 ∧
      ((compressionWrite fuel s inp 0).2 < 0 → recoverable (compressionWrite fuel s inp 0).1.lerr = true)) := by
  revert hd
  unfold compressionWrite
  split
  · rename_i hemp
    intro _
    have : inp = [] := List.isEmpty_iff.mp hemp.1
    subst this
    exact ⟨hc, rfl, rfl, by simp, by simp, fun _ => by simp, fun h => ⟨rfl, h, fun h0 => by simp at h0⟩⟩
  · rename_i hnemp
    have hne : (0 : Int) = 0 → inp ≠ [] := by
      intro _ h
      apply hnemp
      exact ⟨by simp [h], rfl⟩
    have hp := cwLoop_gen H fuel s inp 0 0 hc hne
    obtain ⟨m, hm, hcm, hval, hdone⟩ := hp.cons
    split
    · rename_i s' r heq
      rw [heq] at hp hcm hval hdone
      intro _
      obtain ⟨a, b⟩ := hval rfl r rfl
      simp only [LoopOut.st] at hp hcm
      have hmr : m = r.toNat := by omega
      refine ⟨hp.core, hp.queue, hp.conn, by rw [← hmr]; exact hcm, by simpa using b, ?_, ?_⟩
      · intro hr
        have : m = inp.length := by omega
        rw [hcm, this, List.take_length]
      · intro hn
        obtain ⟨e1, e2, e3⟩ := hp.err hn
        exact ⟨e1, e2, fun h0 => e3 r rfl rfl h0⟩
    · intro hd; simp at hd
    · rename_i s' r heq
      rw [heq] at hp hcm hval hdone
      intro _
      obtain ⟨a, b⟩ := hval rfl r rfl
      have hml := hdone rfl rfl
      have hpos : 0 < inp.length := List.length_pos_iff.mpr (hne rfl)
      simp only [LoopOut.st] at hp hcm
      have hmr : m = r.toNat := by omega
      simp only [ne_eq, not_true_eq_false, ↓reduceIte]
      refine ⟨hp.core, hp.queue, hp.conn, by rw [← hmr]; exact hcm, by simpa using b, ?_, ?_⟩
      · intro _
        rw [hcm, hml, List.take_length]
      · intro hn
        obtain ⟨e1, e2, _⟩ := hp.err hn
        refine ⟨e1, e2, fun h0 => ?_⟩
        omega

theorem compressionFlush_gen (H : HDeflate C) (fuel : Nat) (s : St C) (hc : Core H s)
    (hd : (compressionFlush fuel s).1.diverged = false) :
    Core H (compressionFlush fuel s).1 ∧ (compressionFlush fuel s).1.queue = s.queue ∧
    (compressionFlush fuel s).1.connected = s.connected ∧
    H.cons (compressionFlush fuel s).1.z = H.cons s.z ∧
    (NoErr s → (compressionFlush fuel s).1.error = s.error ∧ NoErr (compressionFlush fuel s).1) := by
  have hfl := flushMode_ne_zero s.dontReset
  have hp := cwLoop_gen H fuel s [] 0 _ hc (fun h => absurd h hfl)
  obtain ⟨m, hm, hcm, _, _⟩ := hp.cons
  have hm0 : m = 0 := by simpa using hm
  subst hm0
  revert hd
  unfold compressionFlush compressionWrite
  have hcond : ¬ (([] : Bytes).isEmpty = true ∧
      (if s.dontReset then Gen.Zl.compressionFlushModeDontReset else Gen.Zl.compressionFlushModeReset) = 0) :=
    fun h => hfl h.2
  simp only [hcond, ↓reduceIte]
  split
  · rename_i s' r heq
    rw [heq] at hp hcm
    intro _
    simp only [LoopOut.st] at hp hcm
    exact ⟨hp.core, hp.queue, hp.conn, by simpa using hcm, fun hn => ⟨(hp.err hn).1, (hp.err hn).2.1⟩⟩
  · intro hd; simp at hd
  · rename_i s' r heq
    rw [heq] at hp hcm
    intro _
    simp only [LoopOut.st] at hp hcm
    simp only [hfl, ne_eq, not_false_eq_true, ↓reduceIte]
    obtain ⟨tc, tz, tq, tconn, _, terr⟩ := tryWrite_gen H s' true hp.core
    refine ⟨tc, tq.trans hp.queue, tconn.trans hp.conn, by rw [tz]; simpa using hcm, ?_⟩
    intro hn
    obtain ⟨e1, e2, _⟩ := hp.err hn
    obtain ⟨f1, f2, _⟩ := terr e2
    exact ⟨f1.trans e1, f2⟩

theorem upperWrite_gen (H : HDeflate C) (fuel : Nat) (s : St C) (inp : Bytes) (hc : Core H s)
    (hd : (upperWrite fuel s inp).1.diverged = false) :
    Core H (upperWrite fuel s inp).1 ∧ (upperWrite fuel s inp).1.connected = s.connected ∧
    H.cons (upperWrite fuel s inp).1.z = H.cons s.z ++ inp.take (upperWrite fuel s inp).2.toNat ∧
    (upperWrite fuel s inp).2 ≤ (inp.length : Int) ∧
    ((upperWrite fuel s inp).2 = (inp.length : Int) → H.cons (upperWrite fuel s inp).1.z = H.cons s.z ++ inp) ∧
    (NoErr s → (upperWrite fuel s inp).1.error = s.error ∧ NoErr (upperWrite fuel s inp).1) := by
  have hle : FlagsLe (compressionWrite fuel s inp 0).1 (upperWrite fuel s inp).1 := by
    unfold upperWrite
    simp only [writeMode_zero]
    split
    · exact ⟨by simp, by simp⟩
    · exact FlagsLe.refl _
  obtain ⟨c, _, cn, e, l, f, ne⟩ := compressionWrite_gen H fuel s inp hc (nodiv_of_le hle hd)
  unfold upperWrite
  simp only [writeMode_zero]
  split
  · rename_i hcond
    refine ⟨⟨c.okz, c.stream, c.outLe⟩, cn, e, l, f, ?_⟩
    intro hn
    obtain ⟨_, _, e3⟩ := ne hn
    have := e3 hcond.1
    rw [hcond.2] at this
    cases this
  · exact ⟨c, cn, e, l, f, fun hn => ⟨(ne hn).1, (ne hn).2.1⟩⟩

/-- the part of the queue the write loop still has to hand over -/
def rest (q : List (Bytes × Nat)) : Bytes := (q.map fun e => e.1.drop e.2).flatten

def Wf (q : List (Bytes × Nat)) : Prop := ∀ e ∈ q, e.2 ≤ e.1.length

/-- the `while (sq)` loop under any schedule: what deflate consumed is exactly what the queue no
    longer holds -/
theorem sendLoop_gen (H : HDeflate C) (fuel : Nat) :
    ∀ (q : List (Bytes × Nat)) (s : St C), Core H s → Wf q →
      (sendLoop fuel s q).1.diverged = false →
      Core H (sendLoop fuel s q).1 ∧ (sendLoop fuel s q).1.connected = s.connected ∧
      Wf (sendLoop fuel s q).2 ∧
      H.cons (sendLoop fuel s q).1.z ++ rest (sendLoop fuel s q).2 = H.cons s.z ++ rest q ∧
      (NoErr s → (sendLoop fuel s q).1.error = s.error ∧ NoErr (sendLoop fuel s q).1) := by
  intro q
  induction q with
  | nil =>
    intro s hc _ _
    refine ⟨hc, rfl, ?_, rfl, fun h => ⟨rfl, h⟩⟩
    intro e he
    cases he
  | cons e tl ih =>
    intro s hc hw hd
    obtain ⟨d, w⟩ := e
    have hwd : w ≤ d.length := hw (d, w) (by simp)
    have hwtl : Wf tl := fun x hx => hw x (by simp [hx])
    have hdu : (upperWrite fuel s (d.drop w)).1.diverged = false := by
      refine nodiv_of_le ?_ hd
      unfold sendLoop
      simp only
      split
      · exact FlagsLe.refl _
      · exact sendLoop_le fuel tl _
    obtain ⟨c1, cn1, e1, l1, f1, ne1⟩ := upperWrite_gen H fuel s (d.drop w) hc hdu
    have hlen : ((d.drop w).length : Int) = (d.length : Int) - (w : Int) := by
      rw [List.length_drop]; omega
    revert hd
    unfold sendLoop
    simp only
    split
    · rename_i hneq
      intro _
      rw [← hlen] at hneq
      refine ⟨c1, cn1, ?_, ?_, ne1⟩
      · intro x hx
        simp only [List.mem_cons] at hx
        cases hx with
        | inl h =>
          subst h
          simp only
          split
          · rename_i hr
            rw [← hlen] at hr
            rw [List.length_drop] at hr
            omega
          · exact hwd
        | inr h => exact hwtl x h
      · simp only [rest, List.map_cons, List.flatten_cons]
        rw [e1]
        split
        · rename_i hr
          rw [List.append_assoc, ← List.append_assoc (List.take _ _)]
          congr 1
          congr 1
          rw [← List.drop_drop, List.take_append_drop]
        · rename_i hr
          rw [← hlen] at hr
          have : (upperWrite fuel s (d.drop w)).2.toNat = 0 := by omega
          rw [this]
          simp
    · rename_i heq
      intro hd
      have heq' : (upperWrite fuel s (d.drop w)).2 = ((d.drop w).length : Int) := by
        rw [hlen]; exact Decidable.of_not_not heq
      obtain ⟨c2, cn2, w2, e2, ne2⟩ := ih _ c1 hwtl hd
      refine ⟨c2, cn2.trans cn1, w2, ?_, ?_⟩
      · rw [e2, f1 heq']
        simp [rest, List.append_assoc]
      · intro hn
        obtain ⟨a, b⟩ := ne1 hn
        obtain ⟨a2, b2⟩ := ne2 b
        exact ⟨a2.trans a, b2⟩

/-- invariant between the application's calls, whatever the lower transport did so far -/
structure RunInv (H : HDeflate C) (s : St C) (sub : Bytes) : Prop where
  okz : H.ok s.z
  stream : s.net ++ s.out = H.prod s.z
  outLe : s.out.length ≤ bufSize
  wf : Wf s.queue
  sub : H.cons s.z ++ rest s.queue = sub

theorem init_inv (H : HDeflate C) (dr : Bool) : RunInv H (init C dr) [] :=
  ⟨H.init_ok, by simp [init, H.init_prod], by simp [init], by simp [init, Wf],
   by simp [init, H.init_cons, rest]⟩

theorem runOnceSend_gen (H : HDeflate C) (fuel : Nat) (s : St C) (sub : Bytes) (hi : RunInv H s sub)
    (hd : (runOnceSend fuel s).diverged = false) :
    RunInv H (runOnceSend fuel s) sub ∧
    (s.connected = true → s.error = 0 → NoErr s →
      (runOnceSend fuel s).connected = true ∧ (runOnceSend fuel s).error = 0) := by
  revert hd
  unfold runOnceSend
  split
  · rename_i hnc
    intro _
    refine ⟨hi, ?_⟩
    intro h; rw [h] at hnc; cases hnc
  · rename_i hconn
    have hconn' : s.connected = true := by simpa using hconn
    simp only
    have hcore : Core H s := ⟨hi.okz, hi.stream, hi.outLe⟩
    have key : ∀ t, t = (compressionFlush fuel
        { (sendLoop fuel s s.queue).1 with queue := (sendLoop fuel s s.queue).2 }).1 →
        t.diverged = false →
        RunInv H t sub ∧ t.connected = true ∧ (s.error = 0 → NoErr s → t.error = 0) := by
      intro t ht hdt
      have hle : FlagsLe (sendLoop fuel s s.queue).1 t := by
        rw [ht]
        exact FlagsLe.trans (t := { (sendLoop fuel s s.queue).1 with queue := (sendLoop fuel s s.queue).2 })
          ⟨by simp, by simp⟩ (compressionFlush_le fuel _)
      obtain ⟨c1, cn1, w1, e1, ne1⟩ := sendLoop_gen H fuel s.queue s hcore hi.wf (nodiv_of_le hle hdt)
      have c1' : Core H { (sendLoop fuel s s.queue).1 with queue := (sendLoop fuel s s.queue).2 } :=
        ⟨c1.okz, c1.stream, c1.outLe⟩
      rw [ht] at hdt
      obtain ⟨c2, q2, cn2, e2, ne2⟩ := compressionFlush_gen H fuel _ c1' hdt
      rw [ht]
      refine ⟨⟨c2.okz, c2.stream, c2.outLe, by rw [q2]; exact w1, ?_⟩, ?_, ?_⟩
      · rw [e2, q2]
        show H.cons (sendLoop fuel s s.queue).1.z ++ rest (sendLoop fuel s s.queue).2 = sub
        rw [e1]; exact hi.sub
      · rw [cn2]; show (sendLoop fuel s s.queue).1.connected = true; rw [cn1]; exact hconn'
      · intro he hn
        obtain ⟨a, b⟩ := ne1 hn
        have := (ne2 b).1
        rw [this]
        show (sendLoop fuel s s.queue).1.error = 0
        rw [a]; exact he
    split
    · rename_i herr
      intro hd
      have hd' : (compressionFlush fuel
          { (sendLoop fuel s s.queue).1 with queue := (sendLoop fuel s s.queue).2 }).1.diverged = false := by
        simpa [disconnect] using hd
      obtain ⟨k1, _, k3⟩ := key _ rfl hd'
      refine ⟨⟨k1.okz, k1.stream, k1.outLe, k1.wf, k1.sub⟩, ?_⟩
      intro _ he hn
      exact absurd (k3 he hn) herr
    · rename_i herr
      intro hd
      obtain ⟨k1, k2, k3⟩ := key _ rfl hd
      exact ⟨k1, fun _ he hn => ⟨k2, k3 he hn⟩⟩

/-! ### whole histories -/

theorem submitted_append (a b : List Op) : submitted (a ++ b) = submitted a ++ submitted b := by
  induction a with
  | nil => rfl
  | cons op r ih => cases op <;> simp [submitted, ih]

theorem runOp_inv (H : HDeflate C) (fuel : Nat) (s : St C) (sub : Bytes) (op : Op)
    (hi : RunInv H s sub) (hg : Good (runOp fuel s op)) :
    RunInv H (runOp fuel s op) (sub ++ submitted [op]) := by
  have hgs : Good s := Good.of_le (runOp_le fuel s op) hg
  cases op with
  | send b =>
    simp only [runOp, sendRaw, hgs.1, ↓reduceIte, submitted, List.append_nil]
    refine ⟨hi.okz, hi.stream, hi.outLe, ?_, ?_⟩
    · intro e he
      simp only [List.mem_append, List.mem_singleton] at he
      cases he with
      | inl h => exact hi.wf e h
      | inr h => rw [h]; simp
    · simp only [rest, List.map_append, List.flatten_append, List.map_cons, List.map_nil,
        List.flatten_cons, List.flatten_nil, List.append_nil, List.drop_zero]
      rw [← List.append_assoc]
      congr 1
      exact hi.sub
  | iter sc =>
    have hi' : RunInv H { s with sched := sc } sub := ⟨hi.okz, hi.stream, hi.outLe, hi.wf, hi.sub⟩
    simp only [runOp, submitted, List.append_nil]
    exact (runOnceSend_gen H fuel _ sub hi' hg.2).1

theorem run_inv (H : HDeflate C) (fuel : Nat) : ∀ (ops : List Op) (s : St C) (sub : Bytes),
    RunInv H s sub → Good (run fuel s ops) → RunInv H (run fuel s ops) (sub ++ submitted ops) := by
  intro ops
  induction ops with
  | nil => intro s sub hi _; simpa [run, submitted] using hi
  | cons op tl ih =>
    intro s sub hi hg
    have hg1 : Good (runOp fuel s op) := Good.of_le (run_le fuel tl _) hg
    have h1 := runOp_inv H fuel s sub op hi hg1
    have h2 := ih (runOp fuel s op) _ h1 hg
    have : submitted (op :: tl) = submitted [op] ++ submitted tl := submitted_append [op] tl
    rw [this, ← List.append_assoc]
    exact h2

/-- safety under ANY schedule: whatever the server has received inflates to a prefix of the
    submitted stream -/
theorem write_safe (H : HDeflate C) (dr : Bool) (fuel : Nat) (ops : List Op)
    (hg : Good (run fuel (init C dr) ops)) :
    H.decode (run fuel (init C dr) ops).net <+: submitted ops := by
  have hi := run_inv H fuel ops (init C dr) [] (init_inv H dr) hg
  simp only [List.nil_append] at hi
  have h1 : (run fuel (init C dr) ops).net <+: H.prod (run fuel (init C dr) ops).z := ⟨_, hi.stream⟩
  exact (H.decode_prefix _ _ hi.okz h1).trans ⟨_, hi.sub⟩

/-- no schedule without a hard error ever tears the connection down -/
theorem no_spurious (H : HDeflate C) (fuel : Nat) : ∀ (ops : List Op) (s : St C) (sub : Bytes),
    RunInv H s sub → s.connected = true → s.error = 0 →
    (∀ op ∈ ops, ∀ sc, op = Op.iter sc → Accept.err ∉ sc) →
    (run fuel s ops).diverged = false →
    (run fuel s ops).connected = true := by
  intro ops
  induction ops with
  | nil => intro s _ _ hc _ _ _; exact hc
  | cons op tl ih =>
    intro s sub hi hc he hsc hd
    have hd1 : (runOp fuel s op).diverged = false := nodiv_of_le (run_le fuel tl _) hd
    cases op with
    | send b =>
      have hg : Good (runOp fuel s (Op.send b)) := by
        refine ⟨?_, hd1⟩
        simp [runOp, sendRaw, hc]
      have h1 := runOp_inv H fuel s sub _ hi hg
      refine ih _ _ h1 hg.1 ?_ (fun o ho => hsc o (by simp [ho])) hd
      simp [runOp, sendRaw, hc, he]
    | iter sc =>
      have hi' : RunInv H { s with sched := sc } sub := ⟨hi.okz, hi.stream, hi.outLe, hi.wf, hi.sub⟩
      have hn : NoErr { s with sched := sc } := hsc (Op.iter sc) (by simp) sc rfl
      obtain ⟨h1, h2⟩ := runOnceSend_gen H fuel _ sub hi' hd1
      obtain ⟨k1, k2⟩ := h2 hc he hn
      exact ih _ sub h1 k1 k2 (fun o ho => hsc o (by simp [ho])) hd

/-! ### an iteration in which the lower transport accepts everything drains and flushes completely -/

def AllAcc (s : St C) : Prop := ∀ a ∈ s.sched, a = Accept.all

theorem popSched_all (l : List Accept) (h : ∀ a ∈ l, a = Accept.all) :
    (popSched l).1 = Accept.all ∧ ∀ a ∈ (popSched l).2, a = Accept.all := by
  cases l with
  | nil => exact ⟨rfl, by simp [popSched]⟩
  | cons a r =>
    refine ⟨h a (by simp), ?_⟩
    intro x hx
    exact h x (by simp [popSched] at hx; simp [hx])

theorem lowerWrite_all (s : St C) (b : Bytes) (h : AllAcc s) :
    lowerWrite s b =
      ({ s with sched := (popSched s.sched).2, calls := s.calls ++ [(b.length, (b.length : Int))],
                net := s.net ++ b }, (b.length : Int)) := by
  have hp := (popSched_all s.sched h).1
  have hneg : ¬ ((b.length : Int) < 0) := by omega
  unfold lowerWrite
  simp only [hp, Accept.ret, hneg, false_and, if_false, Int.toNat_natCast, List.take_length]

theorem tryWrite_all (H : HDeflate C) (s : St C) (f : Bool) (hc : Core H s) (ha : AllAcc s) :
    AllAcc (tryWrite s f).1 ∧ 0 ≤ (tryWrite s f).2 ∧
    (f = false → (tryWrite s f).1.out.length < bufSize) ∧ (f = true → (tryWrite s f).1.out = []) := by
  unfold tryWrite
  simp only
  split
  · rw [lowerWrite_all s s.out ha]
    have hneg : ¬ ((s.out.length : Int) < 0) := by omega
    simp only [hneg, if_false, Int.toNat_natCast, List.drop_length]
    refine ⟨(popSched_all _ ha).2, by omega, ?_, ?_⟩
    · intro _; simpa using bufSize_pos
    · intro _; trivial
  · rename_i hcond
    refine ⟨ha, by omega, ?_, ?_⟩
    · intro hf
      subst hf
      have hle := hc.outLe
      have hp := bufSize_pos
      simp at hcond
      show s.out.length < bufSize
      by_cases h0 : s.out.length = bufSize
      · have h1 := hcond h0
        rw [h1] at h0 ⊢
        simp at h0 ⊢
        omega
      · omega
    · intro hf
      subst hf
      simp at hcond
      show s.out = []
      exact hcond

theorem cwLoop_all (H : HDeflate C) : ∀ (fuel : Nat) (s : St C) (inp : Bytes) (k : Nat) (fl : Int),
    Core H s → AllAcc s → (fl = 0 → inp ≠ []) →
    (cwLoop fuel s inp k fl).isRet = false ∧ AllAcc (cwLoop fuel s inp k fl).st ∧
    ((cwLoop fuel s inp k fl).isDone = true → fl ≠ 0 → inp = [] →
      H.decode (H.prod (cwLoop fuel s inp k fl).st.z) = H.cons (cwLoop fuel s inp k fl).st.z) := by
  intro fuel
  induction fuel with
  | zero => intro s inp k fl _ ha _; simp [cwLoop, LoopOut.isRet, LoopOut.isDone, LoopOut.st, ha]
  | succ fuel ih =>
    intro s inp k fl hc ha hne
    obtain ⟨htc, htz, htq, htconn, htdiv, hterr⟩ := tryWrite_gen H s false hc
    obtain ⟨hta, htnn, htlt, _⟩ := tryWrite_all H s false hc ha
    have hlt := htlt rfl
    have hnb : ¬ ((tryWrite s false).2 < 0 ∨ bufSize - (tryWrite s false).1.out.length = 0) := by
      intro h; cases h with
      | inl h => omega
      | inr h => omega
    have hroom : 0 < bufSize - (tryWrite s false).1.out.length := by omega
    have hok := htc.okz
    have hcd := core_after_deflate H (tryWrite s false).1 inp fl htc
    have hnoerr := H.no_error (tryWrite s false).1.z inp fl (bufSize - (tryWrite s false).1.out.length) hok
    have hprog := H.progress (tryWrite s false).1.z inp fl (bufSize - (tryWrite s false).1.out.length) hok
    have hsc := H.step_cons (tryWrite s false).1.z inp fl (bufSize - (tryWrite s false).1.out.length) hok
    have hsp := H.step_prod (tryWrite s false).1.z inp fl (bufSize - (tryWrite s false).1.out.length) hok
    have hbe := H.buf_error (tryWrite s false).1.z inp fl (bufSize - (tryWrite s false).1.out.length) hok
    unfold cwLoop
    simp only [hnb, ↓reduceIte]
    split
    · rename_i h
      exfalso
      cases hnoerr with
      | inl h1 => rw [h1] at h; exact zOk_ne_streamEnd h
      | inr h1 => rw [h1] at h; exact zBufError_ne_streamEnd h
    · split
      · rename_i hbe'
        refine ⟨rfl, hta, ?_⟩
        intro _ hfl hinp
        subst hinp
        have hfb := H.flush_buf_error (tryWrite s false).1.z fl (bufSize - (tryWrite s false).1.out.length) hok hfl hroom hbe'.2
        show H.decode (H.prod (C.deflate _ _ _ _).1) = H.cons (C.deflate _ _ _ _).1
        rw [hsp, hsc, (hbe hbe'.2).1, (hbe hbe'.2).2]
        simpa using hfb
      · split
        · rename_i hnbe hnok
          exfalso
          cases hnoerr with
          | inl h1 => exact hnok h1
          | inr h1 =>
            have hfl0 : fl = 0 := by
              by_cases h0 : fl = 0
              · exact h0
              · exact absurd ⟨h0, h1⟩ hnbe
            exact hprog (hne hfl0) hroom h1
        · rename_i hnbe hok'
          have hrc : (C.deflate (tryWrite s false).1.z inp fl (bufSize - (tryWrite s false).1.out.length)).2.2.2 = Gen.Zl.zOk :=
            Decidable.of_not_not hok'
          split
          · rename_i hexit
            refine ⟨rfl, hta, ?_⟩
            intro _ hfl _
            have hr2 : ¬ (bufSize - ((tryWrite s false).1.out ++
                (C.deflate (tryWrite s false).1.z inp fl (bufSize - (tryWrite s false).1.out.length)).2.2.1).length = 0) :=
              fun h => hexit.2 ⟨hfl, h⟩
            have hpl := H.produced_le (tryWrite s false).1.z inp fl (bufSize - (tryWrite s false).1.out.length) hok
            have : (C.deflate (tryWrite s false).1.z inp fl (bufSize - (tryWrite s false).1.out.length)).2.2.1.length <
                bufSize - (tryWrite s false).1.out.length := by
              simp only [List.length_append] at hr2
              omega
            exact H.flush_complete _ _ _ _ hok hfl hrc this
          · have hne' : fl = 0 → inp.drop (C.deflate (tryWrite s false).1.z inp fl (bufSize - (tryWrite s false).1.out.length)).2.1 ≠ [] := by
              rename_i hnexit
              intro h0 hemp
              apply hnexit
              exact ⟨by simp [hemp], fun h => h.1 h0⟩
            obtain ⟨i1, i2, i3⟩ := ih _ (inp.drop (C.deflate (tryWrite s false).1.z inp fl (bufSize - (tryWrite s false).1.out.length)).2.1)
              (k + (C.deflate (tryWrite s false).1.z inp fl (bufSize - (tryWrite s false).1.out.length)).2.1) fl hcd hta hne'
            refine ⟨i1, i2, ?_⟩
            intro hd hfl hinp
            exact i3 hd hfl (by rw [hinp]; simp)

theorem compressionFlush_all (H : HDeflate C) (fuel : Nat) (s : St C) (hc : Core H s) (ha : AllAcc s)
    (hd : (compressionFlush fuel s).1.diverged = false) :
    (compressionFlush fuel s).1.out = [] ∧
    H.decode (compressionFlush fuel s).1.net = H.cons (compressionFlush fuel s).1.z := by
  have hfl := flushMode_ne_zero s.dontReset
  have hp := cwLoop_gen H fuel s [] 0 _ hc (fun h => absurd h hfl)
  obtain ⟨hr, hacc, hcomp⟩ := cwLoop_all H fuel s [] 0 _ hc ha (fun h => absurd h hfl)
  revert hd
  unfold compressionFlush compressionWrite
  have hcond : ¬ (([] : Bytes).isEmpty = true ∧
      (if s.dontReset then Gen.Zl.compressionFlushModeDontReset else Gen.Zl.compressionFlushModeReset) = 0) :=
    fun h => hfl h.2
  simp only [hcond, ↓reduceIte]
  split
  · rename_i s' r heq
    rw [heq] at hr; simp [LoopOut.isRet] at hr
  · intro hd; simp at hd
  · rename_i s' r heq
    rw [heq] at hp hacc hcomp
    intro _
    simp only [LoopOut.st] at hp hacc hcomp
    simp only [hfl, ne_eq, not_false_eq_true, ↓reduceIte]
    obtain ⟨tc, tz, _, _, _, _⟩ := tryWrite_gen H s' true hp.core
    obtain ⟨_, _, _, tout⟩ := tryWrite_all H s' true hp.core hacc
    refine ⟨tout rfl, ?_⟩
    have hs := tc.stream
    rw [tout rfl, List.append_nil] at hs
    rw [hs, tz]
    exact hcomp rfl hfl trivial

theorem upperWrite_all (H : HDeflate C) (fuel : Nat) (s : St C) (inp : Bytes) (hc : Core H s)
    (ha : AllAcc s) (hd : (upperWrite fuel s inp).1.diverged = false) :
    (upperWrite fuel s inp).2 = (inp.length : Int) ∧ AllAcc (upperWrite fuel s inp).1 := by
  have key : (compressionWrite fuel s inp 0).1.diverged = false →
      (compressionWrite fuel s inp 0).2 = (inp.length : Int) ∧ AllAcc (compressionWrite fuel s inp 0).1 := by
    unfold compressionWrite
    split
    · rename_i hemp
      intro _
      have : inp = [] := List.isEmpty_iff.mp hemp.1
      subst this
      exact ⟨rfl, ha⟩
    · rename_i hnemp
      have hne : (0 : Int) = 0 → inp ≠ [] := by
        intro _ h
        apply hnemp
        exact ⟨by simp [h], rfl⟩
      have hp := cwLoop_gen H fuel s inp 0 0 hc hne
      obtain ⟨hr, hacc, _⟩ := cwLoop_all H fuel s inp 0 0 hc ha hne
      obtain ⟨m, hm, hcm, hval, hdone⟩ := hp.cons
      split
      · rename_i s' r heq
        rw [heq] at hr; simp [LoopOut.isRet] at hr
      · intro hd; simp at hd
      · rename_i s' r heq
        rw [heq] at hacc hval hdone
        intro _
        obtain ⟨a, b⟩ := hval rfl r rfl
        have hml := hdone rfl rfl
        simp only [ne_eq, not_true_eq_false, ↓reduceIte]
        refine ⟨?_, hacc⟩
        have hpos : 0 < inp.length := List.length_pos_iff.mpr (hne rfl)
        omega
  have hle : FlagsLe (compressionWrite fuel s inp 0).1 (upperWrite fuel s inp).1 := by
    unfold upperWrite
    simp only [writeMode_zero]
    split
    · exact ⟨by simp, by simp⟩
    · exact FlagsLe.refl _
  obtain ⟨k1, k2⟩ := key (nodiv_of_le hle hd)
  have hneg : ¬ ((compressionWrite fuel s inp 0).2 < 0) := by rw [k1]; omega
  unfold upperWrite
  simp only [writeMode_zero, hneg, false_and, ↓reduceIte]
  exact ⟨k1, k2⟩

theorem sendLoop_all (H : HDeflate C) (fuel : Nat) :
    ∀ (q : List (Bytes × Nat)) (s : St C), Core H s → AllAcc s → Wf q →
      (sendLoop fuel s q).1.diverged = false →
      (sendLoop fuel s q).2 = [] ∧ AllAcc (sendLoop fuel s q).1 := by
  intro q
  induction q with
  | nil => intro s _ ha _ _; exact ⟨rfl, ha⟩
  | cons e tl ih =>
    intro s hc ha hw hd
    obtain ⟨d, w⟩ := e
    have hwd : w ≤ d.length := hw (d, w) (by simp)
    have hdu : (upperWrite fuel s (d.drop w)).1.diverged = false := by
      refine nodiv_of_le ?_ hd
      unfold sendLoop
      simp only
      split
      · exact FlagsLe.refl _
      · exact sendLoop_le fuel tl _
    obtain ⟨c1, _, _, _, _, _⟩ := upperWrite_gen H fuel s (d.drop w) hc hdu
    obtain ⟨r1, a1⟩ := upperWrite_all H fuel s (d.drop w) hc ha hdu
    have hlen : ((d.drop w).length : Int) = (d.length : Int) - (w : Int) := by
      rw [List.length_drop]; omega
    revert hd
    unfold sendLoop
    simp only [r1, hlen, ne_eq, not_true_eq_false, ↓reduceIte]
    intro hd
    exact ih _ c1 a1 (fun x hx => hw x (by simp [hx])) hd

theorem runOnceSend_all (H : HDeflate C) (fuel : Nat) (s : St C) (sub : Bytes) (hi : RunInv H s sub)
    (ha : AllAcc s) (hg : Good (runOnceSend fuel s)) :
    (runOnceSend fuel s).queue = [] ∧ H.decode (runOnceSend fuel s).net = sub := by
  have hconn : s.connected = true := (Good.of_le (runOnceSend_le fuel s) hg).1
  obtain ⟨hinv, _⟩ := runOnceSend_gen H fuel s sub hi hg.2
  have hcore : Core H s := ⟨hi.okz, hi.stream, hi.outLe⟩
  revert hg hinv
  unfold runOnceSend
  simp only [hconn, Bool.true_eq_false, ↓reduceIte]
  split
  · intro hg; have := hg.1; simp [disconnect] at this
  · intro hg hinv
    have hle : FlagsLe (sendLoop fuel s s.queue).1 (compressionFlush fuel
        { (sendLoop fuel s s.queue).1 with queue := (sendLoop fuel s s.queue).2 }).1 :=
      FlagsLe.trans (t := { (sendLoop fuel s s.queue).1 with queue := (sendLoop fuel s s.queue).2 })
        ⟨by simp, by simp⟩ (compressionFlush_le fuel _)
    have hds := nodiv_of_le hle hg.2
    obtain ⟨c1, _, _, _, _⟩ := sendLoop_gen H fuel s.queue s hcore hi.wf hds
    obtain ⟨q1, a1⟩ := sendLoop_all H fuel s.queue s hcore ha hi.wf hds
    have c1' : Core H { (sendLoop fuel s s.queue).1 with queue := (sendLoop fuel s s.queue).2 } :=
      ⟨c1.okz, c1.stream, c1.outLe⟩
    obtain ⟨_, q2, _, _, _⟩ := compressionFlush_gen H fuel _ c1' hg.2
    obtain ⟨_, d2⟩ := compressionFlush_all H fuel _ c1' a1 hg.2
    have hq : (compressionFlush fuel
        { (sendLoop fuel s s.queue).1 with queue := (sendLoop fuel s s.queue).2 }).1.queue = [] := by
      rw [q2]; exact q1
    refine ⟨hq, ?_⟩
    rw [d2]
    have := hinv.sub
    rw [hq] at this
    simpa [rest] using this

/-- completeness: at the end of an iteration in which the lower transport accepted what it was
    offered, the server has everything that was ever submitted — whatever happened before -/
theorem write_complete (H : HDeflate C) (dr : Bool) (fuel : Nat) (pre : List Op) (sc : List Accept)
    (hall : ∀ a ∈ sc, a = Accept.all)
    (hg : Good (run fuel (init C dr) (pre ++ [Op.iter sc]))) :
    H.decode (run fuel (init C dr) (pre ++ [Op.iter sc])).net = submitted (pre ++ [Op.iter sc]) ∧
    (run fuel (init C dr) (pre ++ [Op.iter sc])).queue = [] := by
  have hrun : run fuel (init C dr) (pre ++ [Op.iter sc]) =
      runOnceSend fuel { run fuel (init C dr) pre with sched := sc } := by
    simp [run, List.foldl_append, runOp]
  rw [hrun] at hg ⊢
  have hg1 : Good (run fuel (init C dr) pre) :=
    Good.of_le (FlagsLe.trans (t := { run fuel (init C dr) pre with sched := sc }) ⟨by simp, by simp⟩
      (runOnceSend_le fuel _)) hg
  have hi := run_inv H fuel pre (init C dr) [] (init_inv H dr) hg1
  simp only [List.nil_append] at hi
  have hi' : RunInv H { run fuel (init C dr) pre with sched := sc } (submitted pre) :=
    ⟨hi.okz, hi.stream, hi.outLe, hi.wf, hi.sub⟩
  obtain ⟨q, d⟩ := runOnceSend_all H fuel _ _ hi' hall hg
  refine ⟨?_, q⟩
  rw [d, submitted_append]
  simp [submitted]

/-! ### the two directions do not touch each other's fields -/

/-- the fields of the read path -/
def rd (s : St C) : C.I × Option Bytes × Bytes × Bool := (s.zi, s.inPend, s.inq, s.inEof)

/-- the fields of the write path -/
def wr (s : St C) : C.D × Bytes × List (Bytes × Nat) × List Accept × Bytes × List (Nat × Int) :=
  (s.z, s.out, s.queue, s.sched, s.net, s.calls)

theorem lowerWrite_rd (s : St C) (b : Bytes) : rd (lowerWrite s b).1 = rd s := by
  unfold lowerWrite
  simp only
  split <;> (split <;> rfl)

theorem tryWrite_rd (s : St C) (f : Bool) : rd (tryWrite s f).1 = rd s := by
  unfold tryWrite
  simp only
  split
  · split
    · exact lowerWrite_rd s s.out
    · exact lowerWrite_rd s s.out
  · rfl

theorem cwLoop_rd : ∀ (fuel : Nat) (s : St C) (inp : Bytes) (k : Nat) (fl : Int),
    rd (cwLoop fuel s inp k fl).st = rd s := by
  intro fuel
  induction fuel with
  | zero => intro s inp k fl; rfl
  | succ fuel ih =>
    intro s inp k fl
    have ht := tryWrite_rd s false
    unfold cwLoop
    simp only
    split
    · exact ht
    · split
      · exact ht
      · split
        · exact ht
        · split
          · exact ht
          · split
            · exact ht
            · exact (ih _ _ _ _).trans ht

theorem compressionWrite_rd (fuel : Nat) (s : St C) (inp : Bytes) (fl : Int) :
    rd (compressionWrite fuel s inp fl).1 = rd s := by
  have h := cwLoop_rd fuel s inp 0 fl
  unfold compressionWrite
  split
  · rfl
  · split
    · rename_i s' r heq; rw [heq] at h; exact h
    · rename_i s' heq; rw [heq] at h; exact h
    · rename_i s' r heq; rw [heq] at h
      split
      · exact (tryWrite_rd _ _).trans h
      · exact h

theorem upperWrite_rd (fuel : Nat) (s : St C) (inp : Bytes) : rd (upperWrite fuel s inp).1 = rd s := by
  have h := compressionWrite_rd fuel s inp Gen.Zl.compressionWriteMode
  unfold upperWrite
  simp only
  split
  · exact h
  · exact h

theorem sendLoop_rd (fuel : Nat) : ∀ (q : List (Bytes × Nat)) (s : St C), rd (sendLoop fuel s q).1 = rd s := by
  intro q
  induction q with
  | nil => intro s; rfl
  | cons e tl ih =>
    intro s
    obtain ⟨d, w⟩ := e
    unfold sendLoop
    simp only
    split
    · exact upperWrite_rd _ _ _
    · exact (ih _).trans (upperWrite_rd _ _ _)

theorem runOnceSend_rd (fuel : Nat) (s : St C) : rd (runOnceSend fuel s) = rd s := by
  unfold runOnceSend
  split
  · rfl
  · simp only
    have h1 := sendLoop_rd fuel s.queue s
    have h2 : rd { (sendLoop fuel s s.queue).1 with queue := (sendLoop fuel s s.queue).2 } = rd s := h1
    have h3 : rd (compressionFlush fuel
        { (sendLoop fuel s s.queue).1 with queue := (sendLoop fuel s s.queue).2 }).1 = rd s :=
      (compressionWrite_rd fuel _ [] _).trans h2
    split
    · exact h3
    · exact h3

theorem lowerRead_wr (s : St C) (len : Nat) :
    wr (lowerRead s len).1 = wr s ∧ (lowerRead s len).1.error = s.error ∧
    (lowerRead s len).1.connected = s.connected ∧ (lowerRead s len).1.diverged = s.diverged := by
  unfold lowerRead
  split
  · split <;> exact ⟨rfl, rfl, rfl, rfl⟩
  · exact ⟨rfl, rfl, rfl, rfl⟩

theorem connDecompress_wr (s : St C) (fresh : Bytes) (len : Nat) :
    wr (connDecompress s fresh len).1 = wr s := by
  unfold connDecompress
  simp only
  split
  · rfl
  · split <;> rfl

theorem compressionRead_wr : ∀ (fuel : Nat) (s : St C) (len : Nat),
    wr (compressionRead fuel s len).1 = wr s := by
  intro fuel
  induction fuel with
  | zero => intro s len; rfl
  | succ fuel ih =>
    intro s len
    unfold compressionRead
    split
    · simp only
      split
      · exact connDecompress_wr _ _ _
      · exact (ih _ _).trans (connDecompress_wr _ _ _)
    · simp only
      split
      · exact (lowerRead_wr s bufSize).1
      · split
        · exact (connDecompress_wr _ _ _).trans (lowerRead_wr s bufSize).1
        · exact (ih _ _).trans ((connDecompress_wr _ _ _).trans (lowerRead_wr s bufSize).1)

theorem evRead_wr (fuel : Nat) (s : St C) : wr (evRead fuel s).1 = wr s := by
  have h := compressionRead_wr fuel s msgBufSize
  unfold evRead
  simp only
  split
  · exact h
  · split
    · exact h
    · split
      · exact h
      · exact h

/-- the read branch of an iteration leaves the write side exactly as the send half left it -/
theorem runOnce_wr (fuel : Nat) (s : St C) : wr (runOnce fuel s).1 = wr (runOnceSend fuel s) := by
  unfold runOnce
  simp only
  split
  · exact evRead_wr _ _
  · rfl

/-! ### read path -/

theorem connDecompress_le (s : St C) (fresh : Bytes) (len : Nat) :
    FlagsLe s (connDecompress s fresh len).1 := by
  unfold connDecompress
  simp only
  split
  · exact ⟨by simp, by simp⟩
  · split
    · exact ⟨by simp, by simp⟩
    · exact ⟨by simp [disconnect], by simp [disconnect]⟩

theorem lowerRead_le (s : St C) (len : Nat) : FlagsLe s (lowerRead s len).1 := by
  have h := lowerRead_wr s len
  exact ⟨fun x => by rw [← h.2.2.1]; exact x, fun x => by rw [h.2.2.2]; exact x⟩

theorem compressionRead_le : ∀ (fuel : Nat) (s : St C) (len : Nat),
    FlagsLe s (compressionRead fuel s len).1 := by
  intro fuel
  induction fuel with
  | zero => intro s len; exact ⟨by simp [compressionRead], by simp [compressionRead]⟩
  | succ fuel ih =>
    intro s len
    unfold compressionRead
    split
    · simp only
      split
      · exact connDecompress_le _ _ _
      · exact (connDecompress_le _ _ _).trans (ih _ _)
    · simp only
      split
      · exact lowerRead_le _ _
      · split
        · exact (lowerRead_le _ _).trans (connDecompress_le _ _ _)
        · exact (lowerRead_le _ _).trans ((connDecompress_le _ _ _).trans (ih _ _))

theorem evRead_le (fuel : Nat) (s : St C) : FlagsLe s (evRead fuel s).1 := by
  have h := compressionRead_le fuel s msgBufSize
  unfold evRead
  simp only
  split
  · exact h
  · split
    · exact h.trans ⟨by simp [disconnect], by simp [disconnect]⟩
    · split
      · exact h.trans ⟨by simp [disconnect], by simp [disconnect]⟩
      · exact h

theorem runOnce_le (fuel : Nat) (s : St C) : FlagsLe s (runOnce fuel s).1 := by
  unfold runOnce
  simp only
  split
  · exact (runOnceSend_le _ _).trans (evRead_le _ _)
  · exact runOnceSend_le _ _

theorem readLoop_le (wfuel : Nat) : ∀ (fuel : Nat) (s : St C) (acc : Bytes) (rets : List Int),
    FlagsLe s (readLoop wfuel fuel s acc rets).1 := by
  intro fuel
  induction fuel with
  | zero => intro s acc rets; exact ⟨by simp [readLoop], by simp [readLoop]⟩
  | succ fuel ih =>
    intro s acc rets
    have hs : FlagsLe s (runOnce wfuel { s with sched := [] }).1 :=
      FlagsLe.trans (t := { s with sched := [] }) ⟨by simp, by simp⟩ (runOnce_le _ _)
    unfold readLoop
    split
    · simp only
      split
      · exact hs
      · exact hs.trans (ih _ _ _)
    · exact FlagsLe.refl s

/-- what the read side maintains: everything that arrived is either consumed by inflate, waiting
    in the decompression buffer, or still in the lower transport; everything inflate produced was
    delivered; and when the decompression buffer is released inflate holds nothing back -/
structure RInv (HI : HInflate C) (s : St C) (allIn delivered : Bytes) : Prop where
  oki : HI.ok s.zi
  input : HI.cons s.zi ++ (s.inPend.getD [] ++ s.inq) = allIn
  output : HI.prod s.zi = delivered
  quiet : s.inPend = none → HI.prod s.zi = HI.plain (HI.cons s.zi)

/-- inflate reports no error (a healthy stream) -/
def Healthy (C : Codec) : Prop :=
  ∀ i inp room, (C.inflate i inp room).2.2.2 = Gen.Zl.zOk ∨ (C.inflate i inp room).2.2.2 = Gen.Zl.zBufError

theorem getD_ite (c : Prop) [Decidable c] (l : Bytes) (h : c → l = []) :
    Option.getD (if c then none else some l) [] = l := by
  split
  · rename_i hc; simp [h hc]
  · rfl

theorem connDecompress_ok (HI : HInflate C) (hh : Healthy C) (s : St C) (fresh : Bytes) (len : Nat)
    (inq' allIn del : Bytes) (hlen : 0 < len) (hok : HI.ok s.zi) (hout : HI.prod s.zi = del)
    (hin : HI.cons s.zi ++ (decompInput s fresh ++ inq') = allIn) (hq : s.inq = inq') :
    RInv HI (connDecompress s fresh len).1 allIn (del ++ (connDecompress s fresh len).2.2) ∧
    (connDecompress s fresh len).1.connected = s.connected ∧
    (connDecompress s fresh len).1.error = s.error ∧
    (connDecompress s fresh len).1.lerr = s.lerr ∧
    (connDecompress s fresh len).1.inEof = s.inEof ∧
    0 ≤ (connDecompress s fresh len).2.1 ∧
    ((connDecompress s fresh len).2.1 = 0 → (connDecompress s fresh len).2.2 = []) := by
  have hcl := HI.consumed_le s.zi (decompInput s fresh) len hok
  have hsc := HI.step_cons s.zi (decompInput s fresh) len hok
  have hsp := HI.step_prod s.zi (decompInput s fresh) len hok
  have hco := HI.complete s.zi (decompInput s fresh) len hok
  have hso := HI.step_ok s.zi (decompInput s fresh) len hok
  have hbe := HI.buf_error s.zi (decompInput s fresh) len hok
  have hhe := hh s.zi (decompInput s fresh) len
  unfold connDecompress
  simp only
  split
  · rename_i hrc
    refine ⟨⟨hso, ?_, ?_, ?_⟩, rfl, rfl, rfl, rfl, ?_, ?_⟩
    rotate_left 3
    · show (0 : Int) ≤ ((C.inflate s.zi (decompInput s fresh) len).2.2.1.length : Int)
      omega
    · intro h0
      have : (C.inflate s.zi (decompInput s fresh) len).2.2.1.length = 0 := by
        have h0' : ((C.inflate s.zi (decompInput s fresh) len).2.2.1.length : Int) = 0 := h0
        omega
      exact List.eq_nil_of_length_eq_zero this
    · show HI.cons (C.inflate _ _ _).1 ++ (Option.getD (if _ then none else some _) [] ++ s.inq) = allIn
      rw [getD_ite _ _ (fun h => List.isEmpty_iff.mp h.1), hsc, hq, ← hin,
        List.append_assoc, ← List.append_assoc (List.take _ _), List.take_append_drop]
    · show HI.prod (C.inflate _ _ _).1 = _
      rw [hsp, hout]
    · intro hn
      have hn' : (if (List.drop (C.inflate s.zi (decompInput s fresh) len).2.1 (decompInput s fresh)).isEmpty = true ∧
          (C.inflate s.zi (decompInput s fresh) len).2.2.1.length < len then (none : Option Bytes)
          else some (List.drop (C.inflate s.zi (decompInput s fresh) len).2.1 (decompInput s fresh))) = none := hn
      by_cases hc : (List.drop (C.inflate s.zi (decompInput s fresh) len).2.1 (decompInput s fresh)).isEmpty = true ∧
          (C.inflate s.zi (decompInput s fresh) len).2.2.1.length < len
      · exact (hco (by cases hrc with | inl h => exact Or.inr h | inr h => exact Or.inl h) hc.2).2
      · rw [if_neg hc] at hn'; cases hn'
  · rename_i hnrc
    have hrcb : (C.inflate s.zi (decompInput s fresh) len).2.2.2 = Gen.Zl.zBufError := by
      cases hhe with
      | inl h => exact absurd (Or.inr h) hnrc
      | inr h => exact h
    obtain ⟨hn0, ho0⟩ := hbe hrcb
    rw [if_pos hrcb]
    refine ⟨⟨hso, ?_, ?_, ?_⟩, rfl, rfl, rfl, rfl, Int.le_refl 0, fun _ => rfl⟩
    · show HI.cons (C.inflate _ _ _).1 ++ (Option.getD (if _ then none else some _) [] ++ s.inq) = allIn
      rw [getD_ite _ _ (fun h => List.isEmpty_iff.mp h), hsc, hq, ← hin,
        List.append_assoc, ← List.append_assoc (List.take _ _), List.take_append_drop]
    · show HI.prod (C.inflate _ _ _).1 = _ ++ []
      rw [hsp, hout, ho0]
    · intro hn
      have hn' : (if (List.drop (C.inflate s.zi (decompInput s fresh) len).2.1 (decompInput s fresh)).isEmpty = true
          then (none : Option Bytes)
          else some (List.drop (C.inflate s.zi (decompInput s fresh) len).2.1 (decompInput s fresh))) = none := hn
      by_cases hc : (List.drop (C.inflate s.zi (decompInput s fresh) len).2.1 (decompInput s fresh)).isEmpty = true
      · rw [hn0] at hc
        have hinp : decompInput s fresh = [] := by simpa using hc
        have hb := HI.buf_error_complete s.zi len hok hlen (by rw [← hinp]; exact hrcb)
        show HI.prod (C.inflate _ _ _).1 = HI.plain (HI.cons (C.inflate _ _ _).1)
        rw [hsp, hsc, ho0, hn0]
        simpa using hb
      · rw [if_neg hc] at hn'; cases hn'

theorem msgBufSize_pos : 0 < msgBufSize := by decide

theorem compressionRead_ok (HI : HInflate C) (hh : Healthy C) : ∀ (fuel : Nat) (s : St C) (len : Nat)
    (allIn del : Bytes), 0 < len → RInv HI s allIn del → s.connected = true → s.inEof = false →
    (compressionRead fuel s len).1.diverged = false →
    RInv HI (compressionRead fuel s len).1 allIn (del ++ (compressionRead fuel s len).2.2) ∧
    (compressionRead fuel s len).1.connected = true ∧
    (compressionRead fuel s len).1.error = s.error ∧
    (compressionRead fuel s len).1.inEof = false ∧
    ((compressionRead fuel s len).2.1 ≤ 0 → (compressionRead fuel s len).2.1 < 0 ∧
      recoverable (compressionRead fuel s len).1.lerr = true ∧ (compressionRead fuel s len).2.2 = []) := by
  intro fuel
  induction fuel with
  | zero => intro s len allIn del _ _ _ _ hd; simp [compressionRead] at hd
  | succ fuel ih =>
    intro s len allIn del hlen hi hconn heof
    unfold compressionRead
    split
    · rename_i p hp
      simp only
      have hin : HI.cons s.zi ++ (decompInput s [] ++ s.inq) = allIn := by
        simpa [decompInput, hp] using hi.input
      obtain ⟨r1, r2, r3, _, r5, r6, r7⟩ :=
        connDecompress_ok HI hh s [] len s.inq allIn del hlen hi.oki hi.output hin rfl
      split
      · rename_i hcond
        intro _
        refine ⟨r1, by rw [r2]; exact hconn, r3, by rw [r5]; exact heof, ?_⟩
        intro hle
        exfalso
        cases hcond with
        | inl h => exact h (Int.le_antisymm hle r6)
        | inr h => rw [r2, hconn] at h; cases h
      · rename_i hcond
        intro hd
        have h0 : (connDecompress s [] len).2.1 = 0 := by
          by_cases h : (connDecompress s [] len).2.1 = 0
          · exact h
          · exact absurd (Or.inl h) hcond
        have r1' : RInv HI (connDecompress s [] len).1 allIn del := by
          have := r1; rw [r7 h0, List.append_nil] at this; exact this
        obtain ⟨a, b, c, d, e⟩ := ih _ len allIn del hlen r1' (by rw [r2]; exact hconn) (by rw [r5]; exact heof) hd
        exact ⟨a, b, c.trans r3, d, e⟩
    · rename_i hp
      simp only
      have hw := lowerRead_wr s bufSize
      split
      · rename_i hle
        intro _
        -- the lower transport has nothing: -1 / EAGAIN (there is no EOF in this history)
        have hemp : s.inq.isEmpty = true := by
          cases h : s.inq.isEmpty with
          | true => rfl
          | false =>
            exfalso
            have hb := bufSize_pos
            have hlen' : 0 < s.inq.length := by
              cases hq : s.inq with
              | nil => simp [hq] at h
              | cons a t => simp
            have hl : lowerRead s bufSize =
                ({ s with inq := s.inq.drop (min s.inq.length bufSize) },
                 ((min s.inq.length bufSize : Nat) : Int), s.inq.take (min s.inq.length bufSize)) := by
              simp [lowerRead, h]
            rw [hl] at hle
            have hle' : ((min s.inq.length bufSize : Nat) : Int) ≤ 0 := hle
            omega
        have hlr : lowerRead s bufSize = ({ s with lerr := Gen.Zl.eAgain }, -1, []) := by
          simp [lowerRead, hemp, heof]
        rw [hlr]
        refine ⟨⟨hi.oki, hi.input, by simpa using hi.output, hi.quiet⟩, hconn, rfl, heof, ?_⟩
        intro _
        exact ⟨by show (-1 : Int) < 0; omega, recoverable_eagain, rfl⟩
      · rename_i hpos
        have hne : s.inq.isEmpty = false := by
          cases h : s.inq.isEmpty with
          | false => rfl
          | true => simp [lowerRead, h, heof] at hpos
        have hlr : lowerRead s bufSize =
            ({ s with inq := s.inq.drop (min s.inq.length bufSize) },
             ((min s.inq.length bufSize : Nat) : Int), s.inq.take (min s.inq.length bufSize)) := by
          simp [lowerRead, hne]
        rw [hlr]
        have hin : HI.cons s.zi ++ (decompInput { s with inq := s.inq.drop (min s.inq.length bufSize) }
            (s.inq.take (min s.inq.length bufSize)) ++ s.inq.drop (min s.inq.length bufSize)) = allIn := by
          simp only [decompInput, hp]
          rw [List.take_append_drop]
          simpa [hp] using hi.input
        obtain ⟨r1, r2, r3, _, r5, r6, r7⟩ :=
          connDecompress_ok HI hh { s with inq := s.inq.drop (min s.inq.length bufSize) }
            (s.inq.take (min s.inq.length bufSize)) len _ allIn del hlen hi.oki hi.output hin rfl
        split
        · rename_i hcond
          intro _
          refine ⟨r1, by rw [r2]; exact hconn, r3, by rw [r5]; exact heof, ?_⟩
          intro hle
          exfalso
          cases hcond with
          | inl h => exact h (Int.le_antisymm hle r6)
          | inr h => rw [r2] at h; simp [hconn] at h
        · rename_i hcond
          intro hd
          have h0 : (connDecompress { s with inq := s.inq.drop (min s.inq.length bufSize) }
              (s.inq.take (min s.inq.length bufSize)) len).2.1 = 0 := by
            by_cases h : (connDecompress { s with inq := s.inq.drop (min s.inq.length bufSize) }
                (s.inq.take (min s.inq.length bufSize)) len).2.1 = 0
            · exact h
            · exact absurd (Or.inl h) hcond
          have r1' := r1
          rw [r7 h0, List.append_nil] at r1'
          obtain ⟨a, b, c, d, e⟩ := ih _ len allIn del hlen r1' (by rw [r2]; exact hconn)
            (by rw [r5]; exact heof) hd
          exact ⟨a, b, c.trans r3, d, e⟩

theorem evRead_ok (HI : HInflate C) (hh : Healthy C) (fuel : Nat) (s : St C) (allIn del : Bytes)
    (hi : RInv HI s allIn del) (hconn : s.connected = true) (heof : s.inEof = false)
    (hd : (evRead fuel s).1.diverged = false) :
    RInv HI (evRead fuel s).1 allIn (del ++ (evRead fuel s).2.2) ∧
    (evRead fuel s).1.connected = true ∧ (evRead fuel s).1.error = s.error ∧
    (evRead fuel s).1.inEof = false := by
  have hdc : (compressionRead fuel s msgBufSize).1.diverged = false := by
    refine nodiv_of_le ?_ hd
    unfold evRead
    simp only
    split
    · exact FlagsLe.refl _
    · split
      · exact ⟨by simp [disconnect], by simp [disconnect]⟩
      · split
        · exact ⟨by simp [disconnect], by simp [disconnect]⟩
        · exact FlagsLe.refl _
  obtain ⟨a, b, c, d, e⟩ := compressionRead_ok HI hh fuel s msgBufSize allIn del msgBufSize_pos hi hconn heof hdc
  unfold evRead
  simp only
  split
  · exact ⟨a, b, c, d⟩
  · rename_i hnpos
    obtain ⟨e1, e2, e3⟩ := e (by omega)
    have e2' : ¬ (recoverable (compressionRead fuel s msgBufSize).1.lerr = false) := by rw [e2]; simp
    have e1' : ¬ ((compressionRead fuel s msgBufSize).2.1 = 0) := by omega
    simp only [e2', e1', ↓reduceIte]
    rw [e3] at a
    exact ⟨a, b, c, d⟩

/-- both directions of one connection, between two calls of xmpp_run_once -/
structure Both (H : HDeflate C) (HI : HInflate C) (s : St C) (sub allIn del : Bytes) : Prop where
  w : RunInv H s sub
  r : RInv HI s allIn del
  conn : s.connected = true
  err : s.error = 0
  eof : s.inEof = false

theorem rinv_of_rd (HI : HInflate C) (s t : St C) (allIn del : Bytes) (h : rd t = rd s)
    (hi : RInv HI s allIn del) : RInv HI t allIn del ∧ t.inEof = s.inEof := by
  simp only [rd, Prod.mk.injEq] at h
  obtain ⟨h1, h2, h3, h4⟩ := h
  exact ⟨⟨by rw [h1]; exact hi.oki, by rw [h1, h2, h3]; exact hi.input, by rw [h1]; exact hi.output,
    by rw [h1, h2]; exact hi.quiet⟩, h4⟩

theorem runinv_of_wr (H : HDeflate C) (s t : St C) (sub : Bytes) (h : wr t = wr s)
    (hi : RunInv H s sub) : RunInv H t sub := by
  simp only [wr, Prod.mk.injEq] at h
  obtain ⟨h1, h2, h3, _, h5, _⟩ := h
  exact ⟨by rw [h1]; exact hi.okz, by rw [h1, h2, h5]; exact hi.stream, by rw [h2]; exact hi.outLe,
    by rw [h3]; exact hi.wf, by rw [h1, h3]; exact hi.sub⟩

theorem runOnce_ok (H : HDeflate C) (HI : HInflate C) (hh : Healthy C) (fuel : Nat) (s : St C)
    (sub allIn del : Bytes) (hb : Both H HI s sub allIn del) (hn : NoErr s)
    (hd : (runOnce fuel s).1.diverged = false) :
    Both H HI (runOnce fuel s).1 sub allIn (del ++ (runOnce fuel s).2.1) ∧
    ((runOnce fuel s).2.2.isEmpty = true →
      (runOnce fuel s).1.inq = [] ∧ (runOnce fuel s).1.inPend = none ∧ (runOnce fuel s).2.1 = []) := by
  have hds : (runOnceSend fuel s).diverged = false := by
    refine nodiv_of_le ?_ hd
    unfold runOnce
    simp only
    split
    · exact evRead_le _ _
    · exact FlagsLe.refl _
  obtain ⟨w1, w2⟩ := runOnceSend_gen H fuel s sub hb.w hds
  obtain ⟨c1, e1⟩ := w2 hb.conn hb.err hn
  obtain ⟨r1, f1⟩ := rinv_of_rd HI s (runOnceSend fuel s) allIn del (runOnceSend_rd fuel s) hb.r
  have heof1 : (runOnceSend fuel s).inEof = false := f1.trans hb.eof
  revert hd
  unfold runOnce
  simp only
  split
  · intro hd
    obtain ⟨a, b, c, d⟩ := evRead_ok HI hh fuel _ allIn del r1 c1 heof1 hd
    refine ⟨⟨runinv_of_wr H _ _ sub (evRead_wr fuel _) w1, a, b, c.trans e1, d⟩, ?_⟩
    intro h; simp at h
  · rename_i hcond
    intro _
    refine ⟨⟨w1, by simpa using r1, c1, e1, heof1⟩, ?_⟩
    intro _
    simp only [c1, Bool.true_and, Bool.or_eq_true, not_or, readable, pending, heof1, Bool.or_false] at hcond
    obtain ⟨h1, h2⟩ := hcond
    refine ⟨?_, ?_, rfl⟩
    · exact List.isEmpty_iff.mp (by simpa using h1)
    · cases h : (runOnceSend fuel s).inPend with
      | none => rfl
      | some p => simp [h] at h2

theorem readLoop_ok (H : HDeflate C) (HI : HInflate C) (hh : Healthy C) (wfuel : Nat) :
    ∀ (fuel : Nat) (s : St C) (acc : Bytes) (rets : List Int) (sub allIn del : Bytes),
    Both H HI s sub allIn del → (readLoop wfuel fuel s acc rets).1.diverged = false →
    ∃ x, (readLoop wfuel fuel s acc rets).2.1 = acc ++ x ∧
      Both H HI (readLoop wfuel fuel s acc rets).1 sub allIn (del ++ x) ∧
      (readLoop wfuel fuel s acc rets).1.inq = [] ∧ (readLoop wfuel fuel s acc rets).1.inPend = none := by
  intro fuel
  induction fuel with
  | zero => intro s acc rets sub allIn del _ hd; simp [readLoop] at hd
  | succ fuel ih =>
    intro s acc rets sub allIn del hb hd
    have hb0 : Both H HI { s with sched := [] } sub allIn del :=
      ⟨⟨hb.w.okz, hb.w.stream, hb.w.outLe, hb.w.wf, hb.w.sub⟩,
       ⟨hb.r.oki, hb.r.input, hb.r.output, hb.r.quiet⟩, hb.conn, hb.err, hb.eof⟩
    have hn0 : NoErr { s with sched := [] } := by simp [NoErr]
    revert hd
    unfold readLoop
    split
    · simp only
      split
      · rename_i hemp
        intro hd
        have hd' : (runOnce wfuel { s with sched := [] }).1.diverged = false := hd
        obtain ⟨b1, b2⟩ := runOnce_ok H HI hh wfuel _ sub allIn del hb0 hn0 hd'
        obtain ⟨q1, q2, q3⟩ := b2 hemp
        rw [q3, List.append_nil] at b1
        exact ⟨[], by simp, by simpa using b1, q1, q2⟩
      · intro hd
        have hd' : (runOnce wfuel { s with sched := [] }).1.diverged = false :=
          nodiv_of_le (readLoop_le _ _ _ _ _) hd
        obtain ⟨b1, _⟩ := runOnce_ok H HI hh wfuel _ sub allIn del hb0 hn0 hd'
        obtain ⟨x, hx, hbx, hq1, hq2⟩ := ih _ (acc ++ (runOnce wfuel { s with sched := [] }).2.1)
          (rets ++ (runOnce wfuel { s with sched := [] }).2.2) sub allIn _ b1 hd
        refine ⟨(runOnce wfuel { s with sched := [] }).2.1 ++ x, ?_, ?_, hq1, hq2⟩
        · rw [hx, List.append_assoc]
        · rw [← List.append_assoc]; exact hbx
    · rename_i hnc
      intro _
      exact absurd hb.conn hnc

/-- the fold of `rxAll`, from an arbitrary accumulator -/
def rxFold (wfuel fuel : Nat) (p : St C × Bytes) (frags : List Bytes) : St C × Bytes :=
  frags.foldl (fun p f => let r := rxFragment wfuel fuel p.1 f; (r.1, p.2 ++ r.2.1)) p

theorem rxFold_cons (wfuel fuel : Nat) (p : St C × Bytes) (f : Bytes) (tl : List Bytes) :
    rxFold wfuel fuel p (f :: tl) =
      rxFold wfuel fuel ((rxFragment wfuel fuel p.1 f).1, p.2 ++ (rxFragment wfuel fuel p.1 f).2.1) tl := rfl

theorem rxFold_le (wfuel fuel : Nat) : ∀ (frags : List Bytes) (p : St C × Bytes),
    FlagsLe p.1 (rxFold wfuel fuel p frags).1 := by
  intro frags
  induction frags with
  | nil => intro p; exact FlagsLe.refl _
  | cons f tl ih =>
    intro p
    rw [rxFold_cons]
    refine FlagsLe.trans ?_ (ih _)
    unfold rxFragment
    exact FlagsLe.trans (t := { p.1 with inq := p.1.inq ++ f }) ⟨by simp, by simp⟩ (readLoop_le _ _ _ _ _)

theorem rxFold_ok (H : HDeflate C) (HI : HInflate C) (hh : Healthy C) (wfuel fuel : Nat) :
    ∀ (frags : List Bytes) (p : St C × Bytes) (sub allIn : Bytes),
    Both H HI p.1 sub allIn p.2 → p.1.inq = [] → p.1.inPend = none →
    (rxFold wfuel fuel p frags).1.diverged = false →
    Both H HI (rxFold wfuel fuel p frags).1 sub (allIn ++ frags.flatten) (rxFold wfuel fuel p frags).2 ∧
    (rxFold wfuel fuel p frags).1.inq = [] ∧ (rxFold wfuel fuel p frags).1.inPend = none := by
  intro frags
  induction frags with
  | nil => intro p sub allIn hb hq hp _; simpa [rxFold] using ⟨hb, hq, hp⟩
  | cons f tl ih =>
    intro p sub allIn hb hq hp hd
    rw [rxFold_cons] at hd ⊢
    have hd1 : (rxFragment wfuel fuel p.1 f).1.diverged = false := nodiv_of_le (rxFold_le wfuel fuel tl _) hd
    have hb1 : Both H HI { p.1 with inq := p.1.inq ++ f } sub (allIn ++ f) p.2 := by
      refine ⟨⟨hb.w.okz, hb.w.stream, hb.w.outLe, hb.w.wf, hb.w.sub⟩,
        ⟨hb.r.oki, ?_, hb.r.output, hb.r.quiet⟩, hb.conn, hb.err, hb.eof⟩
      show HI.cons p.1.zi ++ (p.1.inPend.getD [] ++ (p.1.inq ++ f)) = allIn ++ f
      rw [← hb.r.input]
      simp [List.append_assoc]
    obtain ⟨x, hx, hbx, hq1, hp1⟩ := readLoop_ok H HI hh wfuel fuel _ [] [] sub (allIn ++ f) p.2 hb1 hd1
    have hfx : (rxFragment wfuel fuel p.1 f).2.1 = x := by
      unfold rxFragment; rw [hx]; simp
    have h2 := ih ((rxFragment wfuel fuel p.1 f).1, p.2 ++ (rxFragment wfuel fuel p.1 f).2.1) sub (allIn ++ f)
      (by rw [hfx]; exact hbx) hq1 hp1 hd
    simpa [List.append_assoc] using h2

theorem init_rinv (HI : HInflate C) (dr : Bool) : RInv HI (init C dr) [] [] :=
  ⟨HI.init_ok, by simp [init, HI.init_cons], by simp [init, HI.init_prod],
   fun _ => by simp [init, HI.init_cons, HI.init_prod, HI.plain_nil]⟩

/-- however the compressed bytes of a healthy stream are fragmented: the connection stays up and
    the parser gets exactly the plaintext of everything that arrived -/
theorem read_ok (H : HDeflate C) (HI : HInflate C) (hh : Healthy C) (dr : Bool) (wfuel fuel : Nat)
    (frags : List Bytes) (hd : (rxAll wfuel fuel (init C dr) frags).1.diverged = false) :
    (rxAll wfuel fuel (init C dr) frags).1.connected = true ∧
    (rxAll wfuel fuel (init C dr) frags).2 = HI.plain frags.flatten := by
  have hb0 : Both H HI (init C dr, ([] : Bytes)).1 [] [] (init C dr, ([] : Bytes)).2 :=
    ⟨init_inv H dr, init_rinv HI dr, rfl, rfl, rfl⟩
  obtain ⟨hb, hq, hp⟩ := rxFold_ok H HI hh wfuel fuel frags (init C dr, []) [] [] hb0 rfl rfl hd
  refine ⟨hb.conn, ?_⟩
  have hin := hb.r.input
  rw [hq, hp] at hin
  simp only [Option.getD_none, List.append_nil, List.nil_append] at hin
  show (rxFold wfuel fuel (init C dr, []) frags).2 = _
  rw [← hb.r.output, hb.r.quiet hp, hin]

end Strophe.Lemmas.Compression
